(** Proofs: soundness of the exact dyadic residual checkers [chk_ldl] / [chk_solve]. *)
From Coq Require Import List Arith ZArith NArith QArith Qabs Lia Bool.
Import ListNotations.
Require Import Clarabel.Base.Ops Clarabel.Base.Dyadic Clarabel.Qdldl.Model Clarabel.Qdldl.Check
               Clarabel.Qdldl.SpecChk.
Local Open Scope nat_scope.

Lemma ofb_0 (b : bool) : ofb b = 0%N -> b = true.
Proof. destruct b; [reflexivity | discriminate]. Qed.

(** [Qsum] respects pointwise [Qeq] *)
Lemma fold_Qplus_ext (l l' : list Q) (a a' : Q) :
  Forall2 Qeq l l' -> (a == a')%Q -> (fold_left Qplus l a == fold_left Qplus l' a')%Q.
Proof.
  intros HF. revert a a'. induction HF as [|x y l l' Hxy HF IH]; intros a a' Ha; cbn [fold_left].
  - exact Ha.
  - apply IH. rewrite Ha, Hxy. reflexivity.
Qed.

Lemma Qsum_map_ext {A : Type} (f g : A -> Q) (l : list A) :
  (forall a, (f a == g a)%Q) -> (Qsum (map f l) == Qsum (map g l))%Q.
Proof.
  intros Hfg. unfold Qsum. apply fold_Qplus_ext; [|reflexivity].
  induction l as [|a l IH]; cbn [map]; constructor; [apply Hfg | exact IH].
Qed.

Lemma combine_map_l {A B C : Type} (f : A -> B) (x : list A) (y : list C) :
  combine (map f x) y = map (fun p => (f (fst p), snd p)) (combine x y).
Proof.
  revert y; induction x as [|a x IH]; intros [|c y]; cbn [map combine fst snd]; try reflexivity.
  rewrite IH. reflexivity.
Qed.

Lemma combine_map_lr {A B C E : Type} (f : A -> B) (g : C -> E) (x : list A) (y : list C) :
  combine (map f x) (map g y) = map (fun p => (f (fst p), g (snd p))) (combine x y).
Proof.
  revert y; induction x as [|a x IH]; intros [|c y]; cbn [map combine fst snd]; try reflexivity.
  rewrite IH. reflexivity.
Qed.

Lemma ddot_sem (x y : list dy) : (d2Q (ddot x y) == Qdot x y)%Q.
Proof.
  unfold ddot, Qdot. rewrite dsum_sem, map_map. apply Qsum_map_ext.
  intros p. apply dmul_sem.
Qed.

Lemma ddot_aa_sem (x y : list dy) : (d2Q (ddot (map dabs x) (map dabs y)) == Qdot_aa x y)%Q.
Proof.
  rewrite ddot_sem. unfold Qdot, Qdot_aa. rewrite combine_map_lr, map_map.
  apply Qsum_map_ext. intros p. cbn [fst snd]. rewrite !dabs_sem. reflexivity.
Qed.

Lemma ddot_al_sem (x y : list dy) : (d2Q (ddot (map dabs x) y) == Qdot_al x y)%Q.
Proof.
  rewrite ddot_sem. unfold Qdot, Qdot_al. rewrite combine_map_l, map_map.
  apply Qsum_map_ext. intros p. cbn [fst snd]. rewrite dabs_sem. reflexivity.
Qed.

(** * GOAL 1 *)
Lemma chk_ldl_sound : stmt_chk_ldl_sound.
Proof.
  intros c n perm Acp Arv Anz Lp Li Lx Dg Hchk i j Hij rows terms.
  unfold chk_ldl in Hchk. apply ofb_0 in Hchk.
  rewrite forallb_forall in Hchk.
  assert (Hi : In i (seq 0 (N.to_nat n))) by (apply in_seq; lia).
  specialize (Hchk i Hi). rewrite forallb_forall in Hchk.
  assert (Hj : In j (seq i (N.to_nat n - i))) by (apply in_seq; lia).
  specialize (Hchk j Hj). cbv zeta in Hchk.
  fold rows in Hchk. fold terms in Hchk.
  apply dleb_true in Hchk.
  rewrite dabs_sem, dsub_sem, dmul_sem, !dsum_sem, map_map in Hchk.
  rewrite (Qsum_map_ext (fun t => d2Q (dabs t)) (fun t => Qabs (d2Q t)) terms) in Hchk
    by (intros t; apply dabs_sem).
  exact Hchk.
Qed.

Lemma Qabs_le0 (x : Q) : (Qabs x <= 0)%Q -> (x == 0)%Q.
Proof.
  intros H. apply Qabs_Qle_condition in H. destruct H as [H1 H2].
  apply Qle_antisym; [exact H2 | exact H1].
Qed.

(** * GOAL 3 *)
Lemma chk_ldl_exact : stmt_chk_ldl_exact.
Proof.
  intros n perm Acp Arv Anz Lp Li Lx Dg Hchk i j Hij rows terms.
  pose proof (chk_ldl_sound 0%Z n perm Acp Arv Anz Lp Li Lx Dg Hchk i j Hij) as Hb.
  cbv zeta in Hb. fold rows in Hb. fold terms in Hb.
  assert (Hg : (d2Q (D (0 * Z.of_N n) (-53)) == 0)%Q).
  { rewrite Z.mul_0_l. reflexivity. }
  rewrite Hg, Qmult_0_l in Hb. apply Qabs_le0 in Hb.
  rewrite <- (Qplus_0_l (Qsum (map d2Q terms))). rewrite <- Hb. ring.
Qed.

(** * GOAL 2 *)
Lemma chk_solve_sound : stmt_chk_solve_sound.
Proof.
  intros c n perm Acp Arv Anz Lp Li Lx Dg b x Hchk.
  unfold chk_solve in Hchk. apply ofb_0 in Hchk.
  apply andb_true_iff in Hchk. destruct Hchk as [Hlen Hall].
  apply andb_true_iff in Hlen. destruct Hlen as [Hlb Hlx].
  apply Nat.eqb_eq in Hlb. apply Nat.eqb_eq in Hlx.
  split; [exact Hlb|]. split; [exact Hlx|].
  intros i Hi n' p xp rows axp w dw oi ai.
  rewrite forallb_forall in Hall.
  assert (Hin : In i (seq 0 (N.to_nat n))) by (apply in_seq; lia).
  specialize (Hall i Hin). cbv zeta in Hall.
  fold n' in Hall. fold p in Hall. fold xp in Hall. fold rows in Hall. fold axp in Hall.
  fold w in Hall. fold dw in Hall. fold oi in Hall. fold ai in Hall.
  apply dleb_true in Hall.
  rewrite dabs_sem, dsub_sem, dmul_sem, dadd_sem, ddot_sem, ddot_aa_sem, ddot_al_sem in Hall.
  exact Hall.
Qed.

(** * Non-vacuity: A = [[2,1],[1,3]] = L D L', L21 = 1/2, D = [2, 5/2] *)
Example chk_ldl_ex_ok :
  chk_ldl 0 2 [0;1]%N [0;1;3]%N [0;0;1]%N [D 2 0; D 1 0; D 3 0]
          [0;1;1]%N [1]%N [D 1 (-1)] [D 2 0; D 5 (-1)] = 0%N.
Proof. vm_compute. reflexivity. Qed.

(** the same with a wrong pivot D[1] = 3: rejected *)
Example chk_ldl_ex_bad :
  chk_ldl 0 2 [0;1]%N [0;1;3]%N [0;0;1]%N [D 2 0; D 1 0; D 3 0]
          [0;1;1]%N [1]%N [D 1 (-1)] [D 2 0; D 3 0] = 1%N.
Proof. vm_compute. reflexivity. Qed.

(** solve: A x = b with x = [1;1], b = [3;4] accepted exactly; b = [3;5] rejected *)
Example chk_solve_ex_ok :
  chk_solve 0 2 [0;1]%N [0;1;3]%N [0;0;1]%N [D 2 0; D 1 0; D 3 0]
            [0;1;1]%N [1]%N [D 1 (-1)] [D 2 0; D 5 (-1)] [D 3 0; D 4 0] [D 1 0; D 1 0] = 0%N.
Proof. vm_compute. reflexivity. Qed.
Example chk_solve_ex_bad :
  chk_solve 0 2 [0;1]%N [0;1;3]%N [0;0;1]%N [D 2 0; D 1 0; D 3 0]
            [0;1;1]%N [1]%N [D 1 (-1)] [D 2 0; D 5 (-1)] [D 3 0; D 5 0] [D 1 0; D 1 0] = 1%N.
Proof. vm_compute. reflexivity. Qed.
