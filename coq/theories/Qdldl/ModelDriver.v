(** Executable model of the code that drives the QDLDL kernel:
    src/solver/core/kktsolvers/direct/quasidef/directldlkktsolver.rs
      (_update_values / _scale_values, regularize_and_refactor, _compute_regularizer,
       solve, iterative_refinement, _get_refine_error, get_ldlsolver_config)
    src/solver/core/kktsolvers/direct/quasidef/ldlsolvers/{qdldl.rs, auto.rs}
      (QDLDLDirectLDLSolver::{new, solve, refactor}, ldl_auto_select)
    and the vector kernels they use (norm_inf, axpby, is_finite, symmetric symv).
    One term over [Ops T] plus the three floating-point predicates of [FlOps]; for an ordered
    field [FlField] (nothing is NaN, everything is finite).  No proofs in this file. *)
From Coq Require Import List Arith ZArith Lia Bool String Floats.
Import ListNotations.
Require Import Clarabel.Base.Ops Clarabel.Qdldl.Model.
Local Open Scope nat_scope.

Record FlOps (T : Type) : Type := mkFl { is_nan : T -> bool; is_fin : T -> bool; nanv : T }.
Arguments is_nan {T}. Arguments is_fin {T}. Arguments nanv {T}.
Definition FlF : FlOps float :=
  {| is_nan := PrimFloat.is_nan; is_fin := PrimFloat.is_finite; nanv := nan |}.
Definition FlField {T} (z : T) : FlOps T :=
  {| is_nan := fun _ => false; is_fin := fun _ => true; nanv := z |}.

Section Driver.
Context {T : Type} (O : Ops T) (FL : FlOps T).

(** ** vector kernels (algebra/vecmath.rs, algebra/csc/matrix_math.rs) *)
Fixpoint norm_inf_go (l : list T) (out : T) : T :=
  match l with
  | [] => out
  | v :: r => if is_nan FL v then nanv FL else norm_inf_go r (omax O out (abs O v))
  end.
Definition norm_inf (l : list T) : T := norm_inf_go l (zero O).
Definition all_finite (l : list T) : bool := forallb (is_fin FL) l.
(** y.axpby(a, x, b): y_i := a*x_i + b*y_i *)
Definition axpby (y : list T) (a : T) (x : list T) (b : T) : list T :=
  map (fun yx => add O (mul O a (snd yx)) (mul O b (fst yx))) (combine y x).
(** y := a*sym(K)*x + b*y for an upper (or lower) triangular K; the operation order is the
    one of _csc_symv_unsafe *)
Definition symv (K : spm (T:=T)) (y x : list T) (a b : T) : list T :=
  let y0 := map (fun v => mul O v b) y in
  fold_left
    (fun y col =>
       let xcol := nth col x (zero O) in
       fold_left
         (fun y idx =>
            let row := nth idx (rowval K) 0 in
            let Aij := nth idx (nzval K) (zero O) in
            let y1 := upd y row (add O (nth row y (zero O)) (mul O (mul O a Aij) xcol)) in
            if Nat.eqb row col then y1
            else upd y1 col (add O (nth col y1 (zero O)) (mul O (mul O a Aij) (nth row x (zero O)))))
         (col_range (colptr K) col) y)
    (seq 0 (List.length x)) y0.

(** _get_refine_error: e = b - K xi and its infinity norm *)
Definition refine_error (K : spm (T:=T)) (b xi : list T) : list T * T :=
  let e := symv K b xi (neg O (one O)) (one O) in (e, norm_inf e).

(** ** iterative refinement, generic in the two operations it uses:
    [solvef e] = ldlsolver.solve(K, dx, e);  [errf cand] = _get_refine_error(e, b, K, cand) *)
Record ir_params : Type := mkIR
  { ir_reltol : T; ir_abstol : T; ir_stopratio : T; ir_maxiter : nat }.
(** what happened in one pass of the loop *)
Inductive ir_step : Type :=
  | IrNonFinite (norme : T)               (* return false *)
  | IrAccept (norme : T)                  (* swap(x, dx), continue *)
  | IrStopAccept (norme : T)              (* insufficient improvement, but better: swap, break *)
  | IrStopReject (norme : T).             (* insufficient improvement, not better: break *)
Record ir_result : Type := mkIRR
  { irr_ok : bool; irr_x : list T; irr_norm0 : T; irr_steps : list ir_step }.

Section Loop.
Variables (solvef : list T -> list T) (errf : list T -> list T * T).
Variables (P : ir_params) (normb : T).

Fixpoint ir_loop (fuel : nat) (x e : list T) (norme : T) (steps : list ir_step)
  : bool * list T * list ir_step :=
  match fuel with
  | 0 => (true, x, steps)
  | S f =>
      if leb O norme (add O (ir_abstol P) (mul O (ir_reltol P) normb)) then (true, x, steps)
      else
        let dx := solvef e in
        let cand := axpby dx (one O) x (one O) in
        let '(e', norme') := errf cand in
        if negb (is_fin FL norme') then (false, x, steps ++ [IrNonFinite norme'])
        else
          let ratio := div O norme norme' in
          if ltb O ratio (ir_stopratio P) then
            if ltb O (one O) ratio then (true, cand, steps ++ [IrStopAccept norme'])
            else (true, x, steps ++ [IrStopReject norme'])
          else ir_loop f cand e' norme' (steps ++ [IrAccept norme'])
  end.

Definition ir_run (x0 : list T) : ir_result :=
  let '(e0, norme0) := errf x0 in
  if negb (is_fin FL norme0) then mkIRR false x0 norme0 []
  else let '(ok, x, steps) := ir_loop (ir_maxiter P) x0 e0 norme0 [] in mkIRR ok x norme0 steps.
End Loop.

(** ** the driver object: unpermuted KKT copy + the QDLDL factorisation + maps *)
Record dstate : Type := mkDS
  { d_K : spm (T:=T); d_F : fact (T:=T); d_dsigns : list Z; d_diag : list nat;
    d_eps : T }.                                       (* diagonal_regularizer *)

Definition set_K_vals (K : spm (T:=T)) (v : list T) : spm (T:=T) :=
  mkSpm (sm K) (sn K) (colptr K) (rowval K) v.
Definition kkt_update_vals (K : spm (T:=T)) (index : list nat) (values : list T) : spm (T:=T) :=
  set_K_vals K (fold_left (fun nz iv => upd nz (fst iv) (snd iv)) (combine index values) (nzval K)).
Definition kkt_scale_vals (K : spm (T:=T)) (index : list nat) (s : T) : spm (T:=T) :=
  set_K_vals K (fold_left (fun nz i => upd nz i (mul O (nth i nz (zero O)) s)) index (nzval K)).

(** _update_values / _scale_values: both copies *)
Definition drv_update_values (st : dstate) (index : list nat) (values : list T) : dstate :=
  mkDS (kkt_update_vals (d_K st) index values) (update_values (d_F st) index values)
       (d_dsigns st) (d_diag st) (d_eps st).
Definition drv_scale_values (st : dstate) (index : list nat) (s : T) : dstate :=
  mkDS (kkt_scale_vals (d_K st) index s) (scale_values O (d_F st) index s)
       (d_dsigns st) (d_diag st) (d_eps st).

(** QDLDLDirectLDLSolver::new: a LOGICAL factorisation with the given ordering; dynamic
    regularisation is switched on by [dyn_enable] (settings.dynamic_regularization_enable) *)
Definition drv_new (K : spm (T:=T)) (dsigns : list Z) (diag : list nat) (perm : list nat)
           (dyn_enable : bool) (dyn_eps dyn_delta : T) : res dstate :=
  do F <- qnew O K (mkSet perm true (Some dsigns) dyn_enable dyn_eps dyn_delta);
  Ok (mkDS K F dsigns diag (zero O)).

(** QDLDLDirectLDLSolver::refactor: factors.refactor() (an Err is mapped to failure), then
    Dinv.is_finite() *)
Definition ldl_refactor (F : fact (T:=T)) : fact (T:=T) * bool :=
  match refactor O F with
  | Ok F' => (F', all_finite (f_Dinv F'))
  | Err _ => (F, false)
  end.

Definition compute_regularizer (diag_kkt : list T) (rconst rprop : T) : T :=
  add O rconst (mul O rprop (norm_inf diag_kkt)).
Definition shift_diag (diag_kkt : list T) (dsigns : list Z) (eps : T) : list T :=
  map (fun ds => if Z.eqb (snd ds) 1 then add O (fst ds) eps else sub O (fst ds) eps)
      (combine diag_kkt dsigns).

(** regularize_and_refactor *)
Definition regularize_and_refactor (st : dstate) (static_enable : bool) (rconst rprop : T)
  : dstate * bool :=
  if static_enable then
    let diag_kkt := map (fun idx => nth idx (nzval (d_K st)) (zero O)) (d_diag st) in
    let eps := compute_regularizer diag_kkt rconst rprop in
    let diag_shifted := shift_diag diag_kkt (d_dsigns st) eps in
    let st1 := drv_update_values st (d_diag st) diag_shifted in
    let '(F', ok) := ldl_refactor (d_F st1) in
    (* put the KKT copy (only) back *)
    (mkDS (kkt_update_vals (d_K st1) (d_diag st) diag_kkt) F' (d_dsigns st) (d_diag st) eps, ok)
  else
    let '(F', ok) := ldl_refactor (d_F st) in
    (mkDS (d_K st) F' (d_dsigns st) (d_diag st) (d_eps st), ok).

(** KKTSolver::solve on the assembled right-hand side b (length n+m+p) *)
Definition drv_solve (st : dstate) (b : list T) (ir_enable : bool) (P : ir_params)
  : res ir_result :=
  do x0 <- solve O (d_F st) b;
  if ir_enable then
    Ok (ir_run (fun e => match solve O (d_F st) e with Ok dx => dx | Err _ => e end)
               (refine_error (d_K st) b) P (norm_inf b) x0)
  else Ok (mkIRR (all_finite x0) x0 (zero O) []).

End Driver.

(** ** backend dispatch (get_ldlsolver_config, validate_direct_solve_method, ldl_auto_select) *)
Inductive backend : Set := BQdldl | BFaer.
Inductive dispatch_res : Set := DOk (b : backend) | DPanic.
(** settings validation (builder / DefaultSettings::validate) *)
Definition validate_method (faer_feature : bool) (s : string) : bool :=
  if String.eqb s "auto"%string then true
  else if String.eqb s "qdldl"%string then true
  else if String.eqb s "faer"%string then faer_feature
  else false.
(** which solver ends up factoring; [ratio_lt] = (flops / Lnnz) < 40 from the AMD statistics *)
Definition dispatch (faer_feature : bool) (s : string) (ratio_lt : bool) : dispatch_res :=
  if String.eqb s "auto"%string then
    DOk (if faer_feature then (if ratio_lt then BQdldl else BFaer) else BQdldl)
  else if String.eqb s "qdldl"%string then DOk BQdldl
  else if String.eqb s "faer"%string then (if faer_feature then DOk BFaer else DPanic)
  else DPanic.
Definition auto_ratio_lt {T} (O : Ops T) (n_div n_mult lnz thresh : T) : bool :=
  ltb O (div O (add O n_div n_mult) lnz) thresh.
