(** Proof of the statement in SpecPermEntries.v: the permuted copy P holds sym(A) at
    permuted positions. *)
From Coq Require Import List Arith ZArith Lia Bool Permutation.
Import ListNotations.
Require Import Clarabel.Base.Ops Clarabel.Qdldl.Model Clarabel.Qdldl.SpecSolve
               Clarabel.Qdldl.SpecPerm Clarabel.Qdldl.LemmasPerm
               Clarabel.Qdldl.SpecPermSym Clarabel.Qdldl.LemmasPermSym
               Clarabel.Qdldl.SpecFactorCorrect
               Clarabel.Qdldl.SpecPermNoDup Clarabel.Qdldl.LemmasPermNoDup
               Clarabel.Qdldl.SpecPermEntries.

(** * list helpers *)

(** a filter is empty as soon as no member satisfies the predicate *)
Lemma pe_filter_nil {X} (p : X -> bool) (l : list X) :
  (forall z, In z l -> p z = true -> False) -> filter p l = [].
Proof.
  intros Hno. destruct (filter p l) as [|y r] eqn:E; [reflexivity|].
  assert (Hin : In y (filter p l)) by (rewrite E; now left).
  apply filter_In in Hin. destruct Hin as (Hy & Hpy).
  exfalso. exact (Hno y Hy Hpy).
Qed.

(** a filter by key of a list with pairwise distinct keys is the one member with that key *)
Lemma pe_filter_single (f : nat -> nat) (l : list nat) :
  NoDup (map f l) -> forall x v, In x l -> f x = v ->
  filter (fun y => f y =? v) l = [x].
Proof.
  induction l as [|y r IH]; intros Hnd x v Hx Hv; [destruct Hx|].
  simpl in Hnd. inversion Hnd as [|y0 ys Hnin Hnd']; subst y0 ys.
  simpl. destruct Hx as [Hx|Hx].
  - subst y. rewrite Hv, Nat.eqb_refl. f_equal.
    apply pe_filter_nil. intros z Hz Hpz. apply Nat.eqb_eq in Hpz.
    apply Hnin. rewrite Hv, <- Hpz. now apply in_map.
  - destruct (f y =? v) eqn:E.
    + apply Nat.eqb_eq in E. exfalso. apply Hnin. rewrite E, <- Hv. now apply in_map.
    + now apply IH.
Qed.

(** either no member satisfies, or there is one *)
Lemma pe_filter_cases {X} (p : X -> bool) (l : list X) :
  filter p l = [] \/ exists k, In k l /\ p k = true.
Proof.
  destruct (filter p l) as [|y r] eqn:E; [now left|right].
  assert (Hin : In y (filter p l)) by (rewrite E; now left).
  apply filter_In in Hin. now exists y.
Qed.

(** * the position-wise statement for an ordered pair (r, c) of A *)
Lemma pe_entry_at {T} (O : Ops T) (A : spm (T:=T)) iperm :
  wf_csc A -> sm A = sn A -> upper_tri_ps A ->
  triu_nodup (sn A) (colptr A) (rowval A) ->
  length iperm = sn A -> (forall i, i < sn A -> nth i iperm 0 < sn A) -> NoDup iperm ->
  forall i j r c, j < sn A -> r <= c -> c < sn A ->
    Nat.min (nth c iperm 0) (nth r iperm 0) = i ->
    Nat.max (nth r iperm 0) (nth c iperm 0) = j ->
    Aent O (colptr (fst (permute_symmetric O A iperm)))
           (rowval (fst (permute_symmetric O A iperm)))
           (nzval (fst (permute_symmetric O A iperm))) i j
    = Aent O (colptr A) (rowval A) (nzval A) r c.
Proof.
  intros Hwf Hsq Hup Htn Hlen Hrng Hind i j r c Hj Hrc Hc Hmin Hmax.
  pose proof (permute_symmetric_amap_onto_ok T O A iperm Hwf Hsq Hup Hlen Hrng) as Honto.
  pose proof (permute_symmetric_triu_nodup_ok T O A iperm Hwf Hsq Hup Htn Hlen Hrng Hind)
    as HtnP.
  destruct (permute_symmetric_spec_ok T O A iperm Hwf Hsq Hup Hlen Hrng)
    as (HwfP & HsmP & HsnP & HupP & HnnzP & Hal & Hand & Hent).
  cbv zeta in Honto, Hent, HtnP.
  set (P := fst (permute_symmetric O A iperm)) in *.
  set (amap := snd (permute_symmetric O A iperm)) in *.
  destruct Htn as (_ & HndA). destruct HtnP as (_ & HndP).
  unfold Aent.
  destruct (pe_filter_cases (fun idx => nth idx (rowval A) 0 =? r) (col_range (colptr A) c))
    as [Hnil|(k & Hkin & Hkr)].
  - (* no entry of A at (r, c): none of P at (i, j) *)
    rewrite Hnil.
    rewrite (pe_filter_nil (fun idx => nth idx (rowval P) 0 =? i) (col_range (colptr P) j));
      [reflexivity|].
    intros q Hq Hqi. apply Nat.eqb_eq in Hqi.
    apply pnd_in_col_range in Hq.
    assert (Hcq : col_of P q j) by (unfold col_of; split; [lia|assumption]).
    pose proof (ps_col_of_lt P q j HwfP Hcq) as Hqlt. rewrite HnnzP in Hqlt.
    destruct (Honto q Hqlt) as (k' & Hk' & Hk'q).
    destruct (col_of_exists_ok T A k' Hwf Hk') as (c' & Hkc').
    destruct (Hent k' c' Hk' Hkc') as (_ & _ & Hrow' & Hcol').
    rewrite Hk'q in Hrow', Hcol'.
    pose proof (ps_col_of_unique P q _ _ HwfP Hcq Hcol') as Hj'.
    destruct Hkc' as (Hc'n & Hk'r).
    pose proof (Hup c' k' Hc'n Hk'r) as Hr'.
    set (r' := nth k' (rowval A) 0) in *.
    assert (Hmax' : Nat.max (nth r' iperm 0) (nth c' iperm 0)
                    = Nat.max (nth r iperm 0) (nth c iperm 0)) by lia.
    assert (Hmin' : Nat.min (nth c' iperm 0) (nth r' iperm 0)
                    = Nat.min (nth c iperm 0) (nth r iperm 0)) by lia.
    assert (Heq : r' = r /\ c' = c).
    { destruct (pnd_minmax _ _ _ _ Hmax' Hmin') as [(Ha & Hb)|(Ha & Hb)].
      - split; apply (pnd_nth_inj iperm (sn A)); assumption || lia.
      - assert (r' = c) by (apply (pnd_nth_inj iperm (sn A)); assumption || lia).
        assert (c' = r) by (apply (pnd_nth_inj iperm (sn A)); assumption || lia).
        lia. }
    destruct Heq as (Hr'r & Hc'c). subst c'.
    assert (Hin : In k' (filter (fun idx => nth idx (rowval A) 0 =? r)
                                (col_range (colptr A) c))).
    { apply filter_In. split.
      - now apply pnd_in_col_range.
      - apply Nat.eqb_eq. exact Hr'r. }
    rewrite Hnil in Hin. destruct Hin.
  - (* the entry k of A at (r, c) goes to the only entry of P at (i, j) *)
    apply Nat.eqb_eq in Hkr.
    rewrite (pe_filter_single (fun idx => nth idx (rowval A) 0) (col_range (colptr A) c)
                              (HndA c Hc) k r Hkin Hkr).
    assert (Hkc : col_of A k c).
    { unfold col_of. split; [assumption|]. now apply pnd_in_col_range. }
    pose proof (ps_col_of_lt A k c Hwf Hkc) as Hklt.
    destruct (Hent k c Hklt Hkc) as (_ & Hval & Hrow & Hcol).
    rewrite Hkr in Hrow, Hcol. rewrite Hmin in Hrow. rewrite Hmax in Hcol.
    destruct Hcol as (_ & Hqr).
    assert (Hqin : In (nth k amap 0) (col_range (colptr P) j))
      by now apply pnd_in_col_range.
    rewrite (pe_filter_single (fun idx => nth idx (rowval P) 0) (col_range (colptr P) j)
                              (HndP j Hj) (nth k amap 0) i Hqin Hrow).
    unfold isum. cbn [fold_right]. rewrite Hval. reflexivity.
Qed.

(** * main statement *)
Lemma permuted_entries_ok : stmt_permuted_entries.
Proof.
  intros T O A perm iperm Hwf Hsq Hup Htn Hlp Hinv P i j Hij Hj.
  destruct (invperm_inverse_ok perm iperm Hinv) as (Hlen & Hpi & Hip & Hperm).
  rewrite Hlp in Hlen, Hpi, Hip.
  apply is_perm_iff in Hperm. destruct Hperm as (Hind & Hilt).
  rewrite Hlen in Hilt.
  assert (Hrng : forall x, x < sn A -> nth x iperm 0 < sn A).
  { intros x Hx. apply Hilt. apply nth_In. lia. }
  assert (Hpperm : SpecPerm.is_perm perm).
  { apply invperm_ok_iff_perm_ok. now exists iperm. }
  apply is_perm_iff in Hpperm. destruct Hpperm as (_ & Hplt).
  rewrite Hlp in Hplt.
  assert (Hprng : forall x, x < sn A -> nth x perm 0 < sn A).
  { intros x Hx. apply Hplt. apply nth_In. lia. }
  assert (Hi : i < sn A) by lia.
  pose proof (Hprng i Hi) as Ha. pose proof (Hprng j Hj) as Hb.
  pose proof (Hpi i Hi) as Hia. pose proof (Hpi j Hj) as Hjb.
  set (a := nth i perm 0) in *. set (b := nth j perm 0) in *.
  unfold Asym. subst P.
  destruct (a <=? b) eqn:Eab.
  - apply Nat.leb_le in Eab.
    apply (pe_entry_at O A iperm Hwf Hsq Hup Htn Hlen Hrng Hind i j a b Hj Eab Hb); lia.
  - apply Nat.leb_gt in Eab.
    apply (pe_entry_at O A iperm Hwf Hsq Hup Htn Hlen Hrng Hind i j b a Hj); lia.
Qed.
