(** Composition of the part lemmas into the statements of Spec.v. *)
From Coq Require Import List Arith ZArith Lia Bool Permutation.
Import ListNotations.
Require Import Clarabel.Base.Ops Clarabel.Qdldl.Model Clarabel.Qdldl.Spec.
Require Import Clarabel.Qdldl.LemmasPerm Clarabel.Qdldl.LemmasPermSym Clarabel.Qdldl.LemmasRefactor.

Definition GoodPS {T} (A : spm (T:=T)) (ip : list nat) : Prop :=
  wf_csc A /\ sm A = sn A /\ upper_tri_ps A /\ length ip = sn A /\
  (forall i, i < sn A -> nth i ip 0 < sn A).

Lemma col_of_exists {T} (A : spm (T:=T)) k :
  wf_csc A -> sm A = sn A -> upper_tri_ps A -> k < nnz A -> exists c, col_of A k c.
Proof.
  intros Hwf Hsq Hut Hk.
  destruct (triu_tasks_all_ok T A Hwf Hsq Hut) as [Hfst [Hcol _]].
  assert (Hlen : length (triu_tasks A) = nnz A).
  { rewrite <- (map_length fst), Hfst, seq_length; reflexivity. }
  destruct (nth k (triu_tasks A) (0, 0)) as [k' c] eqn:E.
  assert (Hin : In (k', c) (triu_tasks A)) by (rewrite <- E; apply nth_In; lia).
  assert (Hk' : k' = k).
  { pose proof (map_nth fst (triu_tasks A) (0, 0) k) as Hm. rewrite E, Hfst in Hm. cbn in Hm.
    rewrite seq_nth in Hm by exact Hk. lia. }
  subst k'. exists c. apply Hcol; exact Hin.
Qed.

Lemma permsym_contract_ok : forall T (O : Ops T), permsym_contract O GoodPS.
Proof.
  intros T O. split; [|split].
  - intros A ip v Hv [Hwf [Hsq [Hut [Hl Hr]]]].
    split; [|split; [|split; [|split]]]; try assumption.
    destruct Hwf as [W1 [W2 [W3 [W4 [W5 W6]]]]].
    split; [|split; [|split; [|split; [|split]]]]; cbn; try assumption. lia.
  - intros A ip k v [Hwf [Hsq [Hut [Hl Hr]]]] Hk.
    exact (update_commutes_with_permute_ok T O A ip k v Hwf Hsq Hut Hl Hr Hk).
  - intros A ip k [Hwf [Hsq [Hut [Hl Hr]]]] Hk.
    destruct (col_of_exists A k Hwf Hsq Hut Hk) as [c Hc].
    pose proof (permute_symmetric_spec_ok T O A ip Hwf Hsq Hut Hl Hr) as H. cbv zeta in H.
    destruct H as [_ [_ [_ [_ [Hnnz [_ [_ Hent]]]]]]].
    destruct (Hent k c Hk Hc) as [H1 [H2 _]].
    split; [exact H2|]. unfold nnz in *. rewrite Hnnz. exact H1.
Qed.

(** facts packed into a successful [qnew] *)
Lemma qnew_inv {T} (O : Ops T) (A : spm (T:=T)) S F :
  qnew O A S = Ok F ->
  check_structure A = Ok tt /\ length (s_perm S) = sm A /\
  exists iperm, invperm (s_perm S) = Ok iperm /\ f_perm F = s_perm S /\ f_iperm F = iperm.
Proof.
  intro HQ. unfold qnew in HQ.
  destruct (check_structure A) as [[]|e] eqn:HCS; cbn [bind] in HQ; [|discriminate].
  destruct (length (s_perm S) =? sm A) eqn:HL; cbn [bind] in HQ; [|discriminate].
  destruct (invperm (s_perm S)) as [ip|e] eqn:HIP; cbn [bind] in HQ; [|discriminate].
  destruct (permute_symmetric O A ip) as [PA am].
  destruct (etree (sm PA) (colptr PA) (rowval PA)) as [le|e]; cbn [bind] in HQ; [|discriminate].
  unfold factor_ws in HQ.
  match type of HQ with bind ?x _ = _ => destruct x as [st|e]; cbn [bind] in HQ; [|discriminate] end.
  match type of HQ with bind ?x _ = _ => destruct x as [l|e]; cbn [bind] in HQ; [|discriminate] end.
  injection HQ as HQ. subst F. cbn.
  split; [reflexivity|]. split; [apply Nat.eqb_eq; exact HL|].
  exists ip. auto.
Qed.

Lemma is_perm_range (b : list nat) : SpecPerm.is_perm b -> forall i, i < length b -> nth i b 0 < length b.
Proof.
  intros Hp i Hi. unfold SpecPerm.is_perm in Hp.
  assert (Hin : In (nth i b 0) (seq 0 (length b))).
  { eapply Permutation_in; [exact Hp|]. apply nth_In; exact Hi. }
  apply in_seq in Hin. lia.
Qed.

Lemma qnew_perm_ok : stmt_qnew_perm.
Proof.
  intros T O A S F HQ.
  destruct (qnew_inv O A S F HQ) as [HCS [HL [ip [HIP [Hp Hip]]]]].
  destruct (check_structure_spec_ok T A) as [_ [_ [_ HOk]]].
  destruct (proj1 HOk HCS) as [Hsq [Hut Hne]].
  split; [exact Hsq|]. split; [exact Hut|]. split; [exact Hne|].
  split; [exact Hp|]. rewrite Hp. split; [lia|].
  split; [apply invperm_ok_iff_perm_ok; exists ip; exact HIP|].
  rewrite Hip. exact HIP.
Qed.

Lemma qnew_errors_ok : stmt_qnew_errors.
Proof.
  intros T O A S.
  destruct (check_structure_spec_ok T A) as [H1 [H2 [H3 H4]]].
  split; [|split; [|split]].
  - intro Hne. unfold qnew. rewrite (proj2 H1 Hne). reflexivity.
  - intros Hsq Hut. unfold qnew. rewrite (proj2 H2 (conj Hsq Hut)). reflexivity.
  - intros Hsq Hut Hne. unfold qnew. rewrite (proj2 H3 (conj Hsq (conj Hut Hne))). reflexivity.
  - intros Hsq Hut Hne Hbad. unfold qnew. rewrite (proj2 H4 (conj Hsq (conj Hut Hne))). cbn [bind].
    destruct (length (s_perm S) =? sm A) eqn:HL; cbn [bind]; [|reflexivity].
    apply Nat.eqb_eq in HL.
    destruct (invperm (s_perm S)) as [ip|e] eqn:HIP; cbn [bind].
    + exfalso. destruct Hbad as [Hb|Hb]; [lia|]. apply Hb. apply invperm_ok_iff_perm_ok. exists ip; exact HIP.
    + rewrite (invperm_err_kind_ok _ _ HIP). reflexivity.
Qed.

Lemma qnew_good {T} (O : Ops T) (A : spm (T:=T)) S F :
  wf_csc A -> qnew O A S = Ok F ->
  exists ip, invperm (s_perm S) = Ok ip /\ GoodPS A ip.
Proof.
  intros Hwf HQ.
  destruct (qnew_inv O A S F HQ) as [HCS [HL [ip [HIP _]]]].
  destruct (check_structure_spec_ok T A) as [_ [_ [_ HOk]]].
  destruct (proj1 HOk HCS) as [Hsq [Hut _]].
  destruct (invperm_inverse_ok _ _ HIP) as [Hlen [_ [_ Hpb]]].
  exists ip. split; [exact HIP|].
  split; [exact Hwf|]. split; [exact Hsq|]. split; [exact Hut|].
  split; [lia|]. intros i Hi.
  pose proof (is_perm_range ip Hpb i) as Hr. lia.
Qed.

Lemma refactor_is_fresh_factor_ok : stmt_refactor_is_fresh_factor.
Proof.
  intros T O A S F us Hwf HQ Hin.
  destruct (qnew_good O A S F Hwf HQ) as [ip [HIP HG]].
  exact (refactor_is_fresh_factor_gen_ok T O GoodPS (permsym_contract_ok T O) A S F ip us HQ HIP HG Hin).
Qed.

Lemma refactor_after_update_values_ok : stmt_refactor_after_update_values.
Proof.
  intros T O A S F idx vals Hwf HQ Hin.
  rewrite (update_values_is_batch_ok T O F idx vals).
  apply refactor_is_fresh_factor_ok; [exact Hwf|exact HQ|].
  intros u Hu. unfold ups_update in Hu. apply in_map_iff in Hu. destruct Hu as [[i v] [Hu Hc]]. subst u. cbn.
  apply in_combine_l in Hc. apply Hin; exact Hc.
Qed.
Lemma refactor_after_scale_values_ok : stmt_refactor_after_scale_values.
Proof.
  intros T O A S F idx s Hwf HQ Hin.
  rewrite (scale_values_is_batch_ok T O F idx s).
  apply refactor_is_fresh_factor_ok; [exact Hwf|exact HQ|].
  intros u Hu. unfold ups_scale in Hu. apply in_map_iff in Hu. destruct Hu as [i [Hu Hc]]. subst u. cbn.
  apply Hin; exact Hc.
Qed.
Lemma refactor_after_offset_values_ok : stmt_refactor_after_offset_values.
Proof.
  intros T O A S F idx off signs F' Hwf HQ Hin HO.
  assert (HL : length idx = length signs).
  { unfold offset_values in HO. destruct (length idx =? length signs) eqn:E; cbn in HO; [|discriminate].
    apply Nat.eqb_eq; exact E. }
  rewrite (offset_values_is_batch_ok T O F idx off signs HL) in HO. injection HO as HO. subst F'.
  apply refactor_is_fresh_factor_ok; [exact Hwf|exact HQ|].
  intros u Hu. unfold ups_offset in Hu. apply in_map_iff in Hu. destruct Hu as [[i sg] [Hu Hc]]. subst u. cbn.
  apply in_combine_l in Hc. apply Hin; exact Hc.
Qed.
