(** Glue statements and the end-to-end statement of C12: a numeric factorisation returned by
    [new] without regularisation solves sym(A) x = b.  Statements only. *)
From Coq Require Import List Arith Lia Bool Permutation.
Import ListNotations.
Require Import Clarabel.Base.Ops Clarabel.Qdldl.Model Clarabel.Qdldl.SpecSolve
        Clarabel.Qdldl.SpecPermSym Clarabel.Qdldl.SpecFactorCorrect Clarabel.Qdldl.SpecPermEntries.

(** (I+L)[i,c] read from the flat arrays *)
Definition Mflat {T} (O : Ops T) (Lp Li : list nat) (Lx : list T) (i c : nat) : T :=
  if i =? c then one O else lent O Lp Li Lx i c.

(** dense algebra: the entrywise identity (upper triangle) plus the row-wise solve equation give
    S_sym z = b *)
Definition stmt_ldlt_dense : Prop :=
  forall T (O : Ops T) n Lp Li Lx Dg b z (S : nat -> nat -> T),
    RingLaws O -> wf_L n Lp Li ->
    (forall i j, i <= j -> j < n ->
       isum O (seq 0 (Datatypes.S i))
            (fun c => mul O (mul O (Mflat O Lp Li Lx i c) (nth c Dg (zero O))) (Mflat O Lp Li Lx j c))
       = S i j) ->
    ldlt_spec O n Lp Li Lx Dg b z ->
    forall i, i < n ->
      vsum O n (fun j => mul O (if i <=? j then S i j else S j i) (nth j z (zero O)))
      = nth i b (zero O).

(** without padding, the flat layout reads back the columns *)
Definition stmt_flatten_lcol : Prop :=
  forall T (O : Ops T) n lnz (cols : list (list (nat * T))) pad li lx,
    length lnz = n -> length cols = n ->
    (forall c, c < n -> length (nth c cols []) = nth c lnz 0) ->
    flatten_cols lnz cols pad = Ok (li, lx) ->
    forall c, c < n -> lcol O (cumsum0 lnz) li lx c = nth c cols [].

(** sums are invariant under permutation of the index list *)
Definition stmt_isum_perm : Prop :=
  forall T (O : Ops T) (l l' : list nat) (f : nat -> T),
    RingLaws O -> Permutation l l' -> isum O l f = isum O l' f.

(** END TO END: [new] (numeric, regularisation off) followed by [solve] returns x with
    sym(A) x = b, for every well-formed upper-triangular A without duplicate entries, every
    ordering accepted by [new], every right-hand side, over every commutative ring in which the
    non-zero elements have reciprocals *)
Definition stmt_qnew_solve_correct : Prop :=
  forall T (O : Ops T) (A : spm (T:=T)) S F b,
    RingLaws O ->
    (forall a, eqb O a (zero O) = false -> mul O a (div O (one O) a) = one O) ->
    wf_csc A -> triu_nodup (sn A) (colptr A) (rowval A) ->
    s_logical S = false -> s_reg_enable S = false ->
    qnew O A S = Ok F -> length b = sn A ->
    exists x, solve O F b = Ok x /\ length x = sn A /\
      forall a, a < sn A ->
        vsum O (sn A) (fun c => mul O (Asym O (colptr A) (rowval A) (nzval A) a c) (nth c x (zero O)))
        = nth a b (zero O).
