(** Statements about the iterative-refinement loop of the KKT driver
    ([ir_loop] / [ir_run] of ModelDriver.v, transcribing
    DirectLDLKKTSolver::iterative_refinement).  Statements and spec definitions only. *)
From Coq Require Import List Arith Lia Bool Reals QArith Qabs.
Import ListNotations.
Require Import Clarabel.Base.Ops Clarabel.Qdldl.Model Clarabel.Qdldl.ModelDriver.
Local Open Scope nat_scope.

(** ** spec vocabulary *)
(** the norm a pass of the loop computed *)
Definition step_norm {T} (s : ir_step (T:=T)) : T :=
  match s with
  | IrNonFinite n => n | IrAccept n => n | IrStopAccept n => n | IrStopReject n => n
  end.
Definition is_accept {T} (s : ir_step (T:=T)) : bool :=
  match s with IrAccept _ => true | _ => false end.
(** 1 when the tail of the step list is a single [IrStopAccept] *)
Definition stop_accept_count {T} (tl : list (ir_step (T:=T))) : nat :=
  match tl with [IrStopAccept _] => 1 | _ => 0 end.
(** the norms of the candidates that were swapped into x *)
Definition accepted_norms {T} (steps : list (ir_step (T:=T))) : list T :=
  flat_map (fun s => match s with
                     | IrAccept n => [n] | IrStopAccept n => [n] | _ => []
                     end) steps.

(** one refinement: x + solve(residual of x) *)
Definition ir_next {T} (O : Ops T) (solvef : list T -> list T) (errf : list T -> list T * T)
           (x : list T) : list T :=
  axpby O (solvef (fst (errf x))) (one O) x (one O).
(** the candidate sequence along the accepted path *)
Fixpoint cands {T} (O : Ops T) (solvef : list T -> list T) (errf : list T -> list T * T)
         (x0 : list T) (k : nat) : list T :=
  match k with
  | 0 => x0
  | S k' => ir_next O solvef errf (cands O solvef errf x0 k')
  end.

(** the tolerance of the early exit *)
Definition ir_tol {T} (O : Ops T) (P : ir_params (T:=T)) (normb : T) : T :=
  add O (ir_abstol P) (mul O (ir_reltol P) normb).

(** Complete description of what [ir_loop fuel x ..] does from a state whose residual and
    norm are those of [x]:  [ir_trace fuel x ok x' st] = with [fuel] passes left the loop
    appends the steps [st] and returns [(ok, x')]. *)
Inductive ir_trace {T} (O : Ops T) (FL : FlOps T) (solvef : list T -> list T)
          (errf : list T -> list T * T) (P : ir_params (T:=T)) (normb : T)
  : nat -> list T -> bool -> list T -> list (ir_step (T:=T)) -> Prop :=
  | IT_fuel : forall x, ir_trace O FL solvef errf P normb 0 x true x []
  | IT_tol : forall f x,
      leb O (snd (errf x)) (ir_tol O P normb) = true ->
      ir_trace O FL solvef errf P normb (S f) x true x []
  | IT_nonfinite : forall f x,
      leb O (snd (errf x)) (ir_tol O P normb) = false ->
      is_fin FL (snd (errf (ir_next O solvef errf x))) = false ->
      ir_trace O FL solvef errf P normb (S f) x false x
               [IrNonFinite (snd (errf (ir_next O solvef errf x)))]
  | IT_stop_accept : forall f x,
      leb O (snd (errf x)) (ir_tol O P normb) = false ->
      is_fin FL (snd (errf (ir_next O solvef errf x))) = true ->
      ltb O (div O (snd (errf x)) (snd (errf (ir_next O solvef errf x)))) (ir_stopratio P) = true ->
      ltb O (one O) (div O (snd (errf x)) (snd (errf (ir_next O solvef errf x)))) = true ->
      ir_trace O FL solvef errf P normb (S f) x true (ir_next O solvef errf x)
               [IrStopAccept (snd (errf (ir_next O solvef errf x)))]
  | IT_stop_reject : forall f x,
      leb O (snd (errf x)) (ir_tol O P normb) = false ->
      is_fin FL (snd (errf (ir_next O solvef errf x))) = true ->
      ltb O (div O (snd (errf x)) (snd (errf (ir_next O solvef errf x)))) (ir_stopratio P) = true ->
      ltb O (one O) (div O (snd (errf x)) (snd (errf (ir_next O solvef errf x)))) = false ->
      ir_trace O FL solvef errf P normb (S f) x true x
               [IrStopReject (snd (errf (ir_next O solvef errf x)))]
  | IT_accept : forall f x ok x' st,
      leb O (snd (errf x)) (ir_tol O P normb) = false ->
      is_fin FL (snd (errf (ir_next O solvef errf x))) = true ->
      ltb O (div O (snd (errf x)) (snd (errf (ir_next O solvef errf x)))) (ir_stopratio P) = false ->
      ir_trace O FL solvef errf P normb f (ir_next O solvef errf x) ok x' st ->
      ir_trace O FL solvef errf P normb (S f) x ok x'
               (IrAccept (snd (errf (ir_next O solvef errf x))) :: st).

(** non-increasing chain below [prev] *)
Fixpoint noninc (prev : R) (l : list R) : Prop :=
  match l with
  | [] => True
  | a :: t => (a <= prev)%R /\ noninc a t
  end.

(** ** 0. the run is exactly a trace (or stops on a non-finite initial norm) *)
Definition stmt_ir_run_trace : Prop :=
  forall T (O : Ops T) (FL : FlOps T) solvef errf (P : ir_params (T:=T)) normb x0,
    let r := ir_run O FL solvef errf P normb x0 in
    irr_norm0 r = snd (errf x0) /\
    ((is_fin FL (snd (errf x0)) = false /\
      irr_ok r = false /\ irr_x r = x0 /\ irr_steps r = []) \/
     (is_fin FL (snd (errf x0)) = true /\
      ir_trace O FL solvef errf P normb (ir_maxiter P) x0 (irr_ok r) (irr_x r) (irr_steps r))).

(** ** 1. at most maxiter passes *)
Definition stmt_ir_passes_bounded : Prop :=
  forall T (O : Ops T) (FL : FlOps T) solvef errf (P : ir_params (T:=T)) normb x0,
    length (irr_steps (ir_run O FL solvef errf P normb x0)) <= ir_maxiter P.

(** ** 2. shape of the step list, meaning of the norms, which candidate is returned *)
Definition stmt_ir_shape : Prop :=
  forall T (O : Ops T) (FL : FlOps T) solvef errf (P : ir_params (T:=T)) normb x0,
    let r := ir_run O FL solvef errf P normb x0 in
    irr_norm0 r = snd (errf x0) /\
    (forall i d, i < length (irr_steps r) ->
       step_norm (nth i (irr_steps r) d) = snd (errf (cands O solvef errf x0 (S i)))) /\
    exists ns tl,
      irr_steps r = map IrAccept ns ++ tl /\
      (tl = [] \/ exists s, tl = [s] /\ is_accept s = false) /\
      irr_x r = cands O solvef errf x0 (length ns + stop_accept_count tl) /\
      length ns + stop_accept_count tl <= length (irr_steps r) /\
      length (irr_steps r) <= ir_maxiter P.

(** ** 3. the verdict is false exactly on a non-finite norm *)
Definition stmt_ir_ok_iff_finite : Prop :=
  forall T (O : Ops T) (FL : FlOps T) solvef errf (P : ir_params (T:=T)) normb x0,
    let r := ir_run O FL solvef errf P normb x0 in
    (irr_ok r = false <->
       (is_fin FL (irr_norm0 r) = false \/ exists nrm, In (IrNonFinite nrm) (irr_steps r))) /\
    (forall nrm, In (IrNonFinite nrm) (irr_steps r) -> is_fin FL nrm = false) /\
    (forall s, In s (irr_steps r) -> (forall nrm, s <> IrNonFinite nrm) ->
               is_fin FL (step_norm s) = true) /\
    ((irr_steps r <> [] \/ irr_ok r = true) -> is_fin FL (irr_norm0 r) = true).
(** over an ordered field nothing is non-finite *)
Definition stmt_ir_ok_field : Prop :=
  forall T (O : Ops T) (z : T) solvef errf (P : ir_params (T:=T)) normb x0,
    irr_ok (ir_run O (FlField z) solvef errf P normb x0) = true /\
    (forall nrm, ~ In (IrNonFinite nrm) (irr_steps (ir_run O (FlField z) solvef errf P normb x0))).

(** ** 4. over the reals the accepted norms never grow *)
Definition stmt_ir_monotone : Prop :=
  forall solvef errf (P : ir_params (T:=R)) normb x0,
    (1 <= ir_stopratio P)%R ->
    (forall c, (0 <= snd (errf c))%R) ->
    let r := ir_run OpsR (FlField 0%R) solvef errf P normb x0 in
    (snd (errf (irr_x r)) <= irr_norm0 r)%R /\
    noninc (irr_norm0 r) (accepted_norms (irr_steps r)) /\
    snd (errf (irr_x r)) = last (accepted_norms (irr_steps r)) (irr_norm0 r).

(** ** 5. the loop only leaves early through the tolerance test *)
Definition stmt_ir_tolerance_exit_gen : Prop :=
  forall T (O : Ops T) (FL : FlOps T) solvef errf (P : ir_params (T:=T)) normb x0,
    let r := ir_run O FL solvef errf P normb x0 in
    irr_ok r = true ->
    (forall s, In s (irr_steps r) -> is_accept s = true) ->
    length (irr_steps r) < ir_maxiter P ->
    leb O (snd (errf (irr_x r))) (ir_tol O P normb) = true.
Definition stmt_ir_tolerance_exit : Prop :=
  forall solvef errf (P : ir_params (T:=R)) normb x0,
    let r := ir_run OpsR (FlField 0%R) solvef errf P normb x0 in
    irr_ok r = true ->
    (forall s, In s (irr_steps r) -> is_accept s = true) ->
    length (irr_steps r) < ir_maxiter P ->
    (snd (errf (irr_x r)) <= ir_abstol P + ir_reltol P * normb)%R.

(** ** 6. the infinity norm over the reals *)
Definition stmt_norm_inf_nonneg : Prop :=
  (forall l : list R,
     (0 <= norm_inf OpsR (FlField 0%R) l)%R /\
     (forall v, In v l -> (Rabs v <= norm_inf OpsR (FlField 0%R) l)%R) /\
     (l = [] /\ norm_inf OpsR (FlField 0%R) l = 0%R \/
      exists v, In v l /\ norm_inf OpsR (FlField 0%R) l = Rabs v)) /\
  (forall K b c, (0 <= snd (refine_error OpsR (FlField 0%R) K b c))%R).

(** ** non-vacuity: a toy system "x = 1" on singleton lists, the solver recovers half of the
    residual each time *)
Definition toy_solve (e : list Q) : list Q := map (fun v => Qdiv v (2#1)) e.
Definition toy_err (c : list Q) : list Q * Q :=
  let d := Qminus 1 (hd 0%Q c) in ([d], Qabs d).
Definition toy_run (stopratio : Q) (maxiter : nat) : ir_result (T:=Q) :=
  ir_run OpsQ (FlField 0%Q) toy_solve toy_err
         (mkIR 0%Q (1#10)%Q stopratio maxiter) 1%Q [0%Q].
(** a floating-point-like predicate on Q: "finite" = at most 100 in magnitude *)
Definition FlToy : FlOps Q :=
  {| is_nan := fun _ => false; is_fin := fun v => Qle_bool (Qabs v) (100#1); nanv := 0%Q |}.
Definition toy_bad_solve (e : list Q) : list Q := map (fun v => Qmult v (1000#1)) e.
Definition toy_worse_solve (e : list Q) : list Q := map (fun v => Qmult v (-3#1)) e.
Definition stmt_ir_examples : Prop :=
  (* converges through the tolerance test after four accepted passes *)
  (map is_accept (irr_steps (toy_run (3#2) 10)) = [true; true; true; true] /\
   irr_ok (toy_run (3#2) 10) = true /\
   Qeq_bool (hd 0%Q (irr_x (toy_run (3#2) 10))) (15#16) = true) /\
  (* runs out of passes *)
  (length (irr_steps (toy_run (3#2) 2)) = 2 /\
   Qeq_bool (hd 0%Q (irr_x (toy_run (3#2) 2))) (3#4) = true) /\
  (* insufficient improvement, but better: one IrStopAccept, candidate kept *)
  (map is_accept (irr_steps (toy_run (3#1) 10)) = [false] /\
   stop_accept_count (irr_steps (toy_run (3#1) 10)) = 1 /\
   Qeq_bool (hd 0%Q (irr_x (toy_run (3#1) 10))) (1#2) = true) /\
  (* a non-finite norm: verdict false, x unchanged *)
  (let r := ir_run OpsQ FlToy toy_bad_solve toy_err (mkIR 0%Q (1#10)%Q (3#2)%Q 10) 1%Q [0%Q] in
   irr_ok r = false /\ length (irr_steps r) = 1 /\ Qeq_bool (hd 0%Q (irr_x r)) 0 = true) /\
  (* a worse candidate: one IrStopReject, x unchanged, verdict true *)
  (let r := ir_run OpsQ (FlField 0%Q) toy_worse_solve toy_err
                   (mkIR 0%Q (1#10)%Q (3#2)%Q 10) 1%Q [0%Q] in
   irr_ok r = true /\ map is_accept (irr_steps r) = [false] /\
   stop_accept_count (irr_steps r) = 0 /\ Qeq_bool (hd 0%Q (irr_x r)) 0 = true).
