(** Proofs of SpecDriverReg: the driver invariant and static regularisation (any Ops / FlOps). *)
From Coq Require Import List Arith ZArith QArith Lia Bool.
Import ListNotations.
Require Import Clarabel.Base.Ops Clarabel.Qdldl.Model Clarabel.Qdldl.ModelDriver Clarabel.Qdldl.Spec.
Require Import Clarabel.Qdldl.LemmasRefactor Clarabel.Qdldl.LemmasCompose.
Require Import Clarabel.Qdldl.SpecDriverReg.
Local Open Scope nat_scope.

Section L.
Context {T : Type} (O : Ops T).

(** ** point updates *)
Lemma dr_nth_upd (l : list T) : forall i j x d,
  nth j (upd l i x) d = if (j =? i) && (i <? length l) then x else nth j l d.
Proof.
  induction l as [|a l IH]; intros i j x d.
  - cbn. rewrite andb_false_r. reflexivity.
  - destruct i as [|i], j as [|j]; cbn; try reflexivity. apply IH.
Qed.

Lemma au_cons (u : nat * (T -> T)) us (nz : list T) :
  apply_updates O (u :: us) nz
  = apply_updates O us (upd nz (fst u) (snd u (nth (fst u) nz (zero O)))).
Proof. reflexivity. Qed.
Lemma au_app (a b : list (nat * (T -> T))) (nz : list T) :
  apply_updates O (a ++ b) nz = apply_updates O b (apply_updates O a nz).
Proof. unfold apply_updates. apply fold_left_app. Qed.

(** an entry no update points at is unchanged *)
Lemma au_notin : forall (us : list (nat * (T -> T))) (v : list T) j d,
  ~ In j (map fst us) -> nth j (apply_updates O us v) d = nth j v d.
Proof.
  induction us as [|u us IH]; intros v j d Hn; [reflexivity|].
  rewrite au_cons, IH, dr_nth_upd.
  - destruct (j =? fst u) eqn:E; [|reflexivity].
    apply Nat.eqb_eq in E. exfalso. apply Hn. left. symmetry; exact E.
  - intro Hj. apply Hn. right. exact Hj.
Qed.

(** KEY: a batch of overwrites (constant functions) forgets the entries it points at *)
Lemma au_overwrite : forall (us : list (nat * (T -> T))) (v w : list T),
  (forall u, In u us -> forall a b, snd u a = snd u b) ->
  length v = length w ->
  (forall j, ~ In j (map fst us) -> nth j v (zero O) = nth j w (zero O)) ->
  apply_updates O us v = apply_updates O us w.
Proof.
  induction us as [|u us IH]; intros v w Hc HL Hag.
  - cbn. apply nth_ext with (d := zero O) (d' := zero O); [exact HL|].
    intros n _. apply Hag. intros [].
  - rewrite !au_cons. apply IH.
    + intros u' Hu'. apply Hc. right; exact Hu'.
    + rewrite !rf_upd_length. exact HL.
    + intros j Hj. rewrite !dr_nth_upd, HL.
      rewrite (Hc u (or_introl eq_refl) (nth (fst u) v (zero O)) (nth (fst u) w (zero O))).
      destruct (Nat.eq_dec j (fst u)) as [e|ne].
      * subst j. rewrite Nat.eqb_refl. cbn [andb].
        destruct (fst u <? length w) eqn:E; [reflexivity|].
        apply Nat.ltb_ge in E. rewrite !nth_overflow; [reflexivity|lia|lia].
      * assert (E : (j =? fst u) = false) by (apply Nat.eqb_neq; exact ne).
        rewrite E. cbn [andb]. apply Hag. cbn [map]. intros [H|H]; [congruence|exact (Hj H)].
Qed.

(** writing the values of [v0] back at every index where [v] may differ from [v0] gives [v0] *)
Lemma au_restore : forall (us : list (nat * (T -> T))) (v v0 : list T),
  (forall u, In u us -> forall a, snd u a = nth (fst u) v0 (zero O)) ->
  length v = length v0 ->
  (forall j, In j (map fst us) \/ nth j v (zero O) = nth j v0 (zero O)) ->
  apply_updates O us v = v0.
Proof.
  induction us as [|u us IH]; intros v v0 Hw HL Hag.
  - cbn. apply nth_ext with (d := zero O) (d' := zero O); [exact HL|].
    intros n _. destruct (Hag n) as [[]|H]; exact H.
  - rewrite au_cons. apply IH.
    + intros u' Hu'. apply Hw. right; exact Hu'.
    + rewrite rf_upd_length. exact HL.
    + intros j. rewrite dr_nth_upd. rewrite (Hw u (or_introl eq_refl)).
      destruct (Nat.eq_dec j (fst u)) as [e|ne].
      * subst j. right. rewrite Nat.eqb_refl. cbn [andb].
        destruct (fst u <? length v) eqn:E; [reflexivity|].
        apply Nat.ltb_ge in E. rewrite !nth_overflow; [reflexivity|lia|lia].
      * assert (E : (j =? fst u) = false) by (apply Nat.eqb_neq; exact ne).
        rewrite E. cbn [andb].
        destruct (Hag j) as [[Hj|Hj]|Hj]; [congruence|left; exact Hj|right; exact Hj].
Qed.

(** agreement off [d] survives ANY common batch of point updates *)
Lemma au_agree : forall (d : list nat) (us : list (nat * (T -> T))) (v w : list T),
  agree_off O d v w -> agree_off O d (apply_updates O us v) (apply_updates O us w).
Proof.
  intros d. induction us as [|u us IH]; intros v w [HL Hag]; [split; assumption|].
  rewrite !au_cons. apply IH. split.
  - rewrite !rf_upd_length. exact HL.
  - intros j Hj. rewrite !dr_nth_upd, HL.
    destruct ((j =? fst u) && (fst u <? length w)) eqn:E; [|apply Hag; exact Hj].
    apply andb_true_iff in E. destruct E as [E _]. apply Nat.eqb_eq in E. subst j.
    rewrite (Hag _ Hj). reflexivity.
Qed.

(** ** the two KKT-copy writers are the same batches *)
Lemma fold_update_eq (idx : list nat) (vals : list T) (nz : list T) :
  fold_left (fun nz iv => upd nz (fst iv) (snd iv)) (combine idx vals) nz
  = apply_updates O (ups_update idx vals) nz.
Proof. unfold ups_update. rewrite fold_map_upd. reflexivity. Qed.
Lemma fold_scale_eq (idx : list nat) (s : T) (nz : list T) :
  fold_left (fun nz i => upd nz i (mul O (nth i nz (zero O)) s)) idx nz
  = apply_updates O (ups_scale O idx s) nz.
Proof. unfold ups_scale. rewrite fold_map_upd. reflexivity. Qed.

Lemma ups_update_in (idx : list nat) (vals : list T) u :
  In u (ups_update idx vals) -> In (fst u) idx.
Proof.
  unfold ups_update. intro Hu. apply in_map_iff in Hu. destruct Hu as [[i x] [Hu Hc]]. subst u. cbn.
  apply in_combine_l in Hc. exact Hc.
Qed.
Lemma ups_update_const (idx : list nat) (vals : list T) u :
  In u (ups_update idx vals) -> forall a b, snd u a = snd u b.
Proof.
  unfold ups_update. intro Hu. apply in_map_iff in Hu. destruct Hu as [[i x] [Hu _]]. subst u.
  reflexivity.
Qed.
Lemma ups_update_fst : forall (idx : list nat) (vals : list T),
  length idx <= length vals -> map fst (ups_update idx vals) = idx.
Proof.
  unfold ups_update. induction idx as [|i idx IH]; intros [|x vals] HL; cbn in *; try reflexivity; try lia.
  f_equal. apply IH. lia.
Qed.
Lemma ups_scale_in (idx : list nat) (s : T) u : In u (ups_scale O idx s) -> In (fst u) idx.
Proof.
  unfold ups_scale. intro Hu. apply in_map_iff in Hu. destruct Hu as [i [Hu Hc]]. subst u. exact Hc.
Qed.
(** the write-back batch: every function is the constant "value of v0 there" *)
Lemma ups_writeback (v0 : list T) : forall (idx : list nat) u,
  In u (ups_update idx (map (fun i => nth i v0 (zero O)) idx)) ->
  forall a, snd u a = nth (fst u) v0 (zero O).
Proof.
  unfold ups_update. induction idx as [|i idx IH]; intros u Hu a; [destruct Hu|].
  cbn in Hu. destruct Hu as [Hu|Hu]; [subst u; reflexivity|]. apply IH. exact Hu.
Qed.

(** ** set_triu_vals bookkeeping *)
Lemma stv_self (F : fact (T:=T)) : set_triu_vals F (triu_vals F) = F.
Proof. destruct F as [p ip lp li lx dd di [et lnz [m n cp rv nz] am ds re ep de po rg] sy]. reflexivity. Qed.

Lemma F_step (Fc F0 : fact (T:=T)) (us us2 : list (nat * (T -> T))) :
  Fc = set_triu_vals F0 (apply_updates O (routed F0 us) (triu_vals F0)) ->
  set_triu_vals Fc (apply_updates O (map (fun u => (amap Fc (fst u), snd u)) us2) (triu_vals Fc))
  = set_triu_vals F0 (apply_updates O (routed F0 (us ++ us2)) (triu_vals F0)).
Proof.
  intros ->. unfold routed. rewrite map_app, au_app. reflexivity.
Qed.

(** ** restoring K *)
Lemma kkt_restore (K : spm (T:=T)) (diag : list nat) (sh : list T) :
  kkt_update_vals (kkt_update_vals K diag sh) diag (map (fun i => nth i (nzval K) (zero O)) diag) = K.
Proof.
  destruct K as [m n cp rv nz]. unfold kkt_update_vals, set_K_vals. cbn [sm sn colptr rowval nzval].
  f_equal. rewrite !fold_update_eq.
  apply au_restore.
  - apply ups_writeback.
  - apply apply_updates_length.
  - intros j. rewrite ups_update_fst; [|rewrite map_length; lia].
    destruct (in_dec Nat.eq_dec j diag) as [Hj|Hj]; [left; exact Hj|right].
    apply au_notin. intro Hin. apply Hj.
    apply in_map_iff in Hin. destruct Hin as [u [Hu Hin]]. subst j. apply (ups_update_in _ _ _ Hin).
Qed.
End L.

Section L2.
Context {T : Type} (O : Ops T) (FL : FlOps T).

Lemma reg_true_unfold (st : dstate (T:=T)) rc rp :
  regularize_and_refactor O FL st true rc rp
  = (mkDS (kkt_update_vals
             (kkt_update_vals (d_K st) (d_diag st)
                (shift_diag O (reg_diag_kkt O st) (d_dsigns st) (reg_eps O FL st rc rp)))
             (d_diag st) (reg_diag_kkt O st))
          (fst (ldl_refactor O FL (update_values (d_F st) (d_diag st)
                  (shift_diag O (reg_diag_kkt O st) (d_dsigns st) (reg_eps O FL st rc rp)))))
          (d_dsigns st) (d_diag st) (reg_eps O FL st rc rp),
     snd (ldl_refactor O FL (update_values (d_F st) (d_diag st)
                  (shift_diag O (reg_diag_kkt O st) (d_dsigns st) (reg_eps O FL st rc rp))))).
Proof.
  unfold regularize_and_refactor, reg_eps, reg_diag_kkt.
  cbn [drv_update_values d_K d_F d_dsigns d_diag d_eps].
  destruct (ldl_refactor O FL _) as [F' ok]. reflexivity.
Qed.

Lemma reg_true_K (st : dstate (T:=T)) rc rp :
  regularize_and_refactor O FL st true rc rp
  = (mkDS (d_K st)
          (fst (ldl_refactor O FL (update_values (d_F st) (d_diag st)
                  (shift_diag O (reg_diag_kkt O st) (d_dsigns st) (reg_eps O FL st rc rp)))))
          (d_dsigns st) (d_diag st) (reg_eps O FL st rc rp),
     snd (ldl_refactor O FL (update_values (d_F st) (d_diag st)
                  (shift_diag O (reg_diag_kkt O st) (d_dsigns st) (reg_eps O FL st rc rp))))).
Proof.
  rewrite reg_true_unfold. unfold reg_diag_kkt at 2. rewrite kkt_restore. reflexivity.
Qed.

Lemma shift_diag_length (dk : list T) (ds : list Z) (e : T) :
  length (shift_diag O dk ds e) = Nat.min (length dk) (length ds).
Proof. unfold shift_diag. rewrite map_length, combine_length. reflexivity. Qed.
End L2.

(** ** 1 *)
Lemma drv_new_inv_ok : stmt_drv_new_inv.
Proof.
  intros T O K dsigns diag perm en eps delta st HN Hwf.
  unfold drv_new in HN.
  destruct (qnew O K (mkSet perm true (Some dsigns) en eps delta)) as [F|e] eqn:HQ; cbn in HN; [|discriminate].
  injection HN as HN. subst st. cbn [d_K d_dsigns d_diag].
  split; [|repeat split].
  exists K, F, []. cbn [d_K d_F d_diag].
  split; [exact Hwf|]. split; [exact HQ|]. split; [intros u []|].
  do 4 (split; [reflexivity|]).
  split; [split; [reflexivity|intros i _; reflexivity]|].
  cbn. symmetry. apply stv_self.
Qed.

(** ** 2 *)
Lemma inv_batch {T} (O : Ops T) S0 (st st' : dstate (T:=T)) (us2 : list (nat * (T -> T))) :
  InvD O S0 st ->
  (forall u, In u us2 -> fst u < nnz (d_K st)) ->
  sm (d_K st') = sm (d_K st) -> sn (d_K st') = sn (d_K st) ->
  colptr (d_K st') = colptr (d_K st) -> rowval (d_K st') = rowval (d_K st) ->
  d_diag st' = d_diag st ->
  nzval (d_K st') = apply_updates O us2 (nzval (d_K st)) ->
  d_F st' = set_triu_vals (d_F st)
              (apply_updates O (map (fun u => (amap (d_F st) (fst u), snd u)) us2) (triu_vals (d_F st))) ->
  InvD O S0 st'.
Proof.
  intros [K0 [F0 [us [Hwf [HQ [Hin [Hsm [Hsn [Hcp [Hrv [Hag HF]]]]]]]]]]] Hr Esm Esn Ecp Erv Ed Enz EF.
  exists K0, F0, (us ++ us2).
  split; [exact Hwf|]. split; [exact HQ|]. split.
  { intros u Hu. apply in_app_or in Hu. destruct Hu as [Hu|Hu]; [apply Hin; exact Hu|].
    specialize (Hr u Hu). unfold nnz in *. destruct Hag as [HL _]. rewrite HL, apply_updates_length in Hr.
    exact Hr. }
  split; [congruence|]. split; [congruence|]. split; [congruence|]. split; [congruence|].
  split.
  - rewrite Ed, Enz, au_app. apply au_agree. exact Hag.
  - rewrite EF. apply F_step. exact HF.
Qed.

Lemma drv_update_inv_ok : stmt_drv_update_inv.
Proof.
  intros T O S0 st idx vals Hinv Hidx.
  apply (inv_batch O S0 st _ (ups_update idx vals) Hinv); try reflexivity.
  - intros u Hu. apply Hidx. apply (ups_update_in _ _ _ Hu).
  - cbn [drv_update_values d_K]. unfold kkt_update_vals, set_K_vals. cbn [nzval]. apply fold_update_eq.
  - cbn [drv_update_values d_F]. apply update_values_is_batch_ok.
Qed.

Lemma drv_scale_inv_ok : stmt_drv_scale_inv.
Proof.
  intros T O S0 st idx s Hinv Hidx.
  apply (inv_batch O S0 st _ (ups_scale O idx s) Hinv); try reflexivity.
  - intros u Hu. apply Hidx. apply (ups_scale_in O _ _ _ Hu).
  - cbn [drv_scale_values d_K]. unfold kkt_scale_vals, set_K_vals. cbn [nzval]. apply fold_scale_eq.
  - cbn [drv_scale_values d_F]. apply scale_values_is_batch_ok.
Qed.

(** ** 3 *)
Lemma reg_restores_K_strong_ok : stmt_reg_restores_K_strong.
Proof.
  intros T O FL st en rc rp. destruct en.
  - rewrite reg_true_K. cbn [fst d_K d_diag d_dsigns d_eps]. repeat split.
  - unfold regularize_and_refactor. destruct (ldl_refactor O FL (d_F st)) as [F' ok].
    cbn [fst d_K d_diag d_dsigns d_eps]. repeat split.
Qed.
Lemma reg_restores_K_ok : stmt_reg_restores_K.
Proof.
  intros T O FL st en rc rp _ _ _.
  destruct (reg_restores_K_strong_ok T O FL st en rc rp) as [HK [_ [_ He]]].
  split; [exact HK|]. intros ->. exact He.
Qed.

(** ** 4 *)
Lemma reg_refactor_eq_qnew_ok : stmt_reg_refactor_eq_qnew.
Proof.
  intros T O FL S0 st rc rp [K0 [F0 [us [Hwf [HQ [Hin [Hsm [Hsn [Hcp [Hrv [Hag HF]]]]]]]]]]] Hrange Hlen.
  set (sh := shift_diag O (reg_diag_kkt O st) (d_dsigns st) (reg_eps O FL st rc rp)).
  assert (HshL : length sh = length (d_diag st)).
  { unfold sh. rewrite shift_diag_length. unfold reg_diag_kkt. rewrite map_length. lia. }
  rewrite (update_values_is_batch_ok T O (d_F st) (d_diag st) sh).
  rewrite (F_step O (d_F st) F0 us (ups_update (d_diag st) sh) HF).
  unfold routed.
  rewrite (refactor_is_fresh_factor_ok T O K0 S0 F0 (us ++ ups_update (d_diag st) sh) Hwf HQ).
  - f_equal. unfold reg_shifted_K. fold sh. unfold set_nzval, kkt_update_vals, set_K_vals.
    rewrite <- Hsm, <- Hsn, <- Hcp, <- Hrv. f_equal.
    rewrite au_app, (fold_update_eq O). destruct Hag as [HL Hag].
    symmetry. apply au_overwrite.
    + apply ups_update_const.
    + exact HL.
    + rewrite ups_update_fst; [exact Hag|lia].
  - intros u Hu. apply in_app_or in Hu. destruct Hu as [Hu|Hu]; [apply Hin; exact Hu|].
    apply ups_update_in in Hu. specialize (Hrange _ Hu). unfold nnz in *.
    destruct Hag as [HL _]. rewrite HL, apply_updates_length in Hrange. exact Hrange.
Qed.

Lemma reg_shifted_K_inv {T} (O : Ops T) (FL : FlOps T) S0 (st : dstate (T:=T)) rc rp F' ok :
  InvD O S0 st -> length (d_dsigns st) = length (d_diag st) ->
  qnew O (reg_shifted_K O FL st rc rp) (nonlogical S0) = Ok F' ->
  InvD O (nonlogical S0) (mkDS (d_K st) F' (d_dsigns st) (d_diag st) ok).
Proof.
  intros [K0 [F0 [us [Hwf [HQ [Hin [Hsm [Hsn [Hcp [Hrv [Hag HF]]]]]]]]]]] Hlen HQ'.
  exists (reg_shifted_K O FL st rc rp), F', [].
  cbn [d_K d_F d_diag].
  assert (HnzL : length (nzval (reg_shifted_K O FL st rc rp)) = length (nzval (d_K st))).
  { unfold reg_shifted_K, kkt_update_vals, set_K_vals. cbn [nzval].
    rewrite (fold_update_eq O). apply apply_updates_length. }
  split.
  { (* wf_csc *)
    destruct Hag as [HL _]. rewrite apply_updates_length in HL.
    unfold wf_csc in *. unfold reg_shifted_K, kkt_update_vals, set_K_vals in *.
    cbn [sm sn colptr rowval nzval] in *.
    rewrite HnzL, Hsm, Hsn, Hcp, Hrv, HL. exact Hwf. }
  split; [exact HQ'|]. split; [intros u []|].
  do 4 (split; [reflexivity|]).
  split.
  - cbn [apply_updates fold_left]. split; [symmetry; exact HnzL|].
    intros i Hi. unfold reg_shifted_K, kkt_update_vals, set_K_vals. cbn [nzval].
    rewrite (fold_update_eq O). symmetry. apply au_notin.
    intro Hin'. apply Hi. apply in_map_iff in Hin'. destruct Hin' as [u [Hu Hin']]. subst i.
    apply (ups_update_in _ _ _ Hin').
  - cbn. symmetry. apply stv_self.
Qed.

Lemma reg_refactor_is_fresh_ok : stmt_reg_refactor_is_fresh.
Proof.
  intros T O FL S0 st rc rp F' Hinv Hrange Hlen HQ'.
  assert (E : regularize_and_refactor O FL st true rc rp
              = (mkDS (d_K st) F' (d_dsigns st) (d_diag st) (reg_eps O FL st rc rp),
                 all_finite FL (f_Dinv F'))).
  { rewrite reg_true_K. unfold ldl_refactor.
    rewrite (reg_refactor_eq_qnew_ok T O FL S0 st rc rp Hinv Hrange Hlen), HQ'. reflexivity. }
  rewrite E. cbn [fst d_F]. split; [reflexivity|]. split; [reflexivity|].
  apply (reg_shifted_K_inv O FL S0 st rc rp F' _ Hinv Hlen HQ').
Qed.

Lemma reg_refactor_failure_ok : stmt_reg_refactor_failure.
Proof.
  intros T O FL S0 st rc rp e Hinv Hrange Hlen HQ'.
  rewrite reg_true_K. unfold ldl_refactor.
  rewrite (reg_refactor_eq_qnew_ok T O FL S0 st rc rp Hinv Hrange Hlen), HQ'. reflexivity.
Qed.

Lemma nonlogical_idem_ok : stmt_nonlogical_idem.
Proof. intros T S0. reflexivity. Qed.

(** ** 5 *)
Example dr_example_ok : stmt_dr_example.
Proof.
  unfold stmt_dr_example.
  split.
  { unfold wf_csc, dr_exK. cbn [sm sn colptr rowval nzval length].
    repeat split; try reflexivity.
    - intros j Hj. do 3 (destruct j as [|j]; [cbn; lia|]). lia.
    - intros k Hk. do 4 (destruct k as [|k]; [cbn; lia|]). lia. }
  split; [eexists; vm_compute; reflexivity|].
  split.
  { intros i Hi. vm_compute in Hi. vm_compute.
    destruct Hi as [<-|[<-|[<-|[]]]]; lia. }
  split; [vm_compute; reflexivity|].
  split; [vm_compute; reflexivity|].
  split; [vm_compute; reflexivity|].
  split; [vm_compute; reflexivity|].
  split; [vm_compute; intro H; discriminate H|].
  split; [vm_compute; intro H; discriminate H|].
  vm_compute. reflexivity.
Qed.
