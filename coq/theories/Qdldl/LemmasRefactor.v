(** refactor after value updates == factoring the updated matrix from scratch (any Ops). *)
From Coq Require Import List Arith ZArith Lia Bool.
Import ListNotations.
Require Import Clarabel.Base.Ops Clarabel.Qdldl.Model Clarabel.Qdldl.SpecRefactor.

Lemma rf_upd_length {X} (l : list X) i v : length (upd l i v) = length l.
Proof. revert i; induction l as [|x l IH]; intros [|i]; cbn; auto. Qed.
Lemma rf_upd_same {X} (l : list X) i d : upd l i (nth i l d) = l.
Proof. revert i; induction l as [|x l IH]; intros [|i]; cbn; auto. f_equal; apply IH. Qed.

Section R.
Context {T : Type} (O : Ops T).

Lemma apply_updates_length us (nz : list T) : length (apply_updates O us nz) = length nz.
Proof.
  revert nz; induction us as [|u us IH]; intro nz; cbn; auto.
  unfold apply_updates in *; cbn. rewrite IH. apply rf_upd_length.
Qed.

Lemma set_nzval_self (A : spm (T:=T)) : set_nzval A (nzval A) = A.
Proof. destruct A; reflexivity. Qed.

Variable Good : spm (T:=T) -> list nat -> Prop.
Hypothesis PC : permsym_contract O Good.

Lemma permsym_apply_updates : forall us A ip,
  Good A ip -> (forall u, In u us -> fst u < length (nzval A)) ->
  permute_symmetric O (set_nzval A (apply_updates O us (nzval A))) ip
  = (set_nzval (fst (permute_symmetric O A ip))
       (apply_updates O (map (fun u => (nth (fst u) (snd (permute_symmetric O A ip)) 0, snd u)) us)
                      (nzval (fst (permute_symmetric O A ip)))),
     snd (permute_symmetric O A ip)).
Proof.
  destruct PC as [Gset [UC VAL]].
  induction us as [|u us IH]; intros A ip HG Hin.
  - cbn [map]. unfold apply_updates. cbn [fold_left]. rewrite !set_nzval_self.
    destruct (permute_symmetric O A ip); reflexivity.
  - destruct u as [i g]. assert (Hi : i < length (nzval A)) by (apply (Hin (i, g)); left; reflexivity).
    set (v := g (nth i (nzval A) (zero O))).
    set (A1 := set_nzval A (upd (nzval A) i v)).
    assert (HG1 : Good A1 ip) by (apply Gset; [apply rf_upd_length | exact HG]).
    assert (Hin1 : forall u, In u us -> fst u < length (nzval A1)).
    { intros u Hu. cbn. rewrite rf_upd_length. apply Hin; right; exact Hu. }
    specialize (IH A1 ip HG1 Hin1).
    pose proof (UC A ip i v HG Hi) as HU. fold A1 in HU.
    destruct (VAL A ip i HG Hi) as [HV _].
    change (apply_updates O ((i, g) :: us) (nzval A)) with (apply_updates O us (nzval A1)).
    change (set_nzval A (apply_updates O us (nzval A1))) with (set_nzval A1 (apply_updates O us (nzval A1))).
    rewrite IH. rewrite HU. cbn [fst snd map].
    unfold apply_updates at 2. cbn [fold_left fst snd].
    rewrite HV. fold v. reflexivity.
Qed.

Lemma check_structure_set_nzval (A : spm (T:=T)) v : check_structure (set_nzval A v) = check_structure A.
Proof. reflexivity. Qed.

Theorem refactor_is_fresh_factor_gen_sec :
  forall A S F iperm us,
    qnew O A S = Ok F -> invperm (s_perm S) = Ok iperm -> Good A iperm ->
    (forall u, In u us -> fst u < length (nzval A)) ->
    refactor O (set_triu_vals F (apply_updates O (map (fun u => (amap F (fst u), snd u)) us) (triu_vals F)))
    = qnew O (set_nzval A (apply_updates O us (nzval A))) (nonlogical S).
Proof.
  intros A S F iperm us HQ HIP HG Hin.
  unfold qnew in *. rewrite check_structure_set_nzval.
  destruct (check_structure A) as [[]|e] eqn:HCS; cbn [bind] in *; [|discriminate].
  cbn [s_perm nonlogical sm set_nzval] in *.
  destruct (length (s_perm S) =? sm A) eqn:HL; cbn [bind] in *; [|discriminate].
  rewrite HIP in *. cbn [bind] in *.
  rewrite (permsym_apply_updates us A iperm HG Hin).
  destruct (permute_symmetric O A iperm) as [PA am] eqn:HPS. cbn [fst snd] in *.
  cbn [sm colptr rowval set_nzval].
  destruct (etree (sm PA) (colptr PA) (rowval PA)) as [le|e] eqn:HE; cbn [bind] in *; [|discriminate].
  unfold factor_ws in HQ. cbn [w_triuA w_etree w_Lnz w_AtoPAPt w_Dsigns w_reg_enable w_eps w_delta] in HQ.
  destruct (factor_inner O (sn PA) (colptr PA) (rowval PA) (nzval PA) (snd le)
              (mkFP (s_logical S) _ (s_reg_enable S) (s_eps S) (s_delta S))) as [st|e] eqn:HF; cbn [bind] in HQ; [|discriminate].
  destruct (flatten_cols (fst le) (fs_cols st) _) as [l|e] eqn:HFL; cbn [bind] in HQ; [|discriminate].
  injection HQ as HQ. subst F.
  reflexivity.
Qed.

End R.

Lemma refactor_is_fresh_factor_gen_ok : forall T (O : Ops T), stmt_refactor_is_fresh_factor_gen O.
Proof.
  intros T O Good PC A S F iperm us HQ HIP HG Hin.
  exact (refactor_is_fresh_factor_gen_sec O Good PC A S F iperm us HQ HIP HG Hin).
Qed.

(** the public calls are batches of point updates *)
Lemma fold_map_upd {T X} (f : X -> nat * (T -> T)) (O : Ops T) (l : list X) (nz : list T) :
  apply_updates O (map f l) nz
  = fold_left (fun nz x => upd nz (fst (f x)) (snd (f x) (nth (fst (f x)) nz (zero O)))) l nz.
Proof. revert nz; induction l as [|x l IH]; intro nz; cbn; auto. unfold apply_updates in *; cbn. apply IH. Qed.

Lemma update_values_is_batch_ok : forall T (O : Ops T), stmt_update_values_is_batch O.
Proof.
  intros T O F idx vals. unfold update_values, ups_update. f_equal.
  rewrite map_map. rewrite fold_map_upd. cbn [fst snd]. reflexivity.
Qed.
Lemma scale_values_is_batch_ok : forall T (O : Ops T), stmt_scale_values_is_batch O.
Proof.
  intros T O F idx s. unfold scale_values, ups_scale. f_equal.
  rewrite map_map. rewrite fold_map_upd. cbn [fst snd]. reflexivity.
Qed.
Lemma offset_fold_eq {T} (O : Ops T) (F : fact (T:=T)) (off : T) (l : list (nat * Z)) : forall nz : list T,
  fold_left (fun nz is_ =>
               let p := amap F (fst is_) in
               match Z.sgn (snd is_) with
               | 1%Z => upd nz p (add O (nth p nz (zero O)) off)
               | (-1)%Z => upd nz p (sub O (nth p nz (zero O)) off)
               | _ => nz
               end) l nz
  = fold_left (fun nz is_ =>
                 upd nz (amap F (fst is_))
                     match Z.sgn (snd is_) with
                     | 1%Z => add O (nth (amap F (fst is_)) nz (zero O)) off
                     | (-1)%Z => sub O (nth (amap F (fst is_)) nz (zero O)) off
                     | _ => nth (amap F (fst is_)) nz (zero O)
                     end) l nz.
Proof.
  induction l as [|[i sg] l IH]; intro nz; cbn [fold_left fst snd]; auto.
  rewrite <- IH. f_equal.
  destruct (Z.sgn sg) as [|p|p]; try (symmetry; apply rf_upd_same);
    destruct p; try reflexivity; symmetry; apply rf_upd_same.
Qed.

Lemma offset_values_is_batch_ok : forall T (O : Ops T), stmt_offset_values_is_batch O.
Proof.
  intros T O F idx off signs HL. unfold offset_values, ups_offset.
  rewrite HL, Nat.eqb_refl. cbn [negb]. f_equal. f_equal.
  rewrite map_map. rewrite fold_map_upd. cbn [fst snd].
  apply offset_fold_eq.
Qed.
