(** Proofs of the statements of SpecDriverIR.v (iterative refinement of the KKT driver). *)
From Coq Require Import List Arith Lia Bool Reals Lra QArith Qabs.
Import ListNotations.
Require Import Clarabel.Base.Ops Clarabel.Qdldl.Model Clarabel.Qdldl.ModelDriver
        Clarabel.Qdldl.SpecDriverIR.
Local Open Scope nat_scope.

Section Generic.
Context {T : Type} (O : Ops T) (FL : FlOps T).
Variables (solvef : list T -> list T) (errf : list T -> list T * T).
Variables (P : ir_params (T:=T)) (normb : T).

Lemma ir_loop_trace : forall fuel x steps,
  exists ok x' st,
    ir_loop O FL solvef errf P normb fuel x (fst (errf x)) (snd (errf x)) steps
      = (ok, x', steps ++ st) /\
    ir_trace O FL solvef errf P normb fuel x ok x' st.
Proof.
  induction fuel as [|f IH]; intros x steps.
  - exists true, x, []. cbn [ir_loop]. rewrite app_nil_r. split; [reflexivity|constructor].
  - cbn [ir_loop].
    change (add O (ir_abstol P) (mul O (ir_reltol P) normb)) with (ir_tol O P normb).
    change (axpby O (solvef (fst (errf x))) (one O) x (one O)) with (ir_next O solvef errf x).
    destruct (leb O (snd (errf x)) (ir_tol O P normb)) eqn:Htol.
    + exists true, x, []. rewrite app_nil_r. split; [reflexivity|apply IT_tol; exact Htol].
    + rewrite (surjective_pairing (errf (ir_next O solvef errf x))).
      cbv beta iota zeta.
      destruct (is_fin FL (snd (errf (ir_next O solvef errf x)))) eqn:Hfin; cbn [negb].
      * destruct (ltb O (div O (snd (errf x)) (snd (errf (ir_next O solvef errf x))))
                      (ir_stopratio P)) eqn:Hstop.
        -- destruct (ltb O (one O) (div O (snd (errf x))
                                        (snd (errf (ir_next O solvef errf x))))) eqn:Hone.
           ++ eexists _, _, _. split; [reflexivity|apply IT_stop_accept; assumption].
           ++ eexists _, _, _. split; [reflexivity|apply IT_stop_reject; assumption].
        -- destruct (IH (ir_next O solvef errf x)
                        (steps ++ [IrAccept (snd (errf (ir_next O solvef errf x)))]))
             as (ok & x' & st & Hrun & Htr).
           exists ok, x', (IrAccept (snd (errf (ir_next O solvef errf x))) :: st).
           split.
           ++ rewrite Hrun. rewrite <- app_assoc. reflexivity.
           ++ apply IT_accept; assumption.
      * eexists _, _, _. split; [reflexivity|apply IT_nonfinite; assumption].
Qed.

Lemma ir_run_trace :
  let r := ir_run O FL solvef errf P normb in
  forall x0,
  irr_norm0 (r x0) = snd (errf x0) /\
  ((is_fin FL (snd (errf x0)) = false /\
    irr_ok (r x0) = false /\ irr_x (r x0) = x0 /\ irr_steps (r x0) = []) \/
   (is_fin FL (snd (errf x0)) = true /\
    ir_trace O FL solvef errf P normb (ir_maxiter P) x0
             (irr_ok (r x0)) (irr_x (r x0)) (irr_steps (r x0)))).
Proof.
  intros r x0. subst r. unfold ir_run.
  rewrite (surjective_pairing (errf x0)). cbv beta iota zeta. cbn [fst snd].
  destruct (is_fin FL (snd (errf x0))) eqn:Hfin; cbn [negb].
  - destruct (ir_loop_trace (ir_maxiter P) x0 []) as (ok & x' & st & Hrun & Htr).
    rewrite Hrun. cbn [app irr_norm0 irr_ok irr_x irr_steps].
    split; [reflexivity|]. right. split; [reflexivity|exact Htr].
  - cbn [irr_norm0 irr_ok irr_x irr_steps].
    split; [reflexivity|]. left. repeat split; reflexivity.
Qed.

Lemma tr_len : forall fuel x ok x' st,
  ir_trace O FL solvef errf P normb fuel x ok x' st -> length st <= fuel.
Proof.
  intros fuel x ok x' st Htr.
  induction Htr as [x|f x Ht|f x Ht Hf|f x Ht Hf Hs H1|f x Ht Hf Hs H1
                   |f x ok x' st Ht Hf Hs Htr IH]; cbn [length]; lia.
Qed.

Lemma cands_shift : forall x k,
  cands O solvef errf x (S k) = cands O solvef errf (ir_next O solvef errf x) k.
Proof.
  intros x k. induction k as [|k IH].
  - reflexivity.
  - change (cands O solvef errf x (S (S k)))
      with (ir_next O solvef errf (cands O solvef errf x (S k))).
    rewrite IH. reflexivity.
Qed.

Lemma tr_norms : forall fuel x ok x' st,
  ir_trace O FL solvef errf P normb fuel x ok x' st ->
  forall i d, i < length st ->
    step_norm (nth i st d) = snd (errf (cands O solvef errf x (S i))).
Proof.
  intros fuel x ok x' st Htr.
  induction Htr as [x|f x Ht|f x Ht Hf|f x Ht Hf Hs H1|f x Ht Hf Hs H1
                   |f x ok x' st Ht Hf Hs Htr IH]; intros i d Hi; cbn [length] in Hi;
    try lia.
  - destruct i as [|i]; [reflexivity|lia].
  - destruct i as [|i]; [reflexivity|lia].
  - destruct i as [|i]; [reflexivity|lia].
  - destruct i as [|i]; [reflexivity|].
    cbn [nth]. rewrite IH by lia. rewrite <- cands_shift. reflexivity.
Qed.

Lemma sac_le : forall tl : list (ir_step (T:=T)), stop_accept_count tl <= length tl.
Proof.
  intros tl. destruct tl as [|s tl]; [cbn; lia|].
  destruct s; destruct tl; cbn; lia.
Qed.

Lemma tr_shape : forall fuel x ok x' st,
  ir_trace O FL solvef errf P normb fuel x ok x' st ->
  exists ns tl,
    st = map IrAccept ns ++ tl /\
    (tl = [] \/ exists s, tl = [s] /\ is_accept s = false) /\
    x' = cands O solvef errf x (length ns + stop_accept_count tl).
Proof.
  intros fuel x ok x' st Htr.
  induction Htr as [x|f x Ht|f x Ht Hf|f x Ht Hf Hs H1|f x Ht Hf Hs H1
                   |f x ok x' st Ht Hf Hs Htr IH].
  - exists [], []. split; [reflexivity|]. split; [left; reflexivity|reflexivity].
  - exists [], []. split; [reflexivity|]. split; [left; reflexivity|reflexivity].
  - exists [], [IrNonFinite (snd (errf (ir_next O solvef errf x)))].
    split; [reflexivity|]. split; [|reflexivity].
    right. eexists. split; reflexivity.
  - exists [], [IrStopAccept (snd (errf (ir_next O solvef errf x)))].
    split; [reflexivity|]. split; [|reflexivity].
    right. eexists. split; reflexivity.
  - exists [], [IrStopReject (snd (errf (ir_next O solvef errf x)))].
    split; [reflexivity|]. split; [|reflexivity].
    right. eexists. split; reflexivity.
  - destruct IH as (ns & tl & Hst & Htl & Hx).
    exists (snd (errf (ir_next O solvef errf x)) :: ns), tl.
    split; [rewrite Hst; reflexivity|]. split; [exact Htl|].
    cbn [length plus]. rewrite cands_shift. exact Hx.
Qed.

Lemma tr_ok_iff : forall fuel x ok x' st,
  ir_trace O FL solvef errf P normb fuel x ok x' st ->
  (ok = false <-> exists nrm, In (IrNonFinite nrm) st).
Proof.
  intros fuel x ok x' st Htr.
  induction Htr as [x|f x Ht|f x Ht Hf|f x Ht Hf Hs H1|f x Ht Hf Hs H1
                   |f x ok x' st Ht Hf Hs Htr IH].
  - split; [discriminate|intros (n & [])].
  - split; [discriminate|intros (n & [])].
  - split; [intros _; eexists; left; reflexivity|reflexivity].
  - split; [discriminate|intros (n & [H|[]]); discriminate].
  - split; [discriminate|intros (n & [H|[]]); discriminate].
  - destruct IH as [A B]. split.
    + intros H. destruct (A H) as (n & Hn). exists n. right. exact Hn.
    + intros (n & [H|H]); [discriminate|]. apply B. exists n. exact H.
Qed.

Lemma tr_nonfin : forall fuel x ok x' st,
  ir_trace O FL solvef errf P normb fuel x ok x' st ->
  forall nrm, In (IrNonFinite nrm) st -> is_fin FL nrm = false.
Proof.
  intros fuel x ok x' st Htr.
  induction Htr as [x|f x Ht|f x Ht Hf|f x Ht Hf Hs H1|f x Ht Hf Hs H1
                   |f x ok x' st Ht Hf Hs Htr IH]; intros nrm Hin.
  - destruct Hin.
  - destruct Hin.
  - destruct Hin as [H|[]]. inversion H; subst. exact Hf.
  - destruct Hin as [H|[]]. discriminate.
  - destruct Hin as [H|[]]. discriminate.
  - destruct Hin as [H|H]; [discriminate|]. exact (IH nrm H).
Qed.

Lemma tr_fin : forall fuel x ok x' st,
  ir_trace O FL solvef errf P normb fuel x ok x' st ->
  forall s, In s st -> (forall nrm, s <> IrNonFinite nrm) -> is_fin FL (step_norm s) = true.
Proof.
  intros fuel x ok x' st Htr.
  induction Htr as [x|f x Ht|f x Ht Hf|f x Ht Hf Hs H1|f x Ht Hf Hs H1
                   |f x ok x' st Ht Hf Hs Htr IH]; intros s Hin Hne.
  - destruct Hin.
  - destruct Hin.
  - destruct Hin as [H|[]]. exfalso. exact (Hne _ (eq_sym H)).
  - destruct Hin as [H|[]]. subst s. exact Hf.
  - destruct Hin as [H|[]]. subst s. exact Hf.
  - destruct Hin as [H|H]; [subst s; exact Hf|]. exact (IH s H Hne).
Qed.

Lemma tr_tol : forall fuel x ok x' st,
  ir_trace O FL solvef errf P normb fuel x ok x' st ->
  ok = true -> (forall s, In s st -> is_accept s = true) -> length st < fuel ->
  leb O (snd (errf x')) (ir_tol O P normb) = true.
Proof.
  intros fuel x ok x' st Htr.
  induction Htr as [x|f x Ht|f x Ht Hf|f x Ht Hf Hs H1|f x Ht Hf Hs H1
                   |f x ok x' st Ht Hf Hs Htr IH]; intros Hok Hall Hlen.
  - cbn [length] in Hlen. lia.
  - exact Ht.
  - discriminate.
  - specialize (Hall _ (or_introl eq_refl)). discriminate.
  - specialize (Hall _ (or_introl eq_refl)). discriminate.
  - apply IH; [exact Hok| |cbn [length] in Hlen; lia].
    intros s Hs'. apply Hall. right. exact Hs'.
Qed.

End Generic.

Lemma ir_run_trace_ok : stmt_ir_run_trace.
Proof.
  intros T O FL solvef errf P normb x0. exact (ir_run_trace O FL solvef errf P normb x0).
Qed.

Lemma ir_passes_bounded_ok : stmt_ir_passes_bounded.
Proof.
  intros T O FL solvef errf P normb x0.
  destruct (ir_run_trace O FL solvef errf P normb x0)
    as [Hn0 [(Hf & Hok & Hx & Hst)|(Hf & Htr)]].
  - rewrite Hst. cbn [length]. lia.
  - exact (tr_len _ _ _ _ _ _ _ _ _ _ _ Htr).
Qed.

Lemma ir_shape_ok : stmt_ir_shape.
Proof.
  intros T O FL solvef errf P normb x0 r. subst r.
  destruct (ir_run_trace O FL solvef errf P normb x0)
    as [Hn0 [(Hf & Hok & Hx & Hst)|(Hf & Htr)]].
  - split; [exact Hn0|]. rewrite Hst, Hx. split.
    + intros i d Hi. cbn [length] in Hi. lia.
    + exists [], []. cbn [map app length plus stop_accept_count cands].
      split; [reflexivity|]. split; [left; reflexivity|].
      split; [reflexivity|]. split; lia.
  - split; [exact Hn0|]. split.
    + exact (tr_norms _ _ _ _ _ _ _ _ _ _ _ Htr).
    + destruct (tr_shape _ _ _ _ _ _ _ _ _ _ _ Htr) as (ns & tl & Hst & Htl & Hx).
      exists ns, tl. split; [exact Hst|]. split; [exact Htl|]. split; [exact Hx|].
      split.
      * rewrite Hst, app_length, map_length. pose proof (sac_le tl) as Hs. lia.
      * exact (tr_len _ _ _ _ _ _ _ _ _ _ _ Htr).
Qed.

Lemma ir_ok_iff_finite_ok : stmt_ir_ok_iff_finite.
Proof.
  intros T O FL solvef errf P normb x0 r. subst r.
  destruct (ir_run_trace O FL solvef errf P normb x0)
    as [Hn0 [(Hf & Hok & Hx & Hst)|(Hf & Htr)]]; rewrite Hn0.
  - rewrite Hst. split; [|split; [|split]].
    + split; [intros _; left; exact Hf|intros _; exact Hok].
    + intros nrm [].
    + intros s [].
    + intros [H|H]; [exfalso; apply H; reflexivity|congruence].
  - split; [|split; [|split]].
    + split.
      * intros H. right. exact (proj1 (tr_ok_iff _ _ _ _ _ _ _ _ _ _ _ Htr) H).
      * intros [H|H]; [congruence|].
        exact (proj2 (tr_ok_iff _ _ _ _ _ _ _ _ _ _ _ Htr) H).
    + exact (tr_nonfin _ _ _ _ _ _ _ _ _ _ _ Htr).
    + exact (tr_fin _ _ _ _ _ _ _ _ _ _ _ Htr).
    + intros _. exact Hf.
Qed.

Lemma ir_ok_field_ok : stmt_ir_ok_field.
Proof.
  intros T O z solvef errf P normb x0.
  destruct (ir_ok_iff_finite_ok T O (FlField z) solvef errf P normb x0)
    as (Hiff & Hnf & _ & _).
  assert (Hno : forall nrm,
             ~ In (IrNonFinite nrm)
                  (irr_steps (ir_run O (FlField z) solvef errf P normb x0))).
  { intros nrm Hin. specialize (Hnf nrm Hin). cbn in Hnf. discriminate. }
  split; [|exact Hno].
  destruct (irr_ok (ir_run O (FlField z) solvef errf P normb x0)) eqn:Hok; [reflexivity|].
  destruct (proj1 Hiff eq_refl) as [H|(nrm & H)].
  - cbn in H. discriminate.
  - exfalso. exact (Hno nrm H).
Qed.

Lemma ir_tolerance_exit_gen_ok : stmt_ir_tolerance_exit_gen.
Proof.
  intros T O FL solvef errf P normb x0 r Hok Hall Hlen. subst r.
  destruct (ir_run_trace O FL solvef errf P normb x0)
    as [Hn0 [(Hf & Hok' & Hx & Hst)|(Hf & Htr)]].
  - congruence.
  - exact (tr_tol _ _ _ _ _ _ _ _ _ _ _ Htr Hok Hall Hlen).
Qed.

Lemma ir_tolerance_exit_ok : stmt_ir_tolerance_exit.
Proof.
  intros solvef errf P normb x0 r Hok Hall Hlen.
  pose proof (ir_tolerance_exit_gen_ok R OpsR (FlField 0%R) solvef errf P normb x0
                                       Hok Hall Hlen) as H.
  apply Rleb_true in H. exact H.
Qed.

(** ** reals *)
Lemma ratio_le : forall n n' : R, (0 <= n)%R -> (0 <= n')%R -> (1 <= n / n')%R -> (n' <= n)%R.
Proof.
  intros n n' Hn Hn' Hr.
  destruct (Req_dec n' 0) as [Hz|Hz]; [lra|].
  assert (Hpos : (0 < n')%R) by lra.
  assert (Heq : n = (n / n' * n')%R) by (field; exact Hz).
  set (q := (n / n')%R) in *. nra.
Qed.

Lemma last_cons_default : forall (A : Type) (l : list A) (a d : A),
  last (a :: l) d = last l a.
Proof.
  intros A l. induction l as [|b l IH]; intros a d.
  - reflexivity.
  - change (last (a :: b :: l) d) with (last (b :: l) d).
    rewrite IH. symmetry. apply IH.
Qed.

Lemma noninc_last : forall l p, noninc p l -> (last l p <= p)%R.
Proof.
  intros l. induction l as [|a t IH]; intros p H.
  - cbn. lra.
  - destruct H as [Ha Ht]. rewrite last_cons_default.
    specialize (IH a Ht). lra.
Qed.

Lemma trR_mono : forall solvef errf (P : ir_params (T:=R)) normb,
  (1 <= ir_stopratio P)%R ->
  (forall c, (0 <= snd (errf c))%R) ->
  forall fuel x ok x' st,
  ir_trace OpsR (FlField 0%R) solvef errf P normb fuel x ok x' st ->
  noninc (snd (errf x)) (accepted_norms st) /\
  snd (errf x') = last (accepted_norms st) (snd (errf x)).
Proof.
  intros solvef errf P normb Hsr Hnn fuel x ok x' st Htr.
  induction Htr as [x|f x Ht|f x Ht Hf|f x Ht Hf Hs H1|f x Ht Hf Hs H1
                   |f x ok x' st Ht Hf Hs Htr IH].
  - cbn. split; [exact I|reflexivity].
  - cbn. split; [exact I|reflexivity].
  - cbn. split; [exact I|reflexivity].
  - cbn [accepted_norms flat_map app noninc last]. split; [|reflexivity].
    split; [|exact I].
    cbn [ltb OpsR one div] in H1. apply Rltb_true in H1.
    apply ratio_le; [apply Hnn|apply Hnn|lra].
  - cbn. split; [exact I|reflexivity].
  - destruct IH as [IH1 IH2].
    change (accepted_norms (IrAccept (snd (errf (ir_next OpsR solvef errf x))) :: st))
      with (snd (errf (ir_next OpsR solvef errf x)) :: accepted_norms st).
    rewrite last_cons_default. split; [|exact IH2].
    split; [|exact IH1].
    cbn [ltb OpsR div] in Hs. apply Rltb_false in Hs.
    apply ratio_le; [apply Hnn|apply Hnn|lra].
Qed.

Lemma ir_monotone_ok : stmt_ir_monotone.
Proof.
  intros solvef errf P normb x0 Hsr Hnn r. subst r.
  destruct (ir_run_trace OpsR (FlField 0%R) solvef errf P normb x0)
    as [Hn0 [(Hf & Hok & Hx & Hst)|(Hf & Htr)]].
  - cbn in Hf. discriminate.
  - destruct (trR_mono solvef errf P normb Hsr Hnn _ _ _ _ _ Htr) as [Hni Hlast].
    rewrite Hn0. split; [|split; [exact Hni|exact Hlast]].
    rewrite Hlast. apply noninc_last. exact Hni.
Qed.

(** ** infinity norm over the reals *)
Lemma norm_inf_go_R : forall (l : list R) (out : R), (0 <= out)%R ->
  (out <= norm_inf_go OpsR (FlField 0%R) l out)%R /\
  (forall v, In v l -> (Rabs v <= norm_inf_go OpsR (FlField 0%R) l out)%R) /\
  (norm_inf_go OpsR (FlField 0%R) l out = out \/
   exists v, In v l /\ norm_inf_go OpsR (FlField 0%R) l out = Rabs v).
Proof.
  intros l. induction l as [|a l IH]; intros out Hout.
  - cbn [norm_inf_go]. split; [lra|]. split; [intros v []|left; reflexivity].
  - cbn [norm_inf_go is_nan FlField].
    set (o' := omax OpsR out (abs OpsR a)).
    assert (Ho : (out <= o')%R /\ (Rabs a <= o')%R /\ (o' = out \/ o' = Rabs a)).
    { unfold o', omax. cbn [ltb abs OpsR].
      destruct (Rltb out (Rabs a)) eqn:E;
        [apply Rltb_true in E|apply Rltb_false in E].
      - split; [lra|]. split; [lra|right; reflexivity].
      - split; [lra|]. split; [lra|left; reflexivity]. }
    destruct Ho as (Ho1 & Ho2 & Ho3).
    assert (Ho' : (0 <= o')%R) by lra.
    destruct (IH o' Ho') as (I1 & I2 & I3).
    split; [lra|]. split.
    + intros v [Hv|Hv]; [subst v; lra|exact (I2 v Hv)].
    + destruct I3 as [I3|(v & Hv & I3)].
      * destruct Ho3 as [Ho3|Ho3].
        -- left. rewrite I3. exact Ho3.
        -- right. exists a. split; [left; reflexivity|]. rewrite I3. exact Ho3.
      * right. exists v. split; [right; exact Hv|exact I3].
Qed.

Lemma norm_inf_nonneg_ok : stmt_norm_inf_nonneg.
Proof.
  assert (H : forall l : list R,
     (0 <= norm_inf OpsR (FlField 0%R) l)%R /\
     (forall v, In v l -> (Rabs v <= norm_inf OpsR (FlField 0%R) l)%R) /\
     (l = [] /\ norm_inf OpsR (FlField 0%R) l = 0%R \/
      exists v, In v l /\ norm_inf OpsR (FlField 0%R) l = Rabs v)).
  { intros l. unfold norm_inf. cbn [zero OpsR].
    destruct (norm_inf_go_R l 0%R (Rle_refl 0%R)) as (I1 & I2 & I3).
    split; [exact I1|]. split; [exact I2|].
    destruct I3 as [I3|I3]; [|right; exact I3].
    destruct l as [|a l]; [left; split; [reflexivity|exact I3]|].
    right. exists a. split; [left; reflexivity|].
    rewrite I3. pose proof (I2 a (or_introl eq_refl)) as Ha.
    rewrite I3 in Ha. pose proof (Rabs_pos a) as Hp. lra. }
  split; [exact H|].
  intros K b c. unfold refine_error. cbv zeta. cbn [snd].
  exact (proj1 (H _)).
Qed.

Lemma ir_examples_ok : stmt_ir_examples.
Proof.
  unfold stmt_ir_examples. vm_compute. repeat split; reflexivity.
Qed.
