(** Proofs of the glue statements of Qdldl/SpecEndToEnd.v: permutation invariance of dense
    sums, the flat layout reads back the columns, and the dense algebra turning the row-wise
    solve equation into S_sym z = b. *)
From Coq Require Import List Arith Lia Bool Ring Permutation.
Import ListNotations.
Require Import Clarabel.Base.Ops Clarabel.Qdldl.Model Clarabel.Qdldl.SpecSolve
        Clarabel.Qdldl.LemmasFactor Clarabel.Qdldl.LemmasSolve Clarabel.Qdldl.LemmasBounds
        Clarabel.Qdldl.SpecEndToEnd.

(** * Ring-dependent facts about dense sums *)
Section GlueRing.
Context {T : Type} (O : Ops T).
Hypothesis RT : ring_theory (zero O) (one O) (add O) (mul O) (sub O) (neg O) (@eq T).
Add Ring GlRing : RT.

Notation oz := (zero O).
Notation "a [+] b" := (add O a b) (at level 50, left associativity).
Notation "a [*] b" := (mul O a b) (at level 40, left associativity).

Lemma gl_isum_cons a l f : isum O (a :: l) f = f a [+] isum O l f.
Proof. reflexivity. Qed.

Lemma gl_isum_nil f : isum O [] f = oz.
Proof. reflexivity. Qed.

Lemma gl_isum_perm l l' f : Permutation l l' -> isum O l f = isum O l' f.
Proof.
  intros HP. induction HP as [|x l l' HP IH|x y l|l l' l'' HP1 IH1 HP2 IH2].
  - reflexivity.
  - rewrite !gl_isum_cons, IH. reflexivity.
  - rewrite !gl_isum_cons. ring.
  - rewrite IH1. exact IH2.
Qed.

Lemma gl_isum_scal_l l a f : isum O l (fun k => a [*] f k) = a [*] isum O l f.
Proof.
  induction l as [|x l IH].
  - rewrite !gl_isum_nil. ring.
  - rewrite !gl_isum_cons, IH. ring.
Qed.

Lemma gl_isum_scal_r l a f : isum O l (fun k => f k [*] a) = isum O l f [*] a.
Proof.
  induction l as [|x l IH].
  - rewrite !gl_isum_nil. ring.
  - rewrite !gl_isum_cons, IH. ring.
Qed.

Lemma gl_isum_swap l l' (g : nat -> nat -> T) :
  isum O l (fun a => isum O l' (fun b => g a b))
  = isum O l' (fun b => isum O l (fun a => g a b)).
Proof.
  induction l as [|x l IH].
  - rewrite gl_isum_nil. symmetry. apply (sv_isum_zero O RT). intros k _. reflexivity.
  - rewrite gl_isum_cons, IH.
    rewrite <- (sv_isum_add O RT).
    apply (sv_isum_ext O). intros k _. rewrite gl_isum_cons. reflexivity.
Qed.

(** split a full-range sum at [c] *)
Lemma gl_isum_split3 c m f :
  isum O (seq 0 (c + S m)) f
  = isum O (seq 0 c) f [+] (f c [+] isum O (seq (S c) m) f).
Proof.
  rewrite seq_app, (sv_isum_app O RT). cbn [Nat.add seq]. rewrite gl_isum_cons. reflexivity.
Qed.

(** drop a vanishing tail *)
Lemma gl_isum_shrink n m f :
  m <= n -> (forall k, m <= k < n -> f k = oz) ->
  isum O (seq 0 n) f = isum O (seq 0 m) f.
Proof.
  intros Hmn Hz.
  replace n with (m + (n - m)) at 1 by lia.
  rewrite seq_app, (sv_isum_app O RT). cbn [Nat.add].
  rewrite (sv_isum_zero O RT (seq m (n - m)) f).
  - ring.
  - intros k Hk. apply in_seq in Hk. apply Hz. lia.
Qed.

(** ** the dense identity *)
Section Dense.
Variables (n : nat) (Lp Li : list nat) (Lx Dg b z : list T) (S : nat -> nat -> T).
Hypothesis Hwf : wf_L n Lp Li.

Notation M := (Mflat O Lp Li Lx).
Notation d := (fun c => nth c Dg oz).
Notation zz := (fun k => nth k z oz).

Lemma gl_M_diag i : M i i = one O.
Proof. unfold Mflat. rewrite Nat.eqb_refl. reflexivity. Qed.

Lemma gl_M_lower i c : c < i -> M i c = lent O Lp Li Lx i c.
Proof.
  intros H. unfold Mflat. destruct (Nat.eqb_spec i c) as [E|E]; [lia|reflexivity].
Qed.

Lemma gl_M_upper i c : i < c -> c < n -> M i c = oz.
Proof.
  intros H Hc. unfold Mflat. destruct (Nat.eqb_spec i c) as [E|E]; [lia|].
  apply (sv_lent_upper O n); [exact Hwf|exact Hc|lia].
Qed.

(** row c of (I+L)' z as a full-range sum *)
Lemma gl_ltrow_full c : c < n ->
  ltrow O n Lp Li Lx z c = isum O (seq 0 n) (fun k => M k c [*] zz k).
Proof.
  intros Hc. unfold ltrow, vsum_range.
  replace (seq 0 n) with (seq 0 (c + Datatypes.S (n - Datatypes.S c))) by (f_equal; lia).
  rewrite gl_isum_split3.
  rewrite (sv_isum_zero O RT (seq 0 c)).
  - rewrite gl_M_diag.
    rewrite (sv_isum_ext O (seq (Datatypes.S c) (n - Datatypes.S c))
               (fun k => M k c [*] zz k)
               (fun j => lent O Lp Li Lx j c [*] nth j z oz)).
    + ring.
    + intros k Hk. apply in_seq in Hk. rewrite gl_M_lower by lia. reflexivity.
  - intros k Hk. apply in_seq in Hk. rewrite gl_M_upper by lia. ring.
Qed.

(** row i of (I+L) w as a full-range sum *)
Lemma gl_lrow_full i (w : nat -> T) : i < n ->
  w i [+] vsum O i (fun c => lent O Lp Li Lx i c [*] w c)
  = isum O (seq 0 n) (fun c => M i c [*] w c).
Proof.
  intros Hi. unfold vsum.
  replace (seq 0 n) with (seq 0 (i + Datatypes.S (n - Datatypes.S i))) by (f_equal; lia).
  rewrite gl_isum_split3.
  rewrite (sv_isum_zero O RT (seq (Datatypes.S i) (n - Datatypes.S i))).
  - rewrite gl_M_diag.
    rewrite (sv_isum_ext O (seq 0 i)
               (fun c => M i c [*] w c)
               (fun c => lent O Lp Li Lx i c [*] w c)).
    + ring.
    + intros k Hk. apply in_seq in Hk. rewrite gl_M_lower by lia. reflexivity.
  - intros k Hk. apply in_seq in Hk. rewrite gl_M_upper by lia. ring.
Qed.

Hypothesis HS : forall i j, i <= j -> j < n ->
  isum O (seq 0 (Datatypes.S i)) (fun c => M i c [*] d c [*] M j c) = S i j.

(** the full-range inner sum is the symmetric reading of [S] *)
Lemma gl_inner i k : i < n -> k < n ->
  isum O (seq 0 n) (fun c => M i c [*] d c [*] M k c)
  = if i <=? k then S i k else S k i.
Proof.
  intros Hi Hk. destruct (Nat.leb_spec i k) as [Hik|Hki].
  - rewrite (gl_isum_shrink n (Datatypes.S i)).
    + apply HS; assumption.
    + lia.
    + intros c Hc. rewrite (gl_M_upper i c) by lia. ring.
  - rewrite (gl_isum_shrink n (Datatypes.S k)).
    + rewrite <- (HS k i) by lia.
      apply (sv_isum_ext O). intros c _. ring.
    + lia.
    + intros c Hc. rewrite (gl_M_upper k c) by lia. ring.
Qed.

Lemma gl_ldlt_dense :
  ldlt_spec O n Lp Li Lx Dg b z ->
  forall i, i < n ->
    vsum O n (fun j => (if i <=? j then S i j else S j i) [*] zz j) = nth i b oz.
Proof.
  intros [Hlen Hrow] i Hi.
  rewrite <- (Hrow i Hi).
  rewrite (gl_lrow_full i (fun c => dltrow O n Lp Li Lx Dg z c) Hi).
  unfold vsum.
  (* expand the rows of (I+L)' z *)
  rewrite (sv_isum_ext O (seq 0 n)
             (fun c => M i c [*] dltrow O n Lp Li Lx Dg z c)
             (fun c => isum O (seq 0 n) (fun k => M i c [*] d c [*] M k c [*] zz k))).
  - rewrite gl_isum_swap.
    apply (sv_isum_ext O). intros k Hk. apply in_seq in Hk.
    rewrite gl_isum_scal_r. rewrite gl_inner by lia. reflexivity.
  - intros c Hc. apply in_seq in Hc. unfold dltrow.
    rewrite gl_ltrow_full by lia.
    rewrite <- gl_isum_scal_l, <- gl_isum_scal_l.
    apply (sv_isum_ext O). intros k _. ring.
Qed.

End Dense.
End GlueRing.

(** * The flat layout reads back the columns (no ring needed) *)
Section GlueFlatten.
Context {T : Type}.
Variables (pad dz : T).

Lemma gl_flatten_concat : forall lnz (cols : list (list (nat * T))) li0 lx0 li lx,
  length lnz = length cols ->
  (forall c, c < length cols -> length (nth c cols []) = nth c lnz 0) ->
  foldM (flat_step pad) (combine lnz cols) (Ok (li0, lx0)) = Ok (li, lx) ->
  li = li0 ++ concat (map (map fst) cols) /\ lx = lx0 ++ concat (map (map snd) cols).
Proof.
  induction lnz as [|l lnz IH]; intros cols li0 lx0 li lx Hlen Hnp Hf.
  - destruct cols as [|c0 cols]; [|discriminate]. simpl combine in Hf.
    rewrite fa_foldM_nil in Hf. inversion Hf; subst. cbn [map concat].
    rewrite !app_nil_r. split; reflexivity.
  - destruct cols as [|c0 cols]; [discriminate|]. cbn [length] in Hlen.
    simpl combine in Hf. rewrite fa_foldM_cons in Hf.
    pose proof (Hnp 0 (Nat.lt_0_succ _)) as Hc0. cbn [nth] in Hc0.
    unfold flat_step at 2 in Hf. rewrite Hc0, Nat.leb_refl, Nat.sub_diag in Hf.
    cbn [repeat] in Hf. rewrite !app_nil_r in Hf.
    destruct (IH cols (li0 ++ map fst c0) (lx0 ++ map snd c0) li lx) as [H1 H2].
    + lia.
    + intros c Hc. apply (Hnp (S c)). cbn [length]. lia.
    + exact Hf.
    + cbn [map concat]. rewrite !app_assoc. split; assumption.
Qed.

(** reading a middle segment back *)
Lemma gl_read_middle : forall (m : list (nat * T)) p1 p2 q1 q2,
  length p1 = length p2 ->
  map (fun idx => (nth idx (p1 ++ map fst m ++ q1) 0, nth idx (p2 ++ map snd m ++ q2) dz))
      (seq (length p1) (length m)) = m.
Proof.
  induction m as [|e m IH]; intros p1 p2 q1 q2 Hl; [reflexivity|].
  cbn [length seq map app].
  rewrite nth_middle.
  replace (nth (length p1) (p2 ++ snd e :: map snd m ++ q2) dz) with (snd e)
    by (rewrite Hl; symmetry; apply nth_middle).
  f_equal; [destruct e; reflexivity|].
  specialize (IH (p1 ++ [fst e]) (p2 ++ [snd e]) q1 q2).
  rewrite !app_length in IH. cbn [length] in IH.
  rewrite <- !app_assoc in IH. cbn [app] in IH.
  replace (length p1 + 1) with (S (length p1)) in IH by lia.
  apply IH. lia.
Qed.

Lemma gl_lcol_concat : forall (cols : list (list (nat * T))) lnz base li0 lx0 c,
  length li0 = base -> length lx0 = base ->
  length lnz = length cols ->
  (forall c, c < length cols -> length (nth c cols []) = nth c lnz 0) ->
  c < length cols ->
  map (fun idx => (nth idx (li0 ++ concat (map (map fst) cols)) 0,
                   nth idx (lx0 ++ concat (map (map snd) cols)) dz))
      (col_range (base :: cumsum_from base lnz) c)
  = nth c cols [].
Proof.
  induction cols as [|c0 cols IH]; intros lnz base li0 lx0 c Hb1 Hb2 Hlen Hnp Hc;
    [cbn [length] in Hc; lia|].
  destruct lnz as [|l lnz]; [discriminate|]. cbn [length] in Hlen, Hc.
  pose proof (Hnp 0 (Nat.lt_0_succ _)) as Hc0. cbn [nth] in Hc0.
  cbn [map concat cumsum_from].
  destruct c as [|c].
  - unfold col_range. cbn [nth].
    replace (base + l - base) with (length c0) by lia.
    rewrite <- Hb1. apply gl_read_middle. lia.
  - change (col_range (base :: base + l :: cumsum_from (base + l) lnz) (S c))
      with (col_range (base + l :: cumsum_from (base + l) lnz) c).
    cbn [nth]. rewrite !app_assoc.
    apply IH.
    + rewrite app_length, map_length. lia.
    + rewrite app_length, map_length. lia.
    + lia.
    + intros c' Hc'. apply (Hnp (S c')). cbn [length]. lia.
    + lia.
Qed.

End GlueFlatten.

(** * The statements *)
Lemma isum_perm_ok : stmt_isum_perm.
Proof.
  intros T O l l' f RT HP. apply (gl_isum_perm O RT); exact HP.
Qed.

Lemma flatten_lcol_ok : stmt_flatten_lcol.
Proof.
  intros T O n lnz cols pad li lx Hln Hcn Hnp Hf c Hc.
  unfold flatten_cols in Hf.
  destruct (gl_flatten_concat pad lnz cols [] [] li lx) as [H1 H2].
  - lia.
  - intros c' Hc'. apply Hnp. lia.
  - exact Hf.
  - subst li lx. unfold lcol, cumsum0.
    apply (gl_lcol_concat (zero O) cols lnz 0 [] [] c); try reflexivity.
    + lia.
    + intros c' Hc'. apply Hnp. lia.
    + lia.
Qed.

Lemma ldlt_dense_ok : stmt_ldlt_dense.
Proof.
  intros T O n Lp Li Lx Dg b z S RT Hwf HS Hspec i Hi.
  apply (gl_ldlt_dense O RT n Lp Li Lx Dg b z S Hwf HS Hspec i Hi).
Qed.
