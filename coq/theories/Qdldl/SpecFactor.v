(** Statements about the numeric factorisation [factor_inner] (statements only):
    dynamic regularisation, zero-pivot reporting, the pivot trace of a successful run,
    the two counters (regularize_count, positive_inertia), error kinds.
    Everything is stated for ANY [Ops T] (no algebraic law is used), so it covers binary64. *)
From Coq Require Import List Arith ZArith QArith Lia Bool.
Import ListNotations.
Require Import Clarabel.Base.Ops Clarabel.Qdldl.Model.
Local Close Scope Q_scope.

Definition count_true (l : list bool) : nat := length (filter (fun b => b) l).

(** a pivot is perturbed only when its signed value is below the threshold, and then it
    becomes delta*sign; otherwise it is returned unchanged *)
Definition stmt_regularise_only_below_eps : Prop :=
  forall T (O : Ops T) P k d d' r, regularise O P k d = (d', r) ->
    (r = true -> fp_reg_enable P = true
                 /\ ltb O (mul O d (ofZ O (nth k (fp_Dsigns P) 1%Z))) (fp_eps P) = true
                 /\ d' = mul O (fp_delta P) (ofZ O (nth k (fp_Dsigns P) 1%Z)))
    /\ (r = false -> d' = d
                 /\ (fp_reg_enable P = true ->
                     ltb O (mul O d (ofZ O (nth k (fp_Dsigns P) 1%Z))) (fp_eps P) = false)).

(** a zero pivot (after regularisation) is always reported *)
Definition stmt_zero_pivot_is_error : Prop :=
  forall T (O : Ops T) P k d st,
    eqb O (fst (regularise O P k d)) (zero O) = true ->
    pivot_finish O P k d st = Err ZeroPivot.

(** what one successful [pivot_finish] does to the state *)
Definition stmt_pivot_finish_ok : Prop :=
  forall T (O : Ops T) P k d st st',
    pivot_finish O P k d st = Ok st' ->
    let d' := fst (regularise O P k d) in
    eqb O d' (zero O) = false /\
    fs_cols st' = fs_cols st /\ fs_marks st' = fs_marks st /\ fs_yvals st' = fs_yvals st /\
    fs_D st' = upd (fs_D st) k d' /\
    fs_Dinv st' = upd (fs_Dinv st) k (div O (one O) d') /\
    fs_pos st' = (if ltb O (zero O) d' then S (fs_pos st) else fs_pos st) /\
    fs_reg st' = (if snd (regularise O P k d) then S (fs_reg st) else fs_reg st).

(** the trace theorem: [piv] are the pivots before regularisation; the returned D is the
    regularised pivot list and never contains a zero, Dinv its reciprocals, regularize_count
    the number of perturbed pivots, positive_inertia the number of positive entries of the
    RETURNED D (counted after regularisation) *)
Definition stmt_factor_inner_pivots : Prop :=
  forall T (O : Ops T) n Ap Ai Ax et P st,
    fp_logical P = false -> factor_inner O n Ap Ai Ax et P = Ok st ->
    exists piv : list T,
      length piv = n /\ length (fs_D st) = n /\ length (fs_Dinv st) = n /\
      (forall k, k < n ->
         nth k (fs_D st) (zero O) = fst (regularise O P k (nth k piv (zero O))) /\
         eqb O (nth k (fs_D st) (zero O)) (zero O) = false /\
         nth k (fs_Dinv st) (zero O) = div O (one O) (nth k (fs_D st) (zero O))) /\
      fs_reg st = count_true (map (fun k => snd (regularise O P k (nth k piv (zero O)))) (seq 0 n)) /\
      fs_pos st = count_true (map (fun k => ltb O (zero O) (nth k (fs_D st) (zero O))) (seq 0 n)).

(** consequences that do not mention the pivot list *)
Definition stmt_factor_inner_counts_le : Prop :=
  forall T (O : Ops T) n Ap Ai Ax et P st,
    fp_logical P = false -> factor_inner O n Ap Ai Ax et P = Ok st ->
    1 <= n /\ fs_reg st <= n /\ fs_pos st <= n /\
    (fp_reg_enable P = false -> fs_reg st = 0).

(** the only errors: zero pivot, fuel of the elimination-reach walk, empty matrix *)
Definition stmt_factor_inner_errors : Prop :=
  forall T (O : Ops T) n Ap Ai Ax et P e,
    factor_inner O n Ap Ai Ax et P = Err e -> e = ZeroPivot \/ e = OutOfFuel \/ e = Panicked.

(** the logical (symbolic) pass never fails with a zero pivot and leaves both counters at 0 *)
Definition stmt_factor_inner_logical : Prop :=
  forall T (O : Ops T) n Ap Ai Ax et P st,
    fp_logical P = true -> factor_inner O n Ap Ai Ax et P = Ok st ->
    fs_pos st = 0 /\ fs_reg st = 0.
Definition stmt_factor_inner_logical_errors : Prop :=
  forall T (O : Ops T) n Ap Ai Ax et P e,
    fp_logical P = true -> factor_inner O n Ap Ai Ax et P = Err e -> e = OutOfFuel.

(** non-vacuity: a 3x3 quasi-definite matrix over Q whose second pivot is exactly 0
      [ 4  2  2 ]
      [ 2  1  1 ]      signs (+,-,+), eps = 1/100, delta = 1/2
      [ 2  1  5 ]
    pivots before regularisation 4, 0, 4; D = 4, -1/2, 4; one perturbation; two positive *)
Definition ex_Ap : list nat := [0; 1; 3; 6].
Definition ex_Ai : list nat := [0; 0; 1; 0; 1; 2].
Definition ex_Ax : list Q := [4; 2; 1; 2; 1; 5]%Q.
Definition ex_et : list (option nat) := [Some 1; Some 2; None].
Definition ex_P : fparams (T:=Q) := mkFP false [1; -1; 1]%Z true (1#100)%Q (1#2)%Q.
Definition ex_P_noreg : fparams (T:=Q) := mkFP false [1; -1; 1]%Z false (1#100)%Q (1#2)%Q.

Definition stmt_factor_example : Prop :=
  match factor_inner OpsQ 3 ex_Ap ex_Ai ex_Ax ex_et ex_P with
  | Ok st => fp_logical ex_P = false /\ fs_reg st = 1 /\ fs_pos st = 2 /\
             length (fs_D st) = 3 /\
             forallb (fun dq => Qeq_bool (fst dq) (snd dq))
                     (combine (fs_D st) [4; -(1#2); 4]%Q) = true /\
             forallb (fun dq => Qeq_bool (fst dq) (snd dq))
                     (combine (fs_Dinv st) [1#4; -(2); 1#4]%Q) = true
  | Err _ => False
  end.
(** the same matrix without regularisation: the zero pivot is reported *)
Definition stmt_factor_example_zero_pivot : Prop :=
  factor_inner OpsQ 3 ex_Ap ex_Ai ex_Ax ex_et ex_P_noreg = Err ZeroPivot.
