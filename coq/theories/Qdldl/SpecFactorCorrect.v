(** Statements about the numeric content of [factor_inner] (up-looking sparse LDL' of QDLDL):
    one [rowB_step] in algebraic form, the whole phase B of a row as a forward substitution,
    and (stated, see the report for its proof status) A = (I+L) D (I+L)'.
    Statements and spec predicates only. *)
From Coq Require Import List Arith Lia Bool Ring.
Import ListNotations.
Require Import Clarabel.Base.Ops Clarabel.Qdldl.Model Clarabel.Qdldl.SpecSolve.

(** ** order predicates on index lists (no scalars involved) *)

(** [after_in c r l]: [c] occurs in [l] and [r] occurs in [l] strictly after the first
    occurrence of [c] *)
Fixpoint after_in (c r : nat) (l : list nat) : bool :=
  match l with
  | [] => false
  | x :: l' => if x =? c then existsb (Nat.eqb r) l' else after_in c r l'
  end.

(** the elements of [l] strictly before the first occurrence of [c] *)
Fixpoint prefix_before (c : nat) (l : list nat) : list nat :=
  match l with
  | [] => []
  | x :: l' => if x =? c then [] else x :: prefix_before c l'
  end.

(** the [reach_covers] test of one row: for every column [c] of [y_idx] and every entry
    (r,_) stored so far in column [c] of L, [r] is in [y_idx] and is processed (phase B runs
    over [rev y_idx]) strictly AFTER [c].  That is: the computed elimination reach is closed
    under the structure of L and topologically ordered.  Generic in the scalar type; [k] (the
    row being computed) is carried for the callers' convenience and not inspected. *)
Definition reach_closed {T : Type} (k : nat) (cols : list (list (nat * T))) (yidx : list nat)
  : bool :=
  let _ := k in
  forallb (fun c => forallb (fun e => after_in c (fst e) (rev yidx)) (nth c cols [])) yidx.

Section FactorCorrectSpec.
Context {T : Type} (O : Ops T).

(** ** phase B of row k as a forward substitution.
    [cols], [a], [dk] are the columns of L, the scattered column k of A (= y_vals after
    phase A) and the diagonal entry before phase B; primed values after it.  [y c] is the
    value of y_vals[c] at the moment column [c] is eliminated. *)
Definition rowB_spec (k : nat) (Dinv : list T) (cols : list (list (nat * T))) (a : list T)
           (marks : list bool) (dk : T) (yidx : list nat)
           (cols' : list (list (nat * T))) (yv' : list T) (marks' : list bool) (dk' : T) : Prop :=
  exists y : nat -> T,
    (* unit lower triangular system, in processing order *)
    (forall c, In c yidx ->
       add O (y c)
             (isum O (prefix_before c (rev yidx))
                   (fun c' => mul O (colent O (nth c' cols []) c) (y c')))
       = nth c a (zero O)) /\
    (* the appended entries of row k *)
    length cols' = length cols /\
    (forall c, In c yidx ->
       nth c cols' [] = nth c cols [] ++ [(k, mul O (y c) (nth c Dinv (zero O)))]) /\
    (forall c, ~ In c yidx -> nth c cols' [] = nth c cols []) /\
    (* the scratch vector is cleaned on y_idx and untouched elsewhere *)
    length yv' = length a /\
    (forall c, In c yidx -> nth c yv' (zero O) = zero O) /\
    (forall r, ~ In r yidx -> nth r yv' (zero O) = nth r a (zero O)) /\
    (* the pivot *)
    dk' = sub O dk (isum O (rev yidx)
                         (fun c => mul O (y c) (mul O (y c) (nth c Dinv (zero O))))) /\
    (* the markers *)
    marks' = fold_left (fun m c => upd m c false) (rev yidx) marks.

(** ** dense readings used by the end-to-end statement *)

(** A[i,j] for i <= j, read from the upper-triangular CSC arrays *)
Definition Aent (Ap Ai : list nat) (Ax : list T) (i j : nat) : T :=
  isum O (filter (fun idx => nth idx Ai 0 =? i) (col_range Ap j))
       (fun idx => nth idx Ax (zero O)).

(** (I + L)[i,c], L read from the column lists *)
Definition Ment (cols : list (list (nat * T))) (i c : nat) : T :=
  if i =? c then one O else colent O (nth c cols []) i.

(** stored rows of column j are <= j and pairwise distinct *)
Definition triu_nodup (n : nat) (Ap Ai : list nat) : Prop :=
  (forall j idx, j < n -> In idx (col_range Ap j) -> nth idx Ai 0 <= j) /\
  (forall j, j < n -> NoDup (map (fun idx => nth idx Ai 0) (col_range Ap j))).

(** [reach_closed] evaluated on the y_idx that phase A of row [k] computes from state [st]
    ([true] when phase A fails: then the run is not [Ok] anyway) *)
Definition row_reach_closed (n : nat) (Ai : list nat) (Ap : list nat) (Ax : list T)
           (et : list (option nat)) (st : fstate (T:=T)) (k : nat) : bool :=
  match foldM (rowA_step O n k Ai Ax et) (col_range Ap k)
              (Ok (zero O, fs_yvals st, fs_marks st, [])) with
  | Ok (_, _, _, yidx) => reach_closed k (fs_cols st) yidx
  | Err _ => true
  end.

(** instrumented replay of [factor_inner] (non-logical): AND of the per-row tests *)
Definition reach_closed_all (n : nat) (Ap Ai : list nat) (Ax : list T)
           (et : list (option nat)) (P : fparams (T:=T)) : bool :=
  let st0 := mkFS (repeat [] n) (repeat (zero O) n) (repeat (zero O) n)
                  (repeat false n) (repeat (zero O) n) 0 0 in
  match pivot_finish O P 0 (if nth 0 Ap 0 <? nth 1 Ap 0 then nth (nth 0 Ap 0) Ax (zero O)
                            else zero O) st0 with
  | Err _ => true
  | Ok st1 =>
      snd (fold_left
             (fun (acc : res (fstate (T:=T)) * bool) k =>
                match fst acc with
                | Ok st => (row_step O n Ap Ai Ax et P st k,
                            snd acc && row_reach_closed n Ai Ap Ax et st k)
                | Err _ => acc
                end)
             (seq 1 (n - 1)) (Ok st1, true))
  end.

End FactorCorrectSpec.

(** ** Stage 1: one [rowB_step], algebraically *)
Definition stmt_rowB_step_algebraic : Prop :=
  forall (T : Type) (O : Ops T) k Dinv cols yv marks dk cidx,
    RingLaws O ->
    cidx < length yv ->
    (forall e, In e (nth cidx cols []) -> fst e < length yv) ->
    let col := nth cidx cols [] in
    let yc := nth cidx yv (zero O) in
    let lx := mul O yc (nth cidx Dinv (zero O)) in
    exists yv',
      rowB_step O false k Dinv (cols, yv, marks, dk) cidx
      = (upd cols cidx (col ++ [(k, lx)]), yv', upd marks cidx false, sub O dk (mul O yc lx)) /\
      length yv' = length yv /\
      nth cidx yv' (zero O) = zero O /\
      forall r, r <> cidx ->
        nth r yv' (zero O) = sub O (nth r yv (zero O)) (mul O (colent O col r) yc).

(** ** Stage 2: phase B = forward substitution on the reach *)
Definition stmt_rowB_forward_subst : Prop :=
  forall (T : Type) (O : Ops T) k Dinv cols a marks dk yidx cols' yv' marks' dk',
    RingLaws O ->
    NoDup yidx ->
    (forall c, In c yidx -> c < length cols /\ c < length a) ->
    reach_closed k cols yidx = true ->
    fold_left (rowB_step O false k Dinv) (rev yidx) (cols, a, marks, dk)
    = (cols', yv', marks', dk') ->
    rowB_spec O k Dinv cols a marks dk yidx cols' yv' marks' dk'.

(** ** Stage 3: A = (I+L) D (I+L)' on the upper triangle, entrywise.
    Hypotheses: no regularisation, numeric mode, commutative ring with reciprocals of
    non-zero elements, A upper triangular without duplicate rows in a column, the run
    succeeds, and the reach test held in every row. *)
Definition stmt_factor_correct_partial : Prop :=
  forall (T : Type) (O : Ops T) n Ap Ai Ax et P st,
    RingLaws O ->
    (forall a, eqb O a (zero O) = false -> mul O a (div O (one O) a) = one O) ->
    fp_logical P = false -> fp_reg_enable P = false ->
    triu_nodup n Ap Ai ->
    factor_inner O n Ap Ai Ax et P = Ok st ->
    reach_closed_all O n Ap Ai Ax et P = true ->
    forall i j, i <= j -> j < n ->
      isum O (seq 0 (S i))
           (fun c => mul O (mul O (Ment O (fs_cols st) i c) (nth c (fs_D st) (zero O)))
                           (Ment O (fs_cols st) j c))
      = Aent O Ap Ai Ax i j.
