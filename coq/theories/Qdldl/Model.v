(** Executable model of clarabel::qdldl (src/qdldl/qdldl.rs), written once over [Ops T].

    Conventions.
    - Vectors are lists, indices [nat]; a read out of range yields a default (the Rust code
      would panic); the theorems carry the well-formedness hypotheses that exclude it.
    - Every Rust loop is a [fold_left] over the same index sequence; the two [while] loops
      ([_etree], the elimination-reach walk of [_factor_inner]) run on explicit fuel and
      return [Err OutOfFuel] when it is exhausted.
    - [etree] holds [option nat]; [None] is QDLDL_UNKNOWN (usize::MAX).
    - The flat storage of L ([Lp],[Li],[Lx], with the running write positions
      [next_colspace]) is modelled column-wise inside [factor_inner]: column [c] is the list
      of (row, value) pairs written so far, in write order, so "the slice Lp[c]..next_colspace[c]"
      is "the current column".  [flatten_cols] lays the columns out in the [Lnz]-sized slots
      and returns [Err LayoutOverflow] if a column received more entries than its slot (the
      Rust code would then overwrite its neighbour).  The scratch arrays [y_idx] and
      [elim_buffer] are local lists.  D[k] is accumulated in a local and written once per row
      (nobody reads D during a row).
    - [Dsigns] are [Z] (Rust [i8]).
    No proofs in this file. *)
From Coq Require Import List Arith ZArith Lia Bool.
Import ListNotations.
Require Import Clarabel.Base.Ops.

Inductive qerr : Set :=
  | IncompatibleDimension | EmptyColumn | NotUpperTriangular | ZeroPivot | InvalidPermutation
  | OutOfFuel | Panicked | LayoutOverflow.
Inductive res (X : Type) : Type := Ok (x : X) | Err (e : qerr).
Arguments Ok {X}. Arguments Err {X}.
Definition bind {X Y} (r : res X) (f : X -> res Y) : res Y :=
  match r with Ok x => f x | Err e => Err e end.
Notation "'do' x <- r ; k" := (bind r (fun x => k)) (at level 200, x pattern, r at level 100, k at level 200).

(** fold with early exit on error *)
Definition foldM {S X} (f : S -> X -> res S) (l : list X) (s : res S) : res S :=
  fold_left (fun acc x => bind acc (fun s => f s x)) l s.

Fixpoint upd {X} (l : list X) (i : nat) (v : X) : list X :=
  match l, i with
  | [], _ => []
  | _ :: r, 0 => v :: r
  | x :: r, S i' => x :: upd r i' v
  end.

Fixpoint cumsum_from (acc : nat) (l : list nat) : list nat :=
  match l with
  | [] => []
  | x :: r => (acc + x) :: cumsum_from (acc + x) r
  end.
(** [0, l0, l0+l1, ...] : length |l|+1 *)
Definition cumsum0 (l : list nat) : list nat := 0 :: cumsum_from 0 l.

(** indices Ap[j] .. Ap[j+1]-1 *)
Definition col_range (cp : list nat) (j : nat) : list nat :=
  seq (nth j cp 0) (nth (S j) cp 0 - nth j cp 0).

(** ** permutations (qdldl.rs: _invperm, permute, ipermute) *)

(** the code before the fix (finding F1): [b[j] == 0] doubles as "unset" *)
Fixpoint invperm_old_go (n i : nat) (p : list nat) (b : list nat) : res (list nat) :=
  match p with
  | [] => Ok b
  | j :: p' => if (j <? n) && (nth j b 0 =? 0) then invperm_old_go n (S i) p' (upd b j i)
               else Err InvalidPermutation
  end.
Definition invperm_old (p : list nat) : res (list nat) :=
  invperm_old_go (length p) 0 p (repeat 0 (length p)).

(** the repaired code: visited entries are tracked explicitly *)
Fixpoint invperm_go (n i : nat) (p : list nat) (b : list nat) (seen : list bool) : res (list nat) :=
  match p with
  | [] => Ok b
  | j :: p' => if (j <? n) && negb (nth j seen false)
               then invperm_go n (S i) p' (upd b j i) (upd seen j true)
               else Err InvalidPermutation
  end.
Definition invperm (p : list nat) : res (list nat) :=
  invperm_go (length p) 0 p (repeat 0 (length p)) (repeat false (length p)).

(** x[i] = b[p[i]] for the common prefix of p and x *)
Fixpoint permute {X} (d : X) (x b : list X) (p : list nat) : list X :=
  match p, x with
  | pi :: p', _ :: x' => nth pi b d :: permute d x' b p'
  | _, _ => x
  end.
(** x[p[i]] = b[i] for the common prefix of p and b *)
Definition ipermute {X} (x b : list X) (p : list nat) : list X :=
  fold_left (fun x pb => upd x (fst pb) (snd pb)) (combine p b) x.

Section QdldlModel.
Context {T : Type} (O : Ops T).

Record spm : Type := mkSpm
  { sm : nat; sn : nat; colptr : list nat; rowval : list nat; nzval : list T }.

(** ** check_structure *)
Definition is_triu (A : spm) : bool :=
  forallb (fun col => forallb (fun idx => negb (col <? nth idx (rowval A) 0)) (col_range (colptr A) col))
          (seq 0 (sn A)).
Fixpoint windows_lt (l : list nat) : bool :=
  match l with
  | a :: ((b :: _) as r) => (a <? b) && windows_lt r
  | _ => true
  end.
Definition check_structure (A : spm) : res unit :=
  if negb (sm A =? sn A) then Err IncompatibleDimension
  else if negb (is_triu A) then Err NotUpperTriangular
  else if negb (windows_lt (colptr A)) then Err EmptyColumn
  else Ok tt.

(** ** permute_symmetric / _permute_symmetric_inner *)

(** the (index, column) pairs visited by both passes, in visiting order:
    for colA in 0..n, for idx in Ac[colA]..Ac[colA+1], if Ar[idx] <= colA *)
Definition triu_tasks (A : spm) : list (nat * nat) :=
  flat_map (fun colA =>
              map (fun idx => (idx, colA))
                  (filter (fun idx => nth idx (rowval A) 0 <=? colA) (col_range (colptr A) colA)))
           (seq 0 (sm A)).
Definition task_col (A : spm) (iperm : list nat) (t : nat * nat) : nat :=
  Nat.max (nth (nth (fst t) (rowval A) 0) iperm 0) (nth (snd t) iperm 0).
Definition task_row (A : spm) (iperm : list nat) (t : nat * nat) : nat :=
  Nat.min (nth (snd t) iperm 0) (nth (nth (fst t) (rowval A) 0) iperm 0).

Definition count_entries (A : spm) (iperm : list nat) : list nat :=
  fold_left (fun cnt t => let c := task_col A iperm t in upd cnt c (S (nth c cnt 0)))
            (triu_tasks A) (repeat 0 (sm A)).

Record pstate : Type := mkPS
  { ps_Pr : list nat; ps_Pv : list T; ps_map : list nat; ps_starts : list nat }.
Definition place_step (A : spm) (iperm : list nat) (s : pstate) (t : nat * nat) : pstate :=
  let c := task_col A iperm t in
  let pos := nth c (ps_starts s) 0 in
  mkPS (upd (ps_Pr s) pos (task_row A iperm t))
       (upd (ps_Pv s) pos (nth (fst t) (nzval A) (zero O)))
       (upd (ps_map s) (fst t) pos)
       (upd (ps_starts s) c (S pos)).

Definition permute_symmetric (A : spm) (iperm : list nat) : spm * list nat :=
  let n := sn A in
  let nnz := length (nzval A) in
  let cnt := count_entries A iperm in
  let Pc := cumsum0 cnt in   (* square A: |cnt| = n, so Pc has n+1 entries and Pc[n] = #tasks *)
  let s0 := mkPS (repeat 0 nnz) (repeat (zero O) nnz) (repeat 0 nnz) (firstn (sm A) Pc) in
  let s := fold_left (place_step A iperm) (triu_tasks A) s0 in
  (mkSpm n n Pc (ps_Pr s) (ps_Pv s), ps_map s).

(** ** _etree *)
Definition estate : Type := (list nat * list nat * list (option nat))%type. (* work, Lnz, etree *)
Fixpoint etree_walk (fuel j i : nat) (st : estate) : res estate :=
  match fuel with
  | 0 => Err OutOfFuel
  | S f =>
      let '(work, lnz, et) := st in
      if nth i work 0 =? j then Ok st
      else
        let et' := match nth i et None with None => upd et i (Some j) | Some _ => et end in
        let lnz' := upd lnz i (S (nth i lnz 0)) in
        let work' := upd work i j in
        match nth i et' None with
        | Some i' => etree_walk f j i' (work', lnz', et')
        | None => Err Panicked   (* i out of range: the Rust code panics *)
        end
  end.
Definition etree_col (n : nat) (Ap Ai : list nat) (st : estate) (j : nat) : res estate :=
  let '(work, lnz, et) := st in
  foldM (fun st idx => etree_walk (S n) j (nth idx Ai 0) st)
        (col_range Ap j) (Ok (upd work j j, lnz, et)).
(** returns (Lnz, etree) *)
Definition etree (n : nat) (Ap Ai : list nat) : res (list nat * list (option nat)) :=
  do st <- foldM (etree_col n Ap Ai) (seq 0 n) (Ok (repeat 0 n, repeat 0 n, repeat None n));
  let '(_, lnz, et) := st in Ok (lnz, et).

(** ** _factor_inner *)
Record fstate : Type := mkFS
  { fs_cols : list (list (nat * T));   (* columns of L written so far *)
    fs_D : list T; fs_Dinv : list T;
    fs_marks : list bool;              (* y_markers *)
    fs_yvals : list T;                 (* y_vals *)
    fs_pos : nat;                      (* positiveValuesInD *)
    fs_reg : nat }.                    (* regularize_count *)

Record fparams : Type := mkFP
  { fp_logical : bool; fp_Dsigns : list Z; fp_reg_enable : bool; fp_eps : T; fp_delta : T }.

(** dynamic regularisation of one pivot: (new value, was it perturbed) *)
Definition regularise (P : fparams) (k : nat) (d : T) : T * bool :=
  if fp_reg_enable P then
    let s := ofZ O (nth k (fp_Dsigns P) 1%Z) in
    if ltb O (mul O d s) (fp_eps P) then (mul O (fp_delta P) s, true) else (d, false)
  else (d, false).

(** regularise, zero test, inertia count, reciprocal — the tail of every row *)
Definition pivot_finish (P : fparams) (k : nat) (d : T) (st : fstate) : res fstate :=
  let '(d', r) := regularise P k d in
  if eqb O d' (zero O) then Err ZeroPivot
  else Ok (mkFS (fs_cols st) (upd (fs_D st) k d') (upd (fs_Dinv st) k (div O (one O) d'))
                (fs_marks st) (fs_yvals st)
                (if ltb O (zero O) d' then S (fs_pos st) else fs_pos st)
                (if r then S (fs_reg st) else fs_reg st)).

(** walk up the elimination tree from [next] while below k and unmarked; [elim] is the
    elimination buffer in reverse order (the Rust code copies it to y_idx back to front) *)
Fixpoint reach_walk (fuel k : nat) (et : list (option nat)) (next : option nat)
         (marks : list bool) (elim : list nat) : res (list bool * list nat) :=
  match fuel with
  | 0 => Err OutOfFuel
  | S f =>
      match next with
      | None => Ok (marks, elim)
      | Some nx =>
          if nx <? k then
            if nth nx marks false then Ok (marks, elim)
            else reach_walk f k et (nth nx et None) (upd marks nx true) (nx :: elim)
          else Ok (marks, elim)
      end
  end.

(** first loop of row k: (dk, y_vals, y_markers, y_idx) *)
Definition rowA_state : Type := (T * list T * list bool * list nat)%type.
Definition rowA_step (n k : nat) (Ai : list nat) (Ax : list T) (et : list (option nat))
           (st : rowA_state) (i : nat) : res rowA_state :=
  let '(dk, yv, marks, yidx) := st in
  let bidx := nth i Ai 0 in
  if bidx =? k then Ok (nth i Ax (zero O), yv, marks, yidx)
  else
    let yv' := upd yv bidx (nth i Ax (zero O)) in
    if nth bidx marks false then Ok (dk, yv', marks, yidx)
    else
      do me <- reach_walk (S n) k et (nth bidx et None) (upd marks bidx true) [bidx];
      Ok (dk, yv', fst me, yidx ++ snd me).

(** second loop of row k, one column cidx: (columns, y_vals, y_markers, dk) *)
Definition rowB_state : Type := (list (list (nat * T)) * list T * list bool * T)%type.
Definition rowB_step (logical : bool) (k : nat) (Dinv : list T) (st : rowB_state) (cidx : nat)
  : rowB_state :=
  let '(cols, yv, marks, dk) := st in
  let col := nth cidx cols [] in
  if logical then
    (upd cols cidx (col ++ [(k, one O)]), upd yv cidx (zero O), upd marks cidx false, dk)
  else
    let yc := nth cidx yv (zero O) in
    let yv1 := fold_left (fun y e => upd y (fst e) (sub O (nth (fst e) y (zero O)) (mul O (snd e) yc)))
                         col yv in
    let lx := mul O yc (nth cidx Dinv (zero O)) in
    (upd cols cidx (col ++ [(k, lx)]), upd yv1 cidx (zero O), upd marks cidx false,
     sub O dk (mul O yc lx)).

Definition row_step (n : nat) (Ap Ai : list nat) (Ax : list T) (et : list (option nat))
           (P : fparams) (st : fstate) (k : nat) : res fstate :=
  do a <- foldM (rowA_step n k Ai Ax et) (col_range Ap k)
                (Ok (zero O, fs_yvals st, fs_marks st, []));
  let '(dk, yv, marks, yidx) := a in
  let '(cols, yv', marks', dk') :=
    fold_left (rowB_step (fp_logical P) k (fs_Dinv st)) (rev yidx) (fs_cols st, yv, marks, dk) in
  let st' := mkFS cols (fs_D st) (fs_Dinv st) marks' yv' (fs_pos st) (fs_reg st) in
  if fp_logical P then
    Ok (mkFS cols (upd (fs_D st) k dk') (fs_Dinv st) marks' yv' (fs_pos st) (fs_reg st))
  else pivot_finish P k dk' st'.

Definition factor_inner (n : nat) (Ap Ai : list nat) (Ax : list T) (et : list (option nat))
           (P : fparams) : res fstate :=
  let st0 := mkFS (repeat [] n) (repeat (zero O) n)
                  (repeat (if fp_logical P then one O else zero O) n)
                  (repeat false n) (repeat (zero O) n) 0 0 in
  do st1 <- (if fp_logical P then Ok st0
             else if n =? 0 then Err Panicked   (* Ap[1] on an empty matrix *)
             else pivot_finish P 0 (if nth 0 Ap 0 <? nth 1 Ap 0 then nth (nth 0 Ap 0) Ax (zero O)
                                    else zero O) st0);
  foldM (row_step n Ap Ai Ax et P) (seq 1 (n - 1)) (Ok st1).

(** columns -> flat (Li, Lx) in Lnz-sized slots *)
Definition flatten_cols (lnz : list nat) (cols : list (list (nat * T))) (pad : T)
  : res (list nat * list T) :=
  foldM (fun acc lc =>
           let '(li, lx) := acc in
           let '(l, c) := lc in
           if length c <=? l
           then Ok (li ++ map fst c ++ repeat 0 (l - length c),
                    lx ++ map snd c ++ repeat pad (l - length c))
           else Err LayoutOverflow)
        (combine lnz cols) (Ok ([], [])).

(** ** the factorisation object *)
Record wsp : Type := mkW
  { w_etree : list (option nat); w_Lnz : list nat; w_triuA : spm; w_AtoPAPt : list nat;
    w_Dsigns : list Z; w_reg_enable : bool; w_eps : T; w_delta : T;
    w_pos : nat; w_reg : nat }.
Record fact : Type := mkF
  { f_perm : list nat; f_iperm : list nat;
    f_Lp : list nat; f_Li : list nat; f_Lx : list T; f_D : list T; f_Dinv : list T;
    f_ws : wsp; f_symbolic : bool }.

(** _factor: (re)computes L, D, Dinv and the two counters from the workspace *)
Definition factor_ws (perm iperm : list nat) (w : wsp) (logical : bool) : res fact :=
  let A := w_triuA w in
  let P := mkFP logical (w_Dsigns w) (w_reg_enable w) (w_eps w) (w_delta w) in
  do st <- factor_inner (sn A) (colptr A) (rowval A) (nzval A) (w_etree w) P;
  do l <- flatten_cols (w_Lnz w) (fs_cols st) (if logical then one O else zero O);
  Ok (mkF perm iperm (cumsum0 (w_Lnz w)) (fst l) (snd l) (fs_D st) (fs_Dinv st)
          (mkW (w_etree w) (w_Lnz w) A (w_AtoPAPt w) (w_Dsigns w) (w_reg_enable w) (w_eps w)
               (w_delta w) (fs_pos st) (fs_reg st))
          logical).

Record settings : Type := mkSet
  { s_perm : list nat;              (* user ordering, or the ordering AMD returned *)
    s_logical : bool; s_Dsigns : option (list Z);
    s_reg_enable : bool; s_eps : T; s_delta : T }.

(** QDLDLFactorisation::new *)
Definition qnew (A : spm) (S : settings) : res fact :=
  do _ <- check_structure A;
  let n := sm A in
  do _ <- (if length (s_perm S) =? n then Ok tt else Err InvalidPermutation);
  do iperm <- invperm (s_perm S);
  let '(PA, amap) := permute_symmetric A iperm in
  let dsigns := match s_Dsigns S with
                | None => repeat 1%Z n
                | Some ds => permute 1%Z (repeat 1%Z n) ds (s_perm S)
                end in
  do le <- etree (sm PA) (colptr PA) (rowval PA);
  let w := mkW (snd le) (fst le) PA amap dsigns (s_reg_enable S) (s_eps S) (s_delta S) 0 0 in
  factor_ws (s_perm S) iperm w (s_logical S).

Definition positive_inertia (F : fact) : nat := w_pos (f_ws F).
Definition regularize_count (F : fact) : nat := w_reg (f_ws F).

(** ** solves *)
Definition lcol (Lp Li : list nat) (Lx : list T) (i : nat) : list (nat * T) :=
  map (fun idx => (nth idx Li 0, nth idx Lx (zero O))) (col_range Lp i).

Definition lsolve (Lp Li : list nat) (Lx x : list T) : list T :=
  fold_left (fun x i =>
               let xi := nth i x (zero O) in
               fold_left (fun x e => upd x (fst e) (sub O (nth (fst e) x (zero O)) (mul O (snd e) xi)))
                         (lcol Lp Li Lx i) x)
            (seq 0 (length x)) x.
Definition ltsolve (Lp Li : list nat) (Lx x : list T) : list T :=
  fold_left (fun x i =>
               let s := fold_left (fun s e => add O s (mul O (snd e) (nth (fst e) x (zero O))))
                                  (lcol Lp Li Lx i) (zero O) in
               upd x i (sub O (nth i x (zero O)) s))
            (rev (seq 0 (length x))) x.
Definition dltsolve (Lp Li : list nat) (Lx Dinv x : list T) : list T :=
  fold_left (fun x i =>
               let s := fold_left (fun s e => add O s (mul O (snd e) (nth (fst e) x (zero O))))
                                  (lcol Lp Li Lx i) (zero O) in
               upd x i (sub O (mul O (nth i x (zero O)) (nth i Dinv (zero O))) s))
            (rev (seq 0 (length x))) x.
Definition solve_factors (Lp Li : list nat) (Lx Dinv b : list T) : list T :=
  dltsolve Lp Li Lx Dinv (lsolve Lp Li Lx b).

(** QDLDLFactorisation::solve (the two asserts are [Err Panicked]) *)
Definition solve (F : fact) (b : list T) : res (list T) :=
  if f_symbolic F then Err Panicked
  else if negb (length b =? length (f_D F)) then Err Panicked
  else
    let tmp := permute (zero O) (repeat (zero O) (length (f_D F))) b (f_perm F) in
    let tmp := solve_factors (f_Lp F) (f_Li F) (f_Lx F) (f_Dinv F) tmp in
    Ok (ipermute b tmp (f_perm F)).

(** ** value updates and refactor *)
Definition set_triu_vals (F : fact) (v : list T) : fact :=
  let w := f_ws F in
  let A := w_triuA w in
  mkF (f_perm F) (f_iperm F) (f_Lp F) (f_Li F) (f_Lx F) (f_D F) (f_Dinv F)
      (mkW (w_etree w) (w_Lnz w) (mkSpm (sm A) (sn A) (colptr A) (rowval A) v) (w_AtoPAPt w)
           (w_Dsigns w) (w_reg_enable w) (w_eps w) (w_delta w) (w_pos w) (w_reg w))
      (f_symbolic F).
Definition triu_vals (F : fact) : list T := nzval (w_triuA (f_ws F)).
Definition amap (F : fact) (idx : nat) : nat := nth idx (w_AtoPAPt (f_ws F)) 0.

Definition update_values (F : fact) (indices : list nat) (values : list T) : fact :=
  set_triu_vals F
    (fold_left (fun nz iv => upd nz (amap F (fst iv)) (snd iv)) (combine indices values) (triu_vals F)).
Definition scale_values (F : fact) (indices : list nat) (scale : T) : fact :=
  set_triu_vals F
    (fold_left (fun nz idx => let p := amap F idx in upd nz p (mul O (nth p nz (zero O)) scale))
               indices (triu_vals F)).
Definition offset_values (F : fact) (indices : list nat) (offset : T) (signs : list Z) : res fact :=
  if negb (length indices =? length signs) then Err Panicked
  else Ok (set_triu_vals F
    (fold_left (fun nz is_ =>
                  let p := amap F (fst is_) in
                  match Z.sgn (snd is_) with
                  | 1%Z => upd nz p (add O (nth p nz (zero O)) offset)
                  | (-1)%Z => upd nz p (sub O (nth p nz (zero O)) offset)
                  | _ => nz
                  end)
               (combine indices signs) (triu_vals F))).
Definition refactor (F : fact) : res fact :=
  factor_ws (f_perm F) (f_iperm F) (f_ws F) false.

End QdldlModel.

Arguments mkSpm {T}. Arguments sm {T}. Arguments sn {T}. Arguments colptr {T}.
Arguments rowval {T}. Arguments nzval {T}.
