(** C19 proofs, part 4: binary64 satisfies the unit laws ([x * 1 = x], [1 / 1 = 1]), from the
    specification of the primitive floats (FloatAxioms) through Flocq's [Bmult_correct].
    Coq's primitive floats have a single NaN, so the equalities are Leibniz equalities of
    values, NaN included. *)
From Coq Require Import ZArith Reals Floats SpecFloat Lia List.
From Flocq Require Import Core.Core IEEE754.BinarySingleNaN IEEE754.PrimFloat.
Require Import Clarabel.Base.Ops Clarabel.Json.Model Clarabel.Json.Spec Clarabel.Json.LemmasSave.

Local Instance Hprec : FLX.Prec_gt_0 prec := eq_refl _.
Local Instance Hmax : Prec_lt_emax prec emax := eq_refl _.

Lemma Prim2B_one : Prim2B 1%float = Bone.
Proof. change (Prim2B PrimFloat.one = Bone). rewrite one_equiv. apply Prim2B_B2Prim. Qed.

Lemma Bmult_one_r (x : binary_float prec emax) : Bmult mode_NE x Bone = x.
Proof.
  destruct x as [s|s| |s m e Hb] eqn:Ex.
  - destruct s; reflexivity.
  - destruct s; reflexivity.
  - reflexivity.
  - rewrite <- Ex.
    pose proof (Bmult_correct prec emax _ _ mode_NE x Bone) as H.
    rewrite Bone_correct, Rmult_1_r in H.
    rewrite round_generic in H; [| apply valid_rnd_round_mode | apply generic_format_B2R].
    rewrite Rlt_bool_true in H by apply abs_B2R_lt_emax.
    destruct H as (H1 & H2 & H3).
    assert (Hf : BinarySingleNaN.is_finite x = true) by (rewrite Ex; reflexivity).
    assert (Hf1 : BinarySingleNaN.is_finite (@Bone prec emax _ _) = true) by reflexivity.
    rewrite Hf, Hf1 in H2. cbn [andb] in H2.
    apply B2R_Bsign_inj; [exact H2 | exact Hf | exact H1 |].
    rewrite H3.
    + assert (Hs : Bsign (@Bone prec emax _ _) = false) by reflexivity. rewrite Hs.
      destruct (Bsign x); reflexivity.
    + destruct (Bmult mode_NE x Bone); try reflexivity. discriminate H2.
Qed.

Theorem mul_one_r_binary64 (x : PrimFloat.float) : (x * 1)%float = x.
Proof. apply Prim2B_inj. rewrite mul_equiv, Prim2B_one. apply Bmult_one_r. Qed.
Theorem div_one_one_binary64 : (1 / 1)%float = 1%float.
Proof. reflexivity. Qed.
Theorem mul_recip_one_binary64 (x : PrimFloat.float) : (x * (1 / 1))%float = x.
Proof. rewrite div_one_one_binary64. apply mul_one_r_binary64. Qed.

Lemma unit_laws_binary64 : UnitLaws OpsF.
Proof. split; [exact mul_one_r_binary64 | exact div_one_one_binary64]. Qed.

(** [save_exact_when_disabled] at binary64, no arithmetic hypothesis left *)
Definition stmt_save_exact_binary64 : Prop :=
  forall (finf fmax : PrimFloat.float) (I : internal (T:=PrimFloat.float)) (s : settings),
    shape_ok (iP I) -> shape_ok (iA I) ->
    all_one OpsF (idinv I) -> all_one OpsF (ieinv I) -> ic I = 1%float ->
    save_data OpsF finf fmax I s
    = mkProblem (iP I) (iq I) (iA I) (ib I) (icones I) (sanitize OpsF finf fmax s).
Lemma save_exact_binary64_ok : stmt_save_exact_binary64.
Proof.
  intros finf fmax I s HP HA Hd He Hc.
  exact (save_exact_when_disabled_ok OpsF finf fmax I s unit_laws_binary64 HP HA Hd He Hc).
Qed.
