(** Executable correspondence checkers for C19 (T = binary64 primitive floats).
    Every checker returns an [N]: 0 = agree, 1 = violation candidate, 2 = the property's
    observable agrees but a representation detail / the bit-level model of the arithmetic
    differs (information only). *)
From Coq Require Import List ZArith NArith String Bool Floats.
Import ListNotations.
Require Import Clarabel.Base.Ops Clarabel.Json.Model.
Open Scope string_scope.

Definition FMAX : float := 0x1.fffffffffffffp+1023%float.
Definition FINF : float := infinity.

(** bitwise equality of floats that are not NaN payload-sensitive: distinguishes +0 / -0 *)
Definition feqb (x y : float) : bool :=
  match PrimFloat.classify x, PrimFloat.classify y with
  | NaN, NaN => true
  | PZero, PZero => true
  | NZero, NZero => true
  | PZero, _ | _, PZero | NZero, _ | _, NZero => false
  | _, _ => PrimFloat.eqb x y
  end.

(** |x - y| <= tol * |y|  (exact when x = y, including zeros of either sign) *)
Definition fclose (tol x y : float) : bool :=
  feqb x y || PrimFloat.eqb x y
  || PrimFloat.leb (PrimFloat.abs (PrimFloat.sub x y)) (PrimFloat.mul tol (PrimFloat.abs y)).

Notation jsonF := (json (T:=float)).

Fixpoint list_eqb {A} (f : A -> A -> bool) (l m : list A) : bool :=
  match l, m with
  | [], [] => true
  | x :: l', y :: m' => f x y && list_eqb f l' m'
  | _, _ => false
  end.

(** structural equality of documents; objects are compared as maps (key order is not an
    observable of a JSON document), duplicate keys never compare equal *)
Fixpoint json_eqb (a b : jsonF) {struct a} : bool :=
  match a, b with
  | JNull, JNull => true
  | JBool x, JBool y => Bool.eqb x y
  | JInt x, JInt y => Z.eqb x y
  | JFlt x, JFlt y => feqb x y
  | JStr x, JStr y => String.eqb x y
  | JArr l, JArr m =>
      (fix go (l m : list jsonF) : bool :=
         match l, m with
         | [], [] => true
         | x :: l', y :: m' => json_eqb x y && go l' m'
         | _, _ => false
         end) l m
  | JObj l, JObj m =>
      Nat.eqb (List.length l) (List.length m) &&
      (fix go (l : list (string * jsonF)) : bool :=
         match l with
         | [] => true
         | (k, x) :: l' =>
             match field k m with
             | One y => json_eqb x y
             | _ => false
             end && go l'
         end) l
  | _, _ => false
  end.

(** ** the model instantiated at binary64 *)
Definition encodeF := encode OpsF FINF.
Definition decodeF := decode OpsF FINF.
Definition loadF := load OpsF FINF FMAX.
Definition sanitizeF := sanitize OpsF FINF FMAX.
Definition save_dataF := save_data OpsF FINF FMAX.
Definition defaultsF := default_settings OpsF FINF.
Definition schema_namesF := schema_names OpsF FINF.

Definition csc_eqb (f : float -> float -> bool) (a b : csc (T:=float)) : bool :=
  N.eqb (cm a) (cm b) && N.eqb (cn a) (cn b) && list_eqb N.eqb (colptr a) (colptr b)
  && list_eqb N.eqb (rowval a) (rowval b) && list_eqb f (nzval a) (nzval b).
Definition cone_eqb (a b : cone (T:=float)) : bool :=
  match a, b with
  | ZeroC x, ZeroC y | NonnegC x, NonnegC y | SocC x, SocC y | PsdC x, PsdC y => N.eqb x y
  | ExpC, ExpC => true
  | PowC x, PowC y => feqb x y
  | GenPowC x d, GenPowC y e => list_eqb feqb x y && N.eqb d e
  | _, _ => false
  end.
Definition sval_eqb (a b : sval (T:=float)) : bool :=
  match a, b with
  | VU x, VU y => N.eqb x y
  | VF x, VF y => feqb x y
  | VB x, VB y => Bool.eqb x y
  | VS x, VS y => String.eqb x y
  | _, _ => false
  end.
Definition settings_eqb := list_eqb sval_eqb.
(** data of two problems equal, numbers compared by [f] *)
Definition data_eqb (f : float -> float -> bool) (p r : problem (T:=float)) : bool :=
  csc_eqb f (pP p) (pP r) && list_eqb f (pq p) (pq r) && csc_eqb f (pA p) (pA r)
  && list_eqb f (pb p) (pb r) && list_eqb cone_eqb (pcones p) (pcones r).

Definition b2n (ok : bool) : N := if ok then 0%N else 1%N.
Definition maxl (l : list N) : N := fold_left N.max l 0%N.
Fixpoint fails_from (k : N) (l : list N) : list (N * N) :=
  match l with
  | [] => []
  | c :: r => if (c =? 0)%N then fails_from (N.succ k) r else (k, c) :: fails_from (N.succ k) r
  end.
Definition fails (k : N) (l : list N) : list (N * N) := fails_from k l.

(** relative tolerance of one scale / unscale round trip with [k] Ruiz iterations:
    at most 6k+8 roundings touch a stored number (3 per iteration on the data, 2 on d (both
    sides), 1 on c, then dinv/einv, the two products and 1/c of the un-scaling), each of
    relative size u = 2^-53; we allow (6k+8) * 2^-52 (twice the first-order bound). *)
Definition rt_tol (k : N) : float :=
  PrimFloat.mul (PrimFloat.of_uint63 (Uint63.of_Z (Z.of_N (6 * k + 8)))) 0x1p-52%float.

(** ** save: the file against (a) the bit-level model of save_to_file applied to the
    solver's internal state and (b) the property: the file holds the user's problem.
    [reduced]: a presolve reduction or chordal decomposition is active (no data claim). *)
Definition chk_save (user : problem) (I : internal) (ast : jsonF)
           (reduced eq_on : bool) (k : N) (infbound : float) : N :=
  let model_bits := json_eqb (encodeF (save_dataF I (pset user))) ast in
  match decodeF ast with
  | Err => 1%N
  | Ok pf =>
      (* settings: identical up to the sanitisation of an infinite time_limit, always *)
      if negb (settings_eqb (pset pf) (sanitizeF (pset user))) then 1%N
      else if reduced then (if model_bits then 0%N else 2%N)
      else
        let expect := solver_view OpsF infbound user in
        let ok := if eq_on then data_eqb (fclose (rt_tol k)) pf expect
                  else json_eqb (encodeF (with_settings expect (sanitizeF (pset user)))) ast in
        if negb ok then 1%N else if model_bits then 0%N else 2%N
  end.

(** the literal reading "cones / b equal the user's originals": 0 = literally equal,
    3 = equal only up to the collapsed normal form of the cones, 4 = b was capped *)
Definition chk_literal (user : problem) (ast : jsonF) (infbound : float) : N :=
  match decodeF ast with
  | Err => 1%N
  | Ok pf =>
      if negb (list_eqb cone_eqb (pcones pf) (pcones user)) then 3%N
      else if negb (Nat.eqb (List.length (pb pf)) (List.length (pb user))) then 0%N
      else if negb (list_eqb feqb (cap_b OpsF infbound (pb user)) (pb user)) then 4%N
      else 0%N
  end.

(** ** load with the stored settings: the model accepts the file and the loaded solver
    has exactly the model's settings, which are the user's ([f8]: the user had
    time_limit = f64::MAX, which comes back as infinity -- known, inert) *)
Definition chk_load1 (user : problem) (ast : jsonF) (loaded : settings) : N :=
  match loadF None ast with
  | LoadOk p =>
      if negb (settings_eqb (pset p) loaded) then 1%N
      else if settings_eqb loaded (pset user) then 0%N
      else if settings_eqb loaded (desanitize OpsF FINF FMAX (pset user)) then 5%N
      else 1%N
  | _ => 1%N
  end.

(** ** load with an override (no scaling / reductions): settings are the override's and the
    loaded solver's data are the file's contents (upper triangle of P, collapsed cones) *)
Definition chk_load2 (ast : jsonF) (over : settings) (view : problem) (infbound : float) : N :=
  match loadF (Some over) ast with
  | LoadOk p =>
      if negb (settings_eqb (pset p) over && settings_eqb (pset view) over) then 1%N
      else b2n (data_eqb feqb (solver_view OpsF infbound p) view)
  | _ => 1%N
  end.

(** ** verdicts of the two solves: same status; objective bit-identical when the data are
    ([exact]), else (data differ by the round-trip rounding) within the accuracy the status
    promises: 2^-20 (1+|obj|) for Solved (gap tolerances are <= 3e-8 in the generated settings),
    2^-10 (1+|obj|) for AlmostSolved (reduced tolerances <= 1.5e-4); no objective claim otherwise *)
Definition verdict_kind (st : N) : N :=
  match st with
  | 1 | 4 => 1 (* solved *) | 2 | 5 => 2 (* primal infeasible *) | 3 | 6 => 3 (* dual infeasible *)
  | _ => 0 (* inconclusive: MaxIterations, MaxTime, NumericalError, InsufficientProgress *)
  end%N.
(** when the data are not bit-identical (they differ by the round-trip rounding) a solve that
    ends inconclusively, or on the Almost/non-Almost border, may end differently: that is
    reported as information (2), not as a violation; two different conclusive kinds are a
    violation *)
Definition chk_verdict (st0 st1 : N) (obj0 obj1 : float) (exact : bool) : N :=
  if exact then b2n ((st0 =? st1)%N && feqb obj0 obj1)
  else if (st0 =? st1)%N then
    b2n (feqb obj0 obj1
         || PrimFloat.leb (PrimFloat.abs (PrimFloat.sub obj0 obj1))
              (PrimFloat.mul (if (st0 =? 1)%N then 0x1p-20%float else 0x1p-10%float)
                             (PrimFloat.add 1%float (PrimFloat.abs obj0)))
         || negb (orb (st0 =? 1)%N (st0 =? 4)%N))
  else if (verdict_kind st0 =? 0)%N || (verdict_kind st1 =? 0)%N then 2%N
  else if (verdict_kind st0 =? verdict_kind st1)%N then 2%N
  else 1%N.

(** ** fault stream: the model's prediction for a syntactically valid file
    (observed: 0 = Ok, 1 = Err) *)
Definition chk_fault (ast : jsonF) (observed : N) : N :=
  match loadF None ast with
  | LoadOk _ => b2n (observed =? 0)%N
  | LoadErr => b2n (observed =? 1)%N
  | LoadPanic => 1%N
  end.

(** the implementation's defaults / field names against the model's schema *)
Definition chk_defaults (impl : settings) (names : list string) : N :=
  b2n (settings_eqb impl defaultsF && list_eqb String.eqb names schema_namesF).

(** the two sites of an enum-like string setting, observed directly on the implementation:
    [which] 0 = direct_solve_method, 1 = chordal_decomposition_merge_method;
    [validator] = DefaultSettings::validate() accepts the name, [builder] = the builder does,
    [consumer] = DefaultSolver::new on a problem that reaches the consumer does not panic *)
Definition chk_sites (which : N) (s : string) (validator builder consumer : bool) : N :=
  let vm := if (which =? 0)%N then validator_solve_method_ok s else validator_merge_method_ok s in
  let cm := if (which =? 0)%N then consumer_solve_method_ok s else consumer_merge_method_ok s in
  b2n (Bool.eqb vm validator && Bool.eqb vm builder && Bool.eqb cm consumer).

(** a file loaded with a settings argument: the model predicts Ok/Err from the EFFECTIVE
    settings (observed: 0 = Ok, 1 = Err), and an accepted load runs with exactly the override *)
Definition chk_fault_over (ast : jsonF) (over : settings) (observed : N) (loaded : settings) : N :=
  match loadF (Some over) ast with
  | LoadOk p => b2n ((observed =? 0)%N && settings_eqb (pset p) over && settings_eqb loaded over)
  | LoadErr => b2n (observed =? 1)%N
  | LoadPanic => 1%N
  end.
