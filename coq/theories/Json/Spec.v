(** C19 statements (nothing but statements and spec predicates). *)
From Coq Require Import List ZArith NArith String Bool Floats.
Import ListNotations.
Require Import Clarabel.Base.Ops Clarabel.Json.Model.
Open Scope string_scope.

(** ** what is assumed about the scalar type *)

(** the two constants of the settings sanitiser behave like +infinity and f64::MAX:
    comparing with infinity decides equality with it, infinity is not finite, MAX is *)
Record ConstLaws {T} (O : Ops T) (finf fmax : T) : Prop := {
  cl_inf_eq : forall x, eqb O x finf = true -> x = finf;
  cl_inf_refl : eqb O finf finf = true;
  cl_inf_notfinite : is_finite O finf = false;
  cl_max_finite : is_finite O fmax = true;
  cl_max_refl : eqb O fmax fmax = true;
  cl_max_eq : forall x, eqb O x fmax = true -> x = fmax;
  cl_max_not_inf : eqb O fmax finf = false }.

(** ** well-formedness of problems: what the Rust types guarantee (integers in range)
    plus "every number is finite" *)
Definition usize_ok (n : N) : Prop := (Z.of_N n <= usize_max)%Z.
Definition u32_ok (n : N) : Prop := (Z.of_N n <= u32_max)%Z.
Definition csc_ok {T} (O : Ops T) (A : csc (T:=T)) : Prop :=
  usize_ok (cm A) /\ usize_ok (cn A) /\ Forall usize_ok (colptr A) /\ Forall usize_ok (rowval A)
  /\ Forall (fun x => is_finite O x = true) (nzval A).
Definition cone_ok {T} (O : Ops T) (c : cone (T:=T)) : Prop :=
  match c with
  | ZeroC d | NonnegC d | SocC d | PsdC d => usize_ok d
  | ExpC => True
  | PowC a => is_finite O a = true
  | GenPowC a d => Forall (fun x => is_finite O x = true) a /\ usize_ok d
  end.
Definition sval_ok {T} (O : Ops T) (v : sval (T:=T)) : Prop :=
  match v with
  | VU n => u32_ok n
  | VF x => is_finite O x = true
  | _ => True
  end.
(** settings well-typed for the schema, every value serialisable *)
Definition settings_ok {T} (O : Ops T) (finf : T) (s : settings (T:=T)) : Prop :=
  wf_settingsb (schema O finf) s = true /\ Forall (sval_ok O) s.
Definition problem_ok {T} (O : Ops T) (finf : T) (p : problem (T:=T)) : Prop :=
  csc_ok O (pP p) /\ Forall (fun x => is_finite O x = true) (pq p) /\ csc_ok O (pA p)
  /\ Forall (fun x => is_finite O x = true) (pb p) /\ Forall (cone_ok O) (pcones p)
  /\ settings_ok O finf (pset p).

(** ** statements *)

(** decode inverts encode on every problem whose numbers are finite *)
Definition stmt_decode_encode : Prop :=
  forall T (O : Ops T) (finf : T) (p : problem),
    problem_ok O finf p -> decode O finf (encode O finf p) = Ok p.

(** settings survive save+load: every field finite, except that time_limit may be infinite *)
Definition settings_user_ok {T} (O : Ops T) (finf fmax : T) (s : settings (T:=T)) : Prop :=
  wf_settingsb (schema O finf) s = true
  /\ Forall (sval_ok O) (sset (schema O finf) s "time_limit" (VF fmax))
  /\ (get_f O finf s "time_limit" = finf \/ is_finite O (get_f O finf s "time_limit") = true).
Definition stmt_settings_roundtrip : Prop :=
  forall T (O : Ops T) (finf fmax : T) (s : settings),
    ConstLaws O finf fmax -> settings_user_ok O finf fmax s ->
    eqb O (get_f O finf s "time_limit") fmax = false ->
    rmap (desanitize O finf fmax) (dec_settings O finf (enc_settings O finf (sanitize O finf fmax s))) = Ok s.
(** F8: time_limit = f64::MAX does not survive (comes back as infinity) *)
Definition stmt_settings_roundtrip_refuted_max : Prop :=
  exists s : settings (T:=float),
    let fmax := 0x1.fffffffffffffp+1023%float in
    settings_user_ok OpsF infinity fmax s /\
    rmap (desanitize OpsF infinity fmax) (dec_settings OpsF infinity (enc_settings OpsF infinity (sanitize OpsF infinity fmax s)))
    <> Ok s.
(** F8: a non-finite value in any other numeric field is written as null and cannot be loaded *)
Definition stmt_settings_nonfinite_refuted : Prop :=
  exists s : settings (T:=float),
    let fmax := 0x1.fffffffffffffp+1023%float in
    wf_settingsb (schema OpsF infinity) s = true /\
    dec_settings OpsF infinity (enc_settings OpsF infinity (sanitize OpsF infinity fmax s)) = Err.

(** save undoes equilibration, over any field: if the internal data are c D P D, c D q,
    E A D, E b and the stored inverses are the inverses, the saved data are the originals *)
Record FieldLaws {T} (O : Ops T) : Prop := {
  fl_ring : RingLaws O;
  fl_recip : forall a, a <> zero O -> mul O a (recip O a) = one O }.
(** array lengths of a stored matrix are consistent (implied by check_format) *)
Definition shape_ok {T} (A : csc (T:=T)) : Prop :=
  List.length (rowval A) = List.length (nzval A)
  /\ List.length (entry_cols 0 (colptr A)) = List.length (nzval A).
Definition stmt_save_undoes_equilibration : Prop :=
  forall T (O : Ops T) (finf fmax : T) (d e : list T) (c : T) (P : csc) (q : list T) (A : csc) (b : list T)
         (cones : list cone) (s : settings),
    FieldLaws O -> shape_ok P -> shape_ok A ->
    Forall (fun x => x <> zero O) d -> Forall (fun x => x <> zero O) e -> c <> zero O ->
    save_data O finf fmax (equilibrated O d e c P q A b cones) s
    = mkProblem P q A b cones (sanitize O finf fmax s).

(** what is written depends on the equilibration DATA (dinv, einv, c) held by the solver, never
    on a settings flag: the data part of the saved problem is the same function of the internal
    state for every settings value (in particular whatever equilibrate_enable says at save
    time -- settings is a public mutable field), and the settings part is the sanitised
    settings held at save time.  Together with [stmt_save_undoes_equilibration] (which is
    quantified over all settings): data equilibrated at construction are un-scaled even if the
    flag has been switched off since. *)
Definition stmt_save_data_ignores_settings : Prop :=
  forall T (O : Ops T) (finf fmax : T) (I : internal) (s s' : settings),
    with_settings (save_data O finf fmax I s) s' = with_settings (save_data O finf fmax I s') s'
    /\ pset (save_data O finf fmax I s) = sanitize O finf fmax s.

(** with scaling switched off (d = e = 1, c = 1) every saved number is the stored number,
    for any arithmetic in which x*1 = x, 1*1 = 1, 1/1 = 1 (true of binary64, see C19_mul_one_binary64) *)
Record UnitLaws {T} (O : Ops T) : Prop := {
  ul_mul_one : forall a, mul O a (one O) = a;
  ul_recip_one : div O (one O) (one O) = one O }.
Definition all_one {T} (O : Ops T) (l : list T) : Prop := Forall (fun x => x = one O) l.
Definition stmt_save_exact_when_disabled : Prop :=
  forall T (O : Ops T) (finf fmax : T) (I : internal) (s : settings),
    UnitLaws O -> shape_ok (iP I) -> shape_ok (iA I) -> all_one O (idinv I) -> all_one O (ieinv I) -> ic I = one O ->
    save_data O finf fmax I s = mkProblem (iP I) (iq I) (iA I) (ib I) (icones I) (sanitize O finf fmax s).

(** a settings argument supplied at load time replaces the stored settings entirely *)
Definition stmt_override_wins : Prop :=
  forall T (O : Ops T) (finf fmax : T) (o : settings) (j : json) (p : problem),
    load O finf fmax (Some o) j = LoadOk p -> pset p = o.
(** ... and without one the stored (desanitised) settings are used *)
Definition stmt_stored_settings_used : Prop :=
  forall T (O : Ops T) (finf fmax : T) (j : json) (p q : problem),
    decode O finf j = Ok q -> load O finf fmax None j = LoadOk p ->
    pset p = desanitize O finf fmax (pset q).

(** load validates the EFFECTIVE settings -- the ones the solver will be constructed with: the
    override when one is given, else the desanitised stored ones -- and nothing else about
    the stored settings beyond their being decodable.  Complete characterisation of load on
    a decodable file: *)
Definition stmt_load_validates_effective_settings : Prop :=
  forall T (O : Ops T) (finf fmax : T) (override : option settings) (j : json) (q : problem),
    decode O finf j = Ok q ->
    let eff := choose override (desanitize O finf fmax (pset q)) in
    load O finf fmax override j
    = if validate O finf (with_settings q eff) then LoadOk (with_settings q eff) else LoadErr.
(** consequently, with an override the outcome does not depend on the stored settings at all:
    two decodable files with the same data give the same result *)
Definition stmt_override_ignores_stored_settings : Prop :=
  forall T (O : Ops T) (finf fmax : T) (o : settings) (j j' : json) (q q' : problem),
    decode O finf j = Ok q -> decode O finf j' = Ok q' ->
    with_settings q o = with_settings q' o ->
    load O finf fmax (Some o) j = load O finf fmax (Some o) j'.

(** load never panics: for every document the outcome is Ok or Err *)
Definition stmt_load_total_no_panic : Prop :=
  forall T (O : Ops T) (finf fmax : T) (override : option settings) (j : json),
    load O finf fmax override j <> LoadPanic.
(** F2: false of the code before the fix *)
Definition stmt_load_panics_refuted : Prop :=
  exists j : json (T:=float),
    load_old OpsF infinity 0x1.fffffffffffffp+1023%float None j = LoadPanic.
(** a loaded problem passed every check of DefaultSolver::new and of the validation *)
Definition stmt_load_ok_valid : Prop :=
  forall T (O : Ops T) (finf fmax : T) (override : option settings) (j : json) (p : problem),
    load O finf fmax override j = LoadOk p ->
    validate O finf p = true /\ check_dimensions_ok p = true.

(** the two sites of each enum-like string setting agree: whatever the validator accepts, the
    consumer matches (so a validated name can never reach the consumer's panic arm) -- and
    conversely, so that validation rejects nothing the solver could run with *)
Definition stmt_string_sites_agree : Prop :=
  forall s : string,
    validator_solve_method_ok s = consumer_solve_method_ok s
    /\ validator_merge_method_ok s = consumer_merge_method_ok s.
(** load returns Ok only if the consumers' exact-match predicates hold on the settings the
    solver is constructed with (stored or override) *)
Definition stmt_load_ok_consumers_accept : Prop :=
  forall T (O : Ops T) (finf fmax : T) (override : option settings) (j : json) (p : problem),
    load O finf fmax override j = LoadOk p ->
    consumer_solve_method_ok (get_s O finf (pset p) "direct_solve_method") = true
    /\ consumer_merge_method_ok (get_s O finf (pset p) "chordal_decomposition_merge_method") = true
    /\ get_b O finf (pset p) "direct_kkt_solver" = true.

(** the cone list the solver keeps (and saves) is a normal form: collapsing is idempotent
    and preserves the total dimension *)
Definition stmt_collapse_idempotent : Prop :=
  forall T (cs : list (cone (T:=T))), collapse (collapse cs) = collapse cs.
Definition stmt_collapse_nvars : Prop :=
  forall T (cs : list (cone (T:=T))), total_nvars (collapse cs) = total_nvars cs.
(** exactly which cone lists are saved literally: those already in the collapsed normal form
    (no empty cone, no SOC(1)/PSD(1), no two adjacent nonnegative cones) *)
Fixpoint cones_normal {T} (cs : list (cone (T:=T))) : Prop :=
  match cs with
  | [] => True
  | c :: r =>
      nvars c <> 0%N /\
      (match c with
       | NonnegC _ => match r with NonnegC _ :: _ => False | _ => True end
       | _ => collapsible c = None
       end) /\ cones_normal r
  end.
Definition stmt_collapse_identity_iff : Prop :=
  forall T (cs : list (cone (T:=T))), collapse cs = cs <-> cones_normal cs.
(** b is saved literally exactly when no entry exceeds the infinity bound *)
Definition stmt_cap_b_identity : Prop :=
  forall T (O : Ops T) (infbound : T) (b : list T),
    Forall (fun x => ltb O infbound x = false) b -> cap_b O infbound b = b.
Definition stmt_b_literal_refuted : Prop :=
  exists b : list float, cap_b OpsF 1e20%float b <> b.
(** the literal reading "saved cones = the user's list" fails (known finding, inert) *)
Definition stmt_cones_literal_refuted : Prop :=
  exists cs : list (cone (T:=Z)), collapse cs <> cs /\ total_nvars (collapse cs) = total_nvars cs.
