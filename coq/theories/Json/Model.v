(** Executable model of Clarabel's JSON save / load
    (src/solver/implementations/default/json.rs and the serde derives it relies on).

    NOT modelled: serde_json's text layer (tokeniser, number printing / parsing, string
    escapes) -- trusted.  Modelled: everything Clarabel adds on top of it:

    (i)   [save_data]: the un-equilibration of the solver's internal (scaled) data;
    (ii)  [sanitize] / [desanitize] of the settings (time_limit inf <-> f64::MAX);
    (iii) the document structure: a JSON AST, [encode : problem -> json] and
          [decode : json -> result problem] mirroring the derived Serialize/Deserialize of
          JsonProblemData, CscMatrix, SupportedConeT (externally tagged), DefaultSettings
          (container #[serde(default)]: missing fields take defaults, unknown keys ignored,
          duplicate known keys rejected, structs also accepted in positional/array form);
    (iv)  [load_old] = decode ; desanitize ; override ; DefaultSolver::new   (code before the fix)
          [load]     = decode ; desanitize ; override ; validate ; DefaultSolver::new
          with an outcome type that has a [LoadPanic] constructor fed by the modelled
          assertions of DefaultSolver::new (_check_dimensions, GenPowerCone parameters,
          solver-name / direct_kkt_solver panics).

    Integers are binary ([N]/[Z]); [usize] overflow is not modelled.  No proofs here. *)
From Coq Require Import List ZArith NArith String Bool.
Import ListNotations.
Require Import Clarabel.Base.Ops.
Open Scope string_scope.

Inductive result (A : Type) : Type := Ok (a : A) | Err.
Arguments Ok {A}. Arguments Err {A}.
Definition rbind {A B} (r : result A) (f : A -> result B) : result B :=
  match r with Ok a => f a | Err => Err end.
Definition rmap {A B} (f : A -> B) (r : result A) : result B :=
  match r with Ok a => Ok (f a) | Err => Err end.
Fixpoint mapM {A B} (f : A -> result B) (l : list A) : result (list B) :=
  match l with
  | [] => Ok []
  | x :: r => match f x with
              | Ok y => match mapM f r with Ok ys => Ok (y :: ys) | Err => Err end
              | Err => Err
              end
  end.

Inductive outcome (A : Type) : Type := LoadOk (a : A) | LoadErr | LoadPanic.
Arguments LoadOk {A}. Arguments LoadErr {A}. Arguments LoadPanic {A}.

Definition usize_max : Z := 18446744073709551615.
Definition u32_max : Z := 4294967295.

Section JsonModel.
Context {T : Type} (O : Ops T).
(** the two binary64 constants the settings sanitiser talks about *)
Context (finf fmax : T).

(** ** JSON documents (numbers: integer literal / float literal, as serde_json tokenises) *)
Inductive json : Type :=
| JNull | JBool (b : bool) | JInt (z : Z) | JFlt (x : T) | JStr (s : string)
| JArr (l : list json) | JObj (l : list (string * json)).

(** ** Problem data as the user / the file sees it *)
Record csc : Type := mkCsc
  { cm : N; cn : N; colptr : list N; rowval : list N; nzval : list T }.

Inductive cone : Type :=
| ZeroC (d : N) | NonnegC (d : N) | SocC (d : N) | ExpC | PowC (a : T)
| GenPowC (a : list T) (d : N) | PsdC (d : N).

(** settings: one value per schema entry, in schema order *)
Inductive sval : Type := VU (n : N) | VF (x : T) | VB (b : bool) | VS (s : string).
Definition settings : Type := list sval.

Record problem : Type := mkProblem
  { pP : csc; pq : list T; pA : csc; pb : list T; pcones : list cone; pset : settings }.

(** ** Scalars *)
Definition is_finite (x : T) : bool := eqb O (sub O x x) (zero O).
Definition dec (num den : Z) : T := div O (ofZ O num) (ofZ O den).
(** 2^-52 *)
Definition feps : T := div O (one O) (ofZ O 4503599627370496).

(** DefaultSettings: field name and default (the default also fixes the field's type).
    Order = declaration order in settings.rs (= serialisation order). *)
Definition schema : list (string * sval) :=
  [ ("max_iter", VU 200);
    ("time_limit", VF finf);
    ("verbose", VB true);
    ("max_step_fraction", VF (dec 99 100));
    ("tol_gap_abs", VF (dec 1 100000000));
    ("tol_gap_rel", VF (dec 1 100000000));
    ("tol_feas", VF (dec 1 100000000));
    ("tol_infeas_abs", VF (dec 1 100000000));
    ("tol_infeas_rel", VF (dec 1 100000000));
    ("tol_ktratio", VF (dec 1 1000000));
    ("reduced_tol_gap_abs", VF (dec 5 100000));
    ("reduced_tol_gap_rel", VF (dec 5 100000));
    ("reduced_tol_feas", VF (dec 1 10000));
    ("reduced_tol_infeas_abs", VF (dec 5 1000000000000));
    ("reduced_tol_infeas_rel", VF (dec 5 100000));
    ("reduced_tol_ktratio", VF (dec 1 10000));
    ("equilibrate_enable", VB true);
    ("equilibrate_max_iter", VU 10);
    ("equilibrate_min_scaling", VF (dec 1 10000));
    ("equilibrate_max_scaling", VF (dec 10000 1));
    ("linesearch_backtrack_step", VF (dec 8 10));
    ("min_switch_step_length", VF (dec 1 10));
    ("min_terminate_step_length", VF (dec 1 10000));
    ("max_threads", VU 0);
    ("direct_kkt_solver", VB true);
    ("direct_solve_method", VS "auto");
    ("static_regularization_enable", VB true);
    ("static_regularization_constant", VF (dec 1 100000000));
    ("static_regularization_proportional", VF (mul O feps feps));
    ("dynamic_regularization_enable", VB true);
    ("dynamic_regularization_eps", VF (dec 1 10000000000000));
    ("dynamic_regularization_delta", VF (dec 2 10000000));
    ("iterative_refinement_enable", VB true);
    ("iterative_refinement_reltol", VF (dec 1 10000000000000));
    ("iterative_refinement_abstol", VF (dec 1 1000000000000));
    ("iterative_refinement_max_iter", VU 10);
    ("iterative_refinement_stop_ratio", VF (dec 5 1));
    ("presolve_enable", VB true);
    ("chordal_decomposition_enable", VB true);
    ("chordal_decomposition_merge_method", VS "clique_graph");
    ("chordal_decomposition_compact", VB true);
    ("chordal_decomposition_complete_dual", VB true) ].
Definition schema_names : list string := map fst schema.
Definition default_settings : settings := map snd schema.

Definition same_kind (a b : sval) : bool :=
  match a, b with
  | VU _, VU _ | VF _, VF _ | VB _, VB _ | VS _, VS _ => true
  | _, _ => false
  end.
Fixpoint wf_settingsb (sch : list (string * sval)) (s : settings) : bool :=
  match sch, s with
  | [], [] => true
  | (_, d) :: sch', v :: s' => same_kind d v && wf_settingsb sch' s'
  | _, _ => false
  end.

(** named access (by position in the schema) *)
Fixpoint sget (sch : list (string * sval)) (s : settings) (k : string) : option sval :=
  match sch, s with
  | (k', _) :: sch', v :: s' => if String.eqb k k' then Some v else sget sch' s' k
  | _, _ => None
  end.
Fixpoint sset (sch : list (string * sval)) (s : settings) (k : string) (v : sval) : settings :=
  match sch, s with
  | (k', _) :: sch', w :: s' => if String.eqb k k' then v :: s' else w :: sset sch' s' k v
  | _, _ => s
  end.
Definition get_f (s : settings) (k : string) : T :=
  match sget schema s k with Some (VF x) => x | _ => zero O end.
Definition get_b (s : settings) (k : string) : bool :=
  match sget schema s k with Some (VB b) => b | _ => false end.
Definition get_s (s : settings) (k : string) : string :=
  match sget schema s k with Some (VS x) => x | _ => "" end.

(** ** (ii) sanitize / desanitize (json.rs:98-108) *)
Definition sanitize (s : settings) : settings :=
  if eqb O (get_f s "time_limit") finf then sset schema s "time_limit" (VF fmax) else s.
Definition desanitize (s : settings) : settings :=
  if eqb O (get_f s "time_limit") fmax then sset schema s "time_limit" (VF finf) else s.

(** ** (i) un-equilibration of the internal data (json.rs:41-53) *)
Definition nthT (l : list T) (i : N) : T := nth (N.to_nat i) l (one O).
(** column of every stored entry, from colptr *)
Fixpoint entry_cols (j : N) (cp : list N) : list N :=
  match cp with
  | a :: ((b :: _) as r) => repeat j (N.to_nat (b - a)) ++ entry_cols (N.succ j) r
  | _ => []
  end.
Fixpoint map3 {A B C D} (f : A -> B -> C -> D) (la : list A) (lb : list B) (lc : list C) : list D :=
  match la, lb, lc with
  | a :: la', b :: lb', c :: lc' => f a b c :: map3 f la' lb' lc'
  | _, _, _ => []
  end.
(** CscMatrix::lrscale: [v *= l[row] * r[col]] *)
Definition lrscale (l r : list T) (A : csc) : csc :=
  mkCsc (cm A) (cn A) (colptr A) (rowval A)
        (map3 (fun v i j => mul O v (mul O (nthT l i) (nthT r j)))
              (nzval A) (rowval A) (entry_cols 0 (colptr A))).
Definition mscale (c : T) (A : csc) : csc :=
  mkCsc (cm A) (cn A) (colptr A) (rowval A) (map (fun v => mul O v c) (nzval A)).
Fixpoint hadamard (x y : list T) : list T :=
  match x, y with
  | a :: x', b :: y' => mul O a b :: hadamard x' y'
  | _, _ => x
  end.
Definition vscale (c : T) (x : list T) : list T := map (fun v => mul O v c) x.
Definition recip (c : T) : T := div O (one O) c.

Record internal : Type := mkInternal
  { iP : csc; iq : list T; iA : csc; ib : list T; icones : list cone;
    idinv : list T; ieinv : list T; ic : T }.

Definition save_data (I : internal) (s : settings) : problem :=
  mkProblem (mscale (recip (ic I)) (lrscale (idinv I) (idinv I) (iP I)))
            (vscale (recip (ic I)) (hadamard (iq I) (idinv I)))
            (lrscale (ieinv I) (idinv I) (iA I))
            (hadamard (ib I) (ieinv I))
            (icones I)
            (sanitize s).

(** what equilibration is specified to produce from user data (C10): P^ = c D P D,
    q^ = c D q, A^ = E A D, b^ = E b *)
Definition equilibrated (d e : list T) (c : T) (P : csc) (q : list T) (A : csc) (b : list T)
           (cones : list cone) : internal :=
  mkInternal (mscale c (lrscale d d P)) (vscale c (hadamard q d)) (lrscale e d A) (hadamard b e)
             cones (map recip d) (map recip e) c.

(** ** what DefaultProblemData::new does to the user's data before scaling
       (problemdata.rs:62-131 with no presolve reduction / decomposition) *)
Definition triangular (d : N) : N := (d * (d + 1) / 2)%N.
Definition nvars (c : cone) : N :=
  match c with
  | ZeroC d | NonnegC d | SocC d => d
  | ExpC | PowC _ => 3%N
  | GenPowC a d => (N.of_nat (List.length a) + d)%N
  | PsdC d => triangular d
  end.
Definition collapsible (c : cone) : option N :=
  match c with
  | NonnegC d => Some d
  | SocC 1 => Some 1%N
  | PsdC 1 => Some 1%N
  | _ => None
  end.
Definition flush (acc : option N) : list cone :=
  match acc with Some t => [NonnegC t] | None => [] end.
(** SupportedConeT::new_collapsed *)
Fixpoint collapse_go (acc : option N) (cs : list cone) : list cone :=
  match cs with
  | [] => flush acc
  | c :: r =>
      if (nvars c =? 0)%N then collapse_go acc r
      else match collapsible c with
           | Some d => collapse_go (Some (match acc with Some t => t + d | None => d end)%N) r
           | None => flush acc ++ c :: collapse_go None r
           end
  end.
Definition collapse (cs : list cone) : list cone := collapse_go None cs.

(** upper triangle of a (column-sorted) matrix: entries with row <= col *)
Fixpoint count_cols (j : N) (cp : list N) (keep : list bool) : list N :=
  match cp with
  | a :: ((b :: _) as r) =>
      let w := N.to_nat (b - a) in
      N.of_nat (List.length (filter (fun x => x) (firstn w keep))) :: count_cols (N.succ j) r (skipn w keep)
  | _ => []
  end.
Fixpoint prefix_sums (acc : N) (l : list N) : list N :=
  match l with [] => [acc] | x :: r => acc :: prefix_sums (acc + x) r end.
Fixpoint select {A} (keep : list bool) (l : list A) : list A :=
  match keep, l with
  | k :: keep', x :: l' => if k then x :: select keep' l' else select keep' l'
  | _, _ => []
  end.
Definition triu (P : csc) : csc :=
  let keep := map3 (fun (_ : T) i j => (i <=? j)%N) (nzval P) (rowval P) (entry_cols 0 (colptr P)) in
  mkCsc (cm P) (cn P) (prefix_sums 0 (count_cols 0 (colptr P) keep))
        (select keep (rowval P)) (select keep (nzval P)).
(** the internal "infinity" bound (1e20 by default) caps b *)
Definition cap_b (infbound : T) (b : list T) : list T :=
  map (fun x => if ltb O infbound x then infbound else x) b.

(** the problem a solver built from (P,q,A,b,cones,s) is "solving" when no reduction is active *)
Definition solver_view (infbound : T) (p : problem) : problem :=
  mkProblem (triu (pP p)) (pq p) (pA p) (cap_b infbound (pb p)) (collapse (pcones p)) (pset p).

(** ** (iii) encode : derived Serialize *)
Definition enc_usize (n : N) : json := JInt (Z.of_N n).
Definition enc_float (x : T) : json := if is_finite x then JFlt x else JNull.
Definition enc_csc (A : csc) : json :=
  JObj [ ("m", enc_usize (cm A)); ("n", enc_usize (cn A));
         ("colptr", JArr (map enc_usize (colptr A)));
         ("rowval", JArr (map enc_usize (rowval A)));
         ("nzval", JArr (map enc_float (nzval A))) ].
Definition enc_cone (c : cone) : json :=
  match c with
  | ZeroC d => JObj [("ZeroConeT", enc_usize d)]
  | NonnegC d => JObj [("NonnegativeConeT", enc_usize d)]
  | SocC d => JObj [("SecondOrderConeT", enc_usize d)]
  | ExpC => JObj [("ExponentialConeT", JArr [])]
  | PowC a => JObj [("PowerConeT", enc_float a)]
  | GenPowC a d => JObj [("GenPowerConeT", JArr [JArr (map enc_float a); enc_usize d])]
  | PsdC d => JObj [("PSDTriangleConeT", enc_usize d)]
  end.
Definition enc_sval (v : sval) : json :=
  match v with
  | VU n => enc_usize n | VF x => enc_float x | VB b => JBool b | VS s => JStr s
  end.
Definition enc_settings (s : settings) : json :=
  JObj (combine schema_names (map enc_sval s)).
Definition encode (p : problem) : json :=
  JObj [ ("P", enc_csc (pP p)); ("q", JArr (map enc_float (pq p)));
         ("A", enc_csc (pA p)); ("b", JArr (map enc_float (pb p)));
         ("cones", JArr (map enc_cone (pcones p)));
         ("settings", enc_settings (pset p)) ].

(** ** (iii) decode : derived Deserialize *)
Inductive fld : Type := Missing | One (j : json) | Dup.
Fixpoint field (k : string) (l : list (string * json)) : fld :=
  match l with
  | [] => Missing
  | (k', v) :: r =>
      if String.eqb k k'
      then match field k r with Missing => One v | _ => Dup end
      else field k r
  end.
Fixpoint index_of (k : string) (names : list string) : option nat :=
  match names with
  | [] => None
  | k' :: r => if String.eqb k k' then Some 0%nat
               else match index_of k r with Some i => Some (S i) | None => None end
  end.
(** a struct is accepted as a map or (positionally) as a sequence *)
Definition sfield (names : list string) (k : string) (j : json) : fld :=
  match j with
  | JObj l => field k l
  | JArr a => match index_of k names with
              | Some i => match nth_error a i with Some v => One v | None => Missing end
              | None => Missing
              end
  | _ => Missing
  end.
Definition struct_shape (names : list string) (j : json) : bool :=
  match j with
  | JObj _ => true
  | JArr a => (List.length a <=? List.length names)%nat
  | _ => false
  end.
Definition required {A} (f : json -> result A) (x : fld) : result A :=
  match x with One v => f v | _ => Err end.

Definition dec_uint (mx : Z) (j : json) : result N :=
  match j with
  | JInt z => if ((0 <=? z) && (z <=? mx))%Z then Ok (Z.to_N z) else Err
  | _ => Err
  end.
Definition dec_usize := dec_uint usize_max.
Definition dec_u32 := dec_uint u32_max.
Definition dec_float (j : json) : result T :=
  match j with JFlt x => Ok x | JInt z => Ok (ofZ O z) | _ => Err end.
Definition dec_bool (j : json) : result bool :=
  match j with JBool b => Ok b | _ => Err end.
Definition dec_str (j : json) : result string :=
  match j with JStr s => Ok s | _ => Err end.
Definition dec_list {A} (f : json -> result A) (j : json) : result (list A) :=
  match j with JArr l => mapM f l | _ => Err end.

Definition csc_names : list string := ["m"; "n"; "colptr"; "rowval"; "nzval"].
Definition dec_csc (j : json) : result csc :=
  if struct_shape csc_names j then
    rbind (required dec_usize (sfield csc_names "m" j)) (fun m =>
    rbind (required dec_usize (sfield csc_names "n" j)) (fun n =>
    rbind (required (dec_list dec_usize) (sfield csc_names "colptr" j)) (fun cp =>
    rbind (required (dec_list dec_usize) (sfield csc_names "rowval" j)) (fun rv =>
    rbind (required (dec_list dec_float) (sfield csc_names "nzval" j)) (fun nz =>
    Ok (mkCsc m n cp rv nz))))))
  else Err.

Definition dec_cone (j : json) : result cone :=
  match j with
  | JObj [(k, v)] =>
      if String.eqb k "ZeroConeT" then rmap ZeroC (dec_usize v)
      else if String.eqb k "NonnegativeConeT" then rmap NonnegC (dec_usize v)
      else if String.eqb k "SecondOrderConeT" then rmap SocC (dec_usize v)
      else if String.eqb k "ExponentialConeT" then
             match v with JArr [] => Ok ExpC | _ => Err end
      else if String.eqb k "PowerConeT" then rmap PowC (dec_float v)
      else if String.eqb k "GenPowerConeT" then
             match v with
             | JArr [a; d] => rbind (dec_list dec_float a) (fun a' =>
                              rbind (dec_usize d) (fun d' => Ok (GenPowC a' d')))
             | _ => Err
             end
      else if String.eqb k "PSDTriangleConeT" then rmap PsdC (dec_usize v)
      else Err
  | _ => Err
  end.

Definition dec_sval_like (d : sval) (j : json) : result sval :=
  match d with
  | VU _ => rmap VU (dec_u32 j)
  | VF _ => rmap VF (dec_float j)
  | VB _ => rmap VB (dec_bool j)
  | VS _ => rmap VS (dec_str j)
  end.
Definition dec_settings_with (sch : list (string * sval)) (j : json) : result settings :=
  if struct_shape (map fst sch) j then
    mapM (fun kd => match sfield (map fst sch) (fst kd) j with
                    | Missing => Ok (snd kd)
                    | One v => dec_sval_like (snd kd) v
                    | Dup => Err
                    end) sch
  else Err.
Definition dec_settings := dec_settings_with schema.

Definition top_names : list string := ["P"; "q"; "A"; "b"; "cones"; "settings"].
Definition decode (j : json) : result problem :=
  if struct_shape top_names j then
    rbind (required dec_csc (sfield top_names "P" j)) (fun P =>
    rbind (required (dec_list dec_float) (sfield top_names "q" j)) (fun q =>
    rbind (required dec_csc (sfield top_names "A" j)) (fun A =>
    rbind (required (dec_list dec_float) (sfield top_names "b" j)) (fun b =>
    rbind (required (dec_list dec_cone) (sfield top_names "cones" j)) (fun cones =>
    rbind (match sfield top_names "settings" j with
           | Missing => Ok default_settings
           | One v => dec_settings v
           | Dup => Err
           end) (fun s =>
    Ok (mkProblem P q A b cones s)))))))
  else Err.

(** ** (iv) validation and DefaultSolver::new *)
Definition lenN {A} (l : list A) : N := N.of_nat (List.length l).
Fixpoint mono_le (l : list N) : bool :=
  match l with
  | a :: ((b :: _) as r) => (a <=? b)%N && mono_le r
  | _ => true
  end.
Fixpoint strict_lt (l : list N) : bool :=
  match l with
  | a :: ((b :: _) as r) => (a <? b)%N && strict_lt r
  | _ => true
  end.
(** rows of every column strictly increasing (colptr already known monotone, ending at len) *)
Fixpoint cols_sorted (cp : list N) (rows : list N) : bool :=
  match cp with
  | a :: ((b :: _) as r) =>
      let w := N.to_nat (b - a) in
      strict_lt (firstn w rows) && cols_sorted r (skipn w rows)
  | _ => true
  end.
(** CscMatrix::check_format (core.rs:304, with the colptr[0]=0 check of the C16 fix) *)
Definition check_format (A : csc) : bool :=
  if negb (lenN (rowval A) =? lenN (nzval A))%N then false
  else if (lenN (colptr A) =? 0)%N then false
  else if negb (lenN (colptr A) - 1 =? cn A)%N then false
  else if negb (last (colptr A) 0 =? lenN (rowval A))%N then false
  else if negb (hd 0 (colptr A) =? 0)%N then false
  else if negb (mono_le (colptr A)) then false
  else if negb (cols_sorted (colptr A) (rowval A)) then false
  else forallb (fun i => (i <? cm A)%N) (rowval A).

Definition sumT (l : list T) : T := fold_left (add O) l (zero O).
(** GenPowerConeData::new assertions (genpowcone.rs:45-46) *)
Definition genpow_ok (a : list T) : bool :=
  forallb (fun r => ltb O (zero O) r) a
  && ltb O (abs O (sub O (one O) (sumT a)))
           (mul O (mul O feps (ofZ O (Z.of_nat (List.length a)))) (dec 1 2)).
Definition cone_params_ok (c : cone) : bool :=
  if (nvars c =? 0)%N then true
  else match c with GenPowC a _ => genpow_ok a | _ => true end.

(** Two sites per enum-like string setting, modelled separately:
    the VALIDATOR (settings.rs: validate_direct_solve_method /
    validate_chordal_decomposition_merge_method, shared by the builder, DefaultSettings::validate
    and load_from_file's validation) and the CONSUMER that panics on anything it does not match
    (directldlkktsolver.rs: get_ldlsolver_config; chordal/sparsity_pattern.rs: the merge
    strategy match).  Both match the exact byte strings. *)
Definition validator_solve_method_ok (s : string) : bool :=
  String.eqb s "auto" || String.eqb s "qdldl" || String.eqb s "faer".
Definition consumer_solve_method_ok (s : string) : bool :=
  String.eqb s "auto" || String.eqb s "qdldl" || String.eqb s "faer".
Definition validator_merge_method_ok (s : string) : bool :=
  String.eqb s "none" || String.eqb s "parent_child" || String.eqb s "clique_graph".
Definition consumer_merge_method_ok (s : string) : bool :=
  String.eqb s "none" || String.eqb s "parent_child" || String.eqb s "clique_graph".

Definition total_nvars (cs : list cone) : N := fold_left (fun acc c => acc + nvars c)%N cs 0%N.

(** _check_dimensions (solver.rs:95-112): any failing assertion is a panic *)
Definition check_dimensions_ok (p : problem) : bool :=
  (lenN (pb p) =? cm (pA p))%N
  && (total_nvars (pcones p) =? lenN (pb p))%N
  && (lenN (pq p) =? cn (pA p))%N
  && (lenN (pq p) =? cn (pP p))%N
  && (cm (pP p) =? cn (pP p))%N.

(** DefaultSolver::new as far as its assertions are concerned.  (Under-approximates the
    panics of the real constructor: a matrix that fails check_format may also make it panic
    by indexing out of bounds; an unknown merge method panics only when a decomposition
    with more than one clique takes place.) *)
Definition solver_new (p : problem) : outcome problem :=
  if negb (check_dimensions_ok p) then LoadPanic
  else if negb (forallb cone_params_ok (pcones p)) then LoadPanic
  else if negb (get_b (pset p) "direct_kkt_solver") then LoadPanic
  else if negb (consumer_solve_method_ok (get_s (pset p) "direct_solve_method")) then LoadPanic
  else LoadOk p.

(** the validation added to load_from_file by the fix *)
Definition validate (p : problem) : bool :=
  check_format (pP p) && check_format (pA p)
  && (cm (pA p) =? lenN (pb p))%N
  && (cn (pA p) =? lenN (pq p))%N
  && (cn (pP p) =? lenN (pq p))%N
  && (cm (pP p) =? cn (pP p))%N
  && (total_nvars (pcones p) =? lenN (pb p))%N
  && forallb cone_params_ok (pcones p)
  && wf_settingsb schema (pset p)
  && validator_solve_method_ok (get_s (pset p) "direct_solve_method")
  && validator_merge_method_ok (get_s (pset p) "chordal_decomposition_merge_method")
  && get_b (pset p) "direct_kkt_solver".

Definition with_settings (p : problem) (s : settings) : problem :=
  mkProblem (pP p) (pq p) (pA p) (pb p) (pcones p) s.
Definition choose (override : option settings) (stored : settings) : settings :=
  match override with Some o => o | None => stored end.

(** load_from_file before the fix *)
Definition load_old (override : option settings) (j : json) : outcome problem :=
  match decode j with
  | Err => LoadErr
  | Ok p => solver_new (with_settings p (choose override (desanitize (pset p))))
  end.
(** load_from_file after the fix *)
Definition load (override : option settings) (j : json) : outcome problem :=
  match decode j with
  | Err => LoadErr
  | Ok p => let p' := with_settings p (choose override (desanitize (pset p))) in
            if validate p' then solver_new p' else LoadErr
  end.

End JsonModel.

Arguments JNull {T}. Arguments JBool {T}. Arguments JInt {T}. Arguments JStr {T}.
Arguments ExpC {T}. Arguments ZeroC {T}. Arguments NonnegC {T}. Arguments SocC {T}. Arguments PsdC {T}.
Arguments VU {T}. Arguments VB {T}. Arguments VS {T}.
Arguments Missing {T}. Arguments Dup {T}.
