(** C19 proofs, part 2: decode inverts encode; the settings round trip. *)
From Coq Require Import List ZArith NArith String Bool Floats Lia.
Import ListNotations.
Require Import Clarabel.Base.Ops Clarabel.Json.Model Clarabel.Json.Spec.
Open Scope string_scope.
Open Scope list_scope.

Lemma mapM_map {A B} (P : A -> Prop) (f : B -> result A) (g : A -> B) (l : list A) :
  (forall x, P x -> f (g x) = Ok x) -> Forall P l -> mapM f (map g l) = Ok l.
Proof.
  intros H F. induction F as [|x l Px F IH]; cbn [map mapM]; [reflexivity|].
  rewrite (H x Px), IH. reflexivity.
Qed.

Section Codec.
Context {T : Type} (O : Ops T) (finf : T).
Notation json := (json (T:=T)).

(** *** scalars *)
Lemma dec_uint_enc mx n : (Z.of_N n <= mx)%Z -> dec_uint (T:=T) mx (enc_usize n) = Ok n.
Proof.
  intros H. unfold dec_uint, enc_usize.
  assert (E : ((0 <=? Z.of_N n) && (Z.of_N n <=? mx))%Z = true).
  { apply andb_true_intro; split; [apply Z.leb_le; lia | apply Z.leb_le; exact H]. }
  rewrite E, N2Z.id. reflexivity.
Qed.
Lemma dec_usize_enc n : usize_ok n -> dec_usize (T:=T) (enc_usize n) = Ok n.
Proof. apply dec_uint_enc. Qed.
Lemma dec_u32_enc n : u32_ok n -> dec_u32 (T:=T) (enc_usize n) = Ok n.
Proof. apply dec_uint_enc. Qed.
Lemma dec_float_enc x : is_finite O x = true -> dec_float O (enc_float O x) = Ok x.
Proof. intros H. unfold enc_float. rewrite H. reflexivity. Qed.

Lemma dec_list_usize l : Forall usize_ok l -> dec_list (T:=T) dec_usize (JArr (map enc_usize l)) = Ok l.
Proof. intros F. cbn [dec_list]. apply (mapM_map usize_ok); [exact dec_usize_enc | exact F]. Qed.
Lemma dec_list_float l :
  Forall (fun x => is_finite O x = true) l -> dec_list (dec_float O) (JArr (map (enc_float O) l)) = Ok l.
Proof. intros F. cbn [dec_list]. apply (mapM_map (fun x => is_finite O x = true)); [exact dec_float_enc | exact F]. Qed.

(** *** matrices *)
Lemma csc_fields (a b c d e : json) :
  let j := JObj [("m", a); ("n", b); ("colptr", c); ("rowval", d); ("nzval", e)] in
  struct_shape csc_names j = true /\
  sfield csc_names "m" j = One a /\ sfield csc_names "n" j = One b /\
  sfield csc_names "colptr" j = One c /\ sfield csc_names "rowval" j = One d /\
  sfield csc_names "nzval" j = One e.
Proof. repeat split. Qed.

Lemma dec_csc_enc A : csc_ok O A -> dec_csc O (enc_csc O A) = Ok A.
Proof.
  intros (Hm & Hn & Hcp & Hrv & Hnz). destruct A as [m n cp rv nz]. cbn [cm cn colptr rowval nzval] in *.
  unfold dec_csc, enc_csc. cbn [cm cn colptr rowval nzval].
  destruct (csc_fields (enc_usize m) (enc_usize n) (JArr (map enc_usize cp)) (JArr (map enc_usize rv))
              (JArr (map (enc_float O) nz))) as (E0 & E1 & E2 & E3 & E4 & E5).
  cbv zeta in E0, E1, E2, E3, E4, E5. rewrite E0, E1, E2, E3, E4, E5. cbn [required].
  rewrite (dec_usize_enc _ Hm). cbn [rbind]. rewrite (dec_usize_enc _ Hn). cbn [rbind].
  rewrite (dec_list_usize _ Hcp). cbn [rbind]. rewrite (dec_list_usize _ Hrv). cbn [rbind].
  rewrite (dec_list_float _ Hnz). reflexivity.
Qed.

(** *** cones *)
Lemma dec_cone_enc c : cone_ok O c -> dec_cone O (enc_cone O c) = Ok c.
Proof.
  destruct c as [d|d|d| |a|a d|d]; cbn [cone_ok]; intros H.
  - change (rmap (@ZeroC T) (dec_usize (T:=T) (enc_usize d)) = Ok (ZeroC d)). rewrite (dec_usize_enc _ H). reflexivity.
  - change (rmap (@NonnegC T) (dec_usize (T:=T) (enc_usize d)) = Ok (NonnegC d)). rewrite (dec_usize_enc _ H). reflexivity.
  - change (rmap (@SocC T) (dec_usize (T:=T) (enc_usize d)) = Ok (SocC d)). rewrite (dec_usize_enc _ H). reflexivity.
  - reflexivity.
  - change (rmap (@PowC T) (dec_float O (enc_float O a)) = Ok (PowC a)). rewrite (dec_float_enc _ H). reflexivity.
  - destruct H as [Ha Hd].
    change (rbind (dec_list (dec_float O) (JArr (map (enc_float O) a))) (fun a' =>
            rbind (dec_usize (T:=T) (enc_usize d)) (fun d' => Ok (GenPowC a' d'))) = Ok (GenPowC a d)).
    rewrite (dec_list_float _ Ha). cbn [rbind]. rewrite (dec_usize_enc _ Hd). reflexivity.
  - change (rmap (@PsdC T) (dec_usize (T:=T) (enc_usize d)) = Ok (PsdC d)). rewrite (dec_usize_enc _ H). reflexivity.
Qed.
Lemma dec_list_cone cs :
  Forall (cone_ok O) cs -> dec_list (dec_cone O) (JArr (map (enc_cone O) cs)) = Ok cs.
Proof. intros F. cbn [dec_list]. apply (mapM_map (cone_ok O)); [exact dec_cone_enc | exact F]. Qed.

(** *** settings: generic in the schema (distinct names) *)
Lemma field_notin k (l : list (string * json)) : ~ In k (map fst l) -> field k l = Missing.
Proof.
  induction l as [|[k' v] l IH]; cbn [field map fst In]; [reflexivity|]. intros H.
  destruct (String.eqb k k') eqn:E.
  - apply String.eqb_eq in E. subst. exfalso. apply H. left. reflexivity.
  - apply IH. intros I. apply H. right. exact I.
Qed.
Lemma field_app_skip k (pre l : list (string * json)) :
  ~ In k (map fst pre) -> field k (pre ++ l) = field k l.
Proof.
  induction pre as [|[k' v] pre IH]; cbn [app field map fst In]; [reflexivity|]. intros H.
  destruct (String.eqb k k') eqn:E.
  - apply String.eqb_eq in E. subst. exfalso. apply H. left. reflexivity.
  - apply IH. intros I. apply H. right. exact I.
Qed.
Lemma field_here k v (l : list (string * json)) : ~ In k (map fst l) -> field k ((k, v) :: l) = One v.
Proof. intros H. cbn [field]. rewrite String.eqb_refl, (field_notin _ _ H). reflexivity. Qed.

Lemma map_fst_combine {A B} (a : list A) (b : list B) :
  List.length a = List.length b -> map fst (combine a b) = a.
Proof.
  revert b; induction a as [|x a IH]; intros [|y b] H; cbn in *; try discriminate; [reflexivity|].
  f_equal. apply IH. lia.
Qed.

Lemma combine_app' {A B} (a a' : list A) (b b' : list B) :
  List.length a = List.length b -> combine (a ++ a') (b ++ b') = combine a b ++ combine a' b'.
Proof.
  revert b; induction a as [|x a IH]; intros [|y b] H; cbn in *; try discriminate; [reflexivity|].
  f_equal. apply IH. lia.
Qed.

Lemma dec_sval_like_enc d v :
  same_kind d v = true -> sval_ok O v -> dec_sval_like O d (enc_sval O v) = Ok v.
Proof.
  destruct d, v; cbn [same_kind]; try discriminate; intros _ H; cbn [sval_ok enc_sval dec_sval_like] in *.
  - rewrite (dec_u32_enc _ H). reflexivity.
  - rewrite (dec_float_enc _ H). reflexivity.
  - reflexivity.
  - reflexivity.
Qed.

Lemma wf_length sch (s : settings (T:=T)) : wf_settingsb sch s = true -> List.length sch = List.length s.
Proof.
  revert s; induction sch as [|[k d] sch IH]; intros [|v s]; cbn [wf_settingsb]; try discriminate; [reflexivity|].
  intros H. apply andb_prop in H. destruct H as [_ H]. cbn [List.length]. f_equal. apply IH. exact H.
Qed.

Lemma dec_fields_suffix (suf : list (string * sval)) :
  forall (ssuf : settings) (pre : list (string * sval)) (spre : settings),
    List.length pre = List.length spre ->
    NoDup (map fst (pre ++ suf)) ->
    wf_settingsb suf ssuf = true -> Forall (sval_ok O) ssuf ->
    mapM (fun kd => match field (fst kd) (combine (map fst (pre ++ suf)) (map (enc_sval O) (spre ++ ssuf))) with
                    | Missing => Ok (snd kd)
                    | One v => dec_sval_like O (snd kd) v
                    | Dup => Err
                    end) suf = Ok ssuf.
Proof.
  induction suf as [|[k d] suf IH]; intros ssuf pre spre Hlen Hnd Hwf Hok.
  - destruct ssuf; [reflexivity|discriminate].
  - destruct ssuf as [|v ssuf]; [discriminate|].
    cbn [wf_settingsb] in Hwf. apply andb_prop in Hwf. destruct Hwf as [Hk Hwf].
    inversion Hok as [|? ? Hv Hok']; subst.
    cbn [mapM fst snd].
    assert (Hl2 : List.length (map fst pre) = List.length (map (enc_sval O) spre)) by (rewrite !map_length; exact Hlen).
    assert (Hl3 : List.length (map fst suf) = List.length (map (enc_sval O) ssuf)) by (rewrite !map_length; apply wf_length; exact Hwf).
    assert (F : field k (combine (map fst (pre ++ (k, d) :: suf)) (map (enc_sval O) (spre ++ v :: ssuf))) = One (enc_sval O v)).
    { rewrite !map_app. cbn [map fst].
      rewrite combine_app' by exact Hl2. cbn [combine].
      rewrite map_app in Hnd. cbn [map fst] in Hnd.
      rewrite field_app_skip.
      - apply field_here. rewrite map_fst_combine by exact Hl3.
        apply NoDup_remove_2 in Hnd. intros I. apply Hnd. apply in_or_app. right. exact I.
      - rewrite map_fst_combine by exact Hl2.
        apply NoDup_remove_2 in Hnd. intros I. apply Hnd. apply in_or_app. left. exact I. }
    rewrite F. rewrite (dec_sval_like_enc _ _ Hk Hv).
    specialize (IH ssuf (pre ++ [(k, d)]) (spre ++ [v])).
    rewrite <- !app_assoc in IH. cbn [app] in IH.
    rewrite IH; [reflexivity| | | exact Hwf | exact Hok'].
    + rewrite !app_length. cbn [List.length]. lia.
    + exact Hnd.
Qed.

Lemma dec_settings_with_enc sch (s : settings) :
  NoDup (map fst sch) -> wf_settingsb sch s = true -> Forall (sval_ok O) s ->
  dec_settings_with O sch (JObj (combine (map fst sch) (map (enc_sval O) s))) = Ok s.
Proof.
  intros Hnd Hwf Hok. unfold dec_settings_with. cbn [struct_shape sfield].
  exact (dec_fields_suffix sch s [] [] eq_refl Hnd Hwf Hok).
Qed.

Fixpoint nodupb (l : list string) : bool :=
  match l with
  | [] => true
  | x :: r => negb (existsb (String.eqb x) r) && nodupb r
  end.
Lemma nodupb_sound l : nodupb l = true -> NoDup l.
Proof.
  induction l as [|x r IH]; cbn [nodupb]; intros H; [constructor|].
  apply andb_prop in H. destruct H as [H1 H2]. constructor; [|apply IH; exact H2].
  intros I. apply negb_true_iff in H1. rewrite <- not_true_iff_false in H1. apply H1.
  apply existsb_exists. exists x. split; [exact I | apply String.eqb_refl].
Qed.
Lemma schema_nodup : NoDup (map fst (schema O finf)).
Proof. apply nodupb_sound. vm_compute. reflexivity. Qed.

Lemma dec_settings_enc (s : settings) :
  settings_ok O finf s -> dec_settings O finf (enc_settings O finf s) = Ok s.
Proof.
  intros [Hwf Hok]. unfold dec_settings, enc_settings, schema_names.
  apply dec_settings_with_enc; [exact schema_nodup | exact Hwf | exact Hok].
Qed.

(** *** the whole document *)
Lemma top_fields (a b c d e f : json) :
  let j := JObj [("P", a); ("q", b); ("A", c); ("b", d); ("cones", e); ("settings", f)] in
  struct_shape top_names j = true /\
  sfield top_names "P" j = One a /\ sfield top_names "q" j = One b /\
  sfield top_names "A" j = One c /\ sfield top_names "b" j = One d /\
  sfield top_names "cones" j = One e /\ sfield top_names "settings" j = One f.
Proof. repeat split. Qed.

Lemma decode_encode_ok (p : problem) : problem_ok O finf p -> decode O finf (encode O finf p) = Ok p.
Proof.
  intros (HP & Hq & HA & Hb & Hc & Hs). destruct p as [P q A b cones s]. cbn [pP pq pA pb pcones pset] in *.
  unfold decode, encode. cbn [pP pq pA pb pcones pset].
  destruct (top_fields (enc_csc O P) (JArr (map (enc_float O) q)) (enc_csc O A) (JArr (map (enc_float O) b))
              (JArr (map (enc_cone O) cones)) (enc_settings O finf s)) as (E0 & E1 & E2 & E3 & E4 & E5 & E6).
  cbv zeta in E0, E1, E2, E3, E4, E5, E6. rewrite E0, E1, E2, E3, E4, E5, E6. cbn [required].
  rewrite (dec_csc_enc _ HP). cbn [rbind]. rewrite (dec_list_float _ Hq). cbn [rbind].
  rewrite (dec_csc_enc _ HA). cbn [rbind]. rewrite (dec_list_float _ Hb). cbn [rbind].
  rewrite (dec_list_cone _ Hc). cbn [rbind]. rewrite (dec_settings_enc _ Hs). reflexivity.
Qed.
End Codec.
