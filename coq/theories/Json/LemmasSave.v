(** C19 proofs, part 3: settings round trip (incl. the binary64 instance of the constants'
    laws), un-equilibration arithmetic. *)
From Coq Require Import List ZArith NArith String Bool Floats Lia Ring.
Import ListNotations.
Require Import Clarabel.Base.Ops Clarabel.Json.Model Clarabel.Json.Spec Clarabel.Json.LemmasCodec.
Open Scope string_scope.
Open Scope list_scope.

Section Settings.
Context {T : Type} (O : Ops T) (finf fmax : T).
Notation settings := (settings (T:=T)).

(** time_limit is the second field of the schema *)
Lemma sget_tl (v0 v1 : sval) r : sget (schema O finf) (v0 :: v1 :: r) "time_limit" = Some v1.
Proof. reflexivity. Qed.
Lemma sset_tl (v0 v1 v : sval) r : sset (schema O finf) (v0 :: v1 :: r) "time_limit" v = v0 :: v :: r.
Proof. reflexivity. Qed.
Lemma wf_tl (s : settings) :
  wf_settingsb (schema O finf) s = true -> exists v0 x r, s = v0 :: VF x :: r.
Proof.
  destruct s as [|v0 [|v1 r]]; try discriminate.
  - destruct v0; discriminate.
  - intros H. change (same_kind (VU 200) v0 && (same_kind (VF finf) v1 && wf_settingsb (tl (tl (schema O finf))) r) = true) in H.
    apply andb_prop in H. destruct H as [_ H]. apply andb_prop in H. destruct H as [H _].
    destruct v1; try discriminate. eauto.
Qed.
Lemma wf_tl_set (v0 : sval) x y r :
  wf_settingsb (schema O finf) (v0 :: VF x :: r) = true -> wf_settingsb (schema O finf) (v0 :: VF y :: r) = true.
Proof. intros H. exact H. Qed.

Lemma settings_roundtrip_ok (s : settings) :
  ConstLaws O finf fmax -> settings_user_ok O finf fmax s ->
  eqb O (get_f O finf s "time_limit") fmax = false ->
  rmap (desanitize O finf fmax) (dec_settings O finf (enc_settings O finf (sanitize O finf fmax s))) = Ok s.
Proof.
  intros L (Hwf & Hok & Htl) Hnm.
  destruct (wf_tl s Hwf) as (v0 & x & r & ->).
  rewrite sset_tl in Hok.
  unfold get_f in Htl, Hnm. rewrite sget_tl in Htl, Hnm.
  inversion Hok as [|? ? Hv0 Hok1]; subst. inversion Hok1 as [|? ? _ Hr]; subst.
  unfold sanitize, get_f. rewrite sget_tl.
  destruct (eqb O x finf) eqn:E.
  - apply (cl_inf_eq _ _ _ L) in E. subst x. rewrite sset_tl.
    rewrite dec_settings_enc by (split; [exact (wf_tl_set _ _ _ _ Hwf) | exact Hok]).
    cbn [rmap]. unfold desanitize, get_f. rewrite sget_tl, (cl_max_refl _ _ _ L), sset_tl. reflexivity.
  - assert (Hfin : is_finite O x = true).
    { destruct Htl as [-> | Hf]; [|exact Hf]. rewrite (cl_inf_refl _ _ _ L) in E. discriminate. }
    rewrite dec_settings_enc by (split; [exact Hwf | constructor; [exact Hv0 | constructor; [exact Hfin | exact Hr]]]).
    cbn [rmap]. unfold desanitize, get_f. rewrite sget_tl, Hnm. reflexivity.
Qed.
End Settings.

(** ** binary64 instance of the constants' laws *)
Definition FMAX : float := 0x1.fffffffffffffp+1023%float.

Lemma feqb_inf x : PrimFloat.eqb x infinity = true -> x = infinity.
Proof.
  intros H. rewrite eqb_spec in H. rewrite <- (SF2Prim_Prim2SF x).
  change (Prim2SF infinity) with (S754_infinity false) in H.
  destruct (Prim2SF x) as [s|s| |s m e]; cbn [SFeqb SFcompare] in H; try discriminate.
  destruct s; [discriminate|reflexivity].
Qed.
Lemma feqb_max x : PrimFloat.eqb x FMAX = true -> x = FMAX.
Proof.
  intros H. rewrite eqb_spec in H. rewrite <- (SF2Prim_Prim2SF x).
  change (Prim2SF FMAX) with (S754_finite false 9007199254740991 971) in H.
  destruct (Prim2SF x) as [s|s| |s m e]; cbn [SFeqb SFcompare] in H; try discriminate;
    try (destruct s; discriminate).
  destruct s; [discriminate|].
    destruct (Z.compare e 971) eqn:Ce; try discriminate.
    apply Z.compare_eq in Ce. subst e.
    destruct (Pos.compare_cont Eq m 9007199254740991) eqn:Cm; try discriminate.
    apply Pos.compare_eq in Cm. subst m. reflexivity.
Qed.
Lemma const_laws_binary64 : ConstLaws OpsF infinity FMAX.
Proof.
  constructor.
  - exact feqb_inf.
  - reflexivity.
  - reflexivity.
  - reflexivity.
  - reflexivity.
  - exact feqb_max.
  - reflexivity.
Qed.

(** ** F8 witnesses *)
Definition settings_tl (x : float) : settings (T:=float) :=
  sset (schema OpsF infinity) (default_settings OpsF infinity) "time_limit" (VF x).
Lemma settings_roundtrip_refuted_max_ok : stmt_settings_roundtrip_refuted_max.
Proof.
  exists (settings_tl FMAX). cbv zeta. split.
  - split; [vm_compute; reflexivity|]. split.
    + repeat (constructor; [vm_compute; try reflexivity; try exact I; try (intro X; discriminate X)|]). constructor.
    + right. vm_compute. reflexivity.
  - intros H.
    assert (E : rmap (fun s => get_f OpsF infinity s "time_limit")
                  (rmap (desanitize OpsF infinity FMAX)
                     (dec_settings OpsF infinity (enc_settings OpsF infinity (sanitize OpsF infinity FMAX (settings_tl FMAX)))))
                = Ok FMAX).
    { change 0x1.fffffffffffffp+1023%float with FMAX in H. rewrite H. vm_compute. reflexivity. }
    vm_compute in E. injection E as E. apply (f_equal Prim2SF) in E. vm_compute in E. discriminate E.
Qed.
Lemma settings_nonfinite_refuted_ok : stmt_settings_nonfinite_refuted.
Proof.
  exists (sset (schema OpsF infinity) (default_settings OpsF infinity) "tol_feas" (VF infinity)).
  cbv zeta. split; vm_compute; reflexivity.
Qed.

(** ** un-equilibration *)
Section Save.
Context {T : Type} (O : Ops T) (finf fmax : T).
Notation csc := (csc (T:=T)).

Lemma map3_id (f : T -> N -> N -> T) (vals : list T) (rows cols : list N) :
  (forall v i j, f v i j = v) ->
  List.length rows = List.length vals -> List.length cols = List.length vals ->
  map3 f vals rows cols = vals.
Proof.
  intros H. revert rows cols; induction vals as [|v vals IH]; intros [|i rows] [|j cols] Hr Hc;
    cbn in *; try discriminate; [reflexivity|].
  rewrite H. f_equal. apply IH; lia.
Qed.
Lemma map3_map3 (f g : T -> N -> N -> T) (vals : list T) (rows cols : list N) :
  (forall v i j, f (g v i j) i j = v) ->
  List.length rows = List.length vals -> List.length cols = List.length vals ->
  map3 f (map3 g vals rows cols) rows cols = vals.
Proof.
  intros H. revert rows cols; induction vals as [|v vals IH]; intros [|i rows] [|j cols] Hr Hc;
    cbn in *; try discriminate; [reflexivity|].
  rewrite H. f_equal. apply IH; lia.
Qed.
Lemma hadamard_hadamard (f : T -> T -> Prop) (x d d' : list T) :
  List.length d = List.length d' ->
  (forall a, Forall2 (fun u v => mul O (mul O a u) v = a) d d') ->
  hadamard O (hadamard O x d) d' = x.
Proof.
  intros Hl H. specialize (H (zero O)) as H0. clear H0.
  revert d d' Hl H; induction x as [|a x IH]; intros [|u d] [|v d'] Hl H; cbn in *; try discriminate; try reflexivity.
  f_equal.
  - specialize (H a). inversion H; subst. assumption.
  - apply IH; [lia|]. intros b. specialize (H b). inversion H; subst. assumption.
Qed.

(** *** scaling switched off *)
Lemma nthT_all_one (l : list T) i : all_one O l -> nthT O l i = one O.
Proof.
  unfold nthT, all_one. intros H. revert l H. induction (N.to_nat i) as [|k IH]; intros [|x l] H; cbn [nth]; try reflexivity.
  - inversion H; subst; reflexivity.
  - apply IH. inversion H; subst; assumption.
Qed.
Lemma hadamard_all_one (x y : list T) : (forall a, mul O a (one O) = a) -> all_one O y -> hadamard O x y = x.
Proof.
  intros M. revert y; induction x as [|a x IH]; intros [|b y] H; cbn [hadamard]; try reflexivity.
  inversion H; subst. rewrite M, IH by assumption. reflexivity.
Qed.
Lemma hadamard_nil (x : list T) : hadamard O x [] = x.
Proof. destruct x; reflexivity. Qed.
Lemma map_id' (f : T -> T) (l : list T) : (forall a, f a = a) -> map f l = l.
Proof. intros H. induction l as [|a l IH]; cbn [map]; [reflexivity|]. rewrite H, IH. reflexivity. Qed.

Lemma save_exact_when_disabled_ok (I : internal) (s : settings) :
  UnitLaws O -> shape_ok (iP I) -> shape_ok (iA I) ->
  all_one O (idinv I) -> all_one O (ieinv I) -> ic I = one O ->
  save_data O finf fmax I s = mkProblem (iP I) (iq I) (iA I) (ib I) (icones I) (sanitize O finf fmax s).
Proof.
  intros [M R] [HP1 HP2] [HA1 HA2] Hd He Hc. unfold save_data. rewrite Hc. unfold recip at 1 2. rewrite R.
  assert (L : forall (l r : list T) (A : csc), all_one O l -> all_one O r ->
              List.length (rowval A) = List.length (nzval A) ->
              List.length (entry_cols 0 (colptr A)) = List.length (nzval A) -> lrscale O l r A = A).
  { intros l r A Hl Hr H1 H2. unfold lrscale. destruct A as [m n cp rv nz]. cbn [cm cn colptr rowval nzval] in *.
    f_equal. apply map3_id; [|exact H1|exact H2].
    intros v i j. rewrite (nthT_all_one _ _ Hl), (nthT_all_one _ _ Hr), M, M. reflexivity. }
  rewrite (L _ _ (iP I) Hd Hd HP1 HP2), (L _ _ (iA I) He Hd HA1 HA2).
  unfold mscale, vscale. rewrite !(map_id' (fun v => mul O v (one O))) by exact M.
  rewrite !hadamard_all_one by assumption.
  destruct (iP I); reflexivity.
Qed.

(** *** save undoes equilibration (field) *)
Context (F : FieldLaws O).
Let Rth : ring_theory (zero O) (one O) (add O) (mul O) (sub O) (neg O) (@eq T) := fl_ring O F.
Add Ring TRing : Rth.

Lemma nth_pair (d : list T) i :
  Forall (fun x => x <> zero O) d -> mul O (nthT O d i) (nthT O (map (recip O) d) i) = one O.
Proof.
  unfold nthT. intros H. revert d H. induction (N.to_nat i) as [|k IH]; intros [|x d] H; cbn [nth map].
  - ring.
  - inversion H; subst. apply (fl_recip O F). assumption.
  - ring.
  - apply IH. inversion H; subst; assumption.
Qed.

Lemma unscale_entry (d e : list T) (c v : T) i j :
  Forall (fun x => x <> zero O) d -> Forall (fun x => x <> zero O) e -> c <> zero O ->
  mul O (mul O (mul O (mul O v (mul O (nthT O e i) (nthT O d j))) c)
               (mul O (nthT O (map (recip O) e) i) (nthT O (map (recip O) d) j))) (recip O c) = v.
Proof.
  intros Hd He Hc.
  pose proof (nth_pair e i He) as Pe. pose proof (nth_pair d j Hd) as Pd.
  pose proof (fl_recip O F c Hc) as Pc.
  transitivity (mul O v (mul O (mul O (mul O (nthT O e i) (nthT O (map (recip O) e) i))
                                      (mul O (nthT O d j) (nthT O (map (recip O) d) j)))
                               (mul O c (recip O c)))); [ring|].
  rewrite Pe, Pd, Pc. ring.
Qed.

Lemma lrscale_shape l r (A : csc) :
  colptr (lrscale O l r A) = colptr A /\ rowval (lrscale O l r A) = rowval A.
Proof. split; reflexivity. Qed.

Lemma save_undoes_equilibration_ok (d e : list T) (c : T) (P : csc) (q : list T) (A : csc) (b : list T)
      (cones : list cone) (s : settings) :
  shape_ok P -> shape_ok A ->
  Forall (fun x => x <> zero O) d -> Forall (fun x => x <> zero O) e -> c <> zero O ->
  save_data O finf fmax (equilibrated O d e c P q A b cones) s
  = mkProblem P q A b cones (sanitize O finf fmax s).
Proof.
  intros [HP1 HP2] [HA1 HA2] Hd He Hc. unfold save_data, equilibrated. cbn [iP iq iA ib icones idinv ieinv ic].
  f_equal.
  - (* P *)
    destruct P as [m n cp rv nz]. cbn [cm cn colptr rowval nzval] in *.
    unfold mscale, lrscale. cbn [cm cn colptr rowval nzval]. f_equal.
    rewrite <- (map3_map3
                  (fun v i j => mul O (mul O v (mul O (nthT O (map (recip O) d) i) (nthT O (map (recip O) d) j))) (recip O c))
                  (fun v i j => mul O (mul O v (mul O (nthT O d i) (nthT O d j))) c) nz rv (entry_cols 0 cp)) at 2;
      [| intros v i j; apply unscale_entry; assumption | exact HP1 | exact HP2].
    clear. revert rv; generalize (entry_cols 0 cp). induction nz as [|v nz IH]; intros [|j cols] [|i rv]; cbn [map3 map]; try reflexivity.
    f_equal. apply IH.
  - (* q *)
    unfold vscale. clear HP1 HP2 HA1 HA2 He.
    revert d Hd; induction q as [|a q IH]; intros [|u d] Hd; cbn [hadamard map]; try reflexivity.
    + f_equal; [|specialize (IH [] Hd); cbn [map] in IH; rewrite !hadamard_nil in IH; exact IH].
      transitivity (mul O a (mul O c (recip O c))); [ring|]. rewrite (fl_recip O F c Hc). ring.
    + inversion Hd; subst. f_equal; [|apply IH; assumption].
      transitivity (mul O a (mul O (mul O u (recip O u)) (mul O c (recip O c)))); [ring|].
      rewrite (fl_recip O F c Hc), (fl_recip O F u) by assumption. ring.
  - (* A *)
    destruct A as [m n cp rv nz]. cbn [cm cn colptr rowval nzval] in *.
    unfold lrscale. cbn [cm cn colptr rowval nzval]. f_equal.
    apply map3_map3; [| exact HA1 | exact HA2].
    intros v i j. pose proof (nth_pair e i He) as Pe. pose proof (nth_pair d j Hd) as Pd.
    transitivity (mul O v (mul O (mul O (nthT O e i) (nthT O (map (recip O) e) i))
                                 (mul O (nthT O d j) (nthT O (map (recip O) d) j)))); [ring|].
    rewrite Pe, Pd. ring.
  - (* b *)
    clear HP1 HP2 HA1 HA2 Hd. revert e He; induction b as [|a b IH]; intros [|u e] He; cbn [hadamard map]; try reflexivity.
    inversion He; subst. f_equal; [|apply IH; assumption].
    transitivity (mul O a (mul O u (recip O u))); [ring|]. rewrite (fl_recip O F u) by assumption. ring.
Qed.
End Save.

Lemma save_data_ignores_settings_ok : stmt_save_data_ignores_settings.
Proof. intros T O finf fmax I s s'. split; reflexivity. Qed.

(** ** non-vacuity: the hypotheses bundles are inhabited *)
From Coq Require Import Reals Lra.
Lemma field_laws_R : FieldLaws OpsR.
Proof.
  split; [exact RingLawsR|]. intros a Ha. unfold recip. cbn [mul div one OpsR zero] in *.
  unfold Rdiv. rewrite Rmult_1_l. apply Rinv_r. exact Ha.
Qed.
Lemma unit_laws_R : UnitLaws OpsR.
Proof. split; cbn [mul div one OpsR]; intros; unfold Rdiv; try rewrite Rinv_1; ring. Qed.
Lemma unit_laws_Z : UnitLaws OpsZ.
Proof. split; cbn [mul div one OpsZ]; intros; [ring | reflexivity]. Qed.

Definition example_problem : problem (T:=float) :=
  mkProblem (mkCsc 2 2 [0;1;2]%N [0;1]%N [2%float; 1.5%float]) [1%float; (-1)%float]
            (mkCsc 11 2 [0;2;3]%N [0;4;10]%N [1%float; (-0.25)%float; 1e-300%float])
            [0%float; 1%float; 1%float; 2%float; 0.5%float; (-1)%float; 1%float; 1%float; 0.1%float; 1%float; 1e19%float]
            [ZeroC 1; NonnegC 2; SocC 2; ExpC; PowC 0.25%float; GenPowC [0.5%float; 0.5%float] 0; PsdC 1]%N
            (settings_tl 1000%float).
Ltac uok := (vm_compute; let X := fresh "X" in intro X; discriminate X).
Ltac fin := (vm_compute; reflexivity).
Ltac all tac := repeat (apply Forall_cons; [tac|]); apply Forall_nil.
Lemma example_problem_ok : problem_ok OpsF infinity example_problem.
Proof.
  unfold problem_ok, csc_ok, settings_ok. cbn [example_problem pP pq pA pb pcones pset cm cn colptr rowval nzval].
  split; [split; [uok|split; [uok|split; [all uok|split; [all uok|all fin]]]]|].
  split; [all fin|].
  split; [split; [uok|split; [uok|split; [all uok|split; [all uok|all fin]]]]|].
  split; [all fin|].
  split.
  - apply Forall_cons; [uok|]. apply Forall_cons; [uok|]. apply Forall_cons; [uok|].
    apply Forall_cons; [exact I|]. apply Forall_cons; [fin|].
    apply Forall_cons; [split; [all fin|uok]|]. apply Forall_cons; [uok|]. apply Forall_nil.
  - split; [vm_compute; reflexivity|].
    repeat (apply Forall_cons; [first [exact I | fin | uok]|]). apply Forall_nil.
Qed.
Lemma example_settings_user_ok : settings_user_ok OpsF infinity FMAX (settings_tl infinity).
Proof.
  split; [vm_compute; reflexivity|]. split.
  - repeat (constructor; [vm_compute; try reflexivity; try exact I; try (intro X; discriminate X)|]). constructor.
  - left. vm_compute. reflexivity.
Qed.
