(** C19 proofs, part 1: load (totality, override), collapse, save arithmetic. *)
From Coq Require Import List ZArith NArith String Bool Floats Lia.
Import ListNotations.
Require Import Clarabel.Base.Ops Clarabel.Json.Model Clarabel.Json.Spec.
Open Scope string_scope.

Lemma string_sites_agree_ok : stmt_string_sites_agree.
Proof. intros s. split; reflexivity. Qed.

Section Load.
Context {T : Type} (O : Ops T) (finf fmax : T).

Lemma validate_solver_new p :
  validate O finf p = true -> solver_new O finf p = LoadOk p.
Proof.
  unfold validate. intros H.
  repeat (apply andb_prop in H; let H' := fresh "V" in destruct H as [H H']).
  unfold solver_new, check_dimensions_ok.
  apply N.eqb_eq in V8, V7, V6, V5, V4.
  rewrite V8, V4, V7, V5, V6, !N.eqb_refl. cbn [andb negb].
  rewrite (proj1 (string_sites_agree_ok _)) in V1.
  rewrite V3, V, V1. cbn [negb]. reflexivity.
Qed.

Lemma load_total_no_panic_ok override j : load O finf fmax override j <> LoadPanic.
Proof.
  unfold load. destruct (decode O finf j) as [p|]; [|discriminate].
  cbv zeta. destruct (validate O finf _) eqn:V; [|discriminate].
  rewrite (validate_solver_new _ V). discriminate.
Qed.

Lemma load_ok_inv override j p :
  load O finf fmax override j = LoadOk p ->
  exists q, decode O finf j = Ok q /\
            p = with_settings q (choose override (desanitize O finf fmax (pset q))) /\
            validate O finf p = true.
Proof.
  unfold load. destruct (decode O finf j) as [q|]; [|discriminate].
  cbv zeta. destruct (validate O finf _) eqn:V; [|discriminate].
  rewrite (validate_solver_new _ V). intros H. injection H as <-.
  exists q. auto.
Qed.

Lemma override_wins_ok o j p : load O finf fmax (Some o) j = LoadOk p -> pset p = o.
Proof.
  intros H. apply load_ok_inv in H. destruct H as (q & _ & -> & _). reflexivity.
Qed.

Lemma stored_settings_used_ok j p q :
  decode O finf j = Ok q -> load O finf fmax None j = LoadOk p ->
  pset p = desanitize O finf fmax (pset q).
Proof.
  intros D H. apply load_ok_inv in H. destruct H as (q' & D' & -> & _).
  rewrite D in D'. injection D' as <-. reflexivity.
Qed.

Lemma load_ok_valid_ok override j p :
  load O finf fmax override j = LoadOk p ->
  validate O finf p = true /\ check_dimensions_ok p = true.
Proof.
  intros H. apply load_ok_inv in H. destruct H as (q & _ & _ & V). split; [exact V|].
  pose proof (validate_solver_new _ V) as S. unfold solver_new in S.
  destruct (check_dimensions_ok p); [reflexivity|discriminate].
Qed.
Lemma load_validates_effective_settings_ok override j q :
  decode O finf j = Ok q ->
  let eff := choose override (desanitize O finf fmax (pset q)) in
  load O finf fmax override j
  = if validate O finf (with_settings q eff) then LoadOk (with_settings q eff) else LoadErr.
Proof.
  intros D eff. unfold load. rewrite D. cbv zeta. fold eff.
  destruct (validate O finf (with_settings q eff)) eqn:V; [|reflexivity].
  apply validate_solver_new. exact V.
Qed.
Lemma override_ignores_stored_settings_ok o j j' q q' :
  decode O finf j = Ok q -> decode O finf j' = Ok q' ->
  with_settings q o = with_settings q' o ->
  load O finf fmax (Some o) j = load O finf fmax (Some o) j'.
Proof.
  intros D D' E.
  rewrite (load_validates_effective_settings_ok (Some o) j q D),
          (load_validates_effective_settings_ok (Some o) j' q' D').
  cbn [choose]. rewrite E. reflexivity.
Qed.

Lemma load_ok_consumers_accept_ok override j p :
  load O finf fmax override j = LoadOk p ->
  consumer_solve_method_ok (get_s O finf (pset p) "direct_solve_method") = true
  /\ consumer_merge_method_ok (get_s O finf (pset p) "chordal_decomposition_merge_method") = true
  /\ get_b O finf (pset p) "direct_kkt_solver" = true.
Proof.
  intros H. apply load_ok_inv in H. destruct H as (q & _ & _ & V). unfold validate in V.
  repeat (apply andb_prop in V; let V' := fresh "W" in destruct V as [V V']).
  rewrite <- (proj1 (string_sites_agree_ok _)), <- (proj2 (string_sites_agree_ok _)). auto.
Qed.
End Load.

(** ** collapse *)
Section Collapse.
Context {T : Type}.
Notation cone := (cone (T:=T)).

Definition accN (acc : option N) : N := match acc with Some t => t | None => 0%N end.
Definition sumv (cs : list cone) : N := fold_right (fun c a => nvars c + a)%N 0%N cs.

Lemma sumv_cons (c : cone) r : sumv (c :: r) = (nvars c + sumv r)%N.
Proof. reflexivity. Qed.
Lemma sumv_nil : sumv (@nil cone) = 0%N.
Proof. reflexivity. Qed.
Lemma total_nvars_from (cs : list cone) a :
  fold_left (fun acc c => acc + nvars c)%N cs a = (a + sumv cs)%N.
Proof.
  revert a; induction cs as [|c r IH]; intros a; cbn [fold_left]; rewrite ?sumv_cons, ?sumv_nil; [lia|].
  rewrite IH. lia.
Qed.
Lemma total_nvars_sumv (cs : list cone) : total_nvars cs = sumv cs.
Proof. unfold total_nvars. rewrite total_nvars_from. lia. Qed.
Lemma sumv_app (a b : list cone) : sumv (a ++ b) = (sumv a + sumv b)%N.
Proof. induction a as [|x a IH]; cbn [app]; rewrite ?sumv_cons, ?sumv_nil; lia. Qed.

Lemma collapsible_nvars (c : cone) d : collapsible c = Some d -> nvars c = d.
Proof.
  destruct c as [x|x|x| |a|a x|x]; cbn [collapsible nvars]; try discriminate.
  - intros H; injection H as <-; reflexivity.
  - destruct x as [|p]; [discriminate|]. destruct p; try discriminate. intros H; injection H as <-; reflexivity.
  - destruct x as [|p]; [discriminate|]. destruct p; try discriminate. intros H; injection H as <-. reflexivity.
Qed.

Lemma collapse_go_sum (cs : list cone) acc :
  sumv (collapse_go acc cs) = (accN acc + sumv cs)%N.
Proof.
  revert acc; induction cs as [|c r IH]; intros acc; cbn [collapse_go]; rewrite ?sumv_cons, ?sumv_nil.
  - destruct acc; cbn [flush accN]; rewrite ?sumv_cons, ?sumv_nil; cbn [nvars]; lia.
  - destruct (nvars c =? 0)%N eqn:E.
    + apply N.eqb_eq in E. rewrite IH, E. lia.
    + destruct (collapsible c) as [d|] eqn:C.
      * rewrite IH. apply collapsible_nvars in C. rewrite C. destruct acc; cbn [accN]; lia.
      * rewrite sumv_app, sumv_cons, IH.
        destruct acc; cbn [flush accN]; rewrite ?sumv_cons, ?sumv_nil; cbn [nvars]; lia.
Qed.

Lemma collapse_nvars_ok (cs : list cone) : total_nvars (collapse cs) = total_nvars cs.
Proof. rewrite !total_nvars_sumv. unfold collapse. rewrite collapse_go_sum. cbn [accN]. lia. Qed.

Notation nf := (@cones_normal T).

Lemma collapse_go_nf_id (cs : list cone) :
  nf cs ->
  collapse_go None cs = cs /\
  (forall t, t <> 0%N -> match cs with NonnegC _ :: _ => True | _ => collapse_go (Some t) cs = NonnegC t :: cs end).
Proof.
  induction cs as [|c r IH]; intros H.
  - split; [reflexivity|]. intros t _. reflexivity.
  - destruct H as (Hnz & Hc & Hr). specialize (IH Hr). destruct IH as [IH0 IH1].
    apply N.eqb_neq in Hnz.
    split.
    + cbn [collapse_go]. rewrite Hnz.
      destruct c as [x|x|x| |a|a x|x]; cbn [collapsible] in *;
        try (rewrite Hc; cbn [flush app]; rewrite IH0; reflexivity);
        try (cbn [flush app]; rewrite IH0; reflexivity).
      (* NonnegC x *)
      cbn [nvars] in Hnz. apply N.eqb_neq in Hnz.
      specialize (IH1 x Hnz). destruct r as [|c' r']; [reflexivity|].
      destruct c'; try (rewrite IH1; reflexivity). contradiction.
    + intros t Ht. destruct c as [x|x|x| |a|a x|x]; try exact I;
        cbn [collapse_go]; rewrite Hnz; cbn [collapsible] in *;
        try (rewrite Hc; cbn [flush app]; rewrite IH0; reflexivity);
        try (cbn [flush app]; rewrite IH0; reflexivity).
Qed.

Lemma accN_pos_inv (acc : option N) : (match acc with Some t => t <> 0%N | None => True end) -> True.
Proof. auto. Qed.

Definition head_not_nn (cs : list cone) : Prop := match cs with NonnegC _ :: _ => False | _ => True end.

Lemma collapse_go_nf (cs : list cone) acc :
  (match acc with Some t => t <> 0%N | None => True end) ->
  nf (collapse_go acc cs) /\ (acc = None -> True).
Proof.
  revert acc; induction cs as [|c r IH]; intros acc Hacc; split; auto.
  - cbn [collapse_go]. destruct acc; cbn [flush nf nvars]; auto.
  - cbn [collapse_go]. destruct (nvars c =? 0)%N eqn:E.
    + apply IH; exact Hacc.
    + apply N.eqb_neq in E. destruct (collapsible c) as [d|] eqn:C.
      * apply IH. pose proof (collapsible_nvars _ _ C) as Hd. rewrite Hd in E. destruct acc; lia.
      * pose proof (proj1 (IH None I)) as Hr.
        assert (Hc : nf (c :: collapse_go None r)).
        { cbn [nf]. split; [exact E|]. split; [|exact Hr].
          destruct c; cbn [collapsible] in C; try exact C; try reflexivity. discriminate. }
        destruct acc as [t|]; cbn [flush app]; [|exact Hc].
        cbn [nf]. split; [cbn [nvars]; exact Hacc|]. split; [|exact Hc].
        destruct c; cbn [collapsible] in C; try exact I. discriminate.
Qed.

Lemma collapse_idempotent_ok (cs : list cone) : collapse (collapse cs) = collapse cs.
Proof.
  unfold collapse. apply collapse_go_nf_id. apply (collapse_go_nf cs None I).
Qed.
Lemma collapse_identity_iff_ok (cs : list cone) : collapse cs = cs <-> cones_normal cs.
Proof.
  split.
  - intros E. rewrite <- E. unfold collapse. apply (collapse_go_nf cs None I).
  - intros H. unfold collapse. apply collapse_go_nf_id. exact H.
Qed.
End Collapse.

(** ** witnesses (binary64) *)
Definition tiny_csc (v : float) : json (T:=float) :=
  JObj [("m", JInt 1); ("n", JInt 1); ("colptr", JArr [JInt 0; JInt 1]); ("rowval", JArr [JInt 0]);
        ("nzval", JArr [JFlt v])].
(** the file of tests/json_io.rs with the cone dimension changed from 1 to 2 *)
Definition f2_witness : json (T:=float) :=
  JObj [("P", tiny_csc 2%float); ("q", JArr [JFlt 1%float]); ("A", tiny_csc (-1)%float);
        ("b", JArr [JFlt (-2)%float]); ("cones", JArr [JObj [("NonnegativeConeT", JInt 2)]])].
Lemma load_panics_refuted_ok : stmt_load_panics_refuted.
Proof. exists f2_witness. vm_compute. reflexivity. Qed.
(** the same file is an error for the repaired load *)
Lemma f2_witness_now_err :
  load OpsF infinity 0x1.fffffffffffffp+1023%float None f2_witness = LoadErr.
Proof. vm_compute. reflexivity. Qed.

Lemma cap_b_identity_ok {T} (O : Ops T) (infbound : T) (b : list T) :
  Forall (fun x => ltb O infbound x = false) b -> cap_b O infbound b = b.
Proof.
  intros F. unfold cap_b. induction F as [|x l Hx F IH]; cbn [map]; [reflexivity|].
  rewrite Hx, IH. reflexivity.
Qed.
Lemma b_literal_refuted_ok : stmt_b_literal_refuted.
Proof.
  exists [1e300%float]. intros H. vm_compute in H. injection H as H.
  apply (f_equal Prim2SF) in H. vm_compute in H. discriminate H.
Qed.

Lemma cones_literal_refuted_ok : stmt_cones_literal_refuted.
Proof.
  exists [NonnegC 2%N; ZeroC 0%N; NonnegC 3%N; SocC 1%N]. split; [vm_compute; discriminate|].
  vm_compute. reflexivity.
Qed.
