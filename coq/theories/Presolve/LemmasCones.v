(** Proofs of the cone-list C09 statements: new_collapsed keeps every row's meaning and leaves
    a clean list; reduce_cones deletes exactly the dropped rows. *)
From Coq Require Import List Arith Lia Bool.
Import ListNotations.
Require Import Clarabel.Base.Ops Clarabel.Csc.Model Clarabel.Csc.Spec Clarabel.Csc.LemmasStruct.
Require Import Clarabel.Presolve.Model Clarabel.Presolve.Spec Clarabel.Presolve.Lemmas.

Definition is_rnn (t : rowtag) : bool := match t with RNN => true | _ => false end.
Definition clean (c : cone) : Prop := nvars c <> 0 /\ c <> SOC 1 /\ c <> PSDC 1.

Lemma rowsig_cons c cs : rowsig (c :: cs) = cone_rows c ++ rowsig cs.
Proof. reflexivity. Qed.

Lemma rowsig_app a b : rowsig (a ++ b) = rowsig a ++ rowsig b.
Proof. unfold rowsig. apply flat_map_app. Qed.

Lemma collapsible_nvars c d : collapsible c = Some d -> d = nvars c.
Proof.
  destruct c as [n|n|n| | |d1 d2|n]; cbn [collapsible]; try discriminate.
  - intros H. injection H as H. subst d. reflexivity.
  - destruct n as [|[|n]]; try discriminate. intros H. injection H as H. subst d. reflexivity.
  - destruct n as [|[|n]]; try discriminate. intros H. injection H as H. subst d. reflexivity.
Qed.

Lemma collapsible_none_not_nn c : collapsible c = None -> is_nn c = false.
Proof. destruct c; cbn; try reflexivity. discriminate. Qed.

Lemma not_nn_clean_collapsible c : is_nn c = false -> c <> SOC 1 -> c <> PSDC 1 -> collapsible c = None.
Proof.
  destruct c as [n|n|n| | |d1 d2|n]; cbn; intros H H1 H2; try reflexivity; try discriminate.
  - destruct n as [|[|n]]; try reflexivity. contradiction.
  - destruct n as [|[|n]]; try reflexivity. contradiction.
Qed.

Lemma cone_rows_length c : length (cone_rows c) = nvars c.
Proof.
  unfold cone_rows. destruct (collapsible c) as [d|] eqn:E.
  - rewrite repeat_length. apply collapsible_nvars. exact E.
  - rewrite map_length, seq_length. reflexivity.
Qed.

Lemma cone_rows_empty c : nvars c = 0 -> cone_rows c = [].
Proof. intros H. apply length_zero_iff_nil. rewrite cone_rows_length. exact H. Qed.

Lemma rowsig_length cs : length (rowsig cs) = total cs.
Proof.
  induction cs as [|c cs IH]; [reflexivity|].
  rewrite rowsig_cons, app_length, cone_rows_length, IH, total_cons. reflexivity.
Qed.

Lemma cone_rows_nn n : cone_rows (NNC n) = repeat RNN n.
Proof. reflexivity. Qed.

(** * new_collapsed *)
Lemma collapse_run_spec cs : forall acc tot rest,
  collapse_run cs acc = (tot, rest) ->
  exists pre, cs = pre ++ rest /\ tot = acc + total pre /\ rowsig pre = repeat RNN (total pre) /\
              match rest with [] => True | c :: _ => nvars c <> 0 /\ collapsible c = None end.
Proof.
  induction cs as [|c r IH]; intros acc tot rest H.
  - cbn in H. injection H as H1 H2. subst tot rest. exists []. cbn. repeat split; lia.
  - cbn [collapse_run] in H. destruct (Nat.eqb_spec (nvars c) 0) as [E0|E0].
    + destruct (IH _ _ _ H) as [pre [H1 [H2 [H3 H4]]]]. exists (c :: pre).
      rewrite total_cons, rowsig_cons, cone_rows_empty, E0 by exact E0. cbn [app Nat.add].
      repeat split; try assumption. rewrite H1. reflexivity.
    + destruct (collapsible c) as [d|] eqn:Ec.
      * destruct (IH _ _ _ H) as [pre [H1 [H2 [H3 H4]]]]. exists (c :: pre).
        pose proof (collapsible_nvars c d Ec) as Hd.
        rewrite total_cons, rowsig_cons. unfold cone_rows at 1. rewrite Ec, H3, <- repeat_app, <- Hd.
        repeat split; try assumption; [rewrite H1; reflexivity | lia].
      * injection H as H1 H2. subst tot rest. exists []. cbn. repeat split; try lia; assumption.
Qed.

Lemma ncf_nil f : new_collapsed_fuel f [] = [].
Proof. destruct f; reflexivity. Qed.

Lemma ncf_head f c r : nvars c <> 0 -> collapsible c = None ->
  new_collapsed_fuel (S f) (c :: r) = c :: new_collapsed_fuel f r.
Proof.
  intros H0 Hc. cbn [new_collapsed_fuel]. destruct (Nat.eqb_spec (nvars c) 0) as [E|E]; [contradiction|].
  rewrite Hc. reflexivity.
Qed.

Lemma no_adjacent_nn_cons a l :
  (match l with [] => True | b :: _ => is_nn a = true -> is_nn b = false end) ->
  no_adjacent_nn l -> no_adjacent_nn (a :: l).
Proof. destruct l as [|b l]; intros H1 H2; cbn; [exact I|]. split; assumption. Qed.

Lemma ncf_spec : forall fuel cs, length cs <= fuel ->
  let cs' := new_collapsed_fuel fuel cs in
  rowsig cs' = rowsig cs /\ Forall clean cs' /\ no_adjacent_nn cs'.
Proof.
  induction fuel as [|f IH]; intros cs Hlen.
  - destruct cs; [|cbn in Hlen; lia]. cbn. repeat split. constructor.
  - destruct cs as [|c r]; [cbn; repeat split; constructor|].
    cbn [length] in Hlen. cbn zeta. cbn [new_collapsed_fuel].
    destruct (Nat.eqb_spec (nvars c) 0) as [E0|E0].
    + destruct (IH r) as [H1 [H2 H3]]; [lia|]. rewrite rowsig_cons, cone_rows_empty by exact E0.
      repeat split; assumption.
    + destruct (collapsible c) as [d|] eqn:Ec.
      * destruct (collapse_run r d) as [tot rest] eqn:Er.
        destruct (collapse_run_spec r d tot rest Er) as [pre [Hr [Htot [Hsig Hrest]]]].
        assert (Hl : length rest <= f).
        { subst r. rewrite app_length in Hlen. lia. }
        destruct (IH rest Hl) as [H1 [H2 H3]]. pose proof (collapsible_nvars c d Ec) as Hd.
        split; [|split].
        -- rewrite !rowsig_cons, cone_rows_nn, H1. unfold cone_rows. rewrite Ec, Hr, rowsig_app, Hsig, Htot.
           rewrite repeat_app, <- !app_assoc. reflexivity.
        -- constructor; [|exact H2]. unfold clean. cbn [nvars]. repeat split; try discriminate. lia.
        -- apply no_adjacent_nn_cons; [|exact H3]. destruct rest as [|c' r'].
           ++ rewrite ncf_nil. exact I.
           ++ destruct Hrest as [Hc1 Hc2]. destruct f as [|f']; [cbn in Hl; lia|].
              rewrite ncf_head by assumption. intros _. apply collapsible_none_not_nn. exact Hc2.
      * destruct (IH r) as [H1 [H2 H3]]; [lia|]. split; [|split].
        -- rewrite !rowsig_cons, H1. reflexivity.
        -- constructor; [|exact H2]. unfold clean. repeat split; try exact E0; intros ->; discriminate.
        -- apply no_adjacent_nn_cons; [|exact H3].
           rewrite (collapsible_none_not_nn c Ec). destruct (new_collapsed_fuel f r); [exact I|discriminate].
Qed.

Lemma collapsed_ok : stmt_collapsed.
Proof.
  intros cs cs'. destruct (ncf_spec (length cs) cs (le_n _)) as [H1 [H2 H3]].
  fold (new_collapsed cs) in H1, H2, H3. fold cs' in H1, H2, H3.
  split; [exact H1|]. split; [rewrite <- !rowsig_length, H1; reflexivity|]. split; [exact H2|exact H3].
Qed.

Lemma map_const_seq {X Y} (f : nat -> X) (g : X -> Y) (y : Y) a n :
  (forall i, g (f i) = y) -> map g (map f (seq a n)) = repeat y n.
Proof.
  intros H. revert a. induction n as [|n IH]; intros a; [reflexivity|].
  cbn [seq map repeat]. rewrite H, IH. reflexivity.
Qed.

Lemma map_repeat {X Y} (g : X -> Y) (x : X) n : map g (repeat x n) = repeat (g x) n.
Proof. induction n as [|n IH]; [reflexivity|]. cbn [repeat map]. rewrite IH. reflexivity. Qed.

Lemma nn_rows_clean cs : Forall clean cs -> nn_rows cs = map is_rnn (rowsig cs).
Proof.
  induction cs as [|c cs IH]; intros H; [reflexivity|].
  inversion H as [|c0 cs0 Hc Hcs]; subst. rewrite nn_rows_cons, rowsig_cons, map_app, IH by exact Hcs.
  f_equal. destruct Hc as [H0 [H1 H2]]. destruct (is_nn c) eqn:En.
  - destruct c; try discriminate. rewrite cone_rows_nn, map_repeat. reflexivity.
  - unfold cone_rows. rewrite (not_nn_clean_collapsible c En H1 H2).
    rewrite (map_const_seq (RIn c) is_rnn false); reflexivity.
Qed.

Lemma collapsed_nn_rows_ok : stmt_collapsed_nn_rows.
Proof.
  intros cs. destruct (collapsed_ok cs) as [H1 [_ [H2 _]]]. cbn zeta in H1, H2.
  rewrite nn_rows_clean, H1; [reflexivity|]. exact H2.
Qed.

(** * reduce_cones *)
Lemma drops_only_nn_cons c cs keep :
  length keep = total (c :: cs) -> drops_only_nn (c :: cs) keep ->
  (is_nn c = false -> firstn (nvars c) keep = repeat true (nvars c)) /\
  drops_only_nn cs (skipn (nvars c) keep).
Proof.
  intros Hl Hd. rewrite total_cons in Hl. split.
  - intros Hn. apply (nth_ext _ _ true true).
    + rewrite firstn_length, repeat_length. lia.
    + intros i Hi. rewrite firstn_length in Hi.
      assert (Hik : i < nvars c) by lia.
      rewrite nth_firstn_lt by exact Hik. rewrite nth_repeat_lt by exact Hik.
      destruct (nth i keep true) eqn:E; [reflexivity|].
      specialize (Hd i E). rewrite nn_rows_cons, app_nth1 in Hd by (rewrite repeat_length; exact Hik).
      rewrite nth_repeat_lt, Hn in Hd by exact Hik. discriminate.
  - intros i Hi. rewrite nth_skipn_plus in Hi. specialize (Hd _ Hi).
    rewrite nn_rows_cons, app_nth2 in Hd by (rewrite repeat_length; lia).
    rewrite repeat_length in Hd. replace (nvars c + i - nvars c) with i in Hd by lia. exact Hd.
Qed.

Lemma reduce_cones_spec cs : forall keep,
  length keep = total cs -> drops_only_nn cs keep ->
  (forall c, In c cs -> is_nn c = false -> collapsible c = None) ->
  total (reduce_cones cs keep) = count_true keep /\
  rowsig (reduce_cones cs keep) = select (rowsig cs) keep /\
  (Forall (fun c => nvars c <> 0) cs -> Forall (fun c => nvars c <> 0) (reduce_cones cs keep)).
Proof.
  induction cs as [|c cs IH]; intros keep Hl Hd Hc.
  - destruct keep; [|discriminate]. cbn. repeat split; auto.
  - destruct (drops_only_nn_cons c cs keep Hl Hd) as [Hh Ht]. rewrite total_cons in Hl.
    assert (Hfl : length (firstn (nvars c) keep) = nvars c) by (rewrite firstn_length; lia).
    assert (Hsl : length (skipn (nvars c) keep) = total cs) by (rewrite skipn_length; lia).
    destruct (IH (skipn (nvars c) keep) Hsl Ht) as [I1 [I2 I3]].
    { intros c' Hin. apply Hc. right. exact Hin. }
    assert (Hct : count_true keep = count_true (firstn (nvars c) keep) + count_true (skipn (nvars c) keep)).
    { rewrite <- count_true_app, firstn_skipn. reflexivity. }
    assert (Hsel : select (rowsig (c :: cs)) keep =
                   select (cone_rows c) (firstn (nvars c) keep) ++ select (rowsig cs) (skipn (nvars c) keep)).
    { rewrite <- (firstn_skipn (nvars c) keep) at 1. rewrite rowsig_cons.
      apply select_app. rewrite cone_rows_length, Hfl. reflexivity. }
    cbn [reduce_cones]. destruct (is_nn c) eqn:En.
    + destruct c as [n|n|n| | |d1 d2|n]; try discriminate. cbn [nvars] in *.
      rewrite Hsel, cone_rows_nn, select_repeat by exact Hfl.
      destruct (Nat.eqb_spec (count_true (firstn n keep)) 0) as [E0|E0].
      * rewrite E0 in *. cbn [repeat app]. split; [lia|]. split; [exact I2|].
        intros HF. apply I3. inversion HF; assumption.
      * rewrite total_cons, rowsig_cons, cone_rows_nn, I2. cbn [nvars]. split; [lia|]. split; [reflexivity|].
        intros HF. constructor; [cbn [nvars]; exact E0|]. apply I3. inversion HF; assumption.
    + rewrite total_cons, rowsig_cons, I2, Hsel, (Hh eq_refl).
      assert (Hsa : select (cone_rows c) (repeat true (nvars c)) = cone_rows c).
      { rewrite <- (cone_rows_length c). apply select_all_true. }
      rewrite Hsa.
      rewrite Hct, (Hh eq_refl), count_true_repeat_true. split; [lia|]. split; [reflexivity|].
      intros HF. inversion HF as [|c0 cs0 H0 HF']; subst. constructor; [exact H0|]. apply I3. exact HF'.
Qed.

Lemma reduce_cones_ok : stmt_reduce_cones.
Proof. intros cs keep H1 H2 H3. apply reduce_cones_spec; assumption. Qed.

(** the reduced list of a clean list is clean: no empty cone, no SOC(1)/PSD(1); non-NN cones
    are untouched and stay in order *)
Lemma reduce_cones_clean cs : forall keep,
  Forall clean cs -> Forall clean (reduce_cones cs keep).
Proof.
  induction cs as [|c cs IH]; intros keep H; [constructor|].
  inversion H as [|c0 cs0 Hc Hcs]; subst. cbn [reduce_cones]. destruct (is_nn c).
  - destruct (Nat.eqb_spec (count_true (firstn (nvars c) keep)) 0) as [E|E]; [apply IH; exact Hcs|].
    constructor; [|apply IH; exact Hcs]. unfold clean. cbn [nvars]. repeat split; try discriminate. exact E.
  - constructor; [exact Hc|apply IH; exact Hcs].
Qed.

Lemma reduce_cones_non_nn cs : forall keep,
  filter (fun c => negb (is_nn c)) (reduce_cones cs keep) = filter (fun c => negb (is_nn c)) cs.
Proof.
  induction cs as [|c cs IH]; intros keep; [reflexivity|].
  cbn [reduce_cones]. destruct (is_nn c) eqn:En.
  - cbn [filter]. rewrite En. cbn [negb].
    destruct (count_true (firstn (nvars c) keep) =? 0); [apply IH|]. cbn [filter is_nn negb]. apply IH.
  - cbn [filter]. rewrite En. cbn [negb]. f_equal. apply IH.
Qed.
