(** Executable model of the presolve step that removes "infinite" inequality rows
    (src/solver/implementations/default/presolver.rs, problemdata.rs:60-131,
    supportedcone.rs:105-161 new_collapsed, src/utils/infbounds.rs).  No proofs here. *)
From Coq Require Import List Arith ZArith Lia Bool.
Import ListNotations.
Require Import Clarabel.Base.Ops Clarabel.Csc.Model.

(** user-facing cone kinds; parameters that do not matter for presolve are dropped
    (power-cone exponent), generalised power cones keep their two dimensions *)
Inductive cone : Set :=
| ZeroC (n : nat) | NNC (n : nat) | SOC (n : nat) | ExpC | PowC | GenPowC (d1 d2 : nat) | PSDC (n : nat).

Definition tri (n : nat) : nat := n * (n + 1) / 2.
Definition nvars (c : cone) : nat :=
  match c with
  | ZeroC n | NNC n | SOC n => n
  | ExpC | PowC => 3
  | GenPowC d1 d2 => d1 + d2
  | PSDC n => tri n
  end.
Definition is_nn (c : cone) : bool := match c with NNC _ => true | _ => false end.

(** cones that may start or continue a run collapsed into one nonnegative cone *)
Definition collapsible (c : cone) : option nat :=
  match c with
  | NNC n => Some n
  | SOC 1 => Some 1
  | PSDC 1 => Some 1
  | _ => None
  end.

(** [collapse_run cs acc] consumes the longest prefix of [cs] made of empty or collapsible
    cones, returning the accumulated dimension and the rest (supportedcone.rs:111-136) *)
Fixpoint collapse_run (cs : list cone) (acc : nat) : nat * list cone :=
  match cs with
  | [] => (acc, [])
  | c :: r =>
      if nvars c =? 0 then collapse_run r acc
      else match collapsible c with
           | Some d => collapse_run r (acc + d)
           | None => (acc, cs)
           end
  end.

(** fuel = length of the list; every round consumes at least one cone *)
Fixpoint new_collapsed_fuel (fuel : nat) (cs : list cone) : list cone :=
  match fuel with
  | 0 => []
  | S f =>
      match cs with
      | [] => []
      | c :: r =>
          if nvars c =? 0 then new_collapsed_fuel f r
          else match collapsible c with
               | Some d => let '(tot, rest) := collapse_run r d in
                           NNC tot :: new_collapsed_fuel f rest
               | None => c :: new_collapsed_fuel f r
               end
      end
  end.
Definition new_collapsed (cs : list cone) : list cone := new_collapsed_fuel (length cs) cs.

Section Presolve.
Context {T : Type} (O : Ops T).

(** the contracted threshold: (1 - 10 eps) * infbound, eps = 2^-52 given as a scalar *)
Definition threshold (eps ten infbound : T) : T :=
  mul O (sub O (one O) (mul O eps ten)) infbound.

(** keep-map over the (collapsed) cone list (presolver.rs:153-200) *)
Fixpoint keep_map (cs : list cone) (b : list T) (thr : T) : list bool :=
  match cs with
  | [] => map (fun _ => true) b
  | c :: r =>
      let k := nvars c in
      let here := firstn k b in
      (if is_nn c then map (fun x => negb (ltb O thr x)) here else map (fun _ => true) here)
        ++ keep_map r (skipn k b) thr
  end.

Definition count_true (l : list bool) : nat := countb (fun x => x) l.
Definition reduced (keep : list bool) : bool := negb (forallb (fun x => x) keep).

(** reduce_cones (presolver.rs:100-128) *)
Fixpoint reduce_cones (cs : list cone) (keep : list bool) : list cone :=
  match cs with
  | [] => []
  | c :: r =>
      let k := nvars c in
      let here := firstn k keep in
      let rest := reduce_cones r (skipn k keep) in
      if is_nn c then
        (if count_true here =? 0 then rest else NNC (count_true here) :: rest)
      else c :: rest
  end.

Fixpoint select {X} (v : list X) (keep : list bool) : list X :=
  match v, keep with
  | x :: v', k :: keep' => if k then x :: select v' keep' else select v' keep'
  | _, _ => []
  end.

Definition cap (infbound : T) (b : list T) : list T :=
  map (fun x => omin O x infbound) b.

(** The internal problem (A, b, cones) built by DefaultProblemData::new from the user's
    (A, b, cones) with presolve enabled/disabled (no chordal decomposition). *)
Record internal := mkInternal
  { iA : @csc T; ib : list T; icones : list cone; ikeep : option (list bool) }.

Definition build (presolve_enable : bool) (eps ten infbound : T)
           (A : @csc T) (b : list T) (cones : list cone) : internal :=
  let cs := new_collapsed cones in
  let keep := keep_map cs b (threshold eps ten infbound) in
  if presolve_enable && reduced keep then
    mkInternal (select_rows A keep) (cap infbound (select b keep)) (reduce_cones cs keep) (Some keep)
  else
    mkInternal A (cap infbound b) cs None.

(** reverse_presolve (presolver.rs:130-150): expand reduced s,z to the user's length *)
Fixpoint expand (keep : list bool) (v : list T) (fill : T) : list T :=
  match keep with
  | [] => []
  | true :: k' => match v with
                  | x :: v' => x :: expand k' v' fill
                  | [] => fill :: expand k' [] fill   (* unreachable when lengths agree *)
                  end
  | false :: k' => fill :: expand k' v fill
  end.
Definition reverse_s (keep : option (list bool)) (infbound : T) (s : list T) : list T :=
  match keep with Some k => expand k s infbound | None => s end.
Definition reverse_z (keep : option (list bool)) (z : list T) : list T :=
  match keep with Some k => expand k z (zero O) | None => z end.

End Presolve.

(** ** the module-level infinity bound as a state cell (utils/infbounds.rs) *)
Section Bound.
Context {T : Type}.
Inductive bop := SetInf (v : T) | DefaultInf | Build (id : nat) | Use (id : nat).
Record bstate := mkB { cell : T; built : list (nat * T) }.
Definition bstep (dflt : T) (s : bstate) (o : bop) : bstate * option T :=
  match o with
  | SetInf v => (mkB v (built s), None)
  | DefaultInf => (mkB dflt (built s), None)
  | Build id => (mkB (cell s) ((id, cell s) :: built s), Some (cell s))
  | Use id => (s, option_map snd (find (fun p => fst p =? id) (built s)))
  end.
Fixpoint brun (dflt : T) (s : bstate) (ops : list bop) : list (option T) :=
  match ops with
  | [] => []
  | o :: r => let '(s', out) := bstep dflt s o in out :: brun dflt s' r
  end.
End Bound.

(** ** the process-global bound together with several live solver objects
    (utils/infbounds.rs: an atomic cell; DefaultProblemData::new reads it; Presolver keeps the value
    it read; reverse_presolve uses the kept value; update_b never reads it).
    Equilibration is off in this model (update_b then stores the new vector as it is). *)
Section Global.
Context {T : Type} (O : Ops T).
Record solverM := mkSolver { sv_bound : T; sv_m : nat; sv_int : @internal T }.
Record gstate := mkG { g_cell : T; g_solvers : list solverM }.
Inductive gop :=
| GSet (v : T) | GDefault | GGet
| GNew (pe : bool) (A : @csc T) (b : list T) (cones : list cone)
| GSolve (k : nat)
| GUpdateB (k : nat) (nb : list T).
Inductive gout :=
| ONone
| OGet (v : T)
| ONew (keep : option (list bool)) (b : list T) (cones : list cone)
| OSolve (keep : list bool) (sfill zfill : T) (b : list T)   (* fill pattern of the returned s, z; internal b *)
| OUpd (accepted : bool) (b : list T)
| ONoSolver.
Definition keep_or_all (I : @internal T) (m : nat) : list bool :=
  match ikeep I with Some k => k | None => repeat true m end.
Definition set_ib (I : @internal T) (nb : list T) : @internal T :=
  mkInternal (iA I) nb (icones I) (ikeep I).
Definition gstep (dflt eps ten : T) (s : gstate) (o : gop) : gstate * gout :=
  match o with
  | GSet v => (mkG v (g_solvers s), ONone)
  | GDefault => (mkG dflt (g_solvers s), ONone)
  | GGet => (s, OGet (g_cell s))
  | GNew pe A b cones =>
      let I := build O pe eps ten (g_cell s) A b cones in
      (mkG (g_cell s) (g_solvers s ++ [mkSolver (g_cell s) (length b) I]),
       ONew (ikeep I) (ib I) (icones I))
  | GSolve k =>
      match nth_error (g_solvers s) k with
      | Some sv => (s, OSolve (keep_or_all (sv_int sv) (sv_m sv)) (sv_bound sv) (zero O) (ib (sv_int sv)))
      | None => (s, ONoSolver)
      end
  | GUpdateB k nb =>
      match nth_error (g_solvers s) k with
      | Some sv =>
          let I := sv_int sv in
          match ikeep I with
          | Some _ => (s, OUpd false (ib I))                       (* PresolveIsActive *)
          | None =>
              if length nb =? 0 then (s, OUpd true (ib I))         (* empty input: no action *)
              else if negb (length nb =? length (ib I)) then (s, OUpd false (ib I))
              else (mkG (g_cell s)
                        (set_nth (g_solvers s) k (mkSolver (sv_bound sv) (sv_m sv) (set_ib I nb))),
                    OUpd true nb)
          end
      | None => (s, ONoSolver)
      end
  end.
Fixpoint grun (dflt eps ten : T) (s : gstate) (ops : list gop) : list gout :=
  match ops with
  | [] => []
  | o :: r => let '(s', out) := gstep dflt eps ten s o in out :: grun dflt eps ten s' r
  end.
Fixpoint gafter (dflt eps ten : T) (s : gstate) (ops : list gop) : gstate :=
  match ops with
  | [] => s
  | o :: r => gafter dflt eps ten (fst (gstep dflt eps ten s o)) r
  end.
End Global.
