(** Semantic reading of cone collapsing: definitions and statements only.
    [collapseD] is [new_collapsed] (supportedcone.rs:105-161) on the parameter-carrying cone type
    [coneD] of Term/Eval.v, so that the cone predicates [InK] / [InKdual] of Term/Spec.v apply;
    [eraseD] forgets the parameters and lands in the cone type of Presolve/Model.v, on which the
    correspondence with the Rust code runs. *)
From Coq Require Import List Arith NArith Bool Reals.
Import ListNotations.
Require Import Clarabel.Base.Ops Clarabel.Base.Dyadic Clarabel.Term.Eval Clarabel.Term.Spec Clarabel.Term.Farkas.
Require Import Clarabel.Presolve.Model.
Local Open Scope nat_scope.

Definition eraseD (k : coneD) : cone :=
  match k with
  | KZero n => ZeroC (N.to_nat n) | KNN n => NNC (N.to_nat n) | KSOC n => SOC (N.to_nat n)
  | KExp => ExpC | KPow _ => PowC
  | KGenPow a d2 => GenPowC (length a) (N.to_nat d2)
  | KPSD n => PSDC (N.to_nat n)
  end.
Definition collapsibleD (k : coneD) : option nat := collapsible (eraseD k).

Fixpoint collapse_runD (cs : list coneD) (acc : nat) : nat * list coneD :=
  match cs with
  | [] => (acc, [])
  | c :: r =>
      if cone_dim c =? 0 then collapse_runD r acc
      else match collapsibleD c with
           | Some d => collapse_runD r (acc + d)
           | None => (acc, cs)
           end
  end.
Fixpoint collapseD_fuel (fuel : nat) (cs : list coneD) : list coneD :=
  match fuel with
  | 0 => []
  | S f =>
      match cs with
      | [] => []
      | c :: r =>
          if cone_dim c =? 0 then collapseD_fuel f r
          else match collapsibleD c with
               | Some d => let '(tot, rest) := collapse_runD r d in
                           KNN (N.of_nat tot) :: collapseD_fuel f rest
               | None => c :: collapseD_fuel f r
               end
      end
  end.
Definition collapseD (cs : list coneD) : list coneD := collapseD_fuel (length cs) cs.

(** the cones that collapsing may touch: empty ones and scalar nonnegativity cones *)
Definition is_runD (k : coneD) : bool :=
  (cone_dim k =? 0) || match collapsibleD k with Some _ => true | None => false end.
(** Term/Spec.v gives no meaning to a generalized power cone without exponents (its [in_cone] is
    [False] because the exponents do not sum to one); such a zero-dimensional cone is excluded *)
Definition cone_wf (k : coneD) : Prop :=
  match k with KGenPow a d2 => length a + N.to_nat d2 <> 0 | _ => True end.

(** [collapseD] is the model of the code, up to the erased parameters *)
Definition stmt_collapseD_erase : Prop :=
  forall K : list coneD, map eraseD (collapseD K) = new_collapsed (map eraseD K).

(** membership in the product cone and in its dual is unchanged, for every vector of the right
    length: SOC(1)/PSD(1) become NN(1), empty cones vanish, adjacent NN cones merge *)
Definition stmt_collapse_sem : Prop :=
  forall (K : list coneD) (v : list R),
    Forall cone_wf K -> length v = cones_dim K ->
    (InK K v <-> InK (collapseD K) v) /\ (InKdual K v <-> InKdual (collapseD K) v).

(** every other cone -- in particular every nonempty zero cone -- survives unchanged, in order;
    nothing but empty and scalar cones is ever absorbed into a nonnegative run *)
Definition stmt_collapse_keeps_others : Prop :=
  forall K : list coneD,
    filter (fun k => negb (is_runD k)) (collapseD K) = filter (fun k => negb (is_runD k)) K.

(** ... and absorbing a zero cone would be wrong: the two product cones differ *)
Definition stmt_zero_not_absorbed : Prop :=
  collapseD [KNN 1; KZero 1; KNN 1] = [KNN 1; KZero 1; KNN 1] /\
  ~ (forall v : list R, InK [KNN 1; KZero 1] v <-> InK [KNN 2] v).
