(** Proofs about the global bound with several live solvers (Spec.v, GlobalStmts) and the
    packaged reverse map. *)
From Coq Require Import List Arith Lia Bool.
Import ListNotations.
Require Import Clarabel.Base.Ops Clarabel.Csc.Model Clarabel.Csc.Spec Clarabel.Csc.LemmasStruct.
Require Import Clarabel.Csc.LemmasAlgBase.
Require Import Clarabel.Presolve.Model Clarabel.Presolve.Spec Clarabel.Presolve.Lemmas.

Lemma nth_error_set_nth {X} (l : list X) : forall k j x,
  nth_error (set_nth l j x) k = if (k =? j) && (j <? length l) then Some x else nth_error l k.
Proof.
  induction l as [|a l IH]; intros k j x.
  - cbn. rewrite andb_false_r. reflexivity.
  - destruct j as [|j]; destruct k as [|k]; cbn [set_nth nth_error Nat.eqb length]; try reflexivity.
    rewrite IH. change (S j <? S (length l)) with (j <? length l). reflexivity.
Qed.

Section G.
Context {T : Type} (O : Ops T).
Variables dflt eps ten : T.
Notation gop := (@gop T).
Notation gstate := (@gstate T).
Notation solverM := (@solverM T).
Notation gstep := (gstep O dflt eps ten).
Notation grun := (grun O dflt eps ten).
Notation gafter := (gafter O dflt eps ten).

Lemma gafter_app (s : gstate) (a b : list gop) : gafter s (a ++ b) = gafter (gafter s a) b.
Proof. revert s. induction a as [|o a IH]; intros s; [reflexivity|]. cbn [app gafter]. apply IH. Qed.

Lemma grun_app (s : gstate) (a b : list gop) : grun s (a ++ b) = grun s a ++ grun (gafter s a) b.
Proof.
  revert s. induction a as [|o a IH]; intros s; [reflexivity|].
  cbn [app grun gafter]. destruct (gstep s o) as [s' out]. cbn [fst]. rewrite IH. reflexivity.
Qed.

Lemma grun_length (s : gstate) (a : list gop) : length (grun s a) = length a.
Proof.
  revert s. induction a as [|o a IH]; intros s; [reflexivity|].
  cbn [grun]. destruct (gstep s o). cbn [length]. rewrite IH. reflexivity.
Qed.

Lemma grun_nth_app (s : gstate) (a : list gop) (o : gop) (b : list gop) :
  nth (length a) (grun s (a ++ o :: b)) ONone = snd (gstep (gafter s a) o).
Proof.
  rewrite grun_app, app_nth2 by (rewrite grun_length; lia). rewrite grun_length, Nat.sub_diag.
  cbn [grun]. destruct (gstep (gafter s a) o). reflexivity.
Qed.

Lemma gstep_cell (s : gstate) (o : gop) :
  g_cell (fst (gstep s o)) = gcell_after dflt (g_cell s) [o].
Proof.
  destruct o as [v| | |pe A b cones|k|k nb]; cbn [gstep fst g_cell gcell_after]; try reflexivity.
  - destruct (nth_error (g_solvers s) k); reflexivity.
  - destruct (nth_error (g_solvers s) k) as [sv|]; [|reflexivity].
    destruct (ikeep (sv_int sv)); [reflexivity|]. destruct (length nb =? 0); [reflexivity|].
    destruct (negb (length nb =? length (ib (sv_int sv)))); reflexivity.
Qed.

Lemma gcell_after_app c (a b : list gop) :
  gcell_after dflt c (a ++ b) = gcell_after dflt (gcell_after dflt c a) b.
Proof. revert c. induction a as [|o a IH]; intros c; [reflexivity|]. destruct o; cbn [app gcell_after]; apply IH. Qed.

Lemma gafter_cell (s : gstate) (ops : list gop) :
  g_cell (gafter s ops) = gcell_after dflt (g_cell s) ops.
Proof.
  revert s. induction ops as [|o r IH]; intros s; [reflexivity|].
  cbn [gafter]. rewrite IH, gstep_cell. change (o :: r) with ([o] ++ r). rewrite gcell_after_app. reflexivity.
Qed.

End G.

Lemma gcell_ok {T} (O : Ops T) : stmt_gcell O.
Proof.
  intros d e t s pre post. split; [|split; [|split]].
  - apply gafter_cell.
  - change ([GGet] ++ post) with (GGet :: post).
    rewrite grun_nth_app. cbn [gstep snd]. rewrite gafter_cell. reflexivity.
  - intros v. rewrite gcell_after_app. reflexivity.
  - rewrite gcell_after_app. reflexivity.
Qed.

Section G2.
Context {T : Type} (O : Ops T).
Variables dflt eps ten : T.
Notation gop := (@gop T).
Notation gstate := (@gstate T).
Notation solverM := (@solverM T).
Notation gstep := (gstep O dflt eps ten).
Notation grun := (grun O dflt eps ten).
Notation gafter := (gafter O dflt eps ten).

Lemma gstep_frozen (s : gstate) (o : gop) (k : nat) (sv : solverM) :
  nth_error (g_solvers s) k = Some sv ->
  exists sv', nth_error (g_solvers (fst (gstep s o))) k = Some sv' /\
              frozen sv' = frozen sv /\ (~ updates k o -> sv' = sv).
Proof.
  intros Hk. assert (Hlt : k < length (g_solvers s)) by (apply nth_error_Some; rewrite Hk; discriminate).
  destruct o as [v| | |pe A b cones|j|j nb]; cbn [Model.gstep fst g_solvers].
  - exists sv. repeat split; auto.
  - exists sv. repeat split; auto.
  - exists sv. repeat split; auto.
  - exists sv. rewrite nth_error_app1 by exact Hlt. repeat split; auto.
  - destruct (nth_error (g_solvers s) j); exists sv; repeat split; auto.
  - destruct (nth_error (g_solvers s) j) as [svj|] eqn:Ej; [|exists sv; repeat split; auto].
    destruct (ikeep (sv_int svj)) eqn:Ek; [exists sv; repeat split; auto|].
    destruct (length nb =? 0); [exists sv; repeat split; auto|].
    destruct (negb (length nb =? length (ib (sv_int svj)))); [exists sv; repeat split; auto|].
    cbn [fst g_solvers]. rewrite nth_error_set_nth.
    destruct (Nat.eqb_spec k j) as [E|E].
    + subst j. rewrite Hk in Ej. injection Ej as Ej. subst svj.
      destruct (Nat.ltb_spec k (length (g_solvers s))) as [_|]; [|lia]. cbn [andb].
      eexists. split; [reflexivity|]. split; [reflexivity|].
      intros Hn. exfalso. apply Hn. exists nb. reflexivity.
    + cbn [andb]. exists sv. repeat split; auto.
Qed.

Lemma gafter_frozen (ops : list gop) : forall (s : gstate) (k : nat) (sv : solverM),
  nth_error (g_solvers s) k = Some sv ->
  exists sv', nth_error (g_solvers (gafter s ops)) k = Some sv' /\
              frozen sv' = frozen sv /\ ((forall o, In o ops -> ~ updates k o) -> sv' = sv).
Proof.
  induction ops as [|o r IH]; intros s k sv Hk.
  - exists sv. repeat split; auto.
  - cbn [Model.gafter]. destruct (gstep_frozen s o k sv Hk) as [sv1 [H1 [H2 H3]]].
    destruct (IH _ k sv1 H1) as [sv2 [G1 [G2 G3]]]. exists sv2. split; [exact G1|]. split.
    + rewrite G2. exact H2.
    + intros Hn. rewrite G3 by (intros o' Ho'; apply Hn; right; exact Ho').
      apply H3. apply Hn. left. reflexivity.
Qed.

Lemma gstep_nsolvers (s : gstate) (o : gop) :
  length (g_solvers (fst (gstep s o))) = length (g_solvers s) + count_new [o].
Proof.
  destruct o as [v| | |pe A b cones|j|j nb]; cbn [Model.gstep fst g_solvers count_new filter is_new length]; try lia.
  - rewrite app_length. cbn [length]. lia.
  - destruct (nth_error (g_solvers s) j); cbn [fst]; lia.
  - destruct (nth_error (g_solvers s) j) as [svj|]; [|cbn [fst]; lia].
    destruct (ikeep (sv_int svj)); [cbn [fst]; lia|]. destruct (length nb =? 0); [cbn [fst]; lia|].
    destruct (negb (length nb =? length (ib (sv_int svj)))); cbn [fst g_solvers]; [lia|].
    rewrite set_nth_length. lia.
Qed.

Lemma count_new_app (a b : list gop) : count_new (a ++ b) = count_new a + count_new b.
Proof. unfold count_new. rewrite filter_app, app_length. reflexivity. Qed.

Lemma gafter_nsolvers (ops : list gop) : forall s : gstate,
  length (g_solvers (gafter s ops)) = length (g_solvers s) + count_new ops.
Proof.
  induction ops as [|o r IH]; intros s; [cbn; lia|].
  cbn [Model.gafter]. rewrite IH, gstep_nsolvers. change (o :: r) with ([o] ++ r).
  rewrite (count_new_app [o] r). lia.
Qed.
End G2.

Lemma gfrozen_ok {T} (O : Ops T) : stmt_gfrozen O.
Proof. intros d e t s ops k sv H. apply gafter_frozen. exact H. Qed.

Lemma gsolve_ok {T} (O : Ops T) : stmt_gsolve O.
Proof.
  intros d e t s pre mid post pe A b cones c I k ops.
  set (s1 := gafter O d e t s pre).
  assert (Hc : g_cell s1 = c) by (unfold s1, c; apply gafter_cell).
  assert (Hn : length (g_solvers s1) = k) by (unfold s1, k; apply gafter_nsolvers).
  split.
  - unfold ops. change ([GNew pe A b cones] ++ mid ++ [GSolve k] ++ post)
      with (GNew pe A b cones :: mid ++ [GSolve k] ++ post).
    rewrite grun_nth_app. fold s1. cbn [gstep snd]. rewrite Hc. reflexivity.
  - set (s2 := fst (gstep O d e t s1 (GNew pe A b cones))).
    assert (Hk : nth_error (g_solvers s2) k = Some (mkSolver c (length b) I)).
    { unfold s2. cbn [gstep fst g_solvers]. rewrite nth_error_app2 by lia.
      rewrite Hn, Nat.sub_diag, Hc. reflexivity. }
    destruct (gafter_frozen O d e t mid s2 k _ Hk) as [sv' [F1 [F2 F3]]].
    exists (ib (sv_int sv')). split.
    + unfold ops.
      replace (pre ++ [GNew pe A b cones] ++ mid ++ [GSolve k] ++ post)
        with ((pre ++ [GNew pe A b cones] ++ mid) ++ GSolve k :: post)
        by (rewrite <- !app_assoc; reflexivity).
      replace (length pre + 1 + length mid) with (length (pre ++ [GNew pe A b cones] ++ mid))
        by (rewrite !app_length; cbn [length]; lia).
      rewrite grun_nth_app. rewrite gafter_app. fold s1.
      change ([GNew pe A b cones] ++ mid) with (GNew pe A b cones :: mid).
      cbn [gafter]. fold s2. cbn [gstep]. rewrite F1. cbn [snd].
      unfold frozen in F2. cbn [sv_bound sv_m sv_int] in F2.
      injection F2 as E1 E2 E3 E4 E5. unfold keep_or_all. rewrite E5, E2, E1. reflexivity.
    + intros Hno. rewrite (F3 Hno). reflexivity.
Qed.

Lemma gupdate_ok {T} (O : Ops T) : stmt_gupdate O.
Proof.
  intros d e t s k nb sv Hk. cbn [gstep]. rewrite Hk.
  assert (Hlt : k < length (g_solvers s)) by (apply nth_error_Some; rewrite Hk; discriminate).
  destruct (ikeep (sv_int sv)) as [kp|] eqn:Ek.
  - split; [reflexivity|]. split; [intros _; split; reflexivity|]. intros H. discriminate.
  - destruct (Nat.eqb_spec (length nb) 0) as [E0|E0].
    + split; [reflexivity|]. split; [intros H; contradiction|]. intros _ Hne.
      apply length_zero_iff_nil in E0. contradiction.
    + destruct (Nat.eqb_spec (length nb) (length (ib (sv_int sv)))) as [El|El]; cbn [negb].
      * split; [reflexivity|]. split; [intros H; contradiction|]. intros _ _ _. split; [reflexivity|].
        cbn [g_solvers]. rewrite nth_error_set_nth, Nat.eqb_refl.
        destruct (Nat.ltb_spec k (length (g_solvers s))) as [_|]; [reflexivity|lia].
      * split; [reflexivity|]. split; [intros H; contradiction|]. intros _ _ Hl. contradiction.
Qed.

Lemma reverse_ok {T} (O : Ops T) : stmt_reverse O.
Proof.
  intros keep bound x s z Hs Hz. cbn [reverse_sol reverse_s reverse_z].
  split; [reflexivity|]. split; [apply expand_length|]. split; [apply expand_length|].
  split; [apply expand_select; exact Hs|]. split; [apply expand_select; exact Hz|]. split; [|split].
  - intros i Hi Hk. split; apply expand_dropped; assumption.
  - intros i Hk. split; apply expand_kept; assumption.
  - intros [[x' s'] z']. reflexivity.
Qed.
