(** Executable correspondence checkers for C09, run on binary64 primitive floats (the
    threshold comparison is the hardware comparison the Rust code performs). *)
From Coq Require Import List Arith ZArith NArith Lia Bool Floats.
Import ListNotations.
Require Import Clarabel.Base.Ops Clarabel.Csc.Model Clarabel.Csc.Spec Clarabel.Csc.Check.
Require Import Clarabel.Presolve.Model Clarabel.Presolve.Spec.

Definition rawF := @raw float.
Definition RF (m n : N) (cp rv : list N) (nz : list float) : rawF :=
  mkRaw (N.to_nat m) (N.to_nat n) (map N.to_nat cp) (map N.to_nat rv) nz.

(** bit-faithful comparison except that NaN equals NaN (never produced here) and the two
    zeros are distinguished *)
Definition feqb (a b : float) : bool :=
  match PrimFloat.classify a, PrimFloat.classify b with
  | NaN, NaN => true
  | PZero, PZero | NZero, NZero => true
  | PZero, _ | NZero, _ | _, PZero | _, NZero => false
  | _, _ => PrimFloat.eqb a b
  end.
Definition flist_eqb := list_eqb feqb.
Definition raw_eqbF (a b : rawF) : bool :=
  (rm a =? rm b) && (rn a =? rn b) && nlist_eqb (rcolptr a) (rcolptr b)
  && nlist_eqb (rrowval a) (rrowval b) && flist_eqb (rnzval a) (rnzval b).

Definition cone_eqb (a b : cone) : bool :=
  match a, b with
  | ZeroC x, ZeroC y | NNC x, NNC y | SOC x, SOC y | PSDC x, PSDC y => x =? y
  | ExpC, ExpC | PowC, PowC => true
  | GenPowC a1 a2, GenPowC b1 b2 => (a1 =? b1) && (a2 =? b2)
  | _, _ => false
  end.

Definition eps64 : float := 0x1p-52%float.
Definition ten : float := 10%float.


(** Comparison relation = the observables the property talks about: the dense meaning of the
    internal A (plus well-formedness of its encoding), the internal right-hand side, the meaning
    of every internal row ([rowsig]: scalar nonnegativity row / position [k] of cone [c]), the
    set of dropped rows, and the user-visible s and z.  Codes: 0 agree, 1 violation candidate,
    2 observables agree but the stored representation differs from the model's. *)
Definition dense_eqbF (a b : list (list float)) : bool := list_eqb flist_eqb a b.
Definition same_denseF (a b : @csc float) : bool :=
  (nr a =? nr b) && (nc a =? nc b) && dense_eqbF (to_dense OpsF a) (to_dense OpsF b).
Definition fmt_okF (r : rawF) : bool :=
  match check_format r with FmtOk => true | _ => false end.
Definition rowtag_eqb (a b : rowtag) : bool :=
  match a, b with
  | RNN, RNN => true
  | RIn c i, RIn d j => cone_eqb c d && (i =? j)
  | _, _ => false
  end.
Definition keep_full (k : option (list bool)) (m : nat) : list bool :=
  match k with Some k => k | None => repeat true m end.
Definition optkeep_eqb (a b : option (list bool)) : bool :=
  match a, b with
  | Some k, Some k' => list_eqb Bool.eqb k k'
  | None, None => true
  | _, _ => false
  end.
Definition blist_eqb := list_eqb Bool.eqb.

(** construction: internal (A, b, cones, m) and the keep-map.  [params_ok] is the harness's
    own comparison of the cone parameters the model does not carry (power-cone exponents). *)
Definition c_build (pe : bool) (inf : float) (A : rawF) (b : list float) (cones : list cone)
           (outA : rawF) (outb : list float) (outcones : list cone) (outm : N)
           (outkeep : option (list bool)) (params_ok : bool) : N :=
  let I := build OpsF pe eps64 ten inf (decode A) b cones in
  let m := length b in
  if negb (fmt_okF outA && same_denseF (decode outA) (iA I)
           && flist_eqb (ib I) outb
           && list_eqb rowtag_eqb (rowsig (icones I)) (rowsig outcones)
           && blist_eqb (keep_full (ikeep I) m) (keep_full outkeep m)
           && (N.to_nat outm =? nr (iA I)) && params_ok)
  then 1%N
  else if raw_eqbF (encode (iA I)) outA && list_eqb cone_eqb (icones I) outcones
          && optkeep_eqb (ikeep I) outkeep
  then 0%N else 2%N.

(** the property's own description of the dropped rows, evaluated directly (not through the
    model of the code): scalar-nonnegative row of the user's cone list with b above the
    contracted threshold *)
Definition prop_keep (inf : float) (b : list float) (cones : list cone) : list bool :=
  map (fun p => negb (match fst p with RNN => true | _ => false end
                      && PrimFloat.ltb (threshold OpsF eps64 ten inf) (snd p)))
      (combine (rowsig cones) b).

(** solve level: the user-visible (s, z) are the expansion of the internal ones (length,
    ordering, fill values); the kept entries are bit-for-bit the (s, z) returned for the
    hand-reduced problem (A2, b2), which is the model's reduced problem *)
Fixpoint fills_ok (keep : list bool) (v : list float) (fill : float) : bool :=
  match keep, v with
  | [], [] => true
  | k :: keep', x :: v' => (k || feqb x fill) && fills_ok keep' v' fill
  | _, _ => false
  end.
Definition c_solve (pe : bool) (inf : float) (A : rawF) (b : list float) (cones : list cone)
           (s_int z_int s_out z_out : list float)
           (keep_hand : list bool) (A2 : rawF) (b2 : list float) (s2 z2 : list float)
           (rust_flags : bool) : N :=
  let I := build OpsF pe eps64 ten inf (decode A) b cones in
  let m := length b in
  let keep := keep_full (ikeep I) m in
  if negb (N.eqb (maxl
       [ ofb (length s_out =? m); ofb (length z_out =? m);
         ofb (fills_ok keep s_out inf); ofb (fills_ok keep z_out 0%float);
         ofb (negb pe || blist_eqb keep (prop_keep inf b cones));
         ofb (negb pe || blist_eqb keep keep_hand);
         ofb (negb pe || (fmt_okF A2 && same_denseF (decode A2) (select_rows (decode A) keep_hand)));
         ofb (negb pe || flist_eqb b2 (select b keep_hand));
         ofb (negb pe || flist_eqb (select s_out keep_hand) s2);
         ofb (negb pe || flist_eqb (select z_out keep_hand) z2);
         ofb rust_flags ]) 0) then 1%N
  else
    (* information only: the solver's own variable block after solve is the internal solution
       and the returned vectors are its expansion *)
    if flist_eqb (reverse_s (ikeep I) inf s_int) s_out && flist_eqb (reverse_z OpsF (ikeep I) z_int) z_out
    then 0%N else 2%N.

(** restoring alone (used when the internal variables are not those of the reduced problem,
    e.g. with chordal decomposition switched on): user's length, fill values at the rows the
    property says are dropped, kept entries = those of the hand-reduced problem *)
Definition c_restore (inf : float) (b : list float) (cones : list cone)
           (s_out z_out : list float) (keep_hand : list bool) (s2 z2 : list float)
           (rust_flags : bool) : N :=
  maxl [ ofb (blist_eqb keep_hand (prop_keep inf b cones));
         ofb (fills_ok keep_hand s_out inf); ofb (fills_ok keep_hand z_out 0%float);
         ofb (flist_eqb (select s_out keep_hand) s2);
         ofb (flist_eqb (select z_out keep_hand) z2);
         ofb rust_flags ].

(** reversal alone *)
Definition c_reverse (keep : option (list bool)) (inf : float)
           (s_int z_int s_out z_out : list float) : N :=
  maxl [ ofb (flist_eqb (reverse_s keep inf s_int) s_out);
         ofb (flist_eqb (reverse_z OpsF keep z_int) z_out) ].

(** bound histories *)
Definition optf_eqb (a b : option float) : bool :=
  match a, b with Some x, Some y => feqb x y | None, None => true | _, _ => false end.
Definition c_bound_history (dflt c0 : float) (ops : list (@bop float)) (outs : list (option float)) : N :=
  ofb (list_eqb optf_eqb (brun dflt (mkB c0 []) ops) outs).

(** ** collapse alone (presolve off): list equality with the model; [rowsig] equality = the row
    ranges of the collapsed cones cover the same rows, once, in the same order, with the same
    meaning *)
Definition c_collapse (cones outcones : list cone) : N :=
  if list_eqb cone_eqb (new_collapsed cones) outcones then 0%N
  else if list_eqb rowtag_eqb (rowsig cones) (rowsig outcones) then 2%N else 1%N.

(** ** histories of the global bound with several live solvers *)
Inductive robs : Type :=
| RNone
| RGet (v : float)
| RNew (keep : option (list bool)) (b : list float) (cones : list cone)
| RSolve (s z : list float) (b : list float)
| RUpd (accepted : bool) (b : list float)
| RPanic.
Definition keep_sem_eqb (a b : option (list bool)) : bool :=
  match a, b with
  | Some x, Some y => blist_eqb x y
  | None, None => true
  | None, Some y => forallb (fun t => t) y
  | Some x, None => forallb (fun t => t) x
  end.
Definition obs_ok (m : @gout float) (r : robs) : bool :=
  match m, r with
  | ONone, RNone => true
  | OGet v, RGet w => feqb v w
  | ONew k b cs, RNew k' b' cs' =>
      keep_sem_eqb k k' && flist_eqb b b' && list_eqb rowtag_eqb (rowsig cs) (rowsig cs')
  | OSolve keep sf zf b, RSolve s z b' =>
      fills_ok keep s sf && fills_ok keep z zf && flist_eqb b b'
  | OUpd a b, RUpd a' b' => Bool.eqb a a' && flist_eqb b b'
  | _, _ => false
  end.
Fixpoint forall2b {X Y} (f : X -> Y -> bool) (a : list X) (b : list Y) : bool :=
  match a, b with
  | [], [] => true
  | x :: a', y :: b' => f x y && forall2b f a' b'
  | _, _ => false
  end.
Definition c_ghistory (dflt c0 : float) (ops : list (@gop float)) (outs : list robs) : N :=
  ofb (forall2b obs_ok (grun OpsF dflt eps64 ten (mkG c0 []) ops) outs).
