(** Executable correspondence checkers for C09, run on binary64 primitive floats (the
    threshold comparison is the hardware comparison the Rust code performs). *)
From Coq Require Import List Arith ZArith NArith Lia Bool Floats.
Import ListNotations.
Require Import Clarabel.Base.Ops Clarabel.Csc.Model Clarabel.Csc.Check Clarabel.Presolve.Model.

Definition rawF := @raw float.
Definition RF (m n : N) (cp rv : list N) (nz : list float) : rawF :=
  mkRaw (N.to_nat m) (N.to_nat n) (map N.to_nat cp) (map N.to_nat rv) nz.

(** bit-faithful comparison except that NaN equals NaN (never produced here) and the two
    zeros are distinguished *)
Definition feqb (a b : float) : bool :=
  match PrimFloat.classify a, PrimFloat.classify b with
  | NaN, NaN => true
  | PZero, PZero | NZero, NZero => true
  | PZero, _ | NZero, _ | _, PZero | _, NZero => false
  | _, _ => PrimFloat.eqb a b
  end.
Definition flist_eqb := list_eqb feqb.
Definition raw_eqbF (a b : rawF) : bool :=
  (rm a =? rm b) && (rn a =? rn b) && nlist_eqb (rcolptr a) (rcolptr b)
  && nlist_eqb (rrowval a) (rrowval b) && flist_eqb (rnzval a) (rnzval b).

Definition cone_eqb (a b : cone) : bool :=
  match a, b with
  | ZeroC x, ZeroC y | NNC x, NNC y | SOC x, SOC y | PSDC x, PSDC y => x =? y
  | ExpC, ExpC | PowC, PowC => true
  | GenPowC a1 a2, GenPowC b1 b2 => (a1 =? b1) && (a2 =? b2)
  | _, _ => false
  end.

Definition eps64 : float := 0x1p-52%float.
Definition ten : float := 10%float.

(** construction: internal (A, b, cones) and the keep-map *)
Definition c_build (pe : bool) (inf : float) (A : rawF) (b : list float) (cones : list cone)
           (outA : rawF) (outb : list float) (outcones : list cone)
           (outkeep : option (list bool)) : N :=
  let I := build OpsF pe eps64 ten inf (decode A) b cones in
  maxl [ ofb (raw_eqbF (encode (iA I)) outA);
         ofb (flist_eqb (ib I) outb);
         ofb (list_eqb cone_eqb (icones I) outcones);
         ofb (match ikeep I, outkeep with
              | Some k, Some k' => list_eqb Bool.eqb k k'
              | None, None => true
              | _, _ => false
              end) ].

(** reversal: the user-visible s,z are the expansion of the internal ones *)
Definition c_reverse (keep : option (list bool)) (inf : float)
           (s_int z_int s_out z_out : list float) : N :=
  maxl [ ofb (flist_eqb (reverse_s keep inf s_int) s_out);
         ofb (flist_eqb (reverse_z OpsF keep z_int) z_out) ].

(** bound histories *)
Definition optf_eqb (a b : option float) : bool :=
  match a, b with Some x, Some y => feqb x y | None, None => true | _, _ => false end.
Definition c_bound_history (dflt c0 : float) (ops : list (@bop float)) (outs : list (option float)) : N :=
  ofb (list_eqb optf_eqb (brun dflt (mkB c0 []) ops) outs).
