(** Clean cone lists without adjacent nonnegative cones are a normal form for the row meaning:
    two such lists with the same [rowsig] are equal.  Consequence: the cone list the solver
    uses internally after presolve IS the collapsed form of the hand-reduced user list. *)
From Coq Require Import List Arith Lia Bool.
Import ListNotations.
Require Import Clarabel.Base.Ops Clarabel.Csc.Model Clarabel.Csc.Spec Clarabel.Csc.LemmasStruct.
Require Import Clarabel.Presolve.Model Clarabel.Presolve.Spec Clarabel.Presolve.Lemmas.
Require Import Clarabel.Presolve.LemmasCones Clarabel.Presolve.LemmasBuild.

Definition canon (cs : list cone) : Prop := Forall clean cs /\ no_adjacent_nn cs.

Definition starts_rnn (l : list rowtag) : bool := match l with RNN :: _ => true | _ => false end.

Lemma clean_collapsible_nn c d : clean c -> collapsible c = Some d -> exists n, c = NNC n /\ n <> 0.
Proof.
  intros [H0 [H1 H2]] Hc. destruct c as [n|n|n| | |d1 d2|n]; cbn in Hc; try discriminate.
  - exists n. split; [reflexivity|exact H0].
  - destruct n as [|[|n]]; try discriminate. contradiction.
  - destruct n as [|[|n]]; try discriminate. contradiction.
Qed.

Lemma cone_rows_non_nn c : clean c -> is_nn c = false ->
  cone_rows c = RIn c 0 :: map (RIn c) (seq 1 (nvars c - 1)).
Proof.
  intros Hc Hn. destruct Hc as [H0 [H1 H2]]. unfold cone_rows.
  rewrite (not_nn_clean_collapsible c Hn H1 H2).
  destruct (nvars c) as [|k]; [contradiction|]. cbn [seq map Nat.sub]. rewrite Nat.sub_0_r. reflexivity.
Qed.

Lemma no_adjacent_nn_tail a l : no_adjacent_nn (a :: l) -> no_adjacent_nn l.
Proof. destruct l as [|b l]; intros H; [exact I|]. cbn in H. apply H. Qed.

Lemma no_adjacent_nn_head a b l : no_adjacent_nn (a :: b :: l) -> is_nn a = true -> is_nn b = false.
Proof. intros H. cbn in H. apply H. Qed.

Lemma rowsig_after_nn n r : canon (NNC n :: r) -> starts_rnn (rowsig r) = false.
Proof.
  intros [Hc Ha]. destruct r as [|d r]; [reflexivity|].
  pose proof (no_adjacent_nn_head _ _ _ Ha eq_refl) as Hd.
  inversion Hc as [|x y _ Hc']; subst. inversion Hc' as [|x y Hd' _]; subst.
  rewrite rowsig_cons, (cone_rows_non_nn d Hd' Hd). reflexivity.
Qed.

Lemma repeat_rnn_split : forall n k X Y,
  starts_rnn X = false -> starts_rnn Y = false ->
  repeat RNN n ++ X = repeat RNN k ++ Y -> n = k /\ X = Y.
Proof.
  induction n as [|n IH]; intros [|k] X Y HX HY H; cbn [repeat app] in H.
  - split; [reflexivity|exact H].
  - subst X. discriminate.
  - subst Y. discriminate.
  - injection H as H. destruct (IH k X Y HX HY H) as [E1 E2]. split; [lia|exact E2].
Qed.

Lemma canon_tail a l : canon (a :: l) -> canon l.
Proof.
  intros [Hc Ha]. split; [inversion Hc; assumption|apply (no_adjacent_nn_tail a); exact Ha].
Qed.

Lemma canon_unique : forall a b, canon a -> canon b -> rowsig a = rowsig b -> a = b.
Proof.
  assert (Hnil : forall b, canon b -> rowsig b = [] -> b = []).
  { intros [|d b] [Hc _] H; [reflexivity|]. inversion Hc as [|x y Hd _]; subst.
    apply (f_equal (@length _)) in H. rewrite rowsig_length, total_cons in H. destruct Hd as [H0 _].
    cbn in H. lia. }
  induction a as [|c a IH]; intros b Ca Cb H.
  - symmetry. apply Hnil; [exact Cb|]. symmetry. exact H.
  - destruct b as [|d b]; [apply Hnil; assumption|].
    pose proof Ca as [Hca _]. pose proof Cb as [Hcb _].
    inversion Hca as [|x y Hc _]; subst. inversion Hcb as [|x y Hd _]; subst.
    rewrite !rowsig_cons in H.
    destruct (is_nn c) eqn:Enc; destruct (is_nn d) eqn:End.
    + destruct c as [n|n|n| | |c1 c2|n]; try discriminate. destruct d as [k|k|k| | |d1 d2|k]; try discriminate.
      rewrite !cone_rows_nn in H.
      destruct (repeat_rnn_split n k _ _ (rowsig_after_nn n a Ca) (rowsig_after_nn k b Cb) H) as [E1 E2].
      subst k. f_equal. apply IH; [apply (canon_tail _ _ Ca)|apply (canon_tail _ _ Cb)|exact E2].
    + destruct c as [n|n|n| | |c1 c2|n]; try discriminate. destruct Hc as [H0 _]. cbn [nvars] in H0.
      rewrite cone_rows_nn, (cone_rows_non_nn d Hd End) in H. destruct n; [contradiction|]. discriminate.
    + destruct d as [k|k|k| | |d1 d2|k]; try discriminate. destruct Hd as [H0 _]. cbn [nvars] in H0.
      rewrite cone_rows_nn, (cone_rows_non_nn c Hc Enc) in H. destruct k; [contradiction|]. discriminate.
    + pose proof H as H'. rewrite (cone_rows_non_nn c Hc Enc), (cone_rows_non_nn d Hd End) in H'.
      cbn [app] in H'. injection H' as Ecd _. subst d.
      apply app_inv_head in H. f_equal.
      apply IH; [apply (canon_tail _ _ Ca)|apply (canon_tail _ _ Cb)|exact H].
Qed.

Lemma reduce_cones_no_adjacent cs : forall keep,
  no_adjacent_nn cs -> no_adjacent_nn (reduce_cones cs keep).
Proof.
  induction cs as [|c r IH]; intros keep H; [exact I|].
  pose proof (no_adjacent_nn_tail c r H) as Hr. cbn [reduce_cones].
  destruct (is_nn c) eqn:En.
  - destruct (count_true (firstn (nvars c) keep) =? 0); [apply IH; exact Hr|].
    apply no_adjacent_nn_cons; [|apply IH; exact Hr].
    destruct r as [|d r']; [exact I|].
    pose proof (no_adjacent_nn_head _ _ _ H En) as Hd. cbn [reduce_cones]. rewrite Hd. intros _. exact Hd.
  - apply no_adjacent_nn_cons; [|apply IH; exact Hr]. rewrite En.
    destruct (reduce_cones r (skipn (nvars c) keep)); [exact I|discriminate].
Qed.

Lemma hand_reduce_commutes_ok : stmt_hand_reduce_commutes.
Proof.
  intros cones keep Hl Hd. apply canon_unique.
  - destruct (collapsed_ok (hand_reduce cones keep)) as [_ [_ [H1 H2]]]. split; assumption.
  - destruct (collapsed_ok cones) as [_ [_ [H1 H2]]]. cbn zeta in H1, H2. split.
    + apply reduce_cones_clean. exact H1.
    + apply reduce_cones_no_adjacent. exact H2.
  - apply (hand_reduce_ok cones keep Hl Hd).
Qed.
