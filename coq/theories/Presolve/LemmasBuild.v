(** Proofs of the problem-level C09 statements: the internal problem is the user's problem with
    exactly the dropped rows deleted (dense meaning), dual neutrality of re-inserted zeros,
    the reading "at or above the bound", and hand deletion. *)
From Coq Require Import List Arith Lia Bool Ring Reals Lra Floats.
Import ListNotations.
Require Import Clarabel.Base.Ops Clarabel.Csc.Model Clarabel.Csc.Spec Clarabel.Csc.LemmasStruct.
Require Import Clarabel.Csc.LemmasAlgBase.
Require Import Clarabel.Presolve.Model Clarabel.Presolve.Spec Clarabel.Presolve.Lemmas.
Require Import Clarabel.Presolve.LemmasCones.

Lemma build_unreduced_ok {T} (O : Ops T) : stmt_build_unreduced O.
Proof.
  intros pe eps ten infbound A b cones keep H. unfold build. fold keep.
  destruct H as [H|H]; rewrite H; [reflexivity|]. rewrite andb_false_r. reflexivity.
Qed.

Lemma nth_map_is_rnn l i : nth i (map is_rnn l) false = is_rnn (nth i l (RIn ExpC 0)).
Proof. change false with (is_rnn (RIn ExpC 0)). apply map_nth. Qed.

Lemma is_rnn_true t : is_rnn t = true <-> t = RNN.
Proof. destruct t; cbn; split; intros H; try reflexivity; discriminate. Qed.

Lemma build_reduced_ok {T} (O : Ops T) : stmt_build_reduced O.
Proof.
  intros HL eps ten infbound A b cones HA Hnr Hlen thr cs keep I Hred.
  destruct (collapsed_ok cones) as [Hsig [Htot [Hclean Hadj]]]. cbn zeta in Hsig, Htot, Hclean, Hadj.
  fold cs in Hsig, Htot, Hclean, Hadj.
  assert (Hlb : length b = total cs) by (rewrite Htot; exact Hlen).
  assert (Hkl : length keep = length b) by (apply keep_map_length; exact Hlb).
  assert (HI : I = mkInternal (select_rows A keep) (cap O infbound (select b keep)) (reduce_cones cs keep) (Some keep)).
  { unfold I, build. fold cs. fold thr. fold keep. rewrite Hred. reflexivity. }
  rewrite HI. cbn [iA ib icones ikeep].
  destruct (select_rows_ok O HL A keep HA) as [S1 [S2 [S3 [S4 S5]]]]; [lia|].
  cbn zeta in S1, S2, S3, S4, S5. fold (count_true keep) in S2.
  assert (Hdrop : drops_only_nn cs keep) by (apply keep_map_drops_only_nn; exact Hlb).
  destruct (reduce_cones_spec cs keep) as [R1 [R2 R3]]; [lia | exact Hdrop | |].
  { intros c Hin Hn. rewrite Forall_forall in Hclean. destruct (Hclean c Hin) as [_ [H1 H2]].
    apply not_nn_clean_collapsible; assumption. }
  assert (Hsl : length (select b keep) = count_true keep) by (apply select_length; lia).
  split; [reflexivity|]. split; [exact S1|]. split; [exact S2|]. split; [exact S3|].
  split; [rewrite cap_length; exact Hsl|]. split; [exact R1|]. split; [rewrite R2, Hsig; reflexivity|].
  split; [exact S4|]. split.
  - intros i Hi. rewrite cap_nth by (rewrite Hsl; apply rank_lt_count; exact Hi).
    rewrite select_nth by (try lia; exact Hi). reflexivity.
  - intros i Hi. destruct (keep_map_ok O cs b thr Hlb) as [_ Hn]. fold keep in Hn.
    rewrite (Hn i Hi). rewrite (collapsed_nn_rows_ok cones : nn_rows cs = _).
    rewrite nth_map_is_rnn. rewrite negb_false_iff, andb_true_iff, is_rnn_true. reflexivity.
Qed.

(** * dual neutrality *)
Section Ring.
Context {T : Type} (O : Ops T).
Hypothesis RT : ring_theory (zero O) (one O) (add O) (mul O) (sub O) (neg O) (@eq T).
Add Ring Tring2 : RT.
Notation "'oz'" := (zero O).
Notation "a [+] b" := (add O a b) (at level 50, left associativity).
Notation "a [*] b" := (mul O a b) (at level 40, left associativity).

Definition dot (a z : list T) : T := sumT O (map (fun p => fst p [*] snd p) (combine a z)).

Lemma dot_cons x a y z : dot (x :: a) (y :: z) = x [*] y [+] dot a z.
Proof. reflexivity. Qed.

(** re-inserting zeros at the dropped rows does not change any inner product with z: A'z and
    b'z of the user's problem are those of the reduced problem *)
Lemma dot_expand keep : forall (a z : list T),
  length a = length keep -> length z = count_true keep ->
  dot a (expand keep z oz) = dot (select a keep) z.
Proof.
  induction keep as [|k keep IH]; intros a z Ha Hz.
  - destruct a; [|discriminate]. destruct z; [reflexivity|discriminate].
  - destruct a as [|x a]; [discriminate|]. cbn [length] in Ha. rewrite count_true_cons in Hz.
    rewrite select_cons. cbn [expand]. destruct k.
    + destruct z as [|y z]; [cbn in Hz; lia|]. rewrite !dot_cons, IH; [reflexivity|lia|cbn in Hz; lia].
    + rewrite dot_cons, IH by lia. ring.
Qed.

Lemma sum_upto_dot n (a w : list T) : length a = n -> length w = n ->
  sum_upto O n (fun i => nth i a oz [*] nth i w oz) = dot a w.
Proof.
  intros Ha Hw. unfold sum_upto, dot. f_equal.
  replace (combine a w) with (map (fun i => (nth i a oz, nth i w oz)) (seq 0 n)).
  - rewrite map_map. reflexivity.
  - apply (nth_ext _ _ (oz, oz) (oz, oz)).
    + rewrite map_length, seq_length, combine_length. lia.
    + intros i Hi. rewrite map_length, seq_length in Hi.
      rewrite (nth_map_seq (fun i => (nth i a oz, nth i w oz)) n i (oz, oz) Hi).
      rewrite combine_nth by lia. reflexivity.
Qed.

Lemma dual_neutral' (HL : Laws O) : forall (A : @csc T) (keep : list bool) (z : list T) (j : nat),
    Canonical A -> length keep = nr A -> length z = count_true keep ->
    sum_upto O (nr A) (fun i => get O A i j [*] nth i (expand keep z oz) oz) =
    sum_upto O (count_true keep) (fun i' => get O (select_rows A keep) i' j [*] nth i' z oz).
Proof.
  intros A keep z j HA Hk Hz.
  destruct (select_rows_ok O HL A keep HA Hk) as [S1 [S2 [S3 [S4 S5]]]]. cbn zeta in S1, S2, S3, S4, S5.
  fold (count_true keep) in S2.
  set (colA := map (fun i => get O A i j) (seq 0 (nr A))).
  set (colB := map (fun i' => get O (select_rows A keep) i' j) (seq 0 (count_true keep))).
  assert (HcA : length colA = nr A) by (unfold colA; rewrite map_length, seq_length; reflexivity).
  assert (HcB : length colB = count_true keep) by (unfold colB; rewrite map_length, seq_length; reflexivity).
  transitivity (sum_upto O (nr A) (fun i => nth i colA oz [*] nth i (expand keep z oz) oz)).
  { apply sum_upto_ext. intros i Hi. unfold colA.
    rewrite (nth_map_seq (fun i => get O A i j) (nr A) i oz Hi). reflexivity. }
  rewrite sum_upto_dot by (try exact HcA; rewrite expand_length; exact Hk).
  rewrite dot_expand by (try exact Hz; rewrite HcA; lia).
  transitivity (sum_upto O (count_true keep) (fun i' => nth i' colB oz [*] nth i' z oz)).
  2:{ apply sum_upto_ext. intros i Hi. unfold colB.
      rewrite (nth_map_seq (fun i' => get O (select_rows A keep) i' j) (count_true keep) i oz Hi). reflexivity. }
  rewrite sum_upto_dot by (try exact HcB; exact Hz). f_equal.
  apply (nth_ext _ _ oz oz).
  - rewrite select_length by (rewrite HcA; lia). rewrite HcB. reflexivity.
  - intros i' Hi'. rewrite select_length in Hi' by (rewrite HcA; lia).
    destruct (rank_surj keep i' Hi') as [i [Hi1 [Hi2 Hi3]]]. subst i'.
    rewrite select_nth by (try exact Hi2; rewrite HcA; lia).
    unfold colA, colB.
    rewrite (nth_map_seq (fun i => get O A i j) (nr A) i oz) by lia.
    rewrite (nth_map_seq (fun i' => get O (select_rows A keep) i' j) (count_true keep) (rank keep i) oz)
      by (apply rank_lt_count; exact Hi2).
    symmetry. apply S4. exact Hi2.
Qed.
End Ring.

Lemma dual_neutral_ok {T} (O : Ops T) : stmt_dual_neutral O.
Proof. intros HL A keep z j HA Hk Hz. apply dual_neutral'; try assumption. exact (proj1 HL). Qed.

(** * "at or above the bound" *)
Lemma threshold_lt_R (eps ten inf : R) :
  (0 < eps)%R -> (0 < ten)%R -> (0 < inf)%R -> (threshold OpsR eps ten inf < inf)%R.
Proof.
  intros H1 H2 H3. unfold threshold. cbn [mul sub one OpsR].
  assert (0 < eps * ten * inf)%R by (apply Rmult_lt_0_compat; [apply Rmult_lt_0_compat|]; assumption).
  lra.
Qed.

Lemma at_or_above_dropped_ok : stmt_at_or_above_dropped.
Proof.
  intros eps ten inf cones b i He Ht Hi Hlen Hib keep.
  destruct (collapsed_ok cones) as [Hsig [Htot _]]. cbn zeta in Hsig, Htot.
  assert (Hlb : length b = total (new_collapsed cones)) by (rewrite Htot; exact Hlen).
  destruct (keep_map_ok OpsR (new_collapsed cones) b (threshold OpsR eps ten inf) Hlb) as [_ Hn].
  fold keep in Hn. rewrite (Hn i Hib). rewrite collapsed_nn_rows_ok, nth_map_is_rnn.
  pose proof (threshold_lt_R eps ten inf He Ht Hi) as Hthr.
  cbn [ltb zero OpsR]. split; [|split].
  - intros Hr Hge. rewrite Hr. cbn [is_rnn andb]. apply negb_false_iff, Rltb_true. lra.
  - intros Hle. apply negb_true_iff, andb_false_iff. right. apply Rltb_false. exact Hle.
  - intros Hr. apply negb_true_iff, andb_false_iff. left.
    destruct (is_rnn (nth i (rowsig cones) (RIn ExpC 0))) eqn:E; [|reflexivity].
    apply is_rnn_true in E. contradiction.
Qed.

(** * hand deletion *)
Lemma drops_only_scalar_cons c cs keep :
  length keep = total (c :: cs) -> drops_only_scalar (c :: cs) keep ->
  (collapsible c = None -> firstn (nvars c) keep = repeat true (nvars c)) /\
  drops_only_scalar cs (skipn (nvars c) keep).
Proof.
  intros Hl Hd. rewrite total_cons in Hl. split.
  - intros Hn. apply (nth_ext _ _ true true).
    + rewrite firstn_length, repeat_length. lia.
    + intros i Hi. rewrite firstn_length in Hi.
      assert (Hik : i < nvars c) by lia.
      rewrite nth_firstn_lt by exact Hik. rewrite nth_repeat_lt by exact Hik.
      destruct (nth i keep true) eqn:E; [reflexivity|].
      specialize (Hd i E). rewrite rowsig_cons, app_nth1 in Hd by (rewrite cone_rows_length; exact Hik).
      unfold cone_rows in Hd. rewrite Hn in Hd.
      rewrite (nth_indep _ _ (RIn c 0)) in Hd by (rewrite map_length, seq_length; exact Hik).
      rewrite map_nth in Hd. discriminate.
  - intros i Hi. rewrite nth_skipn_plus in Hi. specialize (Hd _ Hi).
    rewrite rowsig_cons, app_nth2 in Hd by (rewrite cone_rows_length; lia).
    rewrite cone_rows_length in Hd. replace (nvars c + i - nvars c) with i in Hd by lia. exact Hd.
Qed.

Lemma hand_reduce_rowsig cs : forall keep,
  length keep = total cs -> drops_only_scalar cs keep ->
  rowsig (hand_reduce cs keep) = select (rowsig cs) keep.
Proof.
  induction cs as [|c cs IH]; intros keep Hl Hd.
  - destruct keep; [reflexivity|discriminate].
  - destruct (drops_only_scalar_cons c cs keep Hl Hd) as [Hh Ht]. rewrite total_cons in Hl.
    assert (Hfl : length (firstn (nvars c) keep) = nvars c) by (rewrite firstn_length; lia).
    assert (Hsl : length (skipn (nvars c) keep) = total cs) by (rewrite skipn_length; lia).
    assert (Hsel : select (rowsig (c :: cs)) keep =
                   select (cone_rows c) (firstn (nvars c) keep) ++ select (rowsig cs) (skipn (nvars c) keep)).
    { rewrite <- (firstn_skipn (nvars c) keep) at 1. rewrite rowsig_cons.
      apply select_app. rewrite cone_rows_length, Hfl. reflexivity. }
    cbn [hand_reduce]. rewrite rowsig_cons, (IH _ Hsl Ht), Hsel. f_equal.
    destruct (collapsible c) as [d|] eqn:Ec.
    + rewrite cone_rows_nn. unfold cone_rows. rewrite Ec.
      rewrite (collapsible_nvars c d Ec). apply eq_sym, select_repeat. exact Hfl.
    + rewrite (Hh eq_refl). rewrite <- (cone_rows_length c). symmetry. apply select_all_true.
Qed.

Lemma hand_reduce_ok : stmt_hand_reduce.
Proof.
  intros cones keep Hl Hd. pose proof (hand_reduce_rowsig cones keep Hl Hd) as H1. split; [exact H1|].
  destruct (collapsed_ok (hand_reduce cones keep)) as [Hs1 _]. cbn zeta in Hs1. rewrite Hs1, H1.
  destruct (collapsed_ok cones) as [Hs2 [Ht2 [Hc2 _]]]. cbn zeta in Hs2, Ht2, Hc2.
  destruct (reduce_cones_spec (new_collapsed cones) keep) as [_ [R2 _]].
  - rewrite Ht2. exact Hl.
  - intros i Hi. specialize (Hd i Hi). rewrite collapsed_nn_rows_ok, nth_map_is_rnn, Hd. reflexivity.
  - intros c Hin Hn. rewrite Forall_forall in Hc2. destruct (Hc2 c Hin) as [_ [Ha Hb]].
    apply not_nn_clean_collapsible; assumption.
  - rewrite R2, Hs2. reflexivity.
Qed.

(** * non-vacuity: concrete instances (binary64 primitive floats, evaluated by the VM) *)
Definition ex_eps : float := 0x1p-52%float.
Definition ex_A : @csc float :=
  mkCsc 7 2 [[(0, 1%float); (1, 2%float); (2, 3%float); (3, 4%float); (4, 5%float); (5, 6%float); (6, 7%float)];
             [(0, 1%float); (2, (-1)%float); (6, 2%float)]].
Definition ex_b : list float := [0x1p70; 3; infinity; 0x1p70; 5; 6; 0x1p70]%float.
Definition ex_cones : list cone := [NNC 1; ZeroC 0; SOC 1; PSDC 1; ZeroC 1; SOC 2; NNC 1].

(** bound 1e20 < 2^70: rows 0, 2, 6 sit in scalar cones (NN, PSD(1), NN) with a right-hand side
    above the bound and are dropped; row 3 sits in a zero cone and is capped; the three leading
    scalar cones collapse into one nonnegative cone that shrinks to size one *)
Example ex_build_reduced :
  let I := build OpsF true ex_eps 10%float 1e20%float ex_A ex_b ex_cones in
  ikeep I = Some [false; true; false; true; true; true; false] /\
  icones I = [NNC 1; ZeroC 1; SOC 2] /\ ib I = [3; 1e20; 5; 6]%float /\ nr (iA I) = 4.
Proof. vm_compute. repeat split; reflexivity. Qed.

Example ex_canonical : Canonical ex_A /\ reduced (keep_map OpsF (new_collapsed ex_cones) ex_b
                           (threshold OpsF ex_eps 10%float 1e20%float)) = true.
Proof. vm_compute. split; reflexivity. Qed.

(** a right-hand side above the bound in a second-order cone is capped, never dropped *)
Example ex_capped :
  let I := build OpsF true ex_eps 10%float 1e20%float (mkCsc 2 1 [[(0, 1%float)]]) [0x1p70; 0]%float [SOC 2] in
  ikeep I = None /\ ib I = [1e20; 0]%float /\ icones I = [SOC 2].
Proof. vm_compute. repeat split; reflexivity. Qed.

(** the contraction band (documented behaviour of make_reduction_map, part of the model): for
    the default bound 1e20 the threshold is 13 ulps below the bound; a nonnegative row with a
    right-hand side inside the band is dropped although it is (slightly) below the bound *)
Example ex_band :
  let thr := threshold OpsF ex_eps 10%float 1e20%float in
  PrimFloat.ltb thr 1e20%float = true /\
  keep_map OpsF [NNC 3] [thr; 0x1.5af1d78b58c3fp+66; 1e20]%float thr = [true; false; false] /\
  PrimFloat.ltb 0x1.5af1d78b58c3fp+66%float 1e20%float = true.
Proof. vm_compute. repeat split; reflexivity. Qed.

Example ex_expand :
  expand [false; true; false; true; true; true; false] [1; 2; 3; 4]%float 1e20%float
  = [1e20; 1; 1e20; 2; 3; 4; 1e20]%float.
Proof. vm_compute. reflexivity. Qed.

Example ex_history :
  brun 1e20%float (mkB 1e20%float [])
       [SetInf 5%float; Build 0; SetInf 7%float; Build 1; DefaultInf; Use 0; Use 1; Build 2; Use 2]
  = [None; Some 5; None; Some 7; None; Some 5; Some 7; Some 1e20; Some 1e20]%float.
Proof. vm_compute. reflexivity. Qed.
