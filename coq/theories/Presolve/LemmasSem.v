(** Proofs of Presolve/SemSpec.v. *)
From Coq Require Import List Arith Lia Bool NArith ZArith Reals Lra Psatz.
Import ListNotations.
Require Import Clarabel.Base.Ops Clarabel.Base.Dyadic Clarabel.Term.Eval Clarabel.Term.Spec Clarabel.Term.Farkas.
Require Import Clarabel.Cross.Cones.
Require Import Clarabel.Presolve.Model Clarabel.Presolve.Spec Clarabel.Presolve.Lemmas Clarabel.Presolve.LemmasCones.
Require Import Clarabel.Presolve.SemSpec.
Local Open Scope nat_scope.

Lemma nvars_erase k : nvars (eraseD k) = cone_dim k.
Proof. destruct k; reflexivity. Qed.

(** * erasure *)
Lemma collapse_runD_erase cs : forall acc,
  collapse_run (map eraseD cs) acc = (fst (collapse_runD cs acc), map eraseD (snd (collapse_runD cs acc))).
Proof.
  induction cs as [|c r IH]; intros acc; [reflexivity|].
  cbn [map collapse_run collapse_runD]. rewrite nvars_erase. destruct (cone_dim c =? 0); [apply IH|].
  unfold collapsibleD. destruct (collapsible (eraseD c)) as [d|]; [apply IH|reflexivity].
Qed.

Lemma collapseD_fuel_erase : forall f cs,
  map eraseD (collapseD_fuel f cs) = new_collapsed_fuel f (map eraseD cs).
Proof.
  induction f as [|f IH]; intros cs; [reflexivity|]. destruct cs as [|c r]; [reflexivity|].
  cbn [map collapseD_fuel new_collapsed_fuel]. rewrite nvars_erase. destruct (cone_dim c =? 0); [apply IH|].
  unfold collapsibleD. destruct (collapsible (eraseD c)) as [d|].
  - rewrite collapse_runD_erase. destruct (collapse_runD r d) as [tot rest]. cbn [fst snd map eraseD].
    rewrite Nat2N.id, IH. reflexivity.
  - cbn [map]. rewrite IH. reflexivity.
Qed.

Lemma collapseD_erase_ok : stmt_collapseD_erase.
Proof. intros K. unfold collapseD, new_collapsed. rewrite map_length. apply collapseD_fuel_erase. Qed.

(** * runs *)
Lemma collapse_runD_spec cs : forall acc tot rest,
  collapse_runD cs acc = (tot, rest) ->
  exists pre, cs = pre ++ rest /\ tot = acc + cones_dim pre /\ Forall (fun k => is_runD k = true) pre /\
              match rest with [] => True | c :: _ => is_runD c = false end.
Proof.
  induction cs as [|c r IH]; intros acc tot rest H.
  - cbn in H. injection H as H1 H2. subst. exists []. cbn. repeat split; auto.
  - cbn [collapse_runD] in H. destruct (cone_dim c =? 0) eqn:E0.
    + destruct (IH _ _ _ H) as [pre [H1 [H2 [H3 H4]]]]. exists (c :: pre). rewrite cones_dim_cons.
      apply Nat.eqb_eq in E0. repeat split; auto; [rewrite H1; reflexivity | lia |].
      constructor; [|exact H3]. unfold is_runD. rewrite E0. reflexivity.
    + destruct (collapsibleD c) as [d|] eqn:Ec.
      * destruct (IH _ _ _ H) as [pre [H1 [H2 [H3 H4]]]]. exists (c :: pre). rewrite cones_dim_cons.
        assert (Hd : d = cone_dim c) by (rewrite <- nvars_erase; apply collapsible_nvars; exact Ec).
        repeat split; auto; [rewrite H1; reflexivity | lia |].
        constructor; [|exact H3]. unfold is_runD. rewrite Ec. apply orb_true_r.
      * injection H as H1 H2. subst. exists []. cbn [app cones_dim map list_sum]. repeat split; auto.
        unfold is_runD. rewrite E0, Ec. reflexivity.
Qed.

Lemma cones_dim_app a b : cones_dim (a ++ b) = cones_dim a + cones_dim b.
Proof. induction a as [|k a IH]; [reflexivity|]. cbn [app]. rewrite !cones_dim_cons, IH. lia. Qed.

Lemma tri_pos m : (S m * (S m + 1)) / 2 <> 0.
Proof.
  assert (H : 0 < (S m * (S m + 1)) / 2) by (apply Nat.div_str_pos; nia). lia.
Qed.

(** a run cone constrains its (at most one) row to be nonnegative, in the primal and in the dual *)
Lemma run_cone_sem k (w : list R) :
  is_runD k = true -> cone_wf k -> length w = cone_dim k ->
  (in_cone k w <-> in_nn w) /\ (in_dual k w <-> in_nn w).
Proof.
  unfold is_runD, collapsibleD, in_cone, in_dual. intros Hr Hwf Hl.
  destruct k as [n|n|n| |a|a d2|n]; cbn [eraseD cone_dim collapsible] in *.
  - rewrite orb_false_r in Hr. apply Nat.eqb_eq in Hr. rewrite Hr in Hl.
    destruct w; [|discriminate]. rewrite Hr. unfold in_zero, in_nn. split; split; intros; auto.
  - unfold in_nn. split; split; intros H; try tauto.
  - remember (N.to_nat n) as m eqn:Em. destruct m as [|[|m]].
    + destruct w; [|discriminate]. cbn [in_soc]. unfold in_nn. split; split; intros; auto.
    + destruct w as [|t [|u w]]; try discriminate. cbn [in_soc]. unfold in_nn.
      assert (E : sumsq OpsR [] = 0%R) by (cbv; reflexivity). rewrite E.
      split; split.
      * intros [_ [H _]]. constructor; [exact H|constructor].
      * intros H. inversion H; subst. split; [reflexivity|]. split; [assumption|nra].
      * intros [_ [H _]]. constructor; [exact H|constructor].
      * intros H. inversion H; subst. split; [reflexivity|]. split; [assumption|nra].
    + cbn in Hr. discriminate.
  - cbn in Hr. discriminate.
  - cbn in Hr. discriminate.
  - rewrite orb_false_r in Hr. apply Nat.eqb_eq in Hr. contradiction.
  - remember (N.to_nat n) as m eqn:Em. destruct m as [|[|m]].
    + cbn in Hl. destruct w; [|discriminate]. unfold in_nn, in_psd. split; split; intros; auto.
      * split; [reflexivity|]. intros y Hy. destruct y; [|discriminate]. cbv. lra.
      * split; [reflexivity|]. intros y Hy. destruct y; [|discriminate]. cbv. lra.
    + cbn in Hl. destruct w as [|t [|u w]]; try discriminate. unfold in_nn, in_psd.
      assert (Q : forall y0, svec_quad 1 [t] [y0] = (0 + (t * y0 * y0 + R_sqrt.sqrt 2 * 0))%R).
      { intros y0. unfold svec_quad. cbn [seq map]. unfold vsum. cbn [fold_left map seq].
        unfold tri_idx. cbn. reflexivity. }
      assert (Hpos : (0 <= t)%R <-> (forall y, length y = 1 -> (0 <= svec_quad 1 [t] y)%R)).
      { split.
        - intros Ht y Hy. destruct y as [|y0 [|y1 y]]; try discriminate. rewrite Q. nra.
        - intros H. specialize (H [1%R] eq_refl). rewrite Q in H. lra. }
      split; split.
      * intros [_ H]. constructor; [apply Hpos; exact H|constructor].
      * intros H. inversion H; subst. split; [reflexivity|]. apply Hpos. assumption.
      * intros [_ H]. constructor; [apply Hpos; exact H|constructor].
      * intros H. inversion H; subst. split; [reflexivity|]. apply Hpos. assumption.
    + exfalso. cbn [collapsible] in Hr. rewrite orb_false_r in Hr. apply Nat.eqb_eq in Hr.
      apply (tri_pos (S m)). exact Hr.
Qed.

(** * generic product membership *)
Section Generic.
Variable P : coneD -> list R -> Prop.
Hypothesis Prun : forall k w, is_runD k = true -> cone_wf k -> length w = cone_dim k -> (P k w <-> in_nn w).
Hypothesis Pnn : forall n w, P (KNN n) w <-> length w = N.to_nat n /\ in_nn w.
Definition InP (K : list coneD) (v : list R) : Prop :=
  Forall (fun kc => P (fst kc) (snd kc)) (chunks K v).

Lemma InP_cons k K v : InP (k :: K) v <-> P k (firstn (cone_dim k) v) /\ InP K (skipn (cone_dim k) v).
Proof. unfold InP. cbn [chunks]. apply Forall_cons_iff. Qed.

Lemma run_sem pre : Forall (fun k => is_runD k = true) pre -> Forall cone_wf pre ->
  forall K' v, cones_dim pre <= length v ->
    (InP (pre ++ K') v <-> in_nn (firstn (cones_dim pre) v) /\ InP K' (skipn (cones_dim pre) v)).
Proof.
  induction pre as [|k pre IH]; intros Hr Hw K' v Hl.
  - cbn [app cones_dim map list_sum firstn skipn]. unfold in_nn. split; [intros H; split; [constructor|exact H]|tauto].
  - inversion Hr as [|x y Hk Hr']; subst. inversion Hw as [|x y Hwk Hw']; subst.
    rewrite cones_dim_cons in *. cbn [app]. rewrite InP_cons.
    assert (Hf : length (firstn (cone_dim k) v) = cone_dim k) by (rewrite firstn_length; lia).
    rewrite (Prun k _ Hk Hwk Hf).
    rewrite (IH Hr' Hw' K' (skipn (cone_dim k) v)) by (rewrite skipn_length; lia).
    rewrite firstn_add, in_nn_app, skipn_add. tauto.
Qed.

Lemma collapse_sem_fuel : forall fuel K, length K <= fuel -> Forall cone_wf K ->
  forall v, length v = cones_dim K -> (InP K v <-> InP (collapseD_fuel fuel K) v).
Proof.
  induction fuel as [|f IH]; intros K Hlen Hwf v Hv.
  - destruct K; [|cbn in Hlen; lia]. reflexivity.
  - destruct K as [|k r]; [reflexivity|]. cbn [length] in Hlen.
    inversion Hwf as [|x y Hwk Hwr]; subst. rewrite cones_dim_cons in Hv.
    cbn [collapseD_fuel]. destruct (cone_dim k =? 0) eqn:E0.
    + apply Nat.eqb_eq in E0. rewrite InP_cons, E0. cbn [firstn skipn].
      assert (Hk : is_runD k = true) by (unfold is_runD; rewrite E0; reflexivity).
      rewrite (Prun k [] Hk Hwk) by (rewrite E0; reflexivity).
      rewrite <- (IH r) by (try lia; try assumption). unfold in_nn. split; [tauto|]. intros H. split; [constructor|exact H].
    + destruct (collapsibleD k) as [d|] eqn:Ec.
      * destruct (collapse_runD r d) as [tot rest] eqn:Er.
        destruct (collapse_runD_spec r d tot rest Er) as [pre [Hr [Htot [Hrun Hrest]]]].
        assert (Hd : d = cone_dim k) by (rewrite <- nvars_erase; apply collapsible_nvars; exact Ec).
        assert (Hk : is_runD k = true) by (unfold is_runD; rewrite Ec; apply orb_true_r).
        subst r. apply Forall_app in Hwr. destruct Hwr as [Hwp Hwrest].
        rewrite cones_dim_app in Hv. rewrite app_length in Hlen.
        assert (Ht : tot = cones_dim (k :: pre)) by (rewrite cones_dim_cons; lia).
        change (k :: pre ++ rest) with ((k :: pre) ++ rest).
        rewrite (run_sem (k :: pre)) by (try (constructor; assumption); rewrite cones_dim_cons; lia).
        rewrite InP_cons, Pnn. cbn [cone_dim]. rewrite Nat2N.id, <- Ht.
        rewrite <- (IH rest) by (try lia; try assumption; rewrite skipn_length; lia).
        rewrite firstn_length. split; [intros [H1 H2]; repeat split; auto; lia|tauto].
      * rewrite !InP_cons. rewrite <- (IH r) by (try lia; try assumption; rewrite skipn_length; lia).
        reflexivity.
Qed.
End Generic.

Lemma collapse_sem_ok : stmt_collapse_sem.
Proof.
  intros K v Hwf Hv. split.
  - apply (collapse_sem_fuel in_cone); try assumption; try lia.
    + intros k w H1 H2 H3. apply (run_cone_sem k w H1 H2 H3).
    + intros n w. unfold in_cone. cbn [cone_dim]. reflexivity.
  - apply (collapse_sem_fuel in_dual); try assumption; try lia.
    + intros k w H1 H2 H3. apply (run_cone_sem k w H1 H2 H3).
    + intros n w. unfold in_dual. cbn [cone_dim]. reflexivity.
Qed.

(** * what is never touched *)
Lemma filter_runs_nil pre : Forall (fun k => is_runD k = true) pre ->
  filter (fun k => negb (is_runD k)) pre = [].
Proof.
  induction pre as [|k pre IH]; intros H; [reflexivity|]. inversion H as [|x y Hk H']; subst.
  cbn [filter]. rewrite Hk. cbn [negb]. apply IH. exact H'.
Qed.

Lemma collapse_keeps_fuel : forall fuel K, length K <= fuel ->
  filter (fun k => negb (is_runD k)) (collapseD_fuel fuel K) = filter (fun k => negb (is_runD k)) K.
Proof.
  induction fuel as [|f IH]; intros K Hlen.
  - destruct K; [reflexivity|cbn in Hlen; lia].
  - destruct K as [|k r]; [reflexivity|]. cbn [length] in Hlen. cbn [collapseD_fuel].
    destruct (cone_dim k =? 0) eqn:E0.
    + cbn [filter]. unfold is_runD at 2. rewrite E0. cbn [orb negb]. apply IH. lia.
    + destruct (collapsibleD k) as [d|] eqn:Ec.
      * destruct (collapse_runD r d) as [tot rest] eqn:Er.
        destruct (collapse_runD_spec r d tot rest Er) as [pre [Hr [_ [Hrun _]]]]. subst r.
        rewrite app_length in Hlen. cbn [filter].
        assert (H1 : is_runD (KNN (N.of_nat tot)) = true) by (unfold is_runD, collapsibleD; cbn; apply orb_true_r).
        assert (H2 : is_runD k = true) by (unfold is_runD; rewrite Ec; apply orb_true_r).
        rewrite H1, H2. cbn [negb]. rewrite filter_app, (filter_runs_nil pre Hrun). cbn [app]. apply IH. lia.
      * cbn [filter]. rewrite IH by lia. reflexivity.
Qed.

Lemma collapse_keeps_others_ok : stmt_collapse_keeps_others.
Proof. intros K. apply collapse_keeps_fuel. lia. Qed.

Lemma zero_not_absorbed_ok : stmt_zero_not_absorbed.
Proof.
  split; [vm_compute; reflexivity|]. intros H.
  assert (H2 : InK [KNN 2] [1%R; 1%R]).
  { unfold InK. cbn [chunks cone_dim]. constructor; [|constructor]. cbn [fst snd]. unfold in_cone.
    cbn [cone_dim]. split; [reflexivity|]. repeat constructor; lra. }
  apply H in H2. unfold InK in H2. cbn [chunks cone_dim] in H2.
  inversion H2 as [|x y _ H3]; subst. inversion H3 as [|x y H4 _]; subst.
  cbn [fst snd] in H4. unfold in_cone in H4. destruct H4 as [_ H4].
  change (firstn (N.to_nat 1) (skipn (N.to_nat 1) [1%R; 1%R])) with [1%R] in H4.
  inversion H4 as [|x y H5 _]; subst. lra.
Qed.
