(** Statements of the C09 theorems (proofs in Presolve/Lemmas.v). *)
From Coq Require Import List Arith ZArith Lia Bool.
Import ListNotations.
Require Import Clarabel.Base.Ops Clarabel.Csc.Model Clarabel.Csc.Spec Clarabel.Presolve.Model.

Definition total (cs : list cone) : nat := fold_right (fun c a => nvars c + a) 0 cs.

(** What a row "is" as far as cone membership goes: a scalar nonnegativity constraint
    (rows of NN cones, and the single row of a second-order or PSD cone of dimension 1,
    which is the same constraint), or position [pos] of a particular non-scalar cone. *)
Inductive rowtag : Set := RNN | RIn (c : cone) (pos : nat).
Definition cone_rows (c : cone) : list rowtag :=
  match collapsible c with
  | Some d => repeat RNN d
  | None => map (RIn c) (seq 0 (nvars c))
  end.
Definition rowsig (cs : list cone) : list rowtag := flat_map cone_rows cs.

(** per-row flag "this row lies in a cone the presolver treats as nonnegative" *)
Definition nn_rows (cs : list cone) : list bool :=
  flat_map (fun c => repeat (is_nn c) (nvars c)) cs.

Fixpoint no_adjacent_nn (cs : list cone) : Prop :=
  match cs with
  | a :: ((b :: _) as r) => (is_nn a = true -> is_nn b = false) /\ no_adjacent_nn r
  | _ => True
  end.

(** collapsing keeps every row's meaning and leaves a clean list *)
Definition stmt_collapsed : Prop :=
  forall cs : list cone,
    let cs' := new_collapsed cs in
    rowsig cs' = rowsig cs /\ total cs' = total cs /\
    Forall (fun c => nvars c <> 0 /\ c <> SOC 1 /\ c <> PSDC 1) cs' /\
    no_adjacent_nn cs'.

(** after collapsing, the presolver's notion of "nonnegative row" is exactly "scalar row" *)
Definition stmt_collapsed_nn_rows : Prop :=
  forall cs : list cone,
    nn_rows (new_collapsed cs) = map (fun t => match t with RNN => true | _ => false end) (rowsig cs).

Section Stmts.
Context {T : Type} (O : Ops T).

Definition stmt_keep_map : Prop :=
  forall (cs : list cone) (b : list T) (thr : T), length b = total cs ->
    length (keep_map O cs b thr) = length b /\
    forall i, i < length b ->
      nth i (keep_map O cs b thr) true =
      negb (nth i (nn_rows cs) false && ltb O thr (nth i b (zero O))).

Definition drops_only_nn (cs : list cone) (keep : list bool) : Prop :=
  forall i, nth i keep true = false -> nth i (nn_rows cs) false = true.

Definition stmt_reduce_cones : Prop :=
  forall (cs : list cone) (keep : list bool),
    length keep = total cs -> drops_only_nn cs keep ->
    (forall c, In c cs -> is_nn c = false -> collapsible c = None) ->
    total (reduce_cones cs keep) = count_true keep /\
    rowsig (reduce_cones cs keep) = select (rowsig cs) keep /\
    (Forall (fun c => nvars c <> 0) cs -> Forall (fun c => nvars c <> 0) (reduce_cones cs keep)).

Definition stmt_expand : Prop :=
  forall (keep : list bool) (v : list T) (fill : T), length v = count_true keep ->
    length (expand keep v fill) = length keep /\
    select (expand keep v fill) keep = v /\
    (forall i, i < length keep -> nth i keep true = false -> nth i (expand keep v fill) (zero O) = fill) /\
    (forall i, nth i keep false = true -> nth i (expand keep v fill) (zero O) = nth (rank keep i) v (zero O)).

Definition stmt_select : Prop :=
  forall (v : list T) (keep : list bool), length v = length keep ->
    length (select v keep) = count_true keep /\
    forall i, nth i keep false = true -> nth (rank keep i) (select v keep) (zero O) = nth i v (zero O).

(** with the cap, no internal right-hand side exceeds the bound (w.r.t. the order used by
    the code), and entries not above the bound are untouched *)
Definition stmt_cap : Prop :=
  forall (infbound : T) (b : list T) (i : nat), i < length b ->
    nth i (cap O infbound b) (zero O) =
    if ltb O infbound (nth i b (zero O)) then infbound else nth i b (zero O).

(** the internal problem is the user's problem with exactly the dropped rows deleted:
    dense meaning of A, the right-hand side, and the meaning of every remaining row *)
Definition stmt_build_reduced : Prop := Laws O ->
  forall (eps ten infbound : T) (A : @csc T) (b : list T) (cones : list cone),
    Canonical A -> nr A = length b -> length b = total cones ->
    let thr := threshold O eps ten infbound in
    let cs := new_collapsed cones in
    let keep := keep_map O cs b thr in
    let I := build O true eps ten infbound A b cones in
    reduced keep = true ->
    ikeep I = Some keep /\
    Canonical (iA I) /\ nr (iA I) = count_true keep /\ nc (iA I) = nc A /\
    length (ib I) = count_true keep /\ total (icones I) = count_true keep /\
    rowsig (icones I) = select (rowsig cones) keep /\
    (forall i j, nth i keep false = true -> get O (iA I) (rank keep i) j = get O A i j) /\
    (forall i, nth i keep false = true ->
        nth (rank keep i) (ib I) (zero O) = omin O (nth i b (zero O)) infbound) /\
    (forall i, i < length b ->
        (nth i keep true = false <->
         nth i (rowsig cones) (RIn ExpC 0) = RNN /\ ltb O thr (nth i b (zero O)) = true)).

Definition stmt_build_unreduced : Prop :=
  forall (pe : bool) (eps ten infbound : T) (A : @csc T) (b : list T) (cones : list cone),
    let keep := keep_map O (new_collapsed cones) b (threshold O eps ten infbound) in
    (pe = false \/ reduced keep = false) ->
    build O pe eps ten infbound A b cones =
    mkInternal A (cap O infbound b) (new_collapsed cones) None.

(** re-inserting zeros at dropped rows does not change A'z: the dual residual and b'z of the
    user's problem are those of the reduced problem *)
Definition stmt_dual_neutral : Prop := Laws O ->
  forall (A : @csc T) (keep : list bool) (z : list T) (j : nat),
    Canonical A -> length keep = nr A -> length z = count_true keep ->
    sum_upto O (nr A) (fun i => mul O (get O A i j) (nth i (expand keep z (zero O)) (zero O))) =
    sum_upto O (count_true keep) (fun i' => mul O (get O (select_rows A keep) i' j) (nth i' z (zero O))).

End Stmts.

(** every use of a solver sees the bound that was in the cell when that solver was built *)
Section BoundStmt.
Context {T : Type}.
Fixpoint cell_after (dflt : T) (c : T) (ops : list (@bop T)) : T :=
  match ops with
  | [] => c
  | SetInf v :: r => cell_after dflt v r
  | DefaultInf :: r => cell_after dflt dflt r
  | _ :: r => cell_after dflt c r
  end.
Definition stmt_bound_captured : Prop :=
  forall (dflt c0 : T) (pre mid post : list (@bop T)) (id : nat),
    (forall o, In o mid -> o <> Build id) ->
    let ops := pre ++ [Build id] ++ mid ++ [Use id] ++ post in
    nth (length pre + 1 + length mid) (brun dflt (mkB c0 []) ops) None
    = Some (cell_after dflt c0 pre).
End BoundStmt.

(** ** the property's wording "at or above the bound" (real interpretation): with a positive
    bound and positive eps, ten the contracted threshold lies strictly below the bound, so every
    scalar-nonnegative row whose right-hand side is at or above the bound is dropped, and every
    row strictly below the threshold -- and every row of any other cone -- is kept *)
From Coq Require Import Reals.
Definition stmt_at_or_above_dropped : Prop :=
  forall (eps ten inf : R) (cones : list cone) (b : list R) (i : nat),
    (0 < eps)%R -> (0 < ten)%R -> (0 < inf)%R ->
    length b = total cones -> i < length b ->
    let keep := keep_map OpsR (new_collapsed cones) b (threshold OpsR eps ten inf) in
    (nth i (rowsig cones) (RIn ExpC 0) = RNN -> (inf <= nth i b 0)%R -> nth i keep true = false) /\
    ((nth i b 0 <= threshold OpsR eps ten inf)%R -> nth i keep true = true) /\
    (nth i (rowsig cones) (RIn ExpC 0) <> RNN -> nth i keep true = true).

(** ** hand deletion: the user's cone list with the dropped rows deleted by hand (scalar cones
    shrink to the number of kept rows, every other cone is untouched) has, row for row, the
    meaning of the internal cone list; so has its collapsed form, which is what a solver built
    from the hand-reduced problem uses *)
Fixpoint hand_reduce (cs : list cone) (keep : list bool) : list cone :=
  match cs with
  | [] => []
  | c :: r =>
      let k := nvars c in
      (match collapsible c with
       | Some _ => NNC (count_true (firstn k keep))
       | None => c
       end) :: hand_reduce r (skipn k keep)
  end.
Definition drops_only_scalar (cs : list cone) (keep : list bool) : Prop :=
  forall i, nth i keep true = false -> nth i (rowsig cs) (RIn ExpC 0) = RNN.
Definition stmt_hand_reduce : Prop :=
  forall (cones : list cone) (keep : list bool),
    length keep = total cones -> drops_only_scalar cones keep ->
    rowsig (hand_reduce cones keep) = select (rowsig cones) keep /\
    rowsig (new_collapsed (hand_reduce cones keep)) = rowsig (reduce_cones (new_collapsed cones) keep).

(** ... and, as lists: the cone list the solver holds after presolve is exactly the collapsed
    form of the hand-reduced user list (so a solver built with presolve off from the hand-reduced
    problem holds the same internal cones) *)
Definition stmt_hand_reduce_commutes : Prop :=
  forall (cones : list cone) (keep : list bool),
    length keep = total cones -> drops_only_scalar cones keep ->
    new_collapsed (hand_reduce cones keep) = reduce_cones (new_collapsed cones) keep.

(** ** the global bound with several live solvers: every history *)
Section GlobalStmts.
Context {T : Type} (O : Ops T).
Notation gop := (@gop T).
Notation gstate := (@gstate T).
Notation solverM := (@solverM T).

Fixpoint gcell_after (dflt c : T) (ops : list gop) : T :=
  match ops with
  | [] => c
  | GSet v :: r => gcell_after dflt v r
  | GDefault :: r => gcell_after dflt dflt r
  | _ :: r => gcell_after dflt c r
  end.
Definition is_new (o : gop) : bool := match o with GNew _ _ _ _ => true | _ => false end.
Definition count_new (ops : list gop) : nat := length (filter is_new ops).
Definition updates (k : nat) (o : gop) : Prop := exists nb, o = GUpdateB k nb.
(** everything in a solver object except the right-hand side that update_b may overwrite *)
Definition frozen (sv : solverM) :=
  (sv_bound sv, sv_m sv, iA (sv_int sv), icones (sv_int sv), ikeep (sv_int sv)).

(** the cell holds the last value set (or the default after default_infinity); get returns it;
    building, solving and updating never write it *)
Definition stmt_gcell : Prop :=
  forall (dflt eps ten : T) (s : gstate) (pre post : list gop),
    g_cell (gafter O dflt eps ten s pre) = gcell_after dflt (g_cell s) pre /\
    nth (length pre) (grun O dflt eps ten s (pre ++ [GGet] ++ post)) ONone
      = OGet (gcell_after dflt (g_cell s) pre) /\
    (forall v, gcell_after dflt (g_cell s) (pre ++ [GSet v]) = v) /\
    gcell_after dflt (g_cell s) (pre ++ [GDefault]) = dflt.

(** an existing solver is never changed by later operations, whatever they are, except that an
    accepted update_b addressed to it replaces its right-hand side *)
Definition stmt_gfrozen : Prop :=
  forall (dflt eps ten : T) (s : gstate) (ops : list gop) (k : nat) (sv : solverM),
    nth_error (g_solvers s) k = Some sv ->
    exists sv', nth_error (g_solvers (gafter O dflt eps ten s ops)) k = Some sv' /\
                frozen sv' = frozen sv /\
                ((forall o, In o ops -> ~ updates k o) -> sv' = sv).

(** a solver built after history [pre] is the [build] under the bound then in the cell; what a
    later solve reports (rows restored, fill values s = that bound, z = 0) and its capped internal
    right-hand side depend on nothing else -- in particular not on the cell at solve time, nor on
    other solvers built under other bounds in between *)
Definition stmt_gsolve : Prop :=
  forall (dflt eps ten : T) (s : gstate) (pre mid post : list gop)
         (pe : bool) (A : @csc T) (b : list T) (cones : list cone),
    let c := gcell_after dflt (g_cell s) pre in
    let I := build O pe eps ten c A b cones in
    let k := length (g_solvers s) + count_new pre in
    let ops := pre ++ [GNew pe A b cones] ++ mid ++ [GSolve k] ++ post in
    nth (length pre) (grun O dflt eps ten s ops) ONone = ONew (ikeep I) (ib I) (icones I) /\
    exists b',
      nth (length pre + 1 + length mid) (grun O dflt eps ten s ops) ONone
        = OSolve (keep_or_all I (length b)) c (zero O) b' /\
      ((forall o, In o mid -> ~ updates k o) -> b' = ib I).

(** update_b: refused on a presolved solver (state unchanged), otherwise stored as given --
    without reading the cell *)
Definition stmt_gupdate : Prop :=
  forall (dflt eps ten : T) (s : gstate) (k : nat) (nb : list T) (sv : solverM),
    nth_error (g_solvers s) k = Some sv ->
    let '(s', out) := gstep O dflt eps ten s (GUpdateB k nb) in
    g_cell s' = g_cell s /\
    (ikeep (sv_int sv) <> None -> s' = s /\ out = OUpd false (ib (sv_int sv))) /\
    (ikeep (sv_int sv) = None -> nb <> [] -> length nb = length (ib (sv_int sv)) ->
       out = OUpd true nb /\
       nth_error (g_solvers s') k = Some (mkSolver (sv_bound sv) (sv_m sv) (set_ib (sv_int sv) nb))).
End GlobalStmts.

(** ** the reverse map of the solution, all parts together: x untouched, s and z of the user's
    length, kept rows in place and in order, dropped rows s = captured bound, z = 0 *)
Section ReverseStmt.
Context {T : Type} (O : Ops T).
Definition reverse_sol (keep : option (list bool)) (bound : T) (xsz : list T * list T * list T) :=
  let '(x, s, z) := xsz in (x, reverse_s keep bound s, reverse_z O keep z).
Definition stmt_reverse : Prop :=
  forall (keep : list bool) (bound : T) (x s z : list T),
    length s = count_true keep -> length z = count_true keep ->
    let '(x', s', z') := reverse_sol (Some keep) bound (x, s, z) in
    x' = x /\ length s' = length keep /\ length z' = length keep /\
    select s' keep = s /\ select z' keep = z /\
    (forall i, i < length keep -> nth i keep true = false ->
       nth i s' (zero O) = bound /\ nth i z' bound = zero O) /\
    (forall i, nth i keep false = true ->
       nth i s' (zero O) = nth (rank keep i) s (zero O) /\ nth i z' (zero O) = nth (rank keep i) z (zero O)) /\
    (forall xsz, reverse_sol None bound xsz = xsz).
End ReverseStmt.
