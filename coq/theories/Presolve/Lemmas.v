(** Proofs of the vector-level C09 statements of Presolve/Spec.v: keep-map characterisation,
    select / expand round trip, cap, and the bound state machine. *)
From Coq Require Import List Arith Lia Bool.
Import ListNotations.
Require Import Clarabel.Base.Ops Clarabel.Csc.Model Clarabel.Csc.Spec Clarabel.Csc.LemmasStruct.
Require Import Clarabel.Presolve.Model Clarabel.Presolve.Spec.

(** * generic list facts *)
Lemma combine_app {X Y} (a1 a2 : list X) (b1 b2 : list Y) :
  length a1 = length b1 -> combine (a1 ++ a2) (b1 ++ b2) = combine a1 b1 ++ combine a2 b2.
Proof.
  revert b1. induction a1 as [|x a1 IH]; intros [|y b1] H; cbn in H; try discriminate; [reflexivity|].
  cbn [app combine]. f_equal. apply IH. lia.
Qed.

Lemma combine_repeat_map {X Y} (x : X) (f : X * Y -> bool) (l : list Y) n :
  length l = n -> map f (combine (repeat x n) l) = map (fun y => f (x, y)) l.
Proof.
  revert n. induction l as [|y l IH]; intros [|n] H; cbn in H; try discriminate; [reflexivity|].
  cbn [repeat combine map]. f_equal. apply IH. lia.
Qed.

Lemma nth_firstn_lt {X} (l : list X) : forall n i d, i < n -> nth i (firstn n l) d = nth i l d.
Proof.
  induction l as [|x l IH]; intros n i d H; [rewrite firstn_nil; reflexivity|].
  destruct n as [|n]; [lia|]. cbn [firstn]. destruct i as [|i]; [reflexivity|]. cbn [nth]. apply IH. lia.
Qed.

Lemma nth_skipn_plus {X} (l : list X) : forall n i d, nth i (skipn n l) d = nth (n + i) l d.
Proof.
  induction l as [|x l IH]; intros n i d.
  - rewrite skipn_nil. destruct i, n; reflexivity.
  - destruct n as [|n]; [reflexivity|]. cbn [skipn Nat.add nth]. apply IH.
Qed.

Lemma nth_repeat_lt {X} (x d : X) : forall n i, i < n -> nth i (repeat x n) d = x.
Proof.
  induction n as [|n IH]; intros i H; [lia|]. cbn [repeat]. destruct i as [|i]; [reflexivity|]. cbn [nth]. apply IH. lia.
Qed.

Lemma total_cons c cs : total (c :: cs) = nvars c + total cs.
Proof. reflexivity. Qed.

Lemma total_app a b : total (a ++ b) = total a + total b.
Proof. induction a as [|c a IH]; [reflexivity|]. cbn [app]. rewrite !total_cons, IH. lia. Qed.

Lemma nn_rows_cons c cs : nn_rows (c :: cs) = repeat (is_nn c) (nvars c) ++ nn_rows cs.
Proof. reflexivity. Qed.

Lemma nn_rows_length cs : length (nn_rows cs) = total cs.
Proof.
  induction cs as [|c cs IH]; [reflexivity|].
  rewrite nn_rows_cons, app_length, repeat_length, IH, total_cons. reflexivity.
Qed.

Lemma count_true_cons (b : bool) l : count_true (b :: l) = (if b then 1 else 0) + count_true l.
Proof. unfold count_true. apply countb_cons. Qed.

Lemma count_true_app a b : count_true (a ++ b) = count_true a + count_true b.
Proof.
  induction a as [|x a IH]; [reflexivity|]. cbn [app]. rewrite !count_true_cons, IH. lia.
Qed.

Lemma count_true_repeat_true n : count_true (repeat true n) = n.
Proof. induction n as [|n IH]; [reflexivity|]. cbn [repeat]. rewrite count_true_cons, IH. reflexivity. Qed.

Lemma count_true_le l : count_true l <= length l.
Proof. induction l as [|x l IH]; [cbn; lia|]. rewrite count_true_cons. cbn [length]. destruct x; lia. Qed.

Lemma reduced_false_iff keep : reduced keep = false <-> keep = repeat true (length keep).
Proof.
  unfold reduced. rewrite negb_false_iff. induction keep as [|k keep IH]; [cbn; tauto|].
  cbn [forallb length repeat]. rewrite andb_true_iff, IH. split.
  - intros [H1 H2]. subst k. f_equal. exact H2.
  - intros H. injection H as H1 H2. split; assumption.
Qed.

Lemma reduced_true_iff keep : reduced keep = true <-> exists i, i < length keep /\ nth i keep true = false.
Proof.
  unfold reduced. rewrite negb_true_iff. induction keep as [|k keep IH].
  - cbn. split; [discriminate|]. intros [i [H _]]. lia.
  - cbn [forallb length]. rewrite andb_false_iff, IH. split.
    + intros [H|[i [H1 H2]]].
      * exists 0. subst k. cbn. split; [lia|reflexivity].
      * exists (S i). cbn [nth]. split; [lia|exact H2].
    + intros [[|i] [H1 H2]].
      * left. exact H2.
      * right. exists i. cbn [nth] in H2. split; [lia|exact H2].
Qed.

Lemma reduced_count keep : reduced keep = true <-> count_true keep < length keep.
Proof.
  unfold reduced. rewrite negb_true_iff. induction keep as [|k keep IH]; [cbn; split; [discriminate|lia]|].
  cbn [forallb length]. rewrite count_true_cons, andb_false_iff, IH.
  pose proof (count_true_le keep) as Hle. destruct k.
  - split; intros H1.
    + destruct H1 as [H1|H1]; [discriminate|]. lia.
    + right. lia.
  - split; intros H1; [lia|]. left. reflexivity.
Qed.

(** * select and expand *)
Section Vec.
Context {X : Type}.

Lemma select_nil_r (v : list X) : select v [] = [].
Proof. destruct v; reflexivity. Qed.

Lemma select_cons (x : X) v (k : bool) keep :
  select (x :: v) (k :: keep) = if k then x :: select v keep else select v keep.
Proof. reflexivity. Qed.

Lemma select_app (v1 v2 : list X) k1 k2 :
  length v1 = length k1 -> select (v1 ++ v2) (k1 ++ k2) = select v1 k1 ++ select v2 k2.
Proof.
  revert k1. induction v1 as [|x v1 IH]; intros [|k k1] H; cbn in H; try discriminate; [reflexivity|].
  cbn [app]. rewrite !select_cons, IH by lia. destruct k; reflexivity.
Qed.

Lemma select_length (v : list X) keep :
  length v = length keep -> length (select v keep) = count_true keep.
Proof.
  revert keep. induction v as [|x v IH]; intros [|k keep] H; cbn in H; try discriminate; [reflexivity|].
  rewrite select_cons, count_true_cons. destruct k; cbn [length]; rewrite IH by lia; reflexivity.
Qed.

Lemma select_all_true (v : list X) : select v (repeat true (length v)) = v.
Proof. induction v as [|x v IH]; [reflexivity|]. cbn [length repeat]. rewrite select_cons, IH. reflexivity. Qed.

Lemma select_repeat (x : X) n keep :
  length keep = n -> select (repeat x n) keep = repeat x (count_true keep).
Proof.
  revert n. induction keep as [|k keep IH]; intros [|n] H; cbn in H; try discriminate; [reflexivity|].
  cbn [repeat]. rewrite select_cons, count_true_cons, IH by lia. destruct k; reflexivity.
Qed.

Lemma select_nth (d : X) (v : list X) keep :
  length v = length keep ->
  forall i, nth i keep false = true -> nth (rank keep i) (select v keep) d = nth i v d.
Proof.
  revert keep. induction v as [|x v IH]; intros [|k keep] H i Hi; cbn in H; try discriminate.
  - destruct i; discriminate.
  - rewrite select_cons. destruct i as [|i].
    + cbn [nth] in Hi. subst k. rewrite rank_0. reflexivity.
    + cbn [nth] in Hi. rewrite rank_S. destruct k; cbn [Nat.add nth]; apply IH; try lia; exact Hi.
Qed.

End Vec.

Lemma select_map {X Y} (f : X -> Y) (v : list X) keep : select (map f v) keep = map f (select v keep).
Proof.
  revert keep. induction v as [|x v IH]; intros [|k keep]; try reflexivity.
  cbn [map]. rewrite !select_cons, IH. destruct k; reflexivity.
Qed.

Section Stmts.
Context {T : Type} (O : Ops T).

Lemma expand_length keep (v : list T) fill : length (expand keep v fill) = length keep.
Proof.
  revert v. induction keep as [|k keep IH]; intros v; [reflexivity|].
  cbn [expand]. destruct k; [destruct v|]; cbn [length]; rewrite IH; reflexivity.
Qed.

Lemma expand_select keep (v : list T) fill :
  length v = count_true keep -> select (expand keep v fill) keep = v.
Proof.
  revert v. induction keep as [|k keep IH]; intros v H.
  - destruct v; [reflexivity|discriminate].
  - rewrite count_true_cons in H. cbn [expand]. destruct k.
    + destruct v as [|x v]; [cbn in H; lia|]. rewrite select_cons. f_equal. apply IH. cbn in H. lia.
    + rewrite select_cons. apply IH. exact H.
Qed.

Lemma expand_dropped keep (v : list T) fill d :
  forall i, i < length keep -> nth i keep true = false -> nth i (expand keep v fill) d = fill.
Proof.
  revert v. induction keep as [|k keep IH]; intros v i Hi Hk; [cbn in Hi; lia|].
  cbn [expand]. destruct i as [|i].
  - cbn [nth] in Hk. subst k. reflexivity.
  - cbn [nth length] in Hk, Hi. destruct k; [destruct v|]; cbn [nth]; apply IH; try lia; exact Hk.
Qed.

Lemma expand_kept keep (v : list T) fill d :
  length v = count_true keep ->
  forall i, nth i keep false = true -> nth i (expand keep v fill) d = nth (rank keep i) v d.
Proof.
  revert v. induction keep as [|k keep IH]; intros v H i Hk; [destruct i; discriminate|].
  rewrite count_true_cons in H. cbn [expand]. destruct i as [|i].
  - cbn [nth] in Hk. subst k. destruct v as [|x v]; [cbn in H; lia|]. rewrite rank_0. reflexivity.
  - cbn [nth] in Hk. rewrite rank_S. destruct k.
    + destruct v as [|x v]; [cbn in H; lia|]. cbn [nth Nat.add]. apply IH; [cbn in H; lia|exact Hk].
    + cbn [nth Nat.add]. apply IH; [exact H|exact Hk].
Qed.

Lemma expand_ok : stmt_expand O.
Proof.
  intros keep v fill H. split; [apply expand_length|]. split; [apply expand_select; exact H|]. split.
  - intros i Hi Hk. apply expand_dropped; assumption.
  - intros i Hk. apply expand_kept; assumption.
Qed.

Lemma select_ok : stmt_select O.
Proof.
  intros v keep H. split; [apply select_length; exact H|]. intros i Hi. apply select_nth; assumption.
Qed.

(** expansion is the only list of the user's length that restricts to [v] on kept rows and
    holds [fill] on dropped rows: ordering and positions are forced *)
Lemma expand_unique keep (v w : list T) fill :
  length v = count_true keep -> length w = length keep ->
  select w keep = v ->
  (forall i, i < length keep -> nth i keep true = false -> nth i w fill = fill) ->
  w = expand keep v fill.
Proof.
  revert v w. induction keep as [|k keep IH]; intros v w Hv Hw Hs Hd.
  - destruct w; [reflexivity|discriminate].
  - destruct w as [|y w]; [discriminate|]. rewrite select_cons in Hs. rewrite count_true_cons in Hv.
    cbn [length] in Hw. cbn [expand]. destruct k.
    + subst v. f_equal. apply IH; try lia; try reflexivity.
      * cbn [length] in Hv. lia.
      * intros i Hi Hk. apply (Hd (S i)); [cbn [length]; lia|exact Hk].
    + f_equal.
      * apply (Hd 0); [cbn [length]; lia|reflexivity].
      * apply IH; try lia; try exact Hs.
        intros i Hi Hk. apply (Hd (S i)); [cbn [length]; lia|exact Hk].
Qed.

(** * cap *)
Lemma cap_length infbound (b : list T) : length (cap O infbound b) = length b.
Proof. unfold cap. apply map_length. Qed.

Lemma cap_nth infbound (b : list T) i d : i < length b ->
  nth i (cap O infbound b) d = omin O (nth i b d) infbound.
Proof.
  intros H. unfold cap.
  rewrite (nth_indep _ d (omin O d infbound)) by (rewrite map_length; exact H).
  rewrite (map_nth (fun x => omin O x infbound)). reflexivity.
Qed.

Lemma cap_ok : stmt_cap O.
Proof. intros infbound b i H. rewrite cap_nth by exact H. reflexivity. Qed.

(** * keep-map *)
Lemma keep_map_combine cs : forall (b : list T) thr, length b = total cs ->
  keep_map O cs b thr = map (fun p => negb (fst p && ltb O thr (snd p))) (combine (nn_rows cs) b).
Proof.
  induction cs as [|c cs IH]; intros b thr H.
  - destruct b; [reflexivity|discriminate].
  - rewrite total_cons in H. cbn [keep_map]. rewrite nn_rows_cons.
    assert (Hf : length (firstn (nvars c) b) = nvars c) by (rewrite firstn_length; lia).
    transitivity (map (fun p => negb (fst p && ltb O thr (snd p)))
                      (combine (repeat (is_nn c) (nvars c) ++ nn_rows cs)
                               (firstn (nvars c) b ++ skipn (nvars c) b)));
      [|rewrite firstn_skipn; reflexivity].
    rewrite combine_app by (rewrite repeat_length, Hf; reflexivity).
    rewrite map_app. f_equal.
    + rewrite combine_repeat_map by exact Hf. destruct (is_nn c); cbn [fst snd andb]; reflexivity.
    + apply IH. rewrite skipn_length. lia.
Qed.

Lemma keep_map_ok : stmt_keep_map O.
Proof.
  intros cs b thr H. rewrite keep_map_combine by exact H.
  assert (HL : length (combine (nn_rows cs) b) = length b).
  { rewrite combine_length, nn_rows_length. lia. }
  split; [rewrite map_length; exact HL|]. intros i Hi.
  rewrite (nth_indep _ true ((fun p => negb (fst p && ltb O thr (snd p))) (false, zero O)))
    by (rewrite map_length, HL; exact Hi).
  rewrite (map_nth (fun p => negb (fst p && ltb O thr (snd p)))), combine_nth
    by (rewrite nn_rows_length; lia).
  reflexivity.
Qed.

Lemma keep_map_length cs (b : list T) thr : length b = total cs -> length (keep_map O cs b thr) = length b.
Proof. intros H. apply keep_map_ok. exact H. Qed.

Lemma keep_map_drops_only_nn cs (b : list T) thr :
  length b = total cs -> drops_only_nn cs (keep_map O cs b thr).
Proof.
  intros H i Hi. destruct (Nat.lt_ge_cases i (length b)) as [Hlt|Hge].
  - destruct (keep_map_ok cs b thr H) as [_ Hn]. rewrite (Hn i Hlt) in Hi.
    apply negb_false_iff, andb_true_iff in Hi. apply Hi.
  - rewrite nth_overflow in Hi by (rewrite keep_map_length by exact H; exact Hge). discriminate.
Qed.

End Stmts.

(** * the bound state machine *)
Section BoundProofs.
Context {T : Type}.
Notation bop := (@bop T).
Notation bstate := (@bstate T).

Fixpoint bafter (dflt : T) (s : bstate) (ops : list bop) : bstate :=
  match ops with
  | [] => s
  | o :: r => bafter dflt (fst (bstep dflt s o)) r
  end.

Lemma brun_app (dflt : T) (s : bstate) (ops1 ops2 : list bop) :
  brun dflt s (ops1 ++ ops2) = brun dflt s ops1 ++ brun dflt (bafter dflt s ops1) ops2.
Proof.
  revert s. induction ops1 as [|o r IH]; intros s; [reflexivity|].
  cbn [app brun bafter]. destruct (bstep dflt s o) as [s' out] eqn:E. cbn [fst]. rewrite IH. reflexivity.
Qed.

Lemma brun_length (dflt : T) (s : bstate) (ops : list bop) : length (brun dflt s ops) = length ops.
Proof.
  revert s. induction ops as [|o r IH]; intros s; [reflexivity|].
  cbn [brun]. destruct (bstep dflt s o). cbn [length]. rewrite IH. reflexivity.
Qed.

Lemma cell_bafter (dflt : T) (s : bstate) (ops : list bop) : cell (bafter dflt s ops) = cell_after dflt (cell s) ops.
Proof.
  revert s. induction ops as [|o r IH]; intros s; [reflexivity|].
  cbn [bafter]. rewrite IH. destruct o; reflexivity.
Qed.

Definition lookup (id : nat) (s : bstate) : option T :=
  option_map snd (find (fun p => fst p =? id) (built s)).

Lemma lookup_preserved (dflt : T) id (s : bstate) (ops : list bop) :
  (forall o, In o ops -> o <> Build id) -> lookup id (bafter dflt s ops) = lookup id s.
Proof.
  revert s. induction ops as [|o r IH]; intros s H; [reflexivity|].
  cbn [bafter]. rewrite IH by (intros o' Ho'; apply H; right; exact Ho').
  assert (Ho : o <> Build id) by (apply H; left; reflexivity).
  destruct o as [v| |id'|id']; try reflexivity.
  unfold lookup. cbn [bstep fst built find]. destruct (Nat.eqb_spec id' id) as [E|E]; [|reflexivity].
  subst id'. contradiction.
Qed.

Lemma bound_captured_ok : @stmt_bound_captured T.
Proof.
  intros dflt c0 pre mid post id Hmid ops. subst ops.
  rewrite brun_app. rewrite app_nth2 by (rewrite brun_length; lia). rewrite brun_length.
  replace (length pre + 1 + length mid - length pre) with (S (length mid)) by lia.
  set (s1 := bafter dflt (mkB c0 []) pre).
  cbn [app brun bstep]. cbn [nth].
  rewrite brun_app. rewrite app_nth2 by (rewrite brun_length; lia). rewrite brun_length, Nat.sub_diag.
  set (s2 := mkB (cell s1) ((id, cell s1) :: built s1)).
  cbn [app brun bstep nth].
  change (option_map snd (find (fun p => fst p =? id) (built (bafter dflt s2 mid))))
    with (lookup id (bafter dflt s2 mid)).
  rewrite lookup_preserved by exact Hmid. unfold lookup, s2. cbn [built find fst]. rewrite Nat.eqb_refl.
  cbn [option_map snd]. unfold s1. rewrite cell_bafter. reflexivity.
Qed.
End BoundProofs.
