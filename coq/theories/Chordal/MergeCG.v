(* ------------------------------------------------------------------ *)
(*  Chordal/MergeCG.v                                                   *)
(*                                                                      *)
(*  Executable, decision-level model of clarabel's clique-graph merge   *)
(*  strategy (src/solver/chordal/merge/clique_graph.rs, generic loop    *)
(*  `merge_cliques` of merge/mod.rs), up to but NOT including           *)
(*  `post_process_merge` (Kruskal / split_cliques are not modelled).    *)
(*                                                                      *)
(*  [cg_run snode sep] returns the sequence of decisions                *)
(*  (c1, c2, do_merge) taken by the loop and the final clique sets.     *)
(*                                                                      *)
(*  Self-contained: stdlib + lia only.  Zero axioms.                    *)
(*                                                                      *)
(*  ---------------- what was read off the Rust ----------------------- *)
(*  R1  `findmax` = `iter().enumerate().max_by_key(..)`.  Rust's        *)
(*      `max_by_key` returns the LAST maximal element, so `max_elem`    *)
(*      returns the LAST maximum in storage order (column-major, rows   *)
(*      ascending), although its comment says "first".  Modelled: last. *)
(*  R2  `sortperm_rev` = `p.sort_by(|i,j| v[j].cmp(v[i]))`: a STABLE    *)
(*      sort by decreasing weight; equal weights stay in increasing     *)
(*      storage index.  The fallback loop runs k = 1.. and therefore    *)
(*      skips p[0] = the FIRST maximal entry, which in case of ties is  *)
(*      NOT the entry `max_elem` already tried (that one is the last    *)
(*      maximum and is tried a second time).  Modelled literally.       *)
(*  R3  `ispermissible` compares `int1.eq(int2)` where both are         *)
(*      indexmap `Intersection` ITERATORS: this is `Iterator::eq`, an   *)
(*      ORDER-SENSITIVE element-wise comparison (elements of            *)
(*      snode[c_1], resp. snode[c_2], in their own insertion order,     *)
(*      filtered by membership in snode[neighbor]).  Two equal sets     *)
(*      listed in different orders compare unequal.  Modelled           *)
(*      literally, hence all sets are `list nat` in IndexSet ITERATION  *)
(*      ORDER: `insert` appends, `shift_remove` keeps the order, the    *)
(*      union appends the new elements of the source in source order.   *)
(*      => the harness must pass `snode`/`sep` in iteration order of    *)
(*      `t.snode[i]`/`t.separators[i]` (NOT sorted) to compare traces.  *)
(*      [ispermissible_set] is the order-insensitive variant.           *)
(*  R4  `new_from_triplets` sums duplicate (row,col) triplets.  A       *)
(*      separator occurring k times in `t.separators` (siblings with    *)
(*      the same separator; several roots with the empty separator) is  *)
(*      processed k times, so the initial weight of such an edge is k   *)
(*      times the metric.  Explicit zeros are kept by the constructor.  *)
(*  R5  `set_entry` overwrites an existing entry (also with 0), and     *)
(*      does not insert a new entry whose value is 0.  `dropzeros`      *)
(*      afterwards removes every stored 0, also a recomputed weight     *)
(*      that happens to be 0; the adjacency table keeps that neighbour. *)
(*  R6  `evaluate`: cand = (row, col) of the entry, c1 = row > c2 = col;*)
(*      the SMALLER index is merged into the LARGER one.                *)
(*  R7  `stop` is set exactly when do_merge = false, after which        *)
(*      `update_strategy` is a no-op and the loop ends; so no flag.     *)
(*                                                                      *)
(*  ---------------- doubts / deviations ------------------------------ *)
(*  D1  Panics.  Rust panics in `max_elem` (`findmax(..).unwrap()`)     *)
(*      when the edge matrix has no stored entry (e.g. n_cliques = 1    *)
(*      at entry - the caller guards with n_cliques > 1).  The model    *)
(*      stops with status [CgPanicEmpty] and [cg_run] just returns the  *)
(*      decisions so far.  `p` has the length of the INITIAL nnz and    *)
(*      `p[0..nnz]` would panic if nnz grew beyond it; not modelled     *)
(*      (nnz cannot grow when stored weights are nonzero).  Out of      *)
(*      range indexing / `unwrap` on a missing adjacency key is         *)
(*      modelled by defaults ([] / no-op), except D2.                   *)
(*  D2  The loop checks `c2 < c1 < n` for the candidate and stops with  *)
(*      [CgBadCandidate] otherwise.  Rust has no such check; section 7  *)
(*      proves the check can never fail ([cg_run_never_bad]), so it is  *)
(*      dead code that only serves the unconditional cover theorem.     *)
(*      Likewise the fuel never runs out ([cg_run_fuel_suffices]).      *)
(*  D3  isize overflow of the cubic metric is ignored (Z weights).      *)
(*  D4  `inter_equal` has early exits on a running bound; I checked by  *)
(*      hand that they never change the result, which is                *)
(*      "s1 /\ s2 = s3 as sets" (for duplicate-free sets).  Modelled as *)
(*      inclusion of the intersection in s3 plus equal cardinality.     *)
(*  D5  HashMap iteration order (`adjacency_table.values_mut()`, the    *)
(*      order of `common_neighbors`) never influences a result.  DFS    *)
(*      discovery order is modelled but only the partition matters.     *)
(*  D6  `separators.sort_by_key(Reverse(len))` is stable; it permutes   *)
(*      `t.separators` in place (they no longer correspond to snode     *)
(*      indices afterwards); irrelevant for the decisions.              *)
(*  D7  `initialise` zips snode with separators (shorter length wins).  *)
(*                                                                      *)
(*  ---------------- cross-check done --------------------------------- *)
(*  The functions of clique_graph.rs / merge/mod.rs / csc core+utils    *)
(*  were copied verbatim into a stand-alone program (scratch:           *)
(*  /tmp/cgchk, decision log added to the generic loop) and run on      *)
(*  about 8800 random inputs (clique trees with 2..13 cliques, sorted   *)
(*  and scrambled separator orders, forests, arbitrary non-tree sets,   *)
(*  ~1100 runs entering the fallback loop, ~190 panics): decisions,     *)
(*  final sets and the panic status agree with [cg_run_ext] in all.     *)
(* ------------------------------------------------------------------ *)

From Coq Require Import List Arith ZArith Lia Bool Permutation PeanoNat.
Import ListNotations.
Open Scope nat_scope.

(* ================================================================== *)
(** * 1. Ordered sets (indexmap::IndexSet<usize>)                       *)
(* ================================================================== *)

Definition mem (x : nat) (l : list nat) : bool := existsb (Nat.eqb x) l.

(** `IndexSet::insert`: appended at the end when absent. *)
Definition ins (x : nat) (l : list nat) : list nat :=
  if mem x l then l else l ++ [x].

(** `for &el in source { target.insert(el) }` *)
Definition union_into (t s : list nat) : list nat :=
  fold_left (fun acc e => ins e acc) s t.

(** `a.intersection(&b)` : elements of [a], in the order of [a]. *)
Definition inter (a b : list nat) : list nat := filter (fun e => mem e b) a.

(** `shift_remove` *)
Definition remove1 (x : nat) (l : list nat) : list nat :=
  filter (fun e => negb (e =? x)) l.

Definition subset (a b : list nat) : bool := forallb (fun e => mem e b) a.

(** `Iterator::eq` on two sequences *)
Fixpoint list_eqb (a b : list nat) : bool :=
  match a, b with
  | [], [] => true
  | x :: a', y :: b' => (x =? y) && list_eqb a' b'
  | _, _ => false
  end.

Fixpoint set_nth {A : Type} (i : nat) (x : A) (l : list A) {struct l} : list A :=
  match l, i with
  | [], _ => []
  | _ :: t, 0 => x :: t
  | h :: t, S i' => h :: set_nth i' x t
  end.

Definition upd (i : nat) (f : list nat -> list nat) (l : list (list nat))
  : list (list nat) := set_nth i (f (nth i l [])) l.

(* ================================================================== *)
(** * 2. Edge metric                                                    *)
(* ================================================================== *)

(** `intersect_dim`: iterate over the smaller set (the second one on a
    tie), count members of the other. *)
Definition intersect_dim (s1 s2 : list nat) : nat :=
  if length s1 <? length s2 then length (inter s1 s2) else length (inter s2 s1).

Definition union_dim (s1 s2 : list nat) : nat :=
  length s1 + length s2 - intersect_dim s1 s2.

Definition edge_metric (a b : list nat) : Z :=
  let n1 := Z.of_nat (length a) in
  let n2 := Z.of_nat (length b) in
  let nm := Z.of_nat (union_dim a b) in
  (n1 ^ 3 + n2 ^ 3 - nm ^ 3)%Z.

(* ================================================================== *)
(** * 3. Reduced clique graph                                           *)
(* ================================================================== *)

(** stable sort by decreasing length (`sort_by_key(|b| Reverse(b.len()))`) *)
Fixpoint insert_sep (x : list nat) (l : list (list nat)) : list (list nat) :=
  match l with
  | [] => [x]
  | y :: l' => if length x <? length y then y :: insert_sep x l' else x :: l
  end.

Definition sort_seps (l : list (list nat)) : list (list nat) :=
  fold_right insert_sep [] l.

(** `position_all` *)
Fixpoint positions_from {A : Type} (f : A -> bool) (k : nat) (l : list A)
  : list nat :=
  match l with
  | [] => []
  | x :: l' => (if f x then [k] else []) ++ positions_from f (S k) l'
  end.

Definition positions {A : Type} (f : A -> bool) (l : list A) : list nat :=
  positions_from f 0 l.

(** `inter_equal(s1, s2, s3)`  (see D4) *)
Definition inter_equal (s1 s2 s3 : list nat) : bool :=
  let i := if length s1 <? length s2 then inter s1 s2 else inter s2 s1 in
  forallb (fun e => mem e s3) i && (length i =? length s3).

(** neighbour list of [v] in the separator graph H, in push order *)
Definition sep_graph (snodes : list (list nat)) (sep : list nat)
           (cind : list nat) (v : nat) : list nat :=
  filter (fun u => negb (u =? v) &&
                   negb (inter_equal (nth (Nat.min u v) snodes [])
                                     (nth (Nat.max u v) snodes []) sep)) cind.

(** `DFS_hashtable`; [vis] is the visited list in discovery order. *)
Fixpoint dfs (fuel : nat) (H : nat -> list nat) (v : nat) (vis : list nat)
  : list nat :=
  match fuel with
  | 0 => vis ++ [v]
  | S f => fold_left (fun vs u => if mem u vs then vs else dfs f H u vs)
                     (H v) (vis ++ [v])
  end.

Definition find_components (H : nat -> list nat) (cind : list nat)
  : list (list nat) :=
  snd (fold_left
         (fun (st : list nat * list (list nat)) v =>
            let (vis, comps) := st in
            if mem v vis then st
            else let vis' := dfs (S (length cind)) H v vis in
                 (vis', comps ++ [skipn (length vis) vis']))
         cind ([], [])).

Definition is_unconnected (p : nat * nat) (comps : list (list nat)) : bool :=
  match find (fun c => mem (fst p) c) comps with
  | Some c => negb (mem (snd p) c)
  | None => false (* Rust: unwrap panics; cannot happen *)
  end.

Fixpoint pairs_lt (l : list nat) : list (nat * nat) :=
  match l with
  | [] => []
  | x :: l' => map (fun y => (x, y)) l' ++ pairs_lt l'
  end.

(** the (row, col) pairs pushed for one separator *)
Definition sep_edges (snodes : list (list nat)) (sep : list nat)
  : list (nat * nat) :=
  let cind := positions (fun x => subset sep x) snodes in
  let H := sep_graph snodes sep cind in
  let comps := find_components H cind in
  map (fun p => (Nat.max (fst p) (snd p), Nat.min (fst p) (snd p)))
      (filter (fun p => is_unconnected p comps) (pairs_lt cind)).

(** `compute_reduced_clique_graph` : (row, col) in push order; [snodes]
    are the full cliques. *)
Definition reduced_clique_graph (seps snodes : list (list nat))
  : list (nat * nat) :=
  flat_map (sep_edges snodes) (sort_seps seps).

(* ================================================================== *)
(** * 4. The edge matrix (CscMatrix<isize>, lower triangle)             *)
(* ================================================================== *)

(** entries ((col,row), weight) in storage order: by column, then row. *)
Definition edges := list ((nat * nat) * Z).

Definition key_eq (k1 k2 : nat * nat) : bool :=
  (fst k1 =? fst k2) && (snd k1 =? snd k2).
Definition key_lt (k1 k2 : nat * nat) : bool :=
  (fst k1 <? fst k2) || ((fst k1 =? fst k2) && (snd k1 <? snd k2)).

Fixpoint add_entry (k : nat * nat) (w : Z) (l : edges) : edges :=
  match l with
  | [] => [(k, w)]
  | (k', w') :: l' =>
      if key_eq k k' then (k', (w' + w)%Z) :: l'
      else if key_lt k k' then (k, w) :: l
      else (k', w') :: add_entry k w l'
  end.

(** `new_from_triplets` on (row, col, value) triplets *)
Definition edges_of_triplets (ts : list (nat * nat * Z)) : edges :=
  fold_left (fun acc t => add_entry (snd (fst t), fst (fst t)) (snd t) acc) ts [].

Fixpoint get_entry (k : nat * nat) (l : edges) : option Z :=
  match l with
  | [] => None
  | (k', w') :: l' => if key_eq k k' then Some w' else get_entry k l'
  end.

Fixpoint set_entry (k : nat * nat) (v : Z) (l : edges) : edges :=
  match l with
  | [] => if (v =? 0)%Z then [] else [(k, v)]
  | (k', w') :: l' =>
      if key_eq k k' then (k', v) :: l'
      else if key_lt k k' then (if (v =? 0)%Z then l else (k, v) :: l)
      else (k', w') :: set_entry k v l'
  end.

Definition dropzeros (l : edges) : edges :=
  filter (fun e => negb (snd e =? 0)%Z) l.

(** (row, col) of a stored entry *)
Definition coord (e : (nat * nat) * Z) : nat * nat := (snd (fst e), fst (fst e)).

(** last maximal entry (R1) *)
Fixpoint max_entry (best : (nat * nat) * Z) (l : edges) : (nat * nat) * Z :=
  match l with
  | [] => best
  | e :: l' => if (snd best <=? snd e)%Z then max_entry e l' else max_entry best l'
  end.

Definition max_elem (l : edges) : option (nat * nat) :=
  match l with
  | [] => None (* Rust: panic *)
  | e :: l' => Some (coord (max_entry e l'))
  end.

(** stable sort by decreasing weight (R2) *)
Fixpoint insert_desc (x : (nat * nat) * Z) (l : edges) : edges :=
  match l with
  | [] => [x]
  | y :: l' => if (snd x <? snd y)%Z then y :: insert_desc x l' else x :: l
  end.

Definition sort_desc (l : edges) : edges := fold_right insert_desc [] l.

(** `compute_adjacency_table`; the table is the finite map
    clique |-> neighbour list, [nth c adj []]. *)
Definition compute_adjacency (E : edges) (n : nat) : list (list nat) :=
  fold_left (fun a e =>
               let row := snd (fst e) in
               let col := fst (fst e) in
               upd col (ins row) (upd row (ins col) a))
            E (repeat [] n).

(* ================================================================== *)
(** * 5. The strategy                                                   *)
(* ================================================================== *)

Definition ispermissible (edge : nat * nat) (adj snode : list (list nat)) : bool :=
  let (c1, c2) := edge in
  forallb (fun nb => list_eqb (inter (nth c1 snode []) (nth nb snode []))
                              (inter (nth c2 snode []) (nth nb snode [])))
          (inter (nth c1 adj []) (nth c2 adj [])).

(** order-insensitive variant (what the comment in the Rust describes) *)
Definition ispermissible_set (edge : nat * nat) (adj snode : list (list nat)) : bool :=
  let (c1, c2) := edge in
  forallb (fun nb =>
             let i1 := inter (nth c1 snode []) (nth nb snode []) in
             let i2 := inter (nth c2 snode []) (nth nb snode []) in
             subset i1 i2 && subset i2 i1)
          (inter (nth c1 adj []) (nth c2 adj [])).

Definition cg_traverse (E : edges) (adj snode : list (list nat))
  : option (nat * nat) :=
  match max_elem E with
  | None => None
  | Some e =>
      if ispermissible e adj snode then Some e
      else find (fun e' => ispermissible e' adj snode)
                (map coord (tl (sort_desc E)))
  end.

Definition cg_evaluate (E : edges) (cand : nat * nat) : bool :=
  match get_entry (snd cand, fst cand) E with
  | Some w => (0 <=? w)%Z
  | None => false (* Rust: unwrap panics *)
  end.

(** `merge_two_cliques` *)
Definition cg_merge (snode : list (list nat)) (c1 c2 : nat) : list (list nat) :=
  if c1 =? c2 then set_nth c2 [] snode
  else set_nth c2 []
         (set_nth c1 (union_into (nth c1 snode []) (nth c2 snode [])) snode).

(** `update_strategy` (do_merge = true); [snode] is the state AFTER the
    merge, [n] the number of columns of the matrix. *)
Definition cg_update (n : nat) (E : edges) (adj snode : list (list nat))
           (c1 cr : nat) : edges * list (list nat) :=
  let C1 := nth c1 snode [] in
  let neighbors := nth c1 adj [] in
  let new_neighbors :=
    filter (fun e => negb (mem e neighbors) && negb (e =? c1)) (nth cr adj []) in
  let reweigh := fun (E : edges) (k : nat) =>
    set_entry (Nat.min c1 k, Nat.max c1 k) (edge_metric C1 (nth k snode [])) E in
  let E1 := fold_left (fun E k => if k =? cr then E else reweigh E k) neighbors E in
  let E2 := fold_left reweigh new_neighbors E1 in
  let E3 := fold_left (fun E row => set_entry (cr, row) 0%Z E)
                      (seq (S cr) (n - S cr)) E2 in
  let E4 := fold_left (fun E col => set_entry (col, cr) 0%Z E) (seq 0 cr) E3 in
  let E5 := dropzeros E4 in
  let adj1 := fold_left (fun a nn => upd nn (ins c1) (upd c1 (ins nn) a))
                        new_neighbors adj in
  let adj2 := set_nth cr [] adj1 in
  (E5, map (remove1 cr) adj2).

Inductive cg_status :=
| CgStopped       (* evaluate said no: `stop` *)
| CgNoCandidate   (* traverse returned None *)
| CgOneClique     (* n_cliques = 1 *)
| CgPanicEmpty    (* Rust panics: max_elem on an empty matrix (D1) *)
| CgBadCandidate  (* impossible, see D2 *)
| CgOutOfFuel.    (* impossible: every continuing iteration merges *)

Fixpoint cg_loop (fuel n : nat) (snode : list (list nat)) (E : edges)
         (adj : list (list nat)) (ncl : nat) (acc : list (nat * nat * bool))
  : list (nat * nat * bool) * list (list nat) * cg_status :=
  match fuel with
  | 0 => (rev acc, snode, CgOutOfFuel)
  | S f =>
      match cg_traverse E adj snode with
      | None => (rev acc, snode,
                 match E with [] => CgPanicEmpty | _ => CgNoCandidate end)
      | Some (c1, c2) =>
          if negb ((c2 <? c1) && (c1 <? n)) then (rev acc, snode, CgBadCandidate)
          else if cg_evaluate E (c1, c2) then
            let snode' := cg_merge snode c1 c2 in
            let (E', adj') := cg_update n E adj snode' c1 c2 in
            let ncl' := ncl - 1 in
            if ncl' =? 1 then (rev ((c1, c2, true) :: acc), snode', CgOneClique)
            else cg_loop f n snode' E' adj' ncl' ((c1, c2, true) :: acc)
          else (rev ((c1, c2, false) :: acc), snode, CgStopped)
      end
  end.

(** `initialise`, first loop: cliques := snode ∪ sep *)
Fixpoint init_cliques (snode sep : list (list nat)) : list (list nat) :=
  match snode, sep with
  | s :: sn, p :: sp => union_into s p :: init_cliques sn sp
  | _, _ => snode
  end.

Definition init_edges (cl sep : list (list nat)) : edges :=
  edges_of_triplets
    (map (fun rc => (rc, edge_metric (nth (fst rc) cl []) (nth (snd rc) cl [])))
         (reduced_clique_graph sep cl)).

Definition cg_run_ext (snode sep : list (list nat))
  : list (nat * nat * bool) * list (list nat) * cg_status :=
  let n := length snode in
  let cl := init_cliques snode sep in
  let E := init_edges cl sep in
  let adj := compute_adjacency E n in
  cg_loop (n * n + 2) n cl E adj n [].

Definition cg_run (snode sep : list (list nat))
  : list (nat * nat * bool) * list (list nat) :=
  fst (cg_run_ext snode sep).

(* ================================================================== *)
(** * 5b. Hand-traced examples                                          *)
(* ================================================================== *)

(** A star: three cliques {0,2,3,4}, {1,2,3,4}, {2,3,4,5}; the two
    children have the same separator {2,3,4}, which is therefore
    processed twice (R4): every pair is pushed twice. *)
Example ex_star_rcg :
  reduced_clique_graph [[2;3;4];[2;3;4];[]] [[0;2;3;4];[1;2;3;4];[2;3;4;5]]
  = [(1,0);(2,0);(2,1);(1,0);(2,0);(2,1)].
Proof. vm_compute. reflexivity. Qed.

(** ... the weights 4^3+4^3-5^3 = 3 are doubled. *)
Example ex_star_edges :
  init_edges [[0;2;3;4];[1;2;3;4];[2;3;4;5]] [[2;3;4];[2;3;4];[]]
  = [((0,1),6%Z);((0,2),6%Z);((1,2),6%Z)].
Proof. vm_compute. reflexivity. Qed.

(** All weights tie: `max_elem` picks the LAST one, (row 2, col 1) (R1);
    clique 1 is merged into clique 2 (appended in order 2,3,4,5,1);
    the surviving edge (2,0) gets 5^3+4^3-6^3 = -27: stop. *)
Example ex_star :
  cg_run_ext [[0];[1];[2;3;4;5]] [[2;3;4];[2;3;4];[]]
  = ([(2,1,true);(2,0,false)], [[0;2;3;4];[];[2;3;4;5;1]], CgStopped).
Proof. vm_compute. reflexivity. Qed.

(** A chain {0,1,2}-{1,2,3}-{2,3,4}: weights 27+27-64 = -10, no merge. *)
Example ex_chain_small :
  cg_run [[0];[1];[2;3;4]] [[1;2];[2;3];[]]
  = ([(2,1,false)], [[0;1;2];[1;2;3];[2;3;4]]).
Proof. vm_compute. reflexivity. Qed.

(** A chain {0,1,2,3}-{1,2,3,4}-{2,3,4,5}: (2,1) merges (weight 3); the
    edge (1,0) of the removed clique is re-pointed to (2,0) (clique 0 is
    a `new_neighbor`) with weight 125+64-216 = -27: stop. *)
Example ex_chain :
  cg_run [[0];[1];[2;3;4;5]] [[1;2;3];[2;3;4];[]]
  = ([(2,1,true);(2,0,false)], [[0;1;2;3];[];[2;3;4;5;1]]).
Proof. vm_compute. reflexivity. Qed.

(** Star with the small separator {0}: weight 2*(8+8-27) = -22. *)
Example ex_star_small :
  cg_run [[1];[2];[0;3]] [[0];[0];[]]
  = ([(2,1,false)], [[1;0];[2;0];[0;3]]).
Proof. vm_compute. reflexivity. Qed.

(** Two cliques that merge: the loop ends on n_cliques = 1. *)
Example ex_two :
  cg_run_ext [[0];[1;2;3;4]] [[1;2;3];[]]
  = ([(1,0,true)], [[];[1;2;3;4;0]], CgOneClique).
Proof. vm_compute. reflexivity. Qed.

(** A single clique: Rust would panic in `max_elem` (D1). *)
Example ex_one :
  cg_run_ext [[0;1]] [[]] = ([], [[0;1]], CgPanicEmpty).
Proof. vm_compute. reflexivity. Qed.

(** Fallback of `traverse` (R1, R2) on a hand-made state.  Stored order:
    (1,0):5, (2,0):5, (2,1):3.  `max_elem` = LAST maximum = (2,0), not
    permissible (common neighbour 1).  Stable sort: p = [(1,0);(2,0);(2,1)];
    the loop starts at k = 1, so (1,0) is never looked at, (2,0) is tried
    again, then (2,1), which is permissible. *)
Example ex_fallback :
  cg_traverse [((0,1),5%Z);((0,2),5%Z);((1,2),3%Z)]
              [[1;2];[0;2];[0;1]] [[0;1];[1;2;3];[1;2;4]]
  = Some (2,1).
Proof. vm_compute. reflexivity. Qed.

(** Order sensitivity of `ispermissible` (R3): cliques 0 and 1 are equal
    as sets and so are their intersections with clique 2. *)
Example ex_order_sensitive :
  ispermissible (1,0) [[1;2];[0;2];[0;1]] [[0;1];[1;0];[0;1;2]] = false /\
  ispermissible_set (1,0) [[1;2];[0;2];[0;1]] [[0;1];[1;0];[0;1;2]] = true.
Proof. vm_compute. split; reflexivity. Qed.

(* ================================================================== *)
(** * 6. Facts                                                          *)
(* ================================================================== *)

(** ** 6.1 sets *)

Lemma mem_In : forall x l, mem x l = true <-> In x l.
Proof.
  intros x l. unfold mem. rewrite existsb_exists. split.
  - intros [y [Hy Heq]]. apply Nat.eqb_eq in Heq. subst y. exact Hy.
  - intros Hin. exists x. split; [exact Hin | apply Nat.eqb_refl].
Qed.

Lemma ins_In : forall x y l, In y (ins x l) <-> y = x \/ In y l.
Proof.
  intros x y l. unfold ins. destruct (mem x l) eqn:Hm.
  - apply mem_In in Hm. split.
    + intros Hy. right. exact Hy.
    + intros [Heq | Hy]; [subst y; exact Hm | exact Hy].
  - rewrite in_app_iff. simpl. split.
    + intros [Hy | [Heq | []]]; [right; exact Hy | left; symmetry; exact Heq].
    + intros [Heq | Hy]; [right; left; symmetry; exact Heq | left; exact Hy].
Qed.

Lemma union_into_In : forall s t y, In y (union_into t s) <-> In y t \/ In y s.
Proof.
  unfold union_into. induction s as [|e s IH]; intros t y; simpl.
  - tauto.
  - rewrite IH, ins_In. split.
    + intros [[Heq | Ht] | Hs]; [right; left; symmetry; exact Heq | left; exact Ht | right; right; exact Hs].
    + intros [Ht | [Heq | Hs]]; [left; right; exact Ht | left; left; symmetry; exact Heq | right; exact Hs].
Qed.

Lemma ins_NoDup : forall x l, NoDup l -> NoDup (ins x l).
Proof.
  intros x l Hnd. unfold ins. destruct (mem x l) eqn:Hm; [exact Hnd|].
  apply (Permutation_NoDup (Permutation_cons_append l x)).
  constructor; [|exact Hnd].
  intros Hin. apply mem_In in Hin. congruence.
Qed.

Lemma union_into_NoDup : forall s t, NoDup t -> NoDup (union_into t s).
Proof.
  unfold union_into. induction s as [|e s IH]; intros t Hnd; simpl.
  - exact Hnd.
  - apply IH, ins_NoDup, Hnd.
Qed.

Lemma inter_In : forall a b x, In x (inter a b) <-> In x a /\ In x b.
Proof.
  intros a b x. unfold inter. rewrite filter_In, mem_In. tauto.
Qed.

Lemma inter_len_sym : forall a b,
  NoDup a -> NoDup b -> length (inter a b) = length (inter b a).
Proof.
  intros a b Ha Hb. apply Permutation_length, NoDup_Permutation.
  - apply NoDup_filter, Ha.
  - apply NoDup_filter, Hb.
  - intros x. rewrite !inter_In. tauto.
Qed.

(** ** 6.2 the metric *)

Lemma intersect_dim_sym : forall a b,
  NoDup a -> NoDup b -> intersect_dim a b = intersect_dim b a.
Proof.
  intros a b Ha Hb. unfold intersect_dim.
  destruct (Nat.ltb_spec (length a) (length b)) as [Hlt | Hge];
    destruct (Nat.ltb_spec (length b) (length a)) as [Hlt' | Hge'];
    try reflexivity; try lia.
  apply inter_len_sym; assumption.
Qed.

Lemma intersect_dim_inter : forall a b,
  NoDup a -> NoDup b -> intersect_dim a b = length (inter a b).
Proof.
  intros a b Ha Hb. unfold intersect_dim.
  destruct (length a <? length b); [reflexivity | apply inter_len_sym; assumption].
Qed.

Theorem edge_metric_sym : forall a b,
  NoDup a -> NoDup b -> edge_metric a b = edge_metric b a.
Proof.
  intros a b Ha Hb. unfold edge_metric, union_dim.
  rewrite (intersect_dim_sym a b Ha Hb), (Nat.add_comm (length a) (length b)).
  lia.
Qed.

(** the size used for the merged block is indeed |a ∪ b| *)
Lemma filter_len_le : forall (f : nat -> bool) l, length (filter f l) <= length l.
Proof.
  intros f. induction l as [|x l IH]; simpl; [lia|].
  destruct (f x); simpl; lia.
Qed.

Lemma union_dim_spec : forall b a,
  NoDup a -> NoDup b -> union_dim a b = length (union_into a b).
Proof.
  intros b a Ha Hb. unfold union_dim. rewrite (intersect_dim_sym a b Ha Hb).
  rewrite (intersect_dim_inter b a Hb Ha).
  revert a Ha. unfold union_into.
  induction b as [|e b IH]; intros a Ha; simpl.
  - lia.
  - apply NoDup_cons_iff in Hb. destruct Hb as [Hnotin Hb].
    specialize (IH Hb (ins e a) (ins_NoDup e a Ha)).
    assert (Hfil : length (inter b (ins e a)) = length (inter b a)).
    { unfold inter. f_equal. apply filter_ext_in. intros x Hx.
      destruct (mem x (ins e a)) eqn:H1; destruct (mem x a) eqn:H2; try reflexivity.
      - apply mem_In in H1. apply ins_In in H1. destruct H1 as [Heq | H1].
        + subst x. contradiction.
        + apply mem_In in H1. congruence.
      - apply mem_In in H2. assert (H3 : In x (ins e a)) by (apply ins_In; right; exact H2).
        apply mem_In in H3. congruence. }
    rewrite Hfil in IH. rewrite <- IH. unfold ins.
    assert (Hle : length (inter b a) <= length b) by (unfold inter; apply filter_len_le).
    destruct (mem e a) eqn:Hm; simpl.
    + lia.
    + rewrite app_length. simpl. lia.
Qed.

Theorem edge_metric_spec : forall a b,
  NoDup a -> NoDup b ->
  edge_metric a b =
  (Z.of_nat (length a) ^ 3 + Z.of_nat (length b) ^ 3
   - Z.of_nat (length (union_into a b)) ^ 3)%Z.
Proof.
  intros a b Ha Hb. unfold edge_metric. rewrite (union_dim_spec b a Ha Hb). reflexivity.
Qed.

(** ** 6.3 evaluate *)

Theorem cg_evaluate_iff : forall E c1 c2,
  cg_evaluate E (c1, c2) = true <->
  exists w, get_entry (c2, c1) E = Some w /\ (0 <= w)%Z.
Proof.
  intros E c1 c2. unfold cg_evaluate. simpl.
  destruct (get_entry (c2, c1) E) as [w|].
  - rewrite Z.leb_le. split.
    + intros Hw. exists w. split; [reflexivity | exact Hw].
    + intros [w' [Heq Hw]]. inversion Heq. subst w'. exact Hw.
  - split; [discriminate | intros [w [Heq _]]; discriminate].
Qed.

Theorem cg_evaluate_stops_iff : forall E c1 c2 w,
  get_entry (c2, c1) E = Some w ->
  (cg_evaluate E (c1, c2) = false <-> (w < 0)%Z).
Proof.
  intros E c1 c2 w Hget. unfold cg_evaluate. simpl. rewrite Hget.
  rewrite Z.leb_gt. tauto.
Qed.

(** ** 6.4 merge *)

Lemma set_nth_length : forall (A : Type) (l : list A) i x,
  length (set_nth i x l) = length l.
Proof.
  intros A. induction l as [|h t IH]; intros i x; simpl; [reflexivity|].
  destruct i; simpl; [reflexivity | rewrite IH; reflexivity].
Qed.

Lemma set_nth_eq : forall (A : Type) (l : list A) i x d,
  i < length l -> nth i (set_nth i x l) d = x.
Proof.
  intros A. induction l as [|h t IH]; intros i x d Hi; simpl in *; [lia|].
  destruct i; simpl; [reflexivity | apply IH; lia].
Qed.

Lemma set_nth_neq : forall (A : Type) (l : list A) i j x d,
  i <> j -> nth j (set_nth i x l) d = nth j l d.
Proof.
  intros A. induction l as [|h t IH]; intros i j x d Hij; simpl; [reflexivity|].
  destruct i; destruct j; simpl; try reflexivity; try lia.
  apply IH. lia.
Qed.

Lemma cg_merge_length : forall snode c1 c2,
  length (cg_merge snode c1 c2) = length snode.
Proof.
  intros snode c1 c2. unfold cg_merge.
  destruct (c1 =? c2); rewrite ?set_nth_length; reflexivity.
Qed.

Lemma cg_merge_nth_c1 : forall snode c1 c2,
  c1 <> c2 -> c1 < length snode ->
  nth c1 (cg_merge snode c1 c2) [] = union_into (nth c1 snode []) (nth c2 snode []).
Proof.
  intros snode c1 c2 Hne Hc1. unfold cg_merge.
  destruct (Nat.eqb_spec c1 c2) as [Heq | _]; [contradiction|].
  rewrite set_nth_neq by (intros Heq; apply Hne; symmetry; exact Heq).
  apply set_nth_eq. exact Hc1.
Qed.

Lemma cg_merge_nth_c2 : forall snode c1 c2,
  c2 < length snode -> nth c2 (cg_merge snode c1 c2) [] = [].
Proof.
  intros snode c1 c2 Hc2. unfold cg_merge.
  destruct (c1 =? c2); apply set_nth_eq; rewrite ?set_nth_length; exact Hc2.
Qed.

Lemma cg_merge_nth_other : forall snode c1 c2 i,
  i <> c1 -> i <> c2 -> nth i (cg_merge snode c1 c2) [] = nth i snode [].
Proof.
  intros snode c1 c2 i H1 H2. unfold cg_merge.
  destruct (c1 =? c2); rewrite !set_nth_neq; try reflexivity;
    intros Heq; symmetry in Heq; contradiction.
Qed.

(** every clique before the merge is contained in a clique after it *)
Theorem cg_merge_cover : forall snode c1 c2 C,
  c1 <> c2 -> c1 < length snode -> c2 < length snode ->
  In C snode ->
  exists C', In C' (cg_merge snode c1 c2) /\ incl C C'.
Proof.
  intros snode c1 c2 C Hne Hc1 Hc2 HC.
  destruct (In_nth snode C [] HC) as [i [Hi Hnth]].
  assert (Hin1 : In (nth c1 (cg_merge snode c1 c2) []) (cg_merge snode c1 c2)).
  { apply nth_In. rewrite cg_merge_length. exact Hc1. }
  destruct (Nat.eq_dec i c1) as [Hic1 | Hic1];
    [| destruct (Nat.eq_dec i c2) as [Hic2 | Hic2]].
  - exists (nth c1 (cg_merge snode c1 c2) []). split; [exact Hin1|].
    rewrite cg_merge_nth_c1 by assumption. subst i C.
    intros x Hx. apply union_into_In. left. exact Hx.
  - exists (nth c1 (cg_merge snode c1 c2) []). split; [exact Hin1|].
    rewrite cg_merge_nth_c1 by assumption. subst i C.
    intros x Hx. apply union_into_In. right. exact Hx.
  - exists (nth i (cg_merge snode c1 c2) []). split.
    + apply nth_In. rewrite cg_merge_length. exact Hi.
    + rewrite cg_merge_nth_other by assumption. subst C. apply incl_refl.
Qed.

(** the vertex set covered by the cliques is unchanged *)
Theorem cg_merge_vertices : forall snode c1 c2 v,
  c1 <> c2 -> c1 < length snode -> c2 < length snode ->
  ((exists C, In C snode /\ In v C) <->
   (exists C, In C (cg_merge snode c1 c2) /\ In v C)).
Proof.
  intros snode c1 c2 v Hne Hc1 Hc2. split.
  - intros [C [HC Hv]].
    destruct (cg_merge_cover snode c1 c2 C Hne Hc1 Hc2 HC) as [C' [HC' Hincl]].
    exists C'. split; [exact HC' | apply Hincl, Hv].
  - intros [C [HC Hv]].
    destruct (In_nth _ C [] HC) as [i [Hi Hnth]].
    rewrite cg_merge_length in Hi.
    destruct (Nat.eq_dec i c2) as [Hic2 | Hic2];
      [| destruct (Nat.eq_dec i c1) as [Hic1 | Hic1]].
    + subst i. rewrite cg_merge_nth_c2 in Hnth by exact Hc2. subst C. destruct Hv.
    + subst i. rewrite cg_merge_nth_c1 in Hnth by assumption. subst C.
      apply union_into_In in Hv. destruct Hv as [Hv | Hv].
      * exists (nth c1 snode []). split; [apply nth_In; exact Hc1 | exact Hv].
      * exists (nth c2 snode []). split; [apply nth_In; exact Hc2 | exact Hv].
    + rewrite cg_merge_nth_other in Hnth by assumption. subst C.
      exists (nth i snode []). split; [apply nth_In; exact Hi | exact Hv].
Qed.

(** ** 6.5 the loop *)

Lemma cg_loop_S : forall f n snode E adj ncl acc,
  cg_loop (S f) n snode E adj ncl acc =
  match cg_traverse E adj snode with
  | None => (rev acc, snode,
             match E with [] => CgPanicEmpty | _ => CgNoCandidate end)
  | Some (c1, c2) =>
      if negb ((c2 <? c1) && (c1 <? n)) then (rev acc, snode, CgBadCandidate)
      else if cg_evaluate E (c1, c2) then
        let snode' := cg_merge snode c1 c2 in
        let (E', adj') := cg_update n E adj snode' c1 c2 in
        let ncl' := ncl - 1 in
        if ncl' =? 1 then (rev ((c1, c2, true) :: acc), snode', CgOneClique)
        else cg_loop f n snode' E' adj' ncl' ((c1, c2, true) :: acc)
      else (rev ((c1, c2, false) :: acc), snode, CgStopped)
  end.
Proof. reflexivity. Qed.

Lemma cg_loop_cover : forall fuel n snode E adj ncl acc C,
  n = length snode -> In C snode ->
  exists C', In C' (snd (fst (cg_loop fuel n snode E adj ncl acc))) /\ incl C C'.
Proof.
  induction fuel as [|f IH]; intros n snode E adj ncl acc C Hn HC.
  - cbn [cg_loop fst snd]. exists C. split; [exact HC | apply incl_refl].
  - rewrite cg_loop_S.
    destruct (cg_traverse E adj snode) as [[c1 c2]|].
    2:{ cbn [fst snd]. exists C. split; [exact HC | apply incl_refl]. }
    destruct ((c2 <? c1) && (c1 <? n)) eqn:Hguard; cbn [negb].
    2:{ cbn [fst snd]. exists C. split; [exact HC | apply incl_refl]. }
    apply andb_true_iff in Hguard. destruct Hguard as [H21 H1n].
    apply Nat.ltb_lt in H21. apply Nat.ltb_lt in H1n.
    destruct (cg_evaluate E (c1, c2)).
    2:{ cbn [fst snd]. exists C. split; [exact HC | apply incl_refl]. }
    destruct (cg_merge_cover snode c1 c2 C) as [C1 [HC1 Hincl1]]; try lia; try exact HC.
    cbv zeta.
    destruct (cg_update n E adj (cg_merge snode c1 c2) c1 c2) as [E' adj'].
    destruct (ncl - 1 =? 1).
    + cbn [fst snd]. exists C1. split; [exact HC1 | exact Hincl1].
    + destruct (IH n (cg_merge snode c1 c2) E' adj' (ncl - 1) ((c1, c2, true) :: acc) C1)
        as [C2 [HC2 Hincl2]].
      * rewrite cg_merge_length. exact Hn.
      * exact HC1.
      * exists C2. split; [exact HC2 | eapply incl_tran; eassumption].
Qed.

Lemma init_cliques_length : forall snode sep,
  length (init_cliques snode sep) = length snode.
Proof.
  induction snode as [|s sn IH]; intros sep; simpl; [reflexivity|].
  destruct sep as [|p sp]; simpl; [reflexivity | rewrite IH; reflexivity].
Qed.

Lemma init_cliques_nth : forall snode sep i,
  i < length snode ->
  nth i (init_cliques snode sep) [] = union_into (nth i snode []) (nth i sep []).
Proof.
  induction snode as [|s sn IH]; intros sep i Hi; simpl in *; [lia|].
  destruct sep as [|p sp]; simpl.
  - destruct i; reflexivity.
  - destruct i; [reflexivity | apply IH; lia].
Qed.

(** every initial clique snode_i ∪ sep_i is contained in a final clique *)
Theorem cg_run_cover : forall snode sep i,
  i < length snode ->
  exists C', In C' (snd (cg_run snode sep)) /\
             incl (union_into (nth i snode []) (nth i sep [])) C'.
Proof.
  intros snode sep i Hi. unfold cg_run, cg_run_ext.
  rewrite <- (init_cliques_nth snode sep i Hi).
  apply cg_loop_cover.
  - symmetry. apply init_cliques_length.
  - apply nth_In. rewrite init_cliques_length. exact Hi.
Qed.

(** hence every pattern entry (u,v) covered by the input tree is covered
    by the merged cliques *)
Corollary cg_run_cover_entries : forall snode sep i u v,
  i < length snode ->
  (In u (nth i snode []) \/ In u (nth i sep [])) ->
  (In v (nth i snode []) \/ In v (nth i sep [])) ->
  exists C', In C' (snd (cg_run snode sep)) /\ In u C' /\ In v C'.
Proof.
  intros snode sep i u v Hi Hu Hv.
  destruct (cg_run_cover snode sep i Hi) as [C' [HC' Hincl]].
  exists C'. split; [exact HC'|].
  split; apply Hincl, union_into_In; assumption.
Qed.

(* ================================================================== *)
(** * 7. The candidate check of the loop is dead code (D2), and the
      fuel always suffices                                              *)
(* ================================================================== *)

(** every stored entry is strictly below the diagonal and in range *)
Definition keys_ok (n : nat) (E : edges) : Prop :=
  forall k, In k (map fst E) -> fst k < snd k /\ snd k < n.

(** no self loops, neighbours in range *)
Definition adj_ok (n : nat) (adj : list (list nat)) : Prop :=
  forall i k, In k (nth i adj []) -> k <> i /\ k < n.

Lemma key_eq_true : forall k k', key_eq k k' = true -> k = k'.
Proof.
  intros [a b] [a' b'] Heq. unfold key_eq in Heq. simpl in Heq.
  apply andb_true_iff in Heq. destruct Heq as [Ha Hb].
  apply Nat.eqb_eq in Ha. apply Nat.eqb_eq in Hb. subst. reflexivity.
Qed.

Lemma set_entry_keys : forall k v E k',
  In k' (map fst (set_entry k v E)) -> k' = k \/ In k' (map fst E).
Proof.
  intros k v. induction E as [|[k0 w0] E IH]; intros k' Hin; simpl in *.
  - destruct (v =? 0)%Z; simpl in Hin.
    + destruct Hin.
    + destruct Hin as [Heq | []]. left. symmetry. exact Heq.
  - destruct (key_eq k k0) eqn:Hke.
    + simpl in Hin. right. exact Hin.
    + destruct (key_lt k k0).
      * destruct (v =? 0)%Z; simpl in Hin.
        -- right. exact Hin.
        -- destruct Hin as [Heq | Hin]; [left; symmetry; exact Heq | right; exact Hin].
      * simpl in Hin. destruct Hin as [Heq | Hin].
        -- right. left. exact Heq.
        -- destruct (IH k' Hin) as [H1 | H1]; [left; exact H1 | right; right; exact H1].
Qed.

Lemma add_entry_keys : forall k w E k',
  In k' (map fst (add_entry k w E)) -> k' = k \/ In k' (map fst E).
Proof.
  intros k w. induction E as [|[k0 w0] E IH]; intros k' Hin; simpl in *.
  - destruct Hin as [Heq | []]. left. symmetry. exact Heq.
  - destruct (key_eq k k0) eqn:Hke.
    + simpl in Hin. right. exact Hin.
    + destruct (key_lt k k0); simpl in Hin.
      * destruct Hin as [Heq | Hin]; [left; symmetry; exact Heq | right; exact Hin].
      * destruct Hin as [Heq | Hin].
        -- right. left. exact Heq.
        -- destruct (IH k' Hin) as [H1 | H1]; [left; exact H1 | right; right; exact H1].
Qed.

Lemma set_entry_ok : forall n k v E,
  keys_ok n E -> fst k < snd k -> snd k < n -> keys_ok n (set_entry k v E).
Proof.
  intros n k v E HE Hk1 Hk2 k' Hin.
  destruct (set_entry_keys k v E k' Hin) as [Heq | Hin'].
  - subst k'. split; assumption.
  - apply HE, Hin'.
Qed.

Lemma dropzeros_ok : forall n E, keys_ok n E -> keys_ok n (dropzeros E).
Proof.
  intros n E HE k Hin. apply HE.
  apply in_map_iff in Hin. destruct Hin as [e [Hfst He]].
  unfold dropzeros in He. apply filter_In in He. destruct He as [He _].
  apply in_map_iff. exists e. split; assumption.
Qed.

Lemma fold_keys_ok : forall (A : Type) (step : edges -> A -> edges) n l,
  (forall E a, In a l -> keys_ok n E -> keys_ok n (step E a)) ->
  forall E, keys_ok n E -> keys_ok n (fold_left step l E).
Proof.
  intros A step n. induction l as [|a l IH]; intros Hstep E HE; simpl.
  - exact HE.
  - apply IH.
    + intros E0 a0 Ha0 HE0. apply Hstep; [right; exact Ha0 | exact HE0].
    + apply Hstep; [left; reflexivity | exact HE].
Qed.

(** *** adjacency *)

Lemma set_nth_cases : forall (A : Type) (l : list A) i j x d,
  (i = j /\ nth j (set_nth i x l) d = x) \/ nth j (set_nth i x l) d = nth j l d.
Proof.
  intros A l i j x d. destruct (Nat.eq_dec i j) as [Heq | Hne].
  - subst j. destruct (lt_dec i (length l)) as [Hlt | Hge].
    + left. split; [reflexivity | apply set_nth_eq; exact Hlt].
    + right. rewrite !nth_overflow; try reflexivity; rewrite ?set_nth_length; lia.
  - right. apply set_nth_neq. exact Hne.
Qed.

Lemma upd_ins_ok : forall n a i x,
  adj_ok n a -> x <> i -> x < n -> adj_ok n (upd i (ins x) a).
Proof.
  intros n a i x Ha Hxi Hxn j k Hin. unfold upd in Hin.
  destruct (set_nth_cases _ a i j (ins x (nth i a [])) []) as [[Heq Hn] | Hn];
    rewrite Hn in Hin.
  - subst j. apply ins_In in Hin. destruct Hin as [Hkx | Hin].
    + subst k. split; assumption.
    + apply Ha, Hin.
  - apply Ha, Hin.
Qed.

Lemma adj_step_ok : forall n a x y,
  adj_ok n a -> x <> y -> x < n -> y < n ->
  adj_ok n (upd y (ins x) (upd x (ins y) a)).
Proof.
  intros n a x y Ha Hxy Hx Hy.
  apply upd_ins_ok; [apply upd_ins_ok | |]; try assumption.
  intros Heq. apply Hxy. symmetry. exact Heq.
Qed.

Lemma fold_adj_ok : forall (A : Type) (step : list (list nat) -> A -> list (list nat)) n l,
  (forall a x, In x l -> adj_ok n a -> adj_ok n (step a x)) ->
  forall a, adj_ok n a -> adj_ok n (fold_left step l a).
Proof.
  intros A step n. induction l as [|x l IH]; intros Hstep a Ha; simpl.
  - exact Ha.
  - apply IH.
    + intros a0 x0 Hx0 Ha0. apply Hstep; [right; exact Hx0 | exact Ha0].
    + apply Hstep; [left; reflexivity | exact Ha].
Qed.

Lemma nth_repeat_nil : forall n i, nth i (repeat (@nil nat) n) [] = [].
Proof.
  induction n as [|n IH]; intros i; destruct i; simpl; try reflexivity. apply IH.
Qed.

Lemma compute_adjacency_ok : forall n E,
  keys_ok n E -> adj_ok n (compute_adjacency E n).
Proof.
  intros n E HE. unfold compute_adjacency.
  apply fold_adj_ok.
  - intros a e He Ha.
    assert (Hk : fst (fst e) < snd (fst e) /\ snd (fst e) < n).
    { apply HE. apply in_map. exact He. }
    apply adj_step_ok; try assumption; lia.
  - intros i k Hin. rewrite nth_repeat_nil in Hin. destruct Hin.
Qed.

Lemma remove1_In : forall x l k, In k (remove1 x l) -> In k l.
Proof.
  intros x l k Hin. unfold remove1 in Hin. apply filter_In in Hin. tauto.
Qed.

Lemma nth_map_remove1 : forall x l i,
  nth i (map (remove1 x) l) [] = remove1 x (nth i l []).
Proof.
  intros x l i. exact (map_nth (remove1 x) l [] i).
Qed.

(** *** update_strategy keeps both invariants *)

Lemma cg_update_ok : forall n E adj snode c1 cr E' adj',
  keys_ok n E -> adj_ok n adj -> cr < c1 -> c1 < n ->
  cg_update n E adj snode c1 cr = (E', adj') ->
  keys_ok n E' /\ adj_ok n adj'.
Proof.
  intros n E adj snode c1 cr E' adj' HE Hadj Hrc Hcn Hupd.
  unfold cg_update in Hupd. injection Hupd as HE' Hadj'.
  assert (Hnb : forall k, In k (nth c1 adj []) -> k <> c1 /\ k < n).
  { intros k Hk. apply Hadj, Hk. }
  assert (Hnn : forall k,
             In k (filter (fun e => negb (mem e (nth c1 adj [])) && negb (e =? c1))
                          (nth cr adj [])) -> k <> c1 /\ k < n).
  { intros k Hk. apply filter_In in Hk. destruct Hk as [Hk Hf].
    apply andb_true_iff in Hf. destruct Hf as [_ Hf].
    apply negb_true_iff in Hf. apply Nat.eqb_neq in Hf.
    split; [exact Hf | apply (Hadj cr k Hk)]. }
  assert (Hrew : forall (E0 : edges) k v, keys_ok n E0 -> k <> c1 -> k < n ->
             keys_ok n (set_entry (Nat.min c1 k, Nat.max c1 k) v E0)).
  { intros E0 k v HE0 Hk1 Hk2. apply set_entry_ok; [exact HE0 | simpl; lia | simpl; lia]. }
  split.
  - subst E'. apply dropzeros_ok.
    apply fold_keys_ok.
    { intros E0 col Hcol HE0. apply in_seq in Hcol.
      apply set_entry_ok; [exact HE0 | simpl; lia | simpl; lia]. }
    apply fold_keys_ok.
    { intros E0 row Hrow HE0. apply in_seq in Hrow.
      apply set_entry_ok; [exact HE0 | simpl; lia | simpl; lia]. }
    apply fold_keys_ok.
    { intros E0 k Hk HE0. destruct (Hnn k Hk) as [Hk1 Hk2]. apply Hrew; assumption. }
    apply fold_keys_ok.
    { intros E0 k Hk HE0. destruct (Hnb k Hk) as [Hk1 Hk2].
      destruct (k =? cr); [exact HE0 | apply Hrew; assumption]. }
    exact HE.
  - subst adj'. intros i k Hin.
    rewrite nth_map_remove1 in Hin. apply remove1_In in Hin.
    match type of Hin with
    | In k (nth i (set_nth cr [] ?a1) []) =>
        assert (Ha1 : adj_ok n a1)
    end.
    { apply fold_adj_ok; [|exact Hadj].
      intros a nn Hnn' Ha. destruct (Hnn nn Hnn') as [Hn1 Hn2].
      apply adj_step_ok; try assumption.
      intros Heq. apply Hn1. symmetry. exact Heq. }
    match type of Hin with
    | In k (nth i (set_nth cr [] ?a1) []) =>
        destruct (set_nth_cases _ a1 cr i [] []) as [[Heq Hn] | Hn]
    end; rewrite Hn in Hin.
    + destruct Hin.
    + apply Ha1, Hin.
Qed.

(** *** candidates are stored entries *)

Lemma max_entry_in : forall l best,
  max_entry best l = best \/ In (max_entry best l) l.
Proof.
  induction l as [|e l IH]; intros best; simpl.
  - left. reflexivity.
  - destruct (snd best <=? snd e)%Z.
    + destruct (IH e) as [H | H]; [right; left; symmetry; exact H | right; right; exact H].
    + destruct (IH best) as [H | H]; [left; exact H | right; right; exact H].
Qed.

Lemma coord_key : forall (e : (nat * nat) * Z) r c, coord e = (r, c) -> fst e = (c, r).
Proof.
  intros [[a b] w] r c Hc. unfold coord in Hc. simpl in *. congruence.
Qed.

Lemma max_elem_in : forall E r c,
  max_elem E = Some (r, c) -> In (c, r) (map fst E).
Proof.
  intros E r c Hm. destruct E as [|e E]; simpl in Hm; [discriminate|].
  assert (Hc : coord (max_entry e E) = (r, c)) by congruence.
  apply coord_key in Hc. rewrite <- Hc.
  apply in_map. destruct (max_entry_in E e) as [H | H].
  - rewrite H. left. reflexivity.
  - right. exact H.
Qed.

Lemma insert_desc_in : forall x l e, In e (insert_desc x l) -> e = x \/ In e l.
Proof.
  intros x. induction l as [|y l IH]; intros e Hin; simpl in *.
  - destruct Hin as [H | []]. left. symmetry. exact H.
  - destruct (snd x <? snd y)%Z; simpl in Hin.
    + destruct Hin as [H | Hin]; [right; left; exact H|].
      destruct (IH e Hin) as [H | H]; [left; exact H | right; right; exact H].
    + destruct Hin as [H | Hin]; [left; symmetry; exact H | right; exact Hin].
Qed.

Lemma sort_desc_in : forall l e, In e (sort_desc l) -> In e l.
Proof.
  unfold sort_desc. induction l as [|x l IH]; intros e Hin; simpl in *.
  - exact Hin.
  - destruct (insert_desc_in _ _ _ Hin) as [H | H]; [left; symmetry; exact H | right; apply IH, H].
Qed.

Lemma tl_in : forall (A : Type) (l : list A) e, In e (tl l) -> In e l.
Proof.
  intros A l e Hin. destruct l as [|x l]; simpl in *; [exact Hin | right; exact Hin].
Qed.

Lemma cg_traverse_in : forall E adj snode c1 c2,
  cg_traverse E adj snode = Some (c1, c2) -> In (c2, c1) (map fst E).
Proof.
  intros E adj snode c1 c2 Ht. unfold cg_traverse in Ht.
  destruct (max_elem E) as [e|] eqn:Hmax; [|discriminate].
  destruct (ispermissible e adj snode).
  - injection Ht as Ht. subst e. apply max_elem_in, Hmax.
  - apply find_some in Ht. destruct Ht as [Hin _].
    apply in_map_iff in Hin. destruct Hin as [e' [Hc He']].
    apply coord_key in Hc. rewrite <- Hc. apply in_map.
    apply sort_desc_in, tl_in, He'.
Qed.

(** *** the initial matrix *)

Lemma positions_from_bound : forall (A : Type) (f : A -> bool) l k i,
  In i (positions_from f k l) -> k <= i < k + length l.
Proof.
  intros A f. induction l as [|x l IH]; intros k i Hin; simpl in *.
  - destruct Hin.
  - apply in_app_iff in Hin. destruct Hin as [Hin | Hin].
    + destruct (f x); simpl in Hin; [|destruct Hin].
      destruct Hin as [Heq | []]. lia.
    + apply IH in Hin. lia.
Qed.

Lemma pairs_lt_In : forall l p, In p (pairs_lt l) -> In (fst p) l /\ In (snd p) l.
Proof.
  induction l as [|x l IH]; intros p Hin; simpl in *.
  - destruct Hin.
  - apply in_app_iff in Hin. destruct Hin as [Hin | Hin].
    + apply in_map_iff in Hin. destruct Hin as [y [Hp Hy]]. subst p. simpl.
      split; [left; reflexivity | right; exact Hy].
    + apply IH in Hin. destruct Hin as [H1 H2]. split; right; assumption.
Qed.

Lemma is_unconnected_neq : forall p comps,
  is_unconnected p comps = true -> fst p <> snd p.
Proof.
  intros p comps Hu. unfold is_unconnected in Hu.
  destruct (find (fun c => mem (fst p) c) comps) as [c|] eqn:Hf; [|discriminate].
  apply find_some in Hf. destruct Hf as [_ Hm].
  apply negb_true_iff in Hu. intros Heq. rewrite Heq in Hm. congruence.
Qed.

Lemma rcg_ok : forall seps snodes rc,
  In rc (reduced_clique_graph seps snodes) ->
  snd rc < fst rc /\ fst rc < length snodes.
Proof.
  intros seps snodes rc Hin. unfold reduced_clique_graph in Hin.
  apply in_flat_map in Hin. destruct Hin as [sep [_ Hin]].
  unfold sep_edges in Hin. apply in_map_iff in Hin.
  destruct Hin as [p [Hrc Hp]]. apply filter_In in Hp. destruct Hp as [Hp Hu].
  apply is_unconnected_neq in Hu. apply pairs_lt_In in Hp. destruct Hp as [H1 H2].
  unfold positions in H1, H2.
  apply positions_from_bound in H1. apply positions_from_bound in H2.
  subst rc. simpl. lia.
Qed.

Lemma edges_of_triplets_ok : forall n ts,
  (forall t, In t ts -> snd (fst t) < fst (fst t) /\ fst (fst t) < n) ->
  keys_ok n (edges_of_triplets ts).
Proof.
  intros n ts Hts. unfold edges_of_triplets. apply fold_keys_ok.
  - intros E t Ht HE k Hin.
    destruct (add_entry_keys _ _ _ _ Hin) as [Heq | Hin'].
    + subst k. simpl. apply Hts, Ht.
    + apply HE, Hin'.
  - intros k [].
Qed.

Lemma init_edges_ok : forall cl sep, keys_ok (length cl) (init_edges cl sep).
Proof.
  intros cl sep. unfold init_edges. apply edges_of_triplets_ok.
  intros t Ht. apply in_map_iff in Ht. destruct Ht as [rc [Ht Hrc]].
  subst t. simpl. apply rcg_ok in Hrc. exact Hrc.
Qed.

(** *** the loop *)

Lemma cg_loop_not_bad : forall fuel n snode E adj ncl acc,
  keys_ok n E -> adj_ok n adj ->
  snd (cg_loop fuel n snode E adj ncl acc) <> CgBadCandidate.
Proof.
  induction fuel as [|f IH]; intros n snode E adj ncl acc HE Hadj.
  - cbn [cg_loop snd]. discriminate.
  - rewrite cg_loop_S.
    destruct (cg_traverse E adj snode) as [[c1 c2]|] eqn:Ht.
    2:{ cbn [snd]. destruct E; discriminate. }
    apply cg_traverse_in in Ht. apply HE in Ht. simpl in Ht.
    destruct Ht as [H21 H1n].
    assert (Hg : (c2 <? c1) && (c1 <? n) = true).
    { apply andb_true_iff. split; apply Nat.ltb_lt; assumption. }
    rewrite Hg. cbn [negb].
    destruct (cg_evaluate E (c1, c2)).
    2:{ cbn [snd]. discriminate. }
    cbv zeta.
    destruct (cg_update n E adj (cg_merge snode c1 c2) c1 c2) as [E' adj'] eqn:Hu.
    destruct (cg_update_ok _ _ _ _ _ _ _ _ HE Hadj H21 H1n Hu) as [HE' Hadj'].
    destruct (ncl - 1 =? 1).
    + cbn [snd]. discriminate.
    + apply IH; assumption.
Qed.

Lemma cg_loop_fuel : forall fuel n snode E adj ncl acc,
  2 <= ncl -> ncl - 1 <= fuel ->
  snd (cg_loop fuel n snode E adj ncl acc) <> CgOutOfFuel.
Proof.
  induction fuel as [|f IH]; intros n snode E adj ncl acc Hncl Hfuel.
  - lia.
  - rewrite cg_loop_S.
    destruct (cg_traverse E adj snode) as [[c1 c2]|].
    2:{ cbn [snd]. destruct E; discriminate. }
    destruct (negb ((c2 <? c1) && (c1 <? n))).
    { cbn [snd]. discriminate. }
    destruct (cg_evaluate E (c1, c2)).
    2:{ cbn [snd]. discriminate. }
    cbv zeta.
    destruct (cg_update n E adj (cg_merge snode c1 c2) c1 c2) as [E' adj'].
    destruct (Nat.eqb_spec (ncl - 1) 1) as [Heq | Hne].
    + cbn [snd]. discriminate.
    + apply IH; lia.
Qed.

(** The candidate check never fails and the fuel never runs out: the
    model loop ends exactly as the Rust loop does (or where Rust panics
    on an empty matrix). *)
Theorem cg_run_never_bad : forall snode sep,
  snd (cg_run_ext snode sep) <> CgBadCandidate.
Proof.
  intros snode sep. unfold cg_run_ext. apply cg_loop_not_bad.
  - rewrite <- (init_cliques_length snode sep). apply init_edges_ok.
  - apply compute_adjacency_ok.
    rewrite <- (init_cliques_length snode sep). apply init_edges_ok.
Qed.

Theorem cg_run_fuel_suffices : forall snode sep,
  snd (cg_run_ext snode sep) <> CgOutOfFuel.
Proof.
  intros snode sep. unfold cg_run_ext.
  destruct (le_lt_dec 2 (length snode)) as [Hge | Hlt].
  - apply cg_loop_fuel; [exact Hge | nia].
  - (* at most one clique: no entry can be stored, Rust panics *)
    assert (HE : keys_ok (length snode) (init_edges (init_cliques snode sep) sep)).
    { rewrite <- (init_cliques_length snode sep). apply init_edges_ok. }
    destruct (init_edges (init_cliques snode sep) sep) as [|[k w] E'] eqn:HEq.
    + replace (length snode * length snode + 2)
        with (S (length snode * length snode + 1)) by lia.
      rewrite cg_loop_S. cbn. discriminate.
    + exfalso. specialize (HE k (or_introl eq_refl)). lia.
Qed.

Print Assumptions cg_merge_cover.
Print Assumptions cg_merge_vertices.
Print Assumptions cg_run_cover.
Print Assumptions cg_run_cover_entries.
Print Assumptions edge_metric_sym.
Print Assumptions edge_metric_spec.
Print Assumptions cg_evaluate_iff.
Print Assumptions cg_run_never_bad.
Print Assumptions cg_run_fuel_suffices.
