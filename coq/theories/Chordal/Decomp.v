(** C18 — executable model of the chordal decomposition of problem data (standard and
    compact form) and of the two reversals, parametrised by the clique trees that the
    analysis produced (the output of C17 is an input here).  No proofs in this file
    (Chordal/DecompLemmas.v).  Vertices/rows are [N], data values are [Z] (the
    correspondence runs on integer data, an exactness domain of the f64 code). *)
From Coq Require Import List Arith ZArith NArith Lia Bool.
Import ListNotations.
Require Import Clarabel.Chordal.TreeSpec Clarabel.Chordal.TriIndex Clarabel.Chordal.E2E.

(** insertion sort by a key *)
Fixpoint ins_by {A} (key : A -> N) (x : A) (l : list A) : list A :=
  match l with
  | [] => [x]
  | y :: r => if (key x <=? key y)%N then x :: y :: r else y :: ins_by key x r
  end.
Definition sort_by {A} (key : A -> N) (l : list A) : list A := fold_right (ins_by key) [] l.
Definition nsort (l : list N) : list N := sort_by (fun x => x) l.

(** clique / supernode / separator in original numbering, sorted *)
Definition ocl (t : tree) (c : N) : list N := nsort (oclique t c).
Definition osn (t : tree) (c : N) : list N := nsort (map (ord t) (sn t c)).
Definition osp (t : tree) (c : N) : list N := nsort (map (ord t) (sp t c)).

(** rows (within the original cone starting at [row0]) of the packed block of a sorted clique,
    in svec order: column by column, i <= j *)
Definition subblock (c : list N) (row0 : N) : list N :=
  flat_map (fun j => map (fun i => (row0 + coord_to_idx (i, j))%N) (filter (fun i => (i <=? j)%N) c)) c.

Definition find_tree (trees : list (N * tree)) (idx : N) : option tree :=
  match find (fun e => N.eqb (fst e) idx) trees with Some e => Some (snd e) | None => None end.
Definition nblk_at (t : tree) (i : nat) : N := nth i (nblk t) 0%N.
Definition nseq (a : N) (k : N) : list N := map (fun i => (a + N.of_nat i)%N) (seq 0 (N.to_nat k)).

(** * standard form *)
Fixpoint std_HI (cones : list cone) (trees : list (N * tree)) (idx row : N) : list N :=
  match cones with
  | [] => []
  | c :: r =>
      (match find_tree trees idx with
       | Some t => flat_map (fun cq => subblock (ocl t cq) row) (post t)
       | None => nseq row (cone_rows c)
       end) ++ std_HI r trees (idx + 1) (row + cone_rows c)
  end.
Fixpoint dec_cones (desc : bool) (cones : list cone) (trees : list (N * tree)) (idx : N) : list cone :=
  match cones with
  | [] => []
  | c :: r =>
      (match find_tree trees idx with
       | Some t => let l := map (fun i => CPSD (nblk_at t i)) (seq 0 (length (post t))) in
                   if desc then rev l else l
       | None => [c]
       end) ++ dec_cones desc r trees (idx + 1)
  end.
Definition total_rows (cones : list cone) : N := fold_left (fun a c => (a + cone_rows c)%N) cones 0%N.
Definition std_cones (cones : list cone) (trees : list (N * tree)) : list cone :=
  CZero (total_rows cones) :: dec_cones false cones trees 0.

(** the augmented constraint matrix [A H; 0 -I] by columns (row, value), rows ascending *)
Definition scol := list (N * Z).
Definition std_A (m : N) (Acols : list scol) (HI : list N) : list scol :=
  Acols ++ map (fun kh => [(snd kh, 1%Z); ((m + N.of_nat (fst kh))%N, (-1)%Z)]) (combine (seq 0 (length HI)) HI).
Definition std_b (b : list Z) (HI : list N) : list Z := b ++ repeat 0%Z (length HI).

(** reversal: s = H s1 ; z = (H z1) / (row counts of H) where the count exceeds 1 *)
Definition Hmul (m : N) (HI : list N) (v : list Z) : list Z :=
  map (fun r => fold_left (fun acc hv => if N.eqb (fst hv) r then (acc + snd hv)%Z else acc) (combine HI v) 0%Z) (nseq 0 m).
Definition Hcount (m : N) (HI : list N) : list Z := Hmul m HI (repeat 1%Z (length HI)).
Definition std_rev_s (m : N) (HI : list N) (s1 : list Z) : list Z := Hmul m HI s1.
Definition std_rev_z (m : N) (HI : list N) (z1 : list Z) : list Z :=
  map (fun sc => if (1 <? snd sc)%Z then (fst sc / snd sc)%Z else fst sc) (combine (Hmul m HI z1) (Hcount m HI)).

(** * compact form *)
(** block entries (i, j, is_overlap) of a clique, sorted by j * nv + i *)
Definition block_indices (snd_ sep_ : list N) (nv : N) : list (N * N * bool) :=
  let a := flat_map (fun j => map (fun i => (i, j, true)) (filter (fun i => (i <=? j)%N) sep_)) sep_ in
  let b := flat_map (fun j => map (fun i => (i, j, false)) (filter (fun i => (i <=? j)%N) snd_)) snd_ in
  let c := flat_map (fun i => map (fun j => (N.min i j, N.max i j, false)) sep_) snd_ in
  sort_by (fun e => (snd (fst e) * nv + fst (fst e))%N) (a ++ b ++ c).
Definition rank_in (l : list N) (v : N) : N := N.of_nat (length (filter (fun x => (x <? v)%N) l)).

(** start row of every clique position when the cliques are laid out in DESCENDING post
    order from [row] : list of (clique id, start row), for positions ncl-1, ..., 0 *)
Fixpoint layout (t : tree) (ps : list nat) (row : N) : list (N * N) :=
  match ps with
  | [] => []
  | i :: r => (nth i (post t) 0%N, row) :: layout t r (row + tri (nblk_at t i))
  end.
Definition desc_positions (t : tree) : list nat := rev (seq 0 (length (post t))).
Definition start_of (lay : list (N * N)) (c : N) : N :=
  match find (fun e => N.eqb (fst e) c) lay with Some e => snd e | None => 0%N end.

(** per decomposed cone: the row map (original row -> new row) of the non-overlap entries
    and the overlap ties (row of the +1, row of the -1), in the order the columns are created *)
Definition cone_compact (t : tree) (row0 rowptr : N) : list (N * N) * list (N * N) :=
  let lay := layout t (desc_positions t) rowptr in
  let nv := N.of_nat (length (ordering t)) in
  fold_left (fun (acc : list (N * N) * list (N * N)) i =>
    let c := nth i (post t) 0%N in
    let st := start_of lay c in
    let bi := block_indices (osn t c) (osp t c) nv in
    let pcl := match pa t c with Par q => ocl t q | _ => [] end in
    let pst := match pa t c with Par q => start_of lay q | _ => 0%N end in
    let ent := combine (seq 0 (length bi)) bi in
    let maps := flat_map (fun ke : nat * (N * N * bool) => let '(k, (i0, j0, ov)) := ke in
                   if ov then @nil (N * N) else [((row0 + coord_to_idx (i0, j0))%N, (st + N.of_nat k)%N)]) ent in
    let ovs := flat_map (fun ke : nat * (N * N * bool) => let '(k, (i0, j0, ov)) := ke in
                   if ov then [((st + N.of_nat k)%N, (pst + coord_to_idx (rank_in pcl i0, rank_in pcl j0))%N)] else @nil (N * N)) ent in
    (fst acc ++ maps, snd acc ++ ovs)) (desc_positions t) (([] : list (N * N)), ([] : list (N * N))).
Definition tree_rows (t : tree) : N := fold_left (fun a i => (a + tri (nblk_at t i))%N) (seq 0 (length (post t))) 0%N.

Fixpoint cmp_layout (cones : list cone) (trees : list (N * tree)) (idx row0 rowptr : N)
  : list (N * N) * list (N * N) :=
  match cones with
  | [] => ([], [])
  | c :: r =>
      let '(maps, ovs, used) :=
        match find_tree trees idx with
        | Some t => let mo := cone_compact t row0 rowptr in (fst mo, snd mo, tree_rows t)
        | None => (map (fun i => ((row0 + N.of_nat i)%N, (rowptr + N.of_nat i)%N)) (seq 0 (N.to_nat (cone_rows c))), [], cone_rows c)
        end in
      let rest := cmp_layout r trees (idx + 1) (row0 + cone_rows c) (rowptr + used) in
      (maps ++ fst rest, ovs ++ snd rest)
  end.
Definition cmp_cones (cones : list cone) (trees : list (N * tree)) : list cone := dec_cones true cones trees 0.
Definition cmp_total_rows (cones : list cone) (trees : list (N * tree)) : N := total_rows (cmp_cones cones trees).

Definition rowmap_get (rm : list (N * N)) (r : N) : option N :=
  match find (fun e => N.eqb (fst e) r) rm with Some e => Some (snd e) | None => None end.
(** a data column with its rows re-mapped and re-sorted; None if an entry has no image *)
Definition map_col (rm : list (N * N)) (col : scol) : option scol :=
  let im := map (fun e => match rowmap_get rm (fst e) with Some r' => Some (r', snd e) | None => None end) col in
  if forallb (fun o => match o with Some _ => true | None => false end) im
  then Some (sort_by (fun e => fst e) (flat_map (fun o => match o with Some e => [e] | None => [] end) im))
  else None.
Definition ov_col (e : N * N) : scol := sort_by (fun x => fst x) [(fst e, 1%Z); (snd e, (-1)%Z)].
Definition cmp_b (rm : list (N * N)) (b : list Z) (mnew : N) : list Z :=
  map (fun i => fold_left (fun acc e => if N.eqb (snd e) i then nth (N.to_nat (fst e)) b 0%Z else acc) rm 0%Z) (nseq 0 mnew).

(** compact reversal: cliques are visited in the order of the new cones (descending post
    order inside a decomposed cone); s accumulates, z is overwritten *)
Definition upd {A} (l : list A) (i : nat) (f : A -> A) : list A :=
  map (fun kv => if (fst kv =? i)%nat then f (snd kv) else snd kv) (combine (seq 0 (length l)) l).
Fixpoint cmp_reverse (cones : list cone) (trees : list (N * tree)) (idx row0 rowptr : N)
         (olds oldz : list Z) (acc : list Z * list Z) : list Z * list Z :=
  match cones with
  | [] => acc
  | c :: r =>
      let '(acc', used) :=
        match find_tree trees idx with
        | Some t =>
            (fun x : (list Z * list Z) * N => (fst x, (snd x - rowptr)%N))
            (fold_left (fun (au : (list Z * list Z) * N) i =>
              let '(a, ptr) := au in
              let cl := ocl t (nth i (post t) 0%N) in
              let rows := subblock cl row0 in
              let a' := fold_left (fun a2 kr =>
                          let src := N.to_nat (ptr + N.of_nat (fst kr)) in
                          let dst := N.to_nat (snd kr) in
                          (upd (fst a2) dst (fun v => (v + nth src olds 0)%Z), upd (snd a2) dst (fun _ => nth src oldz 0%Z)))
                          (combine (seq 0 (length rows)) rows) a in
              (a', (ptr + tri (N.of_nat (length cl)))%N)) (desc_positions t) (acc, rowptr))
        | None =>
            let k := N.to_nat (cone_rows c) in
            let cp (dst src : list Z) := firstn (N.to_nat row0) dst ++ firstn k (skipn (N.to_nat rowptr) src) ++ skipn (N.to_nat row0 + k) dst in
            ((cp (fst acc) olds, cp (snd acc) oldz), cone_rows c)
        end in
      cmp_reverse r trees (idx + 1) (row0 + cone_rows c) (rowptr + used) olds oldz acc'
  end.
