(** Executable case checkers for C17 (evaluated by vm_compute on the outputs of the Rust
    implementation).  Codes: 0 = the property's observable holds, 1 = violation candidate. *)
From Coq Require Import List Arith NArith Lia Bool.
Import ListNotations.
Require Import Clarabel.Chordal.TreeSpec Clarabel.Chordal.Dsu.

Definition ofb (b : bool) : N := if b then 0%N else 1%N.
Definition maxl (l : list N) : N := fold_left N.max l 0%N.
Fixpoint fails (k : N) (l : list N) : list (N * N) :=
  match l with
  | [] => []
  | c :: r => if N.eqb c 0 then fails (N.succ k) r else (k, c) :: fails (N.succ k) r
  end.

(** what the analysis did with one PSD cone *)
Inductive outcome :=
| Decomposed (t : tree)        (* a SparsityPattern was recorded: its tree *)
| Undecomposed (ncl : N)       (* none recorded; ncl = 0 if the mask was full, otherwise the
                                  number of cliques left by the same analysis run without the early exit *)
| Crashed | Hung.

(** the pattern's off-diagonal entries are given as pairs i < j < n without repetition;
    it is dense iff all n(n-1)/2 of them are present *)
Definition pat_wf (p : pat) : bool :=
  forallb (fun e => N.ltb (fst e) (snd e) && N.ltb (snd e) (pn p)) (pedges p)
  && nodupb (map (fun e => fst e * pn p + snd e)%N (pedges p)).
Definition pat_dense (p : pat) : bool :=
  N.eqb (2 * N.of_nat (length (pedges p))) (pn p * (pn p - 1)).

Definition c17_case (p : pat) (o : outcome) : N :=
  if negb (pat_wf p) then 3%N else
  match o with
  | Decomposed t => ofb (check_tree p t)
  | Undecomposed k => ofb (pat_dense p || N.eqb k 1)
  | Crashed => 1%N
  | Hung => 1%N
  end.

(** DisjointSetUnion: the answers of [in_same_set] after a sequence of unions *)
Fixpoint dsu_queries (d : dsu) (qs : list (nat * nat)) : option (list bool) :=
  match qs with
  | [] => Some []
  | (a, b) :: r =>
      match in_same_set_new d a b with
      | Some (d', ans) => match dsu_queries d' r with Some l => Some (ans :: l) | None => None end
      | None => None
      end
  end.
Definition pairs_nat (l : list (N * N)) : list (nat * nat) := map (fun e => (N.to_nat (fst e), N.to_nat (snd e))) l.
Fixpoint blist_eqb (a b : list bool) : bool :=
  match a, b with
  | [], [] => true
  | x :: a', y :: b' => Bool.eqb x y && blist_eqb a' b'
  | _, _ => false
  end.
Definition c17_dsu (n : N) (ops qs : list (N * N)) (answers : list bool) : N :=
  match run_unions_new (N.to_nat n) (pairs_nat ops) with
  | Some d => match dsu_queries d (pairs_nat qs) with
              | Some l => ofb (blist_eqb l answers)
              | None => 1%N
              end
  | None => 1%N
  end.

(** model validation (information only, code 2): the implementation's post-order equals
    the one computed by the proved model [PostOrder.post_order] from the final parent vector *)
Require Clarabel.Chordal.PostOrder.
Definition po_par (q : par) : PostOrder.par :=
  match q with Root => PostOrder.Root | Dead => PostOrder.Dead | Par x => PostOrder.Par (N.to_nat x) end.
Fixpoint natlist_eqb (a b : list nat) : bool :=
  match a, b with
  | [], [] => true
  | x :: a', y :: b' => Nat.eqb x y && natlist_eqb a' b'
  | _, _ => false
  end.
Definition c17_postorder (t : tree) : N :=
  match PostOrder.post_order (map po_par (parent t)) (N.to_nat (ncl t)) with
  | Some l => if natlist_eqb l (map N.to_nat (post t)) then 0%N else 2%N
  | None => 2%N
  end.
Definition c17_case_po (p : pat) (o : outcome) : N :=
  match c17_case p o with
  | 0%N => match o with Decomposed t => c17_postorder t | _ => 0%N end
  | c => c
  end.

(** model validation (information only, code 2): [reorder_snode_consecutively] against the proved
    model Chordal/Reorder.v — supernodes, separators (as sets) and ordering after the call *)
Require Clarabel.Chordal.Reorder.
Definition nn (l : list N) : list nat := map N.to_nat l.
Definition c17_reorder (snode seps : list (list N)) (post ordering : list N)
           (snode' seps' : list (list N)) (ordering' : list N) : N :=
  let '(ns, nsp, no) := Reorder.reorder (map nn snode) (map nn seps) (nn post) (nn ordering) in
  if natlist_eqb (concat ns) (concat (map nn snode'))
     && (length ns =? length snode')%nat
     && forallb (fun ab => natlist_eqb (Reorder.isort (fst ab)) (snd ab)) (combine nsp (map nn seps'))
     && (length nsp =? length seps')%nat
     && natlist_eqb no (nn ordering')
  then 0%N else 2%N.

(** BINDING ties (codes 41 parent-child, 42 clique-graph, 43 no-merge premises; a disagreement is
    a violation: the theorems about the models would no longer be about the code): the decisions taken by the implementation's strategy objects (hook merge_trace)
    against the Gallina models whose step lemmas are proved (MergePC, MergeCG), and the boolean
    premises of [NoMerge.nomerge_valid_partial] evaluated on the implementation's factor
    pattern, supernodes, separators and parents. *)
Require Clarabel.Chordal.NoMerge Clarabel.Chordal.MergePC.
Definition natll_eqb (a b : list (list nat)) : bool :=
  (length a =? length b)%nat && forallb (fun ab => natlist_eqb (fst ab) (snd ab)) (combine a b).
Definition dec_eqb (a b : list (nat * nat * bool)) : bool :=
  (length a =? length b)%nat
  && forallb (fun ab => let '((x, y, z), (x', y', z')) := ab in Nat.eqb x x' && Nat.eqb y y' && Bool.eqb z z') (combine a b).
Definition par_eqb (a b : PostOrder.par) : bool :=
  match a, b with
  | PostOrder.Root, PostOrder.Root => true
  | PostOrder.Dead, PostOrder.Dead => true
  | PostOrder.Par x, PostOrder.Par y => Nat.eqb x y
  | _, _ => false
  end.
Definition c17_nomerge (adj snodes seps : list (list nat)) (sp : list (option nat)) : N :=
  if NoMerge.wf_b adj && NoMerge.filled_b adj && NoMerge.ps_ok adj snodes sp
     && natll_eqb (map (NoMerge.separator adj) snodes) seps
  then 0%N else 43%N.
Definition c17_merge_pc (snode sep : list (list nat)) (parent : list PostOrder.par) (post : list nat)
           (decisions : list (nat * nat * bool)) (end_snode : list (list nat))
           (parent' : list PostOrder.par) (post' : list nat) : N :=
  let '(dec, st) := MergePC.pc_run snode sep parent post in
  if dec_eqb dec decisions
     && natll_eqb (map Reorder.isort (MergePC.snode st)) end_snode
     && (length (MergePC.parent st) =? length parent')%nat
     && forallb (fun ab => par_eqb (fst ab) (snd ab)) (combine (MergePC.parent st) parent')
     && match MergePC.pc_final_post st with Some l => natlist_eqb l post' | None => false end
  then 0%N else 41%N.
Require Clarabel.Chordal.MergeCG.
Definition c17_merge_cg (snode sep : list (list nat)) (decisions : list (nat * nat * bool))
           (end_snode : list (list nat)) : N :=
  let '(dec, cl) := MergeCG.cg_run snode sep in
  if dec_eqb dec decisions && natll_eqb (map Reorder.isort cl) end_snode then 0%N else 42%N.

(** [CscMatrix::index_to_coord] (used by the fallback scan of the clique-graph strategy) against
    the proved CSC model of C16: k-th stored entry -> (rowval[k], the column whose range holds k) *)
Require Clarabel.Csc.Model Clarabel.Csc.Check Clarabel.Base.Ops.
Definition c17_idx2coord (m n : N) (cp rv : list N) (idx : N) (out : option (N * N)) : N :=
  let A := Clarabel.Csc.Model.decode (Clarabel.Csc.Check.R m n cp rv (map (fun _ : N => BinNums.Zpos BinNums.xH) rv)) in
  match out, Clarabel.Csc.Model.index_to_coord Clarabel.Base.Ops.OpsZ A (N.to_nat idx) with
  | Some (r, c), Some (r', c') => ofb (Nat.eqb (N.to_nat r) r' && Nat.eqb (N.to_nat c) c')
  | None, None => 0%N
  | _, _ => 1%N
  end.

(** BINDING tie (code 44): the factor pattern the implementation obtains (QDLDL logical
    factorisation of the permuted pattern + connect_graph, hook factor_columns) equals
    [SymbolicFill.factor_pattern], which is proved WF and Filled for every input. *)
Require Clarabel.Chordal.SymbolicFill.
Definition c17_fill (n : nat) (edges : list (nat * nat)) (cols : list (list nat)) : N :=
  if natll_eqb (SymbolicFill.factor_pattern n edges) cols then 0%N else 44%N.

(** BINDING ties (46, 47) for the tree rebuilt by the clique-graph strategy: the edges taken by
    the implementation's kruskal on the clique graph it was handed equal the proved model's
    (maximum-weight spanning forest over the proved union-find), and the parent vector, supernodes
    and separators after determine_parent_cliques / post_order / split_cliques equal the model's. *)
Require Clarabel.Chordal.Kruskal Clarabel.Chordal.SplitCliques.
Definition c17_kruskal (n target : nat) (edges : list (nat * nat * BinNums.Z)) (taken : list bool) : N :=
  match Kruskal.kruskal_sorted n target edges with
  | Some fl => if blist_eqb fl taken then 0%N else 46%N
  | None => 46%N
  end.
Definition c17_cgtree (cliques : list (list nat)) (mst alle : list (nat * nat)) (vlast : nat)
           (parent' : list PostOrder.par) (post' : list nat) (snode' sep' : list (list nat)) : N :=
  let parent := SplitCliques.determine_parent_cliques cliques vlast mst in
  let ncl := length (filter (fun c => match c with [] => false | _ => true end) cliques) in
  match PostOrder.post_order parent ncl with
  | Some post =>
      let '(sn, sp) := SplitCliques.split_cliques cliques parent post in
      if (length parent =? length parent')%nat
         && forallb (fun ab => par_eqb (fst ab) (snd ab)) (combine parent parent')
         && natlist_eqb post post'
         && natll_eqb (map Reorder.isort sn) snode' && natll_eqb (map Reorder.isort sp) sep'
      then 0%N else 47%N
  | None => 47%N
  end.
(** BINDING tie (45): supernodes and supernode parents found by the implementation
    (pothen_sun + find_supernodes on the etree / post-order / degrees of its factor pattern) equal
    those of the proved model [PothenSun.nomerge_tree]. *)
Require Clarabel.Chordal.PothenSun.
Definition optnat_eqb (a b : option nat) : bool :=
  match a, b with Some x, Some y => Nat.eqb x y | None, None => true | _, _ => false end.
Definition c17_ps (adj snodes : list (list nat)) (sp : list (option nat)) : N :=
  let '(sn, sq) := PothenSun.nomerge_tree adj in
  if natll_eqb sn snodes && (length sq =? length sp)%nat
     && forallb (fun ab => optnat_eqb (fst ab) (snd ab)) (combine sq sp)
  then 0%N else 45%N.
