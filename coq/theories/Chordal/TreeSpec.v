(** C17 — specification of a valid clique tree over the plain-vector view of the
    implementation's [SuperNodeTree] + [ordering], and the executable checker [check_tree].
    Statements and definitions only; proofs are in Chordal/TreeLemmas.v.

    Plain-vector view (what the hook returns after [SparsityPattern::new]):
      snode, sep  : one vertex list per *initial* supernode (merged-away ones are empty),
                    vertices numbered in the permuted (tree) numbering;
      parent      : per initial supernode: [Root] (NO_PARENT), [Dead] (INACTIVE_NODE), [Par p];
      post        : the live cliques in post-order (length = n_cliques);
      nblk        : block size per *position* of [post];
      ordering    : tree vertex v is original vertex [ordering[v]];
      ncl         : n_cliques. *)
From Coq Require Import List Arith NArith Lia Bool Permutation.
Import ListNotations.

Inductive par := Root | Dead | Par (p : N).

Record tree := mkTree {
  snode : list (list N); sep : list (list N); parent : list par;
  post : list N; nblk : list N; ordering : list N; ncl : N }.

(** sparsity pattern: dimension and the structurally nonzero entries (i, j) (original numbering) *)
Record pat := mkPat { pn : N; pedges : list (N * N) }.

Definition vertices (n : N) : list N := map N.of_nat (seq 0 (N.to_nat n)).
Definition sn (t : tree) (c : N) : list N := nth (N.to_nat c) (snode t) [].
Definition sp (t : tree) (c : N) : list N := nth (N.to_nat c) (sep t) [].
Definition pa (t : tree) (c : N) : par := nth (N.to_nat c) (parent t) Dead.
Definition clique (t : tree) (c : N) : list N := sn t c ++ sp t c.
Definition ord (t : tree) (v : N) : N := nth (N.to_nat v) (ordering t) 0%N.
(** a clique in the original vertex numbering *)
Definition oclique (t : tree) (c : N) : list N := map (ord t) (clique t c).

Record ValidTree (p : pat) (t : tree) : Prop := {
  (** the vertex ordering is a permutation of 0..n-1 *)
  vt_ordering : Permutation (vertices (pn p)) (ordering t);
  (** bookkeeping: n_cliques, vector lengths, live indices in range, no clique listed twice *)
  vt_ncl : ncl t = N.of_nat (length (post t));
  vt_lengths : length (sep t) = length (snode t) /\ length (parent t) = length (snode t);
  vt_index : forall c, In c (post t) -> (N.to_nat c < length (snode t))%nat;
  vt_post_nodup : NoDup (post t);
  (** the supernodes, taken in post-order, partition the vertices into consecutive ranges *)
  vt_partition : concat (map (sn t) (post t)) = vertices (pn p);
  (** a clique lists no vertex twice (supernode and separator are disjoint) *)
  vt_clique_nodup : forall c, In c (post t) -> NoDup (clique t c);
  (** every structural nonzero of the pattern lies inside some clique block *)
  vt_cover : forall i j, In (i, j) (pedges p) ->
             exists c, In c (post t) /\ In i (oclique t c) /\ In j (oclique t c);
  (** the last clique of the post-order is the root and has an empty separator *)
  vt_root : exists pre r, post t = pre ++ [r] /\ pa t r = Root /\ sp t r = [];
  (** every other live clique has a live parent that comes later in the post-order *)
  vt_parent : forall pre c suf, post t = pre ++ c :: suf -> suf <> [] ->
              exists q, pa t c = Par q /\ In q suf;
  (** separator = clique ∩ parent clique *)
  vt_sep : forall c q, In c (post t) -> pa t c = Par q ->
           forall v, In v (sp t c) <-> (In v (clique t c) /\ In v (clique t q));
  (** running intersection: what a clique shares with any later clique is in its parent *)
  vt_rip : forall pre c suf q, post t = pre ++ c :: suf -> pa t c = Par q ->
           forall d v, In d suf -> In v (clique t c) -> In v (clique t d) -> In v (clique t q);
  (** block sizes *)
  vt_nblk : nblk t = map (fun c => N.of_nat (length (clique t c))) (post t)
}.

(** following parent links *)
Inductive reach (t : tree) : N -> N -> Prop :=
| reach_refl c : reach t c c
| reach_step c q r : pa t c = Par q -> reach t q r -> reach t c r.
(** ... through cliques that all contain v *)
Inductive reachv (t : tree) (v : N) : N -> N -> Prop :=
| reachv_refl c : In v (clique t c) -> reachv t v c c
| reachv_step c q r : In v (clique t c) -> pa t c = Par q -> reachv t v q r -> reachv t v c r.

(** * the executable checker *)
Definition mem (v : N) (l : list N) : bool := existsb (N.eqb v) l.
Fixpoint nodupb (l : list N) : bool :=
  match l with [] => true | x :: r => negb (mem x r) && nodupb r end.
Fixpoint nlist_eqb (a b : list N) : bool :=
  match a, b with
  | [], [] => true
  | x :: a', y :: b' => N.eqb x y && nlist_eqb a' b'
  | _, _ => false
  end.

Definition chk_perm (n : N) (l : list N) : bool :=
  (length l =? N.to_nat n)%nat && forallb (fun v => mem v l) (vertices n).

Definition chk_index (t : tree) : bool :=
  (length (sep t) =? length (snode t))%nat && (length (parent t) =? length (snode t))%nat
  && forallb (fun c => (N.to_nat c <? length (snode t))%nat) (post t).

Definition chk_cover (p : pat) (t : tree) : bool :=
  let ocs := map (oclique t) (post t) in
  forallb (fun e => existsb (fun oc => mem (fst e) oc && mem (snd e) oc) ocs) (pedges p).

(** walks the post-order from the leaves to the root: parent later in the order, separator
    = intersection with the parent clique, running intersection, root last *)
Fixpoint chk_chain (t : tree) (l : list N) : bool :=
  match l with
  | [] => false
  | c :: suf =>
    match suf with
    | [] => match pa t c with
            | Root => match sp t c with [] => true | _ :: _ => false end
            | _ => false
            end
    | _ :: _ =>
      match pa t c with
      | Par q =>
          let cq := clique t q in
          mem q suf
          && forallb (fun v => mem v cq) (sp t c)
          && forallb (fun v => negb (mem v cq)) (sn t c)
          && forallb (fun v => implb (existsb (fun d => mem v (clique t d)) suf) (mem v cq)) (clique t c)
          && chk_chain t suf
      | _ => false
      end
    end
  end.

Definition check_tree (p : pat) (t : tree) : bool :=
  chk_perm (pn p) (ordering t)
  && N.eqb (ncl t) (N.of_nat (length (post t)))
  && chk_index t
  && nodupb (post t)
  && nlist_eqb (concat (map (sn t) (post t))) (vertices (pn p))
  && forallb (fun c => nodupb (clique t c)) (post t)
  && chk_cover p t
  && chk_chain t (post t)
  && nlist_eqb (nblk t) (map (fun c => N.of_nat (length (clique t c))) (post t)).

(** * statements *)
Definition stmt_check_tree_sound : Prop :=
  forall p t, check_tree p t = true -> ValidTree p t.
Definition stmt_check_tree_complete : Prop :=
  forall p t, ValidTree p t -> check_tree p t = true.
(** a valid tree is a tree: every live clique reaches the root (the last of post) *)
Definition stmt_valid_reaches_root : Prop :=
  forall p t, ValidTree p t -> forall c, In c (post t) -> reach t c (last (post t) 0%N).
(** induced-subtree form of the running intersection property: any two live cliques
    containing v are joined, through cliques containing v, at a common ancestor *)
Definition stmt_valid_rip_subtree : Prop :=
  forall p t, ValidTree p t -> forall v c d, In c (post t) -> In d (post t) ->
    In v (clique t c) -> In v (clique t d) -> exists a, reachv t v c a /\ reachv t v d a.
(** coverage is monotone in the pattern (a tree valid for a pattern is valid for any sub-pattern) *)
Definition stmt_valid_mono : Prop :=
  forall n e e' t, incl e' e -> ValidTree (mkPat n e) t -> ValidTree (mkPat n e') t.
(** consequence used by C18: the cliques cover every vertex (diagonal entries) *)
Definition stmt_valid_vertex_cover : Prop :=
  forall p t, ValidTree p t -> forall v, In v (vertices (pn p)) -> exists c, In c (post t) /\ In v (sn t c).
