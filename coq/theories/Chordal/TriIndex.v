(** Packed upper-triangular index maps of [src/algebra/scalarmath.rs]:

    {[
    fn triangular_number(k: usize) -> usize { (k * (k + 1)) >> 1 }
    fn triangular_index(k: usize) -> usize { (k * (k + 3)) >> 1 }
    fn upper_triangular_index_to_coord(linearidx: usize) -> (usize, usize) {
        if linearidx == 0 { return (0, 0); }
        let col = ((isqrt(8 * linearidx + 1) + 1) >> 1) - 1;
        let row = linearidx - triangular_index(col - 1) - 1;
        (row, col)
    }
    fn coord_to_upper_triangular_index(coord: (usize, usize)) -> usize {
        if coord == (0, 0) { return 0; }
        let (i, j) = coord;
        if i <= j { triangular_index(j - 1) + i + 1 } else { triangular_index(i - 1) + j + 1 }
    }
    fn isqrt(v: usize) -> usize { (v as f64).sqrt() as usize }
    ]}

    Modelling conventions.
    - [usize] is modelled by [N] WITHOUT an upper bound (no overflow modelling: the theorems
      are about the unbounded arithmetic meaning of the code).
    - [isqrt] is modelled as the exact floor square root [N.sqrt].  This is an ASSUMPTION about
      the Rust code: [(v as f64).sqrt() as usize] is the exact floor root for [v < 2^52]
      (conversion exact, IEEE sqrt correctly rounded); it is not proved here.
    - [usize] subtraction panics on underflow in debug builds and wraps in release builds; it is
      modelled by the truncated [N.sub], and the lemmas [idx_to_coord_no_underflow] and
      [coord_to_idx_no_underflow] prove that on every path actually taken no subtraction
      truncates (minuend >= subtrahend), so truncated, panicking and wrapping subtraction agree.
    - [>> 1] is [N.shiftr _ 1]. *)
From Coq Require Import List Arith NArith ZArith Lia Bool.
Import ListNotations.
Local Open Scope N_scope.

Definition tri_number (k : N) : N := N.shiftr (k * (k + 1)) 1.
Definition tri_index (k : N) : N := N.shiftr (k * (k + 3)) 1.
Definition isqrt (v : N) : N := N.sqrt v.

Definition idx_to_coord (linearidx : N) : N * N :=
  if linearidx =? 0 then (0, 0)
  else
    let col := N.shiftr (isqrt (8 * linearidx + 1) + 1) 1 - 1 in
    let row := linearidx - tri_index (col - 1) - 1 in
    (row, col).

Definition coord_to_idx (coord : N * N) : N :=
  let (i, j) := coord in
  if (i =? 0) && (j =? 0) then 0
  else if i <=? j then tri_index (j - 1) + i + 1
  else tri_index (i - 1) + j + 1.

(** * The repo's unit-test table (idx 0..9) *)
Example idx_to_coord_table :
  map idx_to_coord [0; 1; 2; 3; 4; 5; 6; 7; 8; 9]%list
  = [(0,0); (0,1); (1,1); (0,2); (1,2); (2,2); (0,3); (1,3); (2,3); (3,3)]%list.
Proof. vm_compute. reflexivity. Qed.

Example coord_to_idx_table :
  map coord_to_idx [(0,0); (0,1); (1,1); (0,2); (1,2); (2,2); (0,3); (1,3); (2,3); (3,3)]%list
  = [0; 1; 2; 3; 4; 5; 6; 7; 8; 9]%list.
Proof. vm_compute. reflexivity. Qed.

Example coord_to_idx_table_lower :
  map coord_to_idx [(1,0); (2,0); (2,1); (3,0); (3,1); (3,2)]%list
  = [1; 3; 4; 6; 7; 8]%list.
Proof. vm_compute. reflexivity. Qed.

Example tri_number_table :
  map tri_number [0; 1; 2; 3; 4]%list = [0; 1; 3; 6; 10]%list
  /\ map tri_index [0; 1; 2; 3; 4]%list = [0; 2; 5; 9; 14]%list.
Proof. vm_compute. split; reflexivity. Qed.

(** * Closed forms *)

Lemma shiftr1_half : forall a h, a = 2 * h -> N.shiftr a 1 = h.
Proof.
  intros a h Ha. rewrite N.shiftr_div_pow2. change (2 ^ 1) with 2. subst a.
  rewrite N.mul_comm. apply N.div_mul. discriminate.
Qed.

Lemma shiftr1_bounds : forall a, 2 * N.shiftr a 1 <= a /\ a <= 2 * N.shiftr a 1 + 1.
Proof.
  intros a. rewrite N.shiftr_div_pow2. change (2 ^ 1) with 2.
  pose proof (N.div_mod a 2 ltac:(discriminate)) as Hdm.
  pose proof (N.mod_lt a 2 ltac:(discriminate)) as Hlt.
  generalize dependent (a / 2). generalize dependent (a mod 2). intros r Hr q Hq. lia.
Qed.

Theorem tri_number_closed : forall k, 2 * tri_number k = k * (k + 1).
Proof.
  intros k. unfold tri_number.
  destruct (N.Even_or_Odd k) as [[q Hq] | [q Hq]]; subst k.
  - rewrite (shiftr1_half (2 * q * (2 * q + 1)) (q * (2 * q + 1))); lia.
  - rewrite (shiftr1_half ((2 * q + 1) * (2 * q + 1 + 1)) ((2 * q + 1) * (q + 1))); lia.
Qed.

Lemma tri_index_closed : forall k, 2 * tri_index k = k * (k + 3).
Proof.
  intros k. unfold tri_index.
  destruct (N.Even_or_Odd k) as [[q Hq] | [q Hq]]; subst k.
  - rewrite (shiftr1_half (2 * q * (2 * q + 3)) (q * (2 * q + 3))); lia.
  - rewrite (shiftr1_half ((2 * q + 1) * (2 * q + 1 + 3)) ((2 * q + 1) * (q + 2))); lia.
Qed.

Theorem tri_index_eq : forall k, tri_index k + 1 = tri_number (k + 1).
Proof.
  intros k.
  pose proof (tri_index_closed k) as Hi.
  pose proof (tri_number_closed (k + 1)) as Hn.
  nia.
Qed.

Lemma tri_number_succ : forall k, tri_number (k + 1) = tri_number k + k + 1.
Proof.
  intros k.
  pose proof (tri_number_closed k) as H0.
  pose proof (tri_number_closed (k + 1)) as H1.
  nia.
Qed.

Lemma tri_number_mono : forall a b, a <= b -> tri_number a <= tri_number b.
Proof.
  intros a b Hab.
  pose proof (tri_number_closed a) as Ha.
  pose proof (tri_number_closed b) as Hb.
  nia.
Qed.

(** [tri_number j + i] with [i <= j] determines [(i, j)]. *)
Lemma tri_decomp_unique : forall i j i' j',
  i <= j -> i' <= j' -> tri_number j + i = tri_number j' + i' -> i = i' /\ j = j'.
Proof.
  intros i j i' j' Hij Hij' Heq.
  assert (Hj : j = j').
  { destruct (N.lt_trichotomy j j') as [Hlt | [He | Hgt]]; [exfalso | exact He | exfalso].
    - pose proof (tri_number_mono (j + 1) j' ltac:(lia)) as Hm.
      rewrite tri_number_succ in Hm. lia.
    - pose proof (tri_number_mono (j' + 1) j ltac:(lia)) as Hm.
      rewrite tri_number_succ in Hm. lia. }
  subst j'. split; lia.
Qed.

(** * coord -> idx *)

(** No subtraction truncates in [coord_to_idx] on the path taken: whenever [j - 1] (resp.
    [i - 1]) is evaluated, [1 <= j] (resp. [1 <= i]). *)
Lemma coord_to_idx_no_underflow : forall i j,
  ((i =? 0) && (j =? 0) = false -> (i <=? j) = true -> 1 <= j) /\
  ((i =? 0) && (j =? 0) = false -> (i <=? j) = false -> 1 <= i).
Proof.
  intros i j. split; intros H0 Hle.
  - apply N.leb_le in Hle. apply andb_false_iff in H0.
    destruct H0 as [H0 | H0]; apply N.eqb_neq in H0; lia.
  - apply N.leb_gt in Hle. lia.
Qed.

Theorem coord_to_idx_upper : forall i j, i <= j -> coord_to_idx (i, j) = tri_number j + i.
Proof.
  intros i j Hij. unfold coord_to_idx.
  destruct ((i =? 0) && (j =? 0)) eqn:H0.
  - apply andb_true_iff in H0. destruct H0 as [Hi Hj].
    apply N.eqb_eq in Hi. apply N.eqb_eq in Hj. subst i j. reflexivity.
  - pose proof (proj1 (coord_to_idx_no_underflow i j) H0) as Hj.
    apply N.leb_le in Hij. specialize (Hj Hij). rewrite Hij.
    pose proof (tri_index_eq (j - 1)) as He.
    replace (j - 1 + 1) with j in He by lia. lia.
Qed.

Lemma coord_to_idx_lower : forall i j, j <= i -> coord_to_idx (i, j) = tri_number i + j.
Proof.
  intros i j Hji.
  destruct (N.eq_dec i j) as [He | Hne].
  - subst j. apply coord_to_idx_upper. lia.
  - unfold coord_to_idx.
    assert (H0 : (i =? 0) && (j =? 0) = false).
    { apply andb_false_iff. left. apply N.eqb_neq. lia. }
    rewrite H0.
    assert (Hle : (i <=? j) = false) by (apply N.leb_gt; lia).
    rewrite Hle.
    pose proof (tri_index_eq (i - 1)) as He.
    replace (i - 1 + 1) with i in He by lia. lia.
Qed.

Theorem coord_to_idx_sym : forall i j, coord_to_idx (i, j) = coord_to_idx (j, i).
Proof.
  intros i j. destruct (N.le_ge_cases i j) as [H | H].
  - rewrite (coord_to_idx_upper i j H), (coord_to_idx_lower j i H). reflexivity.
  - rewrite (coord_to_idx_lower i j H), (coord_to_idx_upper j i H). reflexivity.
Qed.

(** * idx -> coord *)

(** The column computed from the square root: for [k >= 1], with [s = isqrt (8k+1)] and
    [c = (s + 1) >> 1], we have [c >= 2] and [tri_number (c-1) <= k < tri_number c]. *)
Lemma col_bounds : forall k, 1 <= k ->
  let c := N.shiftr (isqrt (8 * k + 1) + 1) 1 in
  2 <= c /\ tri_number (c - 1) <= k /\ k < tri_number c.
Proof.
  intros k Hk c.
  pose proof (N.sqrt_spec (8 * k + 1) ltac:(lia)) as Hs. cbv zeta in Hs.
  fold (isqrt (8 * k + 1)) in Hs.
  pose proof (shiftr1_bounds (isqrt (8 * k + 1) + 1)) as Hc. fold c in Hc.
  set (s := isqrt (8 * k + 1)) in *.
  assert (Hs3 : 3 <= s) by nia.
  assert (Hc2 : 2 <= c) by lia.
  pose proof (tri_number_closed (c - 1)) as Ht1.
  replace (c - 1 + 1) with c in Ht1 by lia.
  pose proof (tri_number_closed c) as Ht2.
  (* s is 2c-1 or 2c *)
  assert (Hlo : (2 * c - 1) * (2 * c - 1) <= 8 * k + 1) by nia.
  assert (Hhi : 8 * k + 1 < (2 * c + 1) * (2 * c + 1)) by nia.
  split; [exact Hc2 | split].
  - set (d := c - 1) in *. replace c with (d + 1) in * by lia.
    replace (2 * (d + 1) - 1) with (2 * d + 1) in Hlo by lia. nia.
  - nia.
Qed.

(** No subtraction truncates in [idx_to_coord] when [linearidx >= 1]: the four subtractions
    [_ - 1] (column), [col - 1], [linearidx - triangular_index(col - 1)] and the final [_ - 1]
    all have minuend >= subtrahend. *)
Lemma idx_to_coord_no_underflow : forall k, 1 <= k ->
  let c := N.shiftr (isqrt (8 * k + 1) + 1) 1 in
  let col := c - 1 in
  1 <= c /\ 1 <= col /\ tri_index (col - 1) <= k /\ 1 <= k - tri_index (col - 1).
Proof.
  intros k Hk c col.
  pose proof (col_bounds k Hk) as Hb. cbv zeta in Hb. fold c in Hb.
  destruct Hb as (Hc2 & Hlo & Hhi). fold col in Hlo.
  pose proof (tri_index_eq (col - 1)) as He.
  replace (col - 1 + 1) with col in He by lia.
  lia.
Qed.

Theorem idx_to_coord_spec : forall k,
  let (i, j) := idx_to_coord k in i <= j /\ k = tri_number j + i.
Proof.
  intros k. unfold idx_to_coord.
  destruct (k =? 0) eqn:H0.
  - apply N.eqb_eq in H0. subst k. split; [lia | reflexivity].
  - apply N.eqb_neq in H0.
    assert (Hk : 1 <= k) by lia.
    pose proof (col_bounds k Hk) as Hb. cbv zeta in Hb.
    set (c := N.shiftr (isqrt (8 * k + 1) + 1) 1) in *.
    destruct Hb as (Hc2 & Hlo & Hhi).
    set (col := c - 1) in *.
    pose proof (tri_index_eq (col - 1)) as He.
    replace (col - 1 + 1) with col in He by lia.
    pose proof (tri_number_succ col) as Hsu.
    replace (col + 1) with c in Hsu by lia.
    split; lia.
Qed.

Lemma idx_to_coord_upper : forall i j, i <= j -> idx_to_coord (tri_number j + i) = (i, j).
Proof.
  intros i j Hij.
  pose proof (idx_to_coord_spec (tri_number j + i)) as Hs.
  destruct (idx_to_coord (tri_number j + i)) as [i' j'].
  destruct Hs as [Hij' Heq].
  destruct (tri_decomp_unique i j i' j' Hij Hij' Heq) as [Hi Hj].
  subst. reflexivity.
Qed.

Theorem tri_index_bijection :
  (forall i j, i <= j -> idx_to_coord (coord_to_idx (i, j)) = (i, j)) /\
  (forall k, coord_to_idx (idx_to_coord k) = k).
Proof.
  split.
  - intros i j Hij. rewrite (coord_to_idx_upper i j Hij). apply idx_to_coord_upper. exact Hij.
  - intros k. pose proof (idx_to_coord_spec k) as Hs.
    destruct (idx_to_coord k) as [i j]. destruct Hs as [Hij Heq].
    rewrite (coord_to_idx_upper i j Hij). symmetry. exact Heq.
Qed.

Theorem coord_to_idx_inj : forall i j i' j',
  i <= j -> i' <= j' -> coord_to_idx (i, j) = coord_to_idx (i', j') -> i = i' /\ j = j'.
Proof.
  intros i j i' j' Hij Hij' Heq.
  rewrite (coord_to_idx_upper i j Hij), (coord_to_idx_upper i' j' Hij') in Heq.
  exact (tri_decomp_unique i j i' j' Hij Hij' Heq).
Qed.

Theorem coord_to_idx_lt : forall i j n,
  i <= j -> j < n -> coord_to_idx (i, j) < tri_number n.
Proof.
  intros i j n Hij Hjn. rewrite (coord_to_idx_upper i j Hij).
  pose proof (tri_number_mono (j + 1) n ltac:(lia)) as Hm.
  rewrite tri_number_succ in Hm. lia.
Qed.

Theorem idx_to_coord_lt : forall k n, k < tri_number n -> snd (idx_to_coord k) < n.
Proof.
  intros k n Hk. pose proof (idx_to_coord_spec k) as Hs.
  destruct (idx_to_coord k) as [i j]. destruct Hs as [Hij Heq]. cbn [snd].
  destruct (N.lt_ge_cases j n) as [Hlt | Hge]; [exact Hlt | exfalso].
  pose proof (tri_number_mono n j Hge) as Hm. lia.
Qed.

(** Row bound as well: both coordinates are below [n]. *)
Corollary idx_to_coord_lt_both : forall k n, k < tri_number n ->
  fst (idx_to_coord k) <= snd (idx_to_coord k) /\ snd (idx_to_coord k) < n.
Proof.
  intros k n Hk. split; [| apply idx_to_coord_lt; exact Hk].
  pose proof (idx_to_coord_spec k) as Hs.
  destruct (idx_to_coord k) as [i j]. cbn [fst snd]. tauto.
Qed.

Print Assumptions tri_number_closed.
Print Assumptions tri_index_eq.
Print Assumptions coord_to_idx_upper.
Print Assumptions coord_to_idx_sym.
Print Assumptions idx_to_coord_spec.
Print Assumptions tri_index_bijection.
Print Assumptions coord_to_idx_inj.
Print Assumptions coord_to_idx_lt.
Print Assumptions idx_to_coord_lt.
Print Assumptions idx_to_coord_no_underflow.
Print Assumptions coord_to_idx_no_underflow.
