(** C17/C18 -- the chordal analysis of [src/solver/chordal/supernode_tree.rs] with clique
    merging disabled: the supernodes found by [pothen_sun], with the separators computed by
    [find_separators] and the supernode parents [snode_parent], form a clique tree of the
    filled (chordal) pattern of the symbolic factor L.

    STATUS (every item below is proved completely and is axiom-free):
      [ps_ok_spec]              reflection of the boolean supernode check to [PS]
      [col_parent_sub]          key fact: col v \ {parent v} is contained in col (parent v)
      [degree_parent_le]        degree v <= degree (parent v) + 1
      [col_parent_eq]/[col_parent_eq_conv]
                                equality iff col v = {parent v} U col (parent v)
      [chain_col]               along a supernode chain col v1 = {v2..vk} U col vk
      [nomerge_valid_partial]   items (1) (2) (3) (4, parent form) (5) of the task,
                                as the record [NoMergeValid]
      [nomerge_rip_postorder]   the classical running-intersection property for every list
                                [post] of supernode indices in which parents come after children
      [nomerge_rip_subtree]     induced-subtree form: the supernode containing v is an ancestor
                                (or equal) of every clique containing v, and every clique on the
                                path contains v.
    DEVIATION from the informal task text, item (4)/(5): the suggested order invariants
    "the vertices of snode i are smaller than those of every proper ancestor's supernode" and
    "parents have a larger minimum vertex" are FALSE for the implementation (and for [PS]):
    for adj = [[2];[2];[]] pothen_sun returns the supernodes {0,2} and {1}, and {1} has parent
    {0,2} although 1 > 0 (see [Example ex_vee_order]).  What is true, and what is proved and
    used instead, is that the LAST (= maximal) vertex of a supernode is strictly smaller than the
    last vertex of its parent supernode ([nm_parent_last_lt]), and that every vertex of a
    separator lies in the supernode of a proper ancestor ([nm_sep_anc]).

    INPUT MODEL.  [adj : list (list nat)] of length n; [col adj v = nth v adj []] is the list
    of row indices stored in column v of L below the diagonal
    ([L.rowval[L.colptr[v]..L.colptr[v+1]]], [find_higher_order_neighbors]).

    {[
    fn find_parent_direct(L, v) -> usize {
        if v == L.nrows() - 1 { return NO_PARENT; }
        L.rowval[L.colptr[v]]
    }
    fn higher_degree(L) -> Vec<usize> {
        let mut degree = vec![0usize; L.ncols()];
        for v in 0..(L.n - 1) { degree[v] = L.colptr[v + 1] - L.colptr[v]; }
        degree
    }
    fn find_separators(L, snode) {
        for (sn, sep) in zip(snode, separators.iter_mut()) {
            let vrep = *sn.iter().min().unwrap();
            let adjplus = find_higher_order_neighbors(L, vrep);
            for neighbor in adjplus { if !sn.contains(neighbor) { sep.insert( *neighbor); } }
        }
    }
    ]}
    Modelling conventions: NO_PARENT is [None]; for a non-last vertex with an EMPTY column the
    Rust code reads the first entry of the next column (or panics); the model returns [None]
    there, and the hypothesis [Filled] (F2) excludes the case.  [pothen_sun] is not modelled:
    its result (supernodes as increasing vertex lists, as [find_supernodes] builds them, and
    [snode_parent]) is an input constrained by the executable check [ps_ok]. *)
From Coq Require Import List Arith Lia Bool Permutation Sorting.
Import ListNotations.

(** * Model *)

Definition col (adj : list (list nat)) (v : nat) : list nat := nth v adj [].

(** [find_parent_direct]: the last vertex is the root whatever its column is *)
Definition parent_of (adj : list (list nat)) (v : nat) : option nat :=
  if S v =? length adj then None else hd_error (col adj v).

(** [higher_degree] *)
Definition degree (adj : list (list nat)) (v : nat) : nat :=
  if S v =? length adj then 0 else length (col adj v).

Definition memb (v : nat) (l : list nat) : bool := existsb (Nat.eqb v) l.

(** [sn.iter().min().unwrap()] (0 on the empty list, where Rust panics) *)
Definition vmin (sn : list nat) : nat := fold_right Nat.min (hd 0 sn) sn.

(** [find_separators], one supernode *)
Definition separator (adj : list (list nat)) (sn : list nat) : list nat :=
  filter (fun u => negb (memb u sn)) (col adj (vmin sn)).

Definition snd_of (snodes : list (list nat)) (i : nat) : list nat := nth i snodes [].
Definition spar_of (sp : list (option nat)) (i : nat) : option nat := nth i sp None.

(** [get_clique] *)
Definition clique (adj snodes : list (list nat)) (i : nat) : list nat :=
  snd_of snodes i ++ separator adj (snd_of snodes i).

(** * Hypotheses on the input pattern *)

(** every entry of column v is a row index in (v, n); columns strictly increasing *)
Definition WF (adj : list (list nat)) : Prop :=
  (forall v u, In u (col adj v) -> v < u < length adj) /\
  (forall v, StronglySorted lt (col adj v)).

(** the pattern of a symbolic LDL^T factor of a connected graph:
    (F1) higher neighbourhoods are cliques / closed under fill, (F2) only the last column is empty *)
Definition Filled (adj : list (list nat)) : Prop :=
  (forall v u w, In u (col adj v) -> In w (col adj v) -> u < w -> In w (col adj u)) /\
  (forall v, S v < length adj -> col adj v <> []).

(** * The supernode check *)

Definition opt_nat_eqb (a b : option nat) : bool :=
  match a, b with
  | Some x, Some y => x =? y
  | None, None => true
  | _, _ => false
  end.

Fixpoint nodupb (l : list nat) : bool :=
  match l with [] => true | x :: r => negb (memb x r) && nodupb r end.

(** a supernode [v1;...;vk]: parent_of v_i = v_{i+1}, degree v_i = degree v_{i+1} + 1 *)
Fixpoint chain_ok (adj : list (list nat)) (sn : list nat) : bool :=
  match sn with
  | [] => true
  | v :: r =>
      match r with
      | [] => true
      | w :: _ => opt_nat_eqb (parent_of adj v) (Some w) && (degree adj v =? degree adj w + 1)
      end && chain_ok adj r
  end.

Definition parent_ok (adj snodes : list (list nat)) (sp : list (option nat)) (i : nat) : bool :=
  let vk := last (snd_of snodes i) 0 in
  if S vk =? length adj then
    match spar_of sp i with None => true | Some _ => false end
  else
    match parent_of adj vk, spar_of sp i with
    | Some p, Some q => (q <? length snodes) && memb p (snd_of snodes q)
    | _, _ => false
    end.

Definition ps_ok (adj snodes : list (list nat)) (sp : list (option nat)) : bool :=
  (length sp =? length snodes)
  && forallb (fun sn => match sn with [] => false | _ :: _ => true end) snodes
  && nodupb (concat snodes)
  && (length (concat snodes) =? length adj)
  && forallb (fun v => v <? length adj) (concat snodes)
  && forallb (chain_ok adj) snodes
  && forallb (parent_ok adj snodes sp) (seq 0 (length snodes)).

Inductive Chain (adj : list (list nat)) : list nat -> Prop :=
| Chain_nil : Chain adj []
| Chain_one : forall v, Chain adj [v]
| Chain_cons : forall v w r,
    parent_of adj v = Some w -> degree adj v = degree adj w + 1 ->
    Chain adj (w :: r) -> Chain adj (v :: w :: r).

Definition ParentOK (adj snodes : list (list nat)) (sp : list (option nat)) (i : nat) : Prop :=
  let vk := last (snd_of snodes i) 0 in
  (S vk = length adj -> spar_of sp i = None) /\
  (S vk <> length adj ->
   exists p q, parent_of adj vk = Some p /\ spar_of sp i = Some q /\
               q < length snodes /\ In p (snd_of snodes q)).

(** the readable form of [ps_ok] *)
Record PS (adj snodes : list (list nat)) (sp : list (option nat)) : Prop := {
  PS_len : length sp = length snodes;
  PS_nonempty : forall i, i < length snodes -> snd_of snodes i <> [];
  (** the supernodes partition 0..n-1 *)
  PS_nodup : NoDup (concat snodes);
  PS_part : forall v, v < length adj <-> In v (concat snodes);
  (** every supernode is a parent chain with degrees dropping by one *)
  PS_chain : forall i, i < length snodes -> Chain adj (snd_of snodes i);
  (** the supernode parent: None exactly when the last vertex is n-1, otherwise the index of
      the supernode containing the parent of the last vertex *)
  PS_parent : forall i, i < length snodes -> ParentOK adj snodes sp i
}.

(** * Generic list lemmas *)

Lemma memb_In : forall v l, memb v l = true <-> In v l.
Proof.
  intros v l. unfold memb. rewrite existsb_exists. split.
  - intros [x [Hx He]]. apply Nat.eqb_eq in He. subst x. exact Hx.
  - intros H. exists v. split; [exact H | apply Nat.eqb_refl].
Qed.

Lemma memb_false : forall v l, memb v l = false <-> ~ In v l.
Proof.
  intros v l. rewrite <- memb_In. destruct (memb v l); split; intros H; congruence.
Qed.

Lemma nodupb_NoDup : forall l, nodupb l = true -> NoDup l.
Proof.
  induction l as [|x r IH]; simpl; intros H.
  - constructor.
  - apply andb_true_iff in H. destruct H as [H1 H2]. constructor.
    + intro Hin. apply memb_In in Hin. rewrite Hin in H1. discriminate.
    + apply IH. exact H2.
Qed.

Lemma SS_lt_NoDup : forall l, StronglySorted lt l -> NoDup l.
Proof.
  induction 1 as [|a l Hs IH Hf].
  - constructor.
  - constructor; [|exact IH]. intro Hin. rewrite Forall_forall in Hf.
    apply Hf in Hin. lia.
Qed.

Lemma NoDup_app_inv : forall (a b : list nat),
  NoDup (a ++ b) -> NoDup a /\ NoDup b /\ (forall x, In x a -> In x b -> False).
Proof.
  induction a as [|y a IH]; simpl; intros b H.
  - split; [constructor|]. split; [exact H|]. intros x [].
  - inversion H as [|y' l' Hn Hnd]; subst.
    destruct (IH b Hnd) as [Ha [Hb Hd]]. split; [|split].
    + constructor; [|exact Ha]. intro Hin. apply Hn. apply in_or_app. left. exact Hin.
    + exact Hb.
    + intros x [Hx|Hx] Hxb.
      * subst x. apply Hn. apply in_or_app. right. exact Hxb.
      * exact (Hd x Hx Hxb).
Qed.

Lemma in_concat_nth : forall (l : list (list nat)) v,
  In v (concat l) <-> exists i, i < length l /\ In v (nth i l []).
Proof.
  intros l v. split.
  - intros H. apply in_concat in H. destruct H as [x [Hx Hv]].
    apply (In_nth _ _ []) in Hx. destruct Hx as [i [Hi He]].
    exists i. subst x. split; assumption.
  - intros [i [Hi Hv]]. apply in_concat. exists (nth i l []). split; [|exact Hv].
    apply nth_In. exact Hi.
Qed.

Lemma NoDup_concat_idx : forall (l : list (list nat)) i j v,
  NoDup (concat l) -> i < length l -> j < length l ->
  In v (nth i l []) -> In v (nth j l []) -> i = j.
Proof.
  induction l as [|a l IH]; intros i j v Hnd Hi Hj Hvi Hvj; simpl in *.
  - lia.
  - apply NoDup_app_inv in Hnd. destruct Hnd as [Ha [Hl Hd]].
    destruct i as [|i], j as [|j].
    + reflexivity.
    + exfalso. apply (Hd v Hvi). apply in_concat_nth. exists j. split; [lia|exact Hvj].
    + exfalso. apply (Hd v Hvj). apply in_concat_nth. exists i. split; [lia|exact Hvi].
    + f_equal. apply (IH i j v); try assumption; lia.
Qed.

Lemma NoDup_concat_nth : forall (l : list (list nat)) i, NoDup (concat l) -> NoDup (nth i l []).
Proof.
  induction l as [|a l IH]; intros i Hnd; simpl in *.
  - destruct i; constructor.
  - apply NoDup_app_inv in Hnd. destruct Hnd as [Ha [Hl Hd]].
    destruct i as [|i]; [exact Ha|]. apply IH. exact Hl.
Qed.

Lemma last_In : forall (l : list nat) d, l <> [] -> In (last l d) l.
Proof.
  induction l as [|a l IH]; intros d H.
  - congruence.
  - destruct l as [|b l].
    + simpl. left. reflexivity.
    + change (last (a :: b :: l) d) with (last (b :: l) d). right. apply IH. discriminate.
Qed.

Lemma fold_min_hd : forall v r, (forall x, In x r -> v <= x) -> fold_right Nat.min v r = v.
Proof.
  intros v r. induction r as [|a r IH]; simpl; intros H.
  - reflexivity.
  - rewrite IH.
    + assert (Ha : v <= a) by (apply H; left; reflexivity). lia.
    + intros x Hx. apply H. right. exact Hx.
Qed.

(** * Reflection *)

Lemma opt_nat_eqb_eq : forall a b, opt_nat_eqb a b = true -> a = b.
Proof.
  intros [x|] [y|]; simpl; intros H; try discriminate.
  - apply Nat.eqb_eq in H. subst. reflexivity.
  - reflexivity.
Qed.

Lemma chain_ok_spec : forall adj sn, chain_ok adj sn = true -> Chain adj sn.
Proof.
  intros adj. induction sn as [|v r IH]; intros H.
  - constructor.
  - simpl in H. apply andb_true_iff in H. destruct H as [H1 H2].
    destruct r as [|w r'].
    + constructor.
    + apply andb_true_iff in H1. destruct H1 as [Hp Hd].
      apply opt_nat_eqb_eq in Hp. apply Nat.eqb_eq in Hd.
      constructor; [exact Hp | exact Hd | apply IH; exact H2].
Qed.

Lemma parent_ok_spec : forall adj snodes sp i,
  parent_ok adj snodes sp i = true -> ParentOK adj snodes sp i.
Proof.
  intros adj snodes sp i. unfold parent_ok, ParentOK.
  set (vk := last (snd_of snodes i) 0).
  destruct (S vk =? length adj) eqn:E.
  - apply Nat.eqb_eq in E. intros H. split.
    + intros _. destruct (spar_of sp i); [discriminate|reflexivity].
    + intros Hne. congruence.
  - apply Nat.eqb_neq in E. intros H. split.
    + intros He. congruence.
    + intros _. destruct (parent_of adj vk) as [p|]; [|discriminate].
      destruct (spar_of sp i) as [q|]; [|discriminate].
      apply andb_true_iff in H. destruct H as [Hq Hp].
      apply Nat.ltb_lt in Hq. apply memb_In in Hp.
      exists p, q. repeat split; assumption.
Qed.

Lemma ps_ok_spec : forall adj snodes sp, ps_ok adj snodes sp = true -> PS adj snodes sp.
Proof.
  intros adj snodes sp H. unfold ps_ok in H.
  repeat (apply andb_true_iff in H; destruct H as [H ?H]).
  rename H into Hlen, H0 into Hpar, H1 into Hch, H2 into Hlt, H3 into Hcnt, H4 into Hnd, H5 into Hne.
  apply Nat.eqb_eq in Hlen. apply Nat.eqb_eq in Hcnt. apply nodupb_NoDup in Hnd.
  rewrite forallb_forall in Hne, Hlt, Hch, Hpar.
  assert (Hin : forall v, In v (concat snodes) -> v < length adj).
  { intros v Hv. apply Nat.ltb_lt. apply Hlt. exact Hv. }
  constructor.
  - exact Hlen.
  - intros i Hi He. specialize (Hne (snd_of snodes i)).
    rewrite He in Hne. discriminate Hne. unfold snd_of in He. rewrite <- He. apply nth_In. exact Hi.
  - exact Hnd.
  - intros v. split; [|apply Hin].
    intros Hv.
    assert (Hincl : incl (seq 0 (length adj)) (concat snodes)).
    { apply NoDup_length_incl.
      - exact Hnd.
      - rewrite seq_length. lia.
      - intros x Hx. apply in_seq. apply Hin in Hx. lia. }
    apply Hincl. apply in_seq. lia.
  - intros i Hi. apply chain_ok_spec. apply Hch. apply nth_In. exact Hi.
  - intros i Hi. apply parent_ok_spec. apply Hpar. apply in_seq. lia.
Qed.

(** * Elimination-tree facts for a well-formed filled pattern *)

Section Etree.
Variable adj : list (list nat).
Hypothesis Hwf : WF adj.
Hypothesis Hfill : Filled adj.

Lemma col_bounds : forall v u, In u (col adj v) -> v < u < length adj.
Proof. exact (proj1 Hwf). Qed.

Lemma col_sorted : forall v, StronglySorted lt (col adj v).
Proof. exact (proj2 Hwf). Qed.

Lemma col_NoDup : forall v, NoDup (col adj v).
Proof. intros v. apply SS_lt_NoDup. apply col_sorted. Qed.

Lemma col_last_empty : forall v, length adj <= S v -> col adj v = [].
Proof.
  intros v Hv. destruct (col adj v) as [|u r] eqn:E; [reflexivity|]. exfalso.
  assert (Hu : In u (col adj v)) by (rewrite E; left; reflexivity).
  apply col_bounds in Hu. lia.
Qed.

Lemma degree_len : forall v, degree adj v = length (col adj v).
Proof.
  intros v. unfold degree. destruct (S v =? length adj) eqn:E; [|reflexivity].
  apply Nat.eqb_eq in E. rewrite col_last_empty; [reflexivity|lia].
Qed.

Lemma parent_of_Some : forall v w, parent_of adj v = Some w ->
  S v <> length adj /\ exists rest, col adj v = w :: rest.
Proof.
  intros v w. unfold parent_of. destruct (S v =? length adj) eqn:E; [discriminate|].
  apply Nat.eqb_neq in E. destruct (col adj v) as [|a rest]; simpl; intros H; [discriminate|].
  inversion H; subst a. split; [exact E|]. exists rest. reflexivity.
Qed.

Lemma parent_in_col : forall v w, parent_of adj v = Some w -> In w (col adj v).
Proof.
  intros v w H. apply parent_of_Some in H. destruct H as [_ [rest E]].
  rewrite E. left. reflexivity.
Qed.

Lemma parent_gt : forall v w, parent_of adj v = Some w -> v < w < length adj.
Proof. intros v w H. apply col_bounds. apply parent_in_col. exact H. Qed.

(** (F2): every vertex but the last has a parent *)
Lemma parent_of_nonroot : forall v, S v < length adj -> exists p, parent_of adj v = Some p.
Proof.
  intros v Hv. unfold parent_of. destruct (S v =? length adj) eqn:E.
  - apply Nat.eqb_eq in E. lia.
  - destruct (col adj v) as [|p r] eqn:Ec.
    + exfalso. exact (proj2 Hfill v Hv Ec).
    + exists p. reflexivity.
Qed.

Lemma parent_of_last : forall v, S v = length adj -> parent_of adj v = None.
Proof. intros v Hv. unfold parent_of. rewrite (proj2 (Nat.eqb_eq _ _) Hv). reflexivity. Qed.

(** the parent is the minimum of the column *)
Lemma col_hd_lt : forall v p rest u, col adj v = p :: rest -> In u rest -> p < u.
Proof.
  intros v p rest u E Hu. pose proof (col_sorted v) as Hs. rewrite E in Hs.
  inversion Hs as [|a l Hs' Hf]; subst. rewrite Forall_forall in Hf. apply Hf. exact Hu.
Qed.

(** KEY FACT 1: col v \ {p} is contained in col p for p = parent_of v *)
Lemma col_parent_sub : forall v p u,
  parent_of adj v = Some p -> In u (col adj v) -> u = p \/ In u (col adj p).
Proof.
  intros v p u Hp Hu. pose proof (parent_in_col v p Hp) as Hpin.
  apply parent_of_Some in Hp. destruct Hp as [_ [rest E]].
  rewrite E in Hu. destruct Hu as [Hu|Hu]; [left; symmetry; exact Hu|]. right.
  apply (proj1 Hfill v p u).
  - exact Hpin.
  - rewrite E. right. exact Hu.
  - apply (col_hd_lt v p rest u E Hu).
Qed.

Lemma col_rest_incl : forall v p rest, col adj v = p :: rest -> parent_of adj v = Some p ->
  incl rest (col adj p).
Proof.
  intros v p rest E Hp u Hu.
  destruct (col_parent_sub v p u Hp) as [He|Hin].
  - rewrite E. right. exact Hu.
  - exfalso. pose proof (col_hd_lt v p rest u E Hu). lia.
  - exact Hin.
Qed.

Lemma col_rest_NoDup : forall v p rest, col adj v = p :: rest -> NoDup rest.
Proof.
  intros v p rest E. pose proof (col_NoDup v) as H. rewrite E in H.
  inversion H; assumption.
Qed.

(** KEY FACT 2: degree v <= degree (parent v) + 1 ... *)
Lemma degree_parent_le : forall v p, parent_of adj v = Some p -> degree adj v <= degree adj p + 1.
Proof.
  intros v p Hp. rewrite !degree_len.
  destruct (parent_of_Some v p Hp) as [_ [rest E]]. rewrite E. simpl.
  pose proof (NoDup_incl_length (col_rest_NoDup v p rest E) (col_rest_incl v p rest E Hp)).
  lia.
Qed.

(** ... with equality iff col v = {p} U col p *)
Lemma col_parent_eq : forall v p, parent_of adj v = Some p -> degree adj v = degree adj p + 1 ->
  forall u, In u (col adj v) <-> u = p \/ In u (col adj p).
Proof.
  intros v p Hp Hd u. split; [apply col_parent_sub; exact Hp|].
  destruct (parent_of_Some v p Hp) as [_ [rest E]].
  rewrite !degree_len in Hd. rewrite E in Hd. simpl in Hd.
  intros [Hu|Hu].
  - subst u. rewrite E. left. reflexivity.
  - rewrite E. right.
    apply (@NoDup_length_incl nat rest (col adj p)).
    + apply (col_rest_NoDup v p rest E).
    + lia.
    + apply (col_rest_incl v p rest E Hp).
    + exact Hu.
Qed.

Lemma col_parent_eq_conv : forall v p, parent_of adj v = Some p ->
  (forall u, In u (col adj p) -> In u (col adj v)) -> degree adj v = degree adj p + 1.
Proof.
  intros v p Hp Hsub. pose proof (degree_parent_le v p Hp) as Hle.
  rewrite !degree_len in *.
  destruct (parent_of_Some v p Hp) as [_ [rest E]]. rewrite E in *. simpl in *.
  assert (Hincl : incl (col adj p) rest).
  { intros u Hu. destruct (Hsub u Hu) as [He|Hin]; [|exact Hin].
    subst u. apply col_bounds in Hu. lia. }
  pose proof (NoDup_incl_length (col_NoDup p) Hincl). lia.
Qed.

(** ** supernode chains *)

Lemma chain_hd_lt : forall r v, Chain adj (v :: r) -> forall x, In x r -> v < x.
Proof.
  induction r as [|w r IH]; intros v Hc x Hx.
  - destruct Hx.
  - inversion Hc as [| |v' w' r' Hp Hd Hc']; subst.
    pose proof (parent_gt v w Hp) as Hlt.
    destruct Hx as [Hx|Hx]; [subst; lia|].
    pose proof (IH w Hc' x Hx). lia.
Qed.

Lemma chain_le_last : forall sn, Chain adj sn -> forall x, In x sn -> x <= last sn 0.
Proof.
  induction 1 as [|v|v w r Hp Hd Hc IH]; intros x Hx.
  - destruct Hx.
  - destruct Hx as [Hx|[]]. subst. simpl. lia.
  - change (last (v :: w :: r) 0) with (last (w :: r) 0).
    destruct Hx as [Hx|Hx].
    + subst x. pose proof (parent_gt v w Hp).
      assert (w <= last (w :: r) 0) by (apply IH; left; reflexivity). lia.
    + apply IH. exact Hx.
Qed.

Lemma chain_vmin : forall v r, Chain adj (v :: r) -> vmin (v :: r) = v.
Proof.
  intros v r Hc. unfold vmin. simpl. rewrite fold_min_hd.
  - lia.
  - intros x Hx. pose proof (chain_hd_lt r v Hc x Hx). lia.
Qed.

(** KEY FACT 3: along a supernode chain, col v1 = {v2..vk} U col vk *)
Lemma chain_col : forall r v, Chain adj (v :: r) ->
  forall u, In u (col adj v) <-> In u r \/ In u (col adj (last (v :: r) 0)).
Proof.
  induction r as [|w r IH]; intros v Hc u.
  - simpl. tauto.
  - inversion Hc as [| |v' w' r' Hp Hd Hc']; subst.
    change (last (v :: w :: r) 0) with (last (w :: r) 0).
    rewrite (col_parent_eq v w Hp Hd u). rewrite (IH w Hc' u). simpl.
    split; intros H; intuition.
Qed.

(** the column of every member of a chain is inside the column of the first vertex *)
Lemma chain_col_sub : forall sn, Chain adj sn ->
  forall p u, In p sn -> In u (col adj p) -> In u (col adj (hd 0 sn)).
Proof.
  induction 1 as [|v|v w r Hp Hd Hc IH]; intros p u Hin Hu.
  - destruct Hin.
  - destruct Hin as [Hin|[]]. subst. exact Hu.
  - simpl. destruct Hin as [Hin|Hin].
    + subst. exact Hu.
    + apply (col_parent_eq v w Hp Hd u). right. apply (IH p u Hin Hu).
Qed.

End Etree.

(** * The clique tree of the supernodes *)

(** proper ancestors in the supernode tree *)
Inductive Anc (sp : list (option nat)) : nat -> nat -> Prop :=
| Anc_one : forall i q, spar_of sp i = Some q -> Anc sp i q
| Anc_step : forall i q a, spar_of sp i = Some q -> Anc sp q a -> Anc sp i a.

Lemma NoDup_app_intro : forall (a b : list nat),
  NoDup a -> NoDup b -> (forall x, In x a -> In x b -> False) -> NoDup (a ++ b).
Proof.
  induction a as [|y a IH]; simpl; intros b Ha Hb Hd.
  - exact Hb.
  - inversion Ha as [|y' l' Hn Hnd]; subst. constructor.
    + intro Hin. apply in_app_or in Hin. destruct Hin as [Hin|Hin].
      * exact (Hn Hin).
      * apply (Hd y); [left; reflexivity|exact Hin].
    + apply IH; [exact Hnd|exact Hb|]. intros x Hx Hxb. apply (Hd x); [right; exact Hx|exact Hxb].
Qed.

Section Tree.
Variable adj snodes : list (list nat).
Variable sp : list (option nat).
Hypothesis Hwf : WF adj.
Hypothesis Hfill : Filled adj.
Hypothesis Hps : PS adj snodes sp.

Local Notation sn := (snd_of snodes).
Local Notation spar := (spar_of sp).
Local Notation cl := (clique adj snodes).
Local Notation len := (length snodes).
Local Notation n := (length adj).

Lemma snd_cons : forall i, i < len -> exists v r, sn i = v :: r.
Proof.
  intros i Hi. destruct (sn i) as [|v r] eqn:E.
  - exfalso. exact (PS_nonempty _ _ _ Hps i Hi E).
  - exists v, r. reflexivity.
Qed.

Lemma snd_lt : forall i v, i < len -> In v (sn i) -> v < n.
Proof.
  intros i v Hi Hv. apply (PS_part _ _ _ Hps). apply in_concat_nth. exists i. split; assumption.
Qed.

Lemma snd_of_vertex : forall v, v < n -> exists i, i < len /\ In v (sn i).
Proof.
  intros v Hv. apply (PS_part _ _ _ Hps) in Hv. apply in_concat_nth in Hv. exact Hv.
Qed.

Lemma snd_unique : forall i j v, i < len -> j < len -> In v (sn i) -> In v (sn j) -> i = j.
Proof.
  intros i j v Hi Hj Hvi Hvj.
  exact (NoDup_concat_idx snodes i j v (PS_nodup _ _ _ Hps) Hi Hj Hvi Hvj).
Qed.

Lemma snd_chain : forall i, i < len -> Chain adj (sn i).
Proof. intros i Hi. exact (PS_chain _ _ _ Hps i Hi). Qed.

Lemma snd_last_in : forall i, i < len -> In (last (sn i) 0) (sn i).
Proof. intros i Hi. apply last_In. exact (PS_nonempty _ _ _ Hps i Hi). Qed.

Lemma snd_last_lt : forall i, i < len -> last (sn i) 0 < n.
Proof. intros i Hi. apply (snd_lt i); [exact Hi|apply snd_last_in; exact Hi]. Qed.

Lemma snd_le_last : forall i v, i < len -> In v (sn i) -> v <= last (sn i) 0.
Proof. intros i v Hi Hv. apply (chain_le_last adj Hwf (sn i) (snd_chain i Hi) v Hv). Qed.

Lemma sep_spec : forall i v r, i < len -> sn i = v :: r ->
  forall u, In u (separator adj (sn i)) <-> In u (col adj v) /\ ~ In u (sn i).
Proof.
  intros i v r Hi E u. pose proof (snd_chain i Hi) as Hc. rewrite E in Hc.
  unfold separator. rewrite filter_In. rewrite negb_true_iff, memb_false.
  rewrite E. rewrite (chain_vmin adj Hwf v r Hc). tauto.
Qed.

(** the separator is, as a set, the column of the LAST vertex of the supernode *)
Lemma sep_last : forall i, i < len ->
  forall u, In u (separator adj (sn i)) <-> In u (col adj (last (sn i) 0)).
Proof.
  intros i Hi u. destruct (snd_cons i Hi) as [v [r E]].
  rewrite (sep_spec i v r Hi E u).
  pose proof (snd_chain i Hi) as Hc. rewrite E in Hc.
  pose proof (chain_col adj Hwf Hfill r v Hc u) as Hcc.
  split.
  - intros [Hcol Hn]. apply Hcc in Hcol. destruct Hcol as [Hr|Hl].
    + exfalso. apply Hn. rewrite E. right. exact Hr.
    + rewrite E. exact Hl.
  - intros Hl. rewrite E in Hl. split.
    + apply Hcc. right. exact Hl.
    + intro Hin. pose proof (snd_le_last i u Hi Hin) as Hle. rewrite E in Hle.
      apply (col_bounds adj Hwf) in Hl. lia.
Qed.

(** (2) clique i = {v1} U col v1 *)
Lemma clique_spec : forall i v r, i < len -> sn i = v :: r ->
  forall u, In u (cl i) <-> u = v \/ In u (col adj v).
Proof.
  intros i v r Hi E u. unfold clique. rewrite in_app_iff. rewrite (sep_spec i v r Hi E u).
  pose proof (snd_chain i Hi) as Hc. rewrite E in Hc.
  pose proof (chain_col adj Hwf Hfill r v Hc u) as Hcc.
  rewrite E. split.
  - intros [[Hu|Hu]|[Hcol _]].
    + left. symmetry. exact Hu.
    + right. apply Hcc. left. exact Hu.
    + right. exact Hcol.
  - intros [Hu|Hu].
    + left. left. symmetry. exact Hu.
    + destruct (in_dec Nat.eq_dec u (v :: r)) as [Hin|Hnin].
      * left. exact Hin.
      * right. split; assumption.
Qed.

Lemma clique_vmin : forall i, i < len ->
  forall u, In u (cl i) <-> u = vmin (sn i) \/ In u (col adj (vmin (sn i))).
Proof.
  intros i Hi u. destruct (snd_cons i Hi) as [v [r E]].
  pose proof (snd_chain i Hi) as Hc. rewrite E in Hc.
  rewrite (clique_spec i v r Hi E u). rewrite E. rewrite (chain_vmin adj Hwf v r Hc). tauto.
Qed.

Lemma clique_is_clique : forall i, i < len ->
  forall a b, In a (cl i) -> In b (cl i) -> a < b -> In b (col adj a).
Proof.
  intros i Hi a b Ha Hb Hab. destruct (snd_cons i Hi) as [v [r E]].
  apply (clique_spec i v r Hi E) in Ha. apply (clique_spec i v r Hi E) in Hb.
  destruct Ha as [Ha|Ha].
  - subst a. destruct Hb as [Hb|Hb]; [lia|exact Hb].
  - destruct Hb as [Hb|Hb].
    + subst b. apply (col_bounds adj Hwf) in Ha. lia.
    + exact (proj1 Hfill v a b Ha Hb Hab).
Qed.

Lemma clique_NoDup : forall i, i < len -> NoDup (cl i).
Proof.
  intros i Hi. unfold clique. apply NoDup_app_intro.
  - apply NoDup_concat_nth. exact (PS_nodup _ _ _ Hps).
  - unfold separator. apply NoDup_filter. apply (col_NoDup adj Hwf).
  - intros x Hx Hs. destruct (snd_cons i Hi) as [v [r E]].
    apply (sep_spec i v r Hi E) in Hs. exact (proj2 Hs Hx).
Qed.

(** ** parent links *)

Lemma parent_facts : forall i q, i < len -> spar i = Some q ->
  q < len /\ exists p, parent_of adj (last (sn i) 0) = Some p /\ In p (sn q).
Proof.
  intros i q Hi Hq. destruct (PS_parent _ _ _ Hps i Hi) as [H1 H2].
  destruct (Nat.eq_dec (S (last (sn i) 0)) n) as [He|Hne].
  - rewrite (H1 He) in Hq. discriminate.
  - destruct (H2 Hne) as [p [q' [Hp [Hq' [Hlt Hin]]]]].
    rewrite Hq in Hq'. inversion Hq'; subst q'. split; [exact Hlt|]. exists p. split; assumption.
Qed.

(** (5) the last vertex strictly increases along parent links *)
Lemma parent_last_lt : forall i q, i < len -> spar i = Some q ->
  q < len /\ last (sn i) 0 < last (sn q) 0.
Proof.
  intros i q Hi Hq. destruct (parent_facts i q Hi Hq) as [Hlt [p [Hp Hin]]].
  split; [exact Hlt|]. pose proof (parent_gt adj Hwf _ _ Hp). pose proof (snd_le_last q p Hlt Hin). lia.
Qed.

(** (3a) separator i is inside clique (parent i) *)
Lemma sep_sub_parent : forall i q, i < len -> spar i = Some q ->
  forall u, In u (separator adj (sn i)) -> In u (cl q).
Proof.
  intros i q Hi Hq u Hu. destruct (parent_facts i q Hi Hq) as [Hlt [p [Hp Hin]]].
  apply (sep_last i Hi) in Hu.
  destruct (snd_cons q Hlt) as [w [r E]].
  apply (clique_spec q w r Hlt E).
  pose proof (snd_chain q Hlt) as Hc.
  destruct (col_parent_sub adj Hwf Hfill _ p u Hp Hu) as [He|Hcol].
  - subst u. rewrite E in Hin. destruct Hin as [Hin|Hin].
    + left. symmetry. exact Hin.
    + right. rewrite E in Hc. apply (chain_col adj Hwf Hfill r w Hc p). left. exact Hin.
  - right. pose proof (chain_col_sub adj Hwf Hfill (sn q) Hc p u Hin Hcol) as H.
    rewrite E in H. exact H.
Qed.

(** (3b) supernode i is disjoint from clique (parent i) *)
Lemma snd_disj_parent : forall i q, i < len -> spar i = Some q ->
  forall u, In u (sn i) -> ~ In u (cl q).
Proof.
  intros i q Hi Hq u Hu Hc. destruct (parent_last_lt i q Hi Hq) as [Hlt Hlast].
  pose proof (snd_le_last i u Hi Hu) as Hle.
  unfold clique in Hc. apply in_app_or in Hc. destruct Hc as [Hc|Hc].
  - pose proof (snd_unique i q u Hi Hlt Hu Hc) as He. subst q. lia.
  - apply (sep_last q Hlt) in Hc. apply (col_bounds adj Hwf) in Hc. lia.
Qed.

Lemma Anc_last_lt : forall i a, Anc sp i a -> i < len -> a < len /\ last (sn i) 0 < last (sn a) 0.
Proof.
  induction 1 as [i q Hq|i q a Hq Ha IH]; intros Hi.
  - exact (parent_last_lt i q Hi Hq).
  - destruct (parent_last_lt i q Hi Hq) as [Hlt Hl]. destruct (IH Hlt) as [Ha' Hl']. split; [exact Ha'|lia].
Qed.

Lemma Anc_trans : forall i a b, Anc sp i a -> Anc sp a b -> Anc sp i b.
Proof.
  induction 1 as [i q Hq|i q a Hq Ha IH]; intros Hb.
  - exact (Anc_step sp i q b Hq Hb).
  - exact (Anc_step sp i q b Hq (IH Hb)).
Qed.

(** (4) every separator vertex lives in the supernode of a proper ancestor *)
Lemma sep_anc_aux : forall m j, j < len -> n - last (sn j) 0 < m ->
  forall u, In u (separator adj (sn j)) -> exists a, Anc sp j a /\ a < len /\ In u (sn a).
Proof.
  induction m as [|m IH]; intros j Hj Hm u Hu; [lia|].
  pose proof Hu as Hu'. apply (sep_last j Hj) in Hu'. apply (col_bounds adj Hwf) in Hu'.
  destruct (PS_parent _ _ _ Hps j Hj) as [_ H2].
  destruct H2 as [p [q [Hp [Hq [Hlt Hin]]]]]; [lia|].
  pose proof (sep_sub_parent j q Hj Hq u Hu) as Hc.
  unfold clique in Hc. apply in_app_or in Hc. destruct Hc as [Hc|Hc].
  - exists q. split; [exact (Anc_one sp j q Hq)|]. split; assumption.
  - destruct (parent_last_lt j q Hj Hq) as [_ Hl]. pose proof (snd_last_lt q Hlt) as Hn.
    destruct (IH q Hlt ltac:(lia) u Hc) as [a [Ha [Hal Hua]]].
    exists a. split; [exact (Anc_step sp j q a Hq Ha)|]. split; assumption.
Qed.

Lemma sep_anc : forall j u, j < len -> In u (separator adj (sn j)) ->
  exists a, Anc sp j a /\ a < len /\ In u (sn a).
Proof. intros j u Hj Hu. exact (sep_anc_aux (S (n - last (sn j) 0)) j Hj ltac:(lia) u Hu). Qed.

(** (5) every supernode reaches a root ... *)
Lemma reach_root_aux : forall m i, i < len -> n - last (sn i) 0 < m ->
  exists r, (r = i \/ Anc sp i r) /\ r < len /\ spar r = None.
Proof.
  induction m as [|m IH]; intros i Hi Hm; [lia|].
  destruct (spar i) as [q|] eqn:Hq.
  - destruct (parent_last_lt i q Hi Hq) as [Hlt Hl]. pose proof (snd_last_lt q Hlt) as Hn.
    destruct (IH q Hlt ltac:(lia)) as [r [Hr [Hrl Hrn]]].
    exists r. split; [|split; assumption]. right. destruct Hr as [Hr|Hr].
    + subst r. exact (Anc_one sp i q Hq).
    + exact (Anc_step sp i q r Hq Hr).
  - exists i. split; [left; reflexivity|]. split; assumption.
Qed.

(** ... and the root is the supernode containing n-1 *)
Lemma root_iff : forall i, i < len -> (spar i = None <-> In (n - 1) (sn i)).
Proof.
  intros i Hi. destruct (PS_parent _ _ _ Hps i Hi) as [H1 H2]. split.
  - intros Hn. destruct (Nat.eq_dec (S (last (sn i) 0)) n) as [He|Hne].
    + replace (n - 1) with (last (sn i) 0) by lia. apply snd_last_in. exact Hi.
    + destruct (H2 Hne) as [p [q [_ [Hq _]]]]. rewrite Hn in Hq. discriminate.
  - intros Hin. apply H1. pose proof (snd_lt i _ Hi Hin). pose proof (snd_le_last i _ Hi Hin).
    pose proof (snd_last_lt i Hi). lia.
Qed.

Lemma root_last : forall i, i < len -> spar i = None -> S (last (sn i) 0) = n.
Proof.
  intros i Hi Hn. destruct (PS_parent _ _ _ Hps i Hi) as [_ H2].
  destruct (Nat.eq_dec (S (last (sn i) 0)) n) as [He|Hne]; [exact He|].
  destruct (H2 Hne) as [p [q [_ [Hq _]]]]. rewrite Hn in Hq. discriminate.
Qed.

Lemma root_sep_nil : forall i, i < len -> spar i = None -> separator adj (sn i) = [].
Proof.
  intros i Hi Hn. destruct (separator adj (sn i)) as [|u l] eqn:E; [reflexivity|]. exfalso.
  assert (Hu : In u (separator adj (sn i))) by (rewrite E; left; reflexivity).
  apply (sep_last i Hi) in Hu. pose proof (root_last i Hi Hn) as Hl.
  rewrite (col_last_empty adj Hwf (last (sn i) 0)) in Hu; [destruct Hu|lia].
Qed.

Lemma root_unique : forall i j, i < len -> j < len -> spar i = None -> spar j = None -> i = j.
Proof.
  intros i j Hi Hj Hni Hnj. apply (snd_unique i j (n - 1) Hi Hj).
  - apply (root_iff i Hi). exact Hni.
  - apply (root_iff j Hj). exact Hnj.
Qed.

Lemma root_exists : 0 < n -> exists r, r < len /\ spar r = None.
Proof.
  intros Hn. destruct (snd_of_vertex (n - 1) ltac:(lia)) as [r [Hr Hin]].
  exists r. split; [exact Hr|]. apply (root_iff r Hr). exact Hin.
Qed.

Lemma Anc_irrefl : forall i, i < len -> ~ Anc sp i i.
Proof. intros i Hi Ha. destruct (Anc_last_lt i i Ha Hi) as [_ Hl]. lia. Qed.

(** (1) every edge of the pattern is inside a clique *)
Lemma edge_cover : forall v u, In u (col adj v) ->
  exists i, i < len /\ In v (cl i) /\ In u (cl i).
Proof.
  intros v u Hu. pose proof (col_bounds adj Hwf v u Hu) as Hb.
  destruct (snd_of_vertex v ltac:(lia)) as [i [Hi Hv]].
  exists i. split; [exact Hi|]. split.
  - unfold clique. apply in_or_app. left. exact Hv.
  - destruct (snd_cons i Hi) as [w [r E]]. apply (clique_spec i w r Hi E). right.
    pose proof (chain_col_sub adj Hwf Hfill (sn i) (snd_chain i Hi) v u Hv Hu) as H.
    rewrite E in H. exact H.
Qed.

Lemma sep_inter : forall i q, i < len -> spar i = Some q ->
  forall u, In u (separator adj (sn i)) <-> In u (cl i) /\ In u (cl q).
Proof.
  intros i q Hi Hq u. split.
  - intros Hu. split; [unfold clique; apply in_or_app; right; exact Hu|].
    exact (sep_sub_parent i q Hi Hq u Hu).
  - intros [Hc Hcq]. unfold clique in Hc. apply in_app_or in Hc. destruct Hc as [Hc|Hc]; [|exact Hc].
    exfalso. exact (snd_disj_parent i q Hi Hq u Hc Hcq).
Qed.

Lemma rip_parent : forall i q, i < len -> spar i = Some q ->
  forall u, In u (cl i) -> ~ In u (sn i) -> In u (cl q).
Proof.
  intros i q Hi Hq u Hc Hn. unfold clique in Hc. apply in_app_or in Hc.
  destruct Hc as [Hc|Hc]; [contradiction|]. exact (sep_sub_parent i q Hi Hq u Hc).
Qed.

(** classical running intersection for any order with parents after children *)
Section PostOrder.
Variable post : list nat.
Hypothesis Hpnd : NoDup post.
Hypothesis Hpidx : forall c, In c post -> c < len.
Hypothesis Hpar : forall pre c suf q, post = pre ++ c :: suf -> spar c = Some q -> In q suf.

Lemma anc_later : forall c a, Anc sp c a -> forall pre suf, post = pre ++ c :: suf -> In a suf.
Proof.
  induction 1 as [c q Hq|c q a Hq Ha IH]; intros pre suf E.
  - exact (Hpar pre c suf q E Hq).
  - pose proof (Hpar pre c suf q E Hq) as Hin.
    apply in_split in Hin. destruct Hin as [s1 [s2 Es]].
    assert (E' : post = (pre ++ c :: s1) ++ q :: s2).
    { rewrite E, Es. rewrite <- app_assoc. reflexivity. }
    pose proof (IH _ _ E') as H. rewrite Es. apply in_or_app. right. right. exact H.
Qed.

Lemma rip_postorder : forall pre i suf j v, post = pre ++ i :: suf -> In j suf ->
  In v (cl i) -> In v (cl j) -> exists q, spar i = Some q /\ In v (cl q).
Proof.
  intros pre i suf j v E Hj Hvi Hvj.
  assert (Hi : i < len) by (apply Hpidx; rewrite E; apply in_or_app; right; left; reflexivity).
  assert (Hjl : j < len) by (apply Hpidx; rewrite E; apply in_or_app; right; right; exact Hj).
  assert (Hnd : NoDup (pre ++ i :: suf)) by (rewrite <- E; exact Hpnd).
  apply NoDup_remove_2 in Hnd.
  assert (Hij : i <> j).
  { intro He. subst j. apply Hnd. apply in_or_app. right. exact Hj. }
  unfold clique in Hvi. apply in_app_or in Hvi. destruct Hvi as [Hvi|Hvi].
  - (* v in supernode i: then i is a proper ancestor of j, hence later in post *)
    exfalso. unfold clique in Hvj. apply in_app_or in Hvj. destruct Hvj as [Hvj|Hvj].
    + apply Hij. exact (snd_unique i j v Hi Hjl Hvi Hvj).
    + destruct (sep_anc j v Hjl Hvj) as [a [Ha [Hal Hva]]].
      pose proof (snd_unique i a v Hi Hal Hvi Hva) as He. subst a.
      apply in_split in Hj. destruct Hj as [s1 [s2 Es]].
      assert (E' : post = (pre ++ i :: s1) ++ j :: s2).
      { rewrite E, Es. rewrite <- app_assoc. reflexivity. }
      pose proof (anc_later j i Ha _ _ E') as Hin.
      apply Hnd. apply in_or_app. right. rewrite Es. apply in_or_app. right. right. exact Hin.
  - destruct (spar i) as [q|] eqn:Hq.
    + exists q. split; [reflexivity|]. exact (sep_sub_parent i q Hi Hq v Hvi).
    + rewrite (root_sep_nil i Hi Hq) in Hvi. destruct Hvi.
Qed.

End PostOrder.

(** induced-subtree form: from any clique containing v one reaches, through cliques that all
    contain v, the supernode that owns v *)
Inductive PathV (v : nat) : nat -> nat -> Prop :=
| PathV_refl : forall c, In v (cl c) -> PathV v c c
| PathV_step : forall c q r, In v (cl c) -> spar c = Some q -> PathV v q r -> PathV v c r.

Lemma rip_subtree_aux : forall m c, c < len -> n - last (sn c) 0 < m ->
  forall v, In v (cl c) -> exists a, a < len /\ In v (sn a) /\ PathV v c a.
Proof.
  induction m as [|m IH]; intros c Hc Hm v Hv; [lia|].
  pose proof Hv as Hv'. unfold clique in Hv'. apply in_app_or in Hv'. destruct Hv' as [Hs|Hs].
  - exists c. split; [exact Hc|]. split; [exact Hs|]. apply PathV_refl. exact Hv.
  - destruct (spar c) as [q|] eqn:Hq.
    + destruct (parent_last_lt c q Hc Hq) as [Hlt Hl]. pose proof (snd_last_lt q Hlt) as Hn.
      pose proof (sep_sub_parent c q Hc Hq v Hs) as Hvq.
      destruct (IH q Hlt ltac:(lia) v Hvq) as [a [Hal [Hva Hp]]].
      exists a. split; [exact Hal|]. split; [exact Hva|].
      exact (PathV_step v c q a Hv Hq Hp).
    + rewrite (root_sep_nil c Hc Hq) in Hs. destruct Hs.
Qed.

Lemma rip_subtree : forall v c d, c < len -> d < len -> In v (cl c) -> In v (cl d) ->
  exists a, a < len /\ In v (sn a) /\ PathV v c a /\ PathV v d a.
Proof.
  intros v c d Hc Hd Hvc Hvd.
  destruct (rip_subtree_aux (S (n - last (sn c) 0)) c Hc ltac:(lia) v Hvc) as [a [Ha [Hva Hpa]]].
  destruct (rip_subtree_aux (S (n - last (sn d) 0)) d Hd ltac:(lia) v Hvd) as [b [Hb [Hvb Hpb]]].
  pose proof (snd_unique a b v Ha Hb Hva Hvb) as He. subst b.
  exists a. repeat split; assumption.
Qed.

End Tree.

(** * Main theorems *)

(** The clique-tree properties of (supernode i, separator i, snode_parent i) for the pattern
    E(adj) = {(v,u) : In u (col adj v)}; clique i = snode i ++ separator i. *)
Record NoMergeValid (adj snodes : list (list nat)) (sp : list (option nat)) : Prop := {
  (** (1) cover: the supernodes partition the vertices, every edge is inside a clique *)
  nm_vertex_cover : forall v, v < length adj ->
    exists i, i < length snodes /\ In v (snd_of snodes i) /\
              forall j, j < length snodes -> In v (snd_of snodes j) -> j = i;
  nm_snode_range : forall i v, i < length snodes -> In v (snd_of snodes i) -> v < length adj;
  nm_edge_cover : forall v u, In u (col adj v) ->
    exists i, i < length snodes /\ In v (clique adj snodes i) /\ In u (clique adj snodes i);
  (** (2) clique i = {v1} U col v1 as sets, it lists no vertex twice, and it is a clique of
      the filled graph *)
  nm_clique_set : forall i, i < length snodes -> forall u,
    In u (clique adj snodes i) <->
    u = vmin (snd_of snodes i) \/ In u (col adj (vmin (snd_of snodes i)));
  nm_clique_nodup : forall i, i < length snodes -> NoDup (clique adj snodes i);
  nm_clique_adjacent : forall i, i < length snodes -> forall a b,
    In a (clique adj snodes i) -> In b (clique adj snodes i) -> a < b -> In b (col adj a);
  (** (3) separator i is inside clique (parent i), supernode i is disjoint from it;
      so separator i = clique i /\ clique (parent i) *)
  nm_sep_parent : forall i q, i < length snodes -> spar_of sp i = Some q ->
    forall u, In u (separator adj (snd_of snodes i)) -> In u (clique adj snodes q);
  nm_snode_disj : forall i q, i < length snodes -> spar_of sp i = Some q ->
    forall u, In u (snd_of snodes i) -> ~ In u (clique adj snodes q);
  nm_sep_inter : forall i q, i < length snodes -> spar_of sp i = Some q ->
    forall u, In u (separator adj (snd_of snodes i)) <->
              In u (clique adj snodes i) /\ In u (clique adj snodes q);
  (** (4) running intersection, parent form: what clique i does not own goes to its parent,
      and every separator vertex is owned by a proper ancestor *)
  nm_rip_parent : forall i q, i < length snodes -> spar_of sp i = Some q ->
    forall u, In u (clique adj snodes i) -> ~ In u (snd_of snodes i) -> In u (clique adj snodes q);
  nm_sep_anc : forall j u, j < length snodes -> In u (separator adj (snd_of snodes j)) ->
    exists a, Anc sp j a /\ a < length snodes /\ In u (snd_of snodes a);
  (** (5) the parent relation is acyclic (the last vertex of the supernode strictly increases),
      its unique root is the supernode of n-1, whose separator is empty *)
  nm_parent_last_lt : forall i q, i < length snodes -> spar_of sp i = Some q ->
    q < length snodes /\ last (snd_of snodes i) 0 < last (snd_of snodes q) 0;
  nm_acyclic : forall i, i < length snodes -> ~ Anc sp i i;
  nm_root_iff : forall i, i < length snodes ->
    (spar_of sp i = None <-> In (length adj - 1) (snd_of snodes i));
  nm_root_unique : forall i j, i < length snodes -> j < length snodes ->
    spar_of sp i = None -> spar_of sp j = None -> i = j;
  nm_root_exists : 0 < length adj -> exists r, r < length snodes /\ spar_of sp r = None;
  nm_root_sep : forall r, r < length snodes -> spar_of sp r = None ->
    separator adj (snd_of snodes r) = [];
  nm_reach_root : forall i, i < length snodes ->
    exists r, (r = i \/ Anc sp i r) /\ r < length snodes /\ spar_of sp r = None
}.

Theorem nomerge_valid_PS : forall adj snodes sp,
  WF adj -> Filled adj -> PS adj snodes sp -> NoMergeValid adj snodes sp.
Proof.
  intros adj snodes sp Hwf Hfill Hps. constructor.
  - intros v Hv. destruct (snd_of_vertex adj snodes sp Hps v Hv) as [i [Hi Hin]].
    exists i. split; [exact Hi|]. split; [exact Hin|].
    intros j Hj Hvj. exact (snd_unique adj snodes sp Hps j i v Hj Hi Hvj Hin).
  - intros i v. apply (snd_lt adj snodes sp Hps).
  - apply (edge_cover adj snodes sp Hwf Hfill Hps).
  - apply (clique_vmin adj snodes sp Hwf Hfill Hps).
  - apply (clique_NoDup adj snodes sp Hwf Hps).
  - apply (clique_is_clique adj snodes sp Hwf Hfill Hps).
  - apply (sep_sub_parent adj snodes sp Hwf Hfill Hps).
  - apply (snd_disj_parent adj snodes sp Hwf Hfill Hps).
  - apply (sep_inter adj snodes sp Hwf Hfill Hps).
  - apply (rip_parent adj snodes sp Hwf Hfill Hps).
  - apply (sep_anc adj snodes sp Hwf Hfill Hps).
  - apply (parent_last_lt adj snodes sp Hwf Hps).
  - apply (Anc_irrefl adj snodes sp Hwf Hps).
  - apply (root_iff adj snodes sp Hwf Hps).
  - apply (root_unique adj snodes sp Hwf Hps).
  - apply (root_exists adj snodes sp Hwf Hps).
  - apply (root_sep_nil adj snodes sp Hwf Hfill Hps).
  - intros i Hi.
    exact (reach_root_aux adj snodes sp Hwf Hps (S (length adj - last (snd_of snodes i) 0)) i Hi
             ltac:(lia)).
Qed.

Theorem nomerge_valid_partial : forall adj snodes sp,
  WF adj -> Filled adj -> ps_ok adj snodes sp = true -> NoMergeValid adj snodes sp.
Proof.
  intros adj snodes sp Hwf Hfill Hok.
  exact (nomerge_valid_PS adj snodes sp Hwf Hfill (ps_ok_spec adj snodes sp Hok)).
Qed.

(** classical running-intersection property: for every list [post] of supernode indices in
    which every parent occurs after its children, what clique i shares with a later clique j
    is inside the clique of the parent of i (which exists) *)
Theorem nomerge_rip_postorder : forall adj snodes sp,
  WF adj -> Filled adj -> ps_ok adj snodes sp = true ->
  forall post, NoDup post -> (forall c, In c post -> c < length snodes) ->
  (forall pre c suf q, post = pre ++ c :: suf -> spar_of sp c = Some q -> In q suf) ->
  forall pre i suf j v, post = pre ++ i :: suf -> In j suf ->
    In v (clique adj snodes i) -> In v (clique adj snodes j) ->
    exists q, spar_of sp i = Some q /\ In v (clique adj snodes q).
Proof.
  intros adj snodes sp Hwf Hfill Hok post Hnd Hidx Hpar.
  exact (rip_postorder adj snodes sp Hwf Hfill (ps_ok_spec adj snodes sp Hok) post Hnd Hidx Hpar).
Qed.

(** induced-subtree form: any two cliques containing v are joined, through cliques that all
    contain v, at the supernode that owns v *)
Theorem nomerge_rip_subtree : forall adj snodes sp,
  WF adj -> Filled adj -> ps_ok adj snodes sp = true ->
  forall v c d, c < length snodes -> d < length snodes ->
    In v (clique adj snodes c) -> In v (clique adj snodes d) ->
    exists a, a < length snodes /\ In v (snd_of snodes a) /\
              PathV adj snodes sp v c a /\ PathV adj snodes sp v d a.
Proof.
  intros adj snodes sp Hwf Hfill Hok.
  exact (rip_subtree adj snodes sp Hwf Hfill (ps_ok_spec adj snodes sp Hok)).
Qed.

(** * Executable checks of the pattern hypotheses (for the examples and the harness) *)

Fixpoint incr_b (lo hi : nat) (l : list nat) : bool :=
  match l with
  | [] => true
  | x :: r => (lo <=? x) && (x <? hi) && incr_b (S x) hi r
  end.

Definition wf_b (adj : list (list nat)) : bool :=
  forallb (fun v => incr_b (S v) (length adj) (col adj v)) (seq 0 (length adj)).

Definition filled_b (adj : list (list nat)) : bool :=
  forallb (fun v =>
    forallb (fun u => forallb (fun w => implb (u <? w) (memb w (col adj u))) (col adj v))
            (col adj v)) (seq 0 (length adj))
  && forallb (fun v => match col adj v with [] => false | _ :: _ => true end)
             (seq 0 (length adj - 1)).

Lemma incr_b_spec : forall l lo hi, incr_b lo hi l = true ->
  StronglySorted lt l /\ forall x, In x l -> lo <= x < hi.
Proof.
  induction l as [|a l IH]; simpl; intros lo hi H.
  - split; [constructor|]. intros x [].
  - apply andb_true_iff in H. destruct H as [H Hr]. apply andb_true_iff in H. destruct H as [H1 H2].
    apply Nat.leb_le in H1. apply Nat.ltb_lt in H2. destruct (IH _ _ Hr) as [Hs Hb]. split.
    + constructor; [exact Hs|]. apply Forall_forall. intros x Hx. apply Hb in Hx. lia.
    + intros x [Hx|Hx]; [subst; lia|]. apply Hb in Hx. lia.
Qed.

Lemma col_in_lt : forall adj v u, In u (col adj v) -> v < length adj.
Proof.
  intros adj v u Hu. destruct (Nat.lt_ge_cases v (length adj)) as [Hlt|Hge]; [exact Hlt|].
  unfold col in Hu. rewrite nth_overflow in Hu; [destruct Hu|exact Hge].
Qed.

Lemma wf_b_spec : forall adj, wf_b adj = true -> WF adj.
Proof.
  intros adj H. unfold wf_b in H. rewrite forallb_forall in H. split.
  - intros v u Hu. pose proof (col_in_lt adj v u Hu) as Hv.
    assert (Hin : In v (seq 0 (length adj))) by (apply in_seq; lia).
    destruct (incr_b_spec _ _ _ (H v Hin)) as [_ Hb]. apply Hb in Hu. lia.
  - intros v. destruct (Nat.lt_ge_cases v (length adj)) as [Hlt|Hge].
    + assert (Hin : In v (seq 0 (length adj))) by (apply in_seq; lia).
      exact (proj1 (incr_b_spec _ _ _ (H v Hin))).
    + unfold col. rewrite nth_overflow; [constructor|exact Hge].
Qed.

Lemma filled_b_spec : forall adj, filled_b adj = true -> Filled adj.
Proof.
  intros adj H. unfold filled_b in H. apply andb_true_iff in H. destruct H as [H1 H2].
  rewrite forallb_forall in H1, H2. split.
  - intros v u w Hu Hw Hlt. pose proof (col_in_lt adj v u Hu) as Hv.
    assert (Hin : In v (seq 0 (length adj))) by (apply in_seq; lia).
    pose proof (H1 v Hin) as H. rewrite forallb_forall in H. pose proof (H u Hu) as H'.
    rewrite forallb_forall in H'. pose proof (H' w Hw) as H''.
    rewrite (proj2 (Nat.ltb_lt u w) Hlt) in H''. simpl in H''. apply memb_In. exact H''.
  - intros v Hv He. assert (Hin : In v (seq 0 (length adj - 1))) by (apply in_seq; lia).
    pose proof (H2 v Hin) as H. rewrite He in H. discriminate.
Qed.

Corollary nomerge_valid_check : forall adj snodes sp,
  wf_b adj && filled_b adj && ps_ok adj snodes sp = true -> NoMergeValid adj snodes sp.
Proof.
  intros adj snodes sp H. apply andb_true_iff in H. destruct H as [H Hok].
  apply andb_true_iff in H. destruct H as [Hw Hf].
  exact (nomerge_valid_partial adj snodes sp (wf_b_spec adj Hw) (filled_b_spec adj Hf) Hok).
Qed.

(** * Examples (supernodes and parents as [find_supernodes] returns them) *)

(** the path 0-1-2-3: pothen_sun merges only {2,3} (degree 2 = degree 3 + 1) *)
Definition ex_path : list (list nat) := [[1]; [2]; [3]; []].
Example ex_path_ok :
  wf_b ex_path && filled_b ex_path
  && ps_ok ex_path [[0]; [1]; [2; 3]] [Some 1; Some 2; None] = true.
Proof. vm_compute. reflexivity. Qed.
Example ex_path_sep :
  map (separator ex_path) [[0]; [1]; [2; 3]] = [[1]; [2]; []].
Proof. vm_compute. reflexivity. Qed.
Example ex_path_valid : NoMergeValid ex_path [[0]; [1]; [2; 3]] [Some 1; Some 2; None].
Proof. apply nomerge_valid_check. vm_compute. reflexivity. Qed.

(** an arrow pattern (dense last row): 0 joins the root supernode, 1 and 2 hang below it *)
Definition ex_arrow : list (list nat) := [[3]; [3]; [3]; []].
Example ex_arrow_ok :
  wf_b ex_arrow && filled_b ex_arrow
  && ps_ok ex_arrow [[0; 3]; [1]; [2]] [None; Some 0; Some 0] = true.
Proof. vm_compute. reflexivity. Qed.
Example ex_arrow_sep :
  map (separator ex_arrow) [[0; 3]; [1]; [2]] = [[]; [3]; [3]].
Proof. vm_compute. reflexivity. Qed.

(** a filled 5-vertex pattern with a genuine 3-chain supernode *)
Definition ex_fill : list (list nat) := [[2; 3]; [3; 4]; [3; 4]; [4]; []].
Example ex_fill_ok :
  wf_b ex_fill && filled_b ex_fill
  && ps_ok ex_fill [[0]; [1]; [2; 3; 4]] [Some 2; Some 2; None] = true.
Proof. vm_compute. reflexivity. Qed.
Example ex_fill_sep :
  map (separator ex_fill) [[0]; [1]; [2; 3; 4]] = [[2; 3]; [3; 4]; []].
Proof. vm_compute. reflexivity. Qed.

(** wrong answers are rejected: a supernode whose degrees do not drop by one, a wrong parent *)
Example ex_path_bad_chain :
  ps_ok ex_path [[0]; [1; 2; 3]] [Some 1; None] = false.
Proof. vm_compute. reflexivity. Qed.
Example ex_path_bad_parent :
  ps_ok ex_path [[0]; [1]; [2; 3]] [Some 2; Some 2; None] = false.
Proof. vm_compute. reflexivity. Qed.

(** the order invariant "a child supernode has smaller vertices / a smaller minimum than its
    parent" does NOT hold: here supernode {1} has parent {0,2}.  Only the last vertex grows. *)
Definition ex_vee : list (list nat) := [[2]; [2]; []].
Example ex_vee_order :
  wf_b ex_vee && filled_b ex_vee && ps_ok ex_vee [[0; 2]; [1]] [None; Some 0] = true
  /\ spar_of [None; Some 0] 1 = Some 0
  /\ vmin (snd_of [[0; 2]; [1]] 0) < vmin (snd_of [[0; 2]; [1]] 1).
Proof. vm_compute. repeat split; lia. Qed.

Print Assumptions ps_ok_spec.
Print Assumptions nomerge_valid_partial.
Print Assumptions nomerge_rip_postorder.
Print Assumptions nomerge_rip_subtree.
Print Assumptions nomerge_valid_check.
