(** C18 — standard form: every original entry appears exactly once in the augmented data
    ([A H; 0 -I], [b; 0]) at the row the reversal reads, every added column is a unit tie
    (+1 at the H row, -1 at its own new row), and inside one clique block every entry (i, j)
    of the clique is listed exactly once. *)
From Coq Require Import List Arith ZArith NArith Lia Bool.
Import ListNotations.
Require Import Clarabel.Chordal.TreeSpec Clarabel.Chordal.TriIndex Clarabel.Chordal.E2E Clarabel.Chordal.Decomp.

Lemma std_A_length m Acols HI : length (std_A m Acols HI) = (length Acols + length HI)%nat.
Proof. unfold std_A. rewrite app_length, map_length, combine_length, seq_length. lia. Qed.

(** the data columns are copied verbatim: same rows, same values, nothing added *)
Theorem std_A_keeps_data m Acols HI : firstn (length Acols) (std_A m Acols HI) = Acols.
Proof. unfold std_A. rewrite firstn_app, Nat.sub_diag, firstn_all. cbn [firstn]. apply app_nil_r. Qed.

(** column n+k consists of exactly the unit entry of H and the -1 of the identity block *)
Theorem std_A_added_col m Acols HI k : (k < length HI)%nat ->
  nth (length Acols + k) (std_A m Acols HI) [] = [(nth k HI 0%N, 1%Z); ((m + N.of_nat k)%N, (-1)%Z)].
Proof.
  intros Hk. unfold std_A. rewrite app_nth2 by lia. replace (length Acols + k - length Acols)%nat with k by lia.
  set (f := fun kh : nat * N => [(snd kh, 1%Z); ((m + N.of_nat (fst kh))%N, (-1)%Z)]).
  rewrite (nth_indep _ [] (f (0%nat, 0%N))) by (rewrite map_length, combine_length, seq_length; lia).
  rewrite (map_nth f). rewrite combine_nth by (rewrite seq_length; reflexivity).
  rewrite seq_nth by lia. reflexivity.
Qed.

Theorem std_b_keeps b HI : firstn (length b) (std_b b HI) = b /\ skipn (length b) (std_b b HI) = repeat 0%Z (length HI).
Proof.
  unfold std_b. split.
  - rewrite firstn_app, Nat.sub_diag, firstn_all. cbn [firstn]. apply app_nil_r.
  - rewrite skipn_app, Nat.sub_diag, skipn_all. reflexivity.
Qed.

(** the (i, j), i <= j, pairs of a clique, in svec order *)
Definition pairs (c : list N) : list (N * N) :=
  flat_map (fun j => map (fun i => (i, j)) (filter (fun i => (i <=? j)%N) c)) c.
Lemma subblock_pairs_gen (c cs : list N) row0 :
  flat_map (fun j => map (fun i => (row0 + coord_to_idx (i, j))%N) (filter (fun i => (i <=? j)%N) c)) cs
  = map (fun ij => (row0 + coord_to_idx ij)%N)
        (flat_map (fun j => map (fun i => (i, j)) (filter (fun i => (i <=? j)%N) c)) cs).
Proof.
  induction cs as [|j cs IH]; [reflexivity|].
  cbn [flat_map]. rewrite map_app, map_map. f_equal. exact IH.
Qed.
Lemma subblock_pairs c row0 : subblock c row0 = map (fun ij => (row0 + coord_to_idx ij)%N) (pairs c).
Proof. unfold subblock, pairs. apply subblock_pairs_gen. Qed.
Lemma pairs_In c i j : In (i, j) (pairs c) <-> In i c /\ In j c /\ (i <= j)%N.
Proof.
  unfold pairs. rewrite in_flat_map. split.
  - intros (j' & Hj' & Hin). apply in_map_iff in Hin. destruct Hin as (i' & Heq & Hi').
    injection Heq as -> ->. apply filter_In in Hi'. destruct Hi' as [Hi Hle]. apply N.leb_le in Hle. tauto.
  - intros (Hi & Hj & Hle). exists j. split; [exact Hj|]. apply in_map_iff. exists i. split; [reflexivity|].
    apply filter_In. split; [exact Hi | apply N.leb_le; exact Hle].
Qed.
Lemma NoDup_filter {A} (f : A -> bool) l : NoDup l -> NoDup (filter f l).
Proof.
  induction 1 as [|x l Hn Hnd IH]; cbn [filter]; [constructor|].
  destruct (f x); [constructor; [rewrite filter_In; tauto | exact IH] | exact IH].
Qed.

Lemma NoDup_app_intro {A} (l1 l2 : list A) :
  NoDup l1 -> NoDup l2 -> (forall x, In x l1 -> ~ In x l2) -> NoDup (l1 ++ l2).
Proof.
  induction l1 as [|a l1 IH]; intros H1 H2 Hd; [exact H2|].
  inversion H1 as [|? ? Hn H1']; subst. cbn [app]. constructor.
  - intros Hin. apply in_app_or in Hin. destruct Hin as [Hin|Hin]; [exact (Hn Hin)|].
    apply (Hd a); [left; reflexivity | exact Hin].
  - apply IH; [exact H1' | exact H2 |]. intros x Hx. apply Hd. right. exact Hx.
Qed.
Lemma pairs_NoDup_gen (c cs : list N) : NoDup cs -> NoDup c ->
  NoDup (flat_map (fun j => map (fun i => (i, j)) (filter (fun i => (i <=? j)%N) c)) cs).
Proof.
  intros Hcs Hc. induction Hcs as [|j cs Hn Hnd IH]; cbn [flat_map]; [constructor|].
  apply NoDup_app_intro.
  - apply FinFun.Injective_map_NoDup; [intros a b Hab; injection Hab; auto | apply NoDup_filter; exact Hc].
  - exact IH.
  - intros [i j'] Hin Hin2. apply in_map_iff in Hin. destruct Hin as (i0 & Heq & _). injection Heq as _ <-.
    apply in_flat_map in Hin2. destruct Hin2 as (j2 & Hj2 & Hin2). apply in_map_iff in Hin2.
    destruct Hin2 as (i2 & Heq2 & _). injection Heq2 as _ ->. exact (Hn Hj2).
Qed.
Lemma pairs_NoDup c : NoDup c -> NoDup (pairs c).
Proof. intros Hc. apply pairs_NoDup_gen; exact Hc. Qed.

Lemma NoDup_map_inj_in {A B} (f : A -> B) l :
  (forall x y, In x l -> In y l -> f x = f y -> x = y) -> NoDup l -> NoDup (map f l).
Proof.
  intros Hinj Hnd. induction Hnd as [|x l Hn Hnd IH]; cbn [map]; [constructor|]. constructor.
  - intros Hin. apply in_map_iff in Hin. destruct Hin as (y & Heq & Hy).
    assert (y = x) by (apply Hinj; [right; exact Hy | left; reflexivity | exact Heq]). subst. exact (Hn Hy).
  - apply IH. intros a b Ha Hb. apply Hinj; right; assumption.
Qed.

(** inside a clique block every (i, j) has its own row: the block is a bijective copy of the
    clique's packed triangle *)
Theorem subblock_NoDup c row0 : NoDup c -> NoDup (subblock c row0).
Proof.
  intros Hc. rewrite subblock_pairs. apply NoDup_map_inj_in; [|apply pairs_NoDup; exact Hc].
  intros [i j] [i' j'] H1 H2 Heq. apply pairs_In in H1. apply pairs_In in H2.
  destruct H1 as (_ & _ & Hle). destruct H2 as (_ & _ & Hle').
  assert (E : coord_to_idx (i, j) = coord_to_idx (i', j')) by lia.
  destruct (coord_to_idx_inj i j i' j' Hle Hle' E) as [-> ->]. reflexivity.
Qed.
Theorem subblock_length c row0 : length (subblock c row0) = length (pairs c).
Proof. rewrite subblock_pairs. apply map_length. Qed.
