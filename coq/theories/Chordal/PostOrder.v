(** [post_order] of [src/solver/chordal/supernode_tree.rs], for an arbitrary parent forest.

    {[
    pub(crate) fn post_order(post: &mut Vec<usize>, parent: &[usize],
                             children: &mut [VertexSet], nc: usize) {
        let mut order = vec![nc + 1; parent.len()];
        let root = parent.iter().position(|&x| x == NO_PARENT).unwrap();
        let mut stack = Vec::with_capacity(parent.len());
        stack.push(root);
        post.resize(parent.len(), 0);
        post.iter_mut().enumerate().for_each(|(i, p)| *p = i);
        let mut i = nc;
        while let Some(v) = stack.pop() {
            order[v] = i;
            i -= 1;
            children[v].sort();
            stack.extend(children[v].iter());
        }
        post.sort_by(|&x, &y| order[x].cmp(&order[y]));
        if nc != parent.len() { post.truncate(nc); }
    }
    ]}

    Modelling conventions.
    - [parent : list par]; [Root] is [NO_PARENT], [Dead] is [INACTIVE_NODE] (merged-away
      supernodes), [Par p] is an ordinary parent link.
    - [children[v]] is recomputed from [parent] exactly as [children_from_parent] builds it
      ([children[pi].insert(i)] for every [i] with [parent[i] = pi]) and then sorted
      ascending by [children[v].sort()]: [filter (is_child parent v) (seq 0 n)].
    - The stack is a list whose head is the top.  [stack.extend(children[v].iter())] pushes the
      children in ascending order, so the largest child is on top: [rev (children v) ++ rest].
    - [order] is a [list nat] of length [n]; [order[v] = i] is [upd order v i].
    - [i -= 1] on [usize] is modelled with debug-build (overflow-checked) semantics: a pop with
      [i = 0] makes the model return [None] (the Rust code would store 0 and then panic on the
      decrement).  Under the hypotheses of the theorem this never happens.
    - The [while] loop gets fuel [S n]; exhaustion returns [None].  The theorem shows that the
      result is [Some _], i.e. the fuel is never exhausted.
    - [sort_by] is a stable sort; its output is uniquely determined by stability, so it is
      modelled by the stable insertion sort [sort_by].
    - [.unwrap()] on a missing root is [None]. *)
From Coq Require Import List Arith Lia Bool Permutation Sorting.
Import ListNotations.

Inductive par := Root | Dead | Par (p : nat).

Definition parent_of (parent : list par) (w : nat) : par := nth w parent Dead.

Definition is_root (p : par) : bool := match p with Root => true | _ => false end.

Fixpoint position {A : Type} (f : A -> bool) (l : list A) : option nat :=
  match l with
  | [] => None
  | a :: t => if f a then Some 0 else option_map S (position f t)
  end.

Definition find_root (parent : list par) : option nat := position is_root parent.

Definition is_child (parent : list par) (v w : nat) : bool :=
  match parent_of parent w with Par p => p =? v | _ => false end.

Definition children (parent : list par) (v : nat) : list nat :=
  filter (is_child parent v) (seq 0 (length parent)).

Fixpoint upd (l : list nat) (k x : nat) : list nat :=
  match l, k with
  | [], _ => []
  | _ :: t, 0 => x :: t
  | a :: t, S k' => a :: upd t k' x
  end.

Fixpoint loop (parent : list par) (fuel : nat) (stack : list nat) (i : nat) (order : list nat)
  {struct fuel} : option (list nat) :=
  match stack with
  | [] => Some order
  | v :: rest =>
      match fuel, i with
      | S f, S i' => loop parent f (rev (children parent v) ++ rest) i' (upd order v (S i'))
      | _, _ => None
      end
  end.

Fixpoint insert_by (key : nat -> nat) (x : nat) (l : list nat) : list nat :=
  match l with
  | [] => [x]
  | y :: t => if key x <=? key y then x :: y :: t else y :: insert_by key x t
  end.

Definition sort_by (key : nat -> nat) (l : list nat) : list nat :=
  fold_right (insert_by key) [] l.

Definition post_order (parent : list par) (nc : nat) : option (list nat) :=
  let n := length parent in
  match find_root parent with
  | None => None
  | Some root =>
      match loop parent (S n) [root] nc (repeat (nc + 1) n) with
      | None => None
      | Some order =>
          let post := sort_by (fun x => nth x order 0) (seq 0 n) in
          Some (if nc =? n then post else firstn nc post)
      end
  end.

(** Sanity checks of the model. *)
Example post_order_ex1 :
  post_order [Par 2; Par 2; Par 4; Par 4; Root] 5 = Some [0; 1; 2; 3; 4].
Proof. vm_compute. reflexivity. Qed.

Example post_order_ex2 :   (* nodes 1 and 4 are dead; 5 live nodes *)
  post_order [Par 6; Dead; Par 0; Par 6; Dead; Par 0; Root] 5 = Some [2; 5; 0; 3; 6].
Proof. vm_compute. reflexivity. Qed.

Example post_order_ex3 :   (* root in the middle, children out of index order *)
  post_order [Par 3; Par 0; Par 3; Root; Par 0; Par 2] 6 = Some [1; 4; 0; 5; 2; 3].
Proof. vm_compute. reflexivity. Qed.

(** * Specification vocabulary *)

(** [anc parent k x]: the node reached from [x] by following exactly [k] [Par] links. *)
Fixpoint anc (parent : list par) (k : nat) (x : nat) : option nat :=
  match k with
  | 0 => Some x
  | S k' => match parent_of parent x with Par p => anc parent k' p | _ => None end
  end.

Definition Reaches (parent : list par) (r v : nat) : Prop := exists k, anc parent k v = Some r.

(** Well-formed parent array: there is a root, every [Par] link points inside the array, and
    the links are acyclic (witnessed by a height function strictly increasing along links).
    Nothing is assumed about [Dead] nodes, about further [Root] entries after the first one
    (their trees are simply unreachable), or about connectivity. *)
Definition Forest (parent : list par) : Prop :=
  (exists r, find_root parent = Some r) /\
  exists h : nat -> nat,
    forall w v, parent_of parent w = Par v -> v < length parent /\ h w < h v.

(** [nc] is the number of nodes that reach the root [r]. *)
Definition LiveCount (parent : list par) (r nc : nat) : Prop :=
  exists l, NoDup l /\ (forall v, In v l <-> Reaches parent r v) /\ length l = nc.

(** * Generic list lemmas *)

Lemma NoDup_app_intro : forall (l1 l2 : list nat),
  NoDup l1 -> NoDup l2 -> (forall x, In x l1 -> ~ In x l2) -> NoDup (l1 ++ l2).
Proof.
  induction l1 as [|a l1 IH]; intros l2 H1 H2 Hd; cbn [app].
  - exact H2.
  - inversion H1 as [|a' l' Hna Hnd]; subst. constructor.
    + intros Hin. apply in_app_or in Hin. destruct Hin as [Hin | Hin].
      * exact (Hna Hin).
      * exact (Hd a (or_introl eq_refl) Hin).
    + apply IH; [exact Hnd | exact H2 |]. intros x Hx. apply Hd. right. exact Hx.
Qed.

Lemma NoDup_flat_map : forall (f : nat -> list nat) (l : list nat),
  NoDup l ->
  (forall a, In a l -> NoDup (f a)) ->
  (forall a b x, In a l -> In b l -> In x (f a) -> In x (f b) -> a = b) ->
  NoDup (flat_map f l).
Proof.
  intros f. induction l as [|a l IH]; intros Hnd Hf Hdisj; cbn [flat_map].
  - constructor.
  - inversion Hnd as [|a' l' Hna Hnd']; subst.
    apply NoDup_app_intro.
    + apply Hf. left. reflexivity.
    + apply IH; [exact Hnd' | |].
      * intros b Hb. apply Hf. right. exact Hb.
      * intros b c x Hb Hc. apply Hdisj; right; assumption.
    + intros x Hxa Hxl. apply in_flat_map in Hxl. destruct Hxl as (b & Hb & Hxb).
      assert (Hab : a = b).
      { apply (Hdisj a b x); [left; reflexivity | right; exact Hb | exact Hxa | exact Hxb]. }
      subst b. exact (Hna Hb).
Qed.

Lemma flat_map_ext_in' : forall (f g : nat -> list nat) (l : list nat),
  (forall a, In a l -> f a = g a) -> flat_map f l = flat_map g l.
Proof.
  intros f g. induction l as [|a l IH]; intros Hfg; cbn [flat_map].
  - reflexivity.
  - rewrite (Hfg a (or_introl eq_refl)). f_equal. apply IH. intros b Hb. apply Hfg. right. exact Hb.
Qed.

Lemma flat_map_split : forall (f : nat -> list nat) (l : list nat) (c : nat),
  In c l -> exists a b, flat_map f l = a ++ f c ++ b.
Proof.
  intros f l c Hin. apply in_split in Hin. destruct Hin as (l1 & l2 & Hl). subst l.
  exists (flat_map f l1), (flat_map f l2).
  rewrite flat_map_app. cbn [flat_map]. reflexivity.
Qed.

Lemma position_spec : forall (A : Type) (f : A -> bool) (d : A) (l : list A) (k : nat),
  position f l = Some k -> k < length l /\ f (nth k l d) = true.
Proof.
  intros A f d. induction l as [|a l IH]; intros k Hk; cbn [position] in Hk.
  - discriminate.
  - destruct (f a) eqn:Hfa.
    + injection Hk as Hk. subst k. cbn [length nth]. split; [lia | exact Hfa].
    + destruct (position f l) as [k'|] eqn:Hp; cbn [option_map] in Hk; [|discriminate].
      injection Hk as Hk. subst k. destruct (IH k' eq_refl) as [Hlt Hf].
      cbn [length nth]. split; [lia | exact Hf].
Qed.

Lemma upd_length : forall l k x, length (upd l k x) = length l.
Proof.
  induction l as [|a l IH]; intros k x; cbn [upd].
  - reflexivity.
  - destruct k as [|k]; cbn [length]; [reflexivity | rewrite IH; reflexivity].
Qed.

Lemma nth_upd_same : forall l k x d, k < length l -> nth k (upd l k x) d = x.
Proof.
  induction l as [|a l IH]; intros k x d Hk; cbn [length] in Hk.
  - lia.
  - destruct k as [|k]; cbn [upd nth]; [reflexivity | apply IH; lia].
Qed.

Lemma nth_upd_other : forall l k j x d, j <> k -> nth j (upd l k x) d = nth j l d.
Proof.
  induction l as [|a l IH]; intros k j x d Hjk; cbn [upd].
  - reflexivity.
  - destruct k as [|k]; destruct j as [|j]; cbn [nth]; try reflexivity; try lia.
    apply IH. lia.
Qed.

Lemma nth_repeat_lt : forall (a d : nat) n x, x < n -> nth x (repeat a n) d = a.
Proof.
  intros a d. induction n as [|n IH]; intros x Hx; [lia|].
  destruct x as [|x]; cbn [repeat nth]; [reflexivity | apply IH; lia].
Qed.

(** [assign vs i order]: the effect of the loop body on [order] for the visit sequence [vs]
    ([order[v] = i; i -= 1] for each visited [v] in turn). *)
Fixpoint assign (vs : list nat) (i : nat) (order : list nat) : list nat :=
  match vs with
  | [] => order
  | v :: t => assign t (i - 1) (upd order v i)
  end.

Lemma assign_length : forall vs i o, length (assign vs i o) = length o.
Proof.
  induction vs as [|a vs IH]; intros i o; cbn [assign].
  - reflexivity.
  - rewrite IH, upd_length. reflexivity.
Qed.

Lemma nth_assign_notin : forall vs i o x d, ~ In x vs -> nth x (assign vs i o) d = nth x o d.
Proof.
  induction vs as [|a vs IH]; intros i o x d Hn; cbn [assign].
  - reflexivity.
  - rewrite IH.
    + apply nth_upd_other. intros He. apply Hn. left. symmetry. exact He.
    + intros Hin. apply Hn. right. exact Hin.
Qed.

Lemma nth_assign_in : forall l1 x l2 i o d,
  NoDup (l1 ++ x :: l2) -> x < length o ->
  nth x (assign (l1 ++ x :: l2) i o) d = i - length l1.
Proof.
  induction l1 as [|a l1 IH]; intros x l2 i o d Hnd Hx; cbn [app assign length].
  - cbn [app] in Hnd. inversion Hnd as [|x' l' Hna Hnd']; subst.
    rewrite nth_assign_notin by exact Hna. rewrite nth_upd_same by exact Hx. lia.
  - cbn [app] in Hnd. inversion Hnd as [|a' l' Hna Hnd']; subst.
    rewrite IH; [lia | exact Hnd' | rewrite upd_length; exact Hx].
Qed.

(** ** Stable insertion sort by a key *)
Definition key_le (key : nat -> nat) (a b : nat) : Prop := key a <= key b.
Definition key_lt (key : nat -> nat) (a b : nat) : Prop := key a < key b.

Lemma insert_by_perm : forall key x l, Permutation (x :: l) (insert_by key x l).
Proof.
  intros key x. induction l as [|a l IH]; cbn [insert_by].
  - apply Permutation_refl.
  - destruct (key x <=? key a).
    + apply Permutation_refl.
    + eapply perm_trans; [apply perm_swap | apply perm_skip; exact IH].
Qed.

Lemma sort_by_cons : forall key a l, sort_by key (a :: l) = insert_by key a (sort_by key l).
Proof. reflexivity. Qed.

Lemma sort_by_perm : forall key l, Permutation l (sort_by key l).
Proof.
  intros key. induction l as [|a l IH].
  - apply Permutation_refl.
  - rewrite sort_by_cons.
    eapply perm_trans; [apply perm_skip; exact IH | apply insert_by_perm].
Qed.

Lemma insert_by_Forall : forall key (Q : nat -> Prop) x l,
  Q x -> Forall Q l -> Forall Q (insert_by key x l).
Proof.
  intros key Q x. induction l as [|a l IH]; intros Hx Hl; cbn [insert_by].
  - constructor; [exact Hx | constructor].
  - destruct (key x <=? key a).
    + constructor; [exact Hx | exact Hl].
    + inversion Hl as [|a' l' Ha Hl']; subst. constructor; [exact Ha | apply IH; assumption].
Qed.

Lemma insert_by_sorted : forall key x l,
  StronglySorted (key_le key) l -> StronglySorted (key_le key) (insert_by key x l).
Proof.
  intros key x. induction l as [|y t IH]; intros Hs; cbn [insert_by].
  - constructor; constructor.
  - inversion Hs as [|y' t' Hst Hfa]; subst. destruct (key x <=? key y) eqn:E.
    + apply Nat.leb_le in E. constructor; [exact Hs|]. constructor; [exact E|].
      eapply Forall_impl; [|exact Hfa]. intros z Hz. unfold key_le in *. lia.
    + apply Nat.leb_gt in E. constructor; [apply IH; exact Hst|].
      apply insert_by_Forall; [unfold key_le; lia | exact Hfa].
Qed.

Lemma sort_by_sorted : forall key l, StronglySorted (key_le key) (sort_by key l).
Proof.
  intros key. induction l as [|a l IH].
  - constructor.
  - rewrite sort_by_cons. apply insert_by_sorted. exact IH.
Qed.

Lemma filter_all_false : forall (f : nat -> bool) l,
  Forall (fun x => f x = false) l -> filter f l = [].
Proof.
  intros f. induction l as [|a l IH]; intros H; cbn [filter].
  - reflexivity.
  - inversion H as [|a' l' Ha Hl]; subst. rewrite Ha. apply IH. exact Hl.
Qed.

Lemma filter_all_true : forall (f : nat -> bool) l,
  Forall (fun x => f x = true) l -> filter f l = l.
Proof.
  intros f. induction l as [|a l IH]; intros H; cbn [filter].
  - reflexivity.
  - inversion H as [|a' l' Ha Hl]; subst. rewrite Ha. f_equal. apply IH. exact Hl.
Qed.

Lemma sorted_filter : forall (R : nat -> nat -> Prop) (f : nat -> bool) l,
  StronglySorted R l -> StronglySorted R (filter f l).
Proof.
  intros R f. induction l as [|a l IH]; intros Hs; cbn [filter].
  - constructor.
  - inversion Hs as [|a' l' Hst Hfa]; subst. destruct (f a).
    + constructor; [apply IH; exact Hst|].
      apply Forall_forall. intros y Hy. apply filter_In in Hy. destruct Hy as [Hy _].
      rewrite Forall_forall in Hfa. apply Hfa. exact Hy.
    + apply IH. exact Hst.
Qed.

(** A key-sorted list is its low-key part followed by its high-key part. *)
Lemma sorted_split : forall key c l, StronglySorted (key_le key) l ->
  l = filter (fun x => key x <=? c) l ++ filter (fun x => negb (key x <=? c)) l.
Proof.
  intros key c. induction l as [|a l IH]; intros Hs.
  - reflexivity.
  - inversion Hs as [|a' l' Hst Hfa]; subst. cbn [filter].
    destruct (key a <=? c) eqn:E; cbn [negb app].
    + f_equal. apply IH. exact Hst.
    + apply Nat.leb_gt in E.
      rewrite (filter_all_false (fun x => key x <=? c) l).
      * cbn [app]. f_equal. symmetry. apply filter_all_true.
        eapply Forall_impl; [|exact Hfa]. intros z Hz. unfold key_le in Hz.
        apply negb_true_iff. apply Nat.leb_gt. lia.
      * eapply Forall_impl; [|exact Hfa]. intros z Hz. unfold key_le in Hz.
        apply Nat.leb_gt. lia.
Qed.

(** A strictly key-sorted list is the only key-sorted permutation of itself. *)
Lemma sorted_perm_unique : forall key l1 l2,
  StronglySorted (key_lt key) l1 -> StronglySorted (key_le key) l2 ->
  Permutation l1 l2 -> l1 = l2.
Proof.
  intros key. induction l1 as [|a t IH]; intros l2 H1 H2 Hp.
  - apply Permutation_nil in Hp. subst l2. reflexivity.
  - destruct l2 as [|b t2].
    { apply Permutation_sym in Hp. apply Permutation_nil in Hp. discriminate. }
    inversion H1 as [|a' t' H1t H1f]; subst. inversion H2 as [|b' t2' H2t H2f]; subst.
    assert (Hab : a = b).
    { destruct (Nat.eq_dec a b) as [He | Hne]; [exact He | exfalso].
      assert (Ha : In a (b :: t2)).
      { eapply Permutation_in; [exact Hp | left; reflexivity]. }
      assert (Hb : In b (a :: t)).
      { eapply Permutation_in; [apply Permutation_sym; exact Hp | left; reflexivity]. }
      destruct Ha as [Ha | Ha]; [congruence|]. destruct Hb as [Hb | Hb]; [congruence|].
      rewrite Forall_forall in H1f, H2f.
      specialize (H1f b Hb). specialize (H2f a Ha). unfold key_lt, key_le in *. lia. }
    subst b. f_equal. apply IH; [exact H1t | exact H2t |].
    eapply Permutation_cons_inv. exact Hp.
Qed.

Lemma StronglySorted_of_split : forall (R : nat -> nat -> Prop) l,
  (forall l1 x l2 y l3, l = l1 ++ x :: l2 ++ y :: l3 -> R x y) -> StronglySorted R l.
Proof.
  intros R. induction l as [|a l IH]; intros H.
  - constructor.
  - constructor.
    + apply IH. intros l1 x l2 y l3 E. apply (H (a :: l1) x l2 y l3). rewrite E. reflexivity.
    + apply Forall_forall. intros y Hy. apply in_split in Hy. destruct Hy as (l2 & l3 & E).
      apply (H [] a l2 y l3). rewrite E. reflexivity.
Qed.

Lemma rev_split3 : forall (l l1 l2 l3 : list nat) x y,
  rev l = l1 ++ x :: l2 ++ y :: l3 -> l = rev l3 ++ y :: rev l2 ++ x :: rev l1.
Proof.
  intros l l1 l2 l3 x y E. apply (f_equal (@rev nat)) in E. rewrite rev_involutive in E.
  rewrite E. rewrite rev_app_distr. cbn [rev]. rewrite rev_app_distr. cbn [rev].
  repeat rewrite <- app_assoc. cbn [app]. reflexivity.
Qed.

(** * Tree lemmas *)
Section Tree.
  Variable parent : list par.
  Variable h : nat -> nat.
  Hypothesis Hacyc : forall w v, parent_of parent w = Par v -> h w < h v.

  Lemma parent_of_lt : forall w, parent_of parent w <> Dead -> w < length parent.
  Proof.
    intros w Hw. destruct (lt_dec w (length parent)) as [Hlt | Hge]; [exact Hlt | exfalso].
    apply Hw. unfold parent_of. apply nth_overflow. lia.
  Qed.

  Lemma children_spec : forall v w, In w (children parent v) <-> parent_of parent w = Par v.
  Proof.
    intros v w. unfold children. rewrite filter_In, in_seq. unfold is_child. split.
    - intros [_ Hc]. destruct (parent_of parent w) as [| |p]; try discriminate.
      apply Nat.eqb_eq in Hc. subst p. reflexivity.
    - intros Hp. split.
      + assert (Hlt : w < length parent) by (apply parent_of_lt; rewrite Hp; discriminate). lia.
      + rewrite Hp. apply Nat.eqb_refl.
  Qed.

  Lemma children_NoDup : forall v, NoDup (children parent v).
  Proof. intros v. unfold children. apply NoDup_filter. apply seq_NoDup. Qed.

  Lemma anc_add : forall a b x,
    anc parent (a + b) x
    = match anc parent a x with Some y => anc parent b y | None => None end.
  Proof.
    induction a as [|a IH]; intros b x; cbn [anc Nat.add].
    - reflexivity.
    - destruct (parent_of parent x) as [| |p]; [reflexivity | reflexivity | apply IH].
  Qed.

  Lemma anc_step : forall k x y v,
    anc parent k x = Some y -> parent_of parent y = Par v -> anc parent (S k) x = Some v.
  Proof.
    intros k x y v Hk Hy. replace (S k) with (k + 1) by lia.
    rewrite anc_add, Hk. cbn [anc]. rewrite Hy. reflexivity.
  Qed.

  Lemma anc_last : forall k x v,
    anc parent (S k) x = Some v ->
    exists y, anc parent k x = Some y /\ parent_of parent y = Par v.
  Proof.
    intros k x v Hk. replace (S k) with (k + 1) in Hk by lia.
    rewrite anc_add in Hk. destruct (anc parent k x) as [y|]; [|discriminate].
    exists y. split; [reflexivity|]. cbn [anc] in Hk.
    destruct (parent_of parent y) as [| |p]; try discriminate.
    injection Hk as Hk. subst p. reflexivity.
  Qed.

  Lemma anc_height : forall k x y, anc parent k x = Some y -> h x + k <= h y.
  Proof.
    induction k as [|k IH]; intros x y Hk; cbn [anc] in Hk.
    - injection Hk as Hk. subst y. lia.
    - destruct (parent_of parent x) as [| |p] eqn:Hp; try discriminate.
      pose proof (Hacyc x p Hp) as Hh. pose proof (IH p y Hk) as Hi. lia.
  Qed.

  Lemma anc_steps_lt_absurd : forall a b x v,
    a < b -> anc parent a x = Some v -> anc parent b x = Some v -> False.
  Proof.
    intros a b x v Hab Ha Hb. replace b with (a + (b - a)) in Hb by lia.
    rewrite anc_add, Ha in Hb. apply anc_height in Hb. lia.
  Qed.

  Lemma anc_steps_unique : forall a b x v,
    anc parent a x = Some v -> anc parent b x = Some v -> a = b.
  Proof.
    intros a b x v Ha Hb. destruct (Nat.lt_trichotomy a b) as [Hlt | [He | Hgt]].
    - exfalso. exact (anc_steps_lt_absurd a b x v Hlt Ha Hb).
    - exact He.
    - exfalso. exact (anc_steps_lt_absurd b a x v Hgt Hb Ha).
  Qed.

  (** ** The preorder list of the subtree of [v] (largest child first), with depth fuel. *)
  Fixpoint pre_d (d : nat) (v : nat) : list nat :=
    match d with
    | 0 => [v]
    | S d' => v :: flat_map (pre_d d') (rev (children parent v))
    end.

  Lemma children_h0 : forall v, h v = 0 -> children parent v = [].
  Proof.
    intros v Hv. destruct (children parent v) as [|w l] eqn:Hc; [reflexivity | exfalso].
    assert (Hin : In w (children parent v)) by (rewrite Hc; left; reflexivity).
    apply children_spec in Hin. apply Hacyc in Hin. lia.
  Qed.

  Lemma pre_d_stable : forall d d' v, h v <= d -> h v <= d' -> pre_d d v = pre_d d' v.
  Proof.
    induction d as [|d IH]; intros d' v Hd Hd'.
    - assert (Hc : children parent v = []) by (apply children_h0; lia).
      destruct d' as [|d']; cbn [pre_d]; [reflexivity|]. rewrite Hc. reflexivity.
    - destruct d' as [|d'].
      + assert (Hc : children parent v = []) by (apply children_h0; lia).
        cbn [pre_d]. rewrite Hc. reflexivity.
      + cbn [pre_d]. f_equal. apply flat_map_ext_in'. intros w Hw.
        apply in_rev in Hw. apply children_spec in Hw. apply Hacyc in Hw.
        apply IH; lia.
  Qed.

  Definition P (v : nat) : list nat := pre_d (h v) v.

  Lemma P_eq : forall v, P v = v :: flat_map P (rev (children parent v)).
  Proof.
    intros v. unfold P at 1. destruct (h v) as [|d] eqn:Hh; cbn [pre_d].
    - rewrite (children_h0 v Hh). reflexivity.
    - f_equal. apply flat_map_ext_in'. intros w Hw.
      apply in_rev in Hw. apply children_spec in Hw. apply Hacyc in Hw.
      unfold P. apply pre_d_stable; lia.
  Qed.

  Lemma P_self : forall v, In v (P v).
  Proof. intros v. rewrite P_eq. left. reflexivity. Qed.

  Lemma P_child : forall v w x, parent_of parent w = Par v -> In x (P w) -> In x (P v).
  Proof.
    intros v w x Hw Hx. rewrite P_eq. right. apply in_flat_map. exists w. split; [|exact Hx].
    apply -> in_rev. apply children_spec. exact Hw.
  Qed.

  Lemma P_sound : forall m v, h v <= m -> forall x, In x (P v) -> exists k, anc parent k x = Some v.
  Proof.
    induction m as [|m IH]; intros v Hm x Hx; rewrite P_eq in Hx.
    - rewrite (children_h0 v ltac:(lia)) in Hx. cbn [rev flat_map In] in Hx. destruct Hx as [Hx | []].
      subst x. exists 0. reflexivity.
    - destruct Hx as [Hx | Hx].
      + subst x. exists 0. reflexivity.
      + apply in_flat_map in Hx. destruct Hx as (w & Hw & Hxw).
        apply in_rev in Hw. apply children_spec in Hw.
        pose proof (Hacyc w v Hw) as Hh.
        destruct (IH w ltac:(lia) x Hxw) as [k Hk].
        exists (S k). exact (anc_step k x w v Hk Hw).
  Qed.

  Lemma P_complete : forall k x v, anc parent k x = Some v -> In x (P v).
  Proof.
    induction k as [|k IH]; intros x v Hk.
    - cbn [anc] in Hk. injection Hk as Hk. subst v. apply P_self.
    - apply anc_last in Hk. destruct Hk as (y & Hy & Hp).
      apply (P_child v y x Hp). apply IH. exact Hy.
  Qed.

  Lemma P_spec : forall v x, In x (P v) <-> exists k, anc parent k x = Some v.
  Proof.
    intros v x. split.
    - apply (P_sound (h v)). lia.
    - intros [k Hk]. exact (P_complete k x v Hk).
  Qed.

  Lemma P_NoDup_aux : forall m v, h v <= m -> NoDup (P v).
  Proof.
    induction m as [|m IH]; intros v Hm; rewrite P_eq.
    - rewrite (children_h0 v ltac:(lia)). cbn [rev flat_map]. constructor; [intros [] | constructor].
    - constructor.
      + intros Hin. apply in_flat_map in Hin. destruct Hin as (w & Hw & Hvw).
        apply in_rev in Hw. apply children_spec in Hw.
        apply P_spec in Hvw. destruct Hvw as [k Hk].
        pose proof (anc_step k v w v Hk Hw) as Hcyc. apply anc_height in Hcyc. lia.
      + apply NoDup_flat_map.
        * apply NoDup_rev. apply children_NoDup.
        * intros w Hw. apply in_rev in Hw. apply children_spec in Hw.
          pose proof (Hacyc w v Hw) as Hh. apply IH. lia.
        * intros a b x Ha Hb Hxa Hxb.
          apply in_rev in Ha. apply children_spec in Ha.
          apply in_rev in Hb. apply children_spec in Hb.
          apply P_spec in Hxa. destruct Hxa as [ka Hka].
          apply P_spec in Hxb. destruct Hxb as [kb Hkb].
          pose proof (anc_step ka x a v Hka Ha) as Hva.
          pose proof (anc_step kb x b v Hkb Hb) as Hvb.
          pose proof (anc_steps_unique _ _ _ _ Hva Hvb) as Hk.
          injection Hk as Hk. subst kb. rewrite Hka in Hkb. injection Hkb as Hkb. exact Hkb.
  Qed.

  Lemma P_NoDup : forall v, NoDup (P v).
  Proof. intros v. apply (P_NoDup_aux (h v)). lia. Qed.

  (** Every subtree is a contiguous segment of any enclosing subtree's preorder list. *)
  Lemma P_contiguous_aux : forall m u, h u <= m -> forall v, In v (P u) ->
    exists l1 l3, P u = l1 ++ P v ++ l3.
  Proof.
    induction m as [|m IH]; intros u Hm v Hv.
    - rewrite P_eq in Hv. rewrite (children_h0 u ltac:(lia)) in Hv. cbn [rev flat_map In] in Hv.
      destruct Hv as [Hv | []]. subst v. exists [], []. rewrite app_nil_r. reflexivity.
    - rewrite P_eq in Hv. destruct Hv as [Hv | Hv].
      + subst v. exists [], []. rewrite app_nil_r. reflexivity.
      + apply in_flat_map in Hv. destruct Hv as (c & Hc & Hvc).
        destruct (flat_map_split P _ c Hc) as (a & b & Hab).
        apply in_rev in Hc. apply children_spec in Hc. pose proof (Hacyc c u Hc) as Hh.
        destruct (IH c ltac:(lia) v Hvc) as (l1 & l3 & Hl).
        exists (u :: a ++ l1), (l3 ++ b).
        rewrite (P_eq u), Hab, Hl. cbn [app]. f_equal.
        repeat rewrite <- app_assoc. reflexivity.
  Qed.

  Lemma P_contiguous : forall u v, In v (P u) -> exists l1 l3, P u = l1 ++ P v ++ l3.
  Proof. intros u v. apply (P_contiguous_aux (h u)). lia. Qed.

  (** ** The stack loop visits [flat_map P stack], in that order. *)
  Definition V (stack : list nat) : list nat := flat_map P stack.

  Lemma V_cons : forall v rest, V (v :: rest) = v :: V (rev (children parent v) ++ rest).
  Proof.
    intros v rest. unfold V. cbn [flat_map]. rewrite (P_eq v). rewrite flat_map_app.
    cbn [app]. reflexivity.
  Qed.

  Lemma loop_spec : forall fuel stack i order,
    length (V stack) <= fuel -> length (V stack) <= i ->
    loop parent fuel stack i order = Some (assign (V stack) i order).
  Proof.
    induction fuel as [|f IH]; intros stack i order Hf Hi.
    - destruct stack as [|v rest]; [reflexivity|].
      rewrite V_cons in Hf. cbn [length] in Hf. lia.
    - destruct stack as [|v rest]; [reflexivity|].
      rewrite V_cons in Hf, Hi. rewrite V_cons. cbn [length] in Hf, Hi.
      destruct i as [|i']; [lia|].
      cbn [loop assign]. replace (S i' - 1) with i' by lia.
      apply IH; lia.
  Qed.

End Tree.

(** * The model returns the reversed visit list *)
Section Main.
  Variable parent : list par.
  Variable h : nat -> nat.
  Hypothesis Hacyc : forall w v, parent_of parent w = Par v -> h w < h v.
  Variable r : nat.
  Hypothesis Hroot : find_root parent = Some r.
  Variable nc : nat.
  Hypothesis Hnc : LiveCount parent r nc.

  Notation n := (length parent).
  Notation vs := (P parent h r).
  Notation order' := (assign vs nc (repeat (nc + 1) n)).
  Notation key := (fun x => nth x order' 0).

  Lemma root_facts : r < n /\ parent_of parent r = Root.
  Proof.
    destruct (position_spec par is_root Dead parent r Hroot) as [Hlt Hr].
    split; [exact Hlt|]. unfold parent_of.
    destruct (nth r parent Dead); [reflexivity | discriminate | discriminate].
  Qed.

  Lemma vs_spec : forall x, In x vs <-> Reaches parent r x.
  Proof. intros x. unfold Reaches. apply P_spec. exact Hacyc. Qed.

  Lemma vs_lt : forall x, In x vs -> x < n.
  Proof.
    intros x Hx. apply vs_spec in Hx. destruct Hx as [k Hk]. destruct k as [|k].
    - cbn [anc] in Hk. injection Hk as Hk. subst x. apply root_facts.
    - cbn [anc] in Hk. apply parent_of_lt.
      destruct (parent_of parent x); [discriminate | discriminate | discriminate].
  Qed.

  Lemma vs_NoDup : NoDup vs.
  Proof. apply P_NoDup. exact Hacyc. Qed.

  Lemma vs_length_le : length vs <= n.
  Proof.
    rewrite <- (seq_length n 0). apply NoDup_incl_length; [exact vs_NoDup|].
    intros x Hx. apply in_seq. pose proof (vs_lt x Hx). lia.
  Qed.

  Lemma vs_length : length vs = nc.
  Proof.
    destruct Hnc as (l & Hnd & Hl & Hlen). rewrite <- Hlen.
    apply Permutation_length. apply NoDup_Permutation; [exact vs_NoDup | exact Hnd |].
    intros x. rewrite vs_spec, Hl. reflexivity.
  Qed.

  Lemma loop_result :
    loop parent (S n) [r] nc (repeat (nc + 1) n) = Some order'.
  Proof.
    assert (HV : V parent h [r] = vs).
    { unfold V. cbn [flat_map]. apply app_nil_r. }
    rewrite <- HV. apply loop_spec; [exact Hacyc | |]; rewrite HV.
    - pose proof vs_length_le. lia.
    - rewrite vs_length. lia.
  Qed.

  Lemma key_in : forall l1 x l2, vs = l1 ++ x :: l2 -> key x = nc - length l1.
  Proof.
    intros l1 x l2 E. cbv beta. rewrite E. apply nth_assign_in.
    - rewrite <- E. exact vs_NoDup.
    - rewrite repeat_length. apply vs_lt. rewrite E. apply in_or_app. right. left. reflexivity.
  Qed.

  Lemma key_notin : forall x, x < n -> ~ In x vs -> key x = nc + 1.
  Proof.
    intros x Hx Hn. cbv beta. rewrite nth_assign_notin by exact Hn.
    apply nth_repeat_lt. exact Hx.
  Qed.

  Lemma key_le_nc_iff : forall x, x < n -> (key x <= nc <-> In x vs).
  Proof.
    intros x Hx. split.
    - intros Hk. destruct (in_dec Nat.eq_dec x vs) as [Hin | Hnin]; [exact Hin | exfalso].
      pose proof (key_notin x Hx Hnin) as Hk'. cbv beta in Hk, Hk'. lia.
    - intros Hin. apply in_split in Hin. destruct Hin as (l1 & l2 & E).
      pose proof (key_in l1 x l2 E) as Hk. cbv beta in Hk |- *. lia.
  Qed.

  Lemma rev_vs_sorted : StronglySorted (key_lt key) (rev vs).
  Proof.
    apply StronglySorted_of_split. intros l1 x l2 y l3 E.
    apply rev_split3 in E.
    pose proof (key_in (rev l3) y (rev l2 ++ x :: rev l1) E) as Hy.
    assert (E' : vs = (rev l3 ++ y :: rev l2) ++ x :: rev l1).
    { rewrite E at 1. rewrite <- app_assoc. reflexivity. }
    pose proof (key_in _ x _ E') as Hx.
    pose proof vs_length as Hlen. rewrite E in Hlen at 1.
    repeat (rewrite app_length in Hlen; cbn [length] in Hlen).
    rewrite app_length in Hx. cbn [length] in Hx.
    unfold key_lt. cbv beta in Hx, Hy |- *. lia.
  Qed.

  Lemma sorted_low_part :
    filter (fun x => key x <=? nc) (sort_by key (seq 0 n)) = rev vs.
  Proof.
    symmetry. apply (sorted_perm_unique key).
    - exact rev_vs_sorted.
    - apply sorted_filter. apply sort_by_sorted.
    - assert (HL : forall x, In x (sort_by key (seq 0 n)) <-> x < n).
      { intros x. split.
        - intros Hx. apply (Permutation_in x (Permutation_sym (sort_by_perm key (seq 0 n)))) in Hx.
          apply in_seq in Hx. lia.
        - intros Hx. apply (Permutation_in x (sort_by_perm key (seq 0 n))).
          apply in_seq. lia. }
      apply NoDup_Permutation.
      + apply NoDup_rev. exact vs_NoDup.
      + apply NoDup_filter. apply (Permutation_NoDup (sort_by_perm key (seq 0 n))).
        apply seq_NoDup.
      + intros x. rewrite <- in_rev. rewrite filter_In. rewrite HL. split.
        * intros Hx. pose proof (vs_lt x Hx) as Hlt. split; [exact Hlt|].
          apply Nat.leb_le. apply (key_le_nc_iff x Hlt). exact Hx.
        * intros [Hlt Hk]. apply Nat.leb_le in Hk. apply (key_le_nc_iff x Hlt). exact Hk.
  Qed.

  Lemma post_order_eq : post_order parent nc = Some (rev vs).
  Proof.
    unfold post_order. rewrite Hroot. rewrite loop_result. f_equal.
    pose proof (sorted_split key nc _ (sort_by_sorted key (seq 0 n))) as Hsplit.
    cbv beta in Hsplit. rewrite sorted_low_part in Hsplit.
    set (B := filter (fun x => negb (key x <=? nc)) (sort_by key (seq 0 n))) in *.
    assert (HlenL : length (sort_by key (seq 0 n)) = n).
    { rewrite <- (Permutation_length (sort_by_perm key (seq 0 n))). apply seq_length. }
    assert (Hlenr : length (rev vs) = nc) by (rewrite rev_length; exact vs_length).
    rewrite Hsplit in HlenL |- *. rewrite app_length, Hlenr in HlenL.
    destruct (nc =? n) eqn:E.
    - apply Nat.eqb_eq in E. assert (HB : B = []).
      { destruct B as [|b B']; [reflexivity | cbn [length] in HlenL; lia]. }
      rewrite HB. apply app_nil_r.
    - rewrite firstn_app, Hlenr, Nat.sub_diag. cbn [firstn]. rewrite app_nil_r.
      rewrite <- Hlenr. apply firstn_all.
  Qed.

  (** ** Properties of the reversed visit list *)

  Lemma post_children_first : forall w v,
    parent_of parent w = Par v -> In w (rev vs) ->
    exists l1 l2 l3, rev vs = l1 ++ w :: l2 ++ v :: l3.
  Proof.
    intros w v Hw Hin. apply in_rev in Hin. apply vs_spec in Hin. destruct Hin as [k Hk].
    destruct k as [|k]; cbn [anc] in Hk.
    { injection Hk as Hk. subst w. destruct root_facts as [_ Hr]. rewrite Hr in Hw. discriminate. }
    rewrite Hw in Hk.
    assert (Hv : In v vs) by (apply (P_complete parent h Hacyc k); exact Hk).
    destruct (P_contiguous parent h Hacyc r v Hv) as (l1 & l3 & E).
    assert (Hwt : In w (flat_map (P parent h) (rev (children parent v)))).
    { apply in_flat_map. exists w. split.
      - apply -> in_rev. apply children_spec. exact Hw.
      - apply P_self. exact Hacyc. }
    apply in_split in Hwt. destruct Hwt as (m1 & m2 & Em).
    rewrite (P_eq parent h Hacyc v), Em in E.
    exists (rev l3 ++ rev m2), (rev m1), (rev l1).
    rewrite E. repeat (rewrite rev_app_distr; cbn [rev]).
    repeat rewrite <- app_assoc. cbn [app]. reflexivity.
  Qed.

  Lemma post_root_last : exists l, rev vs = l ++ [r].
  Proof.
    rewrite (P_eq parent h Hacyc r). cbn [rev]. eexists. reflexivity.
  Qed.

  Lemma post_subtree_contiguous : forall v, In v (rev vs) ->
    exists l1 seg l3, rev vs = l1 ++ (seg ++ [v]) ++ l3 /\
      forall x, In x (seg ++ [v]) <-> Reaches parent v x.
  Proof.
    intros v Hv. apply in_rev in Hv.
    destruct (P_contiguous parent h Hacyc r v Hv) as (l1 & l3 & E).
    exists (rev l3), (rev (flat_map (P parent h) (rev (children parent v)))), (rev l1). split.
    - rewrite E. repeat rewrite rev_app_distr. rewrite (P_eq parent h Hacyc v). cbn [rev].
      rewrite <- app_assoc. reflexivity.
    - intros x. unfold Reaches. rewrite <- (P_spec parent h Hacyc v x).
      rewrite (P_eq parent h Hacyc v).
      change (rev (flat_map (P parent h) (rev (children parent v))) ++ [v])
        with (rev (v :: flat_map (P parent h) (rev (children parent v)))).
      rewrite <- in_rev. reflexivity.
  Qed.

End Main.

(** * Main theorem *)
Theorem post_order_is_postorder : forall parent nc r,
  Forest parent -> find_root parent = Some r -> LiveCount parent r nc ->
  exists post, post_order parent nc = Some post /\
    (* (1) *) NoDup post /\
    (* (2) *) (forall v, In v post <-> Reaches parent r v) /\
    (* (3) children strictly before parents *)
    (forall w v, parent_of parent w = Par v -> In w post ->
       exists l1 l2 l3, post = l1 ++ w :: l2 ++ v :: l3) /\
    (* (4) the root is last *)
    (exists l, post = l ++ [r]) /\
    (* (5) every subtree is a contiguous segment ending in its own root *)
    (forall v, In v post ->
       exists l1 seg l3, post = l1 ++ (seg ++ [v]) ++ l3 /\
         forall x, In x (seg ++ [v]) <-> Reaches parent v x) /\
    (* size and range *)
    length post = nc /\ (forall v, In v post -> v < length parent).
Proof.
  intros parent nc r [_ [h Hh]] Hroot Hnc.
  assert (Hacyc : forall w v, parent_of parent w = Par v -> h w < h v).
  { intros w v Hw. apply (Hh w v Hw). }
  exists (rev (P parent h r)).
  split; [apply post_order_eq; assumption|].
  split; [apply NoDup_rev; apply vs_NoDup; assumption|].
  split; [intros v; rewrite <- in_rev; apply vs_spec; assumption|].
  split; [apply post_children_first; assumption|].
  split; [apply post_root_last; assumption|].
  split; [apply post_subtree_contiguous; assumption|].
  split; [rewrite rev_length; apply (vs_length parent h Hacyc r nc Hnc)|].
  intros v Hv. apply in_rev in Hv. exact (vs_lt parent h Hacyc r Hroot v Hv).
Qed.

(** The first-construction call [post_order(.., parent.len())]: every node reaches the root. *)
Corollary post_order_all_live : forall parent r,
  Forest parent -> find_root parent = Some r ->
  (forall v, v < length parent -> Reaches parent r v) ->
  exists post, post_order parent (length parent) = Some post /\
    Permutation post (seq 0 (length parent)) /\
    (forall w v, parent_of parent w = Par v -> w < length parent ->
       exists l1 l2 l3, post = l1 ++ w :: l2 ++ v :: l3) /\
    (exists l, post = l ++ [r]).
Proof.
  intros parent r HF Hroot Hall.
  assert (Hreach_lt : forall v, Reaches parent r v -> v < length parent).
  { intros v [k Hk]. destruct k as [|k]; cbn [anc] in Hk.
    - injection Hk as Hk. subst v.
      exact (proj1 (position_spec par is_root Dead parent r Hroot)).
    - apply parent_of_lt.
      destruct (parent_of parent v); [discriminate | discriminate | discriminate]. }
  assert (Hnc : LiveCount parent r (length parent)).
  { exists (seq 0 (length parent)). split; [apply seq_NoDup|]. split; [|apply seq_length].
    intros v. rewrite in_seq. split.
    - intros Hv. apply Hall. lia.
    - intros Hv. apply Hreach_lt in Hv. lia. }
  destruct (post_order_is_postorder parent (length parent) r HF Hroot Hnc)
    as (post & Hpo & Hnd & Hin & Hch & Hlast & _ & _ & _).
  exists post. split; [exact Hpo|]. split; [|split; [|exact Hlast]].
  - apply NoDup_Permutation; [exact Hnd | apply seq_NoDup |].
    intros v. rewrite Hin, in_seq. split.
    + intros Hv. apply Hreach_lt in Hv. lia.
    + intros Hv. apply Hall. lia.
  - intros w v Hw Hlt. apply (Hch w v Hw). apply Hin. apply Hall. exact Hlt.
Qed.

Print Assumptions post_order_is_postorder.
Print Assumptions post_order_all_live.
