(** The no-merge pipeline without per-run premises: for EVERY symmetric pattern (edge list on
    0..n-1, n > 0) the model pipeline
        factor pattern (elimination game + connect_graph)  ->  elimination tree, post-order, degrees
        ->  pothen_sun / find_supernodes  ->  separators
    yields a clique tree of the filled graph that covers every input entry.  The two models are
    tied to the implementation by exact (binding) comparison of their outputs on every run
    (Check.c17_fill, Check.c17_ps). *)
From Coq Require Import List Arith Lia Bool.
Import ListNotations.
Require Import Clarabel.Chordal.NoMerge Clarabel.Chordal.SymbolicFill Clarabel.Chordal.PothenSun.

Theorem nomerge_valid_full : forall (n : nat) (edges : list (nat * nat)), n > 0 ->
  let adj := factor_pattern n edges in
  NoMergeValid adj (fst (nomerge_tree adj)) (snd (nomerge_tree adj))
  /\ (forall u v, u < v < n -> In (u, v) edges \/ In (v, u) edges ->
        exists i, i < length (fst (nomerge_tree adj))
                  /\ In u (clique adj (fst (nomerge_tree adj)) i)
                  /\ In v (clique adj (fst (nomerge_tree adj)) i)).
Proof.
  intros n edges Hn adj.
  destruct (factor_pattern_filled n edges) as [Hwf Hfill].
  assert (Hlen : length adj > 0) by (unfold adj; rewrite factor_pattern_length; exact Hn).
  pose proof (nomerge_valid adj Hwf Hfill Hlen) as HV.
  destruct (nomerge_tree adj) as [snodes sp] eqn:E. cbn [fst snd].
  split; [exact HV|].
  intros u v Huv Hin.
  apply (nm_edge_cover adj snodes sp HV u v).
  apply factor_pattern_contains; assumption.
Qed.

Example nomerge_valid_full_cycle4 :
  nomerge_tree (factor_pattern 4 [(0,1);(1,2);(2,3);(3,0)]) = ([[0]; [1; 2; 3]], [Some 1; None]).
Proof. vm_compute. reflexivity. Qed.
