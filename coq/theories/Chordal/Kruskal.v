(* ------------------------------------------------------------------ *)
(*  Chordal/Kruskal.v                                                   *)
(*                                                                      *)
(*  Model of clarabel's `kruskal`                                       *)
(*  (src/solver/chordal/merge/clique_graph.rs) on top of the proved     *)
(*  union-find model of Chordal/Dsu.v, and its correctness:             *)
(*  totality, forest, spanning, cycle property, maximum weight.         *)
(*                                                                      *)
(*  stdlib lists + lia only.  Zero axioms.                              *)
(*                                                                      *)
(*  Main results (edges with endpoints < n; T = the taken edges):       *)
(*    kruskal_total            no fuel exhaustion                       *)
(*    kruskal_forest           T is a forest (incremental + order-free  *)
(*                             acyclicity, |T| <= n-1, |T| <= max 1 tgt)*)
(*    kruskal_spanning         complete run: eqv T <-> eqv (all edges)  *)
(*    kruskal_spanning_tree    connected graph: |T| = n-1, T connects   *)
(*    kruskal_cut              any target: greedy on a prefix, cut at   *)
(*                             exactly max 1 target taken edges         *)
(*    kruskal_cycle_property   rejected edge closes a cycle with        *)
(*                             earlier (hence heavier) taken edges      *)
(*    kruskal_max_weight       weights >= 0: T outweighs every forest   *)
(*    kruskal_max_weight_spanning  any weights: T outweighs every       *)
(*                             spanning forest (exchange argument)      *)
(*    kruskal_max_card         T has maximum cardinality                *)
(*    sort_idx_stable, kruskal_sorted_spec   stable sort, marks written *)
(*                             back at the original positions           *)
(*  "complete n target fl" = fewer than target edges taken, or          *)
(*  target >= n-1 (then stopping early loses nothing: forest_size).     *)
(*  The target is num_cliques - 1 in the Rust; it is a parameter here   *)
(*  (0 - 1 would wrap/panic in Rust and is not modelled).               *)
(* ------------------------------------------------------------------ *)

From Coq Require Import List Arith ZArith Lia Bool Permutation PeanoNat.
Require Import Clarabel.Chordal.Dsu.
Import ListNotations.

(* ================================================================== *)
(** * 1. The generated equivalence: closure facts                       *)
(* ================================================================== *)

(** [sub A B]: everything connected by [A] is connected by [B]. *)
Definition sub (A B : list (nat * nat)) : Prop :=
  forall a b, eqv A a b -> eqv B a b.

Definition same (A B : list (nat * nat)) : Prop :=
  forall a b, eqv A a b <-> eqv B a b.

Lemma sub_gen : forall A B,
  (forall x y, In (x, y) A -> eqv B x y) -> sub A B.
Proof.
  intros A B Hin a b H.
  induction H as [x | x y Hxy | x y H IH | x y z H1 IH1 H2 IH2].
  - apply eqv_refl.
  - apply Hin. exact Hxy.
  - apply eqv_sym. exact IH.
  - apply eqv_trans with (y := y); assumption.
Qed.

Lemma sub_incl : forall A B, incl A B -> sub A B.
Proof.
  intros A B Hincl. apply sub_gen. intros x y Hin.
  apply eqv_op. apply Hincl. exact Hin.
Qed.

Lemma sub_refl : forall A, sub A A.
Proof. intros A a b H. exact H. Qed.

Lemma sub_trans : forall A B C, sub A B -> sub B C -> sub A C.
Proof. intros A B C H1 H2 a b H. apply H2. apply H1. exact H. Qed.

Lemma sub_cons : forall p A B, sub A B -> sub (p :: A) (p :: B).
Proof.
  intros [x y] A B Hsub. apply sub_gen. intros u v [E | Hin].
  - apply eqv_op. left. exact E.
  - apply (sub_incl B); [intros e He; right; exact He|].
    apply Hsub. apply eqv_op. exact Hin.
Qed.

Lemma sub_app : forall C A B, sub A B -> sub (C ++ A) (C ++ B).
Proof.
  induction C as [|p C IH]; intros A B Hsub; simpl.
  - exact Hsub.
  - apply sub_cons. apply IH. exact Hsub.
Qed.

Lemma same_sub : forall A B, sub A B -> sub B A -> same A B.
Proof. intros A B H1 H2 a b. split; [apply H1 | apply H2]. Qed.

Lemma same_cons : forall p A B, same A B -> same (p :: A) (p :: B).
Proof.
  intros p A B Hs. apply same_sub; apply sub_cons; intros a b H; apply Hs; exact H.
Qed.

Lemma same_sym : forall A B, same A B -> same B A.
Proof. intros A B H a b. symmetry. apply H. Qed.

Lemma same_perm : forall A B, Permutation A B -> same A B.
Proof.
  intros A B HP. apply same_sub; apply sub_incl; intros e He.
  - apply (Permutation_in _ HP). exact He.
  - apply (Permutation_in _ (Permutation_sym HP)). exact He.
Qed.

(** Adding one pair: the new relation is explicit. *)
Lemma eqv_cons_inv : forall A x y a b,
  eqv ((x, y) :: A) a b ->
  eqv A a b \/ (eqv A a x /\ eqv A y b) \/ (eqv A a y /\ eqv A x b).
Proof.
  intros A x y a b H.
  induction H as [u | u v Huv | u v H IH | u v w H1 IH1 H2 IH2].
  - left. apply eqv_refl.
  - destruct Huv as [E | Hin].
    + injection E as Eu Ev. subst u v.
      right. left. split; apply eqv_refl.
    + left. apply eqv_op. exact Hin.
  - destruct IH as [IH | [[Ha Hb] | [Ha Hb]]].
    + left. apply eqv_sym. exact IH.
    + right. right. split; apply eqv_sym; assumption.
    + right. left. split; apply eqv_sym; assumption.
  - destruct IH1 as [K1 | [[K1 K1'] | [K1 K1']]];
    destruct IH2 as [K2 | [[K2 K2'] | [K2 K2']]].
    + left. apply eqv_trans with (y := v); assumption.
    + right. left. split; [apply eqv_trans with (y := v); assumption | exact K2'].
    + right. right. split; [apply eqv_trans with (y := v); assumption | exact K2'].
    + right. left. split; [exact K1 | apply eqv_trans with (y := v); assumption].
    + left. apply eqv_trans with (y := x); [exact K1|].
      apply eqv_trans with (y := v); [apply eqv_sym; exact K2|].
      apply eqv_trans with (y := y); [apply eqv_sym; exact K1' | exact K2'].
    + left. apply eqv_trans with (y := x); assumption.
    + right. right. split; [exact K1 | apply eqv_trans with (y := v); assumption].
    + left. apply eqv_trans with (y := y); assumption.
    + left. apply eqv_trans with (y := y); [exact K1|].
      apply eqv_trans with (y := v); [apply eqv_sym; exact K2|].
      apply eqv_trans with (y := x); [apply eqv_sym; exact K1' | exact K2'].
Qed.

Lemma eqv_weaken : forall p A a b, eqv A a b -> eqv (p :: A) a b.
Proof.
  intros p A a b H. apply (sub_incl A); [intros e He; right; exact He | exact H].
Qed.

(** The exchange property of the closure (graphic matroid). *)
Lemma eqv_exchange : forall A x y u v,
  ~ eqv A u v -> eqv ((x, y) :: A) u v -> eqv ((u, v) :: A) x y.
Proof.
  intros A x y u v Hn H.
  destruct (eqv_cons_inv A x y u v H) as [K | [[K1 K2] | [K1 K2]]].
  - contradiction.
  - apply eqv_trans with (y := u); [apply eqv_sym; apply eqv_weaken; exact K1|].
    apply eqv_trans with (y := v); [apply eqv_op; left; reflexivity|].
    apply eqv_sym. apply eqv_weaken. exact K2.
  - apply eqv_trans with (y := v); [apply eqv_weaken; exact K2|].
    apply eqv_trans with (y := u); [apply eqv_sym; apply eqv_op; left; reflexivity|].
    apply eqv_weaken. exact K1.
Qed.

Lemma same_exchange : forall A x y u v,
  ~ eqv A u v -> eqv ((x, y) :: A) u v -> same ((x, y) :: A) ((u, v) :: A).
Proof.
  intros A x y u v Hn H.
  pose proof (eqv_exchange A x y u v Hn H) as H'.
  apply same_sub; apply sub_gen; intros p q [E | Hin].
  - injection E as Ep Eq. subst p q. exact H'.
  - apply eqv_weaken. apply eqv_op. exact Hin.
  - injection E as Ep Eq. subst p q. exact H.
  - apply eqv_weaken. apply eqv_op. exact Hin.
Qed.

(** ** Decidability of [eqv], obtained from the verified union-find. *)

Fixpoint bound (A : list (nat * nat)) : nat :=
  match A with
  | [] => 0
  | (x, y) :: t => Nat.max x (Nat.max y (bound t))
  end.

Lemma bound_spec : forall A x y, In (x, y) A -> x <= bound A /\ y <= bound A.
Proof.
  induction A as [|[u v] t IH]; intros x y Hin; simpl in *.
  - contradiction.
  - destruct Hin as [E | Hin].
    + injection E as Eu Ev. subst. lia.
    + destruct (IH x y Hin) as [Hx Hy]. lia.
Qed.

Lemma eqv_dec : forall A a b, eqv A a b \/ ~ eqv A a b.
Proof.
  intros A a b.
  set (n := S (Nat.max a (Nat.max b (bound A)))).
  assert (Hr : forall x y, In (x, y) A -> x < n /\ y < n).
  { intros x y Hin. destruct (bound_spec A x y Hin) as [Hx Hy]. unfold n. lia. }
  destruct (dsu_refines_partition n A Hr) as (d & _ & Hq).
  destruct (Hq a b ltac:(unfold n; lia) ltac:(unfold n; lia)) as (d' & r & _ & Hiff).
  destruct r.
  - left. apply Hiff. reflexivity.
  - right. intros H. apply Hiff in H. discriminate.
Qed.

(* ================================================================== *)
(** * 2. Incremental independence and its order-independence           *)
(* ================================================================== *)

(** [ia acc S]: every pair of [S] joins two vertices that are not
    connected by [acc] together with the EARLIER pairs of [S]. *)
Fixpoint ia (acc S : list (nat * nat)) : Prop :=
  match S with
  | [] => True
  | (u, v) :: tl => ~ eqv acc u v /\ ia ((u, v) :: acc) tl
  end.

Lemma ia_same : forall S A B, same A B -> ia A S -> ia B S.
Proof.
  induction S as [|[u v] tl IH]; intros A B Hs H; simpl in *.
  - exact I.
  - destruct H as [Hn Htl]. split.
    + intros K. apply Hn. apply Hs. exact K.
    + apply (IH ((u, v) :: A)); [apply same_cons; exact Hs | exact Htl].
Qed.

Lemma ia_perm : forall S S', Permutation S S' ->
  forall acc, ia acc S -> ia acc S'.
Proof.
  intros S S' HP.
  induction HP as [| [u v] l l' HP IH | [u v] [p q] l | l l' l'' HP1 IH1 HP2 IH2];
    intros acc H; simpl in *.
  - exact I.
  - destruct H as [Hn Htl]. split; [exact Hn | apply IH; exact Htl].
  - destruct H as [Hpq [Huv Htl]].
    assert (Huv0 : ~ eqv acc u v).
    { intros K. apply Huv. apply eqv_weaken. exact K. }
    split; [exact Huv0|]. split.
    + intros K. apply Huv. apply (eqv_exchange acc u v p q Hpq K).
    + apply (ia_same l ((u, v) :: (p, q) :: acc)); [|exact Htl].
      apply same_perm. apply perm_swap.
  - apply IH2. apply IH1. exact H.
Qed.

Lemma ia_app : forall S1 S2 acc,
  ia acc (S1 ++ S2) <-> ia acc S1 /\ ia (rev S1 ++ acc) S2.
Proof.
  induction S1 as [|[u v] tl IH]; intros S2 acc; simpl.
  - tauto.
  - rewrite IH. rewrite <- app_assoc. simpl. tauto.
Qed.

Lemma ia_in : forall S acc u v, ia acc S -> In (u, v) S -> ~ eqv acc u v.
Proof.
  induction S as [|[p q] tl IH]; intros acc u v H Hin; simpl in *.
  - contradiction.
  - destruct H as [Hn Htl]. destruct Hin as [E | Hin].
    + injection E as Ep Eq. subst. exact Hn.
    + intros K. apply (IH _ u v Htl Hin). apply eqv_weaken. exact K.
Qed.

(** Order-free acyclicity: no pair is in the closure of the others. *)
Definition acyclic (S : list (nat * nat)) : Prop :=
  forall S1 u v S2, S = S1 ++ (u, v) :: S2 -> ~ eqv (S1 ++ S2) u v.

Lemma ia_acyclic : forall S, ia [] S <-> acyclic S.
Proof.
  intros S. split.
  - intros H S1 u v S2 E. subst S.
    assert (HP : Permutation (S1 ++ (u, v) :: S2) ((S1 ++ S2) ++ [(u, v)])).
    { rewrite <- app_assoc. apply Permutation_app_head.
      change ((u, v) :: S2) with ([(u, v)] ++ S2). apply Permutation_app_comm. }
    apply (ia_perm _ _ HP) in H. apply ia_app in H. destruct H as [_ H].
    simpl in H. destruct H as [H _]. rewrite app_nil_r in H.
    intros K. apply H. apply (sub_incl (S1 ++ S2)); [|exact K].
    intros e He. apply in_rev in He. exact He.
  - intros H.
    assert (G : forall S2 S1, S = S1 ++ S2 -> ia (rev S1) S2).
    { induction S2 as [|[u v] tl IH]; intros S1 E; simpl.
      - exact I.
      - split.
        + intros K. apply (H S1 u v tl E).
          apply (sub_incl (rev S1)); [|exact K].
          intros e He. apply in_or_app. left. apply in_rev. exact He.
        + specialize (IH (S1 ++ [(u, v)])). rewrite rev_app_distr in IH.
          apply IH. rewrite <- app_assoc. exact E. }
    apply (G S []). reflexivity.
Qed.

(** ** The Steinitz exchange lemma: independent sets are no larger than
    spanning sets, with equality only when they span as much. *)

Lemma find_first : forall P acc u v,
  ~ eqv acc u v -> eqv (acc ++ P) u v ->
  exists P1 p q P2, P = P1 ++ (p, q) :: P2
    /\ ~ eqv (rev P1 ++ acc) u v /\ eqv ((p, q) :: rev P1 ++ acc) u v.
Proof.
  induction P as [|[p q] P IH]; intros acc u v Hn H.
  - rewrite app_nil_r in H. contradiction.
  - destruct (eqv_dec ((p, q) :: acc) u v) as [Hy | Hno].
    + exists [], p, q, P. simpl. auto.
    + destruct (IH ((p, q) :: acc) u v Hno) as (P1 & p' & q' & P2 & E & H1 & H2).
      { apply (same_perm (acc ++ (p, q) :: P)); [|exact H].
        apply Permutation_sym. apply Permutation_middle. }
      exists ((p, q) :: P1), p', q', P2. simpl. rewrite <- app_assoc. simpl.
      split; [rewrite E; reflexivity|]. split; assumption.
Qed.

Lemma steinitz : forall T acc P,
  ia acc T ->
  (forall u v, In (u, v) T -> eqv (acc ++ P) u v) ->
  length T <= length P
  /\ (length T = length P -> sub (acc ++ P) (rev T ++ acc)).
Proof.
  induction T as [|[u v] T IH]; intros acc P Hia Hspan.
  - simpl. split; [lia|]. intros E. destruct P; [|discriminate].
    rewrite app_nil_r. apply sub_refl.
  - simpl in Hia. destruct Hia as [Hn Hia].
    destruct (find_first P acc u v Hn (Hspan u v (or_introl eq_refl)))
      as (P1 & p & q & P2 & E & H1 & H2).
    assert (Hpq : eqv ((u, v) :: rev P1 ++ acc) p q).
    { apply (eqv_exchange _ p q u v H1 H2). }
    assert (Hsub : sub (acc ++ P) (((u, v) :: acc) ++ (P1 ++ P2))).
    { apply sub_gen. intros a b Hin. subst P.
      apply in_app_or in Hin. destruct Hin as [Hin | Hin].
      - apply eqv_op. simpl. right. apply in_or_app. left. exact Hin.
      - apply in_app_or in Hin. destruct Hin as [Hin | [Eq | Hin]].
        + apply eqv_op. simpl. right. apply in_or_app. right.
          apply in_or_app. left. exact Hin.
        + injection Eq as Ea Eb. subst a b.
          apply (sub_incl ((u, v) :: rev P1 ++ acc)); [|exact Hpq].
          intros e [He | He]; [left; exact He|]. right.
          apply in_app_or in He. apply in_or_app. destruct He as [He | He].
          * right. apply in_or_app. left. apply in_rev. exact He.
          * left. exact He.
        + apply eqv_op. simpl. right. apply in_or_app. right.
          apply in_or_app. right. exact Hin. }
    destruct (IH ((u, v) :: acc) (P1 ++ P2) Hia) as [Hlen Heq].
    { intros a b Hin. apply Hsub. apply Hspan. right. exact Hin. }
    subst P. rewrite app_length in *. simpl. split; [lia|].
    intros El. rewrite <- app_assoc. simpl.
    apply (sub_trans _ _ _ Hsub). apply Heq. lia.
Qed.

(** A path through the vertices [vs]: connects all of them with
    [length vs - 1] pairs. *)
Fixpoint chain (vs : list nat) : list (nat * nat) :=
  match vs with
  | a :: tl => match tl with
               | b :: _ => (a, b) :: chain tl
               | [] => []
               end
  | [] => []
  end.

Lemma chain_length : forall vs, length (chain vs) = length vs - 1.
Proof.
  induction vs as [|a [|b tl] IH]; simpl in *; try reflexivity.
  rewrite IH. lia.
Qed.

Lemma chain_conn : forall vs a b, In a vs -> In b vs -> eqv (chain vs) a b.
Proof.
  induction vs as [|c [|d tl] IH]; intros a b Ha Hb.
  - contradiction.
  - destruct Ha as [<-|[]]. destruct Hb as [<-|[]]. apply eqv_refl.
  - assert (Hcd : eqv (chain (c :: d :: tl)) c d).
    { apply eqv_op. left. reflexivity. }
    assert (Hup : forall x y, In x (d :: tl) -> In y (d :: tl) ->
                              eqv (chain (c :: d :: tl)) x y).
    { intros x y Hx Hy. change (chain (c :: d :: tl)) with ((c, d) :: chain (d :: tl)).
      apply eqv_weaken. apply IH; assumption. }
    destruct Ha as [<- | Ha]; destruct Hb as [<- | Hb].
    + apply eqv_refl.
    + apply eqv_trans with (y := d); [exact Hcd|]. apply Hup; [left; reflexivity | exact Hb].
    + apply eqv_sym. apply eqv_trans with (y := d); [exact Hcd|].
      apply Hup; [left; reflexivity | exact Ha].
    + apply Hup; assumption.
Qed.

Lemma eqv_ends : forall A (V : nat -> Prop),
  (forall x y, In (x, y) A -> V x /\ V y) ->
  forall a b, eqv A a b -> a = b \/ (V a /\ V b).
Proof.
  intros A V HV a b H.
  induction H as [x | x y Hxy | x y H IH | x y z H1 IH1 H2 IH2].
  - left. reflexivity.
  - right. apply HV. exact Hxy.
  - destruct IH as [E | [Ha Hb]]; [left; auto | right; auto].
  - destruct IH1 as [E1 | [Ha Hb]]; destruct IH2 as [E2 | [Hb' Hc]]; subst; auto.
Qed.

(** A forest on the vertices [vs] has at most [|vs| - 1] edges, and one
    with exactly that many connects all of [vs]. *)
Theorem forest_size : forall vs T,
  ia [] T -> (forall x y, In (x, y) T -> In x vs /\ In y vs) ->
  length T <= length vs - 1
  /\ (length vs - 1 <= length T ->
      forall a b, In a vs -> In b vs -> eqv T a b).
Proof.
  intros vs T Hia Hr.
  destruct (steinitz T [] (chain vs) Hia) as [Hlen Heq].
  { intros u v Hin. simpl. destruct (Hr u v Hin) as [Hu Hv].
    apply chain_conn; assumption. }
  rewrite chain_length in *. split; [exact Hlen|].
  intros Hge a b Ha Hb.
  assert (El : length T = length vs - 1) by lia.
  specialize (Heq El). simpl in Heq. rewrite app_nil_r in Heq.
  apply (sub_incl (rev T)); [intros e He; apply in_rev; exact He|].
  apply Heq. apply chain_conn; assumption.
Qed.

(* ================================================================== *)
(** * 3. Executable model of [kruskal]                                  *)
(* ================================================================== *)

Local Arguments Nat.leb : simpl never.
Local Arguments Nat.max : simpl never.

(** An edge [(row, col, weight)]. *)
Definition edge := (nat * nat * Z)%type.
Definition ex (e : edge) : nat := fst (fst e).
Definition ey (e : edge) : nat := snd (fst e).
Definition pr (e : edge) : nat * nat := (ex e, ey e).
Definition wt (e : edge) : Z := snd e.

(** The loop of [kruskal]; [edges] are in visiting order.
<<
    for (k, (row, col)) in zip(I, J).enumerate() {
        if !connected_c.in_same_set(row, col) {
            connected_c.union(row, col);
            E.nzval[p[k]] = -1;
            num_edges_found += 1;
            if num_edges_found >= (num_cliques - 1) { break; }
        }
    }
>>
    [target] is [num_cliques - 1].  The test against [target] is only
    made AFTER an edge has been taken (so [target = 0] still takes one
    edge, as in the Rust).  The result lists, for each edge, whether it
    was marked; [None] = the union-find ran out of fuel. *)
Fixpoint kruskal_loop (d : dsu) (found target : nat) (edges : list edge)
  : option (list bool) :=
  match edges with
  | [] => Some []
  | e :: tl =>
    match in_same_set_new d (ex e) (ey e) with
    | None => None
    | Some (d1, true) =>
        option_map (cons false) (kruskal_loop d1 found target tl)
    | Some (d1, false) =>
      match union_new d1 (ex e) (ey e) with
      | None => None
      | Some d2 =>
        if target <=? S found
        then Some (true :: repeat false (length tl))
        else option_map (cons true) (kruskal_loop d2 (S found) target tl)
      end
    end
  end.

Definition kruskal (n target : nat) (edges : list edge) : option (list bool) :=
  kruskal_loop (dsu_new n) 0 target edges.

(** The edges whose flag is set, in visiting order. *)
Fixpoint taken (E : list edge) (fl : list bool) : list edge :=
  match E, fl with
  | e :: E', b :: fl' => if b then e :: taken E' fl' else taken E' fl'
  | _, _ => []
  end.

Fixpoint count_true (fl : list bool) : nat :=
  match fl with
  | [] => 0
  | b :: t => (if b then 1 else 0) + count_true t
  end.

Definition in_range (n : nat) (E : list edge) : Prop :=
  forall e, In e E -> ex e < n /\ ey e < n.

(* ================================================================== *)
(** * 4. Specification of a run, free of the union-find                 *)
(* ================================================================== *)

(** [GSpec acc E fl]: [fl] are the flags of the UNBOUNDED greedy run
    over [E] started with the pairs [acc] already joined. *)
Fixpoint GSpec (acc : list (nat * nat)) (E : list edge) (fl : list bool) : Prop :=
  match E, fl with
  | [], [] => True
  | e :: E', b :: fl' =>
      if b then ~ eqv acc (ex e) (ey e) /\ GSpec (pr e :: acc) E' fl'
      else eqv acc (ex e) (ey e) /\ GSpec acc E' fl'
  | _, _ => False
  end.

(** [KSpec target acc found E fl]: the same with the early exit. *)
Fixpoint KSpec (target : nat) (acc : list (nat * nat)) (found : nat)
         (E : list edge) (fl : list bool) : Prop :=
  match E, fl with
  | [], [] => True
  | e :: E', b :: fl' =>
      if b then
        ~ eqv acc (ex e) (ey e) /\
        (if target <=? S found then fl' = repeat false (length E')
         else KSpec target (pr e :: acc) (S found) E' fl')
      else eqv acc (ex e) (ey e) /\ KSpec target acc found E' fl'
  | _, _ => False
  end.

(** The model satisfies the specification and never runs out of fuel. *)
Lemma kruskal_loop_spec : forall E n target d acc found,
  Good n acc d -> in_range n E ->
  exists fl, kruskal_loop d found target E = Some fl
             /\ KSpec target acc found E fl.
Proof.
  induction E as [|e tl IH]; intros n target d acc found Hgood Hr.
  - exists []. simpl. auto.
  - destruct (Hr e (or_introl eq_refl)) as [Hx Hy].
    assert (Hr' : in_range n tl).
    { intros f Hf. apply Hr. right. exact Hf. }
    destruct (in_same_set_new_spec n acc d (ex e) (ey e) Hgood Hx Hy)
      as (d1 & r & Hq & Hg1 & Hiff).
    simpl. rewrite Hq. destruct r.
    + destruct (IH n target d1 acc found Hg1 Hr') as (fl & Hrun & Hk).
      rewrite Hrun. exists (false :: fl). simpl.
      split; [reflexivity|]. split; [apply Hiff; reflexivity | exact Hk].
    + assert (Hn : ~ eqv acc (ex e) (ey e)).
      { intros K. apply Hiff in K. discriminate. }
      destruct (union_new_spec n acc d1 (ex e) (ey e) Hg1 Hx Hy)
        as (d2 & Hu & Hg2).
      rewrite Hu. destruct (target <=? S found) eqn:Ht.
      * exists (true :: repeat false (length tl)).
        split; [reflexivity|]. split; [exact Hn | reflexivity].
      * destruct (IH n target d2 (pr e :: acc) (S found) Hg2 Hr')
          as (fl & Hrun & Hk).
        rewrite Hrun. exists (true :: fl). simpl.
        split; [reflexivity|]. split; [exact Hn | exact Hk].
Qed.

(** ** Elementary consequences *)

Lemma taken_all_false : forall E k, taken E (repeat false k) = [].
Proof.
  induction E as [|e E IH]; intros [|k]; simpl; auto.
Qed.

Lemma count_all_false : forall k, count_true (repeat false k) = 0.
Proof. induction k as [|k IH]; simpl; auto. Qed.

Lemma taken_incl : forall E fl, incl (taken E fl) E.
Proof.
  induction E as [|e E IH]; intros [|b fl] f Hf; simpl in *; try contradiction.
  destruct b.
  - destruct Hf as [<- | Hf]; [left; reflexivity | right; apply (IH fl); exact Hf].
  - right. apply (IH fl). exact Hf.
Qed.

Lemma taken_length : forall E fl,
  length fl = length E -> length (taken E fl) = count_true fl.
Proof.
  induction E as [|e E IH]; intros [|b fl] Hl; simpl in *; try discriminate; auto.
  destruct b; simpl; rewrite IH by lia; reflexivity.
Qed.

Lemma taken_app : forall E1 E2 f1 f2,
  length f1 = length E1 ->
  taken (E1 ++ E2) (f1 ++ f2) = taken E1 f1 ++ taken E2 f2.
Proof.
  induction E1 as [|e E1 IH]; intros E2 [|b f1] f2 Hl; simpl in *; try discriminate; auto.
  destruct b; simpl; rewrite IH by lia; reflexivity.
Qed.

Lemma GSpec_length : forall E acc fl, GSpec acc E fl -> length fl = length E.
Proof.
  induction E as [|e E IH]; intros acc [|b fl] H; simpl in *; try contradiction; auto.
  destruct b; destruct H as [_ H]; apply IH in H; lia.
Qed.

Lemma KSpec_length : forall E target acc found fl,
  KSpec target acc found E fl -> length fl = length E.
Proof.
  induction E as [|e E IH]; intros target acc found [|b fl] H;
    simpl in *; try contradiction; auto.
  destruct b; destruct H as [_ H].
  - destruct (target <=? S found).
    + subst fl. rewrite repeat_length. reflexivity.
    + apply IH in H. lia.
  - apply IH in H. lia.
Qed.

(** Forest: every taken edge joins two vertices not connected by [acc]
    and the previously taken edges (also for a run that was cut). *)
Lemma KSpec_ia : forall E target acc found fl,
  KSpec target acc found E fl -> ia acc (map pr (taken E fl)).
Proof.
  induction E as [|e E IH]; intros target acc found [|b fl] H;
    simpl in *; try contradiction; auto.
  destruct b; destruct H as [Hn H].
  - simpl. split; [exact Hn|].
    destruct (target <=? S found).
    + subst fl. rewrite taken_all_false. exact I.
    + apply (IH _ _ _ _ H).
  - apply (IH _ _ _ _ H).
Qed.

Lemma KSpec_count : forall E target acc found fl,
  KSpec target acc found E fl ->
  count_true fl + found <= Nat.max (S found) target.
Proof.
  induction E as [|e E IH]; intros target acc found [|b fl] H;
    simpl in *; try contradiction; try lia.
  destruct b; destruct H as [Hn H].
  - destruct (Nat.leb_spec target (S found)) as [Hle | Hgt].
    + subst fl. rewrite count_all_false. lia.
    + apply IH in H. lia.
  - apply IH in H. lia.
Qed.

(** A run that never hit the target is an unbounded run. *)
Lemma KSpec_GSpec : forall E target acc found fl,
  KSpec target acc found E fl ->
  found + count_true fl < target -> GSpec acc E fl.
Proof.
  induction E as [|e E IH]; intros target acc found [|b fl] H Hc;
    simpl in *; try contradiction; auto.
  destruct b; destruct H as [Hn H]; (split; [exact Hn|]).
  - destruct (Nat.leb_spec target (S found)) as [Hle | Hgt]; [lia|].
    apply (IH target _ (S found)); [exact H | lia].
  - apply (IH target _ found); [exact H | lia].
Qed.

Lemma GSpec_all_false : forall E acc,
  (forall e, In e E -> eqv acc (ex e) (ey e)) ->
  GSpec acc E (repeat false (length E)).
Proof.
  induction E as [|e E IH]; intros acc H; simpl; auto.
  split; [apply H; left; reflexivity|].
  apply IH. intros f Hf. apply H. right. exact Hf.
Qed.

(** A run whose target is at least [|vs| - 1], where [vs] contains all
    the endpoints, is an unbounded run too: when it stops, the taken
    edges already connect all of [vs]. *)
Lemma KSpec_GSpec_full : forall vs E target acc found fl,
  KSpec target acc found E fl ->
  ia [] (rev acc) -> length acc = found ->
  (forall x y, In (x, y) acc -> In x vs /\ In y vs) ->
  (forall e, In e E -> In (ex e) vs /\ In (ey e) vs) ->
  length vs - 1 <= target ->
  GSpec acc E fl.
Proof.
  intros vs.
  induction E as [|e E IH]; intros target acc found [|b fl] H Hia Hlen Hacc HE Ht;
    simpl in *; try contradiction; auto.
  assert (HE' : forall f, In f E -> In (ex f) vs /\ In (ey f) vs).
  { intros f Hf. apply HE. right. exact Hf. }
  destruct b; destruct H as [Hn H]; (split; [exact Hn|]).
  - assert (Hia' : ia [] (rev (pr e :: acc))).
    { simpl. apply ia_app. split; [exact Hia|].
      rewrite rev_involutive, app_nil_r. simpl. split; [exact Hn | exact I]. }
    assert (Hacc' : forall x y, In (x, y) (pr e :: acc) -> In x vs /\ In y vs).
    { intros x y [E1 | Hin]; [|apply Hacc; exact Hin].
      unfold pr in E1. injection E1 as Ex Ey. subst x y. apply HE. left. reflexivity. }
    destruct (Nat.leb_spec target (S found)) as [Hle | Hgt].
    + subst fl. apply GSpec_all_false. intros f Hf.
      destruct (forest_size vs (rev (pr e :: acc)) Hia') as [_ Hconn].
      { intros x y Hin. apply in_rev in Hin. apply Hacc'. exact Hin. }
      apply (sub_incl (rev (pr e :: acc))); [intros g Hg; apply in_rev; exact Hg|].
      destruct (HE' f Hf) as [Hx Hy].
      apply Hconn; [rewrite rev_length; simpl; lia | exact Hx | exact Hy].
    + apply (IH target _ (S found)); auto. simpl. lia.
  - apply (IH target _ found); auto.
Qed.

(** A cut run is an unbounded run on a prefix of the edges; nothing
    after the prefix is taken, and the cut happens exactly when
    [max 1 target] edges have been taken. *)
Lemma KSpec_prefix : forall E target acc found fl,
  KSpec target acc found E fl ->
  exists E1 E2 f1,
    E = E1 ++ E2 /\ fl = f1 ++ repeat false (length E2)
    /\ GSpec acc E1 f1
    /\ (E2 = [] \/ found + count_true f1 = Nat.max (S found) target).
Proof.
  induction E as [|e E IH]; intros target acc found [|b fl] H;
    simpl in *; try contradiction.
  - exists [], [], []. simpl. auto.
  - destruct b; destruct H as [Hn H].
    + destruct (Nat.leb_spec target (S found)) as [Hle | Hgt].
      * exists [e], E, [true]. simpl. subst fl.
        split; [reflexivity|]. split; [reflexivity|].
        split; [auto|]. right. lia.
      * destruct (IH _ _ _ _ H) as (E1 & E2 & f1 & EE & Ef & HG & Hc).
        exists (e :: E1), E2, (true :: f1). simpl. subst E fl.
        split; [reflexivity|]. split; [reflexivity|].
        split; [auto|]. destruct Hc as [Hc | Hc]; [left; exact Hc | right; lia].
    + destruct (IH _ _ _ _ H) as (E1 & E2 & f1 & EE & Ef & HG & Hc).
      exists (e :: E1), E2, (false :: f1). simpl. subst E fl.
      split; [reflexivity|]. split; [reflexivity|].
      split; [auto|]. exact Hc.
Qed.

(** Spanning: the taken edges of an unbounded run connect exactly what
    all the edges connect. *)
Lemma GSpec_span : forall E acc fl,
  GSpec acc E fl ->
  same (rev (map pr (taken E fl)) ++ acc) (map pr E ++ acc).
Proof.
  induction E as [|e E IH]; intros acc [|b fl] H; simpl in *; try contradiction.
  - intros a b. tauto.
  - destruct b; destruct H as [Hn H].
    + simpl. rewrite <- app_assoc. simpl.
      intros a b. rewrite (IH _ _ H a b).
      apply (same_perm (map pr E ++ pr e :: acc) (pr e :: map pr E ++ acc)).
      apply Permutation_sym. apply Permutation_middle.
    + intros a b. rewrite (IH _ _ H a b). split.
      * apply eqv_weaken.
      * apply eqv_cons_redundant.
        apply (sub_incl acc); [intros g Hg; apply in_or_app; right; exact Hg | exact Hn].
Qed.

(** Cycle property: an edge that is looked at (the run is still active)
    and not taken closes a cycle with EARLIER taken edges. *)
Lemma KSpec_cycle : forall E1 target acc found e E2 f1 f2,
  KSpec target acc found (E1 ++ e :: E2) (f1 ++ false :: f2) ->
  length f1 = length E1 ->
  (count_true f1 = 0 \/ found + count_true f1 < target) ->
  eqv (rev (map pr (taken E1 f1)) ++ acc) (ex e) (ey e).
Proof.
  induction E1 as [|e1 E1 IH]; intros target acc found e E2 [|b f1] f2 H Hl Hact;
    simpl in *; try discriminate.
  - destruct H as [H _]. exact H.
  - destruct b; destruct H as [Hn H].
    + destruct (Nat.leb_spec target (S found)) as [Hle | Hgt]; [lia|].
      simpl. rewrite <- app_assoc. simpl.
      apply (IH target _ (S found) e E2 f1 f2 H); [lia | right; lia].
    + apply (IH target _ found e E2 f1 f2 H); [lia | exact Hact].
Qed.

(* ================================================================== *)
(** * 5. Sorting: stable insertion sort by decreasing weight            *)
(* ================================================================== *)

Section Sort.
  Variable A : Type.
  Variable w : A -> Z.

  (** [a] is put in front of the first element that is not heavier, so
      among equal weights the element that came first stays first
      (folding from the right). *)
  Fixpoint insert_desc (a : A) (l : list A) : list A :=
    match l with
    | [] => [a]
    | h :: t => if (w h <=? w a)%Z then a :: h :: t else h :: insert_desc a t
    end.

  Fixpoint isort_desc (l : list A) : list A :=
    match l with
    | [] => []
    | a :: t => insert_desc a (isort_desc t)
    end.

  (** Every element is at least as heavy as all the later ones. *)
  Fixpoint desc (l : list A) : Prop :=
    match l with
    | [] => True
    | a :: t => (forall b, In b t -> (w b <= w a)%Z) /\ desc t
    end.

  Lemma insert_perm : forall a l, Permutation (a :: l) (insert_desc a l).
  Proof.
    intros a l. induction l as [|h t IH]; simpl.
    - apply Permutation_refl.
    - destruct (w h <=? w a)%Z.
      + apply Permutation_refl.
      + apply perm_trans with (l' := h :: a :: t); [apply perm_swap|].
        apply perm_skip. exact IH.
  Qed.

  Lemma isort_perm : forall l, Permutation l (isort_desc l).
  Proof.
    induction l as [|a t IH]; simpl.
    - apply perm_nil.
    - apply perm_trans with (l' := a :: isort_desc t).
      + apply perm_skip. exact IH.
      + apply insert_perm.
  Qed.

  Lemma insert_sorted : forall a l, desc l -> desc (insert_desc a l).
  Proof.
    intros a l. induction l as [|h t IH]; intros Hd; simpl.
    - split; [intros b []| exact I].
    - destruct Hd as [Hh Hd].
      destruct (Z.leb_spec (w h) (w a)) as [Hle | Hgt].
      + simpl. split; [|split; assumption].
        intros b [<- | Hb]; [exact Hle|]. specialize (Hh b Hb). lia.
      + simpl. split; [|apply IH; exact Hd].
        intros b Hb.
        apply (Permutation_in _ (Permutation_sym (insert_perm a t))) in Hb.
        destruct Hb as [<- | Hb]; [lia | apply Hh; exact Hb].
  Qed.

  Lemma isort_sorted : forall l, desc (isort_desc l).
  Proof.
    induction l as [|a t IH]; simpl; [exact I|].
    apply insert_sorted. exact IH.
  Qed.

  Lemma desc_app : forall l1 a l2, desc (l1 ++ a :: l2) ->
    forall b, In b l1 -> (w a <= w b)%Z.
  Proof.
    induction l1 as [|h t IH]; intros a l2 Hd b Hb; simpl in *.
    - contradiction.
    - destruct Hd as [Hh Hd]. destruct Hb as [<- | Hb].
      + apply Hh. apply in_or_app. right. left. reflexivity.
      + apply (IH a l2 Hd b Hb).
  Qed.

  (** ** Stability, stated with an explicit position [key]: if the input
      has increasing keys, the output is ordered by (weight decreasing,
      then key increasing) -- exactly a stable sort. *)
  Variable key : A -> nat.

  Definition lexord (a b : A) : Prop :=
    (w b < w a)%Z \/ (w a = w b /\ key a < key b).

  Fixpoint ssorted (l : list A) : Prop :=
    match l with
    | [] => True
    | a :: t => (forall b, In b t -> lexord a b) /\ ssorted t
    end.

  Fixpoint kinc (l : list A) : Prop :=
    match l with
    | [] => True
    | a :: t => (forall b, In b t -> key a < key b) /\ kinc t
    end.

  Lemma insert_stable : forall a l,
    (forall b, In b l -> key a < key b) -> ssorted l ->
    ssorted (insert_desc a l).
  Proof.
    intros a l. induction l as [|h t IH]; intros Hk Hs; simpl.
    - split; [intros b []| exact I].
    - destruct Hs as [Hh Hs].
      destruct (Z.leb_spec (w h) (w a)) as [Hle | Hgt].
      + simpl. split; [|split; assumption].
        intros b Hb.
        assert (Hwb : (w b <= w a)%Z).
        { destruct Hb as [<- | Hb]; [exact Hle|].
          destruct (Hh b Hb) as [Hlt | [He _]]; lia. }
        specialize (Hk b Hb). unfold lexord. lia.
      + simpl. split.
        * intros b Hb.
          apply (Permutation_in _ (Permutation_sym (insert_perm a t))) in Hb.
          destruct Hb as [<- | Hb]; [left; lia | apply Hh; exact Hb].
        * apply IH; [|exact Hs]. intros b Hb. apply Hk. right. exact Hb.
  Qed.

  Lemma isort_stable : forall l, kinc l -> ssorted (isort_desc l).
  Proof.
    induction l as [|a t IH]; intros Hk; simpl; [exact I|].
    destruct Hk as [Ha Hk]. apply insert_stable; [|apply IH; exact Hk].
    intros b Hb. apply Ha.
    apply (Permutation_in _ (Permutation_sym (isort_perm t))). exact Hb.
  Qed.
End Sort.

Arguments insert_desc {A} w a l.
Arguments isort_desc {A} w l.
Arguments desc {A} w l.
Arguments ssorted {A} w key l.
Arguments kinc {A} key l.

Lemma map_insert_desc : forall (A B : Type) (f : B -> A) (w : A -> Z) b l,
  map f (insert_desc (fun x => w (f x)) b l) = insert_desc w (f b) (map f l).
Proof.
  intros A B f w b l. induction l as [|h t IH]; simpl; [reflexivity|].
  destruct (w (f h) <=? w (f b))%Z; simpl; [reflexivity|]. rewrite IH. reflexivity.
Qed.

Lemma map_isort_desc : forall (A B : Type) (f : B -> A) (w : A -> Z) l,
  map f (isort_desc (fun x => w (f x)) l) = isort_desc w (map f l).
Proof.
  intros A B f w l. induction l as [|h t IH]; simpl; [reflexivity|].
  rewrite map_insert_desc, IH. reflexivity.
Qed.

(** [sortperm_rev] + [permute]: the edges in visiting order. *)
Definition sort_edges (E : list edge) : list edge := isort_desc wt E.

Lemma sort_edges_perm : forall E, Permutation E (sort_edges E).
Proof. intros E. apply isort_perm. Qed.

Lemma sort_edges_desc : forall E, desc wt (sort_edges E).
Proof. intros E. apply isort_sorted. Qed.

Lemma in_range_perm : forall n E E', Permutation E E' -> in_range n E -> in_range n E'.
Proof.
  intros n E E' HP Hr e He. apply Hr.
  apply (Permutation_in _ (Permutation_sym HP)). exact He.
Qed.

(* ================================================================== *)
(** * 6. Theorems about [kruskal]                                       *)
(* ================================================================== *)

Lemma in_seq0 : forall n x, In x (seq 0 n) <-> x < n.
Proof. intros n x. rewrite in_seq. lia. Qed.

(** ** 6.1 Totality *)
Theorem kruskal_total : forall n target E,
  in_range n E ->
  exists fl, kruskal n target E = Some fl /\ length fl = length E.
Proof.
  intros n target E Hr.
  destruct (kruskal_loop_spec E n target (dsu_new n) [] 0 (dsu_new_good n) Hr)
    as (fl & Hrun & Hk).
  exists fl. split; [exact Hrun|]. apply (KSpec_length _ _ _ _ _ Hk).
Qed.

Lemma kruskal_KSpec : forall n target E fl,
  in_range n E -> kruskal n target E = Some fl -> KSpec target [] 0 E fl.
Proof.
  intros n target E fl Hr Hrun.
  destruct (kruskal_loop_spec E n target (dsu_new n) [] 0 (dsu_new_good n) Hr)
    as (fl' & Hrun' & Hk).
  unfold kruskal in Hrun. rewrite Hrun' in Hrun. injection Hrun as <-. exact Hk.
Qed.

(** The run is COMPLETE (equal to the unbounded greedy run) if it
    never reached the target, or if the target is the natural one
    [n - 1] (or larger): then stopping early loses nothing. *)
Definition complete (n target : nat) (fl : list bool) : Prop :=
  count_true fl < target \/ n - 1 <= target.

Lemma kruskal_GSpec_live : forall vs n target E fl,
  in_range n E -> kruskal n target E = Some fl ->
  (forall e, In e E -> In (ex e) vs /\ In (ey e) vs) ->
  length vs - 1 <= target ->
  GSpec [] E fl.
Proof.
  intros vs n target E fl Hr Hrun Hvs Ht.
  apply (KSpec_GSpec_full vs E target [] 0 fl); auto.
  - apply (kruskal_KSpec n); assumption.
  - simpl. exact I.
  - intros x y [].
Qed.

Lemma kruskal_GSpec : forall n target E fl,
  in_range n E -> kruskal n target E = Some fl -> complete n target fl ->
  GSpec [] E fl.
Proof.
  intros n target E fl Hr Hrun [Hc | Hc].
  - apply (KSpec_GSpec E target [] 0 fl); [apply (kruskal_KSpec n); assumption | lia].
  - apply (kruskal_GSpec_live (seq 0 n) n target E fl Hr Hrun).
    + intros e He. destruct (Hr e He) as [Hx Hy]. rewrite !in_seq0. auto.
    + rewrite seq_length. exact Hc.
Qed.

(** ** 6.2 Forest (holds for every run, cut short or not) *)
Theorem kruskal_forest : forall n target E fl,
  in_range n E -> kruskal n target E = Some fl ->
  (* each taken edge joins two vertices not connected by the earlier taken edges *)
  (forall T1 e T2, taken E fl = T1 ++ e :: T2 ->
                   ~ eqv (map pr T1) (ex e) (ey e))
  (* no taken edge is in the closure of the OTHER taken edges *)
  /\ acyclic (map pr (taken E fl))
  (* a forest on n vertices has at most n - 1 edges *)
  /\ count_true fl <= n - 1
  (* at most max 1 target edges are taken *)
  /\ count_true fl <= Nat.max 1 target.
Proof.
  intros n target E fl Hr Hrun.
  pose proof (kruskal_KSpec n target E fl Hr Hrun) as Hk.
  pose proof (KSpec_ia _ _ _ _ _ Hk) as Hia.
  split; [|split; [|split]].
  - intros T1 e T2 ET. rewrite ET in Hia. rewrite map_app in Hia.
    apply ia_app in Hia. destruct Hia as [_ Hia]. simpl in Hia.
    destruct Hia as [Hn _]. rewrite app_nil_r in Hn.
    intros K. apply Hn. apply (sub_incl (map pr T1)); [|exact K].
    intros g Hg. apply in_rev. rewrite rev_involutive. exact Hg.
  - apply ia_acyclic. exact Hia.
  - destruct (forest_size (seq 0 n) _ Hia) as [Hlen _].
    + intros x y Hin. apply in_map_iff in Hin. destruct Hin as (e & Ee & He).
      unfold pr in Ee. injection Ee as Ex Ey. subst x y.
      destruct (Hr e (taken_incl E fl e He)) as [Hx Hy]. rewrite !in_seq0. auto.
    + rewrite map_length, seq_length in Hlen.
      rewrite taken_length in Hlen by (apply (KSpec_length _ _ _ _ _ Hk)). exact Hlen.
  - pose proof (KSpec_count _ _ _ _ _ Hk) as Hc. lia.
Qed.

(** ** 6.3 Spanning *)
Theorem kruskal_spanning : forall n target E fl,
  in_range n E -> kruskal n target E = Some fl -> complete n target fl ->
  forall x y, eqv (map pr (taken E fl)) x y <-> eqv (map pr E) x y.
Proof.
  intros n target E fl Hr Hrun Hc x y.
  pose proof (GSpec_span E [] fl (kruskal_GSpec n target E fl Hr Hrun Hc) x y) as H.
  rewrite !app_nil_r in H. rewrite <- H.
  apply same_perm. apply Permutation_rev.
Qed.

(** The cut-short case, for ANY target: the flags are those of the
    unbounded greedy run on a prefix [E1] of the edges and [false] on
    the rest [E2]; the cut happens when exactly [max 1 target] edges
    have been taken. *)
Theorem kruskal_cut : forall n target E fl,
  in_range n E -> kruskal n target E = Some fl ->
  exists E1 E2 f1,
    E = E1 ++ E2 /\ fl = f1 ++ repeat false (length E2)
    /\ GSpec [] E1 f1
    /\ (forall x y, eqv (map pr (taken E fl)) x y <-> eqv (map pr E1) x y)
    /\ (E2 = [] \/ count_true fl = Nat.max 1 target).
Proof.
  intros n target E fl Hr Hrun.
  destruct (KSpec_prefix _ _ _ _ _ (kruskal_KSpec n target E fl Hr Hrun))
    as (E1 & E2 & f1 & EE & Ef & HG & Hc).
  exists E1, E2, f1. split; [exact EE|]. split; [exact Ef|]. split; [exact HG|].
  assert (Hl : length f1 = length E1) by (apply (GSpec_length _ _ _ HG)).
  split.
  - intros x y. subst E fl. rewrite taken_app by exact Hl.
    rewrite taken_all_false, app_nil_r.
    pose proof (GSpec_span E1 [] f1 HG x y) as H.
    rewrite !app_nil_r in H. rewrite <- H.
    apply same_perm. apply Permutation_rev.
  - destruct Hc as [Hc | Hc]; [left; exact Hc | right].
    subst fl. clear - Hc.
    assert (Happ : forall a b, count_true (a ++ b) = count_true a + count_true b).
    { induction a as [|h a IH]; intros b; simpl; [reflexivity|]. rewrite IH. lia. }
    rewrite Happ, count_all_false. simpl in Hc. lia.
Qed.

(** ** 6.4 Cycle property (the certificate of maximality) *)
Theorem kruskal_cycle_property : forall n target E fl E1 e E2 f1 f2,
  in_range n E -> kruskal n target E = Some fl ->
  E = E1 ++ e :: E2 -> fl = f1 ++ false :: f2 -> length f1 = length E1 ->
  count_true f1 < Nat.max 1 target ->        (* the run is still active at e *)
  eqv (map pr (taken E1 f1)) (ex e) (ey e)   (* e closes a cycle with earlier taken edges *)
  /\ incl (taken E1 f1) E1
  /\ (desc wt E -> forall t, In t (taken E1 f1) -> (wt e <= wt t)%Z).
Proof.
  intros n target E fl E1 e E2 f1 f2 Hr Hrun EE Ef Hl Hact.
  pose proof (kruskal_KSpec n target E fl Hr Hrun) as Hk. subst E fl.
  split; [|split].
  - pose proof (KSpec_cycle E1 target [] 0 e E2 f1 f2 Hk Hl) as H.
    rewrite app_nil_r in H.
    apply (sub_incl (rev (map pr (taken E1 f1)))).
    + intros g Hg. apply in_rev. exact Hg.
    + apply H. lia.
  - apply taken_incl.
  - intros Hd t Ht. apply (desc_app _ wt E1 e E2 Hd). apply (taken_incl E1 f1). exact Ht.
Qed.

(* ================================================================== *)
(** * 7. Optimality: maximum weight and maximum cardinality             *)
(* ================================================================== *)

Fixpoint weight (S : list edge) : Z :=
  match S with
  | [] => 0%Z
  | e :: t => (wt e + weight t)%Z
  end.

Lemma weight_app : forall S1 S2, weight (S1 ++ S2) = (weight S1 + weight S2)%Z.
Proof.
  induction S1 as [|e t IH]; intros S2; simpl; [reflexivity|]. rewrite IH. lia.
Qed.

Lemma edge_eq_dec : forall a b : edge, {a = b} + {a <> b}.
Proof.
  decide equality; [apply Z.eq_dec|]. decide equality; apply Nat.eq_dec.
Qed.

(** Exchange step: a new independent pair [(x, y)] either stays
    independent of the whole forest [S], or some edge [f] of [S] can be
    dropped so that [(x, y)] followed by the rest is again a forest
    (and [f] is spanned by what remains together with [(x, y)]). *)
Lemma ia_exchange_w : forall (S : list edge) acc x y,
  ia acc (map pr S) -> ~ eqv acc x y ->
  ia ((x, y) :: acc) (map pr S)
  \/ exists S1 f S2, S = S1 ++ f :: S2
       /\ ia ((x, y) :: acc) (map pr (S1 ++ S2))
       /\ eqv ((x, y) :: map pr S1 ++ acc) (ex f) (ey f).
Proof.
  induction S as [|s S IH]; intros acc x y H Hn.
  - left. exact I.
  - simpl in H. destruct H as [Hs H].
    destruct (eqv_dec ((x, y) :: acc) (ex s) (ey s)) as [Hy | Hno].
    + right. exists [], s, S. split; [reflexivity|]. simpl. split; [|exact Hy].
      apply (ia_same _ (pr s :: acc)); [|exact H].
      apply same_sym. apply same_exchange; assumption.
    + assert (Hn' : ~ eqv (pr s :: acc) x y).
      { intros K. apply Hno. apply (eqv_exchange acc (ex s) (ey s) x y Hn K). }
      destruct (IH (pr s :: acc) x y H Hn')
        as [Hall | (S1 & f & S2 & E & Hrest & Hf)].
      * left. simpl. split; [exact Hno|].
        apply (ia_same _ ((x, y) :: pr s :: acc)); [|exact Hall].
        apply same_perm. apply perm_swap.
      * right. exists (s :: S1), f, S2. split; [subst S; reflexivity|].
        simpl. split; [split; [exact Hno|]|].
        -- apply (ia_same _ ((x, y) :: pr s :: acc)); [|exact Hrest].
           apply same_perm. apply perm_swap.
        -- apply (same_perm ((x, y) :: map pr S1 ++ pr s :: acc)); [|exact Hf].
           apply perm_skip. apply Permutation_sym.
           apply (Permutation_middle (map pr S1) acc (pr s)).
Qed.

(** The exchange argument.  [E] is visited in order of decreasing
    weight.  [S] is any forest made of edges of [E] (relative to the
    already contracted [acc]); every edge of the graph either has a
    non-negative weight or is spanned by [S].  Then [S] weighs no more
    than what the greedy run takes. *)
Theorem greedy_max_weight : forall E acc fl S,
  GSpec acc E fl -> desc wt E ->
  (forall e, In e E ->
     (0 <= wt e)%Z \/ eqv (map pr S ++ acc) (ex e) (ey e)) ->
  incl S E -> ia acc (map pr S) ->
  (weight S <= weight (taken E fl))%Z.
Proof.
  induction E as [|e E IH]; intros acc fl S HG Hd Hpos Hincl Hia.
  - destruct S as [|s S]; [simpl; lia|].
    exfalso. apply (Hincl s). left. reflexivity.
  - destruct fl as [|b fl]; simpl in HG; [contradiction|].
    destruct Hd as [Hmax Hd].
    destruct b; destruct HG as [Hn HG].
    + (* e is taken *)
      change (weight S <= wt e + weight (taken E fl))%Z.
      destruct (in_dec edge_eq_dec e S) as [Hin | Hnin].
      * (* e is in S: contract e on both sides *)
        destruct (in_split e S Hin) as (S1 & S2 & ES). subst S.
        assert (HP : Permutation (map pr (S1 ++ e :: S2)) (map pr (e :: S1 ++ S2))).
        { apply Permutation_map. apply Permutation_sym. apply Permutation_middle. }
        assert (Hpos' : forall f, In f E ->
                  (0 <= wt f)%Z \/ eqv (map pr (S1 ++ S2) ++ pr e :: acc) (ex f) (ey f)).
        { intros f Hf. destruct (Hpos f (or_intror Hf)) as [H0 | Hsp]; [left; exact H0|].
          right. apply (same_perm (map pr (S1 ++ e :: S2) ++ acc)); [|exact Hsp].
          apply perm_trans with (l' := map pr (e :: S1 ++ S2) ++ acc).
          - apply Permutation_app_tail. exact HP.
          - simpl. apply (Permutation_middle (map pr (S1 ++ S2)) acc (pr e)). }
        apply (ia_perm _ _ HP) in Hia. simpl in Hia. destruct Hia as [_ Hia].
        assert (Hincl' : incl (S1 ++ S2) E).
        { intros f Hf.
          assert (Hf' : In f (S1 ++ e :: S2)).
          { apply in_app_or in Hf. apply in_or_app.
            destruct Hf as [Hf | Hf]; [left; exact Hf | right; right; exact Hf]. }
          destruct (Hincl f Hf') as [Ef | HfE]; [|exact HfE].
          subst f. exfalso.
          apply (ia_in _ _ (ex e) (ey e) Hia).
          - change (ex e, ey e) with (pr e). apply in_map. exact Hf.
          - apply eqv_op. left. reflexivity. }
        pose proof (IH (pr e :: acc) fl (S1 ++ S2) HG Hd Hpos' Hincl' Hia) as Hle.
        rewrite weight_app in *. simpl. lia.
      * (* e is not in S: exchange *)
        assert (Hincl' : incl S E).
        { intros f Hf. destruct (Hincl f Hf) as [Ef | HfE]; [|exact HfE].
          subst f. contradiction. }
        destruct (ia_exchange_w S acc (ex e) (ey e) Hia Hn)
          as [Hall | (S1 & f & S2 & ES & Hrest & Hfsp)].
        -- (* e is independent of S: only possible when wt e >= 0 *)
           assert (Hnsp : ~ eqv (map pr S ++ acc) (ex e) (ey e)).
           { assert (HP : Permutation (pr e :: map pr S) (map pr S ++ [pr e])).
             { change (pr e :: map pr S) with ([pr e] ++ map pr S).
               apply Permutation_app_comm. }
             assert (Hia2 : ia acc (pr e :: map pr S)).
             { simpl. split; [exact Hn | exact Hall]. }
             apply (ia_perm _ _ HP) in Hia2. apply ia_app in Hia2.
             destruct Hia2 as [_ [Hne _]].
             intros K. apply Hne.
             apply (same_perm (map pr S ++ acc)); [|exact K].
             apply Permutation_app_tail. apply Permutation_rev. }
           destruct (Hpos e (or_introl eq_refl)) as [H0 | Hsp]; [|contradiction].
           assert (Hpos' : forall g, In g E ->
                     (0 <= wt g)%Z \/ eqv (map pr S ++ pr e :: acc) (ex g) (ey g)).
           { intros g Hg. destruct (Hpos g (or_intror Hg)) as [Hg0 | Hsp]; [left; exact Hg0|].
             right. apply (sub_incl (map pr S ++ acc)); [|exact Hsp].
             intros q Hq. apply in_app_or in Hq. apply in_or_app.
             destruct Hq as [Hq | Hq]; [left; exact Hq | right; right; exact Hq]. }
           pose proof (IH (pr e :: acc) fl S HG Hd Hpos' Hincl' Hall) as Hle. lia.
        -- subst S.
           assert (Hincl'' : incl (S1 ++ S2) E).
           { intros g Hg. apply Hincl'. apply in_app_or in Hg. apply in_or_app.
             destruct Hg as [Hg | Hg]; [left; exact Hg | right; right; exact Hg]. }
           assert (Hsub : sub (map pr (S1 ++ f :: S2) ++ acc)
                              (map pr (S1 ++ S2) ++ pr e :: acc)).
           { apply sub_gen. intros u v Hin. rewrite map_app in *. simpl in Hin.
             assert (Hcase : (u, v) = pr f \/ In (u, v) ((map pr S1 ++ map pr S2) ++ acc)).
             { rewrite <- !app_assoc in *. apply in_app_or in Hin.
               destruct Hin as [Hin | [Hin | Hin]].
               - right. apply in_or_app. left. exact Hin.
               - left. symmetry. exact Hin.
               - right. apply in_or_app. right. exact Hin. }
             destruct Hcase as [Ef | Hin'].
             - unfold pr in Ef. injection Ef as Eu Ev. subst u v.
               apply (sub_incl ((ex e, ey e) :: map pr S1 ++ acc)); [|exact Hfsp].
               intros q [Hq | Hq]; apply in_or_app.
               + right. left. exact Hq.
               + apply in_app_or in Hq. destruct Hq as [Hq | Hq].
                 * left. apply in_or_app. left. exact Hq.
                 * right. right. exact Hq.
             - apply eqv_op. apply in_app_or in Hin'. apply in_or_app.
               destruct Hin' as [Hq | Hq]; [left; exact Hq | right; right; exact Hq]. }
           assert (Hpos' : forall g, In g E ->
                     (0 <= wt g)%Z \/ eqv (map pr (S1 ++ S2) ++ pr e :: acc) (ex g) (ey g)).
           { intros g Hg. destruct (Hpos g (or_intror Hg)) as [Hg0 | Hsp]; [left; exact Hg0|].
             right. apply Hsub. exact Hsp. }
           pose proof (IH (pr e :: acc) fl (S1 ++ S2) HG Hd Hpos' Hincl'' Hrest) as Hle.
           assert (Hf : (wt f <= wt e)%Z).
           { apply Hmax. apply Hincl'. apply in_or_app. right. left. reflexivity. }
           rewrite weight_app in *. simpl. lia.
    + (* e is redundant: S cannot contain it *)
      change (weight S <= weight (taken E fl))%Z.
      assert (Hincl' : incl S E).
      { intros f Hf. destruct (Hincl f Hf) as [Ef | HfE]; [|exact HfE].
        subst f. exfalso.
        apply (ia_in _ _ (ex e) (ey e) Hia); [|exact Hn].
        change (ex e, ey e) with (pr e). apply in_map. exact Hf. }
      apply (IH acc fl S HG Hd); [|exact Hincl' | exact Hia].
      intros f Hf. apply Hpos. right. exact Hf.
Qed.

(** ** 7.1 [kruskal_max_weight]: the complete sorted run is a
    maximum-weight forest of the graph.  Two forms:
    - weights non-negative (clarabel: intersection cardinalities):
      heavier than ANY forest inside the graph;
    - arbitrary weights: heavier than any SPANNING forest of the graph
      (the classical "maximum-weight spanning forest"). *)
Theorem kruskal_max_weight_gen : forall n target E0 fl,
  in_range n E0 ->
  kruskal n target (sort_edges E0) = Some fl ->
  complete n target fl ->
  forall S, incl S E0 -> acyclic (map pr S) ->
  (forall e, In e E0 -> (0 <= wt e)%Z \/ eqv (map pr S) (ex e) (ey e)) ->
  (weight S <= weight (taken (sort_edges E0) fl))%Z.
Proof.
  intros n target E0 fl Hr Hrun Hc S Hincl Hac Hpos.
  pose proof (sort_edges_perm E0) as HP.
  assert (Hr' : in_range n (sort_edges E0)) by (apply (in_range_perm n E0); assumption).
  apply (greedy_max_weight (sort_edges E0) [] fl S).
  - apply (kruskal_GSpec n target); assumption.
  - apply sort_edges_desc.
  - intros e He. rewrite app_nil_r. apply Hpos.
    apply (Permutation_in _ (Permutation_sym HP)). exact He.
  - intros e He. apply (Permutation_in _ HP). apply Hincl. exact He.
  - apply ia_acyclic. exact Hac.
Qed.

Theorem kruskal_max_weight : forall n target E0 fl,
  in_range n E0 ->
  (forall e, In e E0 -> (0 <= wt e)%Z) ->
  kruskal n target (sort_edges E0) = Some fl ->
  complete n target fl ->
  forall S, incl S E0 -> acyclic (map pr S) ->
  (weight S <= weight (taken (sort_edges E0) fl))%Z.
Proof.
  intros n target E0 fl Hr Hpos Hrun Hc S Hincl Hac.
  apply (kruskal_max_weight_gen n target E0 fl Hr Hrun Hc S Hincl Hac).
  intros e He. left. apply Hpos. exact He.
Qed.

Theorem kruskal_max_weight_spanning : forall n target E0 fl,
  in_range n E0 ->
  kruskal n target (sort_edges E0) = Some fl ->
  complete n target fl ->
  forall S, incl S E0 -> acyclic (map pr S) ->
  (forall x y, eqv (map pr E0) x y -> eqv (map pr S) x y) ->   (* S spans the graph *)
  (weight S <= weight (taken (sort_edges E0) fl))%Z.
Proof.
  intros n target E0 fl Hr Hrun Hc S Hincl Hac Hsp.
  apply (kruskal_max_weight_gen n target E0 fl Hr Hrun Hc S Hincl Hac).
  intros e He. right. apply Hsp. apply eqv_op.
  change (ex e, ey e) with (pr e). apply in_map. exact He.
Qed.

(** ** 7.2 Maximum cardinality: any forest inside the graph has at most
    as many edges as the complete run takes (all spanning forests have
    the same size). *)
Theorem kruskal_max_card : forall n target E fl,
  in_range n E -> kruskal n target E = Some fl -> complete n target fl ->
  forall S : list (nat * nat),
    acyclic S -> (forall x y, In (x, y) S -> eqv (map pr E) x y) ->
    length S <= count_true fl.
Proof.
  intros n target E fl Hr Hrun Hc S Hac HS.
  destruct (steinitz S [] (map pr (taken E fl))) as [Hlen _].
  - apply ia_acyclic. exact Hac.
  - intros u v Hin. simpl.
    apply (kruskal_spanning n target E fl Hr Hrun Hc). apply HS. exact Hin.
  - rewrite map_length, taken_length in Hlen; [exact Hlen|].
    destruct (kruskal_total n target E Hr) as (fl' & Hrun' & Hl).
    rewrite Hrun in Hrun'. injection Hrun' as <-. exact Hl.
Qed.

(** ** 7.3 Spanning TREE: on a connected graph with [n] vertices the
    complete run takes exactly [n - 1] edges, which connect everything. *)
Lemma chain_ends : forall l x y, In (x, y) (chain l) -> In x l /\ In y l.
Proof.
  induction l as [|c [|d t] IHl]; intros x y Hin; simpl in Hin; try contradiction.
  destruct Hin as [E | Hin].
  - injection E as Ex Ey. subst. split; [left; reflexivity | right; left; reflexivity].
  - destruct (IHl x y Hin) as [Hx Hy]. split; right; assumption.
Qed.

Lemma chain_ia : forall vs, NoDup vs -> ia [] (chain vs).
Proof.
  induction vs as [|a [|b tl] IH]; intros Hnd; try exact I.
  change (chain (a :: b :: tl)) with ((a, b) :: chain (b :: tl)).
  assert (HP : Permutation ((a, b) :: chain (b :: tl)) (chain (b :: tl) ++ [(a, b)])).
  { change ((a, b) :: chain (b :: tl)) with ([(a, b)] ++ chain (b :: tl)).
    apply Permutation_app_comm. }
  apply (ia_perm _ _ (Permutation_sym HP)).
  inversion Hnd as [|a' l' Hnotin Hnd']; subst.
  apply ia_app. split; [apply IH; exact Hnd'|].
  simpl. split; [|exact I]. rewrite app_nil_r. intros K.
  assert (Hends : forall x y, In (x, y) (rev (chain (b :: tl))) ->
                              In x (b :: tl) /\ In y (b :: tl)).
  { intros x y Hin. apply in_rev in Hin. apply chain_ends. exact Hin. }
  destruct (eqv_ends _ (fun z => In z (b :: tl)) Hends a b K) as [E | [Ha _]].
  - apply Hnotin. left. auto.
  - apply Hnotin. exact Ha.
Qed.

Theorem kruskal_spanning_tree : forall n target E fl,
  in_range n E -> kruskal n target E = Some fl -> complete n target fl ->
  (forall x y, x < n -> y < n -> eqv (map pr E) x y) ->   (* connected graph *)
  count_true fl = n - 1
  /\ forall x y, x < n -> y < n -> eqv (map pr (taken E fl)) x y.
Proof.
  intros n target E fl Hr Hrun Hc Hconn. split.
  - destruct (kruskal_forest n target E fl Hr Hrun) as (_ & _ & Hle & _).
    assert (Hge : length (chain (seq 0 n)) <= count_true fl).
    { apply (kruskal_max_card n target E fl Hr Hrun Hc).
      - apply ia_acyclic. apply chain_ia. apply seq_NoDup.
      - intros x y Hin.
        assert (Hxy : x < n /\ y < n).
        { destruct (chain_ends _ x y Hin) as [Hx Hy]. rewrite !in_seq0 in *. auto. }
        destruct Hxy as [Hx Hy]. apply Hconn; assumption. }
    rewrite chain_length, seq_length in Hge. lia.
  - intros x y Hx Hy.
    apply (kruskal_spanning n target E fl Hr Hrun Hc). apply Hconn; assumption.
Qed.
(* ================================================================== *)
(** * 8. The whole function: sort, run, write the marks back           *)
(* ================================================================== *)

(** [sortperm_rev]: the permutation [p] together with the permuted
    edges; [p[k]] is the original position of the k-th visited edge. *)
Definition sort_idx (E : list edge) : list (nat * edge) :=
  isort_desc (fun ie => wt (snd ie)) (combine (seq 0 (length E)) E).

Fixpoint lookup (i : nat) (l : list (nat * bool)) : bool :=
  match l with
  | [] => false
  | (j, b) :: t => if i =? j then b else lookup i t
  end.

(** [E.nzval[p[k]] = -1] for the taken [k]: flags in ORIGINAL order. *)
Definition scatter (p : list nat) (fl : list bool) (m : nat) : list bool :=
  map (fun i => lookup i (combine p fl)) (seq 0 m).

Definition kruskal_sorted (n target : nat) (E : list edge) : option (list bool) :=
  let se := sort_idx E in
  match kruskal n target (map snd se) with
  | None => None
  | Some fl => Some (scatter (map fst se) fl (length E))
  end.

Lemma combine_seq_snd : forall (E : list edge) s,
  map snd (combine (seq s (length E)) E) = E.
Proof.
  induction E as [|e E IH]; intros s; simpl; [reflexivity|]. rewrite IH. reflexivity.
Qed.

Lemma combine_seq_fst : forall (E : list edge) s,
  map fst (combine (seq s (length E)) E) = seq s (length E).
Proof.
  induction E as [|e E IH]; intros s; simpl; [reflexivity|]. rewrite IH. reflexivity.
Qed.

Lemma sort_idx_snd : forall E, map snd (sort_idx E) = sort_edges E.
Proof.
  intros E. unfold sort_idx, sort_edges.
  rewrite (map_isort_desc edge (nat * edge) snd wt). rewrite combine_seq_snd. reflexivity.
Qed.

Lemma sort_idx_fst_perm : forall E,
  Permutation (seq 0 (length E)) (map fst (sort_idx E)).
Proof.
  intros E. unfold sort_idx. rewrite <- (combine_seq_fst E 0) at 1.
  apply Permutation_map. apply isort_perm.
Qed.

Lemma combine_seq_nth : forall (E : list edge) s i e d,
  In (i, e) (combine (seq s (length E)) E) ->
  s <= i < s + length E /\ nth (i - s) E d = e.
Proof.
  induction E as [|e0 E IH]; intros s i e d Hin; simpl in Hin; [contradiction|].
  destruct Hin as [Eq | Hin].
  - injection Eq as Ei Ee. subst. simpl. rewrite Nat.sub_diag. split; [lia | reflexivity].
  - destruct (IH (S s) i e d Hin) as [Hr Hn]. simpl. split; [lia|].
    replace (i - s) with (S (i - S s)) by lia. exact Hn.
Qed.

Lemma sort_idx_entry : forall E i e d,
  In (i, e) (sort_idx E) -> i < length E /\ nth i E d = e.
Proof.
  intros E i e d Hin. unfold sort_idx in Hin.
  apply (Permutation_in _ (Permutation_sym (isort_perm _ _ _))) in Hin.
  destruct (combine_seq_nth E 0 i e d Hin) as [Hr Hn].
  rewrite Nat.sub_0_r in Hn. split; [lia | exact Hn].
Qed.

(** Stability: the visiting order is (weight decreasing, then original
    position increasing). *)
Lemma kinc_combine_seq : forall (E : list edge) s,
  kinc (fun ie : nat * edge => fst ie) (combine (seq s (length E)) E).
Proof.
  induction E as [|e E IH]; intros s; simpl; [exact I|].
  split; [|apply IH]. intros [i f] Hin. simpl.
  destruct (combine_seq_nth E (S s) i f e Hin) as [Hr _]. lia.
Qed.

Theorem sort_idx_stable : forall E,
  ssorted (fun ie : nat * edge => wt (snd ie)) (fun ie => fst ie) (sort_idx E).
Proof.
  intros E. unfold sort_idx. apply isort_stable. apply kinc_combine_seq.
Qed.

Lemma lookup_combine : forall p fl k,
  NoDup p -> length p = length fl -> k < length p ->
  lookup (nth k p 0) (combine p fl) = nth k fl false.
Proof.
  induction p as [|j p IH]; intros [|b fl] k Hnd Hl Hk; simpl in *; try lia.
  inversion Hnd as [|j' p' Hnotin Hnd']; subst.
  destruct k as [|k].
  - rewrite Nat.eqb_refl. reflexivity.
  - destruct (Nat.eqb_spec (nth k p 0) j) as [Ej | Nj].
    + exfalso. apply Hnotin. rewrite <- Ej. apply nth_In. lia.
    + apply IH; [exact Hnd' | lia | lia].
Qed.

Lemma scatter_nth : forall p fl m k,
  NoDup p -> length p = length fl -> k < length p -> nth k p 0 < m ->
  nth (nth k p 0) (scatter p fl m) false = nth k fl false.
Proof.
  intros p fl m k Hnd Hl Hk Hm. unfold scatter.
  rewrite (nth_indep _ false (lookup 0 (combine p fl)))
    by (rewrite map_length, seq_length; exact Hm).
  rewrite (map_nth (fun i => lookup i (combine p fl)) (seq 0 m) 0).
  rewrite seq_nth by exact Hm. simpl.
  apply lookup_combine; assumption.
Qed.

(** [kruskal_sorted] = [kruskal] on [sort_edges], with the k-th flag
    stored at the original position of the k-th visited edge. *)
Theorem kruskal_sorted_spec : forall n target E,
  in_range n E ->
  exists fl fo,
    kruskal n target (sort_edges E) = Some fl
    /\ kruskal_sorted n target E = Some fo
    /\ length fo = length E
    /\ forall k d, k < length E ->
         let i := nth k (map fst (sort_idx E)) 0 in
         i < length E
         /\ nth i E d = nth k (sort_edges E) d       (* visited edge k = original edge i *)
         /\ nth i fo false = nth k fl false.         (* and carries its flag *)
Proof.
  intros n target E Hr.
  assert (Hr' : in_range n (sort_edges E)).
  { apply (in_range_perm n E); [apply sort_edges_perm | exact Hr]. }
  destruct (kruskal_total n target (sort_edges E) Hr') as (fl & Hrun & Hl).
  exists fl, (scatter (map fst (sort_idx E)) fl (length E)).
  split; [exact Hrun|].
  split; [unfold kruskal_sorted; simpl; rewrite sort_idx_snd, Hrun; reflexivity|].
  split; [unfold scatter; rewrite map_length, seq_length; reflexivity|].
  assert (Hlen : length (sort_idx E) = length E).
  { rewrite <- (map_length fst). rewrite <- (Permutation_length (sort_idx_fst_perm E)).
    apply seq_length. }
  assert (Hlen' : length (sort_edges E) = length E).
  { symmetry. apply Permutation_length. apply sort_edges_perm. }
  intros k d Hk. cbv zeta.
  assert (Hin : In (nth k (sort_idx E) (0, d)) (sort_idx E)) by (apply nth_In; lia).
  destruct (nth k (sort_idx E) (0, d)) as [i e] eqn:Ek.
  assert (Ei : nth k (map fst (sort_idx E)) 0 = i).
  { change 0 with (fst (0, d)). rewrite map_nth, Ek. reflexivity. }
  assert (Ee : nth k (sort_edges E) d = e).
  { rewrite <- sort_idx_snd. change d with (snd (0, d)) at 1. rewrite map_nth, Ek. reflexivity. }
  destruct (sort_idx_entry E i e d Hin) as [Hi Hn].
  rewrite Ei, Ee. split; [exact Hi|]. split; [exact Hn|].
  rewrite <- Ei. apply scatter_nth.
  - apply (Permutation_NoDup (sort_idx_fst_perm E)). apply seq_NoDup.
  - rewrite map_length. lia.
  - rewrite map_length. lia.
  - rewrite Ei. exact Hi.
Qed.

(* ================================================================== *)
(** * 9. Examples                                                       *)
(* ================================================================== *)

(** Triangle with weights 3, 2, 1 (given unsorted): the two heaviest
    edges are taken, the lightest closes the cycle. *)
Example ex_triangle :
  kruskal_sorted 3 2 [(2, 1, 1%Z); (1, 0, 3%Z); (2, 0, 2%Z)]
  = Some [false; true; true].
Proof. vm_compute. reflexivity. Qed.

Example ex_triangle_sorted :
  sort_edges [(2, 1, 1%Z); (1, 0, 3%Z); (2, 0, 2%Z)]
  = [(1, 0, 3%Z); (2, 0, 2%Z); (2, 1, 1%Z)].
Proof. vm_compute. reflexivity. Qed.

(** Equal weights: the sort is stable, so the FIRST two edges win. *)
Example ex_equal :
  kruskal_sorted 3 2 [(1, 0, 5%Z); (2, 0, 5%Z); (2, 1, 5%Z)]
  = Some [true; true; false]
  /\ map fst (sort_idx [(1, 0, 5%Z); (2, 0, 5%Z); (2, 1, 5%Z)]) = [0; 1; 2].
Proof. vm_compute. split; reflexivity. Qed.

Example ex_equal_mixed :
  map fst (sort_idx [(1, 0, 2%Z); (2, 0, 5%Z); (2, 1, 2%Z); (3, 0, 5%Z)]) = [1; 3; 0; 2]
  /\ kruskal_sorted 4 3 [(1, 0, 2%Z); (2, 0, 5%Z); (2, 1, 2%Z); (3, 0, 5%Z)]
     = Some [true; true; false; true].
Proof. vm_compute. split; reflexivity. Qed.

(** Disconnected graph, components {0,1,2} and {3,4}; target 4 is never
    reached: a spanning forest with 3 edges. *)
Example ex_disconnected :
  kruskal_sorted 5 4 [(1, 0, 1%Z); (2, 0, 1%Z); (2, 1, 4%Z); (4, 3, 2%Z)]
  = Some [true; false; true; true].
Proof. vm_compute. reflexivity. Qed.

(** The early exit: with target 1 (two cliques left) only the heaviest
    edge is taken; with target 0 one edge is still taken, since the
    test follows the increment. *)
Example ex_cut :
  kruskal 3 1 [(1, 0, 3%Z); (2, 0, 2%Z); (2, 1, 1%Z)] = Some [true; false; false]
  /\ kruskal 3 0 [(1, 0, 3%Z); (2, 0, 2%Z); (2, 1, 1%Z)] = Some [true; false; false].
Proof. vm_compute. split; reflexivity. Qed.

(** The union sequence on which the shipped [root] was wrong (Dsu.v,
    [dsu_root_refuted]): with the fixed [root] the last edge (0,7) is
    rejected. *)
Example ex_f5 :
  kruskal 8 7
    [(0, 1, 8%Z); (2, 3, 7%Z); (1, 3, 6%Z); (4, 5, 5%Z);
     (6, 7, 4%Z); (5, 7, 3%Z); (3, 7, 2%Z); (0, 7, 1%Z)]
  = Some [true; true; true; true; true; true; true; false].
Proof. vm_compute. reflexivity. Qed.

(** Non-vacuity of the optimality theorem on the triangle. *)
Example ex_triangle_opt :
  forall S, incl S [(2, 1, 1%Z); (1, 0, 3%Z); (2, 0, 2%Z)] ->
            acyclic (map pr S) -> (weight S <= 5)%Z.
Proof.
  intros S Hincl Hac.
  assert (Hr : in_range 3 [(2, 1, 1%Z); (1, 0, 3%Z); (2, 0, 2%Z)]).
  { intros e He. simpl in He.
    repeat (destruct He as [<- | He]; [unfold ex, ey; simpl; lia|]). contradiction. }
  assert (Hpos : forall e, In e [(2, 1, 1%Z); (1, 0, 3%Z); (2, 0, 2%Z)] -> (0 <= wt e)%Z).
  { intros e He. simpl in He.
    repeat (destruct He as [<- | He]; [unfold wt; simpl; lia|]). contradiction. }
  apply (kruskal_max_weight 3 2 _ [true; true; false] Hr Hpos);
    [vm_compute; reflexivity | right; simpl; lia | exact Hincl | exact Hac].
Qed.

(* ================================================================== *)
(** * 10. Axiom audit                                                   *)
(* ================================================================== *)

Print Assumptions kruskal_total.
Print Assumptions kruskal_forest.
Print Assumptions kruskal_spanning.
Print Assumptions kruskal_spanning_tree.
Print Assumptions kruskal_cut.
Print Assumptions kruskal_cycle_property.
Print Assumptions kruskal_max_weight.
Print Assumptions kruskal_max_weight_spanning.
Print Assumptions kruskal_max_card.
Print Assumptions kruskal_sorted_spec.
Print Assumptions sort_idx_stable.
Print Assumptions ex_triangle_opt.
