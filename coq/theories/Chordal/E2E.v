(** C18 — exact (dyadic) re-evaluation of a returned solution against the ORIGINAL problem
    data.  Every finite f64 is a dyadic number [D m e]; all residuals below are computed
    exactly, only the final comparisons involve the stated tolerance.  Executable checkers
    (run by vm_compute on the solver's output); meaning lemmas for the dyadic operations are
    in Base/Dyadic.v. *)
From Coq Require Import List Arith ZArith NArith Lia Bool.
Import ListNotations.
Require Import Clarabel.Base.Dyadic.

Inductive cone := CZero (d : N) | CNN (d : N) | CSOC (d : N) | CPSD (n : N).
Definition tri (n : N) : N := (n * (n + 1) / 2)%N.
Definition cone_rows (c : cone) : N :=
  match c with CZero d => d | CNN d => d | CSOC d => d | CPSD n => tri n end.

(** sparse row: (column, value) *)
Definition srow := list (N * dy).
Definition dotrow (r : srow) (x : list dy) : dy :=
  fold_left (fun acc e => dadd acc (dmul (snd e) (nth (N.to_nat (fst e)) x d0))) r d0.
Definition mulv (rows : list srow) (x : list dy) : list dy := map (fun r => dotrow r x) rows.
Fixpoint map2 {A B C} (f : A -> B -> C) (a : list A) (b : list B) : list C :=
  match a, b with x :: a', y :: b' => f x y :: map2 f a' b' | _, _ => [] end.
Definition vadd := map2 dadd.
Definition vsub := map2 dsub.

Record prob := mkProb {
  pr_n : N; pr_m : N;
  pr_Prows : list srow;      (* full symmetric P, by rows *)
  pr_q : list dy;
  pr_Arows : list srow;      (* A by rows (m rows) *)
  pr_Acols : list srow;      (* A^T by rows (n rows): (row of A, value) *)
  pr_b : list dy;
  pr_cones : list cone }.

(** verdict classes *)
Inductive verdict := VSolved | VPinf | VDinf | VOther (code : N).
Definition verdict_eqb (a b : verdict) : bool :=
  match a, b with
  | VSolved, VSolved | VPinf, VPinf | VDinf, VDinf => true
  | VOther x, VOther y => N.eqb x y
  | _, _ => false end.

Record sol := mkSol { so_v : verdict; so_obj : dy; so_x : list dy; so_s : list dy; so_z : list dy }.

(** ---------- positive definiteness by fraction-free (Bareiss) elimination over Z ---------- *)
Definition dmin_exp (l : list dy) : Z := fold_left (fun e a => if (dm a =? 0)%Z then e else Z.min e (de a)) l 0%Z.
Definition toZ_at (e : Z) (a : dy) : Z := (dm a * 2 ^ (de a - e))%Z.

Fixpoint bareiss (fuel : nat) (M : list (list Z)) (prev : Z) : bool :=
  match fuel with
  | O => true
  | S f =>
    match M with
    | [] => true
    | [] :: _ => true
    | (p :: r0) :: rest =>
        if (p <=? 0)%Z then false
        else bareiss f (map (fun row => match row with
                                      | [] => []
                                      | a :: r => map2 (fun x y => ((p * x - a * y) / prev)%Z) r r0
                                      end) rest) p
    end
  end.
(** all leading principal minors of the symmetric integer matrix are positive *)
Definition pd_int (M : list (list Z)) : bool := bareiss (length M) M 1%Z.

(** packed upper triangle (column by column) -> full symmetric matrix; off-diagonal entries
    of an svec carry a factor sqrt 2, undone with the dyadic [rsqrt2] (53-bit 1/sqrt 2) *)
Definition rsqrt2 : dy := D 6369051672525773 (-53).
Definition tri_at (i j : nat) : nat := if (i <=? j)%nat then j * (j + 1) / 2 + i else i * (i + 1) / 2 + j.
Definition smat (n : nat) (v : list dy) : list (list dy) :=
  map (fun i => map (fun j => let a := nth (tri_at i j) v d0 in if (i =? j)%nat then a else dmul a rsqrt2) (seq 0 n)) (seq 0 n).
Definition submat (idx : list nat) (M : list (list dy)) : list (list dy) :=
  map (fun i => map (fun j => nth j (nth i M []) d0) idx) idx.
Definition add_diag (delta : dy) (M : list (list dy)) : list (list dy) :=
  map (fun ir => map (fun jc => if (fst ir =? fst jc)%nat then dadd (snd jc) delta else snd jc)
                     (combine (seq 0 (length (snd ir))) (snd ir)))
      (combine (seq 0 (length M)) M).
(** entries are brought to a common exponent; entries more than 36 bits below the largest
    magnitude are truncated there (a perturbation below 2^-36 of the largest entry per entry, far
    below every tolerance used), which bounds the size of the integers *)
Definition dmag (a : dy) : Z := if (dm a =? 0)%Z then (-1000000)%Z else (Z.log2 (Z.abs (dm a)) + de a)%Z.
Definition dtop (l : list dy) : Z := fold_left (fun t a => Z.max t (dmag a)) l (-1000000)%Z.
Definition toZ_q (e : Z) (a : dy) : Z :=
  if (e <=? de a)%Z then Z.shiftl (dm a) (de a - e) else Z.shiftr (dm a) (e - de a).
Definition pd_dy (M : list (list dy)) : bool :=
  let l := concat M in
  let e := Z.max (dmin_exp l) (dtop l - 36) in pd_int (map (map (toZ_q e)) M).
Definition maxabs (l : list dy) : dy := dnorminf l.
(** M + delta (1 + max|M|) I is positive definite *)
Definition psd_tol (delta : dy) (M : list (list dy)) : bool :=
  pd_dy (add_diag (dmul delta (dadd d1 (maxabs (concat M)))) M).

(** ---------- cone membership up to tolerance ---------- *)
Definition in_cone (delta : dy) (dual : bool) (c : cone) (v : list dy) : bool :=
  let tolv := dmul delta (dadd d1 (maxabs v)) in
  match c with
  | CZero _ => if dual then true else forallb (fun a => dleb (dabs a) tolv) v
  | CNN _ => forallb (fun a => dleb (dneg tolv) a) v
  | CSOC _ => match v with
              | [] => true
              | t :: r => let t' := dadd t tolv in dleb d0 t' && dleb (dsumsq r) (dmul t' t')
              end
  | CPSD n => psd_tol delta (smat (N.to_nat n) v)
  end.
Fixpoint split_cones (cs : list cone) (v : list dy) : list (cone * list dy) :=
  match cs with
  | [] => []
  | c :: r => let k := N.to_nat (cone_rows c) in (c, firstn k v) :: split_cones r (skipn k v)
  end.
Definition in_cones (delta : dy) (dual : bool) (cs : list cone) (v : list dy) : bool :=
  forallb (fun cv => in_cone delta dual (fst cv) (snd cv)) (split_cones cs v).

(** dual PSD-ness when the dual was NOT completed: every clique block of z must be PSD.
    [cliques] : per cone index, the clique vertex lists (original numbering); cones without
    an entry are checked in full. *)
Definition z_cliques_ok (delta : dy) (cs : list cone) (z : list dy) (cliques : list (N * list (list N))) : bool :=
  forallb (fun icv =>
    let '(i, (c, v)) := icv in
    match c with
    | CPSD n =>
        match find (fun e => N.eqb (fst e) (N.of_nat i)) cliques with
        | Some (_, cls) => let M := smat (N.to_nat n) v in
                           forallb (fun cl => psd_tol delta (submat (map N.to_nat cl) M)) cls
        | None => in_cone delta true c v
        end
    | _ => in_cone delta true c v
    end) (combine (seq 0 (length cs)) (split_cones cs z)).

(** ---------- optimality conditions of the ORIGINAL problem ---------- *)
Definition dinf : dy := D 1 66.   (* 2^66 ~ 7.4e19 < 1e20: rows with b at or above are "infinite" bounds *)
Definition finite_row (bi : dy) : bool := dltb bi dinf.
Definition mask_rows (b v : list dy) : list dy := map2 (fun bi a => if finite_row bi then a else d0) b v.

Definition lens_ok (p : prob) (s : sol) : bool :=
  (length (so_x s) =? N.to_nat (pr_n p))%nat && (length (so_s s) =? N.to_nat (pr_m p))%nat
  && (length (so_z s) =? N.to_nat (pr_m p))%nat.

(** Tolerances.  The solver's termination test is on the DECOMPOSED problem: residuals at most
    tol relative to max(1, |b|+|x'|+|s'|) resp. max(1, |q|+|x'|+|z'|), where x' = (x, clique
    blocks) in the standard form, so |x'| <= max(|x|, 2|s|) (blocks of a PSD sum are bounded by
    its diagonal, svec scales by sqrt 2).  Mapping back:
      - s = sum of blocks: the primal residual of a row adds the residuals of the (at most
        1 + #overlaps) block rows feeding it;
      - z on a row is taken from ONE clique block (compact: the deepest, overwritten) or averaged
        (standard), while the data of that row sit with the dual z0 of one block/row; the two are
        tied only through the dual residuals of the overlap / H columns along a chain of at most
        #overlaps ties.  Hence |z - z0|_inf <= eps * sc_d with eps = tol (1 + #overlaps), and
          dual residual  P x + A'z + q   picks up  |A|_1 * eps * sc_d   (|A|_1 = max column abs sum),
          dual objective -b'z            picks up  |b|_1 * eps * sc_d.
    [eps] below is that tol (1 + #overlaps); the explicit constants are (1 + |A|_1) and |b_finite|_1. *)
Definition dsumabs (l : list dy) : dy := fold_left (fun a v => dadd a (dabs v)) l d0.
Definition norm1_cols (cols : list srow) : dy := fold_left (fun m c => dmax m (dsumabs (map snd c))) cols d0.

Definition kkt_ok (eps : dy) (p : prob) (s : sol) : bool :=
  let x := so_x s in let sv := so_s s in let z := so_z s in let b := pr_b p in
  let bf := mask_rows b b in
  let zf := mask_rows b z in
  let sf := mask_rows b sv in
  let Ax := mulv (pr_Arows p) x in
  let rp := mask_rows b (vsub (vadd Ax sv) b) in
  let Px := mulv (pr_Prows p) x in
  let Atz := mulv (pr_Acols p) zf in
  let rd := vadd (vadd Px Atz) (pr_q p) in
  let xPx := ddot x Px in
  let half := D 1 (-1) in
  let two := D 1 1 in
  let pobj := dadd (dmul half xPx) (ddot (pr_q p) x) in
  let dobj := dsub (dneg (dmul half xPx)) (ddot bf zf) in
  let sc_p := dadd d1 (dadd (maxabs bf) (dadd (maxabs x) (dmul two (maxabs sf)))) in
  let sc_d := dadd d1 (dadd (maxabs (pr_q p)) (dadd (dadd (maxabs x) (dmul two (maxabs sf))) (maxabs z))) in
  let sc_g := dadd d1 (dmin (dabs pobj) (dabs dobj)) in
  let a1 := dadd d1 (norm1_cols (pr_Acols p)) in
  let b1 := dsumabs bf in
  let gap_tol := dmul eps (dadd sc_g (dmul b1 sc_d)) in
  dleb (maxabs rp) (dmul eps sc_p)
  && dleb (maxabs rd) (dmul eps (dmul a1 sc_d))
  && dleb (dabs (dsub pobj dobj)) gap_tol
  && dleb (dabs (dsub pobj (so_obj s))) (dmul eps sc_g)
  (* dual variables of infinite-bound rows vanish *)
  && dleb (maxabs (map2 (fun bi a => if finite_row bi then d0 else a) b z)) (dmul eps sc_d).

(** ---------- second, independent tie: the two RETURNED points against each other ----------
    Nothing reported by the solver is used here: primal and dual objectives of both returned
    points are recomputed exactly from (x, z) and the ORIGINAL data.  Weak duality holds
    between ANY primal-feasible and ANY dual-feasible point, so the dual value of the run with
    decomposition must not exceed the primal value of the run without, and vice versa, up to
    the feasibility slack of the points; and the two primal values must agree. *)
Definition pobj_of (p : prob) (s : sol) : dy :=
  let x := so_x s in dadd (dmul (D 1 (-1)) (ddot x (mulv (pr_Prows p) x))) (ddot (pr_q p) x).
Definition dobj_of (p : prob) (s : sol) : dy :=
  let x := so_x s in let b := pr_b p in
  dsub (dneg (dmul (D 1 (-1)) (ddot x (mulv (pr_Prows p) x)))) (ddot (mask_rows b b) (mask_rows b (so_z s))).
Definition cross_scale (p : prob) (a c : sol) : dy :=
  let b := pr_b p in
  let two := D 1 1 in
  let sc s := dadd d1 (dadd (maxabs (pr_q p)) (dadd (dadd (maxabs (so_x s)) (dmul two (maxabs (mask_rows b (so_s s))))) (maxabs (so_z s)))) in
  let g := dadd d1 (dmin (dabs (pobj_of p a)) (dabs (pobj_of p c))) in
  dadd g (dmul (dadd d1 (dsumabs (mask_rows b b))) (dadd (sc a) (sc c))).
(** codes 16: the reference run (decomposition off) itself fails the exact KKT test;
          17: recomputed primal objectives of the two returned points differ;
          18: weak duality violated across the two runs *)
Definition c18_cross (eps : dy) (p : prob) (on off : sol) : N :=
  let tol := dmul eps (cross_scale p on off) in
  if negb (lens_ok p off && kkt_ok eps p off) then 16%N
  else if negb (dleb (dabs (dsub (pobj_of p on) (pobj_of p off))) tol) then 17%N
  else if negb (dleb (dobj_of p on) (dadd (pobj_of p off) tol) && dleb (dobj_of p off) (dadd (pobj_of p on) tol)) then 18%N
  else 0%N.

(** codes: 0 ok; 10 lengths; 11 verdict differs; 12 objective differs; 13 KKT residuals;
    14 s not in cone; 15 z not in dual cone; 16-18 see [c18_cross] *)
Definition c18_e2e (eps : dy) (p : prob) (on off : sol) (complete : bool)
           (cliques : list (N * list (list N))) : N :=
  if negb (lens_ok p on) then 10%N
  else if negb (verdict_eqb (so_v on) (so_v off)) then 11%N
  else match so_v on with
       | VSolved =>
           if negb (dleb (dabs (dsub (so_obj on) (so_obj off)))
                         (dmul eps (dadd d1 (dabs (so_obj off))))) then 12%N
           else if negb (kkt_ok eps p on) then 13%N
           else if negb (in_cones eps false (pr_cones p) (mask_rows (pr_b p) (so_s on))) then 14%N
           else if negb (if complete then in_cones eps true (pr_cones p) (so_z on)
                         else z_cliques_ok eps (pr_cones p) (so_z on) cliques) then 15%N
           else c18_cross eps p on off
       | _ => 0%N
       end.
