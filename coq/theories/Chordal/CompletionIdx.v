(** C18 — index-set argument for the PSD completion routine (psd_completion.rs).

    The routine visits the non-root cliques j.  With nu = sn t j (a consecutive range whose
    first element is i0) and alpha = sp t j it overwrites exactly the matrix positions (x, v)
    and (v, x) with v in nu and x in eta := { x : i0 < x < n, x not in alpha, x not in nu }
    (tree numbering).  We prove that in a [ValidTree] these positions lie outside EVERY clique
    block ([completion_preserves]); hence (via [vt_cover]) they also lie outside the aggregate
    sparsity pattern in the original numbering ([completion_outside_pattern]): the completion
    never changes an entry that a clique block, or the pattern, contains. *)
From Coq Require Import List Arith NArith Lia Bool Permutation.
Import ListNotations.
Require Import Clarabel.Chordal.TreeSpec Clarabel.Chordal.TreeLemmas.

(** * (a) the supernodes, in post-order, are increasing ranges *)

(** any split of the list a, a+1, .., a+k-1 puts smaller numbers on the left *)
Lemma seq_split_lt : forall k a (l1 l2 : list N), l1 ++ l2 = map N.of_nat (seq a k) ->
  forall u w, In u l1 -> In w l2 -> (u < w)%N.
Proof.
  induction k as [|k IH]; intros a l1 l2 Heq u w Hu Hw.
  - cbn [seq map] in Heq. apply app_eq_nil in Heq. destruct Heq as [-> _]. destruct Hu.
  - destruct l1 as [|y l1]; [destruct Hu|].
    cbn [seq map app] in Heq. injection Heq as Hy Hrest.
    destruct Hu as [Hu|Hu].
    + subst u y.
      assert (Hw' : In w (map N.of_nat (seq (S a) k))).
      { rewrite <- Hrest. apply in_or_app. right. exact Hw. }
      apply in_map_iff in Hw'. destruct Hw' as (m & <- & Hm). apply in_seq in Hm. lia.
    + eapply IH; eauto.
Qed.

(** an earlier supernode holds smaller vertex numbers than a later one *)
Lemma sn_order p t (V : ValidTree p t) : forall A e B j C,
  post t = A ++ e :: B ++ j :: C ->
  forall a b, In a (sn t e) -> In b (sn t j) -> (a < b)%N.
Proof.
  intros A e B j C Hpost a b Ha Hb.
  pose proof (vt_partition p t V) as Hpart. rewrite Hpost in Hpart.
  rewrite map_app, concat_app in Hpart. cbn [map concat] in Hpart.
  rewrite map_app, concat_app in Hpart. cbn [map concat] in Hpart.
  unfold vertices in Hpart. rewrite app_assoc in Hpart.
  eapply (seq_split_lt _ _ _ _ Hpart a b).
  - apply in_or_app. right. exact Ha.
  - apply in_or_app. right. apply in_or_app. left. exact Hb.
Qed.

(** every vertex lies in the supernode of exactly one live clique *)
Lemma sn_unique p t (V : ValidTree p t) : forall e j v,
  In e (post t) -> In j (post t) -> In v (sn t e) -> In v (sn t j) -> e = j.
Proof.
  intros e j v He Hj Hve Hvj.
  apply in_split in He. destruct He as (A & R & Hpost).
  rewrite Hpost in Hj. apply in_app_or in Hj. destruct Hj as [Hj|[Hj|Hj]].
  - apply in_split in Hj. destruct Hj as (A1 & A2 & HA). subst A.
    rewrite <- app_assoc in Hpost. cbn [app] in Hpost.
    pose proof (sn_order p t V _ _ _ _ _ Hpost v v Hvj Hve). lia.
  - exact Hj.
  - apply in_split in Hj. destruct Hj as (R1 & R2 & HR). subst R.
    pose proof (sn_order p t V _ _ _ _ _ Hpost v v Hve Hvj). lia.
Qed.

Lemma nodup_app_disj {A} (l1 l2 : list A) v : NoDup (l1 ++ l2) -> In v l1 -> In v l2 -> False.
Proof.
  induction l1 as [|y l1 IH]; intros Hnd H1 H2; [destruct H1|].
  cbn [app] in Hnd. inversion Hnd as [|? ? Hn Hnd']. subst.
  destruct H1 as [->|H1].
  - apply Hn. apply in_or_app. right. exact H2.
  - exact (IH Hnd' H1 H2).
Qed.

(** a vertex of the supernode of j occurs in no clique that comes after j in the post-order *)
Lemma sn_not_later p t (V : ValidTree p t) : forall pre j suf v e,
  post t = pre ++ j :: suf -> In v (sn t j) -> In e suf -> ~ In v (clique t e).
Proof.
  intros pre j suf v e Hpost Hv He Hve.
  assert (Hne : suf <> []) by (intros ->; destruct He).
  destruct (vt_parent p t V _ _ _ Hpost Hne) as (q & Hq & _).
  assert (Hvj : In v (clique t j)) by (unfold clique; apply in_or_app; left; exact Hv).
  pose proof (vt_rip p t V _ _ _ _ Hpost Hq e v He Hvj Hve) as Hvq.
  assert (Hjin : In j (post t)) by (rewrite Hpost; apply in_or_app; right; left; reflexivity).
  assert (Hsp : In v (sp t j)) by (apply (vt_sep p t V j q Hjin Hq v); split; assumption).
  pose proof (vt_clique_nodup p t V j Hjin) as Hnd. unfold clique in Hnd.
  exact (nodup_app_disj _ _ v Hnd Hv Hsp).
Qed.

(** * (b) walking up the tree from a clique that contains both x and v *)
Section Walk.
  Variables (p : pat) (t : tree).
  Hypothesis V : ValidTree p t.
  Variables (j v x i0 : N) (rest : list N).
  Hypothesis Hj : In j (post t).
  Hypothesis Hsn : sn t j = i0 :: rest.
  Hypothesis Hv : In v (sn t j).
  Hypothesis Hx : (i0 < x)%N.
  Hypothesis Hnx : ~ In x (clique t j).

  Lemma walk : forall n suf pre, length suf = n -> post t = pre ++ suf ->
    forall e, In e suf -> In x (clique t e) -> In v (clique t e) -> False.
  Proof.
    induction n as [n IHn] using lt_wf_ind. intros suf pre Hlen Heq e Hin Hxe Hve.
    apply in_split in Hin. destruct Hin as (l1 & l2 & Hs). subst suf.
    assert (Heq' : post t = (pre ++ l1) ++ e :: l2) by (rewrite <- app_assoc; exact Heq).
    pose proof Hj as Hj'. rewrite Heq' in Hj'.
    apply in_app_or in Hj'. destruct Hj' as [Hjb|[Hje|Hja]].
    - (* j strictly before e: v cannot be in clique e *)
      apply in_split in Hjb. destruct Hjb as (m1 & m2 & Hm).
      rewrite Hm in Heq'. rewrite <- app_assoc in Heq'. cbn [app] in Heq'.
      apply (sn_not_later p t V _ _ _ v e Heq' Hv).
      + apply in_or_app. right. left. reflexivity.
      + exact Hve.
    - (* e = j *)
      subst e. exact (Hnx Hxe).
    - (* e strictly before j: both x and v are in the separator of e, go to the parent *)
      apply in_split in Hja. destruct Hja as (m1 & m2 & Hm).
      assert (Hord : forall a b, In a (sn t e) -> In b (sn t j) -> (a < b)%N).
      { apply (sn_order p t V (pre ++ l1) e m1 j m2). rewrite Heq', Hm. reflexivity. }
      assert (Hi0 : In i0 (sn t j)) by (rewrite Hsn; left; reflexivity).
      assert (Hxs : In x (sp t e)).
      { unfold clique in Hxe. apply in_app_or in Hxe. destruct Hxe as [Hxe|Hxe]; [|exact Hxe].
        pose proof (Hord x i0 Hxe Hi0). lia. }
      assert (Hvs : In v (sp t e)).
      { unfold clique in Hve. apply in_app_or in Hve. destruct Hve as [Hve|Hve]; [|exact Hve].
        pose proof (Hord v v Hve Hv). lia. }
      assert (Hne : l2 <> []) by (rewrite Hm; intros Hnil; apply app_eq_nil in Hnil; destruct Hnil; discriminate).
      destruct (vt_parent p t V _ _ _ Heq' Hne) as (q & Hq & Hqin).
      assert (Hein : In e (post t)) by (rewrite Heq'; apply in_or_app; right; left; reflexivity).
      pose proof (proj1 (vt_sep p t V e q Hein Hq x) Hxs) as [_ Hxq].
      pose proof (proj1 (vt_sep p t V e q Hein Hq v) Hvs) as [_ Hvq].
      apply (IHn (length l2)) with (suf := l2) (pre := (pre ++ l1) ++ [e]) (e := q).
      + rewrite <- Hlen. rewrite app_length. cbn [length]. lia.
      + reflexivity.
      + rewrite <- app_assoc. exact Heq'.
      + exact Hqin.
      + exact Hxq.
      + exact Hvq.
  Qed.
End Walk.

(** * (c) main theorem: the positions written by the completion lie outside every clique block *)
Theorem completion_preserves : forall p t, ValidTree p t ->
  forall j v x i0 rest, In j (post t) -> sn t j = i0 :: rest -> In v (sn t j) ->
    (i0 < x)%N -> ~ In x (clique t j) ->
    forall d, In d (post t) -> ~ (In x (clique t d) /\ In v (clique t d)).
Proof.
  intros p t V j v x i0 rest Hj Hsn Hv Hx Hnx d Hd [Hxd Hvd].
  exact (walk p t V j v x i0 rest Hj Hsn Hv Hx Hnx (length (post t)) (post t) [] eq_refl eq_refl d Hd Hxd Hvd).
Qed.

(** * corollary in the original numbering: outside the aggregate sparsity pattern *)

Lemma vertices_lt n u : In u (vertices n) -> (u < n)%N.
Proof.
  unfold vertices. intros H. apply in_map_iff in H. destruct H as (m & <- & Hm).
  apply in_seq in Hm. lia.
Qed.

(** every vertex of every live clique is a genuine vertex (separators hold no junk) *)
Lemma clique_in_range p t (V : ValidTree p t) :
  forall n suf pre, length suf = n -> post t = pre ++ suf ->
  forall c, In c suf -> forall u, In u (clique t c) -> In u (vertices (pn p)).
Proof.
  induction n as [n IHn] using lt_wf_ind. intros suf pre Hlen Heq c Hin u Hu.
  apply in_split in Hin. destruct Hin as (l1 & l2 & Hs). subst suf.
  assert (Heq' : post t = (pre ++ l1) ++ c :: l2) by (rewrite <- app_assoc; exact Heq).
  assert (Hcin : In c (post t)) by (rewrite Heq'; apply in_or_app; right; left; reflexivity).
  unfold clique in Hu. apply in_app_or in Hu. destruct Hu as [Hu|Hu].
  - rewrite <- (vt_partition p t V). apply in_concat. exists (sn t c). split; [|exact Hu].
    apply in_map. exact Hcin.
  - destruct l2 as [|d l2].
    + destruct (vt_root p t V) as (pre0 & r & Hpost & _ & Hr).
      rewrite Hpost in Heq'. apply app_inj_tail in Heq'. destruct Heq' as [_ E]. subst r.
      rewrite Hr in Hu. destruct Hu.
    + destruct (vt_parent p t V _ _ _ Heq') as (q & Hq & Hqin); [discriminate|].
      pose proof (proj1 (vt_sep p t V c q Hcin Hq u) Hu) as [_ Huq].
      apply (IHn (length (d :: l2))) with (suf := d :: l2) (pre := (pre ++ l1) ++ [c]) (c := q).
      * rewrite <- Hlen. rewrite app_length. cbn [length]. lia.
      * reflexivity.
      * rewrite <- app_assoc. exact Heq'.
      * exact Hqin.
      * exact Huq.
Qed.

Lemma clique_lt p t (V : ValidTree p t) c u :
  In c (post t) -> In u (clique t c) -> (u < pn p)%N.
Proof.
  intros Hc Hu. apply vertices_lt.
  exact (clique_in_range p t V (length (post t)) (post t) [] eq_refl eq_refl c Hc u Hu).
Qed.

(** [ord] is injective on 0..n-1 *)
Lemma ord_inj p t (V : ValidTree p t) a b :
  (a < pn p)%N -> (b < pn p)%N -> ord t a = ord t b -> a = b.
Proof.
  intros Ha Hb E. pose proof (vt_ordering p t V) as HP.
  assert (Hnd : NoDup (ordering t)) by (eapply Permutation_NoDup; [exact HP | apply vertices_nodup]).
  assert (Hlen : length (ordering t) = N.to_nat (pn p)).
  { rewrite <- (Permutation_length HP). apply vertices_length. }
  unfold ord in E. apply N2Nat.inj.
  apply (proj1 (NoDup_nth (ordering t) 0%N) Hnd); [lia | lia | exact E].
Qed.

Theorem completion_outside_pattern : forall p t, ValidTree p t ->
  forall j v x i0 rest, In j (post t) -> sn t j = i0 :: rest -> In v (sn t j) ->
    (i0 < x)%N -> ~ In x (clique t j) -> (x < pn p)%N -> (v < pn p)%N ->
    ~ In (ord t x, ord t v) (pedges p) /\ ~ In (ord t v, ord t x) (pedges p).
Proof.
  intros p t V j v x i0 rest Hj Hsn Hv Hx Hnx Hxn Hvn.
  assert (G : forall c, In c (post t) -> In (ord t x) (oclique t c) -> In (ord t v) (oclique t c) -> False).
  { intros c Hc Hxc Hvc. unfold oclique in Hxc, Hvc.
    apply in_map_iff in Hxc. destruct Hxc as (x' & Ex & Hx').
    apply in_map_iff in Hvc. destruct Hvc as (v' & Ev & Hv').
    assert (x' = x) by (apply (ord_inj p t V); [exact (clique_lt p t V c x' Hc Hx') | exact Hxn | exact Ex]).
    assert (v' = v) by (apply (ord_inj p t V); [exact (clique_lt p t V c v' Hc Hv') | exact Hvn | exact Ev]).
    subst x' v'.
    exact (completion_preserves p t V j v x i0 rest Hj Hsn Hv Hx Hnx c Hc (conj Hx' Hv')). }
  split; intros He; destruct (vt_cover p t V _ _ He) as (c & Hc & H1 & H2).
  - exact (G c Hc H1 H2).
  - exact (G c Hc H2 H1).
Qed.

(** * a concrete instance: the path 0 - 1 - 2, cliques {0,1} (leaf) and {1,2} (root) *)
Definition ex_t : tree :=
  mkTree [[0]; [1; 2]]%N [[1]; []]%N [Par 1%N; Root] [0; 1]%N [2; 2]%N [0; 1; 2]%N 2%N.
Definition ex_p : pat := mkPat 3%N [(0, 1); (1, 2)]%N.

Lemma ex_valid : ValidTree ex_p ex_t.
Proof. apply (check_tree_sound ex_p ex_t). vm_compute. reflexivity. Qed.

(** clique j = 0 has nu = [0], alpha = [1]; eta = {2}: position (x = 2, v = 0) is written by the
    completion and belongs to no clique block and not to the pattern *)
Example ex_completion_position :
  (forall d, In d (post ex_t) -> ~ (In 2%N (clique ex_t d) /\ In 0%N (clique ex_t d)))
  /\ ~ In (ord ex_t 2%N, ord ex_t 0%N) (pedges ex_p)
  /\ ~ In (ord ex_t 0%N, ord ex_t 2%N) (pedges ex_p).
Proof.
  assert (Hj : In 0%N (post ex_t)) by (left; reflexivity).
  assert (Hsn : sn ex_t 0%N = 0%N :: []) by reflexivity.
  assert (Hv : In 0%N (sn ex_t 0%N)) by (left; reflexivity).
  assert (Hx : (0 < 2)%N) by lia.
  assert (Hnx : ~ In 2%N (clique ex_t 0%N)).
  { vm_compute. intros [H|[H|[]]]; discriminate. }
  split.
  - exact (completion_preserves ex_p ex_t ex_valid 0%N 0%N 2%N 0%N [] Hj Hsn Hv Hx Hnx).
  - apply (completion_outside_pattern ex_p ex_t ex_valid 0%N 0%N 2%N 0%N [] Hj Hsn Hv Hx Hnx).
    + vm_compute. reflexivity.
    + vm_compute. reflexivity.
Qed.

Print Assumptions completion_preserves.
Print Assumptions completion_outside_pattern.
Print Assumptions ex_completion_position.
