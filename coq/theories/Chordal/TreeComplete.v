(** Completeness of [check_tree]: every valid tree is accepted, so a rejection by the checker
    is a genuine violation of [ValidTree] and never a weakness of the checker. *)
From Coq Require Import List Arith NArith Lia Bool Permutation.
Import ListNotations.
Require Import Clarabel.Chordal.TreeSpec Clarabel.Chordal.TreeLemmas.

Lemma chk_chain_complete t l : chain_ok t l -> chk_chain t l = true.
Proof.
  induction l as [|c suf IH]; intros [Hroot Hch].
  - destruct Hroot as (pre & r & Hl & _). destruct pre; discriminate.
  - destruct suf as [|c2 suf2].
    + destruct Hroot as (pre & r & Hl & Hr & Hs).
      assert (r = c).
      { destruct pre as [|x pre]; cbn in Hl; [injection Hl as ->; reflexivity|].
        injection Hl as _ Hl. destruct pre; discriminate. }
      subst r. cbn [chk_chain]. rewrite Hr, Hs. reflexivity.
    + destruct (Hch [] c (c2 :: suf2) eq_refl ltac:(discriminate)) as (q & Hq & Hqin & Hsp & Hsn & Hrip).
      change (chk_chain t (c :: c2 :: suf2)) with
        (match pa t c with
         | Par q =>
            let cq := clique t q in
            mem q (c2 :: suf2)
            && forallb (fun v => mem v cq) (sp t c)
            && forallb (fun v => negb (mem v cq)) (sn t c)
            && forallb (fun v => implb (existsb (fun d => mem v (clique t d)) (c2 :: suf2)) (mem v cq)) (clique t c)
            && chk_chain t (c2 :: suf2)
         | _ => false end).
      rewrite Hq. cbv zeta. repeat (apply andb_true_iff; split).
      * apply mem_In. exact Hqin.
      * apply forallb_forall. intros v Hv. apply mem_In. apply Hsp. exact Hv.
      * apply forallb_forall. intros v Hv. apply negb_true_iff. apply mem_false. apply Hsn. exact Hv.
      * apply forallb_forall. intros v Hv.
        destruct (existsb (fun d => mem v (clique t d)) (c2 :: suf2)) eqn:Eex; [|reflexivity].
        cbn [implb]. apply existsb_exists in Eex. destruct Eex as (d & Hd & Hvd). apply mem_In in Hvd.
        apply mem_In. exact (Hrip d v Hd Hv Hvd).
      * apply IH. split.
        -- destruct Hroot as (pre & r & Hl & Hr & Hs). destruct pre as [|x pre]; cbn in Hl; [discriminate|].
           injection Hl as _ Hl. exists pre, r. repeat split; assumption.
        -- intros pre c' suf' Heq Hne. apply (Hch (c :: pre) c' suf'); [cbn; rewrite Heq; reflexivity | exact Hne].
Qed.

Lemma valid_chain_ok p t : ValidTree p t -> chain_ok t (post t).
Proof.
  intros V. split; [exact (vt_root p t V)|].
  intros pre c suf Heq Hne. destruct (vt_parent p t V pre c suf Heq Hne) as (q & Hq & Hqin).
  assert (Hc : In c (post t)) by (rewrite Heq; apply in_or_app; right; left; reflexivity).
  exists q. split; [exact Hq|]. split; [exact Hqin|]. split; [|split].
  - intros v Hv. apply (vt_sep p t V c q Hc Hq) in Hv. tauto.
  - intros v Hv Hvq.
    assert (Hvs : In v (sp t c)).
    { apply (vt_sep p t V c q Hc Hq). split; [unfold clique; apply in_or_app; left; exact Hv | exact Hvq]. }
    pose proof (vt_clique_nodup p t V c Hc) as Hnd. unfold clique in Hnd.
    clear - Hv Hvs Hnd. induction (sn t c) as [|x l IH]; [destruct Hv|].
    cbn in Hnd. inversion Hnd as [|? ? Hn Hnd']; subst. destruct Hv as [->|Hv].
    + apply Hn. apply in_or_app. right. exact Hvs.
    + exact (IH Hv Hnd').
  - intros d v Hd Hvc Hvd. exact (vt_rip p t V pre c suf q Heq Hq d v Hd Hvc Hvd).
Qed.

Theorem check_tree_complete : stmt_check_tree_complete.
Proof.
  intros p t V.
  assert (H1 : chk_perm (pn p) (ordering t) = true) by (apply chk_perm_complete; exact (vt_ordering p t V)).
  assert (H2 : N.eqb (ncl t) (N.of_nat (length (post t))) = true) by (apply N.eqb_eq; exact (vt_ncl p t V)).
  assert (H3 : chk_index t = true).
  { unfold chk_index. destruct (vt_lengths p t V) as [A B].
    apply andb_true_iff; split; [apply andb_true_iff; split|].
    - apply Nat.eqb_eq. exact A.
    - apply Nat.eqb_eq. exact B.
    - apply forallb_forall. intros c Hc. apply Nat.ltb_lt. exact (vt_index p t V c Hc). }
  assert (H4 : nodupb (post t) = true) by (apply nodupb_complete; exact (vt_post_nodup p t V)).
  assert (H5 : nlist_eqb (concat (map (sn t) (post t))) (vertices (pn p)) = true) by (apply nlist_eqb_eq; exact (vt_partition p t V)).
  assert (H6 : forallb (fun c => nodupb (clique t c)) (post t) = true).
  { apply forallb_forall. intros c Hc. apply nodupb_complete. exact (vt_clique_nodup p t V c Hc). }
  assert (H7 : chk_cover p t = true).
  { unfold chk_cover. apply forallb_forall. intros [i j] Hin.
    destruct (vt_cover p t V i j Hin) as (c & Hc & Hi & Hj).
    apply existsb_exists. exists (oclique t c). split; [apply in_map; exact Hc|].
    cbn [fst snd]. apply andb_true_iff. split; apply mem_In; assumption. }
  assert (H8 : chk_chain t (post t) = true) by (apply chk_chain_complete; apply (valid_chain_ok p t V)).
  assert (H9 : nlist_eqb (nblk t) (map (fun c => N.of_nat (length (clique t c))) (post t)) = true) by (apply nlist_eqb_eq; exact (vt_nblk p t V)).
  unfold check_tree. rewrite H1, H2, H3, H4, H5, H6, H7, H8, H9. reflexivity.
Qed.
