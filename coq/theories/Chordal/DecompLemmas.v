(** Proofs about the decomposition model (Chordal/Decomp.v) for every valid clique tree. *)
From Coq Require Import List Arith ZArith NArith Lia Bool Permutation.
Import ListNotations.
Require Import Clarabel.Chordal.TreeSpec Clarabel.Chordal.TreeLemmas Clarabel.Chordal.TriIndex
               Clarabel.Chordal.E2E Clarabel.Chordal.Decomp.

(** * every pair of vertices lying in a common clique is a NON-overlap entry of exactly one
    clique (compact form: each original entry is placed exactly once; all its other
    occurrences are overlap entries tied to the parent block) *)
Definition overlap_in (t : tree) (c u v : N) : Prop := In u (sp t c) /\ In v (sp t c).

Lemma pair_top_unique p t : ValidTree p t ->
  forall u v c d, In c (post t) -> In d (post t) ->
  In u (clique t c) -> In v (clique t c) -> In u (clique t d) -> In v (clique t d) ->
  ~ overlap_in t c u v -> ~ overlap_in t d u v -> c = d.
Proof.
  intros V u v.
  assert (G : forall c d, In c (post t) -> In d (post t) ->
    In u (clique t c) -> In v (clique t c) -> In u (clique t d) -> In v (clique t d) ->
    forall l1 l2, post t = l1 ++ c :: l2 -> In d l2 -> overlap_in t c u v).
  { intros c d Hc Hd Huc Hvc Hud Hvd l1 l2 Heq Hdl.
    assert (Hne : l2 <> []) by (intros ->; destruct Hdl).
    destruct (vt_parent p t V _ _ _ Heq Hne) as (q & Hq & _).
    pose proof (vt_rip p t V _ _ _ _ Heq Hq d u Hdl Huc Hud) as Huq.
    pose proof (vt_rip p t V _ _ _ _ Heq Hq d v Hdl Hvc Hvd) as Hvq.
    split; apply (vt_sep p t V c q Hc Hq); split; assumption. }
  intros c d Hc Hd Huc Hvc Hud Hvd Hnc Hnd.
  destruct (N.eq_dec c d) as [E|NE]; [exact E|exfalso].
  pose proof Hc as Hc'. apply in_split in Hc'. destruct Hc' as (l1 & l2 & Heq).
  assert (Hd' : In d (l1 ++ c :: l2)) by (rewrite <- Heq; exact Hd).
  apply in_app_or in Hd'. destruct Hd' as [Hd'|[Hd'|Hd']].
  - apply in_split in Hd'. destruct Hd' as (m1 & m2 & Hm).
    apply Hnd. apply (G d c Hd Hc Hud Hvd Huc Hvc m1 (m2 ++ c :: l2)).
    + rewrite Heq, Hm, <- app_assoc. reflexivity.
    + apply in_or_app. right. left. reflexivity.
  - exact (NE Hd').
  - apply Hnc. exact (G c d Hc Hd Huc Hvc Hud Hvd l1 l2 Heq Hd').
Qed.

Lemma pair_top_exists p t : ValidTree p t ->
  forall u v c, In c (post t) -> In u (clique t c) -> In v (clique t c) ->
  exists d, In d (post t) /\ In u (clique t d) /\ In v (clique t d) /\ ~ overlap_in t d u v.
Proof.
  intros V u v.
  assert (G : forall n suf pre, length suf = n -> post t = pre ++ suf -> forall c, In c suf ->
     In u (clique t c) -> In v (clique t c) ->
     exists d, In d (post t) /\ In u (clique t d) /\ In v (clique t d) /\ ~ overlap_in t d u v).
  { induction n as [n IHn] using lt_wf_ind. intros suf pre Hlen Heq c Hin Hu Hv.
    assert (Hcp : In c (post t)) by (rewrite Heq; apply in_or_app; right; exact Hin).
    apply in_split in Hin. destruct Hin as (l1 & l2 & Hs). subst suf.
    destruct l2 as [|e l2].
    - exists c. repeat split; try assumption. intros [Hus _].
      destruct (vt_root p t V) as (pre0 & r & Hp & _ & Hsr).
      assert (c = r).
      { rewrite Hp in Heq. rewrite app_assoc in Heq. apply app_inj_tail in Heq. destruct Heq as [_ E]. symmetry; exact E. }
      subst c. rewrite Hsr in Hus. destruct Hus.
    - assert (Heq' : post t = (pre ++ l1) ++ c :: e :: l2) by (rewrite <- app_assoc; exact Heq).
      destruct (vt_parent p t V _ _ _ Heq') as (q & Hq & Hqin); [discriminate|].
      destruct (mem u (sp t c) && mem v (sp t c)) eqn:Eov.
      + apply andb_true_iff in Eov. destruct Eov as [E1 E2]. apply mem_In in E1. apply mem_In in E2.
        apply (vt_sep p t V c q Hcp Hq) in E1. apply (vt_sep p t V c q Hcp Hq) in E2.
        apply (IHn (length (e :: l2))) with (suf := e :: l2) (pre := (pre ++ l1) ++ [c]) (c := q); try tauto.
        * rewrite <- Hlen. rewrite app_length. cbn [length]. lia.
        * rewrite <- app_assoc. exact Heq'.
      + exists c. repeat split; try assumption. intros [H1 H2].
        apply mem_In in H1. apply mem_In in H2. rewrite H1, H2 in Eov. discriminate. }
  intros c Hc Hu Hv. apply (G (length (post t)) (post t) [] eq_refl eq_refl c Hc Hu Hv).
Qed.

(** * the standard-form H reaches every structural nonzero of a decomposed cone *)
Lemma ins_by_In {A} (key : A -> N) x y l : In y (ins_by key x l) <-> y = x \/ In y l.
Proof.
  induction l as [|z l IH]; cbn [ins_by].
  - cbn. intuition.
  - destruct (key x <=? key z)%N; cbn [In]; [intuition|]. rewrite IH. cbn [In]. intuition.
Qed.
Lemma sort_by_In {A} (key : A -> N) y l : In y (sort_by key l) <-> In y l.
Proof.
  induction l as [|x l IH]; cbn [sort_by fold_right]; [reflexivity|].
  fold (sort_by key l). rewrite ins_by_In, IH. cbn [In]. intuition.
Qed.

Lemma subblock_In c row0 i j : In i c -> In j c -> (i <= j)%N ->
  In (row0 + coord_to_idx (i, j))%N (subblock c row0).
Proof.
  intros Hi Hj Hij. unfold subblock. apply in_flat_map. exists j. split; [exact Hj|].
  apply in_map_iff. exists i. split; [reflexivity|]. apply filter_In. split; [exact Hi|].
  apply N.leb_le. exact Hij.
Qed.

Theorem std_H_covers : forall p t row0, ValidTree p t ->
  forall i j, In (i, j) (pedges p) -> (i <= j)%N ->
  exists c, In c (post t) /\ In (row0 + coord_to_idx (i, j))%N (subblock (ocl t c) row0).
Proof.
  intros p t row0 V i j Hin Hij. destruct (vt_cover p t V i j Hin) as (c & Hc & Hi & Hj).
  exists c. split; [exact Hc|]. apply subblock_In; try exact Hij; unfold ocl, nsort; apply sort_by_In; assumption.
Qed.

(** diagonal entries: every vertex is in a supernode, hence in a clique block *)
Theorem std_H_covers_diag : forall p t row0, ValidTree p t ->
  forall v, In v (vertices (pn p)) ->
  exists c, In c (post t) /\ In (row0 + coord_to_idx (ord t v, ord t v))%N (subblock (ocl t c) row0).
Proof.
  intros p t row0 V v Hv. destruct (valid_vertex_cover p t V v Hv) as (c & Hc & Hin).
  exists c. split; [exact Hc|]. apply subblock_In; [| |lia]; unfold ocl, nsort; apply sort_by_In;
    unfold oclique, clique; apply in_map; apply in_or_app; left; exact Hin.
Qed.

(** every H entry of a clique block stays inside the rows of its cone *)
Theorem subblock_in_range : forall c row0 n, (forall v, In v c -> (v < n)%N) ->
  forall r, In r (subblock c row0) -> (row0 <= r < row0 + tri_number n)%N.
Proof.
  intros c row0 n Hc r Hr. unfold subblock in Hr. apply in_flat_map in Hr.
  destruct Hr as (j & Hj & Hr). apply in_map_iff in Hr. destruct Hr as (i & <- & Hi).
  apply filter_In in Hi. destruct Hi as [Hi Hij]. apply N.leb_le in Hij.
  pose proof (coord_to_idx_lt i j n Hij (Hc j Hj)). lia.
Qed.

(** * reversal returns vectors of the original size (standard form) *)
Lemma nseq_length a k : length (nseq a k) = N.to_nat k.
Proof. unfold nseq. rewrite map_length, seq_length. reflexivity. Qed.
Theorem std_rev_lengths : forall m HI s1 z1,
  length (std_rev_s m HI s1) = N.to_nat m /\ length (std_rev_z m HI z1) = N.to_nat m.
Proof.
  intros m HI s1 z1. unfold std_rev_s, std_rev_z, Hcount, Hmul. split.
  - rewrite map_length. apply nseq_length.
  - rewrite map_length, combine_length, !map_length, nseq_length. lia.
Qed.
Lemma upd_length {A} (l : list A) i f : length (upd l i f) = length l.
Proof. unfold upd. rewrite map_length, combine_length, seq_length. lia. Qed.

(** s = H s1 is the SUM of the clique-block entries mapped to a row: one block only *)
Theorem std_rev_s_single : forall m HI s1 r k,
  (r < m)%N -> nth_error HI k = Some r -> (forall k', k' <> k -> nth_error HI k' <> Some r) ->
  length s1 = length HI ->
  nth (N.to_nat r) (std_rev_s m HI s1) 0%Z = nth k s1 0%Z.
Proof.
  intros m HI s1 r k Hr Hk Huniq Hlen. unfold std_rev_s, Hmul.
  assert (Hn : nth (N.to_nat r) (nseq 0 m) 0%N = r).
  { unfold nseq. rewrite (nth_indep _ 0%N (0 + N.of_nat 0)%N) by (rewrite map_length, seq_length; lia).
    rewrite (map_nth (fun i => (0 + N.of_nat i)%N)). rewrite seq_nth by lia. lia. }
  rewrite (nth_indep _ 0%Z ((fun r0 => fold_left (fun acc hv => if N.eqb (fst hv) r0 then (acc + snd hv)%Z else acc) (combine HI s1) 0%Z) 0%N))
    by (rewrite map_length, nseq_length; lia).
  rewrite (map_nth (fun r0 => fold_left (fun acc hv => if N.eqb (fst hv) r0 then (acc + snd hv)%Z else acc) (combine HI s1) 0%Z)).
  rewrite Hn. clear Hn.
  (* generalise over the list position *)
  assert (G : forall HI s1 k acc, nth_error HI k = Some r -> (forall k', k' <> k -> nth_error HI k' <> Some r) ->
     length s1 = length HI ->
     fold_left (fun acc hv => if N.eqb (fst hv) r then (acc + snd hv)%Z else acc) (combine HI s1) acc = (acc + nth k s1 0)%Z).
  { clear. induction HI as [|h HI IH]; intros s1 k acc Hk Hu Hl; [destruct k; discriminate|].
    destruct s1 as [|x s1]; [discriminate|]. cbn [combine fold_left fst snd].
    destruct k as [|k].
    - cbn in Hk. injection Hk as ->. rewrite N.eqb_refl. cbn [nth].
      assert (Hz : forall acc, fold_left (fun acc hv => if N.eqb (fst hv) r then (acc + snd hv)%Z else acc) (combine HI s1) acc = acc).
      { assert (Hu' : forall k', nth_error HI k' <> Some r) by (intros k'; apply (Hu (S k')); discriminate).
        clear - Hu'. revert s1. induction HI as [|h HI IH]; intros s1 acc; [reflexivity|].
        destruct s1 as [|x s1]; [reflexivity|]. cbn [combine fold_left fst snd].
        destruct (N.eqb h r) eqn:E; [apply N.eqb_eq in E; subst; exfalso; apply (Hu' 0%nat); reflexivity|].
        apply IH. intros k'. apply (Hu' (S k')). }
      apply Hz.
    - cbn in Hk. destruct (N.eqb h r) eqn:E.
      + apply N.eqb_eq in E. subst h. exfalso. apply (Hu 0%nat); [discriminate|reflexivity].
      + cbn [nth]. apply IH; [exact Hk| |cbn in Hl; lia].
        intros k' Hne. apply (Hu (S k')). congruence. }
  rewrite (G HI s1 k 0%Z Hk Huniq Hlen). lia.
Qed.
