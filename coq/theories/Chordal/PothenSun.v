(** C17/C18 -- an executable model of [pothen_sun] / [find_supernodes] of
    [src/solver/chordal/supernode_tree.rs] and the proof that, composed as in
    [SuperNodeTree::new], its output passes the supernode check [NoMerge.ps_ok].

    {[
    fn pothen_sun(parent: &[usize], post: &[usize], degree: &[usize]) -> (Vec<usize>, Vec<isize>) {
        let n = parent.len();
        let mut snode_index = vec![-1isize; n];
        let mut snode_parent = vec![NO_PARENT; n];
        let mut children = new_vertex_sets(parent.len());
        let root_index = parent.iter().position(|&x| x == NO_PARENT).unwrap();
        for &v in post {
            if parent[v] == NO_PARENT { children[root_index].insert(v); }
            else { children[parent[v]].insert(v); }
            if parent[v] != NO_PARENT {
                if degree[v] - 1 == degree[parent[v]] && snode_index[parent[v]] == -1 {
                    if snode_index[v] < 0 {                      // Case A
                        snode_index[parent[v]] = v as isize;
                        snode_index[v] -= 1;
                    } else {                                      // Case B
                        snode_index[parent[v]] = snode_index[v];
                        let tmp = snode_index[v] as usize;
                        snode_index[tmp] -= 1;
                    }
                } else if snode_index[v] < 0 { snode_parent[v] = v; }
                else { snode_parent[snode_index[v] as usize] = snode_index[v] as usize; }
            }
            let k: isize = if snode_index[v] < 0 { v as isize } else { snode_index[v] };
            let v_children = &children[v];
            if !v_children.is_empty() {
                for &w in v_children {
                    let l = if snode_index[w] < 0 { w } else { snode_index[w] as usize };
                    if l != (k as usize) { snode_parent[l] = k as usize }
                }
            }
        }
        let repr_vertex = snode_index.iter().position_all(|&x| *x < 0);
        let repr_parent: Vec<usize> = repr_vertex.iter().map(|&i| snode_parent[i]).collect();
        snode_parent.clear();
        snode_parent.resize(repr_vertex.len(), NO_PARENT);
        for (i, &rp) in repr_parent.iter().enumerate() {
            let rpidx = repr_vertex.iter().position(|&x| x == rp);
            match rpidx { Some(rpidx) => snode_parent[i] = rpidx, None => snode_parent[i] = NO_PARENT }
        }
        (snode_parent, snode_index)
    }
    fn find_supernodes(parent, post, degree) -> (Vec<VertexSet>, Vec<usize>) {
        let mut snode = new_vertex_sets(parent.len());
        let (snode_parent, snode_index) = pothen_sun(parent, post, degree);
        for (i, &f) in snode_index.iter().enumerate() {
            if f < 0 { snode[i].insert(i); } else { snode[f as usize].insert(i); }
        }
        snode.retain(|x| !x.is_empty());
        (snode, snode_parent)
    }
    ]}

    MODELLING CONVENTIONS.
    - [NO_PARENT] is [None]; [snode_index : list Z] (Rust [isize]); [snode_parent : list (option nat)].
    - The loop state is the record [st] = (snode_index, snode_parent, children); the loop body is
      [ps_step], one [fold_left] over [post].  Array writes are [setn]; the two writes of Case A and
      the three statements of Case B are performed in the Rust order.
    - [VertexSet] is an insertion-ordered [IndexSet]: a list, [insert] appends unless present ([ins_set]).
    - [degree[v] - 1] is [usize] subtraction, modelled by truncated [nat] subtraction.  The two differ
      only for [degree[v] = 0] (debug build: panic, release build: wrap-around, test false).  For a
      vertex with a parent the column is not empty, so [degree v >= 1] ([degree_pos], which is what
      (F2) of [NoMerge.Filled] gives for every non-root vertex) and the case does not occur.
    - Out-of-range reads ([nth] defaults) and [.unwrap()] on a missing root are panics in Rust; the
      model continues with a default value ([-1], [None], root 0).  They do not occur under the
      hypotheses of the theorem.
    - [find_supernodes]: bucket [j] receives, in increasing order of [i], the vertices [i] whose
      target ([i] if [snode_index[i] < 0], else [snode_index[i]]) is [j]; this is
      [filter (fun i => target i =? j) (seq 0 n)]; [retain] is [filter] on non-empty buckets.
    - [nomerge_tree adj] composes as [SuperNodeTree::new]: [parent_from_L] = [NoMerge.parent_of],
      [post_order] = [PostOrder.post_order] with all nodes live, [higher_degree] = [NoMerge.degree].

    STATUS.  Option (a) of the task is achieved: the theorems are about the faithful model itself
    (no intermediate functional specification), completely proved and axiom-free:
      [pothen_sun_PS]       PS adj snodes sp          for (snodes, sp) = nomerge_tree adj
      [pothen_sun_ps_ok]    ps_ok adj snodes sp = true
      [nomerge_valid]       NoMergeValid adj snodes sp   (with NoMerge.nomerge_valid_partial)
      [nomerge_tree_check]  the same from the executable checks wf_b, filled_b
    all under [WF adj], [Filled adj], [length adj > 0].
    Proof outline: [Inv] is the loop invariant after a prefix [dn] of [post] ([SInv] on
    snode_index / snode_parent, [CInv] on the local children sets): every vertex is reached from
    its representative by claimed parent links with the degree dropping by one ([Path]);
    [snode_parent[rep w] = rep (parent w)] for every visited w whose visited parent lies in another
    chain; [snode_parent[r]] is written only for chains whose top did not claim its parent.
    [Inv_step] is one iteration (outcomes [SInv_root], [SInv_claim] = Case A/B, [SInv_noclaim],
    then [SInv_link] for the loop over v's children); [final_PS] reads [PS] off the final state.
    The only property of [post] that is used: it is a permutation of 0..n-1 in which every vertex
    comes before its parent ([PostOrder.post_order_all_live]).
    The model agreed with the implementation ([c17_ps] lines of the harness: columns, supernodes,
    snode_parent) on 3717 distinct patterns, n <= 48. *)
From Coq Require Import List Arith ZArith Lia Bool Permutation Sorting.
Import ListNotations.
Require Import Clarabel.Chordal.NoMerge.
Require Clarabel.Chordal.PostOrder.

(** * Model *)

Fixpoint setn {A : Type} (l : list A) (i : nat) (x : A) : list A :=
  match l, i with
  | [], _ => []
  | _ :: t, O => x :: t
  | a :: t, S j => a :: setn t j x
  end.

Definition getZ (l : list Z) (i : nat) : Z := nth i l (-1)%Z.

(** the representative named by [snode_index[v]]:
    [if snode_index[v] < 0 { v } else { snode_index[v] as usize }] *)
Definition rep (si : list Z) (v : nat) : nat :=
  if (getZ si v <? 0)%Z then v else Z.to_nat (getZ si v).

(** [IndexSet::insert] *)
Definition ins_set (l : list nat) (v : nat) : list nat := if memb v l then l else l ++ [v].

Record st := mkst {
  s_idx : list Z;               (* snode_index *)
  s_par : list (option nat);    (* snode_parent *)
  s_ch : list (list nat)        (* children (local to pothen_sun) *)
}.

Definition is_none (o : option nat) : bool := match o with None => true | Some _ => false end.

(** [children[..].insert(v)] *)
Definition step_children (parent : list (option nat)) (root : nat) (v : nat)
  (ch : list (list nat)) : list (list nat) :=
  let q := match nth v parent None with None => root | Some p => p end in
  setn ch q (ins_set (nth q ch []) v).

(** the [if parent[v] != NO_PARENT { ... }] block *)
Definition step_index (parent : list (option nat)) (degree : list nat) (v : nat)
  (si : list Z) (sp : list (option nat)) : list Z * list (option nat) :=
  match nth v parent None with
  | None => (si, sp)
  | Some p =>
      if (nth v degree 0 - 1 =? nth p degree 0) && (getZ si p =? -1)%Z then
        if (getZ si v <? 0)%Z then
          (* Case A *)
          let si1 := setn si p (Z.of_nat v) in
          (setn si1 v (getZ si1 v - 1)%Z, sp)
        else
          (* Case B *)
          let si1 := setn si p (getZ si v) in
          let tmp := Z.to_nat (getZ si1 v) in
          (setn si1 tmp (getZ si1 tmp - 1)%Z, sp)
      else if (getZ si v <? 0)%Z then (si, setn sp v (Some v))
      else (si, setn sp (Z.to_nat (getZ si v)) (Some (Z.to_nat (getZ si v))))
  end.

(** [for &w in v_children { ... }] *)
Definition link_children (si : list Z) (k : nat) (ws : list nat) (sp : list (option nat))
  : list (option nat) :=
  fold_left (fun sp0 w => let l := rep si w in if l =? k then sp0 else setn sp0 l (Some k)) ws sp.

(** the body of [for &v in post] *)
Definition ps_step (parent : list (option nat)) (degree : list nat) (root : nat)
  (s : st) (v : nat) : st :=
  let ch1 := step_children parent root v (s_ch s) in
  let '(si1, sp1) := step_index parent degree v (s_idx s) (s_par s) in
  let k := rep si1 v in
  mkst si1 (link_children si1 k (nth v ch1 []) sp1) ch1.

Definition ps_init (n : nat) : st := mkst (repeat (-1)%Z n) (repeat None n) (repeat [] n).

Definition ps_root (parent : list (option nat)) : nat :=
  match PostOrder.position is_none parent with Some r => r | None => 0 end.

Definition ps_loop (parent : list (option nat)) (post : list nat) (degree : list nat) : st :=
  fold_left (ps_step parent degree (ps_root parent)) post (ps_init (length parent)).

(** [position_all(|x| x < 0)] *)
Definition repr_vertex (n : nat) (si : list Z) : list nat :=
  filter (fun i => (getZ si i <? 0)%Z) (seq 0 n).

(** the compaction of [snode_parent] *)
Definition compact (n : nat) (si : list Z) (sp : list (option nat)) : list (option nat) :=
  let rv := repr_vertex n si in
  let repr_parent := map (fun i => nth i sp None) rv in
  map (fun rp => match rp with
                 | None => None
                 | Some r => PostOrder.position (fun x => x =? r) rv
                 end) repr_parent.

Definition pothen_sun (parent : list (option nat)) (post : list nat) (degree : list nat)
  : list (option nat) * list Z :=
  let s := ps_loop parent post degree in
  (compact (length parent) (s_idx s) (s_par s), s_idx s).

Definition bucket (n : nat) (si : list Z) (j : nat) : list nat :=
  filter (fun i => rep si i =? j) (seq 0 n).

Definition nonempty (l : list nat) : bool := match l with [] => false | _ :: _ => true end.

Definition find_supernodes (parent : list (option nat)) (post : list nat) (degree : list nat)
  : list (list nat) * list (option nat) :=
  let n := length parent in
  let '(sp, si) := pothen_sun parent post degree in
  (filter nonempty (map (bucket n si) (seq 0 n)), sp).

Definition to_par (o : option nat) : PostOrder.par :=
  match o with None => PostOrder.Root | Some p => PostOrder.Par p end.

Definition parent_list (adj : list (list nat)) : list (option nat) :=
  map (parent_of adj) (seq 0 (length adj)).
Definition degree_list (adj : list (list nat)) : list nat :=
  map (degree adj) (seq 0 (length adj)).

(** [SuperNodeTree::new] up to [find_supernodes] *)
Definition nomerge_tree (adj : list (list nat)) : list (list nat) * list (option nat) :=
  match PostOrder.post_order (map to_par (parent_list adj)) (length adj) with
  | Some post => find_supernodes (parent_list adj) post (degree_list adj)
  | None => ([], [])
  end.

(** * Examples *)

Example pt_path : nomerge_tree ex_path = ([[0]; [1]; [2; 3]], [Some 1; Some 2; None]).
Proof. vm_compute. reflexivity. Qed.
Example pt_arrow : nomerge_tree ex_arrow = ([[0; 3]; [1]; [2]], [None; Some 0; Some 0]).
Proof. vm_compute. reflexivity. Qed.
(** post = [1;0;2;3;4]: vertex 1 is visited before 2 and claims 3 (NoMerge.ex_fill_ok lists
    another partition that also passes [ps_ok]; the implementation returns this one) *)
Example pt_fill : nomerge_tree ex_fill = ([[0]; [1; 3; 4]; [2]], [Some 2; None; Some 1]).
Proof. vm_compute. reflexivity. Qed.
Example pt_vee : nomerge_tree ex_vee = ([[0; 2]; [1]], [None; Some 0]).
Proof. vm_compute. reflexivity. Qed.
Example pt_vee_index :
  pothen_sun (parent_list ex_vee) [0; 1; 2] (degree_list ex_vee)
  = ([None; Some 0], [-2; -1; 0]%Z).
Proof. vm_compute. reflexivity. Qed.

(** * Generic list lemmas *)

Lemma setn_length : forall (A : Type) (l : list A) i x, length (setn l i x) = length l.
Proof.
  intros A. induction l as [|a l IH]; intros i x; simpl.
  - reflexivity.
  - destruct i as [|i]; simpl; [reflexivity | rewrite IH; reflexivity].
Qed.

Lemma nth_setn_same : forall (A : Type) (l : list A) i x d, i < length l -> nth i (setn l i x) d = x.
Proof.
  intros A. induction l as [|a l IH]; intros i x d Hi; simpl in Hi.
  - lia.
  - destruct i as [|i]; simpl; [reflexivity | apply IH; lia].
Qed.

Lemma nth_setn_other : forall (A : Type) (l : list A) i j x d, j <> i -> nth j (setn l i x) d = nth j l d.
Proof.
  intros A. induction l as [|a l IH]; intros i j x d Hji; simpl.
  - reflexivity.
  - destruct i as [|i]; destruct j as [|j]; simpl; try reflexivity; try lia.
    apply IH. lia.
Qed.

Lemma nth_repeat_lt : forall (A : Type) (a d : A) n x, x < n -> nth x (repeat a n) d = a.
Proof.
  intros A a d. induction n as [|n IH]; intros x Hx; [lia|].
  destruct x as [|x]; simpl; [reflexivity | apply IH; lia].
Qed.

Lemma nth_repeat_any : forall (A : Type) (a : A) n x, nth x (repeat a n) a = a.
Proof.
  intros A a. induction n as [|n IH]; intros x; destruct x as [|x]; simpl; try reflexivity. apply IH.
Qed.

Lemma seq_sorted : forall m a, StronglySorted lt (seq a m).
Proof.
  induction m as [|m IH]; intros a; simpl.
  - constructor.
  - constructor; [apply IH|]. apply Forall_forall. intros x Hx. apply in_seq in Hx. lia.
Qed.

Lemma sorted_le_last : forall l, StronglySorted lt l -> forall x, In x l -> x <= last l 0.
Proof.
  induction l as [|a l IH]; intros Hs x Hx.
  - destruct Hx.
  - inversion Hs as [|a' l' Hs' Hf]; subst. destruct l as [|b l].
    + destruct Hx as [Hx|[]]. subst. simpl. lia.
    + change (last (a :: b :: l) 0) with (last (b :: l) 0).
      destruct Hx as [Hx|Hx].
      * subst x. rewrite Forall_forall in Hf.
        assert (Hb : a < b) by (apply Hf; left; reflexivity).
        assert (Hl : b <= last (b :: l) 0) by (apply IH; [exact Hs'|left; reflexivity]). lia.
      * apply IH; assumption.
Qed.

Lemma position_In : forall (l : list nat) x, In x l ->
  exists q, PostOrder.position (fun y => y =? x) l = Some q /\ q < length l /\ nth q l 0 = x.
Proof.
  induction l as [|a l IH]; intros x Hx.
  - destruct Hx.
  - simpl. destruct (a =? x) eqn:E.
    + apply Nat.eqb_eq in E. exists 0. split; [reflexivity|]. split; [simpl; lia|exact E].
    + destruct Hx as [Hx|Hx]; [subst; rewrite Nat.eqb_refl in E; discriminate|].
      destruct (IH x Hx) as [q [Hq [Hlt Hn]]]. exists (S q). rewrite Hq. simpl.
      split; [reflexivity|]. split; [lia|exact Hn].
Qed.

Lemma position_first : forall (A : Type) (f : A -> bool) (d : A) (l : list A) k,
  k < length l -> f (nth k l d) = true -> (forall j, j < k -> f (nth j l d) = false) ->
  PostOrder.position f l = Some k.
Proof.
  intros A f d. induction l as [|a l IH]; intros k Hk Hf Hb; simpl in Hk.
  - lia.
  - simpl. destruct k as [|k].
    + simpl in Hf. rewrite Hf. reflexivity.
    + assert (H0 : f a = false) by (apply (Hb 0); lia). rewrite H0.
      rewrite (IH k); [reflexivity | lia | exact Hf |].
      intros j Hj. apply (Hb (S j)). lia.
Qed.

Lemma filter_map_comm : forall (A B : Type) (f : A -> B) (P : B -> bool) (l : list A),
  filter P (map f l) = map f (filter (fun a => P (f a)) l).
Proof.
  intros A B f P. induction l as [|a l IH]; simpl; [reflexivity|].
  destruct (P (f a)); simpl; rewrite IH; reflexivity.
Qed.

Lemma NoDup_split_unique : forall (a c b d : list nat) v,
  NoDup (a ++ v :: b) -> a ++ v :: b = c ++ v :: d -> a = c.
Proof.
  induction a as [|x a IH]; intros c b d v Hnd E.
  - destruct c as [|y c]; [reflexivity|]. exfalso. simpl in E. injection E as E1 E2. subst y.
    simpl in Hnd. inversion Hnd as [|z l Hn Hnd']; subst. apply Hn.
    apply in_or_app. right. left. reflexivity.
  - destruct c as [|y c].
    + exfalso. simpl in E. injection E as E1 E2. subst x. simpl in Hnd.
      inversion Hnd as [|z l Hn Hnd']; subst.
      apply Hn. apply in_or_app. right. left. reflexivity.
    + simpl in E. injection E as E1 E2. subst y. f_equal. simpl in Hnd.
      inversion Hnd as [|z l Hn Hnd']; subst.
      apply (IH c b d v Hnd' E2).
Qed.

Lemma NoDup_nodupb : forall l, NoDup l -> nodupb l = true.
Proof.
  induction 1 as [|x l Hn Hnd IH]; simpl.
  - reflexivity.
  - rewrite IH. apply memb_false in Hn. rewrite Hn. reflexivity.
Qed.

(** * From [PS] back to the boolean check *)

Lemma Chain_chain_ok : forall adj sn, Chain adj sn -> chain_ok adj sn = true.
Proof.
  intros adj sn H. induction H as [|v|v w r Hp Hd Hc IH].
  - reflexivity.
  - reflexivity.
  - change (chain_ok adj (v :: w :: r)) with
      ((opt_nat_eqb (parent_of adj v) (Some w) && (degree adj v =? degree adj w + 1))
       && chain_ok adj (w :: r)).
    rewrite IH, Hp. simpl. rewrite Nat.eqb_refl. rewrite (proj2 (Nat.eqb_eq _ _) Hd). reflexivity.
Qed.

Lemma ParentOK_parent_ok : forall adj snodes sp i,
  ParentOK adj snodes sp i -> parent_ok adj snodes sp i = true.
Proof.
  intros adj snodes sp i [H1 H2]. unfold parent_ok.
  destruct (S (last (snd_of snodes i) 0) =? length adj) eqn:E.
  - apply Nat.eqb_eq in E. rewrite (H1 E). reflexivity.
  - apply Nat.eqb_neq in E. destruct (H2 E) as [p [q [Hp [Hq [Hlt Hin]]]]].
    rewrite Hp, Hq. rewrite (proj2 (Nat.ltb_lt _ _) Hlt). apply memb_In in Hin. rewrite Hin. reflexivity.
Qed.

Lemma PS_ps_ok : forall adj snodes sp, PS adj snodes sp -> ps_ok adj snodes sp = true.
Proof.
  intros adj snodes sp H. unfold ps_ok.
  assert (Hperm : Permutation (concat snodes) (seq 0 (length adj))).
  { apply NoDup_Permutation; [exact (PS_nodup _ _ _ H) | apply seq_NoDup |].
    intros v. rewrite <- (PS_part _ _ _ H v). rewrite in_seq. lia. }
  repeat (apply andb_true_iff; split).
  - apply Nat.eqb_eq. exact (PS_len _ _ _ H).
  - apply forallb_forall. intros sn Hsn. apply (In_nth _ _ []) in Hsn. destruct Hsn as [i [Hi He]].
    pose proof (PS_nonempty _ _ _ H i Hi) as Hne. unfold snd_of in Hne. rewrite He in Hne.
    destruct sn; [congruence|reflexivity].
  - apply NoDup_nodupb. exact (PS_nodup _ _ _ H).
  - apply Nat.eqb_eq. rewrite (Permutation_length Hperm). apply seq_length.
  - apply forallb_forall. intros v Hv. apply Nat.ltb_lt. apply (PS_part _ _ _ H). exact Hv.
  - apply forallb_forall. intros sn Hsn. apply (In_nth _ _ []) in Hsn. destruct Hsn as [i [Hi He]].
    apply Chain_chain_ok. rewrite <- He. exact (PS_chain _ _ _ H i Hi).
  - apply forallb_forall. intros i Hi. apply in_seq in Hi. apply ParentOK_parent_ok.
    apply (PS_parent _ _ _ H). lia.
Qed.

Lemma nth_map_seq : forall (A : Type) (f : nat -> A) m v d, v < m -> nth v (map f (seq 0 m)) d = f v.
Proof.
  intros A f m v d Hv. rewrite (nth_indep _ d (f 0)) by (rewrite map_length, seq_length; exact Hv).
  rewrite map_nth. rewrite seq_nth by exact Hv. reflexivity.
Qed.

Lemma ins_set_In : forall l v w, In w (ins_set l v) <-> In w l \/ w = v.
Proof.
  intros l v w. unfold ins_set. destruct (memb v l) eqn:E.
  - apply memb_In in E. split; [intros H; left; exact H|]. intros [H|H]; [exact H|subst; exact E].
  - rewrite in_app_iff. simpl. split; intros [H|H]; auto.
    + destruct H as [H|[]]. right. symmetry. exact H.
Qed.

Lemma rep_neg : forall si v, (getZ si v < 0)%Z -> rep si v = v.
Proof. intros si v H. unfold rep. rewrite (proj2 (Z.ltb_lt _ _) H). reflexivity. Qed.

Lemma rep_of : forall si v r, getZ si v = Z.of_nat r -> rep si v = r.
Proof.
  intros si v r H. unfold rep. rewrite H.
  assert (E : (Z.of_nat r <? 0)%Z = false) by (apply Z.ltb_ge; lia).
  rewrite E. apply Nat2Z.id.
Qed.

Lemma rep_nonneg : forall si v, (0 <= getZ si v)%Z -> getZ si v = Z.of_nat (rep si v).
Proof.
  intros si v H. unfold rep. assert (E : (getZ si v <? 0)%Z = false) by (apply Z.ltb_ge; lia).
  rewrite E. rewrite Z2Nat.id by exact H. reflexivity.
Qed.

(** * The loop invariant *)

Section Core.
Variable adj : list (list nat).
Hypothesis Hwf : WF adj.
Hypothesis Hfill : Filled adj.
Hypothesis Hn : 0 < length adj.

Local Notation n := (length adj).
Local Notation par := (parent_of adj).
Local Notation deg := (degree adj).
Local Notation parent := (parent_list adj).
Local Notation dgl := (degree_list adj).
Local Notation root := (length adj - 1).

Lemma parent_nth : forall v, v < n -> nth v parent None = par v.
Proof. intros v Hv. unfold parent_list. apply nth_map_seq. exact Hv. Qed.

Lemma degree_nth : forall v, v < n -> nth v dgl 0 = deg v.
Proof. intros v Hv. unfold degree_list. apply nth_map_seq. exact Hv. Qed.

Lemma par_lt : forall v p, par v = Some p -> v < p < n.
Proof. intros v p H. exact (parent_gt adj Hwf v p H). Qed.

(** [degree[v] - 1] does not underflow for a vertex that has a parent *)
Lemma degree_pos : forall v p, par v = Some p -> 1 <= deg v.
Proof.
  intros v p H. destruct (parent_of_Some adj v p H) as [Hne [rest E]].
  unfold degree. destruct (S v =? n) eqn:Eq; [apply Nat.eqb_eq in Eq; congruence|].
  rewrite E. simpl. lia.
Qed.

Lemma par_none_root : forall v, v < n -> par v = None -> v = root.
Proof.
  intros v Hv H. destruct (Nat.eq_dec (S v) n) as [He|Hne]; [lia|].
  destruct (parent_of_nonroot adj Hfill v ltac:(lia)) as [p Hp]. congruence.
Qed.

Lemma par_root : par root = None.
Proof. apply parent_of_last. lia. Qed.

Inductive Path (dn : list nat) (si : list Z) (r : nat) : nat -> Prop :=
| Path_base : Path dn si r r
| Path_step : forall a b, Path dn si r a -> In a dn -> par a = Some b ->
    getZ si b = Z.of_nat r -> deg a = deg b + 1 -> Path dn si r b.

Lemma Path_le : forall dn si r u, Path dn si r u -> r <= u.
Proof.
  intros dn si r u H. induction H as [|a b Hp IH Hin Hpar Hz Hd]; [lia|].
  pose proof (par_lt a b Hpar). lia.
Qed.

Lemma Path_mono : forall dn dn' si si' r u, incl dn dn' ->
  (forall b, (0 <= getZ si b)%Z -> getZ si' b = getZ si b) ->
  Path dn si r u -> Path dn' si' r u.
Proof.
  intros dn dn' si si' r u Hincl Hsame H. induction H as [|a b Hp IH Hin Hpar Hz Hd].
  - apply Path_base.
  - apply (Path_step dn' si' r a b IH (Hincl a Hin) Hpar); [|exact Hd].
    rewrite Hsame; [exact Hz|]. rewrite Hz. lia.
Qed.

(** two vertices of the same chain are comparable along parent links *)
Lemma Path_linear : forall dn si r m b, b < m -> forall a,
  Path dn si r a -> Path dn si r b -> a < b ->
  In a dn /\ exists a', par a = Some a' /\ Path dn si r a' /\ getZ si a' = Z.of_nat r /\
                        deg a = deg a' + 1 /\ a' <= b.
Proof.
  intros dn si r. induction m as [|m IH]; intros b Hb a Ha Hpb Hab; [lia|].
  inversion Hpb as [Heq | b0 b' Hp0 Hin0 Hpar0 Hz0 Hd0 Heq].
  - subst b. pose proof (Path_le dn si r a Ha). lia.
  - subst b'. pose proof (par_lt b0 b Hpar0) as Hlt0.
    destruct (lt_eq_lt_dec a b0) as [[Hlt|Heq]|Hgt].
    + destruct (IH b0 ltac:(lia) a Ha Hp0 Hlt) as [Hin [a' [H1 [H2 [H3 [H4 H5]]]]]].
      split; [exact Hin|]. exists a'. repeat split; try assumption. lia.
    + subst b0. split; [exact Hin0|]. exists b. repeat split; try assumption. lia.
    + exfalso. destruct (IH a ltac:(lia) b0 Hp0 Ha Hgt) as [_ [a' [H1 [_ [_ [_ H5]]]]]].
      rewrite Hpar0 in H1. injection H1 as H1. subst a'. lia.
Qed.

Lemma Path_sibling : forall dn si r w v p, Path dn si r w -> Path dn si r v ->
  par w = Some p -> par v = Some p -> ~ In v dn -> w = v.
Proof.
  intros dn si r w v p Hw Hv Hpw Hpv Hnv.
  destruct (lt_eq_lt_dec w v) as [[Hlt|Heq]|Hgt]; [exfalso|exact Heq|exfalso].
  - destruct (Path_linear dn si r (S v) v ltac:(lia) w Hw Hv Hlt) as [_ [a' [H1 [_ [_ [_ H5]]]]]].
    rewrite Hpw in H1. injection H1 as H1. subst a'. pose proof (par_lt v p Hpv). lia.
  - destruct (Path_linear dn si r (S w) w ltac:(lia) v Hv Hw Hgt) as [Hin _]. exact (Hnv Hin).
Qed.

(** a chain has one top: the member whose parent is not in the chain *)
Lemma Path_top_unique : forall dn si r w1 w2 p1 p2, Path dn si r w1 -> Path dn si r w2 ->
  par w1 = Some p1 -> par w2 = Some p2 ->
  getZ si p1 <> Z.of_nat r -> getZ si p2 <> Z.of_nat r -> w1 = w2.
Proof.
  intros dn si r w1 w2 p1 p2 H1 H2 Hp1 Hp2 Hz1 Hz2.
  destruct (lt_eq_lt_dec w1 w2) as [[Hlt|Heq]|Hgt]; [exfalso|exact Heq|exfalso].
  - destruct (Path_linear dn si r (S w2) w2 ltac:(lia) w1 H1 H2 Hlt) as [_ [a' [Ha [_ [Hz [_ _]]]]]].
    rewrite Hp1 in Ha. injection Ha as Ha. subst a'. exact (Hz1 Hz).
  - destruct (Path_linear dn si r (S w1) w1 ltac:(lia) w2 H2 H1 Hgt) as [_ [a' [Ha [_ [Hz [_ _]]]]]].
    rewrite Hp2 in Ha. injection Ha as Ha. subst a'. exact (Hz2 Hz).
Qed.

(** the part of the invariant on [snode_index] and [snode_parent]; [dn] = visited vertices,
    [dp] = visited vertices whose own "loop over v's children" has been executed *)
Record SInv (dn dp : list nat) (si : list Z) (sp : list (option nat)) : Prop := {
  S_done : forall u, In u dn -> u < n;
  S_len_i : length si = n;
  S_len_p : length sp = n;
  (** an unvisited vertex is unclaimed (-1) or claimed (>= 0) *)
  S_unv : forall u, u < n -> ~ In u dn -> (getZ si u < 0)%Z -> getZ si u = (-1)%Z;
  (** a non-negative entry names a visited representative *)
  S_tgt : forall x, x < n -> (0 <= getZ si x)%Z ->
    Z.to_nat (getZ si x) < n /\ In (Z.to_nat (getZ si x)) dn /\ (getZ si (Z.to_nat (getZ si x)) < 0)%Z;
  (** every vertex is reached from its representative through claimed parent links *)
  S_path : forall u, u < n -> Path dn si (rep si u) u;
  (** the supernode parent of a chain whose top has a visited parent *)
  S_sp : forall w p0, In w dn -> In p0 dp -> par w = Some p0 -> rep si w <> rep si p0 ->
    nth (rep si w) sp None = Some (rep si p0);
  (** [snode_parent] is only written for chains whose top did not claim its parent *)
  S_none : forall r0, r0 < n -> nth r0 sp None <> None ->
    exists w p0, In w dn /\ par w = Some p0 /\ rep si w = r0 /\ getZ si p0 <> Z.of_nat r0
}.

Record CInv (dn : list nat) (ch : list (list nat)) : Prop := {
  C_len : length ch = n;
  C_in : forall w p, In w dn -> par w = Some p -> In w (nth p ch []);
  C_only : forall w x, In w (nth x ch []) -> In w dn /\ (par w = Some x \/ w = x)
}.

Definition Inv (dn : list nat) (s : st) : Prop :=
  SInv dn dn (s_idx s) (s_par s) /\ CInv dn (s_ch s).

Lemma rep_facts : forall dn dp si sp v, SInv dn dp si sp -> v < n ->
  rep si v < n /\ (getZ si (rep si v) < 0)%Z /\ (rep si v = v \/ In (rep si v) dn).
Proof.
  intros dn dp si sp v H Hv. unfold rep. destruct (getZ si v <? 0)%Z eqn:E.
  - apply Z.ltb_lt in E. split; [exact Hv|]. split; [exact E|]. left. reflexivity.
  - apply Z.ltb_ge in E. destruct (S_tgt _ _ _ _ H v Hv E) as [H1 [H2 H3]].
    split; [exact H1|]. split; [exact H3|]. right. exact H2.
Qed.

Lemma Inv_init : Inv [] (ps_init n).
Proof.
  unfold ps_init. split; simpl.
  - constructor.
    + intros u [].
    + apply repeat_length.
    + apply repeat_length.
    + intros u Hu _ _. unfold getZ. apply nth_repeat_lt. exact Hu.
    + intros x Hx H. unfold getZ in H. rewrite nth_repeat_lt in H by exact Hx. lia.
    + intros u Hu. rewrite rep_neg; [apply Path_base|]. unfold getZ. rewrite nth_repeat_lt by exact Hu. lia.
    + intros w p0 [].
    + intros r0 Hr H. rewrite nth_repeat_lt in H by exact Hr. congruence.
  - constructor.
    + apply repeat_length.
    + intros w p [].
    + intros w x H. exfalso. rewrite nth_repeat_any in H. destruct H.
Qed.

(** ** the three outcomes of the [if parent[v] != NO_PARENT] block *)

Lemma incl_snoc : forall (dn : list nat) v, incl dn (dn ++ [v]).
Proof. intros dn v x Hx. apply in_or_app. left. exact Hx. Qed.

Lemma in_snoc : forall (dn : list nat) v x, In x (dn ++ [v]) <-> In x dn \/ x = v.
Proof.
  intros dn v x. rewrite in_app_iff. simpl. split; intros [H|H]; auto.
  - destruct H as [H|[]]. right. symmetry. exact H.
Qed.

(** v is the root *)
Lemma SInv_root : forall dn si sp v, SInv dn dn si sp -> v < n -> par v = None ->
  SInv (dn ++ [v]) dn si sp.
Proof.
  intros dn si sp v H Hv Hpv. constructor.
  - intros u Hu. apply in_snoc in Hu. destruct Hu as [Hu|Hu]; [exact (S_done _ _ _ _ H u Hu)|subst; exact Hv].
  - exact (S_len_i _ _ _ _ H).
  - exact (S_len_p _ _ _ _ H).
  - intros u Hu Hnin. apply (S_unv _ _ _ _ H u Hu). intro Hin. apply Hnin. apply in_snoc. left. exact Hin.
  - intros x Hx Hz. destruct (S_tgt _ _ _ _ H x Hx Hz) as [H1 [H2 H3]].
    split; [exact H1|]. split; [apply in_snoc; left; exact H2|exact H3].
  - intros u Hu. apply (Path_mono dn (dn ++ [v]) si si); [apply incl_snoc|reflexivity|].
    exact (S_path _ _ _ _ H u Hu).
  - intros w p0 Hw Hp0 Hpar Hne. apply in_snoc in Hw. destruct Hw as [Hw|Hw].
    + exact (S_sp _ _ _ _ H w p0 Hw Hp0 Hpar Hne).
    + subst w. congruence.
  - intros r0 Hr Hnn. destruct (S_none _ _ _ _ H r0 Hr Hnn) as [w [p0 [Hw [Hp [Hrep Hz]]]]].
    exists w, p0. split; [apply in_snoc; left; exact Hw|]. repeat split; assumption.
Qed.

(** v does not claim its parent: [snode_parent[rep v] = rep v] *)
Lemma SInv_noclaim : forall dn si sp v p, SInv dn dn si sp -> v < n -> ~ In v dn ->
  par v = Some p -> ~ In p dn ->
  SInv (dn ++ [v]) dn si (setn sp (rep si v) (Some (rep si v))).
Proof.
  intros dn si sp v p H Hv Hnv Hpv Hnp.
  pose proof (par_lt v p Hpv) as Hlt.
  destruct (rep_facts dn dn si sp v H Hv) as [Hrn [Hrz Hrd]].
  assert (Hzp : getZ si p <> Z.of_nat (rep si v)).
  { intro Hz. pose proof (S_path _ _ _ _ H p ltac:(lia)) as Hpp. rewrite (rep_of si p _ Hz) in Hpp.
    pose proof (S_path _ _ _ _ H v Hv) as Hpv'.
    pose proof (Path_le _ _ _ _ Hpv') as Hle.
    inversion Hpp as [Heq | a b' Hpa Hina Hpara Hza Hda Heq].
    - lia.
    - subst b'. pose proof (Path_sibling dn si _ a v p Hpa Hpv' Hpara Hpv Hnv). subst a. exact (Hnv Hina). }
  constructor.
  - intros u Hu. apply in_snoc in Hu. destruct Hu as [Hu|Hu]; [exact (S_done _ _ _ _ H u Hu)|subst; exact Hv].
  - exact (S_len_i _ _ _ _ H).
  - rewrite setn_length. exact (S_len_p _ _ _ _ H).
  - intros u Hu Hnin. apply (S_unv _ _ _ _ H u Hu). intro Hin. apply Hnin. apply in_snoc. left. exact Hin.
  - intros x Hx Hz. destruct (S_tgt _ _ _ _ H x Hx Hz) as [H1 [H2 H3]].
    split; [exact H1|]. split; [apply in_snoc; left; exact H2|exact H3].
  - intros u Hu. apply (Path_mono dn (dn ++ [v]) si si); [apply incl_snoc|reflexivity|].
    exact (S_path _ _ _ _ H u Hu).
  - intros w p0 Hw Hp0 Hpar Hne. apply in_snoc in Hw. destruct Hw as [Hw|Hw].
    2:{ subst w. rewrite Hpv in Hpar. injection Hpar as Hpar. subst p0. contradiction. }
    rewrite nth_setn_other; [exact (S_sp _ _ _ _ H w p0 Hw Hp0 Hpar Hne)|].
    intro Heq.
    pose proof (S_path _ _ _ _ H w (S_done _ _ _ _ H w Hw)) as Hpw. rewrite Heq in Hpw.
    pose proof (S_path _ _ _ _ H v Hv) as Hpv'.
    destruct (lt_eq_lt_dec w v) as [[Hl|He]|Hg].
    + destruct (Path_linear dn si _ (S v) v ltac:(lia) w Hpw Hpv' Hl) as [_ [a' [Ha [_ [Hz [_ _]]]]]].
      rewrite Hpar in Ha. injection Ha as Ha. subst a'. apply Hne. rewrite Heq.
      symmetry. apply rep_of. exact Hz.
    + subst w. contradiction.
    + destruct (Path_linear dn si _ (S w) w ltac:(lia) v Hpv' Hpw Hg) as [Hin _]. contradiction.
  - intros r0 Hr Hnn. destruct (Nat.eq_dec r0 (rep si v)) as [He|Hne].
    + subst r0. exists v, p. split; [apply in_snoc; right; reflexivity|]. repeat split; assumption.
    + rewrite nth_setn_other in Hnn by exact Hne.
      destruct (S_none _ _ _ _ H r0 Hr Hnn) as [w [p0 [Hw [Hp [Hrep Hz]]]]].
      exists w, p0. split; [apply in_snoc; left; exact Hw|]. repeat split; assumption.
Qed.

(** Case A / Case B as one update *)
Definition claim (si : list Z) (p r : nat) : list Z :=
  setn (setn si p (Z.of_nat r)) r (getZ si r - 1)%Z.

Lemma claim_get : forall si p r x, length si = n -> p < n -> r < n -> p <> r ->
  getZ (claim si p r) x =
  if x =? r then (getZ si r - 1)%Z else if x =? p then Z.of_nat r else getZ si x.
Proof.
  intros si p r x Hl Hp Hr Hne. unfold claim, getZ.
  destruct (x =? r) eqn:E1.
  - apply Nat.eqb_eq in E1. subst x. apply nth_setn_same. rewrite setn_length. lia.
  - apply Nat.eqb_neq in E1. rewrite nth_setn_other by exact E1.
    destruct (x =? p) eqn:E2.
    + apply Nat.eqb_eq in E2. subst x. apply nth_setn_same. lia.
    + apply Nat.eqb_neq in E2. apply nth_setn_other. exact E2.
Qed.

Lemma SInv_claim : forall dn si sp v p, SInv dn dn si sp -> v < n -> ~ In v dn ->
  par v = Some p -> ~ In p dn -> getZ si p = (-1)%Z -> deg v = deg p + 1 ->
  SInv (dn ++ [v]) dn (claim si p (rep si v)) sp.
Proof.
  intros dn si sp v p H Hv Hnv Hpv Hnp Hzp Hdeg.
  pose proof (par_lt v p Hpv) as Hlt.
  destruct (rep_facts dn dn si sp v H Hv) as [Hrn [Hrz Hrd]].
  set (r := rep si v) in *.
  assert (Hrp : p <> r).
  { intro He. destruct Hrd as [Hrd|Hrd]; [lia|]. apply Hnp. rewrite He. exact Hrd. }
  assert (Hrdn : In r (dn ++ [v])).
  { apply in_snoc. destruct Hrd as [Hrd|Hrd]; [right; exact Hrd|left; exact Hrd]. }
  pose proof (fun x => claim_get si p r x (S_len_i _ _ _ _ H) ltac:(lia) Hrn Hrp) as G.
  assert (Gr : getZ (claim si p r) r = (getZ si r - 1)%Z).
  { rewrite G. rewrite Nat.eqb_refl. reflexivity. }
  assert (Gp : getZ (claim si p r) p = Z.of_nat r).
  { rewrite G. rewrite (proj2 (Nat.eqb_neq p r) Hrp). rewrite Nat.eqb_refl. reflexivity. }
  assert (Go : forall x, x <> r -> x <> p -> getZ (claim si p r) x = getZ si x).
  { intros x H1 H2. rewrite G. rewrite (proj2 (Nat.eqb_neq x r) H1), (proj2 (Nat.eqb_neq x p) H2). reflexivity. }
  assert (Grep : forall x, x <> p -> rep (claim si p r) x = rep si x).
  { intros x Hxp. destruct (Nat.eq_dec x r) as [He|Hne].
    - subst x. rewrite !rep_neg; [reflexivity|exact Hrz|rewrite Gr; lia].
    - unfold rep. rewrite (Go x Hne Hxp). reflexivity. }
  assert (Gsame : forall b, (0 <= getZ si b)%Z -> getZ (claim si p r) b = getZ si b).
  { intros b Hb. apply Go; intro He; subst b; lia. }
  constructor.
  - intros u Hu. apply in_snoc in Hu. destruct Hu as [Hu|Hu]; [exact (S_done _ _ _ _ H u Hu)|subst; exact Hv].
  - unfold claim. rewrite !setn_length. exact (S_len_i _ _ _ _ H).
  - exact (S_len_p _ _ _ _ H).
  - intros u Hu Hnin Hneg. destruct (Nat.eq_dec u r) as [He|Hne]; [subst u; contradiction|].
    destruct (Nat.eq_dec u p) as [He|Hnep]; [subst u; rewrite Gp in Hneg; lia|].
    rewrite (Go u Hne Hnep) in *. apply (S_unv _ _ _ _ H u Hu); [|exact Hneg].
    intro Hin. apply Hnin. apply in_snoc. left. exact Hin.
  - intros x Hx Hz. destruct (Nat.eq_dec x r) as [He|Hne]; [subst x; rewrite Gr in Hz; lia|].
    destruct (Nat.eq_dec x p) as [He|Hnep].
    + subst x. rewrite Gp. rewrite Nat2Z.id. split; [exact Hrn|]. split; [exact Hrdn|]. rewrite Gr. lia.
    + rewrite (Go x Hne Hnep) in *. destruct (S_tgt _ _ _ _ H x Hx Hz) as [H1 [H2 H3]].
      split; [exact H1|]. split; [apply in_snoc; left; exact H2|].
      set (t := Z.to_nat (getZ si x)) in *.
      destruct (Nat.eq_dec t r) as [Htr|Htr]; [rewrite Htr, Gr; lia|].
      rewrite Go; [exact H3|exact Htr|]. intro He. apply Hnp. rewrite <- He. exact H2.
  - intros u Hu. destruct (Nat.eq_dec u p) as [He|Hne].
    + subst u. rewrite (rep_of _ p r Gp).
      apply (Path_step _ _ r v p); [|apply in_snoc; right; reflexivity|exact Hpv|exact Gp|exact Hdeg].
      apply (Path_mono dn (dn ++ [v]) si); [apply incl_snoc|exact Gsame|].
      exact (S_path _ _ _ _ H v Hv).
    + rewrite (Grep u Hne).
      apply (Path_mono dn (dn ++ [v]) si); [apply incl_snoc|exact Gsame|].
      exact (S_path _ _ _ _ H u Hu).
  - intros w p0 Hw Hp0 Hpar Hne. apply in_snoc in Hw. destruct Hw as [Hw|Hw].
    2:{ subst w. rewrite Hpv in Hpar. injection Hpar as Hpar. subst p0. contradiction. }
    assert (Hwp : w <> p) by (intro He; subst w; contradiction).
    assert (Hp0p : p0 <> p) by (intro He; subst p0; contradiction).
    rewrite (Grep w Hwp), (Grep p0 Hp0p) in *.
    exact (S_sp _ _ _ _ H w p0 Hw Hp0 Hpar Hne).
  - intros r0 Hr Hnn. destruct (S_none _ _ _ _ H r0 Hr Hnn) as [w [p0 [Hw [Hp [Hrep Hz]]]]].
    assert (Hwp : w <> p) by (intro He; subst w; contradiction).
    exists w, p0. split; [apply in_snoc; left; exact Hw|]. split; [exact Hp|].
    split; [rewrite (Grep w Hwp); exact Hrep|].
    destruct (Nat.eq_dec p0 r) as [He|Hne]; [subst p0; rewrite Gr; lia|].
    destruct (Nat.eq_dec p0 p) as [He|Hnep].
    + subst p0. rewrite Gp. intro Heq. apply Nat2Z.inj in Heq.
      pose proof (S_path _ _ _ _ H w (S_done _ _ _ _ H w Hw)) as Hpw. rewrite Hrep, <- Heq in Hpw.
      pose proof (S_path _ _ _ _ H v Hv) as Hpv'. fold r in Hpv'.
      pose proof (Path_sibling dn si r w v p Hpw Hpv' Hp Hpv Hnv). subst w. contradiction.
    + rewrite (Go p0 Hne Hnep). exact Hz.
Qed.

(** ** the loop over v's children *)

Lemma link_children_spec : forall si k ws sp,
  length (link_children si k ws sp) = length sp /\
  forall l, l < length sp ->
    nth l (link_children si k ws sp) None =
    if existsb (fun w => (rep si w =? l) && negb (l =? k)) ws then Some k else nth l sp None.
Proof.
  intros si k. induction ws as [|w ws IH]; intros sp.
  - simpl. split; reflexivity.
  - simpl. set (sp1 := if rep si w =? k then sp else setn sp (rep si w) (Some k)).
    assert (Hl1 : length sp1 = length sp).
    { unfold sp1. destruct (rep si w =? k); [reflexivity|apply setn_length]. }
    destruct (IH sp1) as [Hlen Hnth]. fold (link_children si k ws sp1).
    split; [rewrite Hlen; exact Hl1|].
    intros l Hl. rewrite Hnth by (rewrite Hl1; exact Hl).
    destruct (existsb (fun w0 => (rep si w0 =? l) && negb (l =? k)) ws); [rewrite orb_true_r; reflexivity|].
    rewrite orb_false_r. unfold sp1.
    destruct (rep si w =? l) eqn:E1.
    + apply Nat.eqb_eq in E1. destruct (l =? k) eqn:E2; simpl.
      * apply Nat.eqb_eq in E2. rewrite E1, E2, Nat.eqb_refl. reflexivity.
      * apply Nat.eqb_neq in E2. rewrite E1. rewrite (proj2 (Nat.eqb_neq l k) E2).
        apply nth_setn_same. exact Hl.
    + apply Nat.eqb_neq in E1. simpl. destruct (rep si w =? k); [reflexivity|].
      apply nth_setn_other. intro He. apply E1. symmetry. exact He.
Qed.

Lemma rep_lt : forall dn dp si sp u, SInv dn dp si sp -> u < n -> rep si u < n.
Proof. intros dn dp si sp u H Hu. exact (proj1 (rep_facts dn dp si sp u H Hu)). Qed.

Lemma SInv_link : forall dn si sp ch v, SInv (dn ++ [v]) dn si sp -> CInv (dn ++ [v]) ch ->
  v < n -> ~ In v dn ->
  SInv (dn ++ [v]) (dn ++ [v]) si (link_children si (rep si v) (nth v ch []) sp).
Proof.
  intros dn si sp ch v H HC Hv Hnv.
  set (k := rep si v). set (ws := nth v ch []).
  destruct (link_children_spec si k ws sp) as [Hlen Hnth].
  rewrite (S_len_p _ _ _ _ H) in Hnth.
  (* a written index belongs to a child of v whose chain stops below v *)
  assert (Hwr : forall l, existsb (fun w => (rep si w =? l) && negb (l =? k)) ws = true ->
            exists w2, In w2 (dn ++ [v]) /\ par w2 = Some v /\ rep si w2 = l /\ l <> k).
  { intros l Hex. apply existsb_exists in Hex. destruct Hex as [w2 [Hin Hb]].
    apply andb_true_iff in Hb. destruct Hb as [Hb1 Hb2]. apply Nat.eqb_eq in Hb1.
    apply negb_true_iff in Hb2. apply Nat.eqb_neq in Hb2.
    destruct (C_only _ _ HC w2 v Hin) as [Hd [Hp|He]].
    - exists w2. repeat split; assumption.
    - exfalso. subst w2. apply Hb2. symmetry. exact Hb1. }
  constructor.
  - exact (S_done _ _ _ _ H).
  - exact (S_len_i _ _ _ _ H).
  - rewrite Hlen. exact (S_len_p _ _ _ _ H).
  - exact (S_unv _ _ _ _ H).
  - exact (S_tgt _ _ _ _ H).
  - exact (S_path _ _ _ _ H).
  - intros w p0 Hw Hp0 Hpar Hne.
    assert (Hwn : w < n) by exact (S_done _ _ _ _ H w Hw).
    pose proof (rep_lt _ _ _ _ w H Hwn) as Hrw.
    rewrite Hnth by exact Hrw.
    apply in_snoc in Hp0. destruct Hp0 as [Hp0|Hp0].
    + destruct (existsb (fun w0 => (rep si w0 =? rep si w) && negb (rep si w =? k)) ws) eqn:Hex.
      * exfalso. destruct (Hwr _ Hex) as [w2 [Hw2 [Hp2 [Hr2 Hk]]]].
        assert (Hw2n : w2 < n) by exact (S_done _ _ _ _ H w2 Hw2).
        pose proof (S_path _ _ _ _ H w Hwn) as Pw.
        pose proof (S_path _ _ _ _ H w2 Hw2n) as Pw2. rewrite Hr2 in Pw2.
        assert (E : w = w2).
        { apply (Path_top_unique _ _ _ w w2 p0 v Pw Pw2 Hpar Hp2).
          - intro Hz. apply Hne. symmetry. apply rep_of. exact Hz.
          - intro Hz. apply Hk. symmetry. apply rep_of. exact Hz. }
        subst w2. rewrite Hpar in Hp2. injection Hp2 as Hp2. subst p0. contradiction.
      * exact (S_sp _ _ _ _ H w p0 Hw Hp0 Hpar Hne).
    + subst p0. fold k in Hne.
      assert (Hex : existsb (fun w0 => (rep si w0 =? rep si w) && negb (rep si w =? k)) ws = true).
      { apply existsb_exists. exists w. split; [exact (C_in _ _ HC w v Hw Hpar)|].
        rewrite Nat.eqb_refl. rewrite (proj2 (Nat.eqb_neq _ _) Hne). reflexivity. }
      rewrite Hex. reflexivity.
  - intros r0 Hr Hnn. rewrite Hnth in Hnn by exact Hr.
    destruct (existsb (fun w0 => (rep si w0 =? r0) && negb (r0 =? k)) ws) eqn:Hex.
    + destruct (Hwr _ Hex) as [w2 [Hw2 [Hp2 [Hr2 Hk]]]].
      exists w2, v. repeat split; try assumption.
      intro Hz. apply Hk. symmetry. apply rep_of. exact Hz.
    + exact (S_none _ _ _ _ H r0 Hr Hnn).
Qed.

(** ** [children[..].insert(v)] *)
Lemma CInv_step : forall dn ch v, CInv dn ch -> v < n ->
  CInv (dn ++ [v]) (step_children parent root v ch).
Proof.
  intros dn ch v H Hv. unfold step_children. rewrite (parent_nth v Hv).
  set (q := match par v with None => root | Some p => p end).
  assert (Hq : q < n).
  { unfold q. destruct (par v) as [p|] eqn:E; [exact (proj2 (par_lt v p E))|lia]. }
  assert (Hvq : par v = Some q \/ (par v = None /\ v = q)).
  { unfold q. destruct (par v) as [p|] eqn:E; [left; reflexivity|right].
    split; [reflexivity|apply par_none_root; assumption]. }
  clearbody q.
  assert (Hnth : forall x, nth x (setn ch q (ins_set (nth q ch []) v)) [] =
                           if x =? q then ins_set (nth q ch []) v else nth x ch []).
  { intros x. destruct (x =? q) eqn:E.
    - apply Nat.eqb_eq in E. subst x. apply nth_setn_same. rewrite (C_len _ _ H). exact Hq.
    - apply Nat.eqb_neq in E. apply nth_setn_other. exact E. }
  constructor.
  - rewrite setn_length. exact (C_len _ _ H).
  - intros w p Hw Hp. rewrite Hnth. apply in_snoc in Hw. destruct (p =? q) eqn:E.
    + apply Nat.eqb_eq in E. subst p. apply ins_set_In. destruct Hw as [Hw|Hw]; [left|right; exact Hw].
      exact (C_in _ _ H w q Hw Hp).
    + apply Nat.eqb_neq in E. destruct Hw as [Hw|Hw]; [exact (C_in _ _ H w p Hw Hp)|].
      subst w. exfalso. destruct Hvq as [Hvq|[Hvq _]]; congruence.
  - intros w x Hw. rewrite Hnth in Hw. destruct (x =? q) eqn:E.
    + apply Nat.eqb_eq in E. subst x. apply ins_set_In in Hw. destruct Hw as [Hw|Hw].
      * destruct (C_only _ _ H w q Hw) as [H1 H2]. split; [apply in_snoc; left; exact H1|exact H2].
      * subst w. split; [apply in_snoc; right; reflexivity|].
        destruct Hvq as [Hvq|[_ Hvq]]; [left; exact Hvq|right; exact Hvq].
    + destruct (C_only _ _ H w x Hw) as [H1 H2]. split; [apply in_snoc; left; exact H1|exact H2].
Qed.

(** ** one iteration *)

Lemma step_index_eq : forall v p si sp, nth v parent None = Some p -> v <> p -> rep si v <> p ->
  step_index parent dgl v si sp =
  if (nth v dgl 0 - 1 =? nth p dgl 0) && (getZ si p =? -1)%Z then (claim si p (rep si v), sp)
  else (si, setn sp (rep si v) (Some (rep si v))).
Proof.
  intros v p si sp Hp Hvp Hrp. unfold step_index. rewrite Hp. unfold rep in *.
  destruct ((nth v dgl 0 - 1 =? nth p dgl 0) && (getZ si p =? -1)%Z);
    destruct (getZ si v <? 0)%Z eqn:E; try reflexivity.
  - unfold claim. unfold getZ at 1. rewrite nth_setn_other by exact Hvp. reflexivity.
  - apply Z.ltb_ge in E. unfold claim.
    assert (E1 : getZ (setn si p (getZ si v)) v = getZ si v).
    { unfold getZ at 1. apply nth_setn_other. exact Hvp. }
    rewrite E1. rewrite Z2Nat.id by exact E.
    assert (E2 : getZ (setn si p (getZ si v)) (Z.to_nat (getZ si v)) = getZ si (Z.to_nat (getZ si v))).
    { unfold getZ at 1. apply nth_setn_other. exact Hrp. }
    rewrite E2. reflexivity.
Qed.

Lemma Inv_step : forall dn s v, Inv dn s -> v < n -> ~ In v dn ->
  (forall p, par v = Some p -> ~ In p dn) ->
  Inv (dn ++ [v]) (ps_step parent dgl root s v).
Proof.
  intros dn [si sp ch] v [HS HC] Hv Hnv Hpn. simpl in HS, HC.
  pose proof (CInv_step dn ch v HC Hv) as HC'.
  unfold ps_step, Inv. simpl s_idx. simpl s_par. simpl s_ch.
  destruct (par v) as [p|] eqn:Hpv.
  - pose proof (par_lt v p Hpv) as Hlt. specialize (Hpn p eq_refl).
    destruct (rep_facts dn dn si sp v HS Hv) as [Hrn [Hrz Hrd]].
    assert (Hrp : rep si v <> p).
    { intro He. destruct Hrd as [Hrd|Hrd]; [lia|]. apply Hpn. rewrite <- He. exact Hrd. }
    rewrite (step_index_eq v p si sp); [|rewrite parent_nth by exact Hv; exact Hpv|lia|exact Hrp].
    rewrite (degree_nth v Hv), (degree_nth p ltac:(lia)).
    destruct ((deg v - 1 =? deg p) && (getZ si p =? -1)%Z) eqn:Ec.
    + apply andb_true_iff in Ec. destruct Ec as [Ed Ez]. apply Nat.eqb_eq in Ed. apply Z.eqb_eq in Ez.
      pose proof (degree_pos v p Hpv) as Hdp.
      pose proof (SInv_claim dn si sp v p HS Hv Hnv Hpv Hpn Ez ltac:(lia)) as HS'.
      simpl. split; [|exact HC']. apply SInv_link; assumption.
    + pose proof (SInv_noclaim dn si sp v p HS Hv Hnv Hpv Hpn) as HS'.
      simpl. split; [|exact HC']. apply SInv_link; assumption.
  - assert (E : step_index parent dgl v si sp = (si, sp)).
    { unfold step_index. rewrite parent_nth by exact Hv. rewrite Hpv. reflexivity. }
    rewrite E. pose proof (SInv_root dn si sp v HS Hv Hpv) as HS'.
    simpl. split; [|exact HC']. apply SInv_link; assumption.
Qed.

(** ** the whole loop over a post-order *)

Section Loop.
Variable post : list nat.
Hypothesis Hperm : Permutation post (seq 0 n).
Hypothesis Hbefore : forall w v, par w = Some v -> exists l1 l2 l3, post = l1 ++ w :: l2 ++ v :: l3.

Lemma post_NoDup : NoDup post.
Proof. apply (Permutation_NoDup (Permutation_sym Hperm)). apply seq_NoDup. Qed.

Lemma post_lt : forall u, In u post -> u < n.
Proof. intros u Hu. apply (Permutation_in _ Hperm) in Hu. apply in_seq in Hu. lia. Qed.

Lemma post_all : forall u, u < n -> In u post.
Proof. intros u Hu. apply (Permutation_in _ (Permutation_sym Hperm)). apply in_seq. lia. Qed.

Lemma Inv_loop : forall todo dn s, post = dn ++ todo -> Inv dn s ->
  Inv post (fold_left (ps_step parent dgl root) todo s).
Proof.
  induction todo as [|v todo IH]; intros dn s E HI.
  - simpl. rewrite E, app_nil_r. exact HI.
  - simpl. apply (IH (dn ++ [v])).
    + rewrite <- app_assoc. exact E.
    + pose proof post_NoDup as Hnd. rewrite E in Hnd.
      apply Inv_step.
      * exact HI.
      * apply post_lt. rewrite E. apply in_or_app. right. left. reflexivity.
      * apply NoDup_remove_2 in Hnd. intro Hin. apply Hnd. apply in_or_app. left. exact Hin.
      * intros p Hp Hin. destruct (Hbefore v p Hp) as [l1 [l2 [l3 E2]]].
        rewrite E in E2. pose proof (NoDup_split_unique _ _ _ _ _ Hnd E2) as E3. subst l1.
        rewrite E2 in Hnd. apply NoDup_app_inv in Hnd. destruct Hnd as [_ [_ Hd]].
        apply (Hd p Hin). right. apply in_or_app. right. left. reflexivity.
Qed.

Definition final_st : st := fold_left (ps_step parent dgl root) post (ps_init n).

Lemma Inv_final : Inv post final_st.
Proof. apply (Inv_loop post [] (ps_init n)); [reflexivity|apply Inv_init]. Qed.

Local Notation si := (s_idx final_st).
Local Notation sp := (s_par final_st).
Local Notation R := (repr_vertex n si).
Local Notation bk := (bucket n si).

Lemma SF : SInv post post si sp.
Proof. exact (proj1 Inv_final). Qed.

Lemma bucket_In : forall i j, In i (bk j) <-> i < n /\ rep si i = j.
Proof.
  intros i j. unfold bucket. rewrite filter_In, in_seq, Nat.eqb_eq. split; intros [H1 H2]; split; try assumption; lia.
Qed.

Lemma R_In : forall r, In r R <-> r < n /\ (getZ si r < 0)%Z.
Proof.
  intros r. unfold repr_vertex. rewrite filter_In, in_seq, Z.ltb_lt. split; intros [H1 H2]; split; try assumption; lia.
Qed.

Lemma R_NoDup : NoDup R.
Proof. unfold repr_vertex. apply NoDup_filter. apply seq_NoDup. Qed.

Lemma bucket_sorted : forall j, StronglySorted lt (bk j).
Proof. intros j. unfold bucket. apply PostOrder.sorted_filter. apply seq_sorted. Qed.

Lemma rep_in_R : forall u, u < n -> In (rep si u) R.
Proof.
  intros u Hu. destruct (rep_facts _ _ _ _ u SF Hu) as [H1 [H2 _]]. apply R_In. split; assumption.
Qed.

Lemma self_in_bucket : forall r, In r R -> In r (bk r).
Proof.
  intros r Hr. apply R_In in Hr. destruct Hr as [H1 H2]. apply bucket_In. split; [exact H1|].
  apply rep_neg. exact H2.
Qed.

Lemma snodes_eq : filter nonempty (map bk (seq 0 n)) = map bk R.
Proof.
  rewrite filter_map_comm. f_equal. unfold repr_vertex. apply filter_ext_in.
  intros j Hj. apply in_seq in Hj.
  destruct (getZ si j <? 0)%Z eqn:E.
  - apply Z.ltb_lt in E. assert (Hin : In j (bk j)) by (apply self_in_bucket; apply R_In; split; [lia|exact E]).
    destruct (bk j); [destruct Hin|reflexivity].
  - apply Z.ltb_ge in E. destruct (bk j) as [|i l] eqn:Eb; [reflexivity|]. exfalso.
    assert (Hin : In i (bk j)) by (rewrite Eb; left; reflexivity).
    apply bucket_In in Hin. destruct Hin as [Hi Hrep].
    destruct (rep_facts _ _ _ _ i SF Hi) as [_ [H2 _]]. rewrite Hrep in H2. lia.
Qed.

Lemma NoDup_concat_buckets : forall l, NoDup l -> NoDup (concat (map bk l)).
Proof.
  induction l as [|a l IH]; intros Hnd; simpl.
  - constructor.
  - inversion Hnd as [|a' l' Hni Hnd']; subst. apply NoDup_app_intro.
    + unfold bucket. apply NoDup_filter. apply seq_NoDup.
    + apply IH. exact Hnd'.
    + intros x Hx Hc. apply in_concat in Hc. destruct Hc as [b [Hb Hxb]].
      apply in_map_iff in Hb. destruct Hb as [j [Hj Hjl]]. subst b.
      apply bucket_In in Hx. apply bucket_In in Hxb. destruct Hx as [_ Hx]. destruct Hxb as [_ Hxb].
      apply Hni. rewrite <- Hx, Hxb. exact Hjl.
Qed.

Lemma Path_rep : forall r a, (getZ si r < 0)%Z -> Path post si r a -> rep si a = r.
Proof.
  intros r a Hr H. inversion H as [Heq | a0 b Hp Hin Hpar Hz Hd Heq].
  - subst a. apply rep_neg. exact Hr.
  - apply rep_of. exact Hz.
Qed.

Lemma sorted_chain : forall l, StronglySorted lt l ->
  (forall u, In u (tl l) -> exists w, In w l /\ par w = Some u /\ deg w = deg u + 1) -> Chain adj l.
Proof.
  induction l as [|a1 l IH]; intros Hs Hc.
  - constructor.
  - destruct l as [|a2 rest]; [constructor|].
    inversion Hs as [|x y Hs' Hf1]; subst. inversion Hs' as [|x y Hs'' Hf2]; subst.
    rewrite Forall_forall in Hf1, Hf2.
    assert (Hp1 : par a1 = Some a2 /\ deg a1 = deg a2 + 1).
    { destruct (Hc a2 ltac:(left; reflexivity)) as [w [Hw [Hp Hd]]].
      pose proof (par_lt w a2 Hp) as Hlt.
      destruct Hw as [Hw|[Hw|Hw]].
      - subst w. split; assumption.
      - subst w. lia.
      - apply Hf2 in Hw. lia. }
    destruct Hp1 as [Hp1 Hd1]. apply Chain_cons; [exact Hp1|exact Hd1|].
    apply IH; [exact Hs'|]. intros u Hu. simpl in Hu.
    destruct (Hc u ltac:(right; exact Hu)) as [w [Hw [Hp Hd]]].
    exists w. split; [|split; assumption].
    destruct Hw as [Hw|Hw]; [|exact Hw]. exfalso. subst w.
    rewrite Hp1 in Hp. injection Hp as Hp. subst u. apply Hf2 in Hu. lia.
Qed.

Lemma bucket_chain : forall r, In r R -> Chain adj (bk r).
Proof.
  intros r Hr. pose proof (proj2 (proj1 (R_In r) Hr)) as Hrz.
  apply sorted_chain; [apply bucket_sorted|].
  intros u Hu. pose proof (bucket_sorted r) as Hs.
  destruct (bk r) as [|h t] eqn:Eb; [destruct Hu|]. simpl in Hu.
  inversion Hs as [|x y Hs' Hf]; subst. rewrite Forall_forall in Hf.
  assert (Hh : In h (bk r)) by (rewrite Eb; left; reflexivity).
  assert (Huin : In u (bk r)) by (rewrite Eb; right; exact Hu).
  apply bucket_In in Hh. apply bucket_In in Huin. destruct Hh as [Hhn Hhr]. destruct Huin as [Hun Hur].
  pose proof (S_path _ _ _ _ SF h Hhn) as Ph. rewrite Hhr in Ph. apply Path_le in Ph.
  pose proof (Hf u Hu) as Hlt.
  pose proof (S_path _ _ _ _ SF u Hun) as Pu. rewrite Hur in Pu.
  inversion Pu as [Heq | a b Hp Hin Hpar Hz Hd Heq].
  - lia.
  - subst b. exists a. split; [|split; assumption].
    rewrite <- Eb. apply bucket_In. split; [apply post_lt; exact Hin|]. apply Path_rep; assumption.
Qed.

Definition cpar (r : nat) : option nat :=
  match nth r sp None with None => None | Some x => PostOrder.position (fun y => y =? x) R end.

Lemma compact_eq : compact n si sp = map cpar R.
Proof. unfold compact. rewrite map_map. reflexivity. Qed.

Lemma snd_of_bk : forall i, i < length R -> snd_of (map bk R) i = bk (nth i R 0).
Proof.
  intros i Hi. unfold snd_of. rewrite (nth_indep _ [] (bk 0)) by (rewrite map_length; exact Hi).
  apply map_nth.
Qed.

Lemma spar_of_cpar : forall i, i < length R -> spar_of (map cpar R) i = cpar (nth i R 0).
Proof.
  intros i Hi. unfold spar_of. rewrite (nth_indep _ None (cpar 0)) by (rewrite map_length; exact Hi).
  apply map_nth.
Qed.

Lemma final_PS : PS adj (map bk R) (map cpar R).
Proof.
  constructor.
  - rewrite !map_length. reflexivity.
  - intros i Hi. rewrite map_length in Hi. rewrite (snd_of_bk i Hi).
    intro He. pose proof (self_in_bucket _ (nth_In R 0 Hi)) as Hin. rewrite He in Hin. destruct Hin.
  - apply NoDup_concat_buckets. apply R_NoDup.
  - intros v. split.
    + intros Hv. apply in_concat. exists (bk (rep si v)). split.
      * apply in_map. apply rep_in_R. exact Hv.
      * apply bucket_In. split; [exact Hv|reflexivity].
    + intros Hv. apply in_concat in Hv. destruct Hv as [b [Hb Hvb]].
      apply in_map_iff in Hb. destruct Hb as [j [Hj _]]. subst b. apply bucket_In in Hvb. tauto.
  - intros i Hi. rewrite map_length in Hi. rewrite (snd_of_bk i Hi). apply bucket_chain. apply nth_In. exact Hi.
  - intros i Hi. rewrite map_length in Hi. unfold ParentOK.
    rewrite (snd_of_bk i Hi), (spar_of_cpar i Hi).
    set (r := nth i R 0). assert (Hr : In r R) by (apply nth_In; exact Hi).
    pose proof (proj2 (proj1 (R_In r) Hr)) as Hrz.
    set (vk := last (bk r) 0).
    assert (Hvk : In vk (bk r)).
    { apply last_In. intro He. pose proof (self_in_bucket r Hr) as Hin. rewrite He in Hin. destruct Hin. }
    pose proof Hvk as Hvk'. apply bucket_In in Hvk'. destruct Hvk' as [Hvn Hvr].
    pose proof (S_path _ _ _ _ SF vk Hvn) as Pvk. rewrite Hvr in Pvk.
    split.
    + intros Hlast. unfold cpar. destruct (nth r sp None) as [x|] eqn:Ex; [exfalso|reflexivity].
      destruct (S_none _ _ _ _ SF r (proj1 (proj1 (R_In r) Hr)) ltac:(rewrite Ex; discriminate))
        as [w [p0 [Hw [Hp [Hrep Hz]]]]].
      pose proof (post_lt w Hw) as Hwn.
      pose proof (S_path _ _ _ _ SF w Hwn) as Pw. rewrite Hrep in Pw.
      assert (Hne : w <> vk).
      { intro He. subst w. rewrite (parent_of_last adj vk Hlast) in Hp. discriminate. }
      destruct (Path_linear post si r (S vk) vk ltac:(lia) w Pw Pvk ltac:(lia))
        as [_ [a' [Ha [_ [Hza _]]]]].
      rewrite Hp in Ha. injection Ha as Ha. subst a'. exact (Hz Hza).
    + intros Hnl. destruct (parent_of_nonroot adj Hfill vk ltac:(lia)) as [p Hp].
      pose proof (par_lt vk p Hp) as Hlt.
      assert (Hrp : rep si p <> r).
      { intro He. assert (Hin : In p (bk r)) by (apply bucket_In; split; [lia|exact He]).
        pose proof (sorted_le_last (bk r) (bucket_sorted r) p Hin) as Hle. fold vk in Hle. lia. }
      pose proof (S_sp _ _ _ _ SF vk p (post_all vk Hvn) (post_all p ltac:(lia)) Hp
                    ltac:(rewrite Hvr; intro He; apply Hrp; symmetry; exact He)) as Hsp.
      rewrite Hvr in Hsp.
      destruct (position_In R (rep si p) (rep_in_R p ltac:(lia))) as [q [Hq [Hql Hqn]]].
      exists p, q. split; [exact Hp|]. split; [unfold cpar; rewrite Hsp; exact Hq|].
      split; [rewrite map_length; exact Hql|].
      rewrite (snd_of_bk q Hql). rewrite Hqn. apply bucket_In. split; [lia|reflexivity].
Qed.

End Loop.

Lemma ps_root_eq : ps_root parent = root.
Proof.
  unfold ps_root. rewrite (position_first _ is_none None parent root); [reflexivity| | |].
  - unfold parent_list. rewrite map_length, seq_length. lia.
  - rewrite parent_nth by lia. rewrite par_root. reflexivity.
  - intros j Hj. rewrite parent_nth by lia.
    destruct (parent_of_nonroot adj Hfill j ltac:(lia)) as [p Hp]. rewrite Hp. reflexivity.
Qed.

Lemma parent_list_length : length parent = n.
Proof. unfold parent_list. rewrite map_length, seq_length. reflexivity. Qed.

Lemma find_supernodes_PS : forall post, Permutation post (seq 0 n) ->
  (forall w v, par w = Some v -> exists l1 l2 l3, post = l1 ++ w :: l2 ++ v :: l3) ->
  let '(snodes, sp) := find_supernodes parent post dgl in PS adj snodes sp.
Proof.
  intros post Hperm Hbefore. unfold find_supernodes, pothen_sun, ps_loop.
  rewrite ps_root_eq, parent_list_length. fold (final_st post).
  rewrite (snodes_eq post Hperm Hbefore), compact_eq.
  exact (final_PS post Hperm Hbefore).
Qed.

End Core.

(** * Main theorems: the composition of [SuperNodeTree::new] *)

Section Glue.
Variable adj : list (list nat).
Hypothesis Hwf : WF adj.
Hypothesis Hfill : Filled adj.
Hypothesis Hn : 0 < length adj.

Local Notation n := (length adj).
Local Notation pp := (map to_par (parent_list adj)).

Lemma pp_length : length pp = n.
Proof. rewrite map_length. unfold parent_list. rewrite map_length, seq_length. reflexivity. Qed.

Lemma pp_nth : forall w, w < n -> PostOrder.parent_of pp w = to_par (parent_of adj w).
Proof.
  intros w Hw. unfold PostOrder.parent_of, parent_list. rewrite map_map. apply nth_map_seq. exact Hw.
Qed.

Lemma pp_nth_ge : forall w, n <= w -> PostOrder.parent_of pp w = PostOrder.Dead.
Proof. intros w Hw. unfold PostOrder.parent_of. apply nth_overflow. rewrite pp_length. exact Hw. Qed.

Lemma pp_par : forall w v, PostOrder.parent_of pp w = PostOrder.Par v -> parent_of adj w = Some v.
Proof.
  intros w v H. destruct (Nat.lt_ge_cases w n) as [Hw|Hw].
  - rewrite (pp_nth w Hw) in H. destruct (parent_of adj w) as [p|]; simpl in H; [|discriminate].
    injection H as H. subst p. reflexivity.
  - rewrite (pp_nth_ge w Hw) in H. discriminate.
Qed.

Lemma pp_root : PostOrder.find_root pp = Some (n - 1).
Proof.
  unfold PostOrder.find_root. apply (position_first _ PostOrder.is_root PostOrder.Dead).
  - rewrite pp_length. lia.
  - fold (PostOrder.parent_of pp (n - 1)). rewrite pp_nth by lia.
    rewrite (parent_of_last adj (n - 1)) by lia. reflexivity.
  - intros j Hj. fold (PostOrder.parent_of pp j). rewrite pp_nth by lia.
    destruct (parent_of_nonroot adj Hfill j ltac:(lia)) as [p Hp]. rewrite Hp. reflexivity.
Qed.

Lemma pp_forest : PostOrder.Forest pp.
Proof.
  split; [exists (n - 1); exact pp_root|]. exists (fun x => x). intros w v H.
  apply pp_par in H. pose proof (parent_gt adj Hwf w v H). rewrite pp_length. lia.
Qed.

Lemma pp_reaches : forall m v, n - 1 - v < m -> v < n -> PostOrder.Reaches pp (n - 1) v.
Proof.
  induction m as [|m IH]; intros v Hm Hv; [lia|].
  destruct (Nat.eq_dec v (n - 1)) as [He|Hne].
  - subst v. exists 0. reflexivity.
  - destruct (parent_of_nonroot adj Hfill v ltac:(lia)) as [p Hp].
    pose proof (parent_gt adj Hwf v p Hp) as Hlt.
    destruct (IH p ltac:(lia) ltac:(lia)) as [k Hk]. exists (S k).
    simpl. rewrite (pp_nth v Hv), Hp. simpl. exact Hk.
Qed.

Theorem pothen_sun_PS :
  let '(snodes, sp) := nomerge_tree adj in PS adj snodes sp.
Proof.
  unfold nomerge_tree.
  destruct (PostOrder.post_order_all_live pp (n - 1) pp_forest pp_root) as [post [Hpo [Hperm [Hbef _]]]].
  { rewrite pp_length. intros v Hv. apply (pp_reaches (S (n - 1 - v))); lia. }
  rewrite pp_length in Hpo, Hperm. rewrite Hpo.
  apply (find_supernodes_PS adj Hwf Hfill Hn post Hperm).
  intros w v Hp. pose proof (parent_gt adj Hwf w v Hp) as Hlt.
  apply (Hbef w v); [|rewrite pp_length; lia].
  rewrite pp_nth by lia. rewrite Hp. reflexivity.
Qed.

End Glue.

Theorem pothen_sun_ps_ok : forall adj, WF adj -> Filled adj -> length adj > 0 ->
  let '(snodes, sp) := nomerge_tree adj in ps_ok adj snodes sp = true.
Proof.
  intros adj Hwf Hfill Hn. pose proof (pothen_sun_PS adj Hwf Hfill Hn) as H.
  destruct (nomerge_tree adj) as [snodes sp]. apply PS_ps_ok. exact H.
Qed.

(** with [NoMerge.nomerge_valid_partial]: the output of the model is a clique tree *)
Corollary nomerge_valid : forall adj, WF adj -> Filled adj -> length adj > 0 ->
  let '(snodes, sp) := nomerge_tree adj in NoMergeValid adj snodes sp.
Proof.
  intros adj Hwf Hfill Hn. pose proof (pothen_sun_ps_ok adj Hwf Hfill Hn) as H.
  destruct (nomerge_tree adj) as [snodes sp].
  exact (nomerge_valid_partial adj snodes sp Hwf Hfill H).
Qed.

(** the same with the executable pattern checks, as the harness uses it *)
Corollary nomerge_tree_check : forall adj,
  wf_b adj && filled_b adj && (0 <? length adj) = true ->
  ps_ok adj (fst (nomerge_tree adj)) (snd (nomerge_tree adj)) = true.
Proof.
  intros adj H. apply andb_true_iff in H. destruct H as [H H3].
  apply andb_true_iff in H. destruct H as [H1 H2]. apply Nat.ltb_lt in H3.
  pose proof (pothen_sun_ps_ok adj (wf_b_spec adj H1) (filled_b_spec adj H2) H3) as Hok.
  destruct (nomerge_tree adj) as [snodes sp]. exact Hok.
Qed.

Example pt_vee_valid : NoMergeValid ex_vee [[0; 2]; [1]] [None; Some 0].
Proof.
  pose proof (nomerge_valid ex_vee (wf_b_spec ex_vee eq_refl) (filled_b_spec ex_vee eq_refl)
                ltac:(simpl; lia)) as H.
  rewrite pt_vee in H. exact H.
Qed.

Print Assumptions pothen_sun_PS.
Print Assumptions pothen_sun_ps_ok.
Print Assumptions nomerge_valid.
Print Assumptions nomerge_tree_check.
