(* Reorder.v -- model and correctness of
   SuperNodeTree::reorder_snode_consecutively
   (clarabel src/solver/chordal/supernode_tree.rs).

   Self-contained, stdlib only, axiom free. *)

From Coq Require Import List Arith Lia Bool Permutation Sorting.Sorted.
Import ListNotations.

(* ------------------------------------------------------------------ *)
(* Insertion sort (model of p[k..k+n].sort())                          *)
(* ------------------------------------------------------------------ *)

Fixpoint insert (x : nat) (l : list nat) : list nat :=
  match l with
  | [] => [x]
  | y :: t => if x <=? y then x :: y :: t else y :: insert x t
  end.

Fixpoint isort (l : list nat) : list nat :=
  match l with
  | [] => []
  | x :: t => insert x (isort t)
  end.

Lemma insert_perm : forall x l, Permutation (insert x l) (x :: l).
Proof.
  intros x l; induction l as [|a l IHl]; simpl.
  - reflexivity.
  - destruct (x <=? a).
    + reflexivity.
    + eapply perm_trans; [apply perm_skip, IHl | apply perm_swap].
Qed.

Lemma isort_perm : forall l, Permutation (isort l) l.
Proof.
  induction l as [|a l IHl]; simpl.
  - reflexivity.
  - eapply perm_trans; [apply insert_perm | apply perm_skip, IHl].
Qed.

Lemma isort_length : forall l, length (isort l) = length l.
Proof. intros l; apply Permutation_length, isort_perm. Qed.

Lemma insert_sorted : forall x l, Sorted le l -> Sorted le (insert x l).
Proof.
  intros x l Hs; induction Hs as [|a l Hs IHs Hhd]; simpl.
  - repeat constructor.
  - destruct (Nat.leb_spec x a) as [Hle|Hgt].
    + constructor; [constructor; assumption | constructor; assumption].
    + constructor; [assumption|].
      destruct l as [|b l]; simpl.
      * constructor; lia.
      * inversion Hhd as [|b' l' Hab]; subst.
        destruct (x <=? b); constructor; lia.
Qed.

Lemma isort_sorted : forall l, Sorted le (isort l).
Proof.
  induction l as [|a l IHl]; simpl; [constructor | apply insert_sorted, IHl].
Qed.

(* ------------------------------------------------------------------ *)
(* The model                                                           *)
(* ------------------------------------------------------------------ *)

(* p : concatenation, over the post-ordered live cliques, of the sorted
   supernodes. *)
Definition build_p (snode : list (list nat)) (post : list nat) : list nat :=
  concat (map (fun c => isort (nth c snode [])) post).

(* in-place update of one slot (no-op when out of range) *)
Fixpoint upd {A : Type} (i : nat) (x : A) (l : list A) : list A :=
  match l, i with
  | [], _ => []
  | _ :: t, 0 => x :: t
  | h :: t, S i' => h :: upd i' x t
  end.

(* the loop over snode_post: state = current snode vector, k = running
   offset.  As in the Rust code the length n is read from the *current*
   state. *)
Fixpoint snodes_go (post : list nat) (k : nat) (st : list (list nat))
  : list (list nat) :=
  match post with
  | [] => st
  | c :: t =>
      let n := length (nth c st []) in
      snodes_go t (k + n) (upd c (seq k n) st)
  end.

Definition new_snodes (snode : list (list nat)) (post : list nat)
  : list (list nat) := snodes_go post 0 snode.

Fixpoint index_of (v : nat) (l : list nat) : nat :=
  match l with
  | [] => 0
  | x :: t => if Nat.eqb x v then 0 else S (index_of v t)
  end.

Definition invperm (p : list nat) : list nat :=
  map (fun v => index_of v p) (seq 0 (length p)).

Definition new_seps (p_inv : list nat) (seps : list (list nat))
  : list (list nat) := map (map (fun x => nth x p_inv 0)) seps.

Definition new_ordering (p : list nat) (ordering : list nat) : list nat :=
  map (fun k => nth (nth k p 0) ordering 0) (seq 0 (length ordering)).

Definition reorder (snode seps : list (list nat)) (post ordering : list nat)
  : list (list nat) * list (list nat) * list nat :=
  let p := build_p snode post in
  let p_inv := invperm p in
  (new_snodes snode post, new_seps p_inv seps, new_ordering p ordering).

(* ------------------------------------------------------------------ *)
(* Generic list lemmas                                                 *)
(* ------------------------------------------------------------------ *)

Lemma nth_map_seq : forall (f : nat -> nat) n i d,
  i < n -> nth i (map f (seq 0 n)) d = f i.
Proof.
  intros f n i d Hi.
  rewrite (nth_indep _ d (f 0)) by (rewrite map_length, seq_length; exact Hi).
  rewrite map_nth, seq_nth by exact Hi. reflexivity.
Qed.

Lemma map_nth_seq_seg : forall (P l R : list nat) d,
  map (fun j => nth j (P ++ l ++ R) d) (seq (length P) (length l)) = l.
Proof.
  intros P l; revert P; induction l as [|a l IHl]; intros P R d; simpl.
  - reflexivity.
  - f_equal.
    + rewrite app_nth2 by lia. rewrite Nat.sub_diag. reflexivity.
    + specialize (IHl (P ++ [a]) R d).
      rewrite app_length in IHl; simpl in IHl.
      rewrite Nat.add_1_r in IHl.
      rewrite <- app_assoc in IHl. simpl in IHl. exact IHl.
Qed.

Lemma map_nth_seq_all : forall (l : list nat) d,
  map (fun j => nth j l d) (seq 0 (length l)) = l.
Proof.
  intros l d.
  pose proof (map_nth_seq_seg [] l [] d) as H.
  simpl in H. rewrite app_nil_r in H. exact H.
Qed.

Lemma map_eq_In : forall (A B : Type) (f g : A -> B) l c,
  map f l = map g l -> In c l -> f c = g c.
Proof.
  intros A B f g l c; induction l as [|a l IHl]; simpl; intros Heq Hin.
  - contradiction.
  - inversion Heq as [[Hhd Htl]].
    destruct Hin as [->|Hin]; [exact Hhd | apply IHl; assumption].
Qed.

Lemma upd_length : forall (A : Type) i (x : A) l, length (upd i x l) = length l.
Proof.
  intros A i x l; revert i; induction l as [|a l IHl]; intros [|i]; simpl; auto.
Qed.

Lemma nth_upd_same : forall (A : Type) i (x : A) l d,
  i < length l -> nth i (upd i x l) d = x.
Proof.
  intros A i x l; revert i; induction l as [|a l IHl]; intros [|i] d Hi;
    simpl in *; try lia; auto.
  apply IHl; lia.
Qed.

Lemma nth_upd_other : forall (A : Type) i j (x : A) l d,
  i <> j -> nth j (upd i x l) d = nth j l d.
Proof.
  intros A i j x l; revert i j; induction l as [|a l IHl];
    intros [|i] [|j] d Hne; simpl; auto; try lia.
Qed.

(* ------------------------------------------------------------------ *)
(* index_of / invperm                                                  *)
(* ------------------------------------------------------------------ *)

Lemma index_of_in : forall v l d,
  In v l -> index_of v l < length l /\ nth (index_of v l) l d = v.
Proof.
  intros v l d; induction l as [|a l IHl]; simpl; intros Hin.
  - contradiction.
  - destruct (Nat.eqb_spec a v) as [Heq|Hne].
    + split; [lia | exact Heq].
    + destruct Hin as [Heq|Hin]; [congruence|].
      destruct (IHl Hin) as [Hlt Hnth]. split; [lia | exact Hnth].
Qed.

Lemma index_of_nth : forall l i d,
  NoDup l -> i < length l -> index_of (nth i l d) l = i.
Proof.
  induction l as [|a l IHl]; simpl; intros i d Hnd Hi.
  - lia.
  - inversion Hnd as [|x t Hnin Hnd']; subst.
    destruct i as [|i].
    + rewrite Nat.eqb_refl. reflexivity.
    + destruct (Nat.eqb_spec a (nth i l d)) as [Heq|Hne].
      * exfalso; apply Hnin; rewrite Heq; apply nth_In; lia.
      * f_equal; apply IHl; [assumption | lia].
Qed.

Lemma invperm_length : forall p, length (invperm p) = length p.
Proof. intros p; unfold invperm; rewrite map_length, seq_length; reflexivity. Qed.

Lemma nth_invperm : forall p v,
  v < length p -> nth v (invperm p) 0 = index_of v p.
Proof. intros p v Hv; unfold invperm; apply nth_map_seq; exact Hv. Qed.

Section PermFacts.
  Variable n : nat.
  Variable p : list nat.
  Hypothesis Hp : Permutation p (seq 0 n).

  Lemma perm_len : length p = n.
  Proof. rewrite (Permutation_length Hp), seq_length; reflexivity. Qed.

  Lemma perm_nodup : NoDup p.
  Proof.
    eapply Permutation_NoDup; [apply Permutation_sym, Hp | apply seq_NoDup].
  Qed.

  Lemma perm_in : forall v, In v p <-> v < n.
  Proof.
    intros v; split; intros H.
    - apply (Permutation_in _ Hp) in H. apply in_seq in H. lia.
    - apply (Permutation_in _ (Permutation_sym Hp)). apply in_seq. lia.
  Qed.

  Lemma perm_nth_lt : forall i, i < n -> nth i p 0 < n.
  Proof.
    intros i Hi. apply perm_in. apply nth_In. rewrite perm_len. exact Hi.
  Qed.

  Lemma invperm_lt : forall v, v < n -> nth v (invperm p) 0 < n.
  Proof.
    intros v Hv. rewrite nth_invperm by (rewrite perm_len; exact Hv).
    destruct (index_of_in v p 0) as [Hlt _]; [apply perm_in; exact Hv|].
    rewrite perm_len in Hlt. exact Hlt.
  Qed.

  Lemma invperm_left : forall i, i < n -> nth (nth i p 0) (invperm p) 0 = i.
  Proof.
    intros i Hi.
    rewrite nth_invperm by (rewrite perm_len; apply perm_nth_lt; exact Hi).
    apply index_of_nth; [apply perm_nodup | rewrite perm_len; exact Hi].
  Qed.

  Lemma invperm_right : forall v, v < n -> nth (nth v (invperm p) 0) p 0 = v.
  Proof.
    intros v Hv. rewrite nth_invperm by (rewrite perm_len; exact Hv).
    apply index_of_in. apply perm_in. exact Hv.
  Qed.

  Lemma invperm_perm : Permutation (invperm p) (seq 0 n).
  Proof.
    apply Permutation_sym, NoDup_Permutation_bis.
    - apply seq_NoDup.
    - rewrite seq_length, invperm_length, perm_len. lia.
    - intros v Hv. apply in_seq in Hv.
      assert (Hv' : v < n) by lia.
      rewrite <- (invperm_left v Hv').
      apply nth_In. rewrite invperm_length, perm_len.
      apply perm_nth_lt. exact Hv'.
  Qed.

  Variable ordering : list nat.
  Hypothesis Hlen : length ordering = n.

  Lemma new_ordering_eq :
    new_ordering p ordering = map (fun v => nth v ordering 0) p.
  Proof.
    unfold new_ordering. rewrite Hlen, <- perm_len.
    transitivity (map (fun v => nth v ordering 0)
                      (map (fun j => nth j p 0) (seq 0 (length p)))).
    - rewrite map_map. reflexivity.
    - rewrite map_nth_seq_all. reflexivity.
  Qed.

  Lemma nth_new_ordering : forall k,
    k < n -> nth k (new_ordering p ordering) 0 = nth (nth k p 0) ordering 0.
  Proof.
    intros k Hk. unfold new_ordering. rewrite Hlen.
    apply (nth_map_seq (fun k => nth (nth k p 0) ordering 0)). exact Hk.
  Qed.

  Lemma new_ordering_perm_of_ordering :
    Permutation (new_ordering p ordering) ordering.
  Proof.
    rewrite new_ordering_eq.
    eapply perm_trans; [apply Permutation_map, Hp|].
    rewrite <- Hlen, map_nth_seq_all. reflexivity.
  Qed.

  Lemma sep_preserved : forall sp,
    (forall x, In x sp -> x < n) ->
    map (fun v => nth v (new_ordering p ordering) 0)
        (map (fun x => nth x (invperm p) 0) sp)
    = map (fun v => nth v ordering 0) sp.
  Proof.
    intros sp Hsp. rewrite map_map. apply map_ext_in.
    intros x Hx. specialize (Hsp x Hx).
    rewrite nth_new_ordering by (apply invperm_lt; exact Hsp).
    rewrite invperm_right by exact Hsp. reflexivity.
  Qed.
End PermFacts.

(* ------------------------------------------------------------------ *)
(* build_p                                                             *)
(* ------------------------------------------------------------------ *)

Lemma build_p_perm_concat : forall snode post,
  Permutation (build_p snode post) (concat (map (fun c => nth c snode []) post)).
Proof.
  intros snode post; unfold build_p; induction post as [|c t IHt]; simpl.
  - reflexivity.
  - apply Permutation_app; [apply isort_perm | exact IHt].
Qed.

(* ------------------------------------------------------------------ *)
(* new_snodes                                                          *)
(* ------------------------------------------------------------------ *)

Fixpoint ranges (k : nat) (lens : list nat) : list (list nat) :=
  match lens with
  | [] => []
  | m :: t => seq k m :: ranges (k + m) t
  end.

Lemma concat_ranges : forall lens k,
  concat (ranges k lens) = seq k (list_sum lens).
Proof.
  induction lens as [|m t IHt]; intros k; simpl.
  - reflexivity.
  - rewrite IHt, <- seq_app. reflexivity.
Qed.

Lemma length_concat_sum : forall (ls : list (list nat)),
  length (concat ls) = list_sum (map (@length nat) ls).
Proof.
  induction ls as [|l t IHt]; simpl; [reflexivity|].
  rewrite app_length, IHt. reflexivity.
Qed.

Lemma snodes_go_length : forall post k st,
  length (snodes_go post k st) = length st.
Proof.
  induction post as [|c t IHt]; intros k st; simpl; [reflexivity|].
  rewrite IHt, upd_length. reflexivity.
Qed.

(* slots not named by post are untouched *)
Lemma snodes_go_other : forall post k st c,
  ~ In c post -> nth c (snodes_go post k st) [] = nth c st [].
Proof.
  induction post as [|c' t IHt]; intros k st c Hnin; simpl; [reflexivity|].
  rewrite IHt by (intros Hin; apply Hnin; right; exact Hin).
  apply nth_upd_other. intros Heq; apply Hnin; left; exact Heq.
Qed.

Lemma snodes_go_ranges : forall post k st,
  NoDup post ->
  (forall c, In c post -> c < length st) ->
  map (fun c => nth c (snodes_go post k st) []) post
  = ranges k (map (fun c => length (nth c st [])) post).
Proof.
  induction post as [|c t IHt]; intros k st Hnd Hlt; simpl; [reflexivity|].
  inversion Hnd as [|x l Hnin Hnd']; subst.
  f_equal.
  - rewrite snodes_go_other by exact Hnin.
    apply nth_upd_same. apply Hlt; left; reflexivity.
  - rewrite IHt.
    + f_equal. apply map_ext_in. intros c' Hc'.
      rewrite nth_upd_other; [reflexivity|].
      intros Heq; subst c'; contradiction.
    + exact Hnd'.
    + intros c' Hc'. rewrite upd_length. apply Hlt; right; exact Hc'.
Qed.

(* reading p through the ranges gives back the blocks *)
Lemma ranges_read : forall (ls : list (list nat)) (P : list nat) d,
  map (map (fun j => nth j (P ++ concat ls) d))
      (ranges (length P) (map (@length nat) ls)) = ls.
Proof.
  induction ls as [|l t IHt]; intros P d; simpl; [reflexivity|].
  f_equal.
  - apply map_nth_seq_seg.
  - specialize (IHt (P ++ l) d).
    rewrite app_length, <- app_assoc in IHt. exact IHt.
Qed.

(* ------------------------------------------------------------------ *)
(* Main theorem                                                        *)
(* ------------------------------------------------------------------ *)

Definition PRE (n : nat) (snode : list (list nat)) (post ordering : list nat)
  : Prop :=
  NoDup post /\
  (forall c, In c post -> c < length snode) /\
  Permutation (concat (map (fun c => nth c snode []) post)) (seq 0 n) /\
  length ordering = n /\
  Permutation ordering (seq 0 n).

Section Main.
  Variable n : nat.
  Variables snode : list (list nat).
  Variables post ordering : list nat.
  Hypothesis Hpre : PRE n snode post ordering.

  Let p := build_p snode post.
  Let p_inv := invperm p.
  Let ns := new_snodes snode post.
  Let no := new_ordering p ordering.

  Lemma main_p_perm : Permutation p (seq 0 n).
  Proof.
    destruct Hpre as (_ & _ & Hpart & _ & _).
    eapply perm_trans; [apply build_p_perm_concat | exact Hpart].
  Qed.

  Lemma main_ns_ranges :
    map (fun c => nth c ns []) post
    = ranges 0 (map (fun c => length (nth c snode [])) post).
  Proof.
    destruct Hpre as (Hnd & Hlt & _).
    unfold ns, new_snodes. apply snodes_go_ranges; assumption.
  Qed.

  Lemma main_consecutive : concat (map (fun c => nth c ns []) post) = seq 0 n.
  Proof.
    rewrite main_ns_ranges, concat_ranges. f_equal.
    destruct Hpre as (_ & _ & Hpart & _ & _).
    apply Permutation_length in Hpart.
    rewrite seq_length, length_concat_sum, map_map in Hpart. exact Hpart.
  Qed.

  Lemma main_ordering_perm : Permutation no (seq 0 n).
  Proof.
    destruct Hpre as (_ & _ & _ & Hlen & Hord).
    eapply perm_trans; [|exact Hord].
    apply (new_ordering_perm_of_ordering n p main_p_perm ordering Hlen).
  Qed.

  Lemma main_ns_read : forall c, In c post ->
    map (fun j => nth j p 0) (nth c ns []) = isort (nth c snode []).
  Proof.
    intros c Hc.
    pose proof (ranges_read (map (fun c => isort (nth c snode [])) post) [] 0)
      as Hrd.
    simpl in Hrd. fold (build_p snode post) in Hrd. fold p in Hrd.
    rewrite map_map in Hrd.
    rewrite (map_ext (fun x => length (isort (nth x snode [])))
                     (fun x => length (nth x snode []))) in Hrd
      by (intros x; apply isort_length).
    rewrite <- main_ns_ranges, map_map in Hrd.
    exact (map_eq_In _ _ _ _ _ _ Hrd Hc).
  Qed.

  Lemma main_snode_meaning : forall c, In c post -> forall u,
    In u (map (fun v => nth v no 0) (nth c ns []))
    <-> In u (map (fun v => nth v ordering 0) (nth c snode [])).
  Proof.
    intros c Hc u.
    destruct Hpre as (_ & _ & _ & Hlen & _).
    assert (Hbound : forall v, In v (nth c ns []) -> v < n).
    { intros v Hv.
      assert (Hin : In v (concat (map (fun c => nth c ns []) post))).
      { apply in_concat. exists (nth c ns []). split; [|exact Hv].
        apply in_map_iff. exists c. split; [reflexivity | exact Hc]. }
      rewrite main_consecutive in Hin. apply in_seq in Hin. lia. }
    assert (Heq : map (fun v => nth v no 0) (nth c ns [])
                  = map (fun v => nth v ordering 0) (isort (nth c snode []))).
    { rewrite <- (main_ns_read c Hc), map_map. apply map_ext_in.
      intros v Hv. unfold no.
      apply (nth_new_ordering n p ordering Hlen).
      apply Hbound; exact Hv. }
    rewrite Heq.
    pose proof (Permutation_map (fun v => nth v ordering 0)
                  (isort_perm (nth c snode []))) as Hperm.
    split; intros Hin.
    - exact (Permutation_in _ Hperm Hin).
    - exact (Permutation_in _ (Permutation_sym Hperm) Hin).
  Qed.

  Theorem reorder_is_permutation_section :
    (* 1 *)
    Permutation p (seq 0 n) /\
    (forall i, i < n -> nth (nth i p 0) p_inv 0 = i) /\
    (forall v, v < n -> nth (nth v p_inv 0) p 0 = v) /\
    (* 2 *)
    concat (map (fun c => nth c ns []) post) = seq 0 n /\
    (* 3 *)
    Permutation no (seq 0 n) /\
    (* 4, supernodes *)
    (forall c, In c post -> forall u,
       In u (map (fun v => nth v no 0) (nth c ns []))
       <-> In u (map (fun v => nth v ordering 0) (nth c snode []))) /\
    (* 4, separators *)
    (forall sp, (forall x, In x sp -> x < n) ->
       map (fun v => nth v no 0) (map (fun x => nth x p_inv 0) sp)
       = map (fun v => nth v ordering 0) sp).
  Proof.
    pose proof main_p_perm as Hp.
    destruct Hpre as (_ & _ & _ & Hlen & _).
    split; [exact Hp|].
    split; [apply (invperm_left n p Hp)|].
    split; [apply (invperm_right n p Hp)|].
    split; [exact main_consecutive|].
    split; [exact main_ordering_perm|].
    split; [exact main_snode_meaning|].
    apply (sep_preserved n p Hp ordering Hlen).
  Qed.
End Main.

Theorem reorder_is_permutation :
  forall (n : nat) (snode seps : list (list nat)) (post ordering : list nat),
    PRE n snode post ordering ->
    let p := build_p snode post in
    let p_inv := invperm p in
    let ns := new_snodes snode post in
    let no := new_ordering p ordering in
    reorder snode seps post ordering = (ns, new_seps p_inv seps, no) /\
    (* 1 *)
    Permutation p (seq 0 n) /\
    (forall i, i < n -> nth (nth i p 0) p_inv 0 = i) /\
    (forall v, v < n -> nth (nth v p_inv 0) p 0 = v) /\
    (* 2 *)
    concat (map (fun c => nth c ns []) post) = seq 0 n /\
    (* 3 *)
    Permutation no (seq 0 n) /\
    (* 4, supernodes *)
    (forall c, In c post -> forall u,
       In u (map (fun v => nth v no 0) (nth c ns []))
       <-> In u (map (fun v => nth v ordering 0) (nth c snode []))) /\
    (* 4, separators *)
    (forall sp, (forall x, In x sp -> x < n) ->
       map (fun v => nth v no 0) (map (fun x => nth x p_inv 0) sp)
       = map (fun v => nth v ordering 0) sp).
Proof.
  intros n snode seps post ordering Hpre p p_inv ns no.
  split; [reflexivity|].
  exact (reorder_is_permutation_section n snode post ordering Hpre).
Qed.

(* Extras: the rest of the snode vector is untouched and its length is kept;
   all separators at once. *)
Lemma new_snodes_length : forall snode post,
  length (new_snodes snode post) = length snode.
Proof. intros; apply snodes_go_length. Qed.

Lemma new_snodes_untouched : forall snode post c,
  ~ In c post -> nth c (new_snodes snode post) [] = nth c snode [].
Proof. intros; apply snodes_go_other; assumption. Qed.

Corollary new_seps_meaning :
  forall n snode seps post ordering,
    PRE n snode post ordering ->
    (forall sp x, In sp seps -> In x sp -> x < n) ->
    let p := build_p snode post in
    map (map (fun v => nth v (new_ordering p ordering) 0))
        (new_seps (invperm p) seps)
    = map (map (fun v => nth v ordering 0)) seps.
Proof.
  intros n snode seps post ordering Hpre Hb p.
  unfold new_seps. rewrite map_map. apply map_ext_in. intros sp Hsp.
  destruct (reorder_is_permutation n snode seps post ordering Hpre)
    as (_ & _ & _ & _ & _ & _ & _ & Hsep).
  apply Hsep. intros x Hx. exact (Hb sp x Hsp Hx).
Qed.

(* ------------------------------------------------------------------ *)
(* Example                                                             *)
(* ------------------------------------------------------------------ *)

Example reorder_example_p :
  build_p [[2;0];[3;1;4]] [1;0] = [1;3;4;0;2]
  /\ invperm [1;3;4;0;2] = [3;0;4;1;2].
Proof. vm_compute. split; reflexivity. Qed.

Example reorder_example :
  reorder [[2;0];[3;1;4]] [[3];[]] [1;0] [4;2;0;3;1]
  = ( [[3;4];[0;1;2]],      (* supernode 1 -> 0..3, supernode 0 -> 3..5 *)
      [[1];[]],             (* p_inv[3] = 1 *)
      [2;3;1;4;0] ).        (* ordering'[k] = ordering[p[k]] *)
Proof. vm_compute. reflexivity. Qed.

Print Assumptions reorder_is_permutation.
Print Assumptions new_seps_meaning.
