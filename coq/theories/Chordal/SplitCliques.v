(** From the Kruskal spanning tree to a rooted clique tree: [determine_parent_cliques],
    [assign_children], [find_neighbors] and [split_cliques] of
    [src/solver/chordal/merge/clique_graph.rs] (called from [clique_tree_from_graph], which is
    called from [post_process_merge] when more than one clique is left).

    {[
    fn determine_parent_cliques(snode_parent, snode_children, cliques, post, E) {
        let v = post.last().unwrap();
        let mut c = 0;
        for (k, clique) in cliques.iter().enumerate() {
            if clique.contains(v) { snode_parent[k] = NO_PARENT; c = k; break; }
        }
        assign_children(snode_parent, snode_children, c, E);
    }
    fn assign_children(snode_parent, snode_children, c, edges) {
        let mut stack = vec![c];
        while let Some(c) = stack.pop() {
            let neighbors = find_neighbors(edges, c);
            for n in neighbors {
                if edges.get_entry((max(c, n), min(c, n))).unwrap_or(0) == -1 && snode_parent[c] != n {
                    snode_parent[n] = c;
                    snode_children[c].insert(n);
                    stack.push(n);
                }
            }
        }
    }
    fn find_neighbors(edges, c) -> Vec<usize> {     // row c, columns 0..c, then column c
        ...
    }
    fn split_cliques(snode, separators, snode_parent, snode_post, num_cliques) {
        for j in 0..(num_cliques - 1) {
            let c_ind = snode_post[j];
            let p_ind = snode_parent[c_ind];
            separators[c_ind] = VertexSet::new();
            separators[c_ind].extend(snode[c_ind].intersection(&snode[p_ind]));
            let mut tmp = VertexSet::new();
            tmp.extend(snode[c_ind].iter().filter(|&s| !separators[c_ind].contains(s)));
            snode[c_ind] = tmp;
        }
    }
    ]}

    Modelling conventions.
    - Cliques are numbered [0 .. n-1]; a clique is a [list nat] (an [IndexSet] in insertion
      order).  The parent vector is a [list PostOrder.par]: [Root] = [NO_PARENT], [Dead] =
      [INACTIVE_NODE] ([post_process_merge] fills the vector with [INACTIVE_NODE] first),
      [Par p] an ordinary entry.
    - The matrix [E] is strictly lower triangular; an entry is an unordered pair.  [all_edges]
      are the stored entries, [mst] the entries that [kruskal] set to [-1].
    - [find_neighbors n all_edges c]: the columns [0..c-1] of row [c] in ascending order (the
      [for col in 0..c] loop), then the stored rows of column [c] (ascending, CSC order; all of
      them are [> c]).  The first loop also drops entries whose value is [0]; such an entry is
      not [-1], so the difference disappears after the filter of [assign_children]:
      [mst_neighbors] = the neighbours that pass the test [E[max,min] == -1].  When every
      spanning-tree entry is a stored entry this list is [neighbors n mst c]
      ([mst_neighbors_eq]), which is what [assign_children] uses.
    - The stack is a list whose head is the top: [push n] is [n :: stack], [pop] takes the head.
    - The test [snode_parent[c] != n] reads the CURRENT vector ([par_is]); [Root] and [Dead]
      are [usize::MAX] and [usize::MAX - 1], never equal to a clique index.
    - The [while] loop gets fuel [S n]; the run returns the final stack as well, and the theorem
      shows that it is empty (the fuel is not exhausted).
    - [snode_children] is not modelled ([post_order] recomputes the children from the parent
      vector in the model of PostOrder.v: the set is the same, and [post_order] sorts it).
    - [split_cliques]: [snode[p_ind]] is read from the current array.  When the parent entry is
      not a clique index the Rust code panics (index out of bounds); the model leaves the state
      unchanged.  Under the hypotheses of the theorem this does not occur. *)
From Coq Require Import List Arith Lia Bool Permutation.
Require Import Clarabel.Chordal.PostOrder.
Require Clarabel.Chordal.Dsu.
Require Clarabel.Chordal.MergeCG.
Import ListNotations.

Notation eqv := Clarabel.Chordal.Dsu.eqv.
Notation eqv_refl := Clarabel.Chordal.Dsu.eqv_refl.
Notation eqv_op := Clarabel.Chordal.Dsu.eqv_op.
Notation eqv_sym := Clarabel.Chordal.Dsu.eqv_sym.
Notation eqv_trans := Clarabel.Chordal.Dsu.eqv_trans.

(* ================================================================== *)
(** * 1. Model                                                          *)
(* ================================================================== *)

Definition edge := (nat * nat)%type.

(** [e] is the unordered pair {a, b} *)
Definition edge_is (a b : nat) (e : edge) : bool :=
  ((fst e =? a) && (snd e =? b)) || ((fst e =? b) && (snd e =? a)).

Definition has_edge (es : list edge) (a b : nat) : bool := existsb (edge_is a b) es.

Definition find_neighbors (n : nat) (all_edges : list edge) (c : nat) : list nat :=
  filter (has_edge all_edges c) (seq 0 c)
  ++ filter (has_edge all_edges c) (seq (S c) (n - S c)).

Definition mst_neighbors (n : nat) (all_edges mst : list edge) (c : nat) : list nat :=
  filter (has_edge mst c) (find_neighbors n all_edges c).

Definition neighbors (n : nat) (mst : list edge) (c : nat) : list nat :=
  filter (has_edge mst c) (seq 0 c ++ seq (S c) (n - S c)).

Definition memn (x : nat) (l : list nat) : bool := existsb (Nat.eqb x) l.

(** the first clique that contains [vlast]; 0 if there is none *)
Definition root_clique (cliques : list (list nat)) (vlast : nat) : nat :=
  match position (memn vlast) cliques with Some k => k | None => 0 end.

Fixpoint set_nth {A : Type} (l : list A) (k : nat) (x : A) : list A :=
  match l, k with
  | [], _ => []
  | _ :: t, 0 => x :: t
  | a :: t, S k' => a :: set_nth t k' x
  end.

(** [snode_parent[c] == n] *)
Definition par_is (parent : list par) (c nb : nat) : bool :=
  match parent_of parent c with Par p => p =? nb | _ => false end.

(** the [for n in neighbors] loop *)
Fixpoint ac_inner (c : nat) (ns : list nat) (parent : list par) (stack : list nat)
  : list par * list nat :=
  match ns with
  | [] => (parent, stack)
  | nb :: t =>
      if par_is parent c nb then ac_inner c t parent stack
      else ac_inner c t (set_nth parent nb (Par c)) (nb :: stack)
  end.

(** the [while let Some(c) = stack.pop()] loop *)
Fixpoint ac_loop (fuel n : nat) (mst : list edge) (parent : list par) (stack : list nat)
  : list par * list nat :=
  match fuel with
  | 0 => (parent, stack)
  | S f =>
      match stack with
      | [] => (parent, [])
      | c :: rest =>
          let '(parent', stack') := ac_inner c (neighbors n mst c) parent rest in
          ac_loop f n mst parent' stack'
      end
  end.

Definition init_parent (n root : nat) : list par := set_nth (repeat Dead n) root Root.

Definition assign_children_run (n : nat) (mst : list edge) (root : nat) : list par * list nat :=
  ac_loop (S n) n mst (init_parent n root) [root].

Definition assign_children (n : nat) (mst : list edge) (root : nat) : list par :=
  fst (assign_children_run n mst root).

(** [determine_parent_cliques]: when no clique contains [vlast], clique 0 is traversed but
    its entry stays [INACTIVE_NODE] *)
Definition determine_parent_cliques (cliques : list (list nat)) (vlast : nat) (mst : list edge)
  : list par :=
  let n := length cliques in
  match position (memn vlast) cliques with
  | Some k => assign_children n mst k
  | None => fst (ac_loop (S n) n mst (repeat Dead n) [0])
  end.

(** clique c ∩ clique p in the order of clique c; clique c minus a set *)
Definition inter (a b : list nat) : list nat := filter (fun x => memn x b) a.
Definition diff (a b : list nat) : list nat := filter (fun x => negb (memn x b)) a.

Definition split_step (parent : list par) (st : list (list nat) * list (list nat)) (c : nat)
  : list (list nat) * list (list nat) :=
  match parent_of parent c with
  | Par p =>
      let s := inter (nth c (fst st) []) (nth p (fst st) []) in
      (set_nth (fst st) c (diff (nth c (fst st) []) s), set_nth (snd st) c s)
  | _ => st
  end.

Definition split_cliques (cliques : list (list nat)) (parent : list par) (post : list nat)
  : list (list nat) * list (list nat) :=
  fold_left (split_step parent) (firstn (length post - 1) post)
            (cliques, map (fun _ => []) cliques).

(* ================================================================== *)
(** * 2. Examples                                                       *)
(* ================================================================== *)

(** three cliques in a path; vertex 3 is the last of the elimination order *)
Example ex_path_root : root_clique [[0;1]; [1;2]; [2;3]] 3 = 2.
Proof. vm_compute. reflexivity. Qed.

Example ex_path_parent :
  assign_children_run 3 [(1,0); (2,1)] 2 = ([Par 1; Par 2; Root], []).
Proof. vm_compute. reflexivity. Qed.

Example ex_path_post : post_order [Par 1; Par 2; Root] 3 = Some [0; 1; 2].
Proof. vm_compute. reflexivity. Qed.

Example ex_path_split :
  split_cliques [[0;1]; [1;2]; [2;3]] [Par 1; Par 2; Root] [0; 1; 2]
  = ([[0]; [1]; [2;3]], [[1]; [2]; []]).
Proof. vm_compute. reflexivity. Qed.

(** a star with centre 0; clique 2 was merged away (empty, no edges); the root is a leaf *)
Example ex_star_root : root_clique [[0;1;2;3]; [1;4]; []; [2;5]; [3;6]] 6 = 4.
Proof. vm_compute. reflexivity. Qed.

Example ex_star_neighbors :
  mst_neighbors 5 [(1,0); (3,0); (4,0); (3,1); (4,3)] [(1,0); (3,0); (4,0)] 0 = [1; 3; 4]
  /\ neighbors 5 [(1,0); (3,0); (4,0)] 0 = [1; 3; 4]
  /\ neighbors 5 [(1,0); (3,0); (4,0)] 4 = [0].
Proof. vm_compute. repeat split. Qed.

Example ex_star_parent :
  assign_children_run 5 [(1,0); (3,0); (4,0)] 4 = ([Par 4; Par 0; Dead; Par 0; Root], []).
Proof. vm_compute. reflexivity. Qed.

Example ex_star_post : post_order [Par 4; Par 0; Dead; Par 0; Root] 4 = Some [1; 3; 0; 4].
Proof. vm_compute. reflexivity. Qed.

Example ex_star_split :
  split_cliques [[0;1;2;3]; [1;4]; []; [2;5]; [3;6]] [Par 4; Par 0; Dead; Par 0; Root] [1; 3; 0; 4]
  = ([[0;1;2]; [4]; []; [5]; [3;6]], [[3]; [1]; []; [2]; []]).
Proof. vm_compute. reflexivity. Qed.

(** the whole of [determine_parent_cliques] *)
Example ex_star_determine :
  determine_parent_cliques [[0;1;2;3]; [1;4]; []; [2;5]; [3;6]] 6 [(1,0); (3,0); (4,0)]
  = [Par 4; Par 0; Dead; Par 0; Root].
Proof. vm_compute. reflexivity. Qed.

(* ================================================================== *)
(** * 3. Generic lemmas                                                 *)
(* ================================================================== *)

Lemma set_nth_length : forall (A : Type) (l : list A) k x, length (set_nth l k x) = length l.
Proof.
  intros A. induction l as [|a l IH]; intros k x; cbn [set_nth].
  - reflexivity.
  - destruct k as [|k]; cbn [length]; [reflexivity | rewrite IH; reflexivity].
Qed.

Lemma nth_set_nth_same : forall (A : Type) (l : list A) k x d,
  k < length l -> nth k (set_nth l k x) d = x.
Proof.
  intros A. induction l as [|a l IH]; intros k x d Hk; cbn [length] in Hk.
  - lia.
  - destruct k as [|k]; cbn [set_nth nth]; [reflexivity | apply IH; lia].
Qed.

Lemma nth_set_nth_other : forall (A : Type) (l : list A) k j x d,
  j <> k -> nth j (set_nth l k x) d = nth j l d.
Proof.
  intros A. induction l as [|a l IH]; intros k j x d Hjk; cbn [set_nth].
  - reflexivity.
  - destruct k as [|k]; destruct j as [|j]; cbn [nth]; try reflexivity; try lia.
    apply IH. lia.
Qed.

Lemma memn_In : forall x l, memn x l = true <-> In x l.
Proof.
  intros x l. unfold memn. rewrite existsb_exists. split.
  - intros [y [Hin He]]. apply Nat.eqb_eq in He. subst y. exact Hin.
  - intros Hin. exists x. split; [exact Hin | apply Nat.eqb_refl].
Qed.

Lemma memn_false : forall x l, memn x l = false <-> ~ In x l.
Proof.
  intros x l. split.
  - intros H Hin. apply memn_In in Hin. rewrite Hin in H. discriminate.
  - intros H. destruct (memn x l) eqn:E; [|reflexivity]. apply memn_In in E. contradiction.
Qed.

Lemma has_edge_In : forall es a b, has_edge es a b = true <-> (In (a, b) es \/ In (b, a) es).
Proof.
  intros es a b. unfold has_edge. rewrite existsb_exists. split.
  - intros [[x y] [Hin He]]. unfold edge_is in He. cbn [fst snd] in He.
    apply orb_true_iff in He.
    destruct He as [He | He]; apply andb_true_iff in He; destruct He as [H1 H2];
      apply Nat.eqb_eq in H1; apply Nat.eqb_eq in H2; subst x y; [left | right]; exact Hin.
  - intros [Hin | Hin].
    + exists (a, b). split; [exact Hin|]. unfold edge_is. cbn [fst snd].
      rewrite !Nat.eqb_refl. reflexivity.
    + exists (b, a). split; [exact Hin|]. unfold edge_is. cbn [fst snd].
      rewrite !Nat.eqb_refl. cbn [andb]. apply orb_true_r.
Qed.

Lemma has_edge_sym : forall es a b, has_edge es a b = has_edge es b a.
Proof.
  intros es a b. destruct (has_edge es a b) eqn:E1; destruct (has_edge es b a) eqn:E2;
    try reflexivity.
  - apply has_edge_In in E1. assert (H : has_edge es b a = true) by (apply has_edge_In; tauto).
    rewrite H in E2. discriminate.
  - apply has_edge_In in E2. assert (H : has_edge es a b = true) by (apply has_edge_In; tauto).
    rewrite H in E1. discriminate.
Qed.

Lemma filter_filter_impl : forall (f g : nat -> bool) l,
  (forall x, f x = true -> g x = true) -> filter f (filter g l) = filter f l.
Proof.
  intros f g l Himp. induction l as [|a l IH]; cbn [filter].
  - reflexivity.
  - destruct (g a) eqn:Eg; cbn [filter].
    + rewrite IH. reflexivity.
    + destruct (f a) eqn:Ef; [|exact IH]. rewrite (Himp a Ef) in Eg. discriminate.
Qed.

(** when the spanning-tree entries are stored entries, the list that passes the [-1] test is
    [neighbors] *)
Lemma mst_neighbors_eq : forall n all_edges mst c,
  (forall a b, In (a, b) mst -> In (a, b) all_edges \/ In (b, a) all_edges) ->
  mst_neighbors n all_edges mst c = neighbors n mst c.
Proof.
  intros n all_edges mst c Hsub. unfold mst_neighbors, neighbors, find_neighbors.
  assert (Himp : forall x, has_edge mst c x = true -> has_edge all_edges c x = true).
  { intros x Hx. apply has_edge_In in Hx. apply has_edge_In.
    destruct Hx as [Hx | Hx]; apply Hsub in Hx; tauto. }
  rewrite !filter_app. rewrite !filter_filter_impl by exact Himp. reflexivity.
Qed.

Lemma In_neighbors : forall n mst c nb, c < n ->
  (In nb (neighbors n mst c) <-> nb < n /\ nb <> c /\ has_edge mst c nb = true).
Proof.
  intros n mst c nb Hc. unfold neighbors. rewrite filter_In, in_app_iff, !in_seq.
  split.
  - intros [Hr He]. repeat split; [lia | lia | exact He].
  - intros (H1 & H2 & He). split; [lia | exact He].
Qed.

Lemma NoDup_neighbors : forall n mst c, NoDup (neighbors n mst c).
Proof.
  intros n mst c. unfold neighbors. apply NoDup_filter. apply NoDup_app_intro.
  - apply seq_NoDup.
  - apply seq_NoDup.
  - intros x H1 H2. apply in_seq in H1. apply in_seq in H2. lia.
Qed.

Lemma parent_of_set_same : forall parent k x,
  k < length parent -> parent_of (set_nth parent k x) k = x.
Proof. intros parent k x Hk. unfold parent_of. apply nth_set_nth_same. exact Hk. Qed.

Lemma parent_of_set_other : forall parent k j x,
  j <> k -> parent_of (set_nth parent k x) j = parent_of parent j.
Proof. intros parent k j x Hjk. unfold parent_of. apply nth_set_nth_other. exact Hjk. Qed.

Lemma parent_of_lt' : forall parent c, parent_of parent c <> Dead -> c < length parent.
Proof.
  intros parent c H. destruct (Nat.lt_ge_cases c (length parent)) as [Hlt | Hge]; [exact Hlt|].
  exfalso. apply H. unfold parent_of. apply nth_overflow. exact Hge.
Qed.

Lemma position_first : forall (A : Type) (f : A -> bool) (d : A) (l : list A) (k : nat),
  k < length l -> f (nth k l d) = true -> (forall j, j < k -> f (nth j l d) = false) ->
  position f l = Some k.
Proof.
  intros A f d. induction l as [|a l IH]; intros k Hk Hf Hbefore; cbn [length] in Hk.
  - lia.
  - cbn [position]. destruct k as [|k].
    + cbn [nth] in Hf. rewrite Hf. reflexivity.
    + pose proof (Hbefore 0 (Nat.lt_0_succ k)) as H0. cbn [nth] in H0. rewrite H0.
      cbn [nth] in Hf.
      rewrite (IH k); [reflexivity | lia | exact Hf |].
      intros j Hj. apply (Hbefore (S j)). lia.
Qed.

Lemma position_none : forall (A : Type) (f : A -> bool) (l : list A),
  position f l = None -> forall a, In a l -> f a = false.
Proof.
  intros A f. induction l as [|b l IH]; intros Hp a Hin; cbn [position] in Hp.
  - destruct Hin.
  - destruct (f b) eqn:Efb; [discriminate|].
    destruct (position f l) eqn:Ep; cbn [option_map] in Hp; [discriminate|].
    destruct Hin as [He | Hin]; [subst; exact Efb | apply IH; [reflexivity | exact Hin]].
Qed.

Lemma position_before : forall (A : Type) (f : A -> bool) (d : A) (l : list A) (k : nat),
  position f l = Some k -> forall j, j < k -> f (nth j l d) = false.
Proof.
  intros A f d. induction l as [|a l IH]; intros k Hp j Hj; cbn [position] in Hp.
  - discriminate.
  - destruct (f a) eqn:Efa.
    + injection Hp as Hp. lia.
    + destruct (position f l) as [k'|] eqn:Ep; cbn [option_map] in Hp; [|discriminate].
      injection Hp as Hp. subst k. destruct j as [|j]; cbn [nth]; [exact Efa|].
      apply (IH k' eq_refl). lia.
Qed.

(** [root_clique] is the first clique that contains the vertex *)
Lemma root_clique_spec : forall cliques vlast,
  (exists C, In C cliques /\ In vlast C) ->
  let r := root_clique cliques vlast in
  r < length cliques /\ In vlast (nth r cliques []) /\
  (forall j, j < r -> ~ In vlast (nth j cliques [])) /\
  determine_parent_cliques cliques vlast = fun mst => assign_children (length cliques) mst r.
Proof.
  intros cliques vlast [C [HC Hv]]. unfold root_clique, determine_parent_cliques.
  destruct (position (memn vlast) cliques) as [k|] eqn:Ep.
  - destruct (position_spec _ _ [] _ _ Ep) as [Hlt Hm]. cbn zeta.
    split; [exact Hlt|]. split; [apply memn_In; exact Hm|]. split; [|reflexivity].
    intros j Hj. apply memn_false. exact (position_before _ _ [] _ _ Ep j Hj).
  - exfalso. pose proof (position_none _ _ _ Ep C HC) as Hf.
    apply memn_false in Hf. exact (Hf Hv).
Qed.

(* ================================================================== *)
(** * 4. [assign_children] on a spanning tree                           *)
(* ================================================================== *)

(** visited = the entry is no longer [INACTIVE_NODE] *)
Definition vis (parent : list par) (c : nat) : Prop := parent_of parent c <> Dead.

(** acyclic: removing any one entry disconnects its two ends.  (This also excludes loops and
    entries that occur twice, in either orientation.) *)
Definition acyclic (mst : list edge) : Prop :=
  forall l1 a b l2, mst = l1 ++ (a, b) :: l2 -> ~ eqv (l1 ++ l2) a b.

Section AssignChildren.
Variables (n : nat) (mst : list edge) (root : nat).
Hypothesis Hrange : forall a b, In (a, b) mst -> a < n /\ b < n.
Hypothesis Hacyc : acyclic mst.
Hypothesis Hroot : root < n.

Lemma edge_range : forall a b, has_edge mst a b = true -> a < n /\ b < n /\ a <> b.
Proof.
  intros a b He. apply has_edge_In in He.
  assert (Hne : a <> b).
  { intros Heq. subst b.
    assert (Hin : In (a, a) mst) by tauto.
    apply in_split in Hin. destruct Hin as (l1 & l2 & Hm).
    apply (Hacyc l1 a a l2 Hm). apply eqv_refl. }
  destruct He as [Hin | Hin]; apply Hrange in Hin; lia.
Qed.

Lemma edge_avoid : forall l1 a b l2 x p,
  mst = l1 ++ (a, b) :: l2 -> has_edge mst x p = true ->
  ~ (x = a /\ p = b) -> ~ (x = b /\ p = a) -> eqv (l1 ++ l2) x p.
Proof.
  intros l1 a b l2 x p Hm He Hn1 Hn2. apply has_edge_In in He.
  destruct He as [Hin | Hin]; rewrite Hm in Hin; apply in_app_or in Hin;
    destruct Hin as [Hin | [Heq | Hin]].
  - apply eqv_op. apply in_or_app. left. exact Hin.
  - exfalso. injection Heq as H1 H2. apply Hn1. split; symmetry; assumption.
  - apply eqv_op. apply in_or_app. right. exact Hin.
  - apply eqv_sym. apply eqv_op. apply in_or_app. left. exact Hin.
  - exfalso. injection Heq as H1 H2. apply Hn2. split; symmetry; assumption.
  - apply eqv_sym. apply eqv_op. apply in_or_app. right. exact Hin.
Qed.

(** the part of the invariant that holds at every point of the run; [stk] is the stack,
    [proc] the cliques that were popped and completely handled *)
Record Base (parent : list par) (stk proc : list nat) : Prop := mkBase {
  b_len : length parent = n;
  b_root : parent_of parent root = Root;
  b_root_only : forall c, parent_of parent c = Root -> c = root;
  b_edge : forall c p, parent_of parent c = Par p -> has_edge mst c p = true /\ vis parent p;
  b_depth : exists (d : nat -> nat) (K : nat),
      forall c p, parent_of parent c = Par p -> d c = S (d p) /\ d c <= K;
  b_stack_vis : forall s, In s stk -> vis parent s;
  b_stack_nodup : NoDup stk;
  b_stack_proc : forall s, In s stk -> ~ In s proc;
  b_proc_vis : forall c, In c proc -> vis parent c;
  b_proc_nodup : NoDup proc;
  b_proc_done : forall c nb, In c proc -> has_edge mst c nb = true ->
      parent_of parent c = Par nb \/ parent_of parent nb = Par c
}.

(** between two iterations of the [while] loop *)
Record InvO (parent : list par) (stk proc : list nat) : Prop := mkInvO {
  o_base : Base parent stk proc;
  o_vis : forall x, vis parent x -> In x stk \/ In x proc;
  o_par : forall x p, parent_of parent x = Par p -> In p proc
}.

(** inside the [for] loop over the neighbours of [c]; [done] are the neighbours already seen *)
Record InvI (c : nat) (parent : list par) (stk proc done : list nat) : Prop := mkInvI {
  i_base : Base parent stk proc;
  i_cvis : vis parent c;
  i_cstk : ~ In c stk;
  i_cproc : ~ In c proc;
  i_vis : forall x, vis parent x -> In x stk \/ In x proc \/ x = c;
  i_par : forall x p, parent_of parent x = Par p -> In p proc \/ (p = c /\ In x done);
  i_done : forall nb, In nb done -> parent_of parent c = Par nb \/ parent_of parent nb = Par c
}.

(** induction along the parent links of the visited cliques *)
Lemma vis_ind : forall parent stk proc (P : nat -> Prop),
  Base parent stk proc -> P root ->
  (forall x p, parent_of parent x = Par p -> P p -> P x) ->
  forall x, vis parent x -> P x.
Proof.
  intros parent stk proc P HB Hr Hstep.
  destruct (b_depth _ _ _ HB) as (d & K & Hd).
  assert (H : forall m x, d x < m -> vis parent x -> P x).
  { induction m as [|m IH]; intros x Hm Hv; [lia|].
    destruct (parent_of parent x) as [| |p] eqn:Ep.
    - rewrite (b_root_only _ _ _ HB x Ep). exact Hr.
    - exfalso. exact (Hv Ep).
    - destruct (Hd x p Ep) as [Hdx _]. destruct (b_edge _ _ _ HB x p Ep) as [_ Hvp].
      apply (Hstep x p Ep). apply IH; [lia | exact Hvp]. }
  intros x Hv. apply (H (S (d x))); [lia | exact Hv].
Qed.

Lemma inv_pop : forall parent c rest proc,
  InvO parent (c :: rest) proc -> InvI c parent rest proc [].
Proof.
  intros parent c rest proc [HB Hv Hp].
  destruct HB as [B1 B2 B3 B4 B5 B6 B7 B8 B9 B10 B11].
  inversion B7 as [|c' r' Hnin Hnd]; subst c' r'.
  constructor.
  - constructor; try assumption.
    + intros s Hs. apply B6. right. exact Hs.
    + intros s Hs. apply B8. right. exact Hs.
  - apply B6. left. reflexivity.
  - exact Hnin.
  - apply B8. left. reflexivity.
  - intros x Hx. destruct (Hv x Hx) as [[He | Hin] | Hin].
    + right. right. symmetry. exact He.
    + left. exact Hin.
    + right. left. exact Hin.
  - intros x p Hxp. left. exact (Hp x p Hxp).
  - intros nb [].
Qed.

Lemma inv_skip : forall c parent stk proc done nb,
  InvI c parent stk proc done -> par_is parent c nb = true ->
  InvI c parent stk proc (nb :: done).
Proof.
  intros c parent stk proc done nb [HB I1 I2 I3 I4 I5 I6] Hpi. constructor; try assumption.
  - intros x p Hxp. destruct (I5 x p Hxp) as [H | [H1 H2]].
    + left. exact H.
    + right. split; [exact H1 | right; exact H2].
  - intros nb' [He | Hin]; [subst nb' | apply I6; exact Hin].
    left. unfold par_is in Hpi. destruct (parent_of parent c) as [| |p]; try discriminate.
    apply Nat.eqb_eq in Hpi. subst p. reflexivity.
Qed.

(** the key step: on a tree, a neighbour that is not the parent has not been visited *)
Lemma inv_unvisited : forall c parent stk proc done nb,
  InvI c parent stk proc done -> has_edge mst c nb = true -> ~ In nb done ->
  par_is parent c nb = false -> parent_of parent nb = Dead.
Proof.
  intros c parent stk proc done nb HI He Hnd Hpi.
  assert (Hnv : ~ vis parent nb).
  { intros Hv.
    assert (Hlink : forall x p, parent_of parent x = Par p ->
                                ~ (x = c /\ p = nb) /\ ~ (x = nb /\ p = c)).
    { intros x p Hxp. split; intros [H1 H2]; subst x p.
      - unfold par_is in Hpi. rewrite Hxp in Hpi. rewrite Nat.eqb_refl in Hpi. discriminate.
      - destruct (i_par _ _ _ _ _ HI nb c Hxp) as [H | [_ H]].
        + exact (i_cproc _ _ _ _ _ HI H).
        + exact (Hnd H). }
    assert (Hconn : forall l1 a b l2, mst = l1 ++ (a, b) :: l2 ->
              (a = c /\ b = nb) \/ (a = nb /\ b = c) ->
              forall x, vis parent x -> eqv (l1 ++ l2) x root).
    { intros l1 a b l2 Hm Hab.
      apply (vis_ind parent stk proc (fun x => eqv (l1 ++ l2) x root) (i_base _ _ _ _ _ HI)).
      - apply eqv_refl.
      - intros x p Hxp IHp. apply eqv_trans with (y := p); [|exact IHp].
        destruct (Hlink x p Hxp) as [Hl1 Hl2].
        destruct (b_edge _ _ _ (i_base _ _ _ _ _ HI) x p Hxp) as [Hexp _].
        apply (edge_avoid l1 a b l2 x p Hm Hexp);
          destruct Hab as [[Ha Hb] | [Ha Hb]]; subst a b; assumption. }
    apply has_edge_In in He.
    destruct He as [Hin | Hin]; apply in_split in Hin; destruct Hin as (l1 & l2 & Hm).
    - apply (Hacyc l1 c nb l2 Hm). apply eqv_trans with (y := root).
      + apply (Hconn l1 c nb l2 Hm); [left; split; reflexivity | exact (i_cvis _ _ _ _ _ HI)].
      + apply eqv_sym. apply (Hconn l1 c nb l2 Hm); [left; split; reflexivity | exact Hv].
    - apply (Hacyc l1 nb c l2 Hm). apply eqv_trans with (y := root).
      + apply (Hconn l1 nb c l2 Hm); [right; split; reflexivity | exact Hv].
      + apply eqv_sym.
        apply (Hconn l1 nb c l2 Hm); [right; split; reflexivity | exact (i_cvis _ _ _ _ _ HI)]. }
  unfold vis in Hnv. destruct (parent_of parent nb); try reflexivity; exfalso; apply Hnv;
    discriminate.
Qed.

Lemma inv_write : forall c parent stk proc done nb,
  InvI c parent stk proc done -> has_edge mst c nb = true -> ~ In nb done ->
  par_is parent c nb = false ->
  InvI c (set_nth parent nb (Par c)) (nb :: stk) proc (nb :: done).
Proof.
  intros c parent stk proc done nb HI He Hnd Hpi.
  pose proof (inv_unvisited _ _ _ _ _ _ HI He Hnd Hpi) as Hdead.
  destruct (edge_range c nb He) as (Hc & Hnb & Hne).
  destruct HI as [HB I1 I2 I3 I4 I5 I6].
  destruct HB as [B1 B2 B3 B4 B5 B6 B7 B8 B9 B10 B11].
  set (parent' := set_nth parent nb (Par c)).
  assert (Hsame : parent_of parent' nb = Par c).
  { apply parent_of_set_same. lia. }
  assert (Hother : forall x, x <> nb -> parent_of parent' x = parent_of parent x).
  { intros x Hx. apply parent_of_set_other. exact Hx. }
  assert (Hkeep : forall x q, parent_of parent x = Par q -> parent_of parent' x = Par q).
  { intros x q Hx. rewrite Hother; [exact Hx|]. intros Heq. subst x.
    rewrite Hdead in Hx. discriminate. }
  assert (Hvmono : forall x, vis parent x -> vis parent' x).
  { intros x Hx. unfold vis. destruct (Nat.eq_dec x nb) as [Heq | Hxn].
    - subst x. rewrite Hsame. discriminate.
    - rewrite Hother by exact Hxn. exact Hx. }
  assert (Hvinv : forall x, vis parent' x -> x = nb \/ vis parent x).
  { intros x Hx. destruct (Nat.eq_dec x nb) as [Heq | Hxn]; [left; exact Heq | right].
    unfold vis in Hx. rewrite Hother in Hx by exact Hxn. exact Hx. }
  assert (Hold : forall x q, parent_of parent' x = Par q ->
            (x = nb /\ q = c) \/ (x <> nb /\ parent_of parent x = Par q)).
  { intros x q Hx. destruct (Nat.eq_dec x nb) as [Heq | Hxn].
    - left. subst x. rewrite Hsame in Hx. injection Hx as Hx. subst q. split; reflexivity.
    - right. rewrite Hother in Hx by exact Hxn. split; [exact Hxn | exact Hx]. }
  constructor.
  - constructor.
    + unfold parent'. rewrite set_nth_length. exact B1.
    + rewrite Hother; [exact B2|]. intros Heq. rewrite Heq in B2. rewrite Hdead in B2.
      discriminate.
    + intros x Hx. destruct (Nat.eq_dec x nb) as [Heq | Hxn].
      * subst x. rewrite Hsame in Hx. discriminate.
      * rewrite Hother in Hx by exact Hxn. apply B3. exact Hx.
    + intros x q Hx. destruct (Hold x q Hx) as [[H1 H2] | [H1 H2]].
      * subst x q. split; [rewrite has_edge_sym; exact He | apply Hvmono; exact I1].
      * destruct (B4 x q H2) as [Hb1 Hb2]. split; [exact Hb1 | apply Hvmono; exact Hb2].
    + destruct B5 as (d & K & Hd).
      exists (fun x => if x =? nb then S (d c) else d x), (K + S (d c)).
      intros x q Hx. destruct (Hold x q Hx) as [[H1 H2] | [H1 H2]].
      * subst x q. rewrite Nat.eqb_refl.
        destruct (c =? nb) eqn:Ecn; [apply Nat.eqb_eq in Ecn; lia | lia].
      * destruct (Hd x q H2) as [Hd1 Hd2].
        destruct (x =? nb) eqn:E1; [apply Nat.eqb_eq in E1; contradiction|].
        destruct (q =? nb) eqn:E2.
        { apply Nat.eqb_eq in E2. subst q. exfalso.
          destruct (B4 x nb H2) as [_ Hv]. exact (Hv Hdead). }
        lia.
    + intros s [Hs | Hs].
      * subst s. unfold vis. rewrite Hsame. discriminate.
      * apply Hvmono. apply B6. exact Hs.
    + constructor; [|exact B7]. intros Hin. exact (B6 nb Hin Hdead).
    + intros s [Hs | Hs].
      * subst s. intros Hin. exact (B9 nb Hin Hdead).
      * apply B8. exact Hs.
    + intros x Hx. apply Hvmono. apply B9. exact Hx.
    + exact B10.
    + intros x y Hx Hexy. destruct (B11 x y Hx Hexy) as [H | H]; [left | right];
        apply Hkeep; exact H.
  - apply Hvmono. exact I1.
  - intros [Heq | Hin]; [apply Hne; symmetry; exact Heq | exact (I2 Hin)].
  - exact I3.
  - intros x Hx. destruct (Hvinv x Hx) as [Heq | Hv]; [left; left; symmetry; exact Heq|].
    destruct (I4 x Hv) as [H | [H | H]].
    + left. right. exact H.
    + right. left. exact H.
    + right. right. exact H.
  - intros x q Hx. destruct (Hold x q Hx) as [[H1 H2] | [H1 H2]].
    + right. split; [exact H2 | left; symmetry; exact H1].
    + destruct (I5 x q H2) as [H | [H3 H4]].
      * left. exact H.
      * right. split; [exact H3 | right; exact H4].
  - intros nb' [Heq | Hin]; [subst nb'; right; exact Hsame|].
    destruct (I6 nb' Hin) as [H | H]; [left | right]; apply Hkeep; exact H.
Qed.

Lemma inv_inner : forall c proc ns parent stk done,
  NoDup ns ->
  (forall nb, In nb ns -> has_edge mst c nb = true /\ ~ In nb done) ->
  InvI c parent stk proc done ->
  exists done', (forall x, In x ns \/ In x done -> In x done') /\
    InvI c (fst (ac_inner c ns parent stk)) (snd (ac_inner c ns parent stk)) proc done'.
Proof.
  intros c proc. induction ns as [|nb t IH]; intros parent stk done Hnd Hns HI; cbn [ac_inner].
  - exists done. split; [intros x [[] | Hx]; exact Hx | exact HI].
  - inversion Hnd as [|nb' t' Hnin Hnd']; subst nb' t'.
    destruct (Hns nb (or_introl eq_refl)) as [He Hndone].
    assert (Hns' : forall x, In x t -> has_edge mst c x = true /\ ~ In x (nb :: done)).
    { intros x Hx. destruct (Hns x (or_intror Hx)) as [H1 H2]. split; [exact H1|].
      intros [Heq | Hin]; [subst x; exact (Hnin Hx) | exact (H2 Hin)]. }
    destruct (par_is parent c nb) eqn:Hpi.
    + destruct (IH parent stk (nb :: done) Hnd' Hns' (inv_skip _ _ _ _ _ _ HI Hpi))
        as (done' & Hd1 & Hd2).
      exists done'. split; [|exact Hd2].
      intros x [[Heq | Hx] | Hx]; apply Hd1.
      * right. left. exact Heq.
      * left. exact Hx.
      * right. right. exact Hx.
    + destruct (IH (set_nth parent nb (Par c)) (nb :: stk) (nb :: done) Hnd' Hns'
                   (inv_write _ _ _ _ _ _ HI He Hndone Hpi)) as (done' & Hd1 & Hd2).
      exists done'. split; [|exact Hd2].
      intros x [[Heq | Hx] | Hx]; apply Hd1.
      * right. left. exact Heq.
      * left. exact Hx.
      * right. right. exact Hx.
Qed.

Lemma inv_finish : forall c parent stk proc done,
  InvI c parent stk proc done -> (forall nb, has_edge mst c nb = true -> In nb done) ->
  InvO parent stk (c :: proc).
Proof.
  intros c parent stk proc done [HB I1 I2 I3 I4 I5 I6] Hall.
  destruct HB as [B1 B2 B3 B4 B5 B6 B7 B8 B9 B10 B11].
  constructor.
  - constructor; try assumption.
    + intros s Hs [Heq | Hin]; [subst s; exact (I2 Hs) | exact (B8 s Hs Hin)].
    + intros x [Heq | Hin]; [subst x; exact I1 | apply B9; exact Hin].
    + constructor; assumption.
    + intros x nb [Heq | Hin] He.
      * subst x. apply I6. apply Hall. exact He.
      * apply B11; assumption.
  - intros x Hx. destruct (I4 x Hx) as [H | [H | H]].
    + left. exact H.
    + right. right. exact H.
    + right. left. symmetry. exact H.
  - intros x p Hx. destruct (I5 x p Hx) as [H | [H _]].
    + right. exact H.
    + left. symmetry. exact H.
Qed.

Lemma vis_lt : forall parent stk proc c, Base parent stk proc -> vis parent c -> c < n.
Proof.
  intros parent stk proc c HB Hv. rewrite <- (b_len _ _ _ HB). apply parent_of_lt'. exact Hv.
Qed.

(** the [while] loop ends with an empty stack, and the invariant holds at the end *)
Lemma inv_loop : forall fuel parent stk proc,
  InvO parent stk proc -> n < fuel + length proc ->
  exists parent' proc', ac_loop fuel n mst parent stk = (parent', []) /\ InvO parent' [] proc'.
Proof.
  induction fuel as [|f IH]; intros parent stk proc HO Hfuel.
  - exfalso. pose proof (o_base _ _ _ HO) as HB.
    assert (Hle : length proc <= length (seq 0 n)).
    { apply NoDup_incl_length; [exact (b_proc_nodup _ _ _ HB)|].
      intros x Hx. apply in_seq. pose proof (vis_lt _ _ _ x HB (b_proc_vis _ _ _ HB x Hx)). lia. }
    rewrite seq_length in Hle. lia.
  - cbn [ac_loop]. destruct stk as [|c rest].
    + exists parent, proc. split; [reflexivity | exact HO].
    + pose proof (inv_pop _ _ _ _ HO) as HI.
      assert (Hc : c < n).
      { apply (vis_lt parent rest proc c (i_base _ _ _ _ _ HI)). exact (i_cvis _ _ _ _ _ HI). }
      destruct (inv_inner c proc (neighbors n mst c) parent rest [] (NoDup_neighbors n mst c))
        as (done' & Hd1 & Hd2).
      { intros nb Hnb. apply In_neighbors in Hnb; [|exact Hc].
        split; [tauto | intros []]. }
      { exact HI. }
      destruct (ac_inner c (neighbors n mst c) parent rest) as [parent1 stk1] eqn:Ein.
      cbn [fst snd] in Hd2.
      apply (IH parent1 stk1 (c :: proc)).
      * apply (inv_finish c parent1 stk1 proc done' Hd2).
        intros nb He. apply Hd1. left. apply In_neighbors; [exact Hc|].
        destruct (edge_range c nb He) as (H1 & H2 & H3). repeat split; [exact H2 | | exact He].
        intros Heq. apply H3. symmetry. exact Heq.
      * cbn [length]. lia.
Qed.

Lemma parent_of_init : forall x,
  parent_of (init_parent n root) x = if x =? root then Root else Dead.
Proof.
  intros x. unfold init_parent. destruct (x =? root) eqn:E.
  - apply Nat.eqb_eq in E. subst x. apply parent_of_set_same. rewrite repeat_length. exact Hroot.
  - apply Nat.eqb_neq in E. rewrite parent_of_set_other by exact E.
    unfold parent_of. apply nth_repeat.
Qed.

Lemma inv_init : InvO (init_parent n root) [root] [].
Proof.
  assert (Hnopar : forall x p, parent_of (init_parent n root) x <> Par p).
  { intros x p. rewrite parent_of_init. destruct (x =? root); discriminate. }
  assert (Hvr : forall x, vis (init_parent n root) x -> x = root).
  { intros x Hx. unfold vis in Hx. rewrite parent_of_init in Hx.
    destruct (x =? root) eqn:E; [apply Nat.eqb_eq in E; exact E | exfalso; apply Hx; reflexivity]. }
  constructor.
  - constructor.
    + unfold init_parent. rewrite set_nth_length. apply repeat_length.
    + rewrite parent_of_init. rewrite Nat.eqb_refl. reflexivity.
    + intros c Hc. apply Hvr. unfold vis. rewrite Hc. discriminate.
    + intros c p Hc. exfalso. exact (Hnopar c p Hc).
    + exists (fun _ => 0), 0. intros c p Hc. exfalso. exact (Hnopar c p Hc).
    + intros s [Hs | []]. subst s. unfold vis. rewrite parent_of_init, Nat.eqb_refl. discriminate.
    + constructor; [intros [] | constructor].
    + intros s _ [].
    + intros c [].
    + constructor.
    + intros c nb [].
  - intros x Hx. left. left. symmetry. apply Hvr. exact Hx.
  - intros x p Hx. exfalso. exact (Hnopar x p Hx).
Qed.

Lemma run_inv : exists parent proc,
  assign_children_run n mst root = (parent, []) /\ InvO parent [] proc.
Proof.
  unfold assign_children_run. apply (inv_loop (S n) _ _ [] inv_init). cbn [length]. lia.
Qed.

(** ** what the invariant says once the stack is empty *)
Section Final.
Variables (parent : list par) (proc : list nat).
Hypothesis HO : InvO parent [] proc.

Lemma fin_proc : forall x, vis parent x -> In x proc.
Proof. intros x Hx. destruct (o_vis _ _ _ HO x Hx) as [[] | H]. exact H. Qed.

Lemma fin_vis_root : vis parent root.
Proof. unfold vis. rewrite (b_root _ _ _ (o_base _ _ _ HO)). discriminate. Qed.

Lemma fin_edge_link : forall a b, vis parent a -> has_edge mst a b = true ->
  (parent_of parent a = Par b \/ parent_of parent b = Par a) /\ vis parent b.
Proof.
  intros a b Ha He.
  pose proof (b_proc_done _ _ _ (o_base _ _ _ HO) a b (fin_proc a Ha) He) as Hl.
  split; [exact Hl|]. destruct Hl as [H | H].
  - exact (proj2 (b_edge _ _ _ (o_base _ _ _ HO) a b H)).
  - unfold vis. rewrite H. discriminate.
Qed.

Lemma fin_closed : forall a b, eqv mst a b -> (vis parent a <-> vis parent b).
Proof.
  intros a b H. induction H as [x | x y Hin | x y _ IH | x y z _ IH1 _ IH2].
  - tauto.
  - split; intros Hv.
    + apply (fin_edge_link x y Hv). apply has_edge_In. left. exact Hin.
    + apply (fin_edge_link y x Hv). apply has_edge_In. right. exact Hin.
  - tauto.
  - tauto.
Qed.

(** the visited cliques are exactly the component of the root *)
Lemma fin_vis_iff : forall x, vis parent x <-> eqv mst root x.
Proof.
  intros x. split.
  - apply (vis_ind parent [] proc (fun x => eqv mst root x) (o_base _ _ _ HO)).
    + apply eqv_refl.
    + intros y p Hyp IHp. apply eqv_trans with (y := p); [exact IHp|].
      destruct (b_edge _ _ _ (o_base _ _ _ HO) y p Hyp) as [He _].
      apply has_edge_In in He. destruct He as [Hin | Hin].
      * apply eqv_sym. apply eqv_op. exact Hin.
      * apply eqv_op. exact Hin.
  - intros He. apply (fin_closed root x He). exact fin_vis_root.
Qed.

Lemma fin_find_root : find_root parent = Some root.
Proof.
  pose proof (o_base _ _ _ HO) as HB. unfold find_root.
  apply (position_first par is_root Dead).
  - rewrite (b_len _ _ _ HB). exact Hroot.
  - pose proof (b_root _ _ _ HB) as Hr. unfold parent_of in Hr. rewrite Hr. reflexivity.
  - intros j Hj. destruct (nth j parent Dead) eqn:Ej; try reflexivity.
    pose proof (b_root_only _ _ _ HB j Ej). lia.
Qed.

Lemma fin_forest : Forest parent.
Proof.
  pose proof (o_base _ _ _ HO) as HB. split.
  - exists root. exact fin_find_root.
  - destruct (b_depth _ _ _ HB) as (d & K & Hd). exists (fun w => K - d w).
    intros w v Hwv. destruct (Hd w v Hwv) as [H1 H2].
    destruct (b_edge _ _ _ HB w v Hwv) as [_ Hv]. split; [|lia].
    apply parent_of_lt'. exact Hv.
Qed.

Lemma fin_reaches : forall x, Reaches parent root x <-> vis parent x.
Proof.
  intros x. split.
  - intros [k Hk]. destruct k as [|k]; cbn [anc] in Hk.
    + injection Hk as Hk. subst x. exact fin_vis_root.
    + unfold vis. destruct (parent_of parent x); discriminate.
  - apply (vis_ind parent [] proc (fun x => Reaches parent root x) (o_base _ _ _ HO)).
    + exists 0. reflexivity.
    + intros y p Hyp [k Hk]. exists (S k). cbn [anc]. rewrite Hyp. exact Hk.
Qed.

End Final.
End AssignChildren.

(** the cliques that are an end of some spanning-tree entry *)
Definition touches (mst : list edge) (x : nat) : Prop :=
  exists y, In (x, y) mst \/ In (y, x) mst.

Lemma eqv_touches : forall mst a b, eqv mst a b -> a = b \/ (touches mst a /\ touches mst b).
Proof.
  intros mst a b H. induction H as [x | x y Hin | x y _ IH | x y z _ IH1 _ IH2].
  - left. reflexivity.
  - right. split; [exists y; left; exact Hin | exists x; right; exact Hin].
  - destruct IH as [IH | [IH1 IH2]]; [left; symmetry; exact IH | right; split; assumption].
  - destruct IH1 as [IH1 | [Ha Hb]]; [subst y; exact IH2|].
    destruct IH2 as [IH2 | [Hc Hd]]; [subst z; right; split; assumption|].
    right. split; assumption.
Qed.

(** ** the theorem, with the live cliques := the component of the root *)
Theorem assign_children_component : forall n mst root,
  (forall a b, In (a, b) mst -> a < n /\ b < n) -> acyclic mst -> root < n ->
  let parent := assign_children n mst root in
  snd (assign_children_run n mst root) = [] /\
  length parent = n /\
  parent_of parent root = Root /\
  (forall c, parent_of parent c = Root -> c = root) /\
  (forall c, parent_of parent c <> Dead <-> eqv mst root c) /\
  (forall c p, parent_of parent c = Par p -> has_edge mst c p = true /\ eqv mst root p) /\
  (forall a b, eqv mst root a -> has_edge mst a b = true ->
     parent_of parent a = Par b \/ parent_of parent b = Par a) /\
  Forest parent /\ find_root parent = Some root /\
  (forall c, Reaches parent root c <-> eqv mst root c).
Proof.
  intros n mst root Hrange Hacyc Hroot parent.
  destruct (run_inv n mst root Hrange Hacyc Hroot) as (parent0 & proc & Hrun & HO).
  assert (Hp : parent = parent0). { unfold parent, assign_children. rewrite Hrun. reflexivity. }
  rewrite Hrun, Hp. clear Hp parent. cbn [snd].
  pose proof (o_base _ _ _ _ _ _ HO) as HB.
  pose proof (fin_vis_iff n mst root Hroot parent0 proc HO) as Hvis.
  split; [reflexivity|].
  split; [exact (b_len _ _ _ _ _ _ HB)|].
  split; [exact (b_root _ _ _ _ _ _ HB)|].
  split; [exact (b_root_only _ _ _ _ _ _ HB)|].
  split; [exact Hvis|].
  split.
  { intros c p Hcp. destruct (b_edge _ _ _ _ _ _ HB c p Hcp) as [He Hv].
    split; [exact He | apply Hvis; exact Hv]. }
  split.
  { intros a b Ha He. apply Hvis in Ha.
    exact (proj1 (fin_edge_link n mst root parent0 proc HO a b Ha He)). }
  split; [exact (fin_forest n mst root Hroot parent0 proc HO)|].
  split; [exact (fin_find_root n mst root Hroot parent0 proc HO)|].
  intros c. rewrite (fin_reaches n mst root Hroot parent0 proc HO c). apply Hvis.
Qed.

(** ** the theorem for a given list [lv] of live cliques: [mst] is a spanning tree of [lv] *)
Theorem assign_children_tree : forall n mst root (lv : list nat),
  acyclic mst ->
  In root lv ->
  (forall c, In c lv -> c < n) ->
  (forall c, In c lv -> eqv mst root c) ->
  (forall a b, In (a, b) mst -> In a lv /\ In b lv) ->
  let parent := assign_children n mst root in
  (* the fuel suffices: the stack is empty at the end *)
  snd (assign_children_run n mst root) = [] /\
  length parent = n /\
  parent_of parent root = Root /\
  (* every other live clique has a live parent, joined to it by a spanning-tree entry *)
  (forall c, In c lv -> c <> root ->
     exists p, parent_of parent c = Par p /\ In p lv /\ has_edge mst c p = true) /\
  (* merged-away cliques stay inactive *)
  (forall c, ~ In c lv -> parent_of parent c = Dead) /\
  (forall c p, parent_of parent c = Par p -> In c lv /\ In p lv /\ has_edge mst c p = true) /\
  (* every spanning-tree entry is a parent link, in one of the two directions *)
  (forall a b, In (a, b) mst -> parent_of parent a = Par b \/ parent_of parent b = Par a) /\
  (* acyclic (height function), the root is the first [NO_PARENT] entry, and following the
     parents from a clique reaches the root exactly for the live cliques *)
  Forest parent /\ find_root parent = Some root /\
  (forall c, Reaches parent root c <-> In c lv).
Proof.
  intros n mst root lv Hacyc Hrlv Hlt Hconn Hends parent.
  assert (Hrange : forall a b, In (a, b) mst -> a < n /\ b < n).
  { intros a b Hin. destruct (Hends a b Hin) as [Ha Hb]. split; apply Hlt; assumption. }
  assert (Hlive : forall c, eqv mst root c <-> In c lv).
  { intros c. split; [|apply Hconn]. intros He.
    destruct (eqv_touches mst root c He) as [Heq | [_ [y [Hin | Hin]]]].
    - subst c. exact Hrlv.
    - exact (proj1 (Hends c y Hin)).
    - exact (proj2 (Hends y c Hin)). }
  destruct (assign_children_component n mst root Hrange Hacyc (Hlt root Hrlv))
    as (H1 & H2 & H3 & H4 & H5 & H6 & H7 & H8 & H9 & H10).
  fold parent in H2, H3, H4, H5, H6, H7, H8, H9, H10.
  split; [exact H1|]. split; [exact H2|]. split; [exact H3|].
  split.
  { intros c Hc Hne. apply Hlive in Hc. apply H5 in Hc.
    destruct (parent_of parent c) as [| |p] eqn:Ep.
    - exfalso. apply Hne. apply H4. exact Ep.
    - exfalso. apply Hc. reflexivity.
    - exists p. destruct (H6 c p Ep) as [He Hp]. split; [reflexivity|].
      split; [apply Hlive; exact Hp | exact He]. }
  split.
  { intros c Hc. destruct (parent_of parent c) as [| |p] eqn:Ep; [| reflexivity |];
      exfalso; apply Hc; apply Hlive; apply H5; rewrite Ep; discriminate. }
  split.
  { intros c p Ep. destruct (H6 c p Ep) as [He Hp].
    split; [|split; [apply Hlive; exact Hp | exact He]].
    apply Hlive. apply H5. rewrite Ep. discriminate. }
  split.
  { intros a b Hin. apply H7.
    - apply Hconn. exact (proj1 (Hends a b Hin)).
    - apply has_edge_In. left. exact Hin. }
  split; [exact H8|]. split; [exact H9|].
  intros c. rewrite H10. apply Hlive.
Qed.

(* ================================================================== *)
(** * 5. The post-order of the new clique tree                          *)
(* ================================================================== *)

(** what [split_cliques] needs from [snode_post] (same form as [TreeSpec.vt_root] and
    [TreeSpec.vt_parent]) *)
Definition PostOrd (parent : list par) (post : list nat) : Prop :=
  NoDup post /\
  (exists pre r, post = pre ++ [r] /\ parent_of parent r = Root) /\
  (forall t1 c t2, post = t1 ++ c :: t2 -> t2 <> [] ->
     exists p, parent_of parent c = Par p /\ In p t2).

Lemma NoDup_split_eq : forall (l1 l1' : list nat) c r1 r1',
  NoDup (l1 ++ c :: r1) -> l1 ++ c :: r1 = l1' ++ c :: r1' -> l1 = l1' /\ r1 = r1'.
Proof.
  induction l1 as [|a l1 IH]; intros l1' c r1 r1' Hnd Heq; destruct l1' as [|a' l1'];
    cbn [app] in *.
  - injection Heq as Heq. split; [reflexivity | exact Heq].
  - exfalso. injection Heq as H1 H2. subst a'. inversion Hnd as [|x l Hnin _]; subst.
    apply Hnin. apply in_or_app. right. left. reflexivity.
  - exfalso. injection Heq as H1 H2. subst a. inversion Hnd as [|x l Hnin _]; subst.
    apply Hnin. apply in_or_app. right. left. reflexivity.
  - injection Heq as H1 H2. subst a'. inversion Hnd as [|x l _ Hnd']; subst.
    destruct (IH l1' c r1 r1' Hnd' H2) as [E1 E2]. subst. split; reflexivity.
Qed.

(** [post_order] applied to the result of [assign_children] yields such an order of the live
    cliques *)
Corollary clique_tree_post_order : forall n mst root (lv : list nat),
  acyclic mst -> In root lv -> (forall c, In c lv -> c < n) ->
  (forall c, In c lv -> eqv mst root c) ->
  (forall a b, In (a, b) mst -> In a lv /\ In b lv) ->
  NoDup lv ->
  let parent := assign_children n mst root in
  exists post, post_order parent (length lv) = Some post /\
    PostOrd parent post /\ (forall c, In c post <-> In c lv) /\
    length post = length lv /\ last post 0 = root.
Proof.
  intros n mst root lv Hacyc Hrlv Hlt Hconn Hends Hnd parent.
  destruct (assign_children_tree n mst root lv Hacyc Hrlv Hlt Hconn Hends)
    as (_ & _ & Hr & Hpar & _ & _ & _ & HF & Hfr & Hreach).
  fold parent in Hr, Hpar, HF, Hfr, Hreach.
  assert (HL : LiveCount parent root (length lv)).
  { exists lv. split; [exact Hnd|]. split; [|reflexivity].
    intros v. rewrite Hreach. tauto. }
  destruct (post_order_is_postorder parent (length lv) root HF Hfr HL)
    as (post & Hpo & P1 & P2 & P3 & [pre P4] & _ & P6 & _).
  exists post. split; [exact Hpo|].
  assert (Hin : forall c, In c post <-> In c lv).
  { intros c. rewrite P2. apply Hreach. }
  split; [|split; [exact Hin | split; [exact P6 | rewrite P4; apply last_last]]].
  split; [exact P1|]. split.
  - exists pre, root. split; [exact P4 | exact Hr].
  - intros t1 c t2 Hsplit Ht2.
    assert (Hc : In c post). { rewrite Hsplit. apply in_or_app. right. left. reflexivity. }
    assert (Hne : c <> root).
    { intros Heq. subst c.
      assert (Hs : t1 ++ root :: t2 = pre ++ root :: []).
      { rewrite <- Hsplit. exact P4. }
      rewrite Hsplit in P1.
      destruct (NoDup_split_eq t1 pre root t2 [] P1 Hs) as [_ E]. exact (Ht2 E). }
    destruct (Hpar c (proj1 (Hin c) Hc) Hne) as (p & Hp & _ & _).
    exists p. split; [exact Hp|].
    destruct (P3 c p Hp Hc) as (l1 & l2 & l3 & Hs).
    rewrite Hsplit in P1.
    assert (Hs' : t1 ++ c :: t2 = l1 ++ c :: l2 ++ p :: l3). { rewrite <- Hsplit. exact Hs. }
    destruct (NoDup_split_eq t1 l1 c t2 (l2 ++ p :: l3) P1 Hs') as [_ E].
    rewrite E. apply in_or_app. right. left. reflexivity.
Qed.

(* ================================================================== *)
(** * 6. [split_cliques]                                                *)
(* ================================================================== *)

Lemma In_inter : forall a b v, In v (inter a b) <-> In v a /\ In v b.
Proof. intros a b v. unfold inter. rewrite filter_In, memn_In. tauto. Qed.

Lemma In_diff : forall a b v, In v (diff a b) <-> In v a /\ ~ In v b.
Proof.
  intros a b v. unfold diff. rewrite filter_In, negb_true_iff, memn_false. tauto.
Qed.

Lemma diff_inter : forall a b, diff a (inter a b) = diff a b.
Proof.
  intros a b. unfold diff. apply filter_ext_in. intros x Hx. f_equal.
  destruct (memn x b) eqn:E.
  - apply memn_In. apply In_inter. apply memn_In in E. split; assumption.
  - apply memn_false. intros Hin. apply In_inter in Hin. apply memn_false in E. tauto.
Qed.

Lemma filter_partition_perm : forall (f : nat -> bool) l,
  Permutation (filter (fun x => negb (f x)) l ++ filter f l) l.
Proof.
  intros f. induction l as [|a l IH]; cbn [filter].
  - apply Permutation_refl.
  - destruct (f a); cbn [negb app].
    + apply Permutation_sym. apply Permutation_cons_app. apply Permutation_sym. exact IH.
    + apply perm_skip. exact IH.
Qed.

Lemma diff_inter_perm : forall a b, Permutation (diff a b ++ inter a b) a.
Proof. intros a b. unfold diff, inter. apply filter_partition_perm. Qed.

Lemma nth_map_nil : forall (l : list (list nat)) c,
  nth c (map (fun _ => @nil nat) l) [] = [].
Proof.
  induction l as [|a l IH]; intros c; destruct c as [|c]; cbn [map nth]; try reflexivity.
  apply IH.
Qed.

(** the loop of [split_cliques] over a list [todo] of cliques in which no parent precedes
    its child: every parent clique is still complete when it is read *)
Lemma split_fold : forall parent todo snode sep,
  NoDup todo ->
  (forall c, In c todo -> c < length snode /\ c < length sep) ->
  (forall t1 c t2, todo = t1 ++ c :: t2 ->
     exists p, parent_of parent c = Par p /\ ~ In p (t1 ++ [c])) ->
  let res := fold_left (split_step parent) todo (snode, sep) in
  length (fst res) = length snode /\ length (snd res) = length sep /\
  (forall x, ~ In x todo ->
     nth x (fst res) [] = nth x snode [] /\ nth x (snd res) [] = nth x sep []) /\
  (forall c p, In c todo -> parent_of parent c = Par p ->
     nth c (snd res) [] = inter (nth c snode []) (nth p snode []) /\
     nth c (fst res) [] = diff (nth c snode []) (inter (nth c snode []) (nth p snode []))).
Proof.
  intros parent. induction todo as [|c t IH]; intros snode sep Hnd Hlen Hpar; cbn [fold_left].
  - cbn [fst snd]. split; [reflexivity|]. split; [reflexivity|].
    split; [intros x _; split; reflexivity | intros c p []].
  - inversion Hnd as [|c' t' Hnin Hnd']; subst c' t'.
    destruct (Hpar [] c t eq_refl) as (p & Hp & Hpn). cbn [app] in Hpn.
    destruct (Hlen c (or_introl eq_refl)) as [Hc1 Hc2].
    set (s := inter (nth c snode []) (nth p snode [])).
    assert (Hstep : split_step parent (snode, sep) c
                    = (set_nth snode c (diff (nth c snode []) s), set_nth sep c s)).
    { unfold split_step. rewrite Hp. reflexivity. }
    rewrite Hstep.
    set (snode1 := set_nth snode c (diff (nth c snode []) s)).
    set (sep1 := set_nth sep c s).
    assert (Hlen1 : forall x, In x t -> x < length snode1 /\ x < length sep1).
    { intros x Hx. unfold snode1, sep1. rewrite !set_nth_length. apply Hlen. right. exact Hx. }
    assert (Hpar1 : forall t1 x t2, t = t1 ++ x :: t2 ->
              exists q, parent_of parent x = Par q /\ ~ In q (t1 ++ [x])).
    { intros t1 x t2 Ht. destruct (Hpar (c :: t1) x t2) as (q & Hq & Hqn).
      - cbn [app]. rewrite Ht. reflexivity.
      - exists q. split; [exact Hq|]. intros Hin. apply Hqn. cbn [app]. right. exact Hin. }
    destruct (IH snode1 sep1 Hnd' Hlen1 Hpar1) as (L1 & L2 & Hout & Hin).
    split; [rewrite L1; apply set_nth_length|].
    split; [rewrite L2; apply set_nth_length|].
    split.
    + intros x Hx. destruct (Hout x) as [O1 O2].
      { intros Hxt. apply Hx. right. exact Hxt. }
      assert (Hxc : x <> c). { intros Heq. apply Hx. left. symmetry. exact Heq. }
      rewrite O1, O2. unfold snode1, sep1. rewrite !nth_set_nth_other by exact Hxc.
      split; reflexivity.
    + intros c0 p0 [Heq | Hc0] Hp0.
      * subst c0. rewrite Hp in Hp0. injection Hp0 as Hp0. subst p0.
        destruct (Hout c Hnin) as [O1 O2]. rewrite O1, O2. unfold snode1, sep1.
        rewrite !nth_set_nth_same by assumption. split; reflexivity.
      * destruct (Hin c0 p0 Hc0 Hp0) as [I1 I2].
        assert (Hc0c : c0 <> c). { intros Heq. subst c0. exact (Hnin Hc0). }
        assert (Hp0c : p0 <> c).
        { destruct (in_split c0 t Hc0) as (t1 & t2 & Ht).
          destruct (Hpar (c :: t1) c0 t2) as (q & Hq & Hqn).
          - cbn [app]. rewrite Ht. reflexivity.
          - rewrite Hp0 in Hq. injection Hq as Hq. subst q.
            intros Heq. apply Hqn. cbn [app]. left. symmetry. exact Heq. }
        rewrite I1, I2. unfold snode1.
        rewrite (nth_set_nth_other _ snode c c0) by exact Hc0c.
        rewrite (nth_set_nth_other _ snode c p0) by exact Hp0c.
        split; reflexivity.
Qed.

Theorem split_cliques_spec : forall cliques parent post,
  PostOrd parent post ->
  (forall c, In c post -> c < length cliques) ->
  let snode := fst (split_cliques cliques parent post) in
  let sep := snd (split_cliques cliques parent post) in
  length snode = length cliques /\ length sep = length cliques /\
  (* a clique with a parent: the parent clique read by the loop is the complete one *)
  (forall c p, In c post -> parent_of parent c = Par p ->
     let C := nth c cliques [] in
     let P := nth p cliques [] in
     nth c sep [] = inter C P /\ nth c snode [] = diff C P /\
     (forall v, In v (nth c sep []) <-> In v C /\ In v P) /\
     (forall v, In v (nth c snode []) <-> In v C /\ ~ In v P) /\
     (NoDup C -> NoDup (nth c sep []) /\ NoDup (nth c snode [])) /\
     Permutation (nth c snode [] ++ nth c sep []) C) /\
  (* the root and the cliques outside the post-order keep their set; empty separator *)
  (forall c, parent_of parent c = Root \/ ~ In c post ->
     nth c snode [] = nth c cliques [] /\ nth c sep [] = []) /\
  (* hence no clique changes as a set *)
  (forall c, Permutation (nth c snode [] ++ nth c sep []) (nth c cliques [])).
Proof.
  intros cliques parent post (Hnd & (pre & r & Hpost & Hr) & Hpar) Hlt snode sep.
  assert (Hfirst : firstn (length post - 1) post = pre).
  { rewrite Hpost. rewrite app_length. cbn [length].
    replace (length pre + 1 - 1) with (length pre + 0) by lia.
    rewrite firstn_app_2. cbn [firstn]. apply app_nil_r. }
  assert (Hndpre : NoDup pre).
  { rewrite Hpost in Hnd. apply NoDup_remove_1 in Hnd. rewrite app_nil_r in Hnd. exact Hnd. }
  assert (Hrpre : ~ In r pre).
  { rewrite Hpost in Hnd. apply NoDup_remove_2 in Hnd. rewrite app_nil_r in Hnd. exact Hnd. }
  assert (Hprepost : forall c, In c pre -> In c post).
  { intros c Hc. rewrite Hpost. apply in_or_app. left. exact Hc. }
  assert (Hparpre : forall t1 c t2, pre = t1 ++ c :: t2 ->
            exists p, parent_of parent c = Par p /\ ~ In p (t1 ++ [c])).
  { intros t1 c t2 Ht.
    assert (Hs : post = t1 ++ c :: (t2 ++ [r])).
    { rewrite Hpost, Ht. rewrite <- app_assoc. reflexivity. }
    destruct (Hpar t1 c (t2 ++ [r]) Hs) as (p & Hp & Hin).
    { intros Hnil. apply app_eq_nil in Hnil. destruct Hnil as [_ Hnil]. discriminate. }
    exists p. split; [exact Hp|]. intros Hin'.
    rewrite Hs in Hnd.
    replace (t1 ++ c :: t2 ++ [r]) with ((t1 ++ [c]) ++ (t2 ++ [r])) in Hnd
      by (rewrite <- app_assoc; reflexivity).
    clear - Hnd Hin Hin'.
    induction (t1 ++ [c]) as [|a l IH]; [destruct Hin'|].
    cbn [app] in Hnd. inversion Hnd as [|a' l' Hna Hnd']; subst.
    destruct Hin' as [Heq | Hin'].
    - subst a. apply Hna. apply in_or_app. right. exact Hin.
    - exact (IH Hnd' Hin'). }
  assert (Hlens : forall c, In c pre ->
            c < length cliques /\ c < length (map (fun _ : list nat => @nil nat) cliques)).
  { intros c Hc. rewrite map_length. split; apply Hlt; apply Hprepost; exact Hc. }
  destruct (split_fold parent pre cliques (map (fun _ => []) cliques) Hndpre Hlens Hparpre)
    as (L1 & L2 & Hout & Hin).
  assert (Esn : snode = fst (fold_left (split_step parent) pre
                                       (cliques, map (fun _ => []) cliques))).
  { unfold snode, split_cliques. rewrite Hfirst. reflexivity. }
  assert (Esp : sep = snd (fold_left (split_step parent) pre
                                     (cliques, map (fun _ => []) cliques))).
  { unfold sep, split_cliques. rewrite Hfirst. reflexivity. }
  rewrite <- Esn in L1, Hout, Hin. rewrite <- Esp in L2, Hout, Hin.
  rewrite map_length in L2.
  assert (Hcpre : forall c p, In c post -> parent_of parent c = Par p -> In c pre).
  { intros c p Hc Hp. rewrite Hpost in Hc. apply in_app_or in Hc.
    destruct Hc as [Hc | [Heq | []]]; [exact Hc|]. subst c. rewrite Hr in Hp. discriminate. }
  assert (Hkeep : forall c, ~ In c pre ->
            nth c snode [] = nth c cliques [] /\ nth c sep [] = []).
  { intros c Hc. destruct (Hout c Hc) as [O1 O2]. split; [exact O1|].
    rewrite O2. apply nth_map_nil. }
  assert (Hsplit : forall c p, In c post -> parent_of parent c = Par p ->
            nth c sep [] = inter (nth c cliques []) (nth p cliques []) /\
            nth c snode [] = diff (nth c cliques []) (nth p cliques [])).
  { intros c p Hc Hp. destruct (Hin c p (Hcpre c p Hc Hp) Hp) as [I1 I2].
    split; [exact I1|]. rewrite I2. apply diff_inter. }
  split; [exact L1|]. split; [exact L2|].
  split.
  { intros c p Hc Hp C P. destruct (Hsplit c p Hc Hp) as [S1 S2]. fold C P in S1, S2.
    split; [exact S1|]. split; [exact S2|]. rewrite S1, S2.
    split; [intros v; apply In_inter|]. split; [intros v; apply In_diff|].
    split; [|apply diff_inter_perm].
    intros Hcl. split; [unfold inter | unfold diff]; apply NoDup_filter; exact Hcl. }
  split.
  { intros c [Hroot | Hnot]; apply Hkeep.
    - intros Hc. destruct (in_split c pre Hc) as (t1 & t2 & Ht).
      destruct (Hparpre t1 c t2 Ht) as (p & Hp & _). rewrite Hroot in Hp. discriminate.
    - intros Hc. apply Hnot. apply Hprepost. exact Hc. }
  intros c. destruct (in_dec Nat.eq_dec c pre) as [Hc | Hc].
  - destruct (in_split c pre Hc) as (t1 & t2 & Ht).
    destruct (Hparpre t1 c t2 Ht) as (p & Hp & _).
    destruct (Hsplit c p (Hprepost c Hc) Hp) as [S1 S2]. rewrite S1, S2.
    apply diff_inter_perm.
  - destruct (Hkeep c Hc) as [K1 K2]. rewrite K1, K2, app_nil_r. apply Permutation_refl.
Qed.

(** the two local conditions that [TreeSpec.chk_chain] tests for a clique and its parent
    (separator inside the parent clique, supernode disjoint from it; the parent clique is
    the one AFTER the split), that the root has an empty separator, and that a clique lists
    no vertex twice *)
Corollary split_tree_checks : forall cliques parent post,
  PostOrd parent post ->
  (forall c, In c post -> c < length cliques) ->
  let snode := fst (split_cliques cliques parent post) in
  let sep := snd (split_cliques cliques parent post) in
  let clique' := fun c => nth c snode [] ++ nth c sep [] in
  (forall c p, In c post -> parent_of parent c = Par p ->
     incl (nth c sep []) (clique' p) /\
     (forall v, In v (nth c snode []) -> ~ In v (clique' p)) /\
     forallb (fun v => memn v (clique' p)) (nth c sep []) = true /\
     forallb (fun v => negb (memn v (clique' p))) (nth c snode []) = true) /\
  (forall r, parent_of parent r = Root -> nth r sep [] = []) /\
  (forall c, NoDup (nth c cliques []) -> NoDup (clique' c)).
Proof.
  intros cliques parent post HP Hlt snode sep clique'.
  destruct (split_cliques_spec cliques parent post HP Hlt) as (_ & _ & Hpar & Hroot & Hperm).
  fold snode sep in Hpar, Hroot, Hperm.
  assert (Hmem : forall p v, In v (clique' p) <-> In v (nth p cliques [])).
  { intros p v. unfold clique'. split; intros H.
    - exact (Permutation_in v (Hperm p) H).
    - exact (Permutation_in v (Permutation_sym (Hperm p)) H). }
  split.
  { intros c p Hc Hp. destruct (Hpar c p Hc Hp) as (_ & _ & Hsep & Hsn & _ & _).
    assert (H1 : incl (nth c sep []) (clique' p)).
    { intros v Hv. apply Hmem. apply Hsep in Hv. tauto. }
    assert (H2 : forall v, In v (nth c snode []) -> ~ In v (clique' p)).
    { intros v Hv Hin. apply Hmem in Hin. apply Hsn in Hv. tauto. }
    split; [exact H1|]. split; [exact H2|]. split.
    - apply forallb_forall. intros v Hv. apply memn_In. exact (H1 v Hv).
    - apply forallb_forall. intros v Hv. apply negb_true_iff. apply memn_false.
      exact (H2 v Hv). }
  split.
  { intros r Hr. exact (proj2 (Hroot r (or_introl Hr))). }
  intros c Hc. unfold clique'.
  apply (Permutation_NoDup (Permutation_sym (Hperm c))). exact Hc.
Qed.

(** the cover carries over: the cliques are unchanged as sets, so every initial clique
    [snode_i ∪ sep_i] of the tree that entered the clique-graph merge lies inside some clique
    [snode'_k ++ sep'_k] after the split ([MergeCG.cg_run_cover]) *)
Corollary split_cover : forall cliques parent post,
  PostOrd parent post ->
  (forall c, In c post -> c < length cliques) ->
  let snode := fst (split_cliques cliques parent post) in
  let sep := snd (split_cliques cliques parent post) in
  forall (S0 C : list nat), In C cliques -> incl S0 C ->
  exists k, k < length cliques /\ incl S0 (nth k snode [] ++ nth k sep []).
Proof.
  intros cliques parent post HP Hlt snode sep S0 C HC Hincl.
  destruct (split_cliques_spec cliques parent post HP Hlt) as (_ & _ & _ & _ & Hperm).
  fold snode sep in Hperm.
  destruct (In_nth cliques C [] HC) as (k & Hk & Hnth).
  exists k. split; [exact Hk|]. intros v Hv.
  apply (Permutation_in v (Permutation_sym (Hperm k))). rewrite Hnth. apply Hincl. exact Hv.
Qed.

Corollary split_cover_cg : forall snode0 sep0 parent post i,
  let cliques := snd (Clarabel.Chordal.MergeCG.cg_run snode0 sep0) in
  PostOrd parent post ->
  (forall c, In c post -> c < length cliques) ->
  i < length snode0 ->
  exists k, k < length cliques /\
    incl (Clarabel.Chordal.MergeCG.union_into (nth i snode0 []) (nth i sep0 []))
         (nth k (fst (split_cliques cliques parent post)) []
          ++ nth k (snd (split_cliques cliques parent post)) []).
Proof.
  intros snode0 sep0 parent post i cliques HP Hlt Hi.
  destruct (Clarabel.Chordal.MergeCG.cg_run_cover snode0 sep0 i Hi) as (C & HC & Hincl).
  exact (split_cover cliques parent post HP Hlt _ C HC Hincl).
Qed.

(* ================================================================== *)
(** * 7. The three steps together                                       *)
(* ================================================================== *)

(** [determine_parent_cliques], [post_order], [split_cliques] as called by
    [clique_tree_from_graph], for a spanning tree [mst] of the live cliques [lv] *)
Theorem clique_tree_from_graph_spec : forall cliques mst root (lv : list nat),
  let n := length cliques in
  acyclic mst -> In root lv -> NoDup lv -> (forall c, In c lv -> c < n) ->
  (forall c, In c lv -> eqv mst root c) ->
  (forall a b, In (a, b) mst -> In a lv /\ In b lv) ->
  let parent := assign_children n mst root in
  exists post, post_order parent (length lv) = Some post /\
    (forall c, In c post <-> In c lv) /\ PostOrd parent post /\
    let snode := fst (split_cliques cliques parent post) in
    let sep := snd (split_cliques cliques parent post) in
    (forall c, Permutation (nth c snode [] ++ nth c sep []) (nth c cliques [])) /\
    nth root sep [] = [] /\
    (forall c p, parent_of parent c = Par p ->
       has_edge mst c p = true /\
       (forall v, In v (nth c sep []) <-> In v (nth c cliques []) /\ In v (nth p cliques [])) /\
       (forall v, In v (nth c snode []) <-> In v (nth c cliques []) /\ ~ In v (nth p cliques []))).
Proof.
  intros cliques mst root lv n Hacyc Hrlv Hnd Hlt Hconn Hends parent.
  destruct (clique_tree_post_order n mst root lv Hacyc Hrlv Hlt Hconn Hends Hnd)
    as (post & Hpo & HP & Hin & _ & _).
  fold parent in Hpo, HP.
  destruct (assign_children_tree n mst root lv Hacyc Hrlv Hlt Hconn Hends)
    as (_ & _ & Hr & _ & _ & Hlink & _).
  fold parent in Hr, Hlink.
  exists post. split; [exact Hpo|]. split; [exact Hin|]. split; [exact HP|].
  assert (Hlt' : forall c, In c post -> c < length cliques).
  { intros c Hc. apply Hlt. apply Hin. exact Hc. }
  destruct (split_cliques_spec cliques parent post HP Hlt') as (_ & _ & Hpar & Hroot & Hperm).
  intros snode sep. fold snode sep in Hpar, Hroot, Hperm.
  split; [exact Hperm|]. split; [exact (proj2 (Hroot root (or_introl Hr)))|].
  intros c p Hcp. destruct (Hlink c p Hcp) as (Hc & _ & He).
  destruct (Hpar c p (proj2 (Hin c) Hc) Hcp) as (_ & _ & Hsep & Hsn & _).
  split; [exact He|]. split; [exact Hsep | exact Hsn].
Qed.

Print Assumptions assign_children_component.
Print Assumptions assign_children_tree.
Print Assumptions clique_tree_post_order.
Print Assumptions split_cliques_spec.
Print Assumptions split_tree_checks.
Print Assumptions split_cover_cg.
Print Assumptions clique_tree_from_graph_spec.
Print Assumptions root_clique_spec.
Print Assumptions mst_neighbors_eq.
