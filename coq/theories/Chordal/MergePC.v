(** The parent-child clique merging strategy of Clarabel.rs
    ([src/solver/chordal/merge/parent_child.rs], driven by the generic loop [merge_cliques] of
    [src/solver/chordal/merge/mod.rs]).

    {[
    fn merge_cliques(&mut self, t: &mut SuperNodeTree) {
        self.initialise(t);                       // clique_index = t.snode.len() - 2
        while !self.is_done() {                   // stop flag
            let Some(cand) = self.traverse(t) else { break };
                  // c = t.snode_post[clique_index]; cand = (t.snode_parent[c], c)
            let do_merge = self.evaluate(t, cand);
            if do_merge { self.merge_two_cliques(t, cand); }
            self.update_strategy(t, cand, do_merge);
                  // clique_index == 0 ? stop = true : clique_index -= 1
            if t.n_cliques == 1 { break; }
        }
        self.post_process_merge(t);               // post_order(.., t.n_cliques)
    }
    ]}

    Modelling conventions.
    - Vertices and clique indices are [nat]; a vertex set is a [list nat] without duplicates;
      [union a b = a ++ filter (not in a) b] (element order is irrelevant: the comparison with
      the code is done on sorted sets).
    - [snode_parent] is a [list PostOrder.par] ([Root] = [NO_PARENT], [Dead] = [INACTIVE_NODE]).
    - [snode_children] is not stored: the code maintains [children[p] = { c | parent[c] = p }]
      ([children_from_parent] initially; [merge_two_cliques] removes [ch] from [children[p]],
      adds [children[ch]] to it and clears [children[ch]], in step with the parent updates), so
      it is recomputed from [parent] where needed ([PostOrder.children]).
    - [t.snode_post] is NOT modified by the loop: the traversal reads the INITIAL post-order.
      The candidate's parent is read from the CURRENT parent vector.
    - [fill_in] uses [usize] subtraction; modelled by truncated [nat] subtraction
      ([fill_in_no_underflow] shows that no underflow happens on valid trees).
    - If the candidate child has parent [Root]/[Dead] (the Rust would index out of bounds with
      [usize::MAX]/[usize::MAX-1]; impossible on valid input) the model returns the state
      unchanged and stops.  [merge_cliques] is only called when [n_cliques > 1]
      ([sparsity_pattern.rs]), so [len - 2] does not underflow; with truncated subtraction a
      one-clique input falls into the previous caveat (candidate child is the root). *)
From Coq Require Import List Arith Lia Bool Permutation.
Require Clarabel.Chordal.PostOrder.
Import ListNotations.

Notation par := PostOrder.par.
Notation Root := PostOrder.Root.
Notation Dead := PostOrder.Dead.
Notation Par := PostOrder.Par.

(** * PART 1: executable model *)

Definition mem (v : nat) (l : list nat) : bool := existsb (Nat.eqb v) l.

(** [set_union_into_indexed] / [VertexSet::insert] of every element of [b] into [a]. *)
Definition union (a b : list nat) : list nat := a ++ filter (fun x => negb (mem x a)) b.

Fixpoint set_nth {A : Type} (l : list A) (k : nat) (x : A) : list A :=
  match l, k with
  | [], _ => []
  | _ :: t, 0 => x :: t
  | a :: t, S k' => a :: set_nth t k' x
  end.

Record pcstate := {
  snode : list (list nat);
  sep : list (list nat);
  parent : list PostOrder.par;
  ncl : nat
}.

Definition sn (st : pcstate) (c : nat) : list nat := nth c (snode st) [].
Definition sp (st : pcstate) (c : nat) : list nat := nth c (sep st) [].
Definition pa (st : pcstate) (c : nat) : par := PostOrder.parent_of (parent st) c.

(** [t.snode_children[p]], derived from the parent vector. *)
Definition pc_children (st : pcstate) (p : nat) : list nat := PostOrder.children (parent st) p.

(** The clique of index [c]: supernode plus separator ([get_clique]). *)
Definition clique (st : pcstate) (c : nat) : list nat := union (sn st c) (sp st c).

Definition fill_in (ds_c dsep_c ds_p dsep_p : nat) : nat :=
  let dim_parent := ds_p + dsep_p in
  let dim_clique := ds_c + dsep_c in
  (dim_parent - dsep_c) * (dim_clique - dsep_c).

Definition t_fill : nat := 8.
Definition t_size : nat := 8.

Definition clique_dim (st : pcstate) (i : nat) : nat * nat := (length (sn st i), length (sp st i)).

Definition pc_evaluate (st : pcstate) (p c : nat) : bool :=
  let '(dim_parent_snode, dim_parent_sep) := clique_dim st p in
  let '(dim_clique_snode, dim_clique_sep) := clique_dim st c in
  let fill := fill_in dim_clique_snode dim_clique_sep dim_parent_snode dim_parent_sep in
  let max_snode := Nat.max dim_clique_snode dim_parent_snode in
  (fill <=? t_fill) || (max_snode <=? t_size).

(** [for &grandch in children[ch] { parent[grandch] = p }] on the derived children relation. *)
Definition redirect (p c : nat) (q : par) : par :=
  match q with
  | Par x => if x =? c then Par p else q
  | _ => q
  end.

Definition pc_merge (st : pcstate) (p c : nat) : pcstate :=
  {| snode := set_nth (set_nth (snode st) p (union (sn st p) (sn st c))) c [];
     sep := set_nth (sep st) c [];
     parent := set_nth (map (redirect p c) (parent st)) c Dead;
     ncl := ncl st - 1 |}.

(** [determine_parent]: [if t.snode_children[c1].contains(&c2) {(c1,c2)} else {(c2,c1)}]. *)
Definition determine_parent (st : pcstate) (c1 c2 : nat) : nat * nat :=
  if mem c2 (pc_children st c1) then (c1, c2) else (c2, c1).

(** One loop iteration for the candidate child [c = post[clique_index]]:
    traverse, evaluate, (merge).  [None]: the candidate has no [Par] parent. *)
Definition pc_step (st : pcstate) (c : nat) : option ((nat * nat * bool) * pcstate) :=
  match pa st c with
  | Par p =>
      let do_merge := pc_evaluate st p c in
      let st' :=
        if do_merge then let '(p', ch) := determine_parent st p c in pc_merge st p' ch
        else st in
      Some ((p, c, do_merge), st')
  | _ => None
  end.

(** The loop, from [clique_index = idx] down to 0 (or until [ncl = 1]). *)
Fixpoint pc_loop (post : list nat) (idx : nat) (st : pcstate) {struct idx}
  : list (nat * nat * bool) * pcstate :=
  match pc_step st (nth idx post 0) with
  | None => ([], st)
  | Some (d, st') =>
      if ncl st' =? 1 then ([d], st')
      else
        match idx with
        | 0 => ([d], st')
        | S i => let '(ds, stf) := pc_loop post i st' in (d :: ds, stf)
        end
  end.

Definition pc_init (snode0 sep0 : list (list nat)) (parent0 : list par) : pcstate :=
  {| snode := snode0; sep := sep0; parent := parent0; ncl := length snode0 |}.

Definition pc_run (snode0 sep0 : list (list nat)) (parent0 : list par) (post : list nat)
  : list (nat * nat * bool) * pcstate :=
  pc_loop post (length post - 2) (pc_init snode0 sep0 parent0).

(** [post_process_merge]: the post-order is recomputed from the final parent vector. *)
Definition pc_final_post (st : pcstate) : option (list nat) :=
  PostOrder.post_order (parent st) (ncl st).

(** A 4-clique chain 0 -> 1 -> 2 -> 3 (root).  The first candidate (3,2) is merged (fill 2);
    then 1 (whose parent has become 3) is not: fill = (4+0-1)*9 = 27 > 8, max_snode = 9 > 8;
    finally 0 is merged into 1: fill = (9+1-2)*1 = 8. *)
Example pc_run_chain :
  let snode0 := [[8]; [9; 10; 11; 12; 13; 14; 15; 16; 17]; [18; 19]; [20; 21]] in
  let sep0 := [[9; 10]; [18]; [20]; []] in
  let parent0 := [Par 1; Par 2; Par 3; Root] in
  let '(ds, stf) := pc_run snode0 sep0 parent0 [0; 1; 2; 3] in
  ds = [(3, 2, true); (3, 1, false); (1, 0, true)] /\
  snode stf = [[]; [9; 10; 11; 12; 13; 14; 15; 16; 17; 8]; []; [20; 21; 18; 19]] /\
  sep stf = [[]; [18]; []; []] /\
  parent stf = [Dead; Par 3; Dead; Root] /\
  ncl stf = 2 /\
  pc_final_post stf = Some [1; 3].
Proof. vm_compute. repeat split; reflexivity. Qed.

(** * Basic lemmas on the model *)

Lemma mem_In : forall v l, mem v l = true <-> In v l.
Proof.
  intros v l. unfold mem. rewrite existsb_exists. split.
  - intros (x & Hx & E). apply Nat.eqb_eq in E. subst x. exact Hx.
  - intros H. exists v. split; [exact H | apply Nat.eqb_refl].
Qed.

Lemma in_union : forall v a b, In v (union a b) <-> In v a \/ In v b.
Proof.
  intros v a b. unfold union. rewrite in_app_iff, filter_In. split.
  - intros [H | [H _]]; [left | right]; exact H.
  - intros [H | H]; [left; exact H |].
    destruct (mem v a) eqn:E.
    + left. apply mem_In. exact E.
    + right. split; [exact H | reflexivity].
Qed.

Lemma NoDup_union : forall a b, NoDup a -> NoDup b -> NoDup (union a b).
Proof.
  intros a b Ha Hb. unfold union. apply PostOrder.NoDup_app_intro.
  - exact Ha.
  - apply NoDup_filter. exact Hb.
  - intros x Hx Hf. apply filter_In in Hf. destruct Hf as [_ Hf].
    apply negb_true_iff in Hf.
    assert (Hm : mem x a = true) by (apply mem_In; exact Hx).
    rewrite Hm in Hf. discriminate.
Qed.

Lemma in_clique : forall st c v, In v (clique st c) <-> In v (sn st c) \/ In v (sp st c).
Proof. intros st c v. unfold clique. apply in_union. Qed.

Lemma set_nth_length : forall (A : Type) (l : list A) k x, length (set_nth l k x) = length l.
Proof.
  intros A l. induction l as [|a t IH]; intros k x; [reflexivity|].
  destruct k as [|k]; cbn [set_nth length]; [reflexivity | rewrite IH; reflexivity].
Qed.

Lemma nth_set_nth : forall (A : Type) (l : list A) k x d j,
  nth j (set_nth l k x) d = if j =? k then (if k <? length l then x else d) else nth j l d.
Proof.
  intros A l. induction l as [|a t IH]; intros k x d j.
  - cbn [set_nth length]. destruct (j =? k); destruct j; reflexivity.
  - destruct k as [|k], j as [|j]; cbn [set_nth nth length]; try reflexivity.
    rewrite IH. reflexivity.
Qed.

Lemma nonempty_in : forall (l : list nat), l <> [] <-> exists v, In v l.
Proof.
  intros l. split.
  - intros H. destruct l as [|a t]; [contradiction|]. exists a. left. reflexivity.
  - intros [v Hv] E. subst l. exact Hv.
Qed.

Lemma pa_lt : forall st c, pa st c <> Dead -> c < length (parent st).
Proof.
  intros st c H. destruct (lt_dec c (length (parent st))) as [Hlt | Hge]; [exact Hlt|].
  exfalso. apply H. unfold pa, PostOrder.parent_of. apply nth_overflow. lia.
Qed.

Lemma sn_lt : forall st c, sn st c <> [] -> c < length (snode st).
Proof.
  intros st c H. destruct (lt_dec c (length (snode st))) as [Hlt | Hge]; [exact Hlt|].
  exfalso. apply H. unfold sn. apply nth_overflow. lia.
Qed.

(** ** Reading the merged state *)

Lemma sp_merge : forall st p c d,
  sp (pc_merge st p c) d = if d =? c then [] else sp st d.
Proof.
  intros st p c d. unfold sp. cbn [sep pc_merge]. rewrite nth_set_nth.
  destruct (d =? c); [|reflexivity]. destruct (c <? length (sep st)); reflexivity.
Qed.

Lemma pa_merge : forall st p c d,
  pa (pc_merge st p c) d = if d =? c then Dead else redirect p c (pa st d).
Proof.
  intros st p c d. unfold pa, PostOrder.parent_of. cbn [parent pc_merge]. rewrite nth_set_nth.
  destruct (d =? c).
  - destruct (c <? length (map (redirect p c) (parent st))); reflexivity.
  - exact (map_nth (redirect p c) (parent st) Dead d).
Qed.

Lemma sn_merge : forall st p c d, p < length (snode st) ->
  sn (pc_merge st p c) d =
    if d =? c then [] else if d =? p then union (sn st p) (sn st c) else sn st d.
Proof.
  intros st p c d Hp. unfold sn at 1. cbn [snode pc_merge].
  rewrite !nth_set_nth, set_nth_length.
  destruct (d =? c).
  - destruct (c <? length (snode st)); reflexivity.
  - destruct (d =? p); [|reflexivity].
    apply Nat.ltb_lt in Hp. rewrite Hp. reflexivity.
Qed.

Lemma in_sn_merge : forall st p c d v, p < length (snode st) ->
  (In v (sn (pc_merge st p c) d) <->
   d <> c /\ (In v (sn st d) \/ (d = p /\ In v (sn st c)))).
Proof.
  intros st p c d v Hp. rewrite sn_merge by exact Hp.
  destruct (Nat.eqb_spec d c) as [Edc | Ndc].
  - split; [intros H; destruct H | intros [H _]; contradiction].
  - destruct (Nat.eqb_spec d p) as [Edp | Ndp].
    + subst d. rewrite in_union. split.
      * intros [H | H]; (split; [exact Ndc|]); [left; exact H | right; split; [reflexivity | exact H]].
      * intros [_ [H | [_ H]]]; [left | right]; exact H.
    + split.
      * intros H. split; [exact Ndc | left; exact H].
      * intros [_ [H | [E _]]]; [exact H | contradiction].
Qed.

Lemma in_sp_merge : forall st p c d v,
  In v (sp (pc_merge st p c) d) <-> d <> c /\ In v (sp st d).
Proof.
  intros st p c d v. rewrite sp_merge.
  destruct (Nat.eqb_spec d c) as [Edc | Ndc].
  - split; [intros H; destruct H | intros [H _]; contradiction].
  - split; [intros H; split; [exact Ndc | exact H] | intros [_ H]; exact H].
Qed.

Lemma pa_merge_Par : forall st p c d q,
  pa (pc_merge st p c) d = Par q ->
  d <> c /\ ((pa st d = Par q /\ q <> c) \/ (pa st d = Par c /\ q = p)).
Proof.
  intros st p c d q. rewrite pa_merge.
  destruct (Nat.eqb_spec d c) as [Edc | Ndc]; [discriminate|].
  intros H. split; [exact Ndc|].
  destruct (pa st d) as [| |x]; cbn [redirect] in H; try discriminate.
  destruct (Nat.eqb_spec x c) as [Exc | Nxc].
  - injection H as H. subst x q. right. split; reflexivity.
  - injection H as H. subst x. left. split; [reflexivity | exact Nxc].
Qed.

Lemma redirect_not_Par : forall p c q,
  (redirect p c q = Root <-> q = Root) /\ (redirect p c q = Dead <-> q = Dead).
Proof.
  intros p c q. destruct q as [| |x]; cbn [redirect].
  - split; split; intros H; try reflexivity; discriminate.
  - split; split; intros H; try reflexivity; discriminate.
  - destruct (x =? c); split; split; intros H; discriminate.
Qed.

(** * PART 2: validity predicate and the theorems about one merge step *)

(** [Anc pa a c]: [a] is a proper ancestor of [c] (one or more parent links). *)
Inductive Anc (pv : list par) : nat -> nat -> Prop :=
| Anc_par : forall c p, PostOrder.parent_of pv c = Par p -> Anc pv p c
| Anc_step : forall c p a, PostOrder.parent_of pv c = Par p -> Anc pv a p -> Anc pv a c.

Record TreeOK (st : pcstate) : Prop := {
  (* shapes *)
  ok_len_sep : length (sep st) = length (snode st);
  ok_len_par : length (parent st) = length (snode st);
  (* (i) forest on the live cliques, one root, Dead exactly for the empty supernodes *)
  ok_dead : forall c, pa st c = Dead <-> sn st c = [];
  ok_root : exists r, pa st r = Root /\ sp st r = [] /\ forall c, pa st c = Root -> c = r;
  ok_par_live : forall c p, pa st c = Par p -> sn st p <> [];
  ok_acyclic : exists h : nat -> nat, forall c p, pa st c = Par p -> h c < h p;
  (* (ii) supernodes: no duplicates, pairwise disjoint, disjoint from their separator *)
  ok_nodup_sn : forall c, NoDup (sn st c);
  ok_nodup_sp : forall c, NoDup (sp st c);
  ok_disj : forall c1 c2 v, In v (sn st c1) -> In v (sn st c2) -> c1 = c2;
  ok_sn_sp : forall c v, In v (sn st c) -> ~ In v (sp st c);
  ok_dead_sp : forall c, sn st c = [] -> sp st c = [];
  (* (iii) parent-child relation of the cliques *)
  ok_sep_sub : forall c q v, pa st c = Par q ->
      In v (sp st c) -> In v (sn st q) \/ In v (sp st q);
  ok_sn_disj_par : forall c q v, pa st c = Par q ->
      In v (sn st c) -> ~ (In v (sn st q) \/ In v (sp st q))
}.

(** [ncl] counts the live cliques. *)
Definition is_live (st : pcstate) (c : nat) : bool :=
  match sn st c with [] => false | _ :: _ => true end.

Definition NclOK (st : pcstate) : Prop :=
  ncl st = length (filter (is_live st) (seq 0 (length (snode st)))).

(** ** Consequences of [TreeOK] *)

Lemma Anc_trans : forall pv a b c, Anc pv a b -> Anc pv b c -> Anc pv a c.
Proof.
  intros pv a b c Hab Hbc. induction Hbc as [c b Hc | c q b Hc Hbq IH].
  - exact (Anc_step pv c b a Hc Hab).
  - exact (Anc_step pv c q a Hc (IH Hab)).
Qed.

Lemma Anc_height : forall pv (h : nat -> nat),
  (forall c p, PostOrder.parent_of pv c = Par p -> h c < h p) ->
  forall a c, Anc pv a c -> h c < h a.
Proof.
  intros pv h Hh a c H. induction H as [c p Hc | c p a Hc Hap IH].
  - exact (Hh c p Hc).
  - specialize (Hh c p Hc). lia.
Qed.

Lemma Anc_neq : forall st a c, TreeOK st -> Anc (parent st) a c -> a <> c.
Proof.
  intros st a c Hok H E. destruct (ok_acyclic st Hok) as [h Hh].
  pose proof (Anc_height (parent st) h Hh a c H) as Hlt. subst a. lia.
Qed.

Lemma height_bounded : forall (h : nat -> nat) n, exists H, forall c, c < n -> h c <= H.
Proof.
  intros h n. induction n as [|n [H IH]].
  - exists 0. intros c Hc. lia.
  - exists (Nat.max H (h n)). intros c Hc.
    destruct (Nat.eq_dec c n) as [E | N].
    + subst c. lia.
    + assert (Hc' : c < n) by lia. specialize (IH c Hc'). lia.
Qed.

(** Every separator vertex lies in the supernode of a proper ancestor. *)
Lemma sep_in_ancestor : forall st, TreeOK st ->
  forall c v, In v (sp st c) -> exists a, Anc (parent st) a c /\ In v (sn st a).
Proof.
  intros st Hok.
  destruct (ok_acyclic st Hok) as [h Hh].
  destruct (height_bounded h (length (snode st))) as [H HH].
  assert (Hind : forall k c, H - h c < k -> c < length (snode st) ->
            forall v, In v (sp st c) -> exists a, Anc (parent st) a c /\ In v (sn st a)).
  { induction k as [|k IH]; intros c Hk Hc v Hv; [lia|].
    destruct (pa st c) as [| |q] eqn:Epa.
    - destruct (ok_root st Hok) as (r & _ & Hspr & Huniq).
      rewrite (Huniq c Epa) in Hv. rewrite Hspr in Hv. destruct Hv.
    - apply (ok_dead st Hok) in Epa. rewrite (ok_dead_sp st Hok c Epa) in Hv. destruct Hv.
    - pose proof (Hh c q Epa) as Hlt.
      pose proof (sn_lt st q (ok_par_live st Hok c q Epa)) as Hq.
      pose proof (HH q Hq) as Hqb.
      destruct (ok_sep_sub st Hok c q v Epa Hv) as [Hin | Hin].
      + exists q. split; [apply Anc_par; exact Epa | exact Hin].
      + assert (Hk' : H - h q < k) by lia.
        destruct (IH q Hk' Hq v Hin) as (a & Ha & Hva).
        exists a. split; [exact (Anc_step (parent st) c q a Epa Ha) | exact Hva]. }
  intros c v Hv.
  destruct (lt_dec c (length (snode st))) as [Hc | Hc].
  - exact (Hind (S (H - h c)) c (Nat.lt_succ_diag_r _) Hc v Hv).
  - exfalso. unfold sp in Hv. rewrite nth_overflow in Hv; [destruct Hv|].
    rewrite (ok_len_sep st Hok). lia.
Qed.

(** A supernode is disjoint from the separator of every proper ancestor. *)
Lemma snode_disj_anc_sep : forall st a c v, TreeOK st ->
  Anc (parent st) a c -> In v (sn st c) -> ~ In v (sp st a).
Proof.
  intros st a c v Hok Hac Hvc Hva.
  destruct (sep_in_ancestor st Hok a v Hva) as (b & Hba & Hvb).
  pose proof (Anc_trans (parent st) b a c Hba Hac) as Hbc.
  apply (Anc_neq st b c Hok Hbc).
  exact (ok_disj st Hok b c v Hvb Hvc).
Qed.

(** Running intersection property, parent form. *)
Lemma treeok_rip : forall st a c q v, TreeOK st ->
  Anc (parent st) a c -> pa st c = Par q ->
  In v (clique st c) -> In v (clique st a) -> In v (clique st q).
Proof.
  intros st a c q v Hok Hac Hq Hvc Hva.
  rewrite in_clique in *.
  destruct Hvc as [Hvc | Hvc].
  - exfalso. destruct Hva as [Hva | Hva].
    + apply (Anc_neq st a c Hok Hac). exact (ok_disj st Hok a c v Hva Hvc).
    + exact (snode_disj_anc_sep st a c v Hok Hac Hvc Hva).
  - exact (ok_sep_sub st Hok c q v Hq Hvc).
Qed.

(** [fill_in]'s first [usize] subtraction does not underflow on a valid tree (the second,
    [dim_clique - dim_clique_sep], never does). *)
Lemma fill_in_no_underflow : forall st p c, TreeOK st -> pa st c = Par p ->
  length (sp st c) <= length (sn st p) + length (sp st p).
Proof.
  intros st p c Hok Hpc. rewrite <- app_length.
  apply NoDup_incl_length; [exact (ok_nodup_sp st Hok c)|].
  intros v Hv. apply in_or_app. exact (ok_sep_sub st Hok c p v Hpc Hv).
Qed.

(** ** One merge step *)

Section MergeStep.
  Variable st : pcstate.
  Variables p c : nat.
  Hypothesis Hok : TreeOK st.
  Hypothesis Hpc : pa st c = Par p.

  Lemma ms_p_lt : p < length (snode st).
  Proof. exact (sn_lt st p (ok_par_live st Hok c p Hpc)). Qed.

  Lemma ms_neq : p <> c.
  Proof. apply (Anc_neq st p c Hok). apply Anc_par. exact Hpc. Qed.

  Lemma ms_c_live : sn st c <> [].
  Proof.
    intros E. apply (ok_dead st Hok) in E. rewrite Hpc in E. discriminate.
  Qed.

  Lemma ms_sn_mono : forall d v, d <> c -> In v (sn st d) -> In v (sn (pc_merge st p c) d).
  Proof.
    intros d v Hd Hv. apply (in_sn_merge st p c d v ms_p_lt). split; [exact Hd | left; exact Hv].
  Qed.

  Lemma ms_sn_nonempty : forall d, d <> c -> sn st d <> [] -> sn (pc_merge st p c) d <> [].
  Proof.
    intros d Hd Hne. apply nonempty_in in Hne. destruct Hne as [v Hv].
    apply nonempty_in. exists v. exact (ms_sn_mono d v Hd Hv).
  Qed.

  (** Where a vertex of a merged supernode came from. *)
  Lemma ms_sn_origin : forall d v, In v (sn (pc_merge st p c) d) ->
    d <> c /\ exists d0, In v (sn st d0) /\ (d0 = d \/ (d = p /\ d0 = c)).
  Proof.
    intros d v Hv. apply (in_sn_merge st p c d v ms_p_lt) in Hv.
    destruct Hv as [Hd [Hv | [E Hv]]]; (split; [exact Hd|]).
    - exists d. split; [exact Hv | left; reflexivity].
    - exists c. split; [exact Hv | right; split; [exact E | reflexivity]].
  Qed.

  (** New parent links are old ancestor links. *)
  Lemma ms_par_anc : forall d q, pa (pc_merge st p c) d = Par q -> Anc (parent st) q d.
  Proof.
    intros d q H. apply pa_merge_Par in H. destruct H as [_ [[H _] | [H E]]].
    - apply Anc_par. exact H.
    - subst q. apply (Anc_step (parent st) d c p H). apply Anc_par. exact Hpc.
  Qed.

  Theorem pc_merge_ncl : ncl (pc_merge st p c) = ncl st - 1.
  Proof. reflexivity. Qed.

  (** Every clique of [st] is contained in a clique of the merged state. *)
  Theorem pc_merge_cover : forall d, exists d',
    forall v, In v (clique st d) -> In v (clique (pc_merge st p c) d').
  Proof.
    intros d. destruct (Nat.eq_dec d c) as [E | N].
    - subst d. exists p. intros v Hv. rewrite in_clique in *.
      destruct Hv as [Hv | Hv].
      + left. apply (in_sn_merge st p c p v ms_p_lt).
        split; [exact ms_neq | right; split; [reflexivity | exact Hv]].
      + destruct (ok_sep_sub st Hok c p v Hpc Hv) as [H | H].
        * left. exact (ms_sn_mono p v ms_neq H).
        * right. apply in_sp_merge. split; [exact ms_neq | exact H].
    - exists d. intros v Hv. rewrite in_clique in *.
      destruct Hv as [Hv | Hv].
      + left. exact (ms_sn_mono d v N Hv).
      + right. apply in_sp_merge. split; [exact N | exact Hv].
  Qed.

  Lemma in_concat_nth : forall (l : list (list nat)) v,
    In v (concat l) <-> exists d, In v (nth d l []).
  Proof.
    intros l v. rewrite in_concat. split.
    - intros (x & Hx & Hv). destruct (In_nth l x [] Hx) as (d & _ & Ed).
      exists d. rewrite Ed. exact Hv.
    - intros (d & Hv). exists (nth d l []). split; [|exact Hv].
      destruct (lt_dec d (length l)) as [Hd | Hd]; [apply nth_In; exact Hd|].
      rewrite nth_overflow in Hv by lia. destruct Hv.
  Qed.

  (** The union of all supernodes is unchanged as a set. *)
  Theorem pc_merge_vertices : forall v,
    In v (concat (snode st)) <-> In v (concat (snode (pc_merge st p c))).
  Proof.
    intros v. rewrite !in_concat_nth. split.
    - intros (d & Hv). fold (sn st d) in Hv.
      destruct (Nat.eq_dec d c) as [E | N].
      + subst d. exists p. fold (sn (pc_merge st p c) p).
        apply (in_sn_merge st p c p v ms_p_lt).
        split; [exact ms_neq | right; split; [reflexivity | exact Hv]].
      + exists d. exact (ms_sn_mono d v N Hv).
    - intros (d & Hv). fold (sn (pc_merge st p c) d) in Hv.
      destruct (ms_sn_origin d v Hv) as (_ & d0 & Hv0 & _). exists d0. exact Hv0.
  Qed.

  Theorem pc_merge_treeok : TreeOK (pc_merge st p c).
  Proof.
    pose proof ms_p_lt as Hp. pose proof ms_neq as Hne.
    assert (Hdisj' : forall c1 c2 v, In v (sn (pc_merge st p c) c1) ->
              In v (sn (pc_merge st p c) c2) -> c1 = c2).
    { intros c1 c2 v H1 H2.
      destruct (ms_sn_origin c1 v H1) as (N1 & d1 & Hv1 & O1).
      destruct (ms_sn_origin c2 v H2) as (N2 & d2 & Hv2 & O2).
      pose proof (ok_disj st Hok d1 d2 v Hv1 Hv2) as E.
      destruct O1 as [O1 | [O1 O1']], O2 as [O2 | [O2 O2']]; subst; try reflexivity;
        contradiction. }
    assert (Hacyc' : exists h : nat -> nat,
              forall d q, pa (pc_merge st p c) d = Par q -> h d < h q).
    { destruct (ok_acyclic st Hok) as [h Hh]. exists h. intros d q H.
      exact (Anc_height (parent st) h Hh q d (ms_par_anc d q H)). }
    constructor.
    - (* len sep *)
      cbn [sep snode pc_merge]. rewrite !set_nth_length. exact (ok_len_sep st Hok).
    - (* len par *)
      cbn [parent snode pc_merge]. rewrite !set_nth_length, map_length.
      exact (ok_len_par st Hok).
    - (* dead *)
      intros d. rewrite pa_merge. destruct (Nat.eqb_spec d c) as [E | N].
      + subst d. rewrite sn_merge by exact Hp. rewrite Nat.eqb_refl.
        split; intros _; reflexivity.
      + split.
        * intros H. apply (redirect_not_Par p c (pa st d)) in H.
          apply (ok_dead st Hok) in H.
          rewrite sn_merge by exact Hp.
          destruct (Nat.eqb_spec d c) as [E1 | _]; [contradiction|].
          destruct (Nat.eqb_spec d p) as [E2 | _]; [|exact H].
          subst d. exfalso. exact (ok_par_live st Hok c p Hpc H).
        * intros H. apply (redirect_not_Par p c (pa st d)). apply (ok_dead st Hok).
          destruct (sn st d) as [|x t] eqn:E; [reflexivity|]. exfalso.
          apply (ms_sn_nonempty d N); [rewrite E; discriminate | exact H].
    - (* root *)
      destruct (ok_root st Hok) as (r & Hr & Hspr & Huniq). exists r.
      assert (Hrc : r <> c). { intros E. subst r. rewrite Hpc in Hr. discriminate. }
      split; [|split].
      + rewrite pa_merge. destruct (Nat.eqb_spec r c) as [E | _]; [contradiction|].
        rewrite Hr. reflexivity.
      + rewrite sp_merge. destruct (Nat.eqb_spec r c) as [E | _]; [contradiction|]. exact Hspr.
      + intros d Hd. rewrite pa_merge in Hd.
        destruct (Nat.eqb_spec d c) as [E | _]; [discriminate|].
        apply (redirect_not_Par p c (pa st d)) in Hd. exact (Huniq d Hd).
    - (* par live *)
      intros d q H. apply pa_merge_Par in H. destruct H as [_ [[H Nq] | [H E]]].
      + apply (ms_sn_nonempty q Nq). exact (ok_par_live st Hok d q H).
      + subst q. apply (ms_sn_nonempty p Hne). exact (ok_par_live st Hok c p Hpc).
    - (* acyclic *)
      exact Hacyc'.
    - (* nodup sn *)
      intros d. rewrite sn_merge by exact Hp.
      destruct (d =? c); [constructor|].
      destruct (d =? p); [|exact (ok_nodup_sn st Hok d)].
      apply NoDup_union; [exact (ok_nodup_sn st Hok p) | exact (ok_nodup_sn st Hok c)].
    - (* nodup sp *)
      intros d. rewrite sp_merge. destruct (d =? c); [constructor | exact (ok_nodup_sp st Hok d)].
    - (* disjoint *)
      exact Hdisj'.
    - (* sn / sp *)
      intros d v Hv Hs. apply in_sp_merge in Hs. destruct Hs as [_ Hs].
      destruct (ms_sn_origin d v Hv) as (_ & d0 & Hv0 & [O | [O O']]).
      + subst d0. exact (ok_sn_sp st Hok d v Hv0 Hs).
      + subst d d0. apply (ok_sn_disj_par st Hok c p v Hpc Hv0). right. exact Hs.
    - (* dead sp *)
      intros d H. rewrite sp_merge. destruct (Nat.eqb_spec d c) as [E | N]; [reflexivity|].
      apply (ok_dead_sp st Hok).
      destruct (sn st d) as [|x t] eqn:E; [reflexivity|]. exfalso.
      apply (ms_sn_nonempty d N); [rewrite E; discriminate | exact H].
    - (* sep sub *)
      intros d q v H Hv. apply in_sp_merge in Hv. destruct Hv as [_ Hv].
      apply pa_merge_Par in H. destruct H as [_ [[H Nq] | [H E]]].
      + destruct (ok_sep_sub st Hok d q v H Hv) as [Hin | Hin].
        * left. exact (ms_sn_mono q v Nq Hin).
        * right. apply in_sp_merge. split; [exact Nq | exact Hin].
      + subst q. destruct (ok_sep_sub st Hok d c v H Hv) as [Hin | Hin].
        * left. apply (in_sn_merge st p c p v Hp).
          split; [exact Hne | right; split; [reflexivity | exact Hin]].
        * destruct (ok_sep_sub st Hok c p v Hpc Hin) as [Hin' | Hin'].
          -- left. exact (ms_sn_mono p v Hne Hin').
          -- right. apply in_sp_merge. split; [exact Hne | exact Hin'].
    - (* sn disjoint from parent clique *)
      intros d q v H Hv [Hq | Hq].
      + destruct Hacyc' as [h Hh]. pose proof (Hh d q H) as Hlt.
        pose proof (Hdisj' d q v Hv Hq) as E. subst q. lia.
      + apply in_sp_merge in Hq. destruct Hq as [_ Hq].
        pose proof (ms_par_anc d q H) as Hanc.
        destruct (ms_sn_origin d v Hv) as (_ & d0 & Hv0 & [O | [O O']]).
        * subst d0. exact (snode_disj_anc_sep st q d v Hok Hanc Hv0 Hq).
        * subst d d0.
          assert (Hanc' : Anc (parent st) q c).
          { exact (Anc_step (parent st) c p q Hpc Hanc). }
          exact (snode_disj_anc_sep st q c v Hok Hanc' Hv0 Hq).
  Qed.

  (** [determine_parent] keeps the candidate order (parent, child). *)
  Lemma determine_parent_pc : determine_parent st p c = (p, c).
  Proof.
    unfold determine_parent.
    assert (Hm : mem c (pc_children st p) = true).
    { apply mem_In. unfold pc_children, PostOrder.children. apply filter_In. split.
      - apply in_seq. split; [lia|]. cbn [plus]. apply pa_lt. rewrite Hpc. discriminate.
      - unfold PostOrder.is_child. fold (pa st c). rewrite Hpc. apply Nat.eqb_refl. }
    rewrite Hm. reflexivity.
  Qed.

End MergeStep.

(** ** [ncl] counts the live cliques *)

Lemma filter_flip_count : forall (f g : nat -> bool) (l : list nat) (c : nat),
  NoDup l -> In c l -> f c = true -> g c = false ->
  (forall d, d <> c -> g d = f d) ->
  S (length (filter g l)) = length (filter f l).
Proof.
  intros f g l c Hnd. induction Hnd as [|a t Hna Hnd IH]; intros Hin Hf Hg Hext.
  - destruct Hin.
  - cbn [filter]. destruct (Nat.eq_dec a c) as [E | N].
    + subst a. rewrite Hf, Hg. cbn [length]. f_equal. f_equal.
      apply filter_ext_in. intros d Hd. apply Hext. intros E. subst d. exact (Hna Hd).
    + rewrite (Hext a N). destruct Hin as [E | Hin]; [contradiction|].
      destruct (f a); cbn [length]; rewrite <- (IH Hin Hf Hg Hext); reflexivity.
Qed.

Lemma is_live_iff : forall st d, is_live st d = true <-> sn st d <> [].
Proof.
  intros st d. unfold is_live. destruct (sn st d); split; intros H; try discriminate;
    try reflexivity. contradiction.
Qed.

Theorem pc_merge_nclok : forall st p c, TreeOK st -> pa st c = Par p ->
  NclOK st -> NclOK (pc_merge st p c) /\ S (ncl (pc_merge st p c)) = ncl st.
Proof.
  intros st p c Hok Hpc Hn.
  pose proof (ms_p_lt st p c Hok Hpc) as Hp.
  pose proof (ms_c_live st p c Hok Hpc) as Hc.
  assert (Hcount : S (length (filter (is_live (pc_merge st p c)) (seq 0 (length (snode st)))))
                   = length (filter (is_live st) (seq 0 (length (snode st))))).
  { apply (filter_flip_count (is_live st) (is_live (pc_merge st p c)) _ c).
    - apply seq_NoDup.
    - apply in_seq. pose proof (sn_lt st c Hc). lia.
    - apply is_live_iff. exact Hc.
    - destruct (is_live (pc_merge st p c) c) eqn:E; [|reflexivity].
      apply is_live_iff in E. exfalso. apply E.
      rewrite sn_merge by exact Hp. rewrite Nat.eqb_refl. reflexivity.
    - intros d N. destruct (is_live st d) eqn:E.
      + apply is_live_iff. apply is_live_iff in E. exact (ms_sn_nonempty st p c Hok Hpc d N E).
      + destruct (is_live (pc_merge st p c) d) eqn:E'; [|reflexivity].
        apply is_live_iff in E'. exfalso. apply E'.
        assert (Hd : sn st d = []).
        { destruct (sn st d) eqn:E2; [reflexivity|]. unfold is_live in E. rewrite E2 in E.
          discriminate. }
        rewrite sn_merge by exact Hp.
        destruct (Nat.eqb_spec d c) as [_ | _]; [reflexivity|].
        destruct (Nat.eqb_spec d p) as [E3 | _]; [|exact Hd].
        subst d. exfalso. exact (ok_par_live st Hok c p Hpc Hd). }
  unfold NclOK in *. cbn [ncl snode pc_merge]. rewrite !set_nth_length.
  rewrite Hn. rewrite <- Hcount. split; [lia | lia].
Qed.

(** ** The loop *)

(** [st'] covers [st]: every clique of [st] is contained in a clique of [st']. *)
Definition Covers (st st' : pcstate) : Prop :=
  forall d, exists d', forall v, In v (clique st d) -> In v (clique st' d').

Definition SameVertices (st st' : pcstate) : Prop :=
  forall v, In v (concat (snode st)) <-> In v (concat (snode st')).

Lemma Covers_refl : forall st, Covers st st.
Proof. intros st d. exists d. intros v H. exact H. Qed.

Lemma Covers_trans : forall s1 s2 s3, Covers s1 s2 -> Covers s2 s3 -> Covers s1 s3.
Proof.
  intros s1 s2 s3 H12 H23 d. destruct (H12 d) as [d2 H2]. destruct (H23 d2) as [d3 H3].
  exists d3. intros v Hv. exact (H3 v (H2 v Hv)).
Qed.

Section Loop.
  (** A property preserved by every merge of a child into its parent on a valid tree... *)
  Variable P : pcstate -> Prop.
  Hypothesis P_merge : forall st p c, TreeOK st -> P st -> pa st c = Par p -> P (pc_merge st p c).

  Lemma pc_step_inv : forall st c d st', TreeOK st -> P st ->
    pc_step st c = Some (d, st') -> TreeOK st' /\ P st'.
  Proof.
    intros st c d st' Hok HP Hs. unfold pc_step in Hs.
    destruct (pa st c) as [| |p] eqn:Hpc; try discriminate.
    injection Hs as _ Hs. subst st'.
    destruct (pc_evaluate st p c); [|split; assumption].
    rewrite (determine_parent_pc st p c Hpc).
    split; [exact (pc_merge_treeok st p c Hok Hpc) | exact (P_merge st p c Hok HP Hpc)].
  Qed.

  (** ... holds for the final state of the loop. *)
  Lemma pc_loop_inv : forall post idx st, TreeOK st -> P st ->
    TreeOK (snd (pc_loop post idx st)) /\ P (snd (pc_loop post idx st)).
  Proof.
    intros post idx. induction idx as [|i IH]; intros st Hok HP; cbn [pc_loop].
    - destruct (pc_step st (nth 0 post 0)) as [[d st']|] eqn:E; [|split; assumption].
      pose proof (pc_step_inv st _ d st' Hok HP E) as H.
      destruct (ncl st' =? 1); exact H.
    - destruct (pc_step st (nth (S i) post 0)) as [[d st']|] eqn:E; [|split; assumption].
      pose proof (pc_step_inv st _ d st' Hok HP E) as [Hok' HP'].
      destruct (ncl st' =? 1); [split; assumption|].
      specialize (IH st' Hok' HP').
      destruct (pc_loop post i st') as [ds stf]. exact IH.
  Qed.
End Loop.

Theorem pc_loop_treeok : forall post idx st, TreeOK st -> TreeOK (snd (pc_loop post idx st)).
Proof.
  intros post idx st Hok.
  exact (proj1 (pc_loop_inv (fun _ => True) (fun _ _ _ _ _ _ => I) post idx st Hok I)).
Qed.

Theorem pc_loop_cover : forall post idx st, TreeOK st ->
  Covers st (snd (pc_loop post idx st)) /\ SameVertices st (snd (pc_loop post idx st)).
Proof.
  intros post idx st Hok.
  apply (pc_loop_inv (fun s => Covers st s /\ SameVertices st s)).
  - intros s p c Hs [Hcov Hsame] Hpc. split.
    + apply (Covers_trans st s); [exact Hcov|]. intros d. exact (pc_merge_cover s p c Hs Hpc d).
    + intros v. rewrite (Hsame v). exact (pc_merge_vertices s p c Hs Hpc v).
  - exact Hok.
  - split; [apply Covers_refl | intros v; reflexivity].
Qed.

Theorem pc_loop_nclok : forall post idx st, TreeOK st -> NclOK st ->
  NclOK (snd (pc_loop post idx st)).
Proof.
  intros post idx st Hok Hn.
  apply (pc_loop_inv NclOK); [|exact Hok | exact Hn].
  intros s p c Hs Hns Hpc. exact (proj1 (pc_merge_nclok s p c Hs Hpc Hns)).
Qed.

(** The statements for [pc_run].  (No hypothesis on [post] is needed for these: a candidate
    whose parent entry is [Par p] is always a live child of a live parent in a valid tree.) *)
Theorem pc_run_treeok : forall snode0 sep0 parent0 post,
  TreeOK (pc_init snode0 sep0 parent0) ->
  TreeOK (snd (pc_run snode0 sep0 parent0 post)).
Proof. intros snode0 sep0 parent0 post Hok. apply pc_loop_treeok. exact Hok. Qed.

Theorem pc_run_cover : forall snode0 sep0 parent0 post,
  TreeOK (pc_init snode0 sep0 parent0) ->
  Covers (pc_init snode0 sep0 parent0) (snd (pc_run snode0 sep0 parent0 post)) /\
  SameVertices (pc_init snode0 sep0 parent0) (snd (pc_run snode0 sep0 parent0 post)).
Proof. intros snode0 sep0 parent0 post Hok. apply pc_loop_cover. exact Hok. Qed.

Theorem pc_run_nclok : forall snode0 sep0 parent0 post,
  TreeOK (pc_init snode0 sep0 parent0) -> NclOK (pc_init snode0 sep0 parent0) ->
  NclOK (snd (pc_run snode0 sep0 parent0 post)).
Proof. intros snode0 sep0 parent0 post Hok Hn. apply pc_loop_nclok; [exact Hok | exact Hn]. Qed.

(** ** The traversal never hits the "no parent" caveat on a valid post-order *)

(** [post] lists exactly the live cliques, once, children before parents. *)
Definition PostValid (st : pcstate) (post : list nat) : Prop :=
  NoDup post /\
  (forall c, In c post <-> sn st c <> []) /\
  (forall c p, pa st c = Par p -> exists l1 l2 l3, post = l1 ++ c :: l2 ++ p :: l3).

Lemma postvalid_nonroot : forall st post, TreeOK st -> PostValid st post ->
  forall j, j + 2 <= length post -> exists q, pa st (nth j post 0) = Par q.
Proof.
  intros st post Hok (Hnd & Hlive & Hord) j Hj.
  set (n := length post) in *.
  (* the last element is the root *)
  assert (Hlast : pa st (nth (n - 1) post 0) = Root).
  { set (x := nth (n - 1) post 0).
    assert (Hx : In x post) by (apply nth_In; lia).
    destruct (pa st x) as [| |q] eqn:E; [reflexivity | |].
    - exfalso. apply (ok_dead st Hok) in E. apply Hlive in Hx. contradiction.
    - exfalso. destruct (Hord x q E) as (l1 & l2 & l3 & Ep).
      assert (Hl1 : nth (length l1) post 0 = x).
      { rewrite Ep. rewrite app_nth2 by lia. rewrite Nat.sub_diag. reflexivity. }
      assert (Hlen : length l1 + 2 <= n).
      { unfold n. rewrite Ep. rewrite !app_length. cbn [length]. rewrite app_length.
        cbn [length]. lia. }
      assert (Eidx : length l1 = n - 1).
      { apply (proj1 (NoDup_nth post 0) Hnd); [lia | lia |]. rewrite Hl1. reflexivity. }
      lia. }
  set (c := nth j post 0).
  assert (Hc : In c post) by (apply nth_In; lia).
  destruct (pa st c) as [| |q] eqn:E.
  - exfalso. destruct (ok_root st Hok) as (r & _ & _ & Huniq).
    pose proof (Huniq c E) as E1. pose proof (Huniq _ Hlast) as E2.
    assert (Eidx : j = n - 1).
    { apply (proj1 (NoDup_nth post 0) Hnd); [lia | lia |]. fold c. rewrite E1, E2. reflexivity. }
    lia.
  - exfalso. apply (ok_dead st Hok) in E. apply Hlive in Hc. contradiction.
  - exists q. reflexivity.
Qed.

Lemma pc_loop_no_abort : forall post idx st, TreeOK st -> NoDup post -> idx < length post ->
  (forall j, j <= idx -> exists q, pa st (nth j post 0) = Par q) ->
  length (fst (pc_loop post idx st)) = S idx \/ ncl (snd (pc_loop post idx st)) = 1.
Proof.
  intros post idx. induction idx as [|i IH]; intros st Hok Hnd Hidx Hpar; cbn [pc_loop].
  - destruct (Hpar 0 (le_n 0)) as [q Hq]. unfold pc_step. rewrite Hq.
    match goal with |- context [ncl ?s =? 1] => destruct (Nat.eqb_spec (ncl s) 1) as [E | N] end.
    + right. exact E.
    + left. reflexivity.
  - destruct (Hpar (S i) (le_n (S i))) as [q Hq].
    destruct (pc_step st (nth (S i) post 0)) as [[d st']|] eqn:Es;
      [|unfold pc_step in Es; rewrite Hq in Es; discriminate].
    pose proof (pc_step_inv (fun _ => True) (fun _ _ _ _ _ _ => I) st _ d st' Hok I Es)
      as [Hok' _].
    destruct (Nat.eqb_spec (ncl st') 1) as [E | N]; [right; exact E|].
    assert (Hpar' : forall j, j <= i -> exists q', pa st' (nth j post 0) = Par q').
    { intros j Hj. destruct (Hpar j (Nat.le_trans _ _ _ Hj (Nat.le_succ_diag_r i))) as [x Hx].
      unfold pc_step in Es. rewrite Hq in Es. injection Es as _ Es. subst st'.
      destruct (pc_evaluate st q (nth (S i) post 0)); [|exists x; exact Hx].
      rewrite (determine_parent_pc st q _ Hq). rewrite pa_merge.
      destruct (Nat.eqb_spec (nth j post 0) (nth (S i) post 0)) as [E | _].
      - exfalso. apply (proj1 (NoDup_nth post 0) Hnd) in E; lia.
      - rewrite Hx. cbn [redirect]. destruct (x =? nth (S i) post 0); eexists; reflexivity. }
    assert (Hi : i < length post) by lia.
    specialize (IH st' Hok' Hnd Hi Hpar').
    destruct (pc_loop post i st') as [ds stf]. cbn [fst snd length] in *.
    destruct IH as [IH | IH]; [left; rewrite IH; reflexivity | right; exact IH].
Qed.

(** On a valid tree with a valid post-order of at least two cliques, the loop takes all
    [length post - 1] decisions unless it stops early because a single clique is left. *)
Theorem pc_run_no_abort : forall snode0 sep0 parent0 post,
  TreeOK (pc_init snode0 sep0 parent0) -> PostValid (pc_init snode0 sep0 parent0) post ->
  2 <= length post ->
  length (fst (pc_run snode0 sep0 parent0 post)) = length post - 1 \/
  ncl (snd (pc_run snode0 sep0 parent0 post)) = 1.
Proof.
  intros snode0 sep0 parent0 post Hok Hpv Hlen. unfold pc_run.
  destruct (pc_loop_no_abort post (length post - 2) (pc_init snode0 sep0 parent0) Hok
              (proj1 Hpv)) as [H | H].
  - lia.
  - intros j Hj. apply (postvalid_nonroot _ post Hok Hpv). lia.
  - left. rewrite H. lia.
  - right. exact H.
Qed.

(** ** Non-vacuity: a concrete valid tree (3-clique chain 0 -> 1 -> 2) *)
Example treeok_chain3 :
  let st := pc_init [[0]; [1]; [2; 3]] [[1; 2]; [2]; []] [Par 1; Par 2; Root] in
  TreeOK st /\ NclOK st /\ PostValid st [0; 1; 2].
Proof.
  cbv zeta. split; [|split].
  - constructor.
    + reflexivity.
    + reflexivity.
    + intros c. destruct c as [|[|[|[|c]]]]; cbn; split; intros H; try discriminate; reflexivity.
    + exists 2. split; [reflexivity|]. split; [reflexivity|].
      intros c H. destruct c as [|[|[|[|c]]]]; cbn in H; try discriminate; try reflexivity.
    + intros c p H. destruct c as [|[|[|[|c]]]]; cbn in H; try discriminate.
      * injection H as H. subst p. discriminate.
      * injection H as H. subst p. discriminate.
    + exists (fun x => x). intros c p H. destruct c as [|[|[|[|c]]]]; cbn in H; try discriminate.
      * injection H as H. lia.
      * injection H as H. lia.
    + intros c. destruct c as [|[|[|[|c]]]]; cbn; repeat constructor; cbn; intuition discriminate.
    + intros c. destruct c as [|[|[|[|c]]]]; cbn; repeat constructor; cbn; intuition discriminate.
    + intros c1 c2 v H1 H2.
      destruct c1 as [|[|[|[|c1]]]]; cbn in H1; try contradiction;
      destruct c2 as [|[|[|[|c2]]]]; cbn in H2; try contradiction; try reflexivity;
      exfalso; lia.
    + intros c v H1 H2.
      destruct c as [|[|[|[|c]]]]; cbn in H1, H2; try contradiction; lia.
    + intros c H. destruct c as [|[|[|[|c]]]]; cbn in H; try discriminate; reflexivity.
    + intros c q v H Hv. destruct c as [|[|[|[|c]]]]; cbn in H; try discriminate.
      * injection H as H. subst q. cbn in *. lia.
      * injection H as H. subst q. cbn in *. lia.
    + intros c q v H Hv. destruct c as [|[|[|[|c]]]]; cbn in H; try discriminate.
      * injection H as H. subst q. cbn in *. lia.
      * injection H as H. subst q. cbn in *. lia.
  - reflexivity.
  - split; [|split].
    + repeat constructor; cbn; intuition discriminate.
    + intros c. destruct c as [|[|[|[|c]]]]; cbn; split; intros H; try discriminate;
        try contradiction; try lia; intuition discriminate.
    + intros c p H. destruct c as [|[|[|[|c]]]]; cbn in H; try discriminate.
      * injection H as H. subst p. exists [], [], [2]. reflexivity.
      * injection H as H. subst p. exists [0], [], []. reflexivity.
Qed.

Print Assumptions treeok_rip.
Print Assumptions pc_merge_cover.
Print Assumptions pc_merge_vertices.
Print Assumptions pc_merge_treeok.
Print Assumptions pc_merge_ncl.
Print Assumptions pc_merge_nclok.
Print Assumptions pc_run_treeok.
Print Assumptions pc_run_cover.
Print Assumptions pc_run_nclok.
Print Assumptions pc_run_no_abort.
