(** C18 — correspondence checkers: the implementation's augmented data / reversed vectors
    against the model of Chordal/Decomp.v, on integer data (exact).  0 = agree. *)
From Coq Require Import List Arith ZArith NArith Lia Bool.
Import ListNotations.
Require Import Clarabel.Chordal.TreeSpec Clarabel.Chordal.E2E Clarabel.Chordal.Decomp.

Fixpoint leqb {A} (f : A -> A -> bool) (a b : list A) : bool :=
  match a, b with
  | [], [] => true
  | x :: a', y :: b' => f x y && leqb f a' b'
  | _, _ => false
  end.
Definition ent_eqb (a b : N * Z) : bool := N.eqb (fst a) (fst b) && Z.eqb (snd a) (snd b).
Definition cols_eqb (a b : list (list (N * Z))) : bool := leqb (leqb ent_eqb) a b.
Definition zl_eqb (a b : list Z) : bool := leqb Z.eqb a b.
Definition nl_eqb (a b : list N) : bool := leqb N.eqb a b.
Definition cone_eqb (a b : cone) : bool :=
  match a, b with
  | CZero x, CZero y => N.eqb x y
  | CNN x, CNN y => N.eqb x y
  | CSOC x, CSOC y => N.eqb x y
  | CPSD x, CPSD y => N.eqb x y
  | _, _ => false
  end.
Definition cones_eqb (a b : list cone) : bool := leqb cone_eqb a b.
Definition first_fail (l : list (bool * N)) : N :=
  fold_right (fun (bc : bool * N) (acc : N) => if fst bc then acc else snd bc) 0%N l.

(** codes: 31 H, 32 A, 33 b, 34 cones, 35 reversed s, 36 reversed z, 37 lengths, 38 cone maps,
    40 layout violates the hypotheses of the telescoping theorem (tie joins rows of different entries) *)
Definition c18_std (cones : list cone) (trees : list (N * tree)) (Acols : list scol) (b : list Z)
           (HI' : list N) (A' : list scol) (b' : list Z) (cones' : list cone)
           (s1 z1 srev zrev : list Z) : N :=
  let m := total_rows cones in
  let HI := std_HI cones trees 0 0 in
  first_fail [
    (nl_eqb HI' HI, 31%N);
    (cols_eqb A' (std_A m Acols HI), 32%N);
    (zl_eqb b' (std_b b HI), 33%N);
    (cones_eqb cones' (std_cones cones trees), 34%N);
    ((length srev =? N.to_nat m)%nat && (length zrev =? N.to_nat m)%nat, 37%N);
    (zl_eqb srev (std_rev_s m HI s1), 35%N);
    (zl_eqb zrev (std_rev_z m HI z1), 36%N) ].

Definition expected_maps (cones : list cone) (trees : list (N * tree)) : list (N * option (N * N)) :=
  flat_map (fun ic =>
    let idx := N.of_nat (fst ic) in
    match find (fun kt => N.eqb (fst (snd kt)) idx) (combine (seq 0 (length trees)) trees) with
    | Some (k, (_, t)) => map (fun i => (idx, Some (N.of_nat k, N.of_nat i))) (desc_positions t)
    | None => [(idx, None)]
    end) (combine (seq 0 (length cones)) cones).
Definition map_eqb (a b : N * option (N * N)) : bool :=
  N.eqb (fst a) (fst b) &&
  match snd a, snd b with
  | None, None => true
  | Some x, Some y => N.eqb (fst x) (fst y) && N.eqb (snd x) (snd y)
  | _, _ => false
  end.

(** ** hypotheses of [Equiv.cmp_primal_equiv] checked on the layout: original row of every new
    row of a decomposed cone (overlap entries included), and "every overlap tie joins two new
    rows of the same original entry" *)
Definition cone_origs (t : tree) (row0 rowptr : N) : list (N * N) :=
  let lay := layout t (desc_positions t) rowptr in
  let nv := N.of_nat (length (ordering t)) in
  flat_map (fun i =>
    let c := nth i (post t) 0%N in
    let st := start_of lay c in
    let bi := block_indices (osn t c) (osp t c) nv in
    map (fun ke : nat * (N * N * bool) => let '(k, (i0, j0, _)) := ke in
           ((st + N.of_nat k)%N, (row0 + TriIndex.coord_to_idx (i0, j0))%N))
        (combine (seq 0 (length bi)) bi)) (desc_positions t).
Fixpoint cmp_origs (cones : list cone) (trees : list (N * tree)) (idx row0 rowptr : N) : list (N * N) :=
  match cones with
  | [] => []
  | c :: r =>
      let '(here, used) :=
        match find_tree trees idx with
        | Some t => (cone_origs t row0 rowptr, tree_rows t)
        | None => (map (fun i => ((rowptr + N.of_nat i)%N, (row0 + N.of_nat i)%N)) (seq 0 (N.to_nat (cone_rows c))), cone_rows c)
        end in
      here ++ cmp_origs r trees (idx + 1) (row0 + cone_rows c) (rowptr + used)
  end.
Definition orig_of (og : list (N * N)) (i : N) : option N :=
  match find (fun e => N.eqb (fst e) i) og with Some e => Some (snd e) | None => None end.
Definition opt_eqb (a b : option N) : bool :=
  match a, b with Some x, Some y => N.eqb x y | _, _ => false end.
(** every new row has exactly one original row; ties join rows of the same original row; the
    row map sends an original row to a new row that belongs to it *)
Definition cmp_struct_ok (cones : list cone) (trees : list (N * tree)) : bool :=
  let og := cmp_origs cones trees 0 0 0 in
  let lo := cmp_layout cones trees 0 0 0 in
  nl_eqb (map fst og) (nseq 0 (cmp_total_rows cones trees))
  && forallb (fun tie => opt_eqb (orig_of og (fst tie)) (orig_of og (snd tie)) && negb (N.eqb (fst tie) (snd tie))) (snd lo)
  && forallb (fun rm => opt_eqb (orig_of og (snd rm)) (Some (fst rm))) (fst lo).

Definition c18_cmp (cones : list cone) (trees : list (N * tree)) (Acols : list scol) (b : list Z)
           (maps' : list (N * option (N * N))) (A' : list scol) (b' : list Z) (cones' : list cone)
           (s1 z1 srev zrev : list Z) : N :=
  let m := total_rows cones in
  let lo := cmp_layout cones trees 0 0 0 in
  let rm := fst lo in
  let mnew := cmp_total_rows cones trees in
  let mc := map (map_col rm) Acols in
  let zeros := repeat 0%Z (N.to_nat m) in
  let rv := cmp_reverse cones trees 0 0 0 s1 z1 (zeros, zeros) in
  first_fail [
    (cmp_struct_ok cones trees, 40%N);
    (leqb map_eqb maps' (expected_maps cones trees), 38%N);
    (forallb (fun o => match o with Some _ => true | None => false end) mc
     && cols_eqb A' (flat_map (fun o => match o with Some c => [c] | None => [] end) mc ++ map ov_col (snd lo)), 32%N);
    (zl_eqb b' (cmp_b rm b mnew), 33%N);
    (cones_eqb cones' (cmp_cones cones trees), 34%N);
    ((length srev =? N.to_nat m)%nat && (length zrev =? N.to_nat m)%nat, 37%N);
    (zl_eqb srev (fst rv), 35%N);
    (zl_eqb zrev (snd rv), 36%N) ].
