(** Proofs for Chordal/TreeSpec.v: soundness of [check_tree] and consequences of [ValidTree]. *)
From Coq Require Import List Arith NArith Lia Bool Permutation.
Import ListNotations.
Require Import Clarabel.Chordal.TreeSpec.

Lemma mem_In v l : mem v l = true <-> In v l.
Proof.
  unfold mem. rewrite existsb_exists. split.
  - intros (x & Hin & He). apply N.eqb_eq in He. subst. exact Hin.
  - intros Hin. exists v. split; [exact Hin | apply N.eqb_refl].
Qed.
Lemma mem_false v l : mem v l = false <-> ~ In v l.
Proof. rewrite <- mem_In. destruct (mem v l); split; intros H; try discriminate; auto. exfalso; apply H; reflexivity. Qed.

Lemma nodupb_sound l : nodupb l = true -> NoDup l.
Proof.
  induction l as [|x r IH]; cbn [nodupb]; intros H; [constructor|].
  apply andb_true_iff in H. destruct H as [H1 H2]. constructor.
  - apply negb_true_iff in H1. apply mem_false in H1. exact H1.
  - apply IH. exact H2.
Qed.
Lemma nodupb_complete l : NoDup l -> nodupb l = true.
Proof.
  induction 1 as [|x r Hn Hnd IH]; cbn [nodupb]; [reflexivity|].
  apply andb_true_iff. split; [|exact IH]. apply negb_true_iff. apply mem_false. exact Hn.
Qed.

Lemma nlist_eqb_eq a b : nlist_eqb a b = true <-> a = b.
Proof.
  revert b. induction a as [|x a IH]; intros [|y b]; cbn [nlist_eqb]; split; intros H; try discriminate; try reflexivity.
  - apply andb_true_iff in H. destruct H as [H1 H2]. apply N.eqb_eq in H1. apply IH in H2. subst. reflexivity.
  - injection H as H1 H2. subst. apply andb_true_iff. split; [apply N.eqb_refl | apply IH; reflexivity].
Qed.

Lemma vertices_nodup n : NoDup (vertices n).
Proof.
  unfold vertices. apply FinFun.Injective_map_NoDup.
  - intros a b Hab. apply Nnat.Nat2N.inj. exact Hab.
  - apply seq_NoDup.
Qed.
Lemma vertices_length n : length (vertices n) = N.to_nat n.
Proof. unfold vertices. rewrite map_length, seq_length. reflexivity. Qed.

Lemma chk_perm_sound n l : chk_perm n l = true -> Permutation (vertices n) l.
Proof.
  unfold chk_perm. intros H. apply andb_true_iff in H. destruct H as [Hl Hin].
  apply Nat.eqb_eq in Hl. apply NoDup_Permutation_bis.
  - apply vertices_nodup.
  - rewrite vertices_length. lia.
  - intros v Hv. rewrite forallb_forall in Hin. apply mem_In. apply Hin. exact Hv.
Qed.
Lemma chk_perm_complete n l : Permutation (vertices n) l -> chk_perm n l = true.
Proof.
  intros HP. unfold chk_perm. apply andb_true_iff. split.
  - apply Nat.eqb_eq. rewrite <- (Permutation_length HP). apply vertices_length.
  - apply forallb_forall. intros v Hv. apply mem_In. eapply Permutation_in; eauto.
Qed.

(** what [chk_chain] establishes about a post-order list *)
Definition chain_ok (t : tree) (l : list N) : Prop :=
  (exists pre r, l = pre ++ [r] /\ pa t r = Root /\ sp t r = []) /\
  (forall pre c suf, l = pre ++ c :: suf -> suf <> [] ->
     exists q, pa t c = Par q /\ In q suf
       /\ (forall v, In v (sp t c) -> In v (clique t q))
       /\ (forall v, In v (sn t c) -> ~ In v (clique t q))
       /\ (forall d v, In d suf -> In v (clique t c) -> In v (clique t d) -> In v (clique t q))).

Lemma chk_chain_sound t l : chk_chain t l = true -> chain_ok t l.
Proof.
  induction l as [|c suf IH]; [discriminate|].
  destruct suf as [|c2 suf2].
  - cbn [chk_chain]. intros H. destruct (pa t c) eqn:Epa; try discriminate.
    destruct (sp t c) eqn:Esp; try discriminate. split.
    + exists [], c. repeat split; assumption.
    + intros pre c' suf' Heq Hne. exfalso.
      destruct pre as [|x pre]; cbn in Heq.
      * injection Heq as _ Hs. subst. apply Hne; reflexivity.
      * injection Heq as _ Hs. destruct pre; discriminate.
  - intros H. change (chk_chain t (c :: c2 :: suf2)) with
      (match pa t c with
       | Par q =>
          let cq := clique t q in
          mem q (c2 :: suf2)
          && forallb (fun v => mem v cq) (sp t c)
          && forallb (fun v => negb (mem v cq)) (sn t c)
          && forallb (fun v => implb (existsb (fun d => mem v (clique t d)) (c2 :: suf2)) (mem v cq)) (clique t c)
          && chk_chain t (c2 :: suf2)
       | _ => false end) in H.
    destruct (pa t c) as [| |q] eqn:Epa; try discriminate.
    cbv zeta in H.
    repeat (apply andb_true_iff in H; destruct H as [H ?Hx]).
    rename H into Hq, Hx into Hrec, Hx0 into Hrip, Hx1 into Hsn, Hx2 into Hsp.
    specialize (IH Hrec). destruct IH as [(pre0 & r & Hl & Hr & Hsr) IH2]. split.
    + exists (c :: pre0), r. split; [cbn; rewrite Hl; reflexivity | split; assumption].
    + intros pre c' suf' Heq Hne. destruct pre as [|x pre]; cbn in Heq.
      * injection Heq as Hc Hs. subst c' suf'. exists q. split; [exact Epa|].
        split; [apply mem_In; exact Hq|]. split; [|split].
        -- intros v Hv. rewrite forallb_forall in Hsp. apply mem_In. apply Hsp. exact Hv.
        -- intros v Hv. rewrite forallb_forall in Hsn. specialize (Hsn v Hv).
           apply negb_true_iff in Hsn. apply mem_false. exact Hsn.
        -- intros d v Hd Hvc Hvd. rewrite forallb_forall in Hrip. specialize (Hrip v Hvc).
           apply mem_In. destruct (mem v (clique t q)); [reflexivity|].
           exfalso. assert (Hex : existsb (fun d0 => mem v (clique t d0)) (c2 :: suf2) = true).
           { apply existsb_exists. exists d. split; [exact Hd | apply mem_In; exact Hvd]. }
           rewrite Hex in Hrip. discriminate.
      * injection Heq as _ Hs. destruct (IH2 pre c' suf' Hs Hne) as (q' & A & B & C & D & E).
        exists q'. repeat split; assumption.
Qed.

Lemma chk_cover_sound p t : chk_cover p t = true ->
  forall i j, In (i, j) (pedges p) -> exists c, In c (post t) /\ In i (oclique t c) /\ In j (oclique t c).
Proof.
  unfold chk_cover. intros H i j Hin. rewrite forallb_forall in H. specialize (H (i, j) Hin).
  apply existsb_exists in H. destruct H as (oc & Hoc & Hm). apply in_map_iff in Hoc.
  destruct Hoc as (c & Hc & Hcin). subst oc. apply andb_true_iff in Hm. destruct Hm as [H1 H2].
  exists c. split; [exact Hcin|]. split; apply mem_In; assumption.
Qed.

Theorem check_tree_sound : stmt_check_tree_sound.
Proof.
  intros p t H. unfold check_tree in H.
  do 8 (apply andb_true_iff in H; destruct H as [H ?Hx]).
  rename H into Hperm, Hx into Hnblk, Hx0 into Hchain, Hx1 into Hcov, Hx2 into Hcnd,
         Hx3 into Hpart, Hx4 into Hpnd, Hx5 into Hidx, Hx6 into Hncl.
  apply chk_chain_sound in Hchain. destruct Hchain as [Hroot Hch].
  unfold chk_index in Hidx. do 2 (apply andb_true_iff in Hidx; destruct Hidx as [Hidx ?Hy]).
  constructor.
  - apply chk_perm_sound. exact Hperm.
  - apply N.eqb_eq. exact Hncl.
  - split; apply Nat.eqb_eq; assumption.
  - intros c Hc. rewrite forallb_forall in Hy. apply Nat.ltb_lt. apply Hy. exact Hc.
  - apply nodupb_sound. exact Hpnd.
  - apply nlist_eqb_eq. exact Hpart.
  - intros c Hc. rewrite forallb_forall in Hcnd. apply nodupb_sound. apply Hcnd. exact Hc.
  - apply chk_cover_sound. exact Hcov.
  - exact Hroot.
  - intros pre c suf Heq Hne. destruct (Hch pre c suf Heq Hne) as (q & A & B & _). exists q. split; assumption.
  - intros c q Hc Hpa v. apply in_split in Hc. destruct Hc as (l1 & l2 & Heq).
    assert (Hne : l2 <> []).
    { intros ->. destruct Hroot as (pre & r & Hl & Hr & _). rewrite Heq in Hl.
      apply app_inj_tail in Hl. destruct Hl as [_ Hcr]. subst r. rewrite Hr in Hpa. discriminate. }
    destruct (Hch l1 c l2 Heq Hne) as (q' & A & B & C & D & E).
    rewrite A in Hpa. injection Hpa as ->. split.
    + intros Hv. split; [unfold clique; apply in_or_app; right; exact Hv | apply C; exact Hv].
    + intros [Hvc Hvq]. unfold clique in Hvc. apply in_app_or in Hvc. destruct Hvc as [Hs|Hs]; [|exact Hs].
      exfalso. exact (D v Hs Hvq).
  - intros pre c suf q Heq Hpa d v Hd Hvc Hvd.
    assert (Hne : suf <> []) by (intros ->; destruct Hd).
    destruct (Hch pre c suf Heq Hne) as (q' & A & B & C & D & E).
    rewrite A in Hpa. injection Hpa as ->. eapply E; eauto.
  - apply nlist_eqb_eq. exact Hnblk.
Qed.

(** * consequences of ValidTree *)

Lemma last_app_single {A} (l : list A) x d : last (l ++ [x]) d = x.
Proof. apply last_last. Qed.

Theorem valid_reaches_root : stmt_valid_reaches_root.
Proof.
  intros p t V c Hc. destruct (vt_root p t V) as (pre0 & r & Hpost & Hr & _).
  rewrite Hpost, last_app_single.
  assert (G : forall n suf pre, length suf = n -> post t = pre ++ suf -> forall c, In c suf -> reach t c r).
  { induction n as [n IHn] using lt_wf_ind. intros suf pre Hlen Heq c0 Hin.
    apply in_split in Hin. destruct Hin as (l1 & l2 & Hs). subst suf.
    destruct l2 as [|d l2].
    - assert (c0 = r).
      { rewrite Hpost in Heq. rewrite app_assoc in Heq. apply app_inj_tail in Heq. destruct Heq as [_ E]. symmetry; exact E. }
      subst. constructor.
    - assert (Heq' : post t = (pre ++ l1) ++ c0 :: d :: l2) by (rewrite <- app_assoc; exact Heq).
      destruct (vt_parent p t V _ _ _ Heq') as (q & Hq & Hqin); [discriminate|].
      eapply reach_step; [exact Hq|].
      apply (IHn (length (d :: l2))) with (suf := d :: l2) (pre := (pre ++ l1) ++ [c0]).
      + rewrite <- Hlen. rewrite app_length. cbn [length]. lia.
      + reflexivity.
      + rewrite <- app_assoc. exact Heq'.
      + exact Hqin. }
  apply (G (length (post t)) (post t) []); auto.
Qed.

Lemma NoDup_app_tail {A} (l l' : list A) : NoDup (l ++ l') -> NoDup l'.
Proof. induction l as [|x l IH]; cbn [app]; intros H; [exact H|]. inversion H; auto. Qed.
Lemma split_unique {A} (L k1 m2 k2 : list A) a :
  NoDup (L ++ a :: m2) -> L ++ a :: m2 = k1 ++ a :: k2 -> k2 = m2.
Proof.
  revert k1. induction L as [|x L IH]; intros k1 Hnd Hk.
  - destruct k1 as [|y k1]; cbn in Hk.
    + injection Hk as ->. reflexivity.
    + injection Hk as -> Hr. exfalso. cbn in Hnd. inversion Hnd as [|? ? Hn _]. subst.
      apply Hn. apply in_or_app. right. left. reflexivity.
  - destruct k1 as [|y k1]; cbn in Hk.
    + injection Hk as -> Hr. exfalso. cbn in Hnd. inversion Hnd as [|? ? Hn _]. subst.
      apply Hn. apply in_or_app. right. left. reflexivity.
    + injection Hk as -> Hr. cbn in Hnd. inversion Hnd as [|? ? _ Hnd']. subst. apply (IH k1 Hnd' Hr).
Qed.

(** every clique containing v reaches, through cliques containing v, the LAST clique of the
    post-order that contains v *)
Lemma reachv_to_last p t (V : ValidTree p t) v :
  forall n suf pre, length suf = n -> post t = pre ++ suf ->
  forall c, In c suf -> In v (clique t c) ->
  exists a, In a suf /\ reachv t v c a /\ (forall l1 l2, suf = l1 ++ a :: l2 -> forall d, In d l2 -> ~ In v (clique t d)).
Proof.
  induction n as [n IHn] using lt_wf_ind. intros suf pre Hlen Heq c Hin Hv.
  apply in_split in Hin. destruct Hin as (l1 & l2 & Hs). subst suf.
  destruct (existsb (fun d => mem v (clique t d)) l2) eqn:Eex.
  - apply existsb_exists in Eex. destruct Eex as (d & Hd & Hvd). apply mem_In in Hvd.
    assert (Hne : l2 <> []) by (intros ->; destruct Hd).
    assert (Heq' : post t = (pre ++ l1) ++ c :: l2) by (rewrite <- app_assoc; exact Heq).
    destruct (vt_parent p t V _ _ _ Heq' Hne) as (q & Hq & Hqin).
    pose proof (vt_rip p t V _ _ _ _ Heq' Hq d v Hd Hv Hvd) as Hvq.
    destruct (IHn (length l2)) with (suf := l2) (pre := (pre ++ l1) ++ [c]) (c := q) as (a & Ha & Hra & Hlast); auto.
    + rewrite <- Hlen. rewrite app_length. cbn [length]. lia.
    + rewrite <- app_assoc. exact Heq'.
    + exists a. split; [apply in_or_app; right; right; exact Ha|]. split.
      * eapply reachv_step; eauto.
      * intros k1 k2 Hk d0 Hd0.
        apply in_split in Ha. destruct Ha as (m1 & m2 & Hm).
        assert (Hk' : (l1 ++ c :: m1) ++ a :: m2 = k1 ++ a :: k2).
        { rewrite <- Hk. rewrite Hm. rewrite <- app_assoc. reflexivity. }
        assert (Hnd : NoDup (l1 ++ c :: l2)).
        { pose proof (vt_post_nodup p t V) as Hn. rewrite Heq in Hn. apply NoDup_app_tail in Hn. exact Hn. }
        assert (k2 = m2).
        { rewrite Hm in Hnd. apply (split_unique (l1 ++ c :: m1) k1 m2 k2 a); [rewrite <- app_assoc; exact Hnd | exact Hk']. }
        subst k2. apply (Hlast m1 m2 Hm d0 Hd0).
  - exists c. split; [apply in_or_app; right; left; reflexivity|]. split; [constructor; exact Hv|].
    intros k1 k2 Hk d0 Hd0.
    assert (Hnd : NoDup (l1 ++ c :: l2)).
    { pose proof (vt_post_nodup p t V) as Hn. rewrite Heq in Hn. apply NoDup_app_tail in Hn. exact Hn. }
    assert (k2 = l2).
    { apply (split_unique l1 k1 l2 k2 c Hnd Hk). }
    subst k2. intros Hvd.
    assert (existsb (fun d => mem v (clique t d)) l2 = true).
    { apply existsb_exists. exists d0. split; [exact Hd0 | apply mem_In; exact Hvd]. }
    congruence.
Qed.

Theorem valid_rip_subtree : stmt_valid_rip_subtree.
Proof.
  intros p t V v c d Hc Hd Hvc Hvd.
  destruct (reachv_to_last p t V v (length (post t)) (post t) [] eq_refl eq_refl c Hc Hvc) as (a & Ha & Hra & Hla).
  destruct (reachv_to_last p t V v (length (post t)) (post t) [] eq_refl eq_refl d Hd Hvd) as (b & Hb & Hrb & Hlb).
  assert (Hva : In v (clique t a)).
  { clear - Hra. induction Hra; auto. }
  assert (Hvb : In v (clique t b)).
  { clear - Hrb. induction Hrb; auto. }
  (* a and b are both "the last clique containing v" *)
  assert (a = b).
  { apply in_split in Ha. destruct Ha as (l1 & l2 & Hs).
    specialize (Hla l1 l2 Hs).
    rewrite Hs in Hb. apply in_app_or in Hb. destruct Hb as [Hb|[Hb|Hb]].
    - apply in_split in Hb. destruct Hb as (m1 & m2 & Hm).
      exfalso. apply (Hlb m1 (m2 ++ a :: l2)) with (d := a).
      + rewrite Hs, Hm. rewrite <- app_assoc. reflexivity.
      + apply in_or_app. right. left. reflexivity.
      + exact Hva.
    - exact Hb.
    - exfalso. exact (Hla b Hb Hvb). }
  subst b. exists a. split; assumption.
Qed.

Theorem valid_mono : stmt_valid_mono.
Proof.
  intros n e e' t Hincl V. destruct V. constructor; auto.
Qed.

Theorem valid_vertex_cover : stmt_valid_vertex_cover.
Proof.
  intros p t V v Hv. rewrite <- (vt_partition p t V) in Hv.
  apply in_concat in Hv. destruct Hv as (l & Hl & Hvl). apply in_map_iff in Hl.
  destruct Hl as (c & <- & Hc). exists c. split; assumption.
Qed.
