(** C18 — the reversal maps of the chordal decomposition send a solution of the decomposed
    program to a solution of the original program.
    PART 1: standard form, on the executable model of Chordal/Decomp.v ([Hmul], [std_rev_s],
            [std_rev_z]).
    PART 2: compact form, the abstract telescoping argument (overlap ties cancel inside the
            group of new rows of one original row; the tie columns force equal duals).
    All over Z (the ring the model computes in).  No assumptions (see the end of the file). *)
From Coq Require Import List Arith ZArith NArith Lia Bool Permutation.
Import ListNotations.
Require Import Clarabel.Chordal.TreeSpec Clarabel.Chordal.TriIndex Clarabel.Chordal.E2E
               Clarabel.Chordal.Decomp.

Definition list_sum_Z (l : list Z) : Z := fold_right Z.add 0%Z l.
Definition dotZ (x y : list Z) : Z :=
  list_sum_Z (map (fun p : Z * Z => (fst p * snd p)%Z) (combine x y)).

(** * generic list facts *)
Lemma nth_map_lt {A B} (f : A -> B) (l : list A) (i : nat) (d : B) (d' : A) :
  (i < length l)%nat -> nth i (map f l) d = f (nth i l d').
Proof.
  revert i. induction l as [|a l IH]; intros i Hi; cbn [length] in Hi; [lia|].
  destruct i as [|i]; cbn [map nth]; [reflexivity|]. apply IH. lia.
Qed.

Lemma nth_firstn_lt {A} (l : list A) (n i : nat) (d : A) :
  (i < n)%nat -> nth i (firstn n l) d = nth i l d.
Proof.
  revert n i. induction l as [|a l IH]; intros n i Hi.
  - rewrite firstn_nil. reflexivity.
  - destruct n as [|n]; [lia|]. cbn [firstn]. destruct i as [|i]; cbn [nth]; [reflexivity|].
    apply IH. lia.
Qed.

Lemma nseq_len a k : length (nseq a k) = N.to_nat k.
Proof. unfold nseq. rewrite map_length, seq_length. reflexivity. Qed.

Lemma nseq0_nth m r : (r < m)%N -> nth (N.to_nat r) (nseq 0 m) 0%N = r.
Proof.
  intros Hr. unfold nseq.
  rewrite (nth_map_lt (fun i => (0 + N.of_nat i)%N) _ _ 0%N 0%nat) by (rewrite seq_length; lia).
  rewrite seq_nth by lia. lia.
Qed.

(** ** PART 1 — standard form *)

(** the accumulating fold of [Hmul], named *)
Definition Hfold (r : N) (l : list (N * Z)) (acc : Z) : Z :=
  fold_left (fun acc hv => if N.eqb (fst hv) r then (acc + snd hv)%Z else acc) l acc.
(** the sum of the entries of [v] whose column is mapped to row [r] *)
Definition Hsel (r : N) (HI : list N) (v : list Z) : Z :=
  list_sum_Z (map snd (filter (fun hv : N * Z => N.eqb (fst hv) r) (combine HI v))).

Lemma Hmul_length m HI v : length (Hmul m HI v) = N.to_nat m.
Proof. unfold Hmul. rewrite map_length. apply nseq_len. Qed.

Lemma Hmul_nth m HI v r : (r < m)%N ->
  nth (N.to_nat r) (Hmul m HI v) 0%Z = Hfold r (combine HI v) 0%Z.
Proof.
  intros Hr.
  change (Hmul m HI v) with (map (fun r0 => Hfold r0 (combine HI v) 0%Z) (nseq 0 m)).
  rewrite (nth_map_lt (fun r0 => Hfold r0 (combine HI v) 0%Z) _ _ 0%Z 0%N)
    by (rewrite nseq_len; lia).
  rewrite (nseq0_nth m r Hr). reflexivity.
Qed.

Lemma Hfold_sum r : forall l acc,
  Hfold r l acc =
  (acc + list_sum_Z (map snd (filter (fun hv : N * Z => N.eqb (fst hv) r) l)))%Z.
Proof.
  induction l as [|hv l IH]; intros acc.
  - cbn [Hfold fold_left filter map list_sum_Z fold_right]. lia.
  - unfold Hfold in *. cbn [fold_left filter]. destruct (N.eqb (fst hv) r).
    + rewrite IH. cbn [map list_sum_Z fold_right]. unfold list_sum_Z. lia.
    + apply IH.
Qed.

Theorem Hmul_spec : forall m HI v r, (r < m)%N ->
  nth (N.to_nat r) (Hmul m HI v) 0%Z =
  list_sum_Z (map snd (filter (fun hv : N * Z => N.eqb (fst hv) r) (combine HI v))).
Proof.
  intros m HI v r Hr. rewrite (Hmul_nth m HI v r Hr). rewrite Hfold_sum. lia.
Qed.

Theorem std_primal_equiv : forall m HI ax b u s0 s1,
  length HI = length u -> length s1 = length u ->
  (forall r, (r < m)%N ->
     (nth (N.to_nat r) ax 0 + nth (N.to_nat r) (Hmul m HI u) 0 + nth (N.to_nat r) s0 0
      = nth (N.to_nat r) b 0)%Z) ->
  (forall r', nth r' s0 0%Z = 0%Z) ->
  (forall k, (k < length u)%nat -> (- nth k u 0 + nth k s1 0 = 0)%Z) ->
  forall r, (r < m)%N ->
    (nth (N.to_nat r) ax 0 + nth (N.to_nat r) (std_rev_s m HI s1) 0 = nth (N.to_nat r) b 0)%Z.
Proof.
  intros m HI ax b u s0 s1 HlenHI Hlens1 Hrows Hzero Hlink r Hr.
  assert (Heq : s1 = u).
  { apply (nth_ext s1 u 0%Z 0%Z Hlens1). intros k Hk. rewrite Hlens1 in Hk.
    pose proof (Hlink k Hk) as Hk'. lia. }
  subst s1. unfold std_rev_s.
  pose proof (Hrows r Hr) as Hrow. rewrite (Hzero (N.to_nat r)) in Hrow. lia.
Qed.

(** *** the dual reversal *)
Lemma Hsel_cons r h HI x v :
  Hsel r (h :: HI) (x :: v) = ((if N.eqb h r then x else 0) + Hsel r HI v)%Z.
Proof.
  unfold Hsel. cbn [combine filter fst]. destruct (N.eqb h r).
  - cbn [map snd list_sum_Z fold_right]. reflexivity.
  - lia.
Qed.

Lemma Hsel_scale r (f : N -> Z) : forall HI z1,
  length z1 = length HI ->
  (forall k, (k < length HI)%nat -> nth k z1 0%Z = f (nth k HI 0%N)) ->
  Hsel r HI z1 = (Hsel r HI (repeat 1%Z (length HI)) * f r)%Z.
Proof.
  induction HI as [|h HI IH]; intros z1 Hlen Hval.
  - destruct z1; reflexivity.
  - destruct z1 as [|x z1]; [discriminate Hlen|]. cbn [length repeat].
    rewrite !Hsel_cons.
    assert (Hlen' : length z1 = length HI) by (cbn [length] in Hlen; lia).
    assert (Hval' : forall k, (k < length HI)%nat -> nth k z1 0%Z = f (nth k HI 0%N)).
    { intros k Hk. apply (Hval (S k)). cbn [length]. lia. }
    rewrite (IH z1 Hlen' Hval').
    assert (Hx : x = f h) by (apply (Hval 0%nat); cbn [length]; lia).
    destruct (N.eqb h r) eqn:E.
    + apply N.eqb_eq in E. subst h x. ring.
    + ring.
Qed.

Lemma Hsel_count_nonneg r : forall HI, (0 <= Hsel r HI (repeat 1%Z (length HI)))%Z.
Proof.
  induction HI as [|h HI IH].
  - unfold Hsel. cbn [length repeat combine filter map list_sum_Z fold_right]. lia.
  - cbn [length repeat]. rewrite Hsel_cons. destruct (N.eqb h r); lia.
Qed.

Lemma Hsel_count_pos r : forall HI, In r HI -> (1 <= Hsel r HI (repeat 1%Z (length HI)))%Z.
Proof.
  induction HI as [|h HI IH]; intros Hin; [destruct Hin|].
  cbn [length repeat]. rewrite Hsel_cons. pose proof (Hsel_count_nonneg r HI) as Hnn.
  destruct Hin as [Heq|Hin].
  - subst h. rewrite N.eqb_refl. lia.
  - pose proof (IH Hin) as Hp. destruct (N.eqb h r); lia.
Qed.

Lemma std_rev_z_nth m HI z1 r : (r < m)%N ->
  nth (N.to_nat r) (std_rev_z m HI z1) 0%Z =
  (if (1 <? Hsel r HI (repeat 1%Z (length HI)))%Z
   then Hsel r HI z1 / Hsel r HI (repeat 1%Z (length HI))
   else Hsel r HI z1)%Z.
Proof.
  intros Hr. unfold std_rev_z.
  rewrite (nth_map_lt (fun sc : Z * Z => if (1 <? snd sc)%Z then (fst sc / snd sc)%Z else fst sc)
             _ _ 0%Z (0%Z, 0%Z))
    by (rewrite combine_length; unfold Hcount; rewrite !Hmul_length; lia).
  rewrite combine_nth by (unfold Hcount; rewrite !Hmul_length; reflexivity).
  cbn [fst snd]. unfold Hcount. rewrite !(Hmul_spec m _ _ r Hr). reflexivity.
Qed.

Theorem std_rev_z_agrees : forall m HI z0 z1,
  length z1 = length HI ->
  (forall k, (k < length HI)%nat -> nth k z1 0%Z = nth (N.to_nat (nth k HI 0%N)) z0 0%Z) ->
  forall r, (r < m)%N -> (exists k, (k < length HI)%nat /\ nth k HI 0%N = r) ->
  nth (N.to_nat r) (std_rev_z m HI z1) 0%Z = nth (N.to_nat r) z0 0%Z.
Proof.
  intros m HI z0 z1 Hlen Hval r Hr (k & Hk & Hkr).
  rewrite (std_rev_z_nth m HI z1 r Hr).
  rewrite (Hsel_scale r (fun h => nth (N.to_nat h) z0 0%Z) HI z1 Hlen Hval).
  assert (Hin : In r HI) by (rewrite <- Hkr; apply nth_In; exact Hk).
  pose proof (Hsel_count_pos r HI Hin) as Hpos.
  destruct (1 <? Hsel r HI (repeat 1%Z (length HI)))%Z eqn:E.
  - apply Z.ltb_lt in E. cbv beta.
    rewrite (Z.mul_comm (Hsel r HI (repeat 1%Z (length HI)))).
    apply Z.div_mul. lia.
  - apply Z.ltb_ge in E.
    assert (Hone : Hsel r HI (repeat 1%Z (length HI)) = 1%Z) by lia.
    rewrite Hone. lia.
Qed.

Theorem std_rev_z_blocks : forall m HI z0 z1,
  length z1 = length HI ->
  (forall k, (k < length HI)%nat -> nth k z1 0%Z = nth (N.to_nat (nth k HI 0%N)) z0 0%Z) ->
  forall k, (k < length HI)%nat -> (nth k HI 0%N < m)%N ->
  nth k z1 0%Z = nth (N.to_nat (nth k HI 0%N)) (std_rev_z m HI z1) 0%Z.
Proof.
  intros m HI z0 z1 Hlen Hval k Hk Hm.
  rewrite (std_rev_z_agrees m HI z0 z1 Hlen Hval (nth k HI 0%N) Hm).
  - apply Hval. exact Hk.
  - exists k. split; [exact Hk|reflexivity].
Qed.

(** *** A^T z and b^T z are unchanged: A and b vanish on the rows that H does not reach *)
Lemma dotZ_cons a0 a x0 x : dotZ (a0 :: a) (x0 :: x) = (a0 * x0 + dotZ a x)%Z.
Proof. unfold dotZ. cbn [combine map fst snd list_sum_Z fold_right]. reflexivity. Qed.

Lemma dotZ_ext : forall a x y,
  length x = length a -> length y = length a ->
  (forall i, (i < length a)%nat -> (nth i a 0 * nth i x 0 = nth i a 0 * nth i y 0)%Z) ->
  dotZ a x = dotZ a y.
Proof.
  induction a as [|a0 a IH]; intros x y Hx Hy Hval.
  - reflexivity.
  - destruct x as [|x0 x]; [discriminate Hx|]. destruct y as [|y0 y]; [discriminate Hy|].
    rewrite !dotZ_cons.
    assert (H0 : (a0 * x0 = a0 * y0)%Z) by (apply (Hval 0%nat); cbn [length]; lia).
    assert (Hrest : dotZ a x = dotZ a y).
    { apply IH.
      - cbn [length] in Hx. lia.
      - cbn [length] in Hy. lia.
      - intros i Hi. apply (Hval (S i)). cbn [length]. lia. }
    lia.
Qed.

Lemma std_rev_z_length m HI z1 : length (std_rev_z m HI z1) = N.to_nat m.
Proof.
  unfold std_rev_z, Hcount. rewrite map_length, combine_length, !Hmul_length. lia.
Qed.

(** [hit r] is stated as a proposition ([exists k < length HI, HI_k = r]); it is decidable
    ([in_dec N.eq_dec]), which is what the proof uses. *)
Theorem std_dual_products_unchanged : forall m HI z0 z1 a,
  length z1 = length HI ->
  (forall k, (k < length HI)%nat -> nth k z1 0%Z = nth (N.to_nat (nth k HI 0%N)) z0 0%Z) ->
  length a = N.to_nat m ->
  (N.to_nat m <= length z0)%nat ->
  (forall r, (r < m)%N -> ~ (exists k, (k < length HI)%nat /\ nth k HI 0%N = r) ->
             nth (N.to_nat r) a 0%Z = 0%Z) ->
  dotZ a (std_rev_z m HI z1) = dotZ a (firstn (N.to_nat m) z0).
Proof.
  intros m HI z0 z1 a Hlen Hval Hla Hlz Hvanish.
  apply dotZ_ext.
  - rewrite std_rev_z_length. lia.
  - rewrite firstn_length. lia.
  - intros i Hi.
    assert (Hr : (N.of_nat i < m)%N) by lia.
    assert (Hi' : i = N.to_nat (N.of_nat i)) by lia.
    destruct (in_dec N.eq_dec (N.of_nat i) HI) as [Hin|Hnin].
    + destruct (In_nth HI (N.of_nat i) 0%N Hin) as (k & Hk & Hkr).
      rewrite Hi' at 2.
      rewrite (std_rev_z_agrees m HI z0 z1 Hlen Hval (N.of_nat i) Hr)
        by (exists k; split; assumption).
      rewrite nth_firstn_lt by lia. rewrite <- Hi'. reflexivity.
    + assert (Hz : nth i a 0%Z = 0%Z).
      { rewrite Hi'. apply (Hvanish (N.of_nat i) Hr). intros (k & Hk & Hkr).
        apply Hnin. rewrite <- Hkr. apply nth_In. exact Hk. }
      rewrite Hz. lia.
Qed.

(** *** non-vacuity: m = 6, one row (2) reached twice, one row (3) not reached *)
Example std_equiv_example :
  let m := 6%N in
  let HI := [0; 1; 2; 2; 4; 5]%N in
  let z0 := [10; 11; 12; 13; 14; 15]%Z in
  let z1 := [10; 11; 12; 12; 14; 15]%Z in
  let s1 := [1; 2; 3; 4; 5; 6]%Z in
  let a := [1; 2; 3; 0; 5; 6]%Z in
  std_rev_s m HI s1 = [1; 2; 7; 0; 5; 6]%Z /\
  Hcount m HI = [1; 1; 2; 0; 1; 1]%Z /\
  std_rev_z m HI z1 = [10; 11; 12; 0; 14; 15]%Z /\
  dotZ a (std_rev_z m HI z1) = dotZ a (firstn (N.to_nat m) z0) /\
  dotZ a (std_rev_z m HI z1) = 228%Z.
Proof. vm_compute. repeat split; reflexivity. Qed.

(** the hypotheses of the theorems are satisfiable on that instance, and the conclusions are
    the computed facts above *)
Example std_equiv_example_hyps :
  let m := 6%N in
  let HI := [0; 1; 2; 2; 4; 5]%N in
  let z0 := [10; 11; 12; 13; 14; 15]%Z in
  let z1 := [10; 11; 12; 12; 14; 15]%Z in
  length z1 = length HI /\
  (forall k, (k < length HI)%nat -> nth k z1 0%Z = nth (N.to_nat (nth k HI 0%N)) z0 0%Z) /\
  nth 2 (std_rev_z m HI z1) 0%Z = nth 2 z0 0%Z.
Proof.
  cbv zeta. split; [reflexivity|]. split.
  - intros k Hk. cbn [length] in Hk.
    do 6 (destruct k as [|k]; [vm_compute; reflexivity|]). lia.
  - vm_compute. reflexivity.
Qed.

(** ** PART 2 — compact form: the abstract telescoping argument *)

Lemma sum_map_add (f g : nat -> Z) : forall l,
  list_sum_Z (map (fun i => (f i + g i)%Z) l) = (list_sum_Z (map f l) + list_sum_Z (map g l))%Z.
Proof.
  induction l as [|a l IH]; [reflexivity|].
  cbn [map list_sum_Z fold_right]. unfold list_sum_Z in IH. rewrite IH. lia.
Qed.

Lemma sum_map_sub (f g : nat -> Z) : forall l,
  list_sum_Z (map (fun i => (f i - g i)%Z) l) = (list_sum_Z (map f l) - list_sum_Z (map g l))%Z.
Proof.
  induction l as [|a l IH]; [reflexivity|].
  cbn [map list_sum_Z fold_right]. unfold list_sum_Z in IH. rewrite IH. lia.
Qed.

Lemma sum_map_ext (f g : nat -> Z) : forall l,
  (forall i, In i l -> f i = g i) -> list_sum_Z (map f l) = list_sum_Z (map g l).
Proof.
  induction l as [|a l IH]; intros Hfg; [reflexivity|].
  cbn [map list_sum_Z fold_right]. unfold list_sum_Z in IH.
  rewrite IH by (intros i Hi; apply Hfg; right; exact Hi).
  rewrite (Hfg a) by (left; reflexivity). reflexivity.
Qed.

Lemma sum_map_zero : forall (l : list nat), list_sum_Z (map (fun _ => 0%Z) l) = 0%Z.
Proof. induction l as [|a l IH]; [reflexivity|]. cbn [map list_sum_Z fold_right]. exact IH. Qed.

Lemma sum_indicator_notin (p : nat) (v : Z) : forall l, ~ In p l ->
  list_sum_Z (map (fun i => if (p =? i)%nat then v else 0%Z) l) = 0%Z.
Proof.
  induction l as [|a l IH]; intros Hnin; [reflexivity|].
  cbn [map list_sum_Z fold_right]. unfold list_sum_Z in IH.
  rewrite IH by (intros Hin; apply Hnin; right; exact Hin).
  destruct (p =? a)%nat eqn:E; [|lia].
  apply Nat.eqb_eq in E. exfalso. apply Hnin. left. symmetry. exact E.
Qed.

Lemma sum_indicator_in (p : nat) (v : Z) : forall l, NoDup l -> In p l ->
  list_sum_Z (map (fun i => if (p =? i)%nat then v else 0%Z) l) = v.
Proof.
  induction l as [|a l IH]; intros Hnd Hin; [destruct Hin|].
  cbn [map list_sum_Z fold_right]. inversion Hnd as [|a' l' Hna Hnd']; subst a' l'.
  destruct Hin as [Heq|Hin].
  - subst a. rewrite Nat.eqb_refl.
    pose proof (sum_indicator_notin p v l Hna) as Hz. unfold list_sum_Z in Hz. rewrite Hz. lia.
  - pose proof (IH Hnd' Hin) as Hv. unfold list_sum_Z in Hv. rewrite Hv.
    destruct (p =? a)%nat eqn:E; [|lia].
    apply Nat.eqb_eq in E. subst a. exfalso. exact (Hna Hin).
Qed.

(** contribution of the tie columns to new row [i] : +y_k at the row of the +1, -y_k at the
    row of the -1 *)
Definition tie_term (i : nat) (ty : (nat * nat) * Z) : Z :=
  ((if (fst (fst ty) =? i)%nat then snd ty else 0) -
   (if (snd (fst ty) =? i)%nat then snd ty else 0))%Z.
Definition tie_contrib (ties : list (nat * nat)) (y : list Z) (i : nat) : Z :=
  list_sum_Z (map (tie_term i) (combine ties y)).

(** the new rows (< M) that belong to original row [r], and the sum of [f] over them *)
Definition group (M : nat) (orig : list nat) (r : nat) : list nat :=
  filter (fun i => (nth i orig 0%nat =? r)%nat) (seq 0 M).
Definition gsum (M : nat) (orig : list nat) (r : nat) (f : nat -> Z) : Z :=
  list_sum_Z (map f (group M orig r)).

Lemma In_group M orig r i : In i (group M orig r) <-> (i < M)%nat /\ nth i orig 0%nat = r.
Proof.
  unfold group. rewrite filter_In, in_seq, Nat.eqb_eq. split.
  - intros [H1 H2]. split; [lia|exact H2].
  - intros [H1 H2]. split; [lia|exact H2].
Qed.

Lemma group_NoDup M orig r : NoDup (group M orig r).
Proof. unfold group. apply NoDup_filter. apply seq_NoDup. Qed.

(** the y's telescope: over a duplicate-free set of rows that contains both ends of every
    tie or neither, the tie contributions sum to zero *)
Lemma tie_cancel (l : list nat) : NoDup l ->
  forall ties, (forall p q, In (p, q) ties -> (In p l <-> In q l)) ->
  forall y, list_sum_Z (map (tie_contrib ties y) l) = 0%Z.
Proof.
  intros Hnd. induction ties as [|[p q] ties IH]; intros Hclosed y.
  - unfold tie_contrib. cbn [combine map list_sum_Z fold_right]. apply sum_map_zero.
  - destruct y as [|yk y].
    + unfold tie_contrib. cbn [combine map list_sum_Z fold_right]. apply sum_map_zero.
    + rewrite (sum_map_ext (tie_contrib ((p, q) :: ties) (yk :: y))
                 (fun i => (((if (p =? i)%nat then yk else 0) - (if (q =? i)%nat then yk else 0))
                            + tie_contrib ties y i)%Z)).
      2:{ intros i _. unfold tie_contrib. cbn [combine map list_sum_Z fold_right].
          unfold tie_term at 1. cbn [fst snd]. reflexivity. }
      rewrite sum_map_add. rewrite sum_map_sub.
      rewrite (IH (fun p' q' Hin => Hclosed p' q' (or_intror Hin)) y).
      assert (Hpq : In p l <-> In q l) by (apply Hclosed; left; reflexivity).
      destruct (in_dec Nat.eq_dec p l) as [Hp|Hp].
      * rewrite (sum_indicator_in p yk l Hnd Hp).
        rewrite (sum_indicator_in q yk l Hnd (proj1 Hpq Hp)). lia.
      * rewrite (sum_indicator_notin p yk l Hp).
        rewrite (sum_indicator_notin q yk l (fun Hq => Hp (proj2 Hpq Hq))). lia.
Qed.

Theorem cmp_primal_equiv : forall M orig ties y dat s' b' ax b,
  (forall p q, In (p, q) ties ->
     (p < M)%nat /\ (q < M)%nat /\ nth p orig 0%nat = nth q orig 0%nat) ->
  (forall i, (i < M)%nat ->
     (nth i dat 0 + tie_contrib ties y i + nth i s' 0 = nth i b' 0)%Z) ->
  (forall r, gsum M orig r (fun i => nth i dat 0%Z) = nth r ax 0%Z) ->
  (forall r, gsum M orig r (fun i => nth i b' 0%Z) = nth r b 0%Z) ->
  forall r, (nth r ax 0 + gsum M orig r (fun i => nth i s' 0%Z) = nth r b 0)%Z.
Proof.
  intros M orig ties y dat s' b' ax b Hties Hrow Hax Hb r.
  rewrite <- (Hax r), <- (Hb r). unfold gsum.
  rewrite (sum_map_ext (fun i => nth i b' 0%Z)
             (fun i => ((nth i dat 0 + tie_contrib ties y i) + nth i s' 0)%Z)).
  2:{ intros i Hi. apply In_group in Hi. destruct Hi as [Hi _]. symmetry. apply Hrow. exact Hi. }
  rewrite sum_map_add.
  rewrite (sum_map_add (fun i => nth i dat 0%Z) (tie_contrib ties y)).
  rewrite (tie_cancel (group M orig r) (group_NoDup M orig r) ties).
  - lia.
  - intros p q Hin. destruct (Hties p q Hin) as (Hp & Hq & Hpq).
    rewrite !In_group. rewrite Hpq. tauto.
Qed.

(** *** dual side: the tie columns force equal duals on linked rows *)
Inductive linked (ties : list (nat * nat)) : nat -> nat -> Prop :=
| linked_refl : forall i, linked ties i i
| linked_tie : forall p q, In (p, q) ties -> linked ties p q
| linked_sym : forall i j, linked ties i j -> linked ties j i
| linked_trans : forall i j k, linked ties i j -> linked ties j k -> linked ties i k.

Lemma cmp_dual_consistent_In : forall ties z',
  (forall p q, In (p, q) ties -> (nth p z' 0 - nth q z' 0 = 0)%Z) ->
  forall i j, linked ties i j -> nth i z' 0%Z = nth j z' 0%Z.
Proof.
  intros ties z' Hfeas i j Hl. induction Hl as [i|p q Hin|i j Hl IH|i j k Hl1 IH1 Hl2 IH2].
  - reflexivity.
  - pose proof (Hfeas p q Hin) as Hpq. lia.
  - symmetry. exact IH.
  - rewrite IH1. exact IH2.
Qed.

Theorem cmp_dual_consistent : forall ties z',
  (forall k, (k < length ties)%nat ->
     (nth (fst (nth k ties (0%nat, 0%nat))) z' 0 - nth (snd (nth k ties (0%nat, 0%nat))) z' 0 = 0)%Z) ->
  forall i j, linked ties i j -> nth i z' 0%Z = nth j z' 0%Z.
Proof.
  intros ties z' Hfeas. apply cmp_dual_consistent_In. intros p q Hin.
  destruct (In_nth ties (p, q) (0%nat, 0%nat) Hin) as (k & Hk & Hkpq).
  pose proof (Hfeas k Hk) as Hk'. rewrite Hkpq in Hk'. cbn [fst snd] in Hk'. exact Hk'.
Qed.

(** z is OVERWRITTEN in the reversal: the value read back for an original row is that of the
    last new row visited *)
Definition overwrite (z' : list Z) (rows : list nat) (init : Z) : Z :=
  fold_left (fun (_ : Z) (i : nat) => nth i z' 0%Z) rows init.

Lemma overwrite_some z' : forall rows init, rows <> [] ->
  exists i, In i rows /\ overwrite z' rows init = nth i z' 0%Z.
Proof.
  induction rows as [|a rows IH]; intros init Hne; [congruence|].
  destruct rows as [|a2 rows].
  - exists a. split; [left; reflexivity|reflexivity].
  - destruct (IH (nth a z' 0%Z)) as (i & Hi & Hval); [discriminate|].
    exists i. split; [right; exact Hi|]. exact Hval.
Qed.

Theorem cmp_dual_overwrite : forall M orig ties z' r,
  (forall k, (k < length ties)%nat ->
     (nth (fst (nth k ties (0%nat, 0%nat))) z' 0 - nth (snd (nth k ties (0%nat, 0%nat))) z' 0 = 0)%Z) ->
  (forall i j, (i < M)%nat -> (j < M)%nat -> nth i orig 0%nat = r -> nth j orig 0%nat = r ->
               linked ties i j) ->
  forall rows i0 init, rows <> [] ->
  (forall i, In i rows -> (i < M)%nat /\ nth i orig 0%nat = r) ->
  (i0 < M)%nat -> nth i0 orig 0%nat = r ->
  overwrite z' rows init = nth i0 z' 0%Z.
Proof.
  intros M orig ties z' r Hfeas Hall rows i0 init Hne Hrows Hi0 Hi0r.
  destruct (overwrite_some z' rows init Hne) as (i & Hi & Hval). rewrite Hval.
  destruct (Hrows i Hi) as [HiM Hir].
  apply (cmp_dual_consistent ties z' Hfeas). apply Hall; assumption.
Qed.

(** *** link to the model's update primitive [upd] (Decomp.v): at one destination row,
    the s-reversal accumulates the sum and the z-reversal keeps the last value *)
Lemma upd_len {A} (l : list A) i f : length (upd l i f) = length l.
Proof. unfold upd. rewrite map_length, combine_length, seq_length. lia. Qed.

Lemma upd_nth_same {A} (l : list A) (i : nat) (f : A -> A) (d : A) :
  (i < length l)%nat -> nth i (upd l i f) d = f (nth i l d).
Proof.
  intros Hi. unfold upd.
  rewrite (nth_map_lt (fun kv : nat * A => if (fst kv =? i)%nat then f (snd kv) else snd kv)
             _ _ d (0%nat, d))
    by (rewrite combine_length, seq_length; lia).
  rewrite combine_nth by (rewrite seq_length; reflexivity).
  rewrite seq_nth by exact Hi. cbn [fst snd]. rewrite Nat.add_0_l, Nat.eqb_refl. reflexivity.
Qed.

Theorem upd_accumulate : forall (s' : list Z) rows a0 dst, (dst < length a0)%nat ->
  nth dst (fold_left (fun a i => upd a dst (fun v => (v + nth i s' 0)%Z)) rows a0) 0%Z
  = (nth dst a0 0 + list_sum_Z (map (fun i => nth i s' 0%Z) rows))%Z.
Proof.
  intros s'. induction rows as [|i rows IH]; intros a0 dst Hd.
  - cbn [fold_left map list_sum_Z fold_right]. lia.
  - cbn [fold_left map list_sum_Z fold_right].
    rewrite IH by (rewrite upd_len; exact Hd).
    rewrite upd_nth_same by exact Hd. unfold list_sum_Z. lia.
Qed.

Theorem upd_overwrite : forall (z' : list Z) rows a0 dst, (dst < length a0)%nat ->
  nth dst (fold_left (fun a i => upd a dst (fun _ => nth i z' 0%Z)) rows a0) 0%Z
  = overwrite z' rows (nth dst a0 0%Z).
Proof.
  intros z'. induction rows as [|i rows IH]; intros a0 dst Hd.
  - reflexivity.
  - cbn [fold_left]. rewrite IH by (rewrite upd_len; exact Hd).
    rewrite upd_nth_same by exact Hd. reflexivity.
Qed.

(** non-vacuity of PART 2: one original row 0 split over new rows 0 and 2 (tied), original
    row 1 on new row 1 *)
Example cmp_example :
  let M := 3%nat in
  let orig := [0; 1; 0]%nat in
  let ties := [(0, 2)]%nat in
  let y := [7]%Z in
  let dat := [5; 3; 0]%Z in
  let s' := [4; 1; 9]%Z in
  let b' := [16; 4; 2]%Z in
  (forall i, (i < M)%nat -> (nth i dat 0 + tie_contrib ties y i + nth i s' 0 = nth i b' 0)%Z) /\
  gsum M orig 0 (fun i => nth i s' 0%Z) = 13%Z /\
  gsum M orig 0 (fun i => nth i b' 0%Z) = 18%Z /\
  gsum M orig 0 (fun i => nth i dat 0%Z) = 5%Z /\
  linked ties 2 0.
Proof.
  cbv zeta. split; [|split; [|split; [|split]]]; try (vm_compute; reflexivity).
  - intros i Hi. do 3 (destruct i as [|i]; [vm_compute; reflexivity|]). lia.
  - apply linked_sym. apply linked_tie. left. reflexivity.
Qed.

Print Assumptions Hmul_spec.
Print Assumptions std_primal_equiv.
Print Assumptions std_rev_z_agrees.
Print Assumptions std_rev_z_blocks.
Print Assumptions std_dual_products_unchanged.
Print Assumptions std_equiv_example.
Print Assumptions cmp_primal_equiv.
Print Assumptions cmp_dual_consistent.
Print Assumptions cmp_dual_overwrite.
Print Assumptions upd_accumulate.
Print Assumptions upd_overwrite.
