(* PsdFacts.v -- the two elementary matrix facts behind chordal decomposition
   of a PSD constraint (Agler / Grone et al.).

   PART A  (decomposed feasible => original feasible, in general):
     the sum of scattered PSD clique blocks is PSD.
       qf_add, qf_scatter, scatter_psd, sum_scatter_psd
   PART B  (completion, two cliques, separator of size one, supernodes of
     arbitrary size):
       completion_forms, completion_keeps_pattern, completion_two_cliques,
       completion_3x3
*)
From Coq Require Import Reals List Lia Lra Psatz Arith Bool.
Import ListNotations.
Open Scope R_scope.

(* ------------------------------------------------------------------ *)
(* Finite sums                                                          *)
(* ------------------------------------------------------------------ *)

Fixpoint rsum (n : nat) (f : nat -> R) : R :=
  match n with
  | O => 0
  | S m => rsum m f + f m
  end.

Lemma rsum_ext : forall n f g,
  (forall i, (i < n)%nat -> f i = g i) -> rsum n f = rsum n g.
Proof.
  induction n as [|n IHn]; intros f g Hfg; simpl.
  - reflexivity.
  - rewrite (IHn f g).
    + rewrite Hfg by lia. reflexivity.
    + intros i Hi. apply Hfg. lia.
Qed.

Lemma rsum_zero : forall n, rsum n (fun _ => 0) = 0.
Proof.
  induction n as [|n IHn]; simpl.
  - reflexivity.
  - rewrite IHn. ring.
Qed.

Lemma rsum_plus : forall n f g,
  rsum n (fun i => f i + g i) = rsum n f + rsum n g.
Proof.
  induction n as [|n IHn]; intros f g; simpl.
  - ring.
  - rewrite IHn. ring.
Qed.

Lemma rsum_scal : forall n a f,
  rsum n (fun i => a * f i) = a * rsum n f.
Proof.
  induction n as [|n IHn]; intros a f; simpl.
  - ring.
  - rewrite IHn. ring.
Qed.

Lemma rsum_scal_r : forall n a f,
  rsum n (fun i => f i * a) = rsum n f * a.
Proof.
  induction n as [|n IHn]; intros a f; simpl.
  - ring.
  - rewrite IHn. ring.
Qed.

Lemma rsum_S_first : forall n f,
  rsum (S n) f = f O + rsum n (fun i => f (S i)).
Proof.
  induction n as [|n IHn]; intros f.
  - simpl. ring.
  - change (rsum (S (S n)) f) with (rsum (S n) f + f (S n)).
    rewrite IHn. simpl. ring.
Qed.

Lemma rsum_split : forall a b f,
  rsum (a + b) f = rsum a f + rsum b (fun i => f (a + i)%nat).
Proof.
  intros a b f. induction b as [|b IHb].
  - rewrite Nat.add_0_r. simpl. ring.
  - rewrite Nat.add_succ_r. simpl. rewrite IHb. ring.
Qed.

Lemma rsum_3 : forall k m f,
  rsum (k + S m) f = rsum k f + f k + rsum m (fun j => f (k + S j)%nat).
Proof.
  intros k m f. rewrite rsum_split. rewrite rsum_S_first.
  rewrite Nat.add_0_r. ring.
Qed.

Lemma rsum_nonneg : forall n f,
  (forall i, (i < n)%nat -> 0 <= f i) -> 0 <= rsum n f.
Proof.
  induction n as [|n IHn]; intros f Hf; simpl.
  - lra.
  - assert (H1 : 0 <= rsum n f) by (apply IHn; intros i Hi; apply Hf; lia).
    assert (H2 : 0 <= f n) by (apply Hf; lia).
    lra.
Qed.

(* ------------------------------------------------------------------ *)
(* Quadratic forms and PSD                                              *)
(* ------------------------------------------------------------------ *)

Definition qf (n : nat) (M : nat -> nat -> R) (x : nat -> R) : R :=
  rsum n (fun i => rsum n (fun j => x i * M i j * x j)).

Definition PSD (n : nat) (M : nat -> nat -> R) : Prop :=
  forall x, 0 <= qf n M x.

Lemma qf_ext : forall n M N x y,
  (forall i j, (i < n)%nat -> (j < n)%nat -> M i j = N i j) ->
  (forall i, (i < n)%nat -> x i = y i) ->
  qf n M x = qf n N y.
Proof.
  intros n M N x y HMN Hxy. unfold qf.
  apply rsum_ext. intros i Hi. apply rsum_ext. intros j Hj.
  rewrite HMN by assumption. rewrite (Hxy i Hi), (Hxy j Hj). reflexivity.
Qed.

Lemma PSD_ext : forall n M N,
  (forall i j, (i < n)%nat -> (j < n)%nat -> M i j = N i j) ->
  PSD n M -> PSD n N.
Proof.
  intros n M N HMN HM x.
  rewrite <- (qf_ext n M N x x HMN (fun i _ => eq_refl)). apply HM.
Qed.

Theorem qf_add : forall n M N x,
  qf n (fun i j => M i j + N i j) x = qf n M x + qf n N x.
Proof.
  intros n M N x. unfold qf.
  rewrite <- rsum_plus. apply rsum_ext. intros i Hi.
  rewrite <- rsum_plus. apply rsum_ext. intros j Hj. ring.
Qed.

Lemma qf_zero : forall n x, qf n (fun _ _ => 0) x = 0.
Proof.
  intros n x. unfold qf.
  rewrite (rsum_ext n _ (fun _ => 0)).
  - apply rsum_zero.
  - intros i Hi. rewrite (rsum_ext n _ (fun _ => 0)).
    + apply rsum_zero.
    + intros j Hj. ring.
Qed.

Lemma PSD_add : forall n M N,
  PSD n M -> PSD n N -> PSD n (fun i j => M i j + N i j).
Proof.
  intros n M N HM HN x. rewrite qf_add.
  specialize (HM x). specialize (HN x). lra.
Qed.

(* ------------------------------------------------------------------ *)
(* PART A : scatter of clique blocks                                    *)
(* ------------------------------------------------------------------ *)

Fixpoint memb (i : nat) (c : list nat) : bool :=
  match c with
  | nil => false
  | a :: c' => (a =? i)%nat || memb i c'
  end.

Fixpoint pos (i : nat) (c : list nat) : nat :=
  match c with
  | nil => O
  | a :: c' => if (a =? i)%nat then O else S (pos i c')
  end.

Definition scatter (c : list nat) (B : nat -> nat -> R) (i j : nat) : R :=
  if memb i c && memb j c then B (pos i c) (pos j c) else 0.

Fixpoint lsum (c : list nat) (g : nat -> R) : R :=
  match c with
  | nil => 0
  | a :: c' => g a + lsum c' g
  end.

Lemma memb_In : forall i c, memb i c = true <-> In i c.
Proof.
  intros i c. induction c as [|a c IHc]; simpl.
  - split; [discriminate | tauto].
  - rewrite orb_true_iff, Nat.eqb_eq, IHc. tauto.
Qed.

Lemma memb_not_In : forall i c, ~ In i c -> memb i c = false.
Proof.
  intros i c Hni. destruct (memb i c) eqn:E.
  - exfalso. apply Hni. apply memb_In. exact E.
  - reflexivity.
Qed.

Lemma memb_nth : forall c l,
  (l < length c)%nat -> memb (nth l c O) c = true.
Proof.
  intros c l Hl. apply memb_In. apply nth_In. exact Hl.
Qed.

Lemma pos_nth : forall c l,
  NoDup c -> (l < length c)%nat -> pos (nth l c O) c = l.
Proof.
  induction c as [|a c IHc]; intros l Hnd Hl; simpl in Hl.
  - lia.
  - inversion Hnd as [|a' c' Hni Hnd']; subst.
    destruct l as [|l]; simpl.
    + rewrite Nat.eqb_refl. reflexivity.
    + destruct (a =? nth l c O)%nat eqn:E.
      * apply Nat.eqb_eq in E. exfalso. apply Hni. rewrite E.
        apply nth_In. lia.
      * rewrite IHc by (assumption || lia). reflexivity.
Qed.

Lemma rsum_single : forall n a g,
  (a < n)%nat -> rsum n (fun i => if (a =? i)%nat then g i else 0) = g a.
Proof.
  induction n as [|n IHn]; intros a g Ha.
  - lia.
  - simpl. destruct (Nat.eq_dec a n) as [Heq|Hne].
    + subst a. rewrite Nat.eqb_refl.
      rewrite (rsum_ext n _ (fun _ => 0)).
      * rewrite rsum_zero. ring.
      * intros i Hi. destruct (n =? i)%nat eqn:E.
        -- apply Nat.eqb_eq in E. lia.
        -- reflexivity.
    + rewrite IHn by lia.
      destruct (a =? n)%nat eqn:E.
      * apply Nat.eqb_eq in E. lia.
      * ring.
Qed.

Lemma rsum_memb_lsum : forall n c g,
  NoDup c -> (forall i, In i c -> (i < n)%nat) ->
  rsum n (fun i => if memb i c then g i else 0) = lsum c g.
Proof.
  intros n c g. induction c as [|a c IHc]; intros Hnd Hlt; simpl.
  - apply rsum_zero.
  - inversion Hnd as [|a' c' Hni Hnd']; subst.
    rewrite (rsum_ext n _
      (fun i => (if (a =? i)%nat then g i else 0)
                + (if memb i c then g i else 0))).
    + rewrite rsum_plus. rewrite rsum_single by (apply Hlt; left; reflexivity).
      rewrite IHc.
      * reflexivity.
      * exact Hnd'.
      * intros i Hi. apply Hlt. right. exact Hi.
    + intros i Hi. destruct (a =? i)%nat eqn:E; simpl.
      * apply Nat.eqb_eq in E. subst i.
        rewrite (memb_not_In a c Hni). ring.
      * ring.
Qed.

Lemma lsum_nth : forall c g,
  lsum c g = rsum (length c) (fun k => g (nth k c O)).
Proof.
  induction c as [|a c IHc]; intros g.
  - reflexivity.
  - change (length (a :: c)) with (S (length c)).
    rewrite rsum_S_first. simpl. rewrite IHc. reflexivity.
Qed.

Lemma rsum_memb : forall n c g,
  NoDup c -> (forall i, In i c -> (i < n)%nat) ->
  rsum n (fun i => if memb i c then g i else 0)
  = rsum (length c) (fun k => g (nth k c O)).
Proof.
  intros n c g Hnd Hlt. rewrite rsum_memb_lsum by assumption. apply lsum_nth.
Qed.

Section PartA.
  Variable n : nat.

  Theorem qf_scatter : forall (c : list nat) (B : nat -> nat -> R) (x : nat -> R),
    NoDup c -> (forall i, In i c -> (i < n)%nat) ->
    qf n (scatter c B) x = qf (length c) B (fun k => x (nth k c O)).
  Proof.
    intros c B x Hnd Hlt. unfold qf.
    rewrite (rsum_ext n _
      (fun i => if memb i c
                then rsum (length c)
                       (fun l => x i * B (pos i c) l * x (nth l c O))
                else 0)).
    - rewrite rsum_memb by assumption.
      apply rsum_ext. intros k Hk. apply rsum_ext. intros l Hl.
      rewrite pos_nth by assumption. reflexivity.
    - intros i Hi. unfold scatter. destruct (memb i c) eqn:Ei; simpl.
      + rewrite (rsum_ext n _
          (fun j => if memb j c then x i * B (pos i c) (pos j c) * x j else 0)).
        * rewrite rsum_memb by assumption.
          apply rsum_ext. intros l Hl. rewrite pos_nth by assumption.
          reflexivity.
        * intros j Hj. destruct (memb j c); ring.
      + rewrite (rsum_ext n _ (fun _ => 0)).
        * apply rsum_zero.
        * intros j Hj. ring.
  Qed.

  Theorem scatter_psd : forall (c : list nat) (B : nat -> nat -> R),
    NoDup c -> (forall i, In i c -> (i < n)%nat) ->
    PSD (length c) B -> PSD n (scatter c B).
  Proof.
    intros c B Hnd Hlt HB x. rewrite qf_scatter by assumption. apply HB.
  Qed.

  (* The slack matrix reassembled from the clique blocks. *)
  Fixpoint sum_blocks (blocks : list (list nat * (nat -> nat -> R)))
           (i j : nat) : R :=
    match blocks with
    | nil => 0
    | cb :: rest => scatter (fst cb) (snd cb) i j + sum_blocks rest i j
    end.

  Theorem sum_scatter_psd :
    forall (blocks : list (list nat * (nat -> nat -> R))),
      (forall c B, In (c, B) blocks ->
         NoDup c /\ (forall i, In i c -> (i < n)%nat) /\ PSD (length c) B) ->
      PSD n (fun i j => sum_blocks blocks i j).
  Proof.
    induction blocks as [|[c B] rest IH]; intros Hall x.
    - simpl. rewrite qf_zero. lra.
    - simpl sum_blocks.
      rewrite (qf_add n (scatter c B) (fun i j => sum_blocks rest i j) x).
      destruct (Hall c B (or_introl eq_refl)) as [Hnd [Hlt HB]].
      assert (H1 : 0 <= qf n (scatter c B) x)
        by (apply scatter_psd; assumption).
      assert (H2 : 0 <= qf n (fun i j => sum_blocks rest i j) x).
      { apply IH. intros c' B' Hin. apply Hall. right. exact Hin. }
      lra.
  Qed.
End PartA.

(* ------------------------------------------------------------------ *)
(* PART B : completion, two cliques, separator of size one              *)
(* ------------------------------------------------------------------ *)

Theorem completion_forms : forall a p c q e t : R,
  0 < c ->
  (forall s, 0 <= a + 2*s*p + c*s*s) ->
  (forall s, 0 <= c*s*s + 2*s*q + e) ->
  0 <= a + e + 2*t*p + 2*t*q + c*t*t + 2*p*q/c.
Proof.
  intros a p c q e t Hc H1 H2.
  specialize (H1 (t + q / c)). specialize (H2 (- (q / c))).
  replace (a + e + 2*t*p + 2*t*q + c*t*t + 2*p*q/c)
    with ((a + 2 * (t + q / c) * p + c * (t + q / c) * (t + q / c))
          + (c * - (q / c) * - (q / c) + 2 * - (q / c) * q + e)).
  - lra.
  - field. lra.
Qed.

(* The completed matrix: entries of M inside the two cliques
   [0,k] and [k,n); the missing alpha x gamma entries (alpha = [0,k),
   gamma = (k,n)) are filled by  M i k * M k j / M k k. *)
Definition Mc (k : nat) (M : nat -> nat -> R) (i j : nat) : R :=
  if ((i <? k)%nat && (k <? j)%nat) || ((j <? k)%nat && (k <? i)%nat)
  then M i k * M k j / M k k
  else M i j.

Lemma Mc_in1 : forall k M i j,
  (i <= k)%nat -> (j <= k)%nat -> Mc k M i j = M i j.
Proof.
  intros k M i j Hi Hj. unfold Mc.
  assert (E1 : (k <? j)%nat = false) by (apply Nat.ltb_ge; lia).
  assert (E2 : (k <? i)%nat = false) by (apply Nat.ltb_ge; lia).
  rewrite E1, E2, !andb_false_r. reflexivity.
Qed.

Lemma Mc_in2 : forall k M i j,
  (k <= i)%nat -> (k <= j)%nat -> Mc k M i j = M i j.
Proof.
  intros k M i j Hi Hj. unfold Mc.
  assert (E1 : (i <? k)%nat = false) by (apply Nat.ltb_ge; lia).
  assert (E2 : (j <? k)%nat = false) by (apply Nat.ltb_ge; lia).
  rewrite E1, E2. reflexivity.
Qed.

Lemma Mc_cross1 : forall k M i j,
  (i < k)%nat -> (k < j)%nat -> Mc k M i j = M i k * M k j / M k k.
Proof.
  intros k M i j Hi Hj. unfold Mc.
  assert (E1 : (i <? k)%nat = true) by (apply Nat.ltb_lt; lia).
  assert (E2 : (k <? j)%nat = true) by (apply Nat.ltb_lt; lia).
  rewrite E1, E2. reflexivity.
Qed.

Lemma Mc_cross2 : forall k M i j,
  (k < i)%nat -> (j < k)%nat -> Mc k M i j = M i k * M k j / M k k.
Proof.
  intros k M i j Hi Hj. unfold Mc.
  assert (E1 : (j <? k)%nat = true) by (apply Nat.ltb_lt; lia).
  assert (E2 : (k <? i)%nat = true) by (apply Nat.ltb_lt; lia).
  rewrite E1, E2. rewrite orb_true_r. reflexivity.
Qed.

Theorem completion_keeps_pattern : forall k M i j,
  ((i <= k)%nat /\ (j <= k)%nat) \/ ((k <= i)%nat /\ (k <= j)%nat) ->
  Mc k M i j = M i j.
Proof.
  intros k M i j [[Hi Hj]|[Hi Hj]].
  - apply Mc_in1; assumption.
  - apply Mc_in2; assumption.
Qed.

Lemma Mc_sym : forall k M,
  (forall i j, M i j = M j i) -> forall i j, Mc k M i j = Mc k M j i.
Proof.
  intros k M Hsym i j. unfold Mc.
  rewrite (orb_comm ((i <? k)%nat && (k <? j)%nat)).
  destruct (((j <? k)%nat && (k <? i)%nat) || ((i <? k)%nat && (k <? j)%nat)).
  - rewrite (Hsym i k), (Hsym k j). unfold Rdiv. ring.
  - apply Hsym.
Qed.

Section PartB.
  Variables k m : nat.
  Variable M : nat -> nat -> R.
  Variable x : nat -> R.
  Hypothesis Msym : forall i j, M i j = M j i.
  Hypothesis Mkk : M k k <> 0.

  (* the five ingredients of completion_forms *)
  Let A := qf k M x.
  Let p := rsum k (fun i => x i * M i k).
  Let q := rsum m (fun j => M k (k + S j)%nat * x (k + S j)%nat).
  Let E := qf m (fun i j => M (k + S i)%nat (k + S j)%nat)
                (fun j => x (k + S j)%nat).
  Let c := M k k.
  Let t := x k.

  (* rows in alpha *)
  Lemma qf_Mc_rows_alpha :
    rsum k (fun i => rsum (k + S m) (fun j => x i * Mc k M i j * x j))
    = A + t * p + p * q / c.
  Proof.
    rewrite (rsum_ext k _
      (fun i => (rsum k (fun j => x i * M i j * x j) + (x i * M i k) * t)
                + (x i * M i k) * (q / c))).
    - rewrite !rsum_plus, !rsum_scal_r. fold p. unfold A, qf.
      unfold Rdiv. ring.
    - intros i Hi. rewrite rsum_3. f_equal; [f_equal|].
      + apply rsum_ext. intros j Hj. rewrite Mc_in1 by lia. reflexivity.
      + rewrite Mc_in1 by lia. reflexivity.
      + transitivity
          (rsum m (fun j => (x i * M i k / c)
                            * (M k (k + S j)%nat * x (k + S j)%nat))).
        * apply rsum_ext. intros j Hj. rewrite Mc_cross1 by lia.
          unfold c. field. exact Mkk.
        * rewrite rsum_scal. fold q. unfold c. field. exact Mkk.
  Qed.

  (* the separator row *)
  Lemma qf_Mc_row_sep :
    rsum (k + S m) (fun j => x k * Mc k M k j * x j)
    = t * p + c * t * t + t * q.
  Proof.
    rewrite rsum_3. rewrite Mc_in1 by lia.
    rewrite (rsum_ext k _ (fun j => t * (x j * M j k))).
    - rewrite rsum_scal. fold p.
      rewrite (rsum_ext m _
        (fun j => t * (M k (k + S j)%nat * x (k + S j)%nat))).
      + rewrite rsum_scal. fold q. unfold c, t. ring.
      + intros j Hj. rewrite Mc_in2 by lia. unfold t. ring.
    - intros j Hj. rewrite Mc_in1 by lia. rewrite (Msym k j). unfold t. ring.
  Qed.

  (* rows in gamma *)
  Lemma qf_Mc_rows_gamma :
    rsum m (fun i => rsum (k + S m)
                       (fun j => x (k + S i)%nat * Mc k M (k + S i)%nat j * x j))
    = p * q / c + t * q + E.
  Proof.
    rewrite (rsum_ext m _
      (fun i => ((M k (k + S i)%nat * x (k + S i)%nat) * (p / c)
                 + (M k (k + S i)%nat * x (k + S i)%nat) * t)
                + rsum m (fun j => x (k + S i)%nat
                                   * M (k + S i)%nat (k + S j)%nat
                                   * x (k + S j)%nat))).
    - rewrite !rsum_plus, !rsum_scal_r. fold q. unfold E, qf.
      unfold Rdiv. ring.
    - intros i Hi. rewrite rsum_3. f_equal; [f_equal|].
      + transitivity
          (rsum k (fun j => (M k (k + S i)%nat * x (k + S i)%nat / c)
                            * (x j * M j k))).
        * apply rsum_ext. intros j Hj. rewrite Mc_cross2 by lia.
          rewrite (Msym (k + S i)%nat k), (Msym k j).
          unfold c. field. exact Mkk.
        * rewrite rsum_scal. fold p. unfold c. field. exact Mkk.
      + rewrite Mc_in2 by lia. rewrite (Msym (k + S i)%nat k). unfold t. ring.
      + apply rsum_ext. intros j Hj. rewrite Mc_in2 by lia. reflexivity.
  Qed.

  (* the nine blocks together *)
  Lemma qf_Mc_eq :
    qf (k + S m) (Mc k M) x
    = A + E + 2*t*p + 2*t*q + c*t*t + 2*p*q/c.
  Proof.
    unfold qf. rewrite rsum_3.
    rewrite qf_Mc_rows_alpha, qf_Mc_row_sep, qf_Mc_rows_gamma.
    unfold c. field. exact Mkk.
  Qed.

  (* first clique [0,k] evaluated at (x_alpha, s) *)
  Lemma qf_clique1 : forall s,
    qf (S k) M (fun i => if (i =? k)%nat then s else x i)
    = A + 2*s*p + c*s*s.
  Proof.
    intros s. unfold qf. simpl. rewrite Nat.eqb_refl.
    rewrite (rsum_ext k _
      (fun i => rsum k (fun j => x i * M i j * x j) + (x i * M i k) * s)).
    - rewrite rsum_plus, rsum_scal_r. fold p.
      rewrite (rsum_ext k
        (fun j => s * M k j * (if (j =? k)%nat then s else x j))
        (fun j => s * (x j * M j k))).
      + rewrite rsum_scal. fold p. unfold A, qf, c. ring.
      + intros j Hj. assert (Ej : (j =? k)%nat = false)
          by (apply Nat.eqb_neq; lia).
        rewrite Ej. rewrite (Msym k j). ring.
    - intros i Hi. assert (Ei : (i =? k)%nat = false)
        by (apply Nat.eqb_neq; lia).
      rewrite Ei. f_equal.
      apply rsum_ext. intros j Hj.
      assert (Ej : (j =? k)%nat = false) by (apply Nat.eqb_neq; lia).
      rewrite Ej. reflexivity.
  Qed.

  (* second clique [k,n) evaluated at (s, x_gamma) *)
  Lemma qf_clique2 : forall s,
    qf (S m) (fun i j => M (k + i)%nat (k + j)%nat)
       (fun j => match j with O => s | S _ => x (k + j)%nat end)
    = c*s*s + 2*s*q + E.
  Proof.
    intros s. unfold qf. rewrite rsum_S_first.
    rewrite (rsum_S_first m
      (fun j => s * M (k + 0)%nat (k + j)%nat
                * match j with O => s | S _ => x (k + j)%nat end)).
    rewrite Nat.add_0_r.
    rewrite (rsum_ext m
      (fun i => s * M k (k + S i)%nat * x (k + S i)%nat)
      (fun i => s * (M k (k + S i)%nat * x (k + S i)%nat)))
      by (intros i Hi; ring).
    rewrite rsum_scal. fold q.
    rewrite (rsum_ext m _
      (fun i => (M k (k + S i)%nat * x (k + S i)%nat) * s
                + rsum m (fun j => x (k + S i)%nat
                                   * M (k + S i)%nat (k + S j)%nat
                                   * x (k + S j)%nat))).
    - rewrite rsum_plus, rsum_scal_r. fold q. unfold E, qf, c. ring.
    - intros i Hi. rewrite rsum_S_first. rewrite Nat.add_0_r.
      rewrite (Msym (k + S i)%nat k). f_equal. ring.
  Qed.
End PartB.

Theorem completion_two_cliques_split : forall k m M,
  (forall i j, M i j = M j i) ->
  0 < M k k ->
  PSD (S k) M ->
  PSD (S m) (fun i j => M (k + i)%nat (k + j)%nat) ->
  PSD (k + S m) (Mc k M).
Proof.
  intros k m M Hsym Hc H1 H2 x.
  assert (Hne : M k k <> 0) by lra.
  rewrite (qf_Mc_eq k m M x Hsym Hne).
  apply completion_forms.
  - exact Hc.
  - intros s. rewrite <- (qf_clique1 k M x Hsym s). apply H1.
  - intros s. rewrite <- (qf_clique2 k m M x Hsym s). apply H2.
Qed.

(* Index set 0..n-1 = alpha ++ [k] ++ gamma with alpha = [0,k), gamma = (k,n).
   M symmetric, M k k > 0, both clique blocks PSD  ==>  the completion is PSD. *)
Theorem completion_two_cliques : forall n k M,
  (k < n)%nat ->
  (forall i j, M i j = M j i) ->
  0 < M k k ->
  PSD (S k) M ->
  PSD (n - k) (fun i j => M (k + i)%nat (k + j)%nat) ->
  PSD n (Mc k M).
Proof.
  intros n k M Hkn Hsym Hc H1 H2.
  assert (En : n = (k + S (n - S k))%nat) by lia.
  assert (Em : (n - k)%nat = S (n - S k)) by lia.
  rewrite Em in H2. rewrite En.
  apply completion_two_cliques_split; assumption.
Qed.

(* ------------------------------------------------------------------ *)
(* The concrete 3x3 case                                                *)
(* ------------------------------------------------------------------ *)

Definition mat2 (a b c : R) (i j : nat) : R :=
  match i, j with
  | 0%nat, 0%nat => a
  | 0%nat, 1%nat => b
  | 1%nat, 0%nat => b
  | 1%nat, 1%nat => c
  | _, _ => 0
  end.

Definition mat3 (a b c d e f : R) (i j : nat) : R :=
  match i, j with
  | 0%nat, 0%nat => a
  | 0%nat, 1%nat => b
  | 1%nat, 0%nat => b
  | 1%nat, 1%nat => c
  | 1%nat, 2%nat => d
  | 2%nat, 1%nat => d
  | 2%nat, 2%nat => e
  | 0%nat, 2%nat => f
  | 2%nat, 0%nat => f
  | _, _ => 0
  end.

(* [[a,b],[b,c]] PSD, [[c,d],[d,e]] PSD, c > 0  ==>
   [[a,b,bd/c],[b,c,d],[bd/c,d,e]] PSD. *)
Theorem completion_3x3 : forall a b c d e : R,
  0 < c ->
  PSD 2 (mat2 a b c) ->
  PSD 2 (mat2 c d e) ->
  PSD 3 (mat3 a b c d e (b * d / c)).
Proof.
  intros a b c d e Hc H1 H2.
  apply (PSD_ext 3 (Mc 1 (mat3 a b c d e 0))).
  - intros i j Hi Hj.
    destruct i as [|[|[|i]]]; destruct j as [|[|[|j]]]; try lia;
      unfold Mc; simpl; try reflexivity; field; lra.
  - apply completion_two_cliques.
    + lia.
    + intros i j.
      destruct i as [|[|[|i]]]; destruct j as [|[|[|j]]]; reflexivity.
    + simpl. exact Hc.
    + apply (PSD_ext 2 (mat2 a b c)); [|exact H1].
      intros i j Hi Hj.
      destruct i as [|[|i]]; destruct j as [|[|j]]; try lia; reflexivity.
    + apply (PSD_ext 2 (mat2 c d e)); [|exact H2].
      intros i j Hi Hj.
      destruct i as [|[|i]]; destruct j as [|[|j]]; try lia; reflexivity.
Qed.

(* Explicit polynomial form of the 3x3 statement. *)
Corollary completion_3x3_poly : forall a b c d e : R,
  0 < c ->
  (forall u v, 0 <= a*u*u + 2*b*u*v + c*v*v) ->
  (forall v w, 0 <= c*v*v + 2*d*v*w + e*w*w) ->
  forall u v w,
    0 <= a*u*u + c*v*v + e*w*w + 2*b*u*v + 2*d*v*w + 2*(b*d/c)*u*w.
Proof.
  intros a b c d e Hc H1 H2 u v w.
  assert (P1 : PSD 2 (mat2 a b c)).
  { intros x. unfold qf. simpl.
    specialize (H1 (x 0%nat) (x 1%nat)). lra. }
  assert (P2 : PSD 2 (mat2 c d e)).
  { intros x. unfold qf. simpl.
    specialize (H2 (x 0%nat) (x 1%nat)). lra. }
  pose proof (completion_3x3 a b c d e Hc P1 P2
                (fun i => match i with 0%nat => u | 1%nat => v | _ => w end))
    as H3.
  unfold qf in H3. simpl in H3. lra.
Qed.

Print Assumptions qf_add.
Print Assumptions qf_scatter.
Print Assumptions scatter_psd.
Print Assumptions sum_scatter_psd.
Print Assumptions completion_forms.
Print Assumptions completion_keeps_pattern.
Print Assumptions completion_two_cliques.
Print Assumptions completion_3x3.
Print Assumptions completion_3x3_poly.
