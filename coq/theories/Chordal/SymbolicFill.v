(** C17/C18 -- the symbolic factor pattern that [find_graph] / [connect_graph]
    ([src/solver/chordal/chordal_info.rs]) hand to the supernode analysis.

    [find_graph] takes the below-diagonal pattern of QDLDL's logical LDL^T factor of the
    (already permuted) symmetric pattern.  By the standard theory of sparse Cholesky this is
    the FILLED GRAPH of the elimination game in the order 0,1,...,n-1.  [connect_graph] then
    inserts the entry (j+1, j) into every column j < n-1 without a below-diagonal entry.

    EXECUTABLE MODEL.
      [sym_fill n edges]   columns are built for v = 0,1,...,n-1 with the classical recurrence
                             col(v) = adj+(v)  U  U_{c : parent(c) = v} (col(c) \ {v})
                           where parent(c) = the smallest member of col(c); because columns are
                           strictly increasing, col(c) \ {parent(c)} is the tail of col(c).
                           Column v is produced as a filter of [seq (v+1) (n-v-1)], so it is
                           strictly increasing, duplicate-free and within (v, n) by construction;
                           self loops and entries >= n are ignored, both orientations of an edge
                           and duplicates are accepted.  Cost O(n * (|E| + n^2)).
      [connect adj]        every EMPTY column j with j + 1 < length adj becomes [j+1].
      [factor_pattern n edges := connect (sym_fill n edges)].

    STATUS (every item is proved completely and is axiom-free):
      [sym_fill_length] [sym_fill_wf] [sym_fill_contains] [sym_fill_F1]
      [sym_fill_col_spec]        the recurrence, as a characterisation of membership
      [sym_fill_minimal]         every pattern that contains the edges and satisfies F1 contains
                                 [sym_fill]: it is THE filled graph
      [connect_length] [connect_col] [connect_wf] [connect_F1] [connect_F2]
      [wf_b_complete] [filled_b_complete]   converses of [wf_b_spec], [filled_b_spec] of NoMerge
      [factor_pattern_filled] [factor_pattern_filled_b]. *)
From Coq Require Import List Arith Lia Bool Permutation Sorting.
Import ListNotations.
Require Import Clarabel.Chordal.NoMerge.

(** * The two halves of [Filled] *)

Definition F1 (adj : list (list nat)) : Prop :=
  forall v u w, In u (col adj v) -> In w (col adj v) -> u < w -> In w (col adj u).

Definition F2 (adj : list (list nat)) : Prop :=
  forall v, S v < length adj -> col adj v <> [].

Lemma Filled_F1_F2 : forall adj, Filled adj <-> F1 adj /\ F2 adj.
Proof. intros adj. unfold Filled, F1, F2. tauto. Qed.

(** * Executable model *)

(** the neighbours of v in the edge list (either orientation, with repetitions) *)
Definition nbrs (edges : list (nat * nat)) (v : nat) : list nat :=
  flat_map (fun e => (if fst e =? v then [snd e] else [])
                     ++ (if snd e =? v then [fst e] else [])) edges.

(** column c has parent v *)
Definition is_child (v : nat) (c : list nat) : bool :=
  match c with p :: _ => p =? v | [] => false end.

(** the union of col(c) \ {v} over the already built columns c with parent v *)
Definition inherited (acc : list (list nat)) (v : nat) : list nat :=
  flat_map (fun c => if is_child v c then tl c else []) acc.

(** column v, given the columns 0..v-1 *)
Definition new_col (n : nat) (edges : list (nat * nat)) (acc : list (list nat)) (v : nat)
  : list nat :=
  let raw := nbrs edges v ++ inherited acc v in
  filter (fun u => memb u raw) (seq (S v) (n - S v)).

(** columns 0..k-1 *)
Fixpoint cols_upto (n : nat) (edges : list (nat * nat)) (k : nat) : list (list nat) :=
  match k with
  | 0 => []
  | S k' => let acc := cols_upto n edges k' in acc ++ [new_col n edges acc k']
  end.

Definition sym_fill (n : nat) (edges : list (nat * nat)) : list (list nat) :=
  cols_upto n edges n.

(** [connect_graph] *)
Definition connect_one (len j : nat) (c : list nat) : list nat :=
  match c with
  | [] => if S j <? len then [S j] else []
  | _ :: _ => c
  end.

Definition connect (adj : list (list nat)) : list (list nat) :=
  map (fun j => connect_one (length adj) j (col adj j)) (seq 0 (length adj)).

Definition factor_pattern (n : nat) (edges : list (nat * nat)) : list (list nat) :=
  connect (sym_fill n edges).

(** * Generic list facts *)

Lemma seq_SS : forall len a, StronglySorted lt (seq a len).
Proof.
  induction len as [|len IH]; intros a; simpl.
  - constructor.
  - constructor; [apply IH|]. apply Forall_forall. intros x Hx. apply in_seq in Hx. lia.
Qed.

Lemma filter_SS : forall (f : nat -> bool) l, StronglySorted lt l -> StronglySorted lt (filter f l).
Proof.
  intros f l Hs. induction Hs as [|a l Hs IH Hall]; simpl.
  - constructor.
  - destruct (f a).
    + constructor; [exact IH|]. apply Forall_forall. intros x Hx. apply filter_In in Hx.
      destruct Hx as [Hx _]. rewrite Forall_forall in Hall. exact (Hall x Hx).
    + exact IH.
Qed.

Lemma SS_cons_lt : forall p r u, StronglySorted lt (p :: r) -> In u r -> p < u.
Proof.
  intros p r u Hs Hu. inversion Hs as [|a l Hs' Hall]; subst.
  rewrite Forall_forall in Hall. exact (Hall u Hu).
Qed.

(** * Membership in the building blocks *)

Lemma nbrs_In : forall edges v u,
  In u (nbrs edges v) <-> (In (v, u) edges \/ In (u, v) edges).
Proof.
  intros edges v u. unfold nbrs. rewrite in_flat_map. split.
  - intros [[a b] [He Hu]]. simpl in Hu. apply in_app_or in Hu. destruct Hu as [Hu|Hu].
    + destruct (Nat.eqb_spec a v) as [Heq|Hne]; [|destruct Hu].
      destruct Hu as [Hu|[]]. subst. left. exact He.
    + destruct (Nat.eqb_spec b v) as [Heq|Hne]; [|destruct Hu].
      destruct Hu as [Hu|[]]. subst. right. exact He.
  - intros [H|H].
    + exists (v, u). split; [exact H|]. simpl. rewrite Nat.eqb_refl. apply in_or_app. left.
      left. reflexivity.
    + exists (u, v). split; [exact H|]. simpl. rewrite Nat.eqb_refl. apply in_or_app. right.
      left. reflexivity.
Qed.

Lemma inherited_In : forall acc v u,
  In u (inherited acc v) <->
  exists c r, c < length acc /\ nth c acc [] = v :: r /\ In u r.
Proof.
  intros acc v u. unfold inherited. rewrite in_flat_map. split.
  - intros [l [Hl Hu]]. destruct l as [|p r]; simpl in Hu; [destruct Hu|].
    destruct (Nat.eqb_spec p v) as [Heq|Hne]; [|destruct Hu]. subst p.
    destruct (In_nth _ _ [] Hl) as [c [Hc Hn]]. exists c, r. repeat split; assumption.
  - intros [c [r [Hc [Hn Hu]]]]. exists (v :: r). split.
    + rewrite <- Hn. apply nth_In. exact Hc.
    + simpl. rewrite Nat.eqb_refl. exact Hu.
Qed.

Lemma new_col_In : forall n edges acc v u,
  In u (new_col n edges acc v) <->
  v < u < n /\ (In u (nbrs edges v) \/ In u (inherited acc v)).
Proof.
  intros n edges acc v u. unfold new_col. cbv zeta.
  rewrite filter_In, in_seq, memb_In, in_app_iff. split.
  - intros [H1 H2]. split; [lia|exact H2].
  - intros [H1 H2]. split; [lia|exact H2].
Qed.

Lemma new_col_SS : forall n edges acc v, StronglySorted lt (new_col n edges acc v).
Proof. intros n edges acc v. unfold new_col. cbv zeta. apply filter_SS. apply seq_SS. Qed.

(** * [cols_upto] *)

Lemma cols_upto_length : forall n edges k, length (cols_upto n edges k) = k.
Proof.
  intros n edges k. induction k as [|k IH]; simpl; [reflexivity|].
  rewrite app_length. simpl. lia.
Qed.

Lemma cols_upto_nth : forall n edges k v, v < k ->
  nth v (cols_upto n edges k) [] = new_col n edges (cols_upto n edges v) v.
Proof.
  intros n edges k. induction k as [|k IH]; intros v Hv; [lia|]. simpl.
  destruct (Nat.eq_dec v k) as [Heq|Hne].
  - subst v. rewrite app_nth2; rewrite cols_upto_length; [|lia].
    rewrite Nat.sub_diag. reflexivity.
  - rewrite app_nth1; [|rewrite cols_upto_length; lia]. apply IH. lia.
Qed.

Lemma cols_upto_prefix : forall n edges k v c, c < v -> v <= k ->
  nth c (cols_upto n edges v) [] = nth c (cols_upto n edges k) [].
Proof.
  intros n edges k v c Hc Hv. rewrite !cols_upto_nth by lia. reflexivity.
Qed.

(** * [sym_fill] *)

Section SymFill.

Variable n : nat.
Variable edges : list (nat * nat).

Theorem sym_fill_length : length (sym_fill n edges) = n.
Proof. unfold sym_fill. apply cols_upto_length. Qed.

Lemma sym_fill_col : forall v, v < n ->
  col (sym_fill n edges) v = new_col n edges (cols_upto n edges v) v.
Proof. intros v Hv. unfold col, sym_fill. apply cols_upto_nth. exact Hv. Qed.

Lemma sym_fill_col_overflow : forall v, n <= v -> col (sym_fill n edges) v = [].
Proof. intros v Hv. unfold col. apply nth_overflow. rewrite sym_fill_length. exact Hv. Qed.

Theorem sym_fill_wf : WF (sym_fill n edges).
Proof.
  split.
  - intros v u Hu. rewrite sym_fill_length.
    destruct (Nat.lt_ge_cases v n) as [Hlt|Hge].
    + rewrite (sym_fill_col v Hlt) in Hu. apply new_col_In in Hu. tauto.
    + rewrite (sym_fill_col_overflow v Hge) in Hu. destruct Hu.
  - intros v. destruct (Nat.lt_ge_cases v n) as [Hlt|Hge].
    + rewrite (sym_fill_col v Hlt). apply new_col_SS.
    + rewrite (sym_fill_col_overflow v Hge). constructor.
Qed.

(** the recurrence col(v) = adj+(v) U U_{parent(c) = v} (col(c) \ {v}) *)
Theorem sym_fill_col_spec : forall v u,
  In u (col (sym_fill n edges) v) <->
  v < u < n /\
  (In (v, u) edges \/ In (u, v) edges \/
   exists c r, c < v /\ col (sym_fill n edges) c = v :: r /\ In u r).
Proof.
  intros v u. destruct (Nat.lt_ge_cases v n) as [Hlt|Hge].
  - rewrite (sym_fill_col v Hlt), new_col_In, nbrs_In, inherited_In. split.
    + intros [Hb [[H|H]|[c [r [Hc [Hn Hu]]]]]]; split; try exact Hb; auto.
      right. right. rewrite cols_upto_length in Hc. exists c, r.
      split; [exact Hc|]. split; [|exact Hu]. unfold col, sym_fill.
      rewrite <- (cols_upto_prefix n edges n v c Hc) by lia. exact Hn.
    + intros [Hb [H|[H|[c [r [Hc [Hn Hu]]]]]]]; split; try exact Hb; auto.
      right. exists c, r. rewrite cols_upto_length. split; [exact Hc|]. split; [|exact Hu].
      rewrite (cols_upto_prefix n edges n v c Hc) by lia. exact Hn.
  - rewrite (sym_fill_col_overflow v Hge). split; [intros []|]. intros [Hb _]. lia.
Qed.

Theorem sym_fill_contains : forall u v, u < v < n ->
  (In (u, v) edges \/ In (v, u) edges) -> In v (col (sym_fill n edges) u).
Proof.
  intros u v Hb He. apply sym_fill_col_spec. split; [exact Hb|]. tauto.
Qed.

Lemma sym_fill_F1_aux : forall m v, n - v < m ->
  forall u w, In u (col (sym_fill n edges) v) -> In w (col (sym_fill n edges) v) -> u < w ->
  In w (col (sym_fill n edges) u).
Proof.
  induction m as [|m IH]; intros v Hm u w Hu Hw Hlt; [lia|].
  destruct sym_fill_wf as [Hbd Hss]. rewrite sym_fill_length in Hbd.
  pose proof (Hbd v u Hu) as Hbu. pose proof (Hbd v w Hw) as Hbw.
  pose proof (Hss v) as Hsv.
  destruct (col (sym_fill n edges) v) as [|p r] eqn:Hcol; [destruct Hu|].
  assert (Hp : v < p < n) by (apply (Hbd v p); rewrite Hcol; left; reflexivity).
  destruct Hu as [Hu|Hu].
  - (* u is the parent of v: w is in the tail, which column u inherits *)
    subst p. destruct Hw as [Hw|Hw]; [lia|].
    apply sym_fill_col_spec. split; [lia|]. right. right. exists v, r.
    split; [lia|]. split; [exact Hcol|exact Hw].
  - (* u, w both in the tail: both are in column p, use the induction hypothesis there *)
    pose proof (SS_cons_lt p r u Hsv Hu) as Hpu.
    destruct Hw as [Hw|Hw]; [lia|].
    assert (Hup : In u (col (sym_fill n edges) p)).
    { apply sym_fill_col_spec. split; [lia|]. right. right. exists v, r.
      split; [lia|]. split; [exact Hcol|exact Hu]. }
    assert (Hwp : In w (col (sym_fill n edges) p)).
    { apply sym_fill_col_spec. split; [lia|]. right. right. exists v, r.
      split; [lia|]. split; [exact Hcol|exact Hw]. }
    apply (IH p); [lia|exact Hup|exact Hwp|exact Hlt].
Qed.

Theorem sym_fill_F1 : F1 (sym_fill n edges).
Proof.
  intros v u w Hu Hw Hlt. apply (sym_fill_F1_aux (S (n - v)) v); [lia|exact Hu|exact Hw|exact Hlt].
Qed.

(** minimality: [sym_fill] is contained in every F1-closed pattern containing the edges *)
Theorem sym_fill_minimal : forall P : list (list nat),
  (forall u v, u < v < n -> (In (u, v) edges \/ In (v, u) edges) -> In v (col P u)) ->
  F1 P ->
  forall v u, In u (col (sym_fill n edges) v) -> In u (col P v).
Proof.
  intros P Hedges HF1 v. induction v as [v IH] using lt_wf_ind. intros u Hu.
  apply sym_fill_col_spec in Hu. destruct Hu as [Hb [He|[He|[c [r [Hc [Hcol Hur]]]]]]].
  - apply Hedges; [exact Hb|tauto].
  - apply Hedges; [exact Hb|tauto].
  - apply (HF1 c v u).
    + apply (IH c Hc). rewrite Hcol. left. reflexivity.
    + apply (IH c Hc). rewrite Hcol. right. exact Hur.
    + lia.
Qed.

End SymFill.

(** * [connect] *)

Lemma connect_length : forall adj, length (connect adj) = length adj.
Proof. intros adj. unfold connect. rewrite map_length, seq_length. reflexivity. Qed.

Lemma connect_col : forall adj v,
  col (connect adj) v = connect_one (length adj) v (col adj v).
Proof.
  intros adj v. destruct (Nat.lt_ge_cases v (length adj)) as [Hlt|Hge].
  - unfold connect. unfold col at 1.
    rewrite (nth_indep _ [] (connect_one (length adj) 0 (col adj 0)))
      by (rewrite map_length, seq_length; exact Hlt).
    rewrite (map_nth (fun j => connect_one (length adj) j (col adj j)) (seq 0 (length adj)) 0 v).
    rewrite seq_nth by exact Hlt. reflexivity.
  - unfold col. rewrite !nth_overflow; [|exact Hge|rewrite connect_length; exact Hge].
    simpl. destruct (Nat.ltb_spec (S v) (length adj)) as [H|H]; [lia|reflexivity].
Qed.

Lemma connect_col_nonempty : forall adj v, col adj v <> [] -> col (connect adj) v = col adj v.
Proof.
  intros adj v Hne. rewrite connect_col. destruct (col adj v) as [|a l]; [congruence|reflexivity].
Qed.

Lemma connect_col_empty : forall adj v u, col adj v = [] -> In u (col (connect adj) v) ->
  u = S v /\ S v < length adj.
Proof.
  intros adj v u He Hu. rewrite connect_col, He in Hu. simpl in Hu.
  destruct (Nat.ltb_spec (S v) (length adj)) as [H|H]; [|destruct Hu].
  destruct Hu as [Hu|[]]. split; [symmetry; exact Hu|exact H].
Qed.

Theorem connect_wf : forall adj, WF adj -> WF (connect adj).
Proof.
  intros adj [Hbd Hss]. split.
  - intros v u Hu. rewrite connect_length.
    destruct (col adj v) as [|a l] eqn:Hcol.
    + destruct (connect_col_empty adj v u Hcol Hu) as [H1 H2]. lia.
    + rewrite connect_col_nonempty in Hu by (rewrite Hcol; discriminate). apply Hbd. exact Hu.
  - intros v. destruct (col adj v) as [|a l] eqn:Hcol.
    + rewrite connect_col, Hcol. simpl.
      destruct (S v <? length adj); repeat constructor.
    + rewrite connect_col_nonempty by (rewrite Hcol; discriminate). apply Hss.
Qed.

(** if column v is empty it stays a singleton; otherwise u, w are old entries of column v, so
    w is an old entry of column u, which therefore was not empty and is unchanged *)
Theorem connect_F1 : forall adj, F1 adj -> F1 (connect adj).
Proof.
  intros adj HF1 v u w Hu Hw Hlt.
  destruct (col adj v) as [|a l] eqn:Hcol.
  - destruct (connect_col_empty adj v u Hcol Hu) as [H1 _].
    destruct (connect_col_empty adj v w Hcol Hw) as [H2 _]. lia.
  - rewrite connect_col_nonempty in Hu, Hw by (rewrite Hcol; discriminate).
    pose proof (HF1 v u w Hu Hw Hlt) as Hwu.
    rewrite connect_col_nonempty; [exact Hwu|]. intros He. rewrite He in Hwu. destruct Hwu.
Qed.

Theorem connect_F2 : forall adj, F2 (connect adj).
Proof.
  intros adj v Hv. rewrite connect_length in Hv. rewrite connect_col.
  destruct (col adj v) as [|a l]; simpl.
  - destruct (Nat.ltb_spec (S v) (length adj)) as [H|H]; [discriminate|lia].
  - discriminate.
Qed.

(** connect only adds entries *)
Lemma connect_incl : forall adj v u, In u (col adj v) -> In u (col (connect adj) v).
Proof.
  intros adj v u Hu. rewrite connect_col_nonempty; [exact Hu|].
  intros He. rewrite He in Hu. destruct Hu.
Qed.

(** * Completeness of the boolean checks of NoMerge *)

Lemma incr_b_complete : forall l lo hi, StronglySorted lt l ->
  (forall x, In x l -> lo <= x < hi) -> incr_b lo hi l = true.
Proof.
  induction l as [|a l IH]; simpl; intros lo hi Hs Hb; [reflexivity|].
  inversion Hs as [|a' l' Hs' Hall]; subst.
  assert (Ha : lo <= a < hi) by (apply Hb; left; reflexivity).
  rewrite (proj2 (Nat.leb_le lo a)) by lia. rewrite (proj2 (Nat.ltb_lt a hi)) by lia. simpl.
  apply IH; [exact Hs'|]. intros x Hx. rewrite Forall_forall in Hall.
  pose proof (Hall x Hx) as H1. pose proof (Hb x (or_intror Hx)) as H2. lia.
Qed.

Lemma wf_b_complete : forall adj, WF adj -> wf_b adj = true.
Proof.
  intros adj [Hbd Hss]. unfold wf_b. apply forallb_forall. intros v Hv.
  apply incr_b_complete; [apply Hss|]. intros x Hx. pose proof (Hbd v x Hx) as H. lia.
Qed.

Lemma filled_b_complete : forall adj, Filled adj -> filled_b adj = true.
Proof.
  intros adj [H1 H2]. unfold filled_b. apply andb_true_iff. split.
  - apply forallb_forall. intros v Hv. apply forallb_forall. intros u Hu.
    apply forallb_forall. intros w Hw. destruct (Nat.ltb_spec u w) as [Hlt|Hge]; simpl.
    + apply memb_In. exact (H1 v u w Hu Hw Hlt).
    + reflexivity.
  - apply forallb_forall. intros v Hv. apply in_seq in Hv.
    assert (Hlt : S v < length adj) by lia. pose proof (H2 v Hlt) as Hne.
    destruct (col adj v) as [|a l]; [congruence|reflexivity].
Qed.

(** * Main theorem *)

Theorem factor_pattern_length : forall n edges, length (factor_pattern n edges) = n.
Proof. intros n edges. unfold factor_pattern. rewrite connect_length. apply sym_fill_length. Qed.

Theorem factor_pattern_filled : forall n edges,
  WF (factor_pattern n edges) /\ Filled (factor_pattern n edges).
Proof.
  intros n edges. unfold factor_pattern. split.
  - apply connect_wf. apply sym_fill_wf.
  - apply Filled_F1_F2. split.
    + apply connect_F1. apply sym_fill_F1.
    + apply connect_F2.
Qed.

Corollary factor_pattern_filled_b : forall n edges,
  wf_b (factor_pattern n edges) && filled_b (factor_pattern n edges) = true.
Proof.
  intros n edges. destruct (factor_pattern_filled n edges) as [Hw Hf].
  rewrite (wf_b_complete _ Hw), (filled_b_complete _ Hf). reflexivity.
Qed.

(** every original edge is in the final pattern *)
Corollary factor_pattern_contains : forall n edges u v, u < v < n ->
  (In (u, v) edges \/ In (v, u) edges) -> In v (col (factor_pattern n edges) u).
Proof.
  intros n edges u v Hb He. unfold factor_pattern. apply connect_incl.
  apply sym_fill_contains; assumption.
Qed.

(** * Examples *)

(** the path 0-1-2-3: no fill *)
Example ex_sf_path : sym_fill 4 [(0, 1); (1, 2); (2, 3)] = [[1]; [2]; [3]; []].
Proof. vm_compute. reflexivity. Qed.

(** the 4-cycle 0-1-2-3-0 in natural order: eliminating 0 creates the fill edge {1,3} *)
Example ex_sf_cycle : sym_fill 4 [(0, 1); (1, 2); (2, 3); (3, 0)] = [[1; 3]; [2; 3]; [3]; []].
Proof. vm_compute. reflexivity. Qed.

(** a star centred at 0: eliminating the centre first fills in everything *)
Example ex_sf_star : sym_fill 5 [(0, 1); (0, 2); (0, 3); (0, 4)]
                     = [[1; 2; 3; 4]; [2; 3; 4]; [3; 4]; [4]; []].
Proof. vm_compute. reflexivity. Qed.

(** a star centred at the last vertex: no fill *)
Example ex_sf_star_last : sym_fill 4 [(0, 3); (1, 3); (2, 3)] = [[3]; [3]; [3]; []].
Proof. vm_compute. reflexivity. Qed.

(** either orientation, duplicates, self loops and out-of-range entries *)
Example ex_sf_messy :
  sym_fill 4 [(1, 0); (0, 1); (2, 2); (3, 0); (2, 1); (7, 0); (1, 9); (3, 2); (2, 3)]
  = [[1; 3]; [2; 3]; [3]; []].
Proof. vm_compute. reflexivity. Qed.

(** two components {0,1} and {2,3}: [connect] inserts (2,1) *)
Example ex_sf_disconnected :
  sym_fill 4 [(0, 1); (2, 3)] = [[1]; []; [3]; []]
  /\ factor_pattern 4 [(0, 1); (2, 3)] = [[1]; [2]; [3]; []].
Proof. vm_compute. split; reflexivity. Qed.

(** no edges at all: [connect] builds the path *)
Example ex_sf_empty : factor_pattern 3 [] = [[1]; [2]; []] /\ factor_pattern 0 [] = [].
Proof. vm_compute. split; reflexivity. Qed.

(** the pattern [ex_fill] of NoMerge is the filled graph of its own edges *)
Example ex_sf_fill :
  factor_pattern 5 [(0, 2); (0, 3); (1, 3); (1, 4); (2, 4)] = ex_fill.
Proof. vm_compute. reflexivity. Qed.

(** a larger instance, to keep an eye on the cost: the 40-cycle has the fill edges {k, 39} *)
Example ex_sf_big :
  let n := 40 in
  let es := (n - 1, 0) :: map (fun k => (k, S k)) (seq 0 (n - 1)) in
  wf_b (factor_pattern n es) && filled_b (factor_pattern n es) = true
  /\ col (factor_pattern n es) 5 = [6; 39].
Proof. vm_compute. split; reflexivity. Qed.

Print Assumptions sym_fill_length.
Print Assumptions sym_fill_wf.
Print Assumptions sym_fill_contains.
Print Assumptions sym_fill_F1.
Print Assumptions sym_fill_minimal.
Print Assumptions connect_wf.
Print Assumptions connect_F1.
Print Assumptions connect_F2.
Print Assumptions factor_pattern_filled.
Print Assumptions factor_pattern_filled_b.
