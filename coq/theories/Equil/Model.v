(** Executable model of the data equilibration of Clarabel.rs
    (src/solver/implementations/default/problemdata.rs: [equilibrate], [kkt_col_norms],
    [scale_data]; equilibration.rs; [rectify_equilibration] of every cone kind in
    src/solver/core/cones/*.rs and of the composite cone; the vector utilities of
    src/algebra/vecmath.rs and scalarmath.rs).

    One Gallina term over [Ops T]: proved about at [OpsR], executed at [OpsF] (binary64,
    same operation order as the Rust code) and compared with the Rust output.
    Matrices are the CSC model of Csc/Model.v (lrscale, lscale, scale, col_norms,
    col_norms_sym, row_norms are reused from there).  Vectors are lists.  The two work
    vectors of the Rust code (it borrows [dinv]/[einv]) are local values here: each is
    completely overwritten before it is read ([col_norms_sym] and [row_norms] reset their
    output, [rectify_equilibration] of the composite cone fills with one first).
    No proofs in this file. *)
From Coq Require Import List Arith ZArith Bool.
Import ListNotations.
Require Import Clarabel.Base.Ops Clarabel.Csc.Model.

(** cone kinds as far as equilibration distinguishes them, with the number of rows *)
Inductive ckind : Set := KZero | KNonneg | KSoc | KExp | KPow | KGenPow | KPsd.
Definition cone : Set := (ckind * nat)%type.
(** Zero and nonnegative cones are products of scalar cones: every positive diagonal
    scaling maps them onto themselves *)
Definition scalar_kind (k : ckind) : bool :=
  match k with KZero | KNonneg => true | _ => false end.

(** row ranges of the cones of a composite cone: (kind, first row, number of rows) *)
Fixpoint cone_ranges (off : nat) (cs : list cone) : list (ckind * nat * nat) :=
  match cs with
  | [] => []
  | (k, n) :: r => (k, off, n) :: cone_ranges (off + n) r
  end.

Section EquilModel.
Context {T : Type} (O : Ops T).
Notation csc := (@csc T).

Record settings : Type := mkSettings
  { eq_enable : bool; eq_max_iter : nat; eq_min : T; eq_max : T }.

(** DefaultEquilibrationData *)
Record equil : Type := mkEquil
  { ed : list T; edinv : list T; ee : list T; eeinv : list T; ec : T }.
(** the part of DefaultProblemData that [equilibrate] touches *)
Record pdata : Type := mkPdata
  { pP : csc; pq : list T; pA : csc; pb : list T; peq : equil }.

(** ** scalar and vector utilities (scalarmath.rs, vecmath.rs) *)
Definition recip (x : T) : T := div O (one O) x.
Definition rsqrt (x : T) : T := recip (sqrt O x).
(** ScalarMath::clip: if x < lo {lo} else if x > hi {hi} else {x} *)
Definition clip (x lo hi : T) : T :=
  if ltb O x lo then lo else if ltb O hi x then hi else x.
Definition zero_to_one (x : T) : T := if eqb O x (zero O) then one O else x.

Definition map2 (f : T -> T -> T) (x y : list T) : list T :=
  map (fun p => f (fst p) (snd p)) (combine x y).
(** x .*= y *)
Definition hadamard (x y : list T) : list T := map2 (mul O) x y.
Definition vscale (x : list T) (c : T) : list T := map (fun t => mul O t c) x.
Definition vsum (x : list T) : T := fold_left (add O) x (zero O).
Definition ofnat (n : nat) : T := ofZ O (Z.of_nat n).
Definition mean (x : list T) : T :=
  match x with
  | [] => zero O
  | _ => div O (vsum x) (ofnat (length x))
  end.
(** NaN handling, as coded: [norm_inf] returns NaN as soon as it meets one (explicit test in
    vecmath.rs), and Rust's [f64::max] returns the other operand when one is NaN.  A value is a
    NaN iff it differs from itself; over the reals these branches are dead. *)
Definition is_nan (x : T) : bool := negb (eqb O x x).
Definition nan_value : T := div O (zero O) (zero O).
Definition fmax (a b : T) : T := if is_nan a then b else if is_nan b then a else omax O a b.
Definition norm_inf (x : list T) : T :=
  if existsb is_nan x then nan_value else fold_left (maxabs O) x (zero O).
Definition ones (n : nat) : list T := repeat (one O) n.

(** CscMatrix::col_norms_no_reset: running maximum continued from [init] *)
Definition col_norms_no_reset (A : csc) (init : list T) : list T :=
  map (fun p => fold_left (maxabs O) (map snd (fst p)) (snd p)) (combine (cols A) init).

(** kkt_col_norms: (norm_LHS, norm_RHS) *)
Definition kkt_col_norms (P A : csc) : list T * list T :=
  (col_norms_no_reset A (col_norms_sym O P), row_norms O A).

(** DefaultEquilibrationData::new(n, m) *)
Definition equil_new (n m : nat) : equil :=
  mkEquil (ones n) (ones n) (ones m) (ones m) (one O).
Definition pdata_new (P : csc) (q : list T) (A : csc) (b : list T) : pdata :=
  mkPdata P q A b (equil_new (nc A) (nr A)).

(** ** one pass of the Ruiz loop (problemdata.rs, body of [for _ in 0..equilibrate_max_iter]) *)
Record lstate : Type := mkL
  { lP : csc; lq : list T; lA : csc; lb : list T; ld : list T; le : list T; lc : T }.

(** the increment actually applied: 1/sqrt(norm) with zero norms replaced by one, clipped
    to [min/d, max/d] where d is the cumulative scaling so far *)
Definition increment (S : settings) (nrm cum : T) : T :=
  clip (rsqrt (zero_to_one nrm)) (div O (eq_min S) cum) (div O (eq_max S) cum).

Definition ruiz_step (S : settings) (s : lstate) : lstate :=
  let '(nl, nr_) := kkt_col_norms (lP s) (lA s) in
  let dw := map2 (increment S) nl (ld s) in
  let ew := map2 (increment S) nr_ (le s) in
  (* scale_data(P, A, q, b, Some(dwork), ework) *)
  let P1 := lrscale O (lP s) dw dw in
  let A1 := lrscale O (lA s) ew dw in
  let q1 := hadamard (lq s) dw in
  let b1 := hadamard (lb s) ew in
  let d1 := hadamard (ld s) dw in
  let e1 := hadamard (le s) ew in
  (* cost scaling *)
  let mean_col_norm_P := mean (col_norms O P1) in
  let inf_norm_q := norm_inf q1 in
  if negb (eqb O mean_col_norm_P (zero O)) && negb (eqb O inf_norm_q (zero O)) then
    let scale_cost := fmax inf_norm_q mean_col_norm_P in
    let ctmp := clip (recip scale_cost) (div O (eq_min S) (lc s)) (div O (eq_max S) (lc s)) in
    mkL (scale O P1 ctmp) (vscale q1 ctmp) A1 b1 d1 e1 (mul O (lc s) ctmp)
  else
    mkL P1 q1 A1 b1 d1 e1 (lc s).

Fixpoint ruiz (S : settings) (k : nat) (s : lstate) : lstate :=
  match k with
  | 0 => s
  | Datatypes.S k' => ruiz S k' (ruiz_step S s)
  end.

(** ** rectification (cones/*.rs, compositecone.rs) *)
(** non-scalar cone kinds: δ = (1/e) * mean(e) over the cone's rows; returns true.
    Zero / nonnegative: δ = 1; returns false. *)
Definition rectify_cone (k : ckind) (e : list T) : list T * bool :=
  if scalar_kind k then (ones (length e), false)
  else (let mu := mean e in map (fun x => mul O (recip x) mu) e, true).

(** composite cone: δ is first filled with one; each cone rewrites its own range *)
Fixpoint rectify (cs : list cone) (e : list T) : list T * bool :=
  match cs with
  | [] => (ones (length e), false)
  | (k, n) :: r =>
      let '(dl, ch1) := rectify_cone k (firstn n e) in
      let '(dr, ch2) := rectify r (skipn n e) in
      (dl ++ dr, ch1 || ch2)
  end.

(** ** DefaultProblemData::equilibrate *)
Definition equilibrate (S : settings) (cs : list cone) (p : pdata) : pdata :=
  if negb (eq_enable S) then p
  else
    let s0 := mkL (pP p) (pq p) (pA p) (pb p) (ed (peq p)) (ee (peq p)) (ec (peq p)) in
    let s := ruiz S (eq_max_iter S) s0 in
    let '(delta, changed) := rectify cs (le s) in
    let '(A2, b2, e2) :=
      if changed then (lscale O (lA s) delta, hadamard (lb s) delta, hadamard (le s) delta)
      else (lA s, lb s, le s) in
    mkPdata (lP s) (lq s) A2 b2
            (mkEquil (ld s) (map recip (ld s)) e2 (map recip e2) (lc s)).

(** what DefaultSolver::new does with the (already presolved) data *)
Definition setup (S : settings) (cs : list cone) (P : csc) (q : list T) (A : csc) (b : list T)
  : pdata := equilibrate S cs (pdata_new P q A b).

End EquilModel.

Arguments mkSettings {T}. Arguments eq_enable {T}. Arguments eq_max_iter {T}.
Arguments eq_min {T}. Arguments eq_max {T}.
Arguments mkEquil {T}. Arguments ed {T}. Arguments edinv {T}. Arguments ee {T}.
Arguments eeinv {T}. Arguments ec {T}.
Arguments mkPdata {T}. Arguments pP {T}. Arguments pq {T}. Arguments pA {T}.
Arguments pb {T}. Arguments peq {T}.
Arguments mkL {T}. Arguments lP {T}. Arguments lq {T}. Arguments lA {T}. Arguments lb {T}.
Arguments ld {T}. Arguments le {T}. Arguments lc {T}.
