(** C10 proofs, part 1: list and scalar facts used by the loop invariants. *)
From Coq Require Import List Arith ZArith Reals Bool Lia Lra.
Import ListNotations.
Require Import Clarabel.Base.Ops Clarabel.Csc.Model Clarabel.Csc.Spec.
Require Import Clarabel.Csc.LemmasAlgBase Clarabel.Csc.LemmasAlg.
Require Import Clarabel.Equil.Model Clarabel.Equil.Spec.
Local Open Scope R_scope.

Lemma LawsR : Laws OpsR.
Proof. split; [exact RingLawsR | exact Reqb_true]. Qed.

(** ** map2 / hadamard *)
Section Map2.
Context {T : Type}.
Lemma map2_length (f : T -> T -> T) x y :
  length (map2 f x y) = Nat.min (length x) (length y).
Proof. unfold map2. rewrite map_length, combine_length. reflexivity. Qed.

Lemma nth_map2 (f : T -> T -> T) x y i (d dx dy : T) :
  (i < length x)%nat -> (i < length y)%nat ->
  nth i (map2 f x y) d = f (nth i x dx) (nth i y dy).
Proof.
  unfold map2. revert y i. induction x as [|a x IH]; intros y i Hx Hy; cbn [length] in Hx; [lia|].
  destruct y as [|b y]; cbn [length] in Hy; [lia|].
  destruct i as [|i]; cbn [combine map nth fst snd]; [reflexivity|].
  apply IH; lia.
Qed.
End Map2.

Lemma nth_ones n i : (i < n)%nat -> nth i (ones OpsR n) 0 = 1.
Proof.
  intros H. unfold ones. cbn [one OpsR].
  rewrite (nth_indep _ 0 1) by (rewrite repeat_length; lia). apply nth_repeat.
Qed.
Lemma ones_length {T} (O : Ops T) n : length (ones O n) = n.
Proof. apply repeat_length. Qed.

Lemma nth_hadamard x y i :
  (i < length x)%nat -> (i < length y)%nat ->
  nth i (hadamard OpsR x y) 0 = nth i x 0 * nth i y 0.
Proof. intros Hx Hy. unfold hadamard. rewrite (nth_map2 _ x y i 0 0 0) by lia. reflexivity. Qed.
Lemma hadamard_length x y : length (hadamard OpsR x y) = Nat.min (length x) (length y).
Proof. apply map2_length. Qed.

Lemma nth_vscale x c i : nth i (vscale OpsR x c) 0 = nth i x 0 * c.
Proof.
  unfold vscale. cbn [mul OpsR].
  destruct (Nat.lt_ge_cases i (length x)) as [H|H].
  - rewrite (nth_indep _ 0 (0 * c)) by (rewrite map_length; lia).
    rewrite (map_nth (fun t => t * c)). reflexivity.
  - rewrite !nth_overflow by (try rewrite map_length; lia). ring.
Qed.
Lemma vscale_length x c : length (vscale OpsR x c) = length x.
Proof. apply map_length. Qed.

Lemma nth_map_recip x i : (i < length x)%nat ->
  nth i (map (recip OpsR) x) 0 = 1 / nth i x 0.
Proof.
  intros H. rewrite (nth_indep _ 0 (recip OpsR 0)) by (rewrite map_length; lia).
  rewrite map_nth. reflexivity.
Qed.

(** ** scalar utilities over the reals *)
Lemma clip_between x lo hi : lo <= hi -> lo <= clip OpsR x lo hi <= hi.
Proof.
  intros H. unfold clip. cbn [ltb OpsR].
  destruct (Rltb x lo) eqn:E1; [lra|]. apply Rltb_false in E1.
  destruct (Rltb hi x) eqn:E2; [lra|]. apply Rltb_false in E2. lra.
Qed.
Lemma clip_id x lo hi : lo <= x -> x <= hi -> clip OpsR x lo hi = x.
Proof.
  intros H1 H2. unfold clip. cbn [ltb OpsR].
  destruct (Rltb x lo) eqn:E1; [apply Rltb_true in E1; lra|].
  destruct (Rltb hi x) eqn:E2; [apply Rltb_true in E2; lra|]. reflexivity.
Qed.

(** the clip returns a value between the smaller and the larger of its two bounds, in whatever
    order they are given (with lo > hi it returns lo or hi, never x) *)
Lemma clip_between_gen x lo hi : Rmin lo hi <= clip OpsR x lo hi <= Rmax lo hi.
Proof.
  unfold clip. cbn [ltb OpsR].
  pose proof (Rmin_l lo hi). pose proof (Rmin_r lo hi). pose proof (Rmax_l lo hi). pose proof (Rmax_r lo hi).
  destruct (Rltb x lo) eqn:E1; [lra|]. apply Rltb_false in E1.
  destruct (Rltb hi x) eqn:E2; [lra|]. apply Rltb_false in E2. lra.
Qed.
Lemma clip_swapped x lo hi : hi < lo -> clip OpsR x lo hi = lo \/ clip OpsR x lo hi = hi.
Proof.
  intros H. unfold clip. cbn [ltb OpsR].
  destruct (Rltb x lo) eqn:E1; [left; reflexivity|]. apply Rltb_false in E1.
  destruct (Rltb hi x) eqn:E2; [right; reflexivity|]. apply Rltb_false in E2. lra.
Qed.

(** cum * clip(x, min/cum, max/cum) lies between the smaller and the larger of min, max *)
Lemma clip_cum_bounds_gen (S : @settings R) x cum :
  SettingsPos S -> 0 < cum ->
  slo S <= cum * clip OpsR x (eq_min S / cum) (eq_max S / cum) <= shi S.
Proof.
  intros [Hm HM] Hc. unfold slo, shi.
  pose proof (clip_between_gen x (eq_min S / cum) (eq_max S / cum)) as [H1 H2].
  set (w := clip OpsR x (eq_min S / cum) (eq_max S / cum)) in *.
  assert (Hi : 0 < / cum) by (apply Rinv_0_lt_compat; exact Hc).
  assert (L : Rmin (eq_min S) (eq_max S) / cum <= Rmin (eq_min S / cum) (eq_max S / cum)).
  { apply Rmin_glb; unfold Rdiv; apply Rmult_le_compat_r; try lra; [apply Rmin_l | apply Rmin_r]. }
  assert (U : Rmax (eq_min S / cum) (eq_max S / cum) <= Rmax (eq_min S) (eq_max S) / cum).
  { apply Rmax_lub; unfold Rdiv; apply Rmult_le_compat_r; try lra; [apply Rmax_l | apply Rmax_r]. }
  split.
  - replace (Rmin (eq_min S) (eq_max S)) with (cum * (Rmin (eq_min S) (eq_max S) / cum)) by (field; lra).
    apply Rmult_le_compat_l; lra.
  - replace (Rmax (eq_min S) (eq_max S)) with (cum * (Rmax (eq_min S) (eq_max S) / cum)) by (field; lra).
    apply Rmult_le_compat_l; lra.
Qed.
Lemma increment_bounds (S : @settings R) nrm cum :
  SettingsPos S -> 0 < cum ->
  slo S <= cum * increment OpsR S nrm cum <= shi S.
Proof. intros HS Hc. unfold increment. cbn [div OpsR]. apply clip_cum_bounds_gen; assumption. Qed.

Lemma settings_ok_pos (S : @settings R) : SettingsOk S -> SettingsPos S.
Proof. intros [H1 H2]. split; lra. Qed.
Lemma settings_ok_lo (S : @settings R) : SettingsOk S -> slo S = eq_min S.
Proof. intros [H1 H2]. unfold slo. apply Rmin_left. exact H2. Qed.
Lemma settings_ok_hi (S : @settings R) : SettingsOk S -> shi S = eq_max S.
Proof. intros [H1 H2]. unfold shi. apply Rmax_right. exact H2. Qed.

(** a zero norm leaves an identity factor unchanged when 1 is admissible *)
Lemma increment_zero (S : @settings R) :
  OneInRange S -> increment OpsR S 0 1 = 1.
Proof.
  intros [H1 H2]. unfold increment, rsqrt, recip, zero_to_one.
  cbn [eqb zero one div sqrt OpsR].
  assert (E : Reqb 0 0 = true) by (apply Reqb_true; reflexivity).
  rewrite E. rewrite sqrt_1.
  replace (1 / 1) with 1 by field. replace (eq_min S / 1) with (eq_min S) by field.
  replace (eq_max S / 1) with (eq_max S) by field.
  apply clip_id; lra.
Qed.

(** ** sums and means *)
Lemma vsum_acc x a : fold_left Rplus x a = a + fold_left Rplus x 0.
Proof.
  revert a. induction x as [|v x IH]; intros a; cbn [fold_left]; [ring|].
  rewrite (IH (a + v)), (IH (0 + v)). ring.
Qed.
Lemma vsum_cons v x : vsum OpsR (v :: x) = v + vsum OpsR x.
Proof. unfold vsum. cbn [fold_left add zero OpsR]. rewrite vsum_acc. ring. Qed.

Lemma vsum_bounds lo hi x :
  (forall v, In v x -> lo <= v <= hi) ->
  INR (length x) * lo <= vsum OpsR x <= INR (length x) * hi.
Proof.
  induction x as [|v x IH]; intros H.
  - unfold vsum. cbn. lra.
  - rewrite vsum_cons. cbn [length]. rewrite S_INR.
    destruct (H v (or_introl eq_refl)) as [Hv1 Hv2].
    destruct IH as [I1 I2]; [intros w Hw; apply H; right; exact Hw|]. lra.
Qed.

Lemma mean_bounds lo hi x :
  x <> [] -> (forall v, In v x -> lo <= v <= hi) -> lo <= mean OpsR x <= hi.
Proof.
  intros Hne H. destruct x as [|a x]; [congruence|].
  unfold mean, ofnat. cbn [div ofZ OpsR]. rewrite <- INR_IZR_INZ.
  set (l := a :: x) in *.
  assert (Hn : 0 < INR (length l)) by (apply lt_0_INR; unfold l; cbn [length]; lia).
  pose proof (vsum_bounds lo hi l H) as [H1 H2].
  split.
  - apply Rmult_le_reg_r with (INR (length l)); [exact Hn|].
    unfold Rdiv. rewrite Rmult_assoc, Rinv_l by lra. lra.
  - apply Rmult_le_reg_r with (INR (length l)); [exact Hn|].
    unfold Rdiv. rewrite Rmult_assoc, Rinv_l by lra. lra.
Qed.

(** ** running maxima of absolute values that stay zero *)
Lemma maxabs_zero : maxabs OpsR 0 0 = 0.
Proof.
  unfold maxabs, omax. cbn [ltb abs OpsR]. rewrite Rabs_R0.
  destruct (Rltb 0 0) eqn:E; [apply Rltb_true in E; lra | reflexivity].
Qed.
Lemma fold_maxabs_zero (vals : list R) :
  (forall v, In v vals -> v = 0) -> fold_left (maxabs OpsR) vals 0 = 0.
Proof.
  induction vals as [|v vals IH]; intros H; cbn [fold_left]; [reflexivity|].
  rewrite (H v (or_introl eq_refl)), maxabs_zero. apply IH. intros w Hw; apply H; right; exact Hw.
Qed.
