(** C10, cone side: a positive row scaling that is CONSTANT on every block of the product cone
    that is not a product of scalar cones (what rectification guarantees, C10_cone_uniform) maps
    K onto K and K* onto K*:   s in K  <->  E s in K ,   z in K*  <->  E z in K*   (hence the same
    with E^-1), for every cone kind, over the cone predicates of Term/Spec.v (the ones C01-C03
    and C08 state their theorems with).  This is the step those properties rely on when they pass
    between the internal (equilibrated) iterate and the user's variables:
        s_hat = E s ,   z_hat = c E^-1 z .

    Zero / nonnegative blocks: any positive diagonal scaling.  Second-order, exponential, power,
    generalised power, PSD blocks: the scaling is mu * I with mu > 0 and the cone is closed under
    positive multiples (dual side: Cross/Cones.v [dual_cone_scaled]; primal side proved here). *)
From Coq Require Import List Reals Lra Lia Bool NArith ZArith Arith.
Import ListNotations.
Require Import Clarabel.Base.Ops Clarabel.Base.Dyadic Clarabel.Term.Eval Clarabel.Term.Spec
        Clarabel.Term.Farkas Clarabel.Term.PairExp Clarabel.Term.PairPow Clarabel.Term.PairPsd
        Clarabel.Cross.Cones.
Require Clarabel.Equil.Model.
Module EM := Clarabel.Equil.Model.
Local Open Scope R_scope.

(** ** the cone list of Term/Eval.v read as the (kind, rows) list of Equil/Model.v *)
Definition kind_of (k : coneD) : EM.ckind :=
  match k with
  | KZero _ => EM.KZero | KNN _ => EM.KNonneg | KSOC _ => EM.KSoc | KExp => EM.KExp
  | KPow _ => EM.KPow | KGenPow _ _ => EM.KGenPow | KPSD _ => EM.KPsd
  end.
Definition cone_of (k : coneD) : EM.cone := (kind_of k, cone_dim k).

(** E s : the elementwise product, as the model computes it *)
Definition emul (w v : list R) : list R := EM.hadamard OpsR w v.

(** a block of the scaling: positive, and a single value unless the cone is Zero / nonnegative *)
Definition BlockUniform (k : coneD) (w : list R) : Prop :=
  length w = cone_dim k /\ Forall (fun x => 0 < x) w /\
  (EM.scalar_kind (kind_of k) = false -> exists mu, Forall (fun x => x = mu) w).
Definition ConeUniform (K : list coneD) (w : list R) : Prop :=
  Forall (fun kc => BlockUniform (fst kc) (snd kc)) (chunks K w).

(** ** elementwise product *)
Lemma emul_nil_l v : emul [] v = [].
Proof. reflexivity. Qed.
Lemma emul_nil_r w : emul w [] = [].
Proof. destruct w; reflexivity. Qed.
Lemma emul_cons a w b v : emul (a :: w) (b :: v) = a * b :: emul w v.
Proof. reflexivity. Qed.
Lemma emul_length w v : length (emul w v) = Nat.min (length w) (length v).
Proof. unfold emul, EM.hadamard, EM.map2. rewrite map_length, combine_length. reflexivity. Qed.
Lemma emul_firstn d w v : firstn d (emul w v) = emul (firstn d w) (firstn d v).
Proof.
  revert w v. induction d as [|d IH]; intros w v; [reflexivity|].
  destruct w as [|a w]; [reflexivity|]. destruct v as [|b v]; [rewrite !emul_nil_r; reflexivity|].
  cbn [firstn]. rewrite !emul_cons. cbn [firstn]. f_equal. apply IH.
Qed.
Lemma emul_skipn d w v : skipn d (emul w v) = emul (skipn d w) (skipn d v).
Proof.
  revert w v. induction d as [|d IH]; intros w v; [reflexivity|].
  destruct w as [|a w]; [reflexivity|].
  destruct v as [|b v]; [rewrite !emul_nil_r; destruct (skipn (S d) (a :: w)); reflexivity|].
  cbn [skipn]. rewrite emul_cons. cbn [skipn]. apply IH.
Qed.
Lemma emul_const mu w v :
  Forall (fun x => x = mu) w -> length w = length v -> emul w v = vscale OpsR mu v.
Proof.
  revert v. induction w as [|a w IH]; intros v H L; destruct v as [|b v]; try discriminate L; [reflexivity|].
  inversion H as [|? ? Ha Hw]; subst. rewrite emul_cons, vscale_cons. f_equal. apply IH; [exact Hw|].
  cbn [length] in L. lia.
Qed.
Lemma emul_inv w v :
  Forall (fun x => 0 < x) w -> length w = length v -> emul (map (fun x => 1 / x) w) (emul w v) = v.
Proof.
  revert v. induction w as [|a w IH]; intros v H L; destruct v as [|b v]; try discriminate L; [reflexivity|].
  inversion H as [|? ? Ha Hw]; subst. cbn [map]. rewrite !emul_cons. f_equal.
  - field. lra.
  - apply IH; [exact Hw|]. cbn [length] in L. lia.
Qed.

(** ** every cone is closed under multiplication by mu > 0 (primal side) *)
Lemma in_zero_scale t v : in_zero v -> in_zero (vscale OpsR t v).
Proof.
  intros H. induction H as [|a v Ha Hv IH]; [constructor|].
  rewrite vscale_cons. constructor; [rewrite Ha; ring | exact IH].
Qed.
Lemma in_exp_scale t v : 0 < t -> in_exp v -> in_exp (vscale OpsR t v).
Proof.
  destruct v as [|x [|y [|z [|? ?]]]]; cbn [in_exp]; try tauto.
  intros Ht H. rewrite !vscale_cons. change (vscale OpsR t []) with (@nil R).
  apply exp_scale_scalar; [lra | exact H].
Qed.
Lemma in_pow_scale p q t v :
  (p <= q)%nat -> 0 < t -> in_pow p q v -> in_pow p q (vscale OpsR t v).
Proof.
  destruct v as [|x [|y [|z [|? ?]]]]; cbn [in_pow vscale map]; try tauto.
  change (mul OpsR t) with (Rmult t).
  intros Hpq Ht (Hx & Hy & H). repeat split; try (apply Rmult_le_pos; lra).
  rewrite Rabs_mult, (Rabs_right t) by lra. rewrite !Rpow_mult_distr.
  replace (t ^ q) with (t ^ p * t ^ (q - p)) by (rewrite <- pow_add; f_equal; lia).
  assert (Hp : 0 < t ^ p) by (apply pow_lt; exact Ht).
  assert (Hq : 0 < t ^ (q - p)) by (apply pow_lt; exact Ht).
  replace (t ^ p * x ^ p * (t ^ (q - p) * y ^ (q - p)))
    with (t ^ p * t ^ (q - p) * (x ^ p * y ^ (q - p))) by ring.
  apply Rmult_le_compat_l; [apply Rlt_le, Rmult_lt_0_compat; assumption | exact H].
Qed.
Lemma in_pow_real_scale al t v : 0 < t -> in_pow_real al v -> in_pow_real al (vscale OpsR t v).
Proof.
  intros Ht Hv.
  destruct v as [|x [|y [|z [|? ?]]]]; try (simpl in Hv; contradiction).
  destruct Hv as [Hal [Hx [Hy Hz]]].
  rewrite !vscale_cons. change (vscale OpsR t []) with (@nil R). cbn [in_pow_real].
  split; [exact Hal | split; [apply Rmult_le_pos; lra | split; [apply Rmult_le_pos; lra|]]].
  change (Rabs (t * z) <= gmr al (t * x) (t * y)). change (Rabs z <= gmr al x y) in Hz.
  rewrite gmr_scale by lra. rewrite Rabs_mult, (Rabs_right t) by lra.
  apply Rmult_le_compat_l; [lra | exact Hz].
Qed.
Lemma in_genpow_scale ps q t v :
  list_sum ps = q -> (length ps <= length v)%nat -> 0 < t ->
  in_genpow ps q v -> in_genpow ps q (vscale OpsR t v).
Proof.
  unfold in_genpow. intros Hs Hl Ht [H1 H2].
  rewrite firstn_vscale, skipn_vscale. split; [apply vscale_nonneg; [lra | exact H1]|].
  rewrite sumsq_vscale. rewrite !prodpowR_pprod in *.
  rewrite pprod_vscale by (rewrite firstn_length; lia). rewrite Hs.
  assert (Htq : 0 < t ^ q) by (apply pow_lt; exact Ht).
  set (ss := sumsq OpsR (skipn (length ps) v)) in *.
  set (pp := pprod (firstn (length ps) v) ps) in *.
  replace ((t * t * ss) ^ q) with (t ^ q * t ^ q * ss ^ q) by (rewrite !Rpow_mult_distr; ring).
  replace ((t ^ q * pp) ^ 2) with (t ^ q * t ^ q * pp ^ 2) by ring.
  apply Rmult_le_compat_l; [apply Rlt_le, Rmult_lt_0_compat; assumption | exact H2].
Qed.

Theorem cone_scaled (k : coneD) (mu : R) (s : list R) :
  0 < mu -> in_cone k s -> in_cone k (vscale OpsR mu s).
Proof.
  intros Ht [Hl H]. split; [rewrite Farkas.vscale_length; exact Hl|].
  destruct k as [n|n|n| |a|al d2|n].
  - apply in_zero_scale; exact H.
  - apply in_nn_scale; [lra | exact H].
  - apply in_soc_scale; [lra | exact H].
  - apply in_exp_scale; assumption.
  - destruct (alpha_pq a) as [[p q]|] eqn:E; [|apply in_pow_real_scale; assumption].
    apply alpha_pq_spec in E. apply in_pow_scale; [lia | exact Ht | exact H].
  - destruct (alphas_pq al) as [[ps q]|] eqn:E; [|exact H].
    apply alphas_pq_spec in E. destruct E as (E1 & _ & E3 & _).
    apply in_genpow_scale; try assumption. cbn [cone_dim] in Hl. lia.
  - apply in_psd_scale; [lra | exact H].
Qed.

(** ** one block *)
Lemma in_zero_emul w v : in_zero v -> in_zero (emul w v).
Proof.
  revert w. intros w H. revert w. induction H as [|b v Hb Hv IH]; intros w.
  - rewrite emul_nil_r. constructor.
  - destruct w as [|a w]; [constructor|]. rewrite emul_cons. constructor; [rewrite Hb; ring | apply IH].
Qed.
Lemma in_nn_emul w v : Forall (fun x => 0 < x) w -> in_nn v -> in_nn (emul w v).
Proof.
  intros Hw H. revert w Hw. induction H as [|b v Hb Hv IH]; intros w Hw.
  - rewrite emul_nil_r. constructor.
  - destruct w as [|a w]; [constructor|]. inversion Hw as [|? ? Ha Hw']; subst.
    rewrite emul_cons. constructor; [apply Rmult_le_pos; lra | apply IH; exact Hw'].
Qed.

Lemma block_mu k w v :
  BlockUniform k w -> length v = length w -> EM.scalar_kind (kind_of k) = false ->
  emul w v = v \/ exists mu, 0 < mu /\ emul w v = vscale OpsR mu v.
Proof.
  intros (Hl & Hp & Hu) Lv Hk. destruct (Hu Hk) as [mu Hmu].
  destruct w as [|a w].
  - left. destruct v; [reflexivity | discriminate Lv].
  - right. exists mu. split.
    + inversion Hmu; subst. inversion Hp; subst. assumption.
    + apply emul_const; [exact Hmu | lia].
Qed.

Lemma block_cone_scaled k w v :
  BlockUniform k w -> length v = length w -> in_cone k v -> in_cone k (emul w v).
Proof.
  intros HB Lv Hv. pose proof HB as (Hl & Hp & Hu).
  destruct (EM.scalar_kind (kind_of k)) eqn:Hk.
  - destruct Hv as [Lc H]. split; [rewrite emul_length; lia|].
    destruct k; try discriminate Hk.
    + apply in_zero_emul; exact H.
    + apply in_nn_emul; assumption.
  - destruct (block_mu k w v HB Lv Hk) as [E | [mu [Hmu E]]]; rewrite E; [exact Hv|].
    apply cone_scaled; assumption.
Qed.
Lemma block_dual_scaled k w v :
  BlockUniform k w -> length v = length w -> in_dual k v -> in_dual k (emul w v).
Proof.
  intros HB Lv Hv. pose proof HB as (Hl & Hp & Hu).
  destruct (EM.scalar_kind (kind_of k)) eqn:Hk.
  - destruct Hv as [Lc H]. split; [rewrite emul_length; lia|].
    destruct k; try discriminate Hk.
    + exact I.
    + apply in_nn_emul; assumption.
  - destruct (block_mu k w v HB Lv Hk) as [E | [mu [Hmu E]]]; rewrite E; [exact Hv|].
    apply dual_cone_scaled; assumption.
Qed.

(** ** the product cone *)
Lemma chunks_emul K w v :
  chunks K (emul w v) =
  map (fun p => (fst (fst p), emul (snd (fst p)) (snd (snd p)))) (combine (chunks K w) (chunks K v)).
Proof.
  revert w v. induction K as [|k K IH]; intros w v; cbn [chunks combine map]; [reflexivity|].
  cbn [fst snd]. rewrite emul_firstn, emul_skipn, IH. reflexivity.
Qed.

Lemma cone_uniform_scaled_gen (Pk : coneD -> list R -> Prop) K :
  (forall k w v, BlockUniform k w -> length v = length w -> Pk k v -> Pk k (emul w v)) ->
  forall w v, ConeUniform K w -> length v = length w ->
    Forall (fun kc => Pk (fst kc) (snd kc)) (chunks K v) ->
    Forall (fun kc => Pk (fst kc) (snd kc)) (chunks K (emul w v)).
Proof.
  intros Hblk. induction K as [|k K IH]; intros w v HU L HV; cbn [chunks] in *; [constructor|].
  inversion HU as [|? ? HU1 HU2]; subst. inversion HV as [|? ? HV1 HV2]; subst.
  cbn [fst snd] in *. rewrite emul_firstn, emul_skipn. constructor; cbn [fst snd].
  - apply Hblk; [exact HU1 | rewrite !firstn_length; lia | exact HV1].
  - apply IH; [exact HU2 | rewrite !skipn_length; lia | exact HV2].
Qed.

Lemma chunks_map {X Y} (f : X -> Y) K (w : list X) :
  chunks K (map f w) = map (fun kc => (fst kc, map f (snd kc))) (chunks K w).
Proof.
  revert w. induction K as [|k K IH]; intros w; cbn [chunks map]; [reflexivity|].
  rewrite firstn_map, skipn_map, IH. reflexivity.
Qed.

Lemma block_uniform_inv k w : BlockUniform k w -> BlockUniform k (map (fun x => 1 / x) w).
Proof.
  intros (Hl & Hp & Hu). split; [rewrite map_length; exact Hl|]. split.
  - apply Forall_map. eapply Forall_impl; [|exact Hp]. intros a Ha. cbv beta.
    apply Rdiv_lt_0_compat; lra.
  - intros Hk. destruct (Hu Hk) as [mu Hmu]. exists (1 / mu).
    apply Forall_map. eapply Forall_impl; [|exact Hmu]. intros a Ha. cbv beta. rewrite Ha. reflexivity.
Qed.
Lemma cone_uniform_inv K w : ConeUniform K w -> ConeUniform K (map (fun x => 1 / x) w).
Proof.
  unfold ConeUniform. rewrite chunks_map, Forall_map. cbn [fst snd].
  intros H. eapply Forall_impl; [|exact H]. intros kc. apply block_uniform_inv.
Qed.
Lemma cone_uniform_pos K w : length w = cones_dim K -> ConeUniform K w -> Forall (fun x => 0 < x) w.
Proof.
  revert w. induction K as [|k K IH]; intros w L H.
  - destruct w; [constructor | discriminate L].
  - cbn [chunks] in H. inversion H as [|? ? H1 H2]; subst. cbn [fst snd] in *.
    rewrite <- (firstn_skipn (cone_dim k) w). apply Forall_app. split.
    + destruct H1 as (_ & Hp & _). exact Hp.
    + apply IH; [|exact H2]. rewrite skipn_length, L. rewrite cones_dim_cons. lia.
Qed.

(** a cone-uniform positive scaling maps K into K and K* into K* ... *)
Theorem InK_uniform_scaled K w s :
  ConeUniform K w -> length s = length w -> InK K s -> InK K (emul w s).
Proof. intros HU L H. apply (cone_uniform_scaled_gen in_cone K block_cone_scaled w s HU L H). Qed.
Theorem InKdual_uniform_scaled K w z :
  ConeUniform K w -> length z = length w -> InKdual K z -> InKdual K (emul w z).
Proof. intros HU L H. apply (cone_uniform_scaled_gen in_dual K block_dual_scaled w z HU L H). Qed.

(** ... and onto: membership is unaffected, in both directions, for E and for E^-1 *)
Definition stmt_uniform_scaling_preserves_cones : Prop :=
  forall (K : list coneD) (w s : list R),
    ConeUniform K w -> length w = cones_dim K -> length s = length w ->
    let winv := map (fun x => 1 / x) w in
    (InK K s <-> InK K (emul w s)) /\ (InKdual K s <-> InKdual K (emul w s)) /\
    (InK K s <-> InK K (emul winv s)) /\ (InKdual K s <-> InKdual K (emul winv s)) /\
    emul winv (emul w s) = s.
Lemma map_inv_inv w : Forall (fun x => 0 < x) w -> map (fun x => 1 / x) (map (fun x => 1 / x) w) = w.
Proof.
  intros H. induction H as [|a w Ha Hw IH]; [reflexivity|]. cbn [map]. f_equal; [field; lra | exact IH].
Qed.
Lemma uniform_scaling_preserves_cones_ok : stmt_uniform_scaling_preserves_cones.
Proof.
  intros K w s HU Lw Ls winv.
  pose proof (cone_uniform_pos K w Lw HU) as Hp.
  pose proof (cone_uniform_inv K w HU) as HUi. fold winv in HUi.
  assert (Lwi : length winv = length w) by (unfold winv; apply map_length).
  assert (Einv : emul winv (emul w s) = s) by (apply emul_inv; [exact Hp | lia]).
  assert (Hpi : Forall (fun x => 0 < x) winv).
  { unfold winv. apply Forall_map. eapply Forall_impl; [|exact Hp]. intros a Ha. cbv beta.
    apply Rdiv_lt_0_compat; lra. }
  assert (Einv' : emul w (emul winv s) = s).
  { rewrite <- (map_inv_inv w Hp) at 1. fold winv. apply emul_inv; [exact Hpi | lia]. }
  assert (L1 : length (emul w s) = length winv) by (rewrite emul_length; lia).
  assert (L2 : length (emul winv s) = length w) by (rewrite emul_length; lia).
  repeat split.
  - apply InK_uniform_scaled; [exact HU | exact Ls].
  - intros H. rewrite <- Einv. apply InK_uniform_scaled; [exact HUi | exact L1 | exact H].
  - apply InKdual_uniform_scaled; [exact HU | exact Ls].
  - intros H. rewrite <- Einv. apply InKdual_uniform_scaled; [exact HUi | exact L1 | exact H].
  - apply InK_uniform_scaled; [exact HUi | lia].
  - intros H. rewrite <- Einv'. apply InK_uniform_scaled; [exact HU | exact L2 | exact H].
  - apply InKdual_uniform_scaled; [exact HUi | lia].
  - intros H. rewrite <- Einv'. apply InKdual_uniform_scaled; [exact HU | exact L2 | exact H].
  - exact Einv.
Qed.
