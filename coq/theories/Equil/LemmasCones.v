(** C10 proofs, part 9: the row scaling returned by [setup] is cone-uniform in the sense of
    Equil/Cones.v, hence membership in K and K* (cone predicates of Term/Spec.v) is unaffected by
    E and by E^-1. *)
From Coq Require Import List Arith ZArith Reals Bool Lia Lra.
Import ListNotations.
Require Import Clarabel.Term.Eval Clarabel.Term.Spec Clarabel.Term.Farkas Clarabel.Cross.Cones.
Require Import Clarabel.Equil.Cones.
Require Import Clarabel.Base.Ops Clarabel.Csc.Model Clarabel.Csc.Spec.
Require Import Clarabel.Equil.Model Clarabel.Equil.Spec Clarabel.Equil.LemmasBase.
Require Import Clarabel.Equil.LemmasRect Clarabel.Equil.Lemmas.
Local Open Scope R_scope.

Lemma ranges_to_chunks (K : list coneD) : forall e : list R,
  length e = cones_dim K ->
  (forall i, (i < length e)%nat -> 0 < nth i e 0) ->
  (forall k off nn, In (k, off, nn) (cone_ranges 0 (map cone_of K)) -> scalar_kind k = false ->
      exists mu, forall i, (off <= i < off + nn)%nat -> nth i e 0 = mu) ->
  ConeUniform K e.
Proof.
  induction K as [|k K IH]; intros e L Hp Hr; [constructor|].
  rewrite cones_dim_cons in L. set (d := cone_dim k) in *.
  unfold ConeUniform. cbn [chunks]. fold d. constructor; cbn [fst snd].
  - assert (Lf : length (firstn d e) = d) by (rewrite firstn_length; lia).
    split; [exact Lf|]. split.
    + apply Forall_forall. intros x Hx. destruct (In_nth _ _ 0 Hx) as [i [Hi <-]].
      rewrite nth_firstn_lt by lia. apply Hp. lia.
    + intros Hk. destruct (Hr (kind_of k) 0%nat d) as [mu Hmu].
      * cbn [map cone_ranges cone_of]. left. reflexivity.
      * exact Hk.
      * exists mu. apply Forall_forall. intros x Hx. destruct (In_nth _ _ 0 Hx) as [i [Hi <-]].
        rewrite nth_firstn_lt by lia. apply Hmu. lia.
  - apply IH.
    + rewrite skipn_length. lia.
    + intros i Hi. rewrite skipn_length in Hi. rewrite nth_skipn_add. apply Hp. lia.
    + intros k' off nn Hin Hk'.
      destruct (Hr k' (d + off)%nat nn) as [mu Hmu].
      * cbn [map cone_ranges cone_of]. right. fold d.
        rewrite cone_ranges_map. apply in_map_iff. exists (k', off, nn). split; [|exact Hin].
        cbn [rshift]. repeat (f_equal; try lia).
      * exact Hk'.
      * exists mu. intros i Hi. rewrite nth_skipn_add. apply Hmu. lia.
Qed.

Definition stmt_equil_cone_membership : Prop :=
  forall (S : @settings R) (K : list coneD) (P : cscR) q (A : cscR) b,
    SettingsPos S -> WFdata P q A b -> cones_dim K = nr A ->
    let r := setup OpsR S (map cone_of K) P q A b in
    let e := ee (peq r) in let einv := eeinv (peq r) in
    ConeUniform K e /\ ConeUniform K einv /\ einv = map (fun x => 1 / x) e /\
    forall s : list R, length s = nr A ->
      (InK K s <-> InK K (hadamard OpsR e s)) /\
      (InKdual K s <-> InKdual K (hadamard OpsR einv s)) /\
      (InKdual K s <-> InKdual K (hadamard OpsR e s)) /\
      (InK K s <-> InK K (hadamard OpsR einv s)) /\
      hadamard OpsR einv (hadamard OpsR e s) = s.

Lemma equil_cone_membership_ok : stmt_equil_cone_membership.
Proof.
  intros S K P q A b HS WF HK r e einv.
  destruct (exact_final S (map cone_of K) P q A b WF) as (_ & Le & _ & _ & _ & _ & _ & _ & _ & _ & _ & _ & _ & Einv).
  fold r in Le, Einv. fold e in Le, Einv. fold einv in Einv.
  destruct (positive_final S (map cone_of K) P q A b WF HS) as (_ & Pe & _). fold r in Pe. fold e in Pe.
  assert (HU : ConeUniform K e).
  { apply ranges_to_chunks.
    - rewrite Le. symmetry. exact HK.
    - intros i Hi. rewrite Le in Hi. destruct (Pe i Hi) as [H _]. exact H.
    - intros k off nn Hin Hk.
      destruct (Nat.le_gt_cases (off + nn) (nr A)) as [Hle|Hgt].
      + destruct (eq_enable S) eqn:Hen.
        * destruct (uniform_final S (map cone_of K) P q A b WF HS Hen k off nn Hin Hk Hle) as [mu [_ Hmu]].
          exists mu. intros i Hi. destruct (Hmu i Hi) as [H _]. exact H.
        * exists 1. intros i Hi. unfold e, r. rewrite (setup_disabled S (map cone_of K) P q A b Hen).
          cbn [peq ee]. apply nth_ones. lia.
      + (* cannot happen: the ranges of [map cone_of K] end at cones_dim K = nr A *)
        exfalso. clear - Hin HK Hgt.
        assert (G : forall K base k off nn, In (k, off, nn) (cone_ranges base (map cone_of K)) ->
                      (off + nn <= base + cones_dim K)%nat).
        { clear. induction K as [|k0 K IH]; intros base k off nn H; [destruct H|].
          cbn [map cone_ranges cone_of] in H. rewrite cones_dim_cons. destruct H as [H|H].
          - inversion H; subst. lia.
          - apply IH in H. lia. }
        apply G in Hin. lia. }
  assert (HUi : ConeUniform K einv) by (rewrite Einv; apply cone_uniform_inv; exact HU).
  split; [exact HU | split; [exact HUi | split; [exact Einv|]]].
  intros s Ls.
  destruct (uniform_scaling_preserves_cones_ok K e s HU) as (I1 & I2 & I3 & I4 & I5); try lia.
  rewrite <- Einv in I3, I4, I5.
  split; [exact I1 | split; [exact I4 | split; [exact I2 | split; [exact I3 | exact I5]]]].
Qed.
