(** C10 proofs, part 7: the dense reading of "all-zero row / column" for canonical matrices
    (strictly increasing row indices in every column, so no duplicates): a column / row whose
    dense entries [get] are all zero has only zero stored entries. *)
From Coq Require Import List Arith ZArith Reals Bool Lia Lra.
Import ListNotations.
Require Import Clarabel.Base.Ops Clarabel.Csc.Model Clarabel.Csc.Spec.
Require Import Clarabel.Csc.LemmasAlgBase Clarabel.Csc.LemmasAlg.
Require Import Clarabel.Equil.Model Clarabel.Equil.Spec Clarabel.Equil.LemmasBase Clarabel.Equil.Lemmas.
Local Open Scope R_scope.

Lemma colget_sorted_in (c : @col R) (en : nat * R) :
  strict_lt (map fst c) = true -> In en c -> colget OpsR c (fst en) = snd en.
Proof.
  induction c as [|e c IH]; intros Hs Hin; [destruct Hin|].
  cbn [map] in Hs. apply strict_lt_cons in Hs. destruct Hs as [Hlt Hs].
  rewrite (colget_cons OpsR). cbn [add OpsR].
  destruct Hin as [<-|Hin].
  - rewrite Nat.eqb_refl. rewrite (colget_zero OpsR).
    + cbn [add zero OpsR]. ring.
    + intros e' He' E. specialize (Hlt (fst e') (in_map fst c e' He')). lia.
  - assert (Hne : (fst e =? fst en)%nat = false).
    { apply Nat.eqb_neq. specialize (Hlt (fst en) (in_map fst c en Hin)). lia. }
    rewrite Hne. apply IH; assumption.
Qed.

Lemma canonical_col_sorted (A : cscR) c :
  Canonical A -> In c (cols A) -> strict_lt (map fst c) = true.
Proof.
  intros HC Hc. unfold Canonical in HC. apply canonicalb_iff in HC. destruct HC as [_ HC].
  specialize (HC c Hc). apply col_canonb_iff in HC. destruct HC as [H _]. exact H.
Qed.

Lemma dense_col_zero (A : cscR) j :
  Canonical A -> (forall i, getR A i j = 0) -> col_zero A j.
Proof.
  intros HC Hz en Hen.
  destruct (Nat.lt_ge_cases j (length (cols A))) as [Hj|Hj].
  - rewrite <- (colget_sorted_in (nth j (cols A) []) en).
    + apply Hz.
    + apply (canonical_col_sorted A); [exact HC | apply nth_In; exact Hj].
    + exact Hen.
  - rewrite nth_overflow in Hen by exact Hj. destruct Hen.
Qed.

Lemma dense_row_zero (A : cscR) i :
  Canonical A -> (forall j, getR A i j = 0) -> row_zero A i.
Proof.
  intros HC Hz c en Hc Hen Hi.
  destruct (In_nth _ _ [] Hc) as [j [Hj Ec]].
  rewrite <- (colget_sorted_in c en).
  - rewrite Hi. rewrite <- Ec. exact (Hz j).
  - apply (canonical_col_sorted A); assumption.
  - exact Hen.
Qed.

Lemma zero_rowcol_dense_ok : stmt_zero_rowcol_dense.
Proof.
  intros S cs P q A b HS H1 WF CP CA r. split.
  - intros j Hj ZP1 ZP2 ZA.
    apply (zero_col_unscaled_ok S cs P q A b HS H1 WF j Hj).
    + apply dense_col_zero; assumption.
    + apply dense_row_zero; assumption.
    + apply dense_col_zero; assumption.
  - intros k off nn i Hin Hk Hi Hle Z.
    apply (zero_row_unscaled_ok S cs P q A b HS H1 WF k off nn i Hin Hk Hi Hle).
    apply dense_row_zero; assumption.
Qed.
