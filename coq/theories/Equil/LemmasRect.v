(** C10 proofs, part 4: rectification of the row scaling over the cones. *)
From Coq Require Import List Arith ZArith Reals Bool Lia Lra.
Import ListNotations.
Require Import Clarabel.Base.Ops Clarabel.Csc.Model Clarabel.Csc.Spec.
Require Import Clarabel.Equil.Model Clarabel.Equil.Spec Clarabel.Equil.LemmasBase.
Local Open Scope R_scope.

Lemma nth_firstn_lt {X} (l : list X) n i d : (i < n)%nat -> nth i (firstn n l) d = nth i l d.
Proof.
  revert n i. induction l as [|a l IH]; intros n i H.
  - rewrite firstn_nil. reflexivity.
  - destruct n as [|n]; [lia|]. destruct i as [|i]; cbn [firstn nth]; [reflexivity|].
    apply IH. lia.
Qed.
Lemma nth_skipn_add {X} (l : list X) n i d : nth i (skipn n l) d = nth (n + i) l d.
Proof.
  revert n. induction l as [|a l IH]; intros n.
  - rewrite skipn_nil. destruct i, n; reflexivity.
  - destruct n as [|n]; cbn [skipn Nat.add nth]; [reflexivity|]. apply IH.
Qed.
Lemma skipn_add {X} (l : list X) a b : skipn a (skipn b l) = skipn (b + a) l.
Proof.
  revert l. induction b as [|b IH]; intros l; cbn [Nat.add skipn]; [reflexivity|].
  destruct l as [|x l]; [rewrite skipn_nil; reflexivity|]. apply IH.
Qed.
Lemma in_skipn {X} (l : list X) n x : In x (skipn n l) -> In x l.
Proof.
  revert l. induction n as [|n IH]; intros l H; [exact H|].
  destruct l as [|a l]; [exact H|]. right. apply IH. exact H.
Qed.
Lemma in_firstn {X} (l : list X) n x : In x (firstn n l) -> In x l.
Proof.
  revert l. induction n as [|n IH]; intros l H; [destruct H|].
  destruct l as [|a l]; [destruct H|]. destruct H as [H|H]; [left; exact H | right; apply IH; exact H].
Qed.

Definition rshift (b : nat) (x : ckind * nat * nat) : ckind * nat * nat :=
  match x with (k, o, n) => (k, (b + o)%nat, n) end.

Lemma cone_ranges_map cs base : cone_ranges base cs = map (rshift base) (cone_ranges 0 cs).
Proof.
  revert base. induction cs as [|[k0 n0] r IH]; intros base; [reflexivity|].
  cbn [cone_ranges map rshift]. f_equal; [f_equal; f_equal; lia|].
  rewrite (IH (base + n0)%nat), (IH (0 + n0)%nat), map_map.
  apply map_ext. intros [[k o] n]. cbn [rshift]. f_equal. f_equal. lia.
Qed.

Lemma cone_ranges_shift cs base k off nn :
  In (k, off, nn) (cone_ranges base cs) ->
  exists off', off = (base + off')%nat /\ In (k, off', nn) (cone_ranges 0 cs).
Proof.
  rewrite cone_ranges_map. intros H. apply in_map_iff in H.
  destruct H as [[[k' o'] n'] [E H]]. cbn [rshift] in E. inversion E; subst.
  exists o'. split; [reflexivity | exact H].
Qed.

(** ** one cone *)
Lemma rectify_cone_length k e : length (fst (rectify_cone OpsR k e)) = length e.
Proof.
  unfold rectify_cone. destruct (scalar_kind k); cbn [fst].
  - apply ones_length.
  - apply map_length.
Qed.

Lemma rectify_cone_nth k e i : (i < length e)%nat ->
  nth i (fst (rectify_cone OpsR k e)) 0 =
  if scalar_kind k then 1 else (1 / nth i e 0) * mean OpsR e.
Proof.
  intros Hi. unfold rectify_cone. destruct (scalar_kind k); cbn [fst].
  - apply nth_ones. exact Hi.
  - cbn [mul OpsR]. unfold recip. cbn [div one OpsR].
    rewrite (nth_indep _ 0 ((fun x => 1 / x * mean OpsR e) 0)) by (rewrite map_length; exact Hi).
    rewrite (map_nth (fun x => 1 / x * mean OpsR e)). reflexivity.
Qed.

Lemma rectify_cone_flag k e : snd (rectify_cone OpsR k e) = negb (scalar_kind k).
Proof. unfold rectify_cone. destruct (scalar_kind k); reflexivity. Qed.

(** ** the composite cone *)
Lemma rectify_cons k n r e :
  rectify OpsR ((k, n) :: r) e =
  (fst (rectify_cone OpsR k (firstn n e)) ++ fst (rectify OpsR r (skipn n e)),
   snd (rectify_cone OpsR k (firstn n e)) || snd (rectify OpsR r (skipn n e))).
Proof.
  cbn [rectify]. destruct (rectify_cone OpsR k (firstn n e)) as [dl c1].
  destruct (rectify OpsR r (skipn n e)) as [dr c2]. reflexivity.
Qed.

Lemma rectify_length cs e : length (fst (rectify OpsR cs e)) = length e.
Proof.
  revert e. induction cs as [|[k n] r IH]; intros e.
  - cbn [rectify fst]. apply ones_length.
  - rewrite rectify_cons. cbn [fst]. rewrite app_length, rectify_cone_length, IH.
    rewrite <- (firstn_skipn n e) at 3. rewrite app_length. reflexivity.
Qed.

(** nothing rectified: the multiplier is the identity *)
Lemma rectify_unchanged cs e :
  snd (rectify OpsR cs e) = false ->
  forall i, (i < length e)%nat -> nth i (fst (rectify OpsR cs e)) 0 = 1.
Proof.
  revert e. induction cs as [|[k n] r IH]; intros e Hf i Hi.
  - cbn [rectify fst]. apply nth_ones. exact Hi.
  - rewrite rectify_cons in Hf |- *. cbn [fst snd] in Hf |- *.
    apply orb_false_elim in Hf. destruct Hf as [Hf1 Hf2].
    rewrite rectify_cone_flag in Hf1. apply negb_false_iff in Hf1.
    pose proof (rectify_cone_length k (firstn n e)) as Ll.
    destruct (Nat.lt_ge_cases i (length (firstn n e))) as [Hlt|Hge].
    + rewrite app_nth1 by lia. rewrite rectify_cone_nth by exact Hlt. rewrite Hf1. reflexivity.
    + rewrite app_nth2 by lia. rewrite Ll. apply IH; [exact Hf2|].
      rewrite skipn_length. rewrite firstn_length in Hge |- *. lia.
Qed.

(** every multiplier is 1 or (1/e_i) * (mean of a non-empty part of e) *)
Lemma rectify_weak cs e i : (i < length e)%nat ->
  nth i (fst (rectify OpsR cs e)) 0 = 1 \/
  exists sl, sl <> [] /\ (forall x, In x sl -> In x e) /\
             nth i (fst (rectify OpsR cs e)) 0 = (1 / nth i e 0) * mean OpsR sl.
Proof.
  revert e i. induction cs as [|[k n] r IH]; intros e i Hi.
  - left. cbn [rectify fst]. apply nth_ones. exact Hi.
  - rewrite rectify_cons. cbn [fst].
    pose proof (rectify_cone_length k (firstn n e)) as Ll.
    destruct (Nat.lt_ge_cases i (length (firstn n e))) as [Hlt|Hge].
    + rewrite app_nth1 by lia. rewrite rectify_cone_nth by exact Hlt.
      destruct (scalar_kind k); [left; reflexivity|]. right.
      exists (firstn n e). split; [|split].
      * intros E. rewrite E in Hlt. cbn [length] in Hlt. lia.
      * intros x. apply in_firstn.
      * rewrite firstn_length in Hlt. rewrite nth_firstn_lt by lia. reflexivity.
    + rewrite app_nth2 by lia. rewrite Ll.
      rewrite firstn_length in Hge.
      assert (Hn : (n <= length e)%nat) by lia.
      replace (length (firstn n e)) with n by (rewrite firstn_length; lia).
      destruct (IH (skipn n e) (i - n)%nat) as [H1|[sl [Hne [Hin Hv]]]].
      * rewrite skipn_length. lia.
      * left. exact H1.
      * right. exists sl. split; [exact Hne|]. split.
        -- intros x Hx. apply (in_skipn e n). apply Hin. exact Hx.
        -- rewrite Hv. rewrite nth_skipn_add. replace (n + (i - n))%nat with i by lia. reflexivity.
Qed.

(** the multiplier over the rows of one cone *)
Lemma rectify_range cs e k off nn :
  In (k, off, nn) (cone_ranges 0 cs) -> (off + nn <= length e)%nat ->
  forall i, (off <= i < off + nn)%nat ->
    nth i (fst (rectify OpsR cs e)) 0 =
    if scalar_kind k then 1 else (1 / nth i e 0) * mean OpsR (firstn nn (skipn off e)).
Proof.
  revert e off. induction cs as [|[k0 n0] r IH]; intros e off Hin Hle i Hi; [destruct Hin|].
  cbn [cone_ranges] in Hin. rewrite rectify_cons. cbn [fst].
  pose proof (rectify_cone_length k0 (firstn n0 e)) as Ll.
  destruct Hin as [Hin|Hin].
  - inversion Hin; subst k0 off n0. cbn [Nat.add] in Hle, Hi.
    assert (Lf : length (firstn nn e) = nn) by (rewrite firstn_length; lia).
    rewrite app_nth1 by lia. rewrite rectify_cone_nth by lia.
    cbn [skipn]. rewrite nth_firstn_lt by lia. reflexivity.
  - apply cone_ranges_shift in Hin. destruct Hin as [off' [-> Hin]]. cbn [Nat.add] in *.
    assert (Lf : length (firstn n0 e) = n0) by (rewrite firstn_length; lia).
    rewrite app_nth2 by lia. rewrite Ll, Lf.
    rewrite (IH (skipn n0 e) off' Hin) with (i := (i - n0)%nat).
    + rewrite nth_skipn_add, skipn_add. replace (n0 + (i - n0))%nat with i by lia. reflexivity.
    + rewrite skipn_length. lia.
    + lia.
Qed.
