(** Statements (only) of the C10 theorems: the equilibration model of Equil/Model.v,
    interpreted over the reals ([OpsR]), is an exact, bounded, cone-preserving positive
    diagonal change of variables.  Proofs are in Equil/Lemmas*.v; Props/C10.v closes each
    statement with [exact].

    Notation used in every statement: [r := setup OpsR S cs P q A b] is what
    [DefaultSolver::new] leaves in [solver.data] ([P], [q], [A], [b] the user's data after
    presolve, [cs] the cones, [S] the equilibrate_* settings); [n = nc A] variables,
    [m = nr A] constraint rows; [d], [e], [c] the RETURNED scalings [r.equilibration.{d,e,c}].
    Dense meaning of a sparse matrix is [get] of Csc/Model.v (C16). *)
From Coq Require Import List Arith ZArith Reals Bool.
Import ListNotations.
Require Import Clarabel.Base.Ops Clarabel.Csc.Model Clarabel.Csc.Spec Clarabel.Equil.Model.
Local Open Scope R_scope.

Notation cscR := (@csc R).
Notation getR := (get OpsR).
Definition nthR (l : list R) (i : nat) : R := nth i l 0.

(** dimensions of the data agree (what [_check_dimensions] asserts) and the column lists
    have the declared length *)
Definition WFdata (P : cscR) (q : list R) (A : cscR) (b : list R) : Prop :=
  WellDim P /\ WellDim A /\ nc P = nc A /\ nr P = nc A /\
  length q = nc A /\ length b = nr A.

Definition SettingsOk (S : @settings R) : Prop := 0 < eq_min S /\ eq_min S <= eq_max S.
Definition OneInRange (S : @settings R) : Prop := eq_min S <= 1 /\ 1 <= eq_max S.
(** settings in either order: only positivity is asked; [slo], [shi] are the smaller and the larger
    of the two bounds *)
Definition SettingsPos (S : @settings R) : Prop := 0 < eq_min S /\ 0 < eq_max S.
Definition slo (S : @settings R) : R := Rmin (eq_min S) (eq_max S).
Definition shi (S : @settings R) : R := Rmax (eq_min S) (eq_max S).
Definition OneInRangeGen (S : @settings R) : Prop := slo S <= 1 /\ 1 <= shi S.

(** all stored entries of column [j] are zero / all stored entries in row [i] are zero *)
Definition col_zero (A : cscR) (j : nat) : Prop :=
  forall en, In en (nth j (cols A) []) -> snd en = 0.
Definition row_zero (A : cscR) (i : nat) : Prop :=
  forall c en, In c (cols A) -> In en c -> fst en = i -> snd en = 0.

Definition within (lo hi x : R) : Prop := lo <= x /\ x <= hi.

(** 1. exactness: the internal data are c*D*P*D, E*A*D, c*D*q, E*b entry for entry, with the
    returned d, e, c; the stored inverses are the reciprocals.  Holds for every setting
    (including disabled, any max_iter, any min/max). *)
Definition stmt_equil_exact : Prop :=
  forall (S : @settings R) (cs : list cone) (P : cscR) q (A : cscR) b,
    WFdata P q A b ->
    let r := setup OpsR S cs P q A b in
    let d := ed (peq r) in let e := ee (peq r) in let c := ec (peq r) in
    let n := nc A in let m := nr A in
    length d = n /\ length e = m /\ length (pq r) = n /\ length (pb r) = m /\
    nr (pP r) = n /\ nc (pP r) = n /\ nr (pA r) = m /\ nc (pA r) = n /\
    (forall i j, (i < n)%nat -> (j < n)%nat ->
        getR (pP r) i j = c * (nthR d i * getR P i j * nthR d j)) /\
    (forall i j, (i < m)%nat -> (j < n)%nat ->
        getR (pA r) i j = nthR e i * getR A i j * nthR d j) /\
    (forall j, (j < n)%nat -> nthR (pq r) j = c * (nthR d j * nthR q j)) /\
    (forall i, (i < m)%nat -> nthR (pb r) i = nthR e i * nthR b i) /\
    edinv (peq r) = map (fun x => 1 / x) d /\
    eeinv (peq r) = map (fun x => 1 / x) e.

(** the change of variables is positive (so D, E are invertible and dinv*d = einv*e = 1) *)
Definition stmt_equil_positive : Prop :=
  forall (S : @settings R) (cs : list cone) (P : cscR) q (A : cscR) b,
    SettingsOk S -> WFdata P q A b ->
    let r := setup OpsR S cs P q A b in
    let n := nc A in let m := nr A in
    (forall j, (j < n)%nat -> 0 < nthR (ed (peq r)) j /\ nthR (edinv (peq r)) j * nthR (ed (peq r)) j = 1) /\
    (forall i, (i < m)%nat -> 0 < nthR (ee (peq r)) i /\ nthR (eeinv (peq r)) i * nthR (ee (peq r)) i = 1) /\
    0 < ec (peq r).

(** 2. bounds.  What the code guarantees: every cumulative factor is in [min,max] provided
    the identity scaling it starts from is (min <= 1 <= max) ... *)
Definition stmt_equil_bounds : Prop :=
  forall (S : @settings R) (cs : list cone) (P : cscR) q (A : cscR) b,
    SettingsOk S -> OneInRange S -> WFdata P q A b ->
    let r := setup OpsR S cs P q A b in
    (forall j, (j < nc A)%nat -> within (eq_min S) (eq_max S) (nthR (ed (peq r)) j)) /\
    (forall i, (i < nr A)%nat -> within (eq_min S) (eq_max S) (nthR (ee (peq r)) i)) /\
    within (eq_min S) (eq_max S) (ec (peq r)).
(** ... and for any 0 < min <= max once at least one Ruiz pass has run (d, e; c only if its
    guard fired, otherwise it is still 1) *)
Definition stmt_equil_bounds_iter : Prop :=
  forall (S : @settings R) (cs : list cone) (P : cscR) q (A : cscR) b,
    SettingsOk S -> eq_enable S = true -> (1 <= eq_max_iter S)%nat -> WFdata P q A b ->
    let r := setup OpsR S cs P q A b in
    (forall j, (j < nc A)%nat -> within (eq_min S) (eq_max S) (nthR (ed (peq r)) j)) /\
    (forall i, (i < nr A)%nat -> within (eq_min S) (eq_max S) (nthR (ee (peq r)) i)) /\
    (within (eq_min S) (eq_max S) (ec (peq r)) \/ ec (peq r) = 1).
(** 2'. the same for ANY positive min, max, in either order ([slo] = the smaller, [shi] = the
    larger): nothing in the code orders them *)
Definition stmt_equil_bounds_gen : Prop :=
  forall (S : @settings R) (cs : list cone) (P : cscR) q (A : cscR) b,
    SettingsPos S -> WFdata P q A b ->
    let r := setup OpsR S cs P q A b in
    (OneInRangeGen S \/ (eq_enable S = true /\ (1 <= eq_max_iter S)%nat) ->
       (forall j, (j < nc A)%nat -> within (slo S) (shi S) (nthR (ed (peq r)) j)) /\
       (forall i, (i < nr A)%nat -> within (slo S) (shi S) (nthR (ee (peq r)) i)) /\
       (within (slo S) (shi S) (ec (peq r)) \/ (~ OneInRangeGen S /\ ec (peq r) = 1))) /\
    (forall j, (j < nc A)%nat -> 0 < nthR (ed (peq r)) j) /\
    (forall i, (i < nr A)%nat -> 0 < nthR (ee (peq r)) i) /\ 0 < ec (peq r).
(** min > max: the clip [if x < lo {lo} else if x > hi {hi} else {x}] called with lo > hi never
    returns x, so after at least one pass every column scaling is exactly min or exactly max, and so
    is c once its guard has fired *)
Definition stmt_equil_swapped_two_valued : Prop :=
  forall (S : @settings R) (cs : list cone) (P : cscR) q (A : cscR) b,
    0 < eq_max S -> eq_max S < eq_min S -> eq_enable S = true -> (1 <= eq_max_iter S)%nat ->
    WFdata P q A b ->
    let r := setup OpsR S cs P q A b in
    (forall j, (j < nc A)%nat -> nthR (ed (peq r)) j = eq_min S \/ nthR (ed (peq r)) j = eq_max S) /\
    (ec (peq r) = eq_min S \/ ec (peq r) = eq_max S \/ ec (peq r) = 1).
(** equilibrate_max_iter = 0 (any min/max, any cones): the identity, also through the
    rectification pass *)
Definition stmt_max_iter_zero_identity : Prop :=
  forall (S : @settings R) (cs : list cone) (P : cscR) q (A : cscR) b,
    eq_max_iter S = 0%nat -> WFdata P q A b ->
    let r := setup OpsR S cs P q A b in
    pP r = P /\ pq r = q /\ ed (peq r) = ones OpsR (nc A) /\ ec (peq r) = 1 /\
    (forall i, (i < nr A)%nat -> nthR (ee (peq r)) i = 1 /\ nthR (pb r) i = nthR b i) /\
    (forall i j, (i < nr A)%nat -> getR (pA r) i j = getR A i j).
(** min = max = 1: every factor is 1 whatever the data and the number of passes, so the internal
    data are the user's data *)
Definition stmt_unit_bounds_identity : Prop :=
  forall (S : @settings R) (cs : list cone) (P : cscR) q (A : cscR) b,
    eq_min S = 1 -> eq_max S = 1 -> WFdata P q A b ->
    let r := setup OpsR S cs P q A b in
    (forall j, (j < nc A)%nat -> nthR (ed (peq r)) j = 1) /\
    (forall i, (i < nr A)%nat -> nthR (ee (peq r)) i = 1) /\ ec (peq r) = 1 /\
    (forall i j, (i < nc A)%nat -> (j < nc A)%nat -> getR (pP r) i j = getR P i j) /\
    (forall i j, (i < nr A)%nat -> (j < nc A)%nat -> getR (pA r) i j = getR A i j) /\
    (forall j, (j < nc A)%nat -> nthR (pq r) j = nthR q j) /\
    (forall i, (i < nr A)%nat -> nthR (pb r) i = nthR b i).

(** the literal statement (no condition on min/max) is false of the model *)
Definition stmt_equil_bounds_literal_refuted : Prop :=
  exists (S : @settings R) (cs : list cone) (P : cscR) q (A : cscR) b,
    SettingsOk S /\ eq_enable S = true /\ WFdata P q A b /\
    let r := setup OpsR S cs P q A b in
    ~ within (eq_min S) (eq_max S) (nthR (ed (peq r)) 0) /\
    ~ within (eq_min S) (eq_max S) (nthR (ee (peq r)) 0) /\
    ~ within (eq_min S) (eq_max S) (ec (peq r)).

(** 3. zero columns of [P;A] (P symmetric, stored as given: column j and row j of the stored
    triangle) keep d_j = 1; zero rows of A inside a Zero / nonnegative cone keep e_i = 1 *)
Definition stmt_zero_col_unscaled : Prop :=
  forall (S : @settings R) (cs : list cone) (P : cscR) q (A : cscR) b,
    SettingsOk S -> OneInRange S -> WFdata P q A b ->
    let r := setup OpsR S cs P q A b in
    forall j, (j < nc A)%nat -> col_zero P j -> row_zero P j -> col_zero A j ->
      nthR (ed (peq r)) j = 1.
Definition stmt_zero_row_unscaled : Prop :=
  forall (S : @settings R) (cs : list cone) (P : cscR) q (A : cscR) b,
    SettingsOk S -> OneInRange S -> WFdata P q A b ->
    let r := setup OpsR S cs P q A b in
    forall k off nn i, In (k, off, nn) (cone_ranges 0 cs) -> scalar_kind k = true ->
      (off <= i < off + nn)%nat -> (off + nn <= nr A)%nat -> row_zero A i ->
      nthR (ee (peq r)) i = 1.

(** the same in dense terms for canonical matrices (strictly increasing row indices, what
    [check_format] accepts): an all-zero column j of [P;A] -- P(i,j) = P(j,i) = 0 and A(i,j) = 0
    for all i -- keeps d_j = 1; an all-zero row of A in a Zero/nonnegative cone keeps e_i = 1 *)
Definition stmt_zero_rowcol_dense : Prop :=
  forall (S : @settings R) (cs : list cone) (P : cscR) q (A : cscR) b,
    SettingsOk S -> OneInRange S -> WFdata P q A b -> Canonical P -> Canonical A ->
    let r := setup OpsR S cs P q A b in
    (forall j, (j < nc A)%nat ->
       (forall i, getR P i j = 0) -> (forall i, getR P j i = 0) -> (forall i, getR A i j = 0) ->
       nthR (ed (peq r)) j = 1) /\
    (forall k off nn i, In (k, off, nn) (cone_ranges 0 cs) -> scalar_kind k = true ->
       (off <= i < off + nn)%nat -> (off + nn <= nr A)%nat -> (forall j, getR A i j = 0) ->
       nthR (ee (peq r)) i = 1).

(** 4. after rectification e is one positive constant over every cone that is not a product
    of scalar cones (so E restricted to that cone is a positive multiple of the identity and
    membership in the cone is unaffected); the stored inverse is constant as well *)
Definition stmt_cone_uniform : Prop :=
  forall (S : @settings R) (cs : list cone) (P : cscR) q (A : cscR) b,
    SettingsOk S -> eq_enable S = true -> WFdata P q A b ->
    let r := setup OpsR S cs P q A b in
    forall k off nn, In (k, off, nn) (cone_ranges 0 cs) -> scalar_kind k = false ->
      (off + nn <= nr A)%nat ->
      exists mu, 0 < mu /\
        forall i, (off <= i < off + nn)%nat ->
          nthR (ee (peq r)) i = mu /\ nthR (eeinv (peq r)) i = 1 / mu.

(** 5. with equilibration disabled nothing is touched and the scalings are the identity
    (any scalar type) *)
Definition stmt_disabled_identity {T} (O : Ops T) : Prop :=
  forall (S : @settings T) cs (P : csc) q (A : csc) b,
    eq_enable S = false ->
    let r := setup O S cs P q A b in
    pP r = P /\ pq r = q /\ pA r = A /\ pb r = b /\
    ed (peq r) = ones O (nc A) /\ edinv (peq r) = ones O (nc A) /\
    ee (peq r) = ones O (nr A) /\ eeinv (peq r) = ones O (nr A) /\ ec (peq r) = one O.
