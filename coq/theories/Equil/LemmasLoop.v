(** C10 proofs, part 5: invariants of the Ruiz loop (exactness, positivity and bounds,
    zero rows/columns). *)
From Coq Require Import List Arith ZArith Reals Bool Lia Lra.
Import ListNotations.
Require Import Clarabel.Base.Ops Clarabel.Csc.Model Clarabel.Csc.Spec.
Require Import Clarabel.Equil.Model Clarabel.Equil.Spec Clarabel.Equil.LemmasBase.
Require Import Clarabel.Equil.LemmasNorms Clarabel.Equil.LemmasStep.
Local Open Scope R_scope.

Section Loop.
Variable S : @settings R.
Variables (P0 : cscR) (q0 : list R) (A0 : cscR) (b0 : list R).
Variables n m : nat.

Lemma ruiz_ind (Inv : lstateR -> Prop) :
  (forall s, Dims n m s -> Inv s -> Inv (ruiz_step OpsR S s)) ->
  forall k s, Dims n m s -> Inv s ->
    Dims n m (ruiz OpsR S k s) /\ Inv (ruiz OpsR S k s).
Proof.
  intros Hstep. induction k as [|k IH]; intros s HD HI; cbn [ruiz]; [split; assumption|].
  apply IH.
  - destruct (step_facts S n m s HD) as [ct [HD' _]]. exact HD'.
  - apply Hstep; assumption.
Qed.

(** ** exactness *)
Definition Exact (s : lstateR) : Prop :=
  (forall i j, (i < n)%nat -> (j < n)%nat ->
      getR (lP s) i j = lc s * (nth i (ld s) 0 * getR P0 i j * nth j (ld s) 0)) /\
  (forall i j, (i < m)%nat -> (j < n)%nat ->
      getR (lA s) i j = nth i (le s) 0 * getR A0 i j * nth j (ld s) 0) /\
  (forall j, (j < n)%nat -> nth j (lq s) 0 = lc s * (nth j (ld s) 0 * nth j q0 0)) /\
  (forall i, (i < m)%nat -> nth i (lb s) 0 = nth i (le s) 0 * nth i b0 0).

Lemma exact_step s : Dims n m s -> Exact s -> Exact (ruiz_step OpsR S s).
Proof.
  intros HD (EP & EA & Eq & Eb).
  pose proof (dwv_length S n m s HD) as Ldw. pose proof (ewv_length S n m s HD) as Lew.
  destruct (step_facts S n m s HD) as (ct & HD' & GP & GA & Gq & Gb & Ed & Ee & Ec & _).
  destruct HD as (_ & _ & _ & _ & _ & _ & _ & _ & Hd & He).
  assert (Nd : forall j, (j < n)%nat ->
            nth j (ld (ruiz_step OpsR S s)) 0 = nth j (ld s) 0 * nth j (dwv S s) 0)
    by (intros j Hj; rewrite Ed; apply nth_hadamard; lia).
  assert (Ne : forall i, (i < m)%nat ->
            nth i (le (ruiz_step OpsR S s)) 0 = nth i (le s) 0 * nth i (ewv S s) 0)
    by (intros i Hi; rewrite Ee; apply nth_hadamard; lia).
  repeat split.
  - intros i j Hi Hj. rewrite GP, EP, Ec, !Nd by assumption. ring.
  - intros i j Hi Hj. rewrite GA, EA, Ne, Nd by assumption. ring.
  - intros j Hj. rewrite Gq, Eq, Ec, Nd by assumption. ring.
  - intros i Hi. rewrite Gb, Eb, Ne by assumption. ring.
Qed.

(** ** positivity and bounds *)
Definition Pos (s : lstateR) : Prop :=
  (forall j, (j < n)%nat -> 0 < nth j (ld s) 0) /\
  (forall i, (i < m)%nat -> 0 < nth i (le s) 0) /\ 0 < lc s.
Definition BndDE (s : lstateR) : Prop :=
  (forall j, (j < n)%nat -> within (slo S) (shi S) (nth j (ld s) 0)) /\
  (forall i, (i < m)%nat -> within (slo S) (shi S) (nth i (le s) 0)).

Lemma clip_cum_bounds x cum :
  SettingsPos S -> 0 < cum ->
  within (slo S) (shi S) (cum * clip OpsR x (eq_min S / cum) (eq_max S / cum)).
Proof. intros HS Hc. apply clip_cum_bounds_gen; assumption. Qed.

Lemma pos_step s : SettingsPos S -> Dims n m s -> Pos s ->
  let s' := ruiz_step OpsR S s in
  Pos s' /\ BndDE s' /\ (within (slo S) (shi S) (lc s') \/ lc s' = lc s).
Proof.
  intros HS HD (Pd & Pe & Pc). cbv zeta.
  pose proof (dwv_length S n m s HD) as Ldw. pose proof (ewv_length S n m s HD) as Lew.
  destruct (step_facts S n m s HD) as (ct & HD' & _ & _ & _ & _ & Ed & Ee & Ec & Hct & _).
  pose proof HD as HD0.
  destruct HD as (_ & _ & _ & _ & _ & _ & _ & _ & Hd & He).
  assert (Bd : forall j, (j < n)%nat ->
            within (slo S) (shi S) (nth j (ld (ruiz_step OpsR S s)) 0)).
  { intros j Hj. rewrite Ed, nth_hadamard by lia. rewrite (nth_dwv S n m s j HD0 Hj).
    apply increment_bounds; [exact HS | apply Pd; exact Hj]. }
  assert (Be : forall i, (i < m)%nat ->
            within (slo S) (shi S) (nth i (le (ruiz_step OpsR S s)) 0)).
  { intros i Hi. rewrite Ee, nth_hadamard by lia. rewrite (nth_ewv S n m s i HD0 Hi).
    apply increment_bounds; [exact HS | apply Pe; exact Hi]. }
  assert (Bc : within (slo S) (shi S) (lc (ruiz_step OpsR S s)) \/
               lc (ruiz_step OpsR S s) = lc s).
  { rewrite Ec. destruct Hct as [Hc1 | [x Hcx]]; [right; rewrite Hc1; ring | left; rewrite Hcx].
    apply clip_cum_bounds; assumption. }
  destruct HS as [Hm Hmm].
  assert (Hlo : 0 < slo S) by (unfold slo; apply Rmin_glb_lt; assumption).
  split; [|split; [split; assumption | exact Bc]].
  repeat split.
  - intros j Hj. destruct (Bd j Hj) as [H1 _]. lra.
  - intros i Hi. destruct (Be i Hi) as [H1 _]. lra.
  - destruct Bc as [[H1 _] | Hc]; [lra | rewrite Hc; lra].
Qed.

(** ** zero columns / rows *)
Definition ZeroCol (j : nat) (s : lstateR) : Prop :=
  col_zero (lP s) j /\ row_zero (lP s) j /\ col_zero (lA s) j /\ nth j (ld s) 0 = 1.
Definition ZeroRow (i : nat) (s : lstateR) : Prop :=
  row_zero (lA s) i /\ nth i (le s) 0 = 1.

Lemma zerocol_step j s : OneInRange S -> (j < n)%nat -> Dims n m s ->
  ZeroCol j s -> ZeroCol j (ruiz_step OpsR S s).
Proof.
  intros H1 Hj HD (ZP1 & ZP2 & ZA & Zd).
  pose proof (dwv_length S n m s HD) as Ldw.
  destruct (step_facts S n m s HD) as (ct & HD' & _ & _ & _ & _ & Ed & _ & _ & _ & K1 & K2 & K3 & _).
  split; [apply K1; exact ZP1 | split; [apply K2; exact ZP2 | split; [apply K3; exact ZA|]]].
  pose proof HD as HD0.
  destruct HD as (WP & WA & HP1 & HP2 & HA1 & HA2 & _ & _ & Hd & _).
  rewrite Ed, nth_hadamard by lia. rewrite (nth_dwv S n m s j HD0 Hj), Zd.
  unfold kkt_col_norms. cbn [fst].
  rewrite col_norms_no_reset_zero.
  - rewrite (increment_zero S H1). ring.
  - unfold WellDim in WA. lia.
  - rewrite col_norms_sym_length. lia.
  - apply col_norms_sym_zero; assumption.
  - exact ZA.
Qed.

Lemma zerorow_step i s : OneInRange S -> (i < m)%nat -> Dims n m s ->
  ZeroRow i s -> ZeroRow i (ruiz_step OpsR S s).
Proof.
  intros H1 Hi HD (ZA & Ze).
  pose proof (ewv_length S n m s HD) as Lew.
  destruct (step_facts S n m s HD) as (ct & HD' & _ & _ & _ & _ & _ & Ee & _ & _ & _ & _ & _ & K4).
  split; [apply K4; exact ZA|].
  pose proof HD as HD0.
  destruct HD as (_ & _ & _ & _ & _ & _ & _ & _ & _ & He).
  rewrite Ee, nth_hadamard by lia. rewrite (nth_ewv S n m s i HD0 Hi), Ze.
  unfold kkt_col_norms. cbn [snd]. rewrite row_norms_zero by exact ZA.
  rewrite (increment_zero S H1). ring.
Qed.

End Loop.
