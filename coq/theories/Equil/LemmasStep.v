(** C10 proofs, part 3: one pass of the Ruiz loop, and the loop invariants. *)
From Coq Require Import List Arith ZArith Reals Bool Lia Lra.
Import ListNotations.
Require Import Clarabel.Base.Ops Clarabel.Csc.Model Clarabel.Csc.Spec.
Require Import Clarabel.Csc.LemmasAlgBase Clarabel.Csc.LemmasAlg.
Require Import Clarabel.Equil.Model Clarabel.Equil.Spec Clarabel.Equil.LemmasBase Clarabel.Equil.LemmasNorms.
Local Open Scope R_scope.

Notation lstateR := (@lstate R).

Section Step.
Variable S : @settings R.
Variables n m : nat.

Definition Dims (s : lstateR) : Prop :=
  WellDim (lP s) /\ WellDim (lA s) /\ nc (lP s) = n /\ nr (lP s) = n /\
  nc (lA s) = n /\ nr (lA s) = m /\
  length (lq s) = n /\ length (lb s) = m /\ length (ld s) = n /\ length (le s) = m.

(** the increments applied by one pass *)
Definition dwv (s : lstateR) : list R :=
  map2 (increment OpsR S) (fst (kkt_col_norms OpsR (lP s) (lA s))) (ld s).
Definition ewv (s : lstateR) : list R :=
  map2 (increment OpsR S) (snd (kkt_col_norms OpsR (lP s) (lA s))) (le s).

Lemma kkt_lengths s : Dims s ->
  length (fst (kkt_col_norms OpsR (lP s) (lA s))) = n /\
  length (snd (kkt_col_norms OpsR (lP s) (lA s))) = m.
Proof.
  intros (WP & WA & HP1 & HP2 & HA1 & HA2 & _).
  unfold kkt_col_norms. cbn [fst snd]. split.
  - rewrite col_norms_no_reset_length, col_norms_sym_length.
    unfold WellDim in WA. rewrite WA, HA1, HP1. apply Nat.min_id.
  - rewrite row_norms_length. exact HA2.
Qed.

Lemma dwv_length s : Dims s -> length (dwv s) = n.
Proof.
  intros HD. destruct (kkt_lengths s HD) as [H1 _]. unfold dwv. rewrite map2_length, H1.
  destruct HD as (_ & _ & _ & _ & _ & _ & _ & _ & Hd & _). rewrite Hd. apply Nat.min_id.
Qed.
Lemma ewv_length s : Dims s -> length (ewv s) = m.
Proof.
  intros HD. destruct (kkt_lengths s HD) as [_ H1]. unfold ewv. rewrite map2_length, H1.
  destruct HD as (_ & _ & _ & _ & _ & _ & _ & _ & _ & He). rewrite He. apply Nat.min_id.
Qed.

Lemma nth_dwv s j : Dims s -> (j < n)%nat ->
  nth j (dwv s) 0 =
  increment OpsR S (nth j (fst (kkt_col_norms OpsR (lP s) (lA s))) 0) (nth j (ld s) 0).
Proof.
  intros HD Hj. destruct (kkt_lengths s HD) as [H1 _].
  destruct HD as (_ & _ & _ & _ & _ & _ & _ & _ & Hd & _).
  unfold dwv. apply nth_map2; lia.
Qed.
Lemma nth_ewv s i : Dims s -> (i < m)%nat ->
  nth i (ewv s) 0 =
  increment OpsR S (nth i (snd (kkt_col_norms OpsR (lP s) (lA s))) 0) (nth i (le s) 0).
Proof.
  intros HD Hi. destruct (kkt_lengths s HD) as [_ H1].
  destruct HD as (_ & _ & _ & _ & _ & _ & _ & _ & _ & He).
  unfold ewv. apply nth_map2; lia.
Qed.

Lemma mul0 : forall r c : nat, forall x : R, 0 * x = 0. Proof. intros; ring. Qed.

(** everything the invariants need to know about one pass *)
Lemma step_facts s : Dims s ->
  let s' := ruiz_step OpsR S s in
  let dw := dwv s in let ew := ewv s in
  exists ct,
    Dims s' /\
    (forall i j, getR (lP s') i j = getR (lP s) i j * (nth i dw 0 * nth j dw 0) * ct) /\
    (forall i j, getR (lA s') i j = getR (lA s) i j * (nth i ew 0 * nth j dw 0)) /\
    (forall j, (j < n)%nat -> nth j (lq s') 0 = nth j (lq s) 0 * nth j dw 0 * ct) /\
    (forall i, (i < m)%nat -> nth i (lb s') 0 = nth i (lb s) 0 * nth i ew 0) /\
    ld s' = hadamard OpsR (ld s) dw /\ le s' = hadamard OpsR (le s) ew /\
    lc s' = lc s * ct /\
    (ct = 1 \/ exists x, ct = clip OpsR x (eq_min S / lc s) (eq_max S / lc s)) /\
    (forall j, col_zero (lP s) j -> col_zero (lP s') j) /\
    (forall j, row_zero (lP s) j -> row_zero (lP s') j) /\
    (forall j, col_zero (lA s) j -> col_zero (lA s') j) /\
    (forall i, row_zero (lA s) i -> row_zero (lA s') i).
Proof.
  intros HD. pose proof (dwv_length s HD) as Ldw. pose proof (ewv_length s HD) as Lew.
  cbv zeta. unfold ruiz_step.
  change (map2 (increment OpsR S) (fst (kkt_col_norms OpsR (lP s) (lA s))) (ld s)) with (dwv s) in *.
  destruct (kkt_col_norms OpsR (lP s) (lA s)) as [nl nr_] eqn:Ek.
  assert (Edw : map2 (increment OpsR S) nl (ld s) = dwv s) by (unfold dwv; rewrite Ek; reflexivity).
  assert (Eew : map2 (increment OpsR S) nr_ (le s) = ewv s) by (unfold ewv; rewrite Ek; reflexivity).
  rewrite Edw, Eew. set (dw := dwv s) in *. set (ew := ewv s) in *.
  destruct HD as (WP & WA & HP1 & HP2 & HA1 & HA2 & Hq & Hb & Hd & He).
  set (P1 := lrscale OpsR (lP s) dw dw). set (A1 := lrscale OpsR (lA s) ew dw).
  assert (WP1 : WellDim P1) by (apply map_vals_welldim; exact WP).
  assert (WA1 : WellDim A1) by (apply map_vals_welldim; exact WA).
  destruct (map_vals_dims (fun i j v => mul OpsR v (mul OpsR (nth i dw (zero OpsR)) (nth j dw (zero OpsR)))) (lP s))
    as [DP1 [DP2 _]].
  destruct (map_vals_dims (fun i j v => mul OpsR v (mul OpsR (nth i ew (zero OpsR)) (nth j dw (zero OpsR)))) (lA s))
    as [DA1 [DA2 _]].
  fold (lrscale OpsR (lP s) dw dw) in DP1, DP2. fold (lrscale OpsR (lA s) ew dw) in DA1, DA2.
  fold P1 in DP1, DP2. fold A1 in DA1, DA2.
  destruct (map_vals_ok OpsR LawsR (lP s) dw dw 0 WP) as (_ & _ & _ & _ & GP1 & _).
  destruct (map_vals_ok OpsR LawsR (lA s) ew dw 0 WA) as (_ & _ & _ & _ & GA1 & _).
  fold P1 in GP1. fold A1 in GA1. cbn [mul zero OpsR] in GP1, GA1.
  assert (Hq1 : forall j, (j < n)%nat -> nth j (hadamard OpsR (lq s) dw) 0 = nth j (lq s) 0 * nth j dw 0)
    by (intros j Hj; apply nth_hadamard; lia).
  assert (Hb1 : forall i, (i < m)%nat -> nth i (hadamard OpsR (lb s) ew) 0 = nth i (lb s) 0 * nth i ew 0)
    by (intros i Hi; apply nth_hadamard; lia).
  assert (ZcP1 : forall j, col_zero (lP s) j -> col_zero P1 j)
    by (intros j; apply col_zero_map_vals; intros; cbn [mul OpsR]; ring).
  assert (ZrP1 : forall j, row_zero (lP s) j -> row_zero P1 j)
    by (intros j; apply row_zero_map_vals; intros; cbn [mul OpsR]; ring).
  assert (ZcA1 : forall j, col_zero (lA s) j -> col_zero A1 j)
    by (intros j; apply col_zero_map_vals; intros; cbn [mul OpsR]; ring).
  assert (ZrA1 : forall j, row_zero (lA s) j -> row_zero A1 j)
    by (intros j; apply row_zero_map_vals; intros; cbn [mul OpsR]; ring).
  destruct (negb (eqb OpsR (mean OpsR (col_norms OpsR P1)) (zero OpsR)) &&
            negb (eqb OpsR (norm_inf OpsR (hadamard OpsR (lq s) dw)) (zero OpsR))).
  - (* cost scaling applied *)
    set (ct := clip OpsR _ _ _).
    exists ct. cbn [lP lq lA lb ld le lc].
    destruct (map_vals_ok OpsR LawsR P1 dw dw ct WP1) as (GS & _).
    cbn [mul OpsR] in GS.
    destruct (map_vals_dims (fun _ _ v => mul OpsR v ct) P1) as [DS1 [DS2 _]].
    fold (scale OpsR P1 ct) in DS1, DS2.
    split; [|split; [|split; [|split; [|split; [|split; [|split; [|split; [|split; [|split; [|split; [|split]]]]]]]]]]].
    + unfold Dims. cbn [lP lq lA lb ld le lc].
      repeat split; try congruence.
      * apply map_vals_welldim; exact WP1.
      * rewrite vscale_length, hadamard_length. lia.
      * rewrite hadamard_length. lia.
      * rewrite hadamard_length. lia.
      * rewrite hadamard_length. lia.
    + intros i j. rewrite GS, GP1. reflexivity.
    + intros i j. rewrite GA1. reflexivity.
    + intros j Hj. rewrite nth_vscale, Hq1 by exact Hj. reflexivity.
    + exact Hb1.
    + reflexivity.
    + reflexivity.
    + reflexivity.
    + right. eexists. reflexivity.
    + intros j Hz. apply col_zero_map_vals; [intros; cbn [mul OpsR]; ring | apply ZcP1; exact Hz].
    + intros j Hz. apply row_zero_map_vals; [intros; cbn [mul OpsR]; ring | apply ZrP1; exact Hz].
    + exact ZcA1.
    + exact ZrA1.
  - exists 1. cbn [lP lq lA lb ld le lc].
    split; [|split; [|split; [|split; [|split; [|split; [|split; [|split; [|split; [|split; [|split; [|split]]]]]]]]]]].
    + unfold Dims. cbn [lP lq lA lb ld le lc].
      repeat split; try congruence.
      * rewrite hadamard_length. lia.
      * rewrite hadamard_length. lia.
      * rewrite hadamard_length. lia.
      * rewrite hadamard_length. lia.
    + intros i j. rewrite GP1. ring.
    + intros i j. rewrite GA1. reflexivity.
    + intros j Hj. rewrite Hq1 by exact Hj. ring.
    + exact Hb1.
    + reflexivity.
    + reflexivity.
    + ring.
    + left. reflexivity.
    + exact ZcP1.
    + exact ZrP1.
    + exact ZcA1.
    + exact ZrA1.
Qed.

End Step.
