(** C10 proofs, part 8: what the model does for out-of-the-ordinary settings (bounds in either
    order, min > max, equilibrate_max_iter = 0, min = max = 1). *)
From Coq Require Import List Arith ZArith Reals Bool Lia Lra.
Import ListNotations.
Require Import Clarabel.Base.Ops Clarabel.Csc.Model Clarabel.Csc.Spec.
Require Import Clarabel.Equil.Model Clarabel.Equil.Spec Clarabel.Equil.LemmasBase.
Require Import Clarabel.Equil.LemmasNorms Clarabel.Equil.LemmasStep Clarabel.Equil.LemmasRect.
Require Import Clarabel.Equil.LemmasLoop Clarabel.Equil.Lemmas.
Local Open Scope R_scope.

Lemma ruiz_last (S : @settings R) k s : ruiz OpsR S (Datatypes.S k) s = ruiz_step OpsR S (ruiz OpsR S k s).
Proof. revert s. induction k as [|k IH]; intros s; [reflexivity|]. cbn [ruiz] in *. rewrite <- IH. reflexivity. Qed.

Lemma equil_bounds_gen_ok : stmt_equil_bounds_gen.
Proof.
  intros S cs P q A b HS WF r. split.
  - intros [H1 | [Hen Hit]].
    + destruct (bounds_final S cs P q A b WF HS H1) as (B1 & B2 & B3).
      split; [exact B1 | split; [exact B2 | left; exact B3]].
    + destruct (bounds_iter_final S cs P q A b WF HS Hen Hit) as (B1 & B2 & B3).
      split; [exact B1 | split; [exact B2 |]].
      destruct B3 as [B3 | B3]; [left; exact B3|].
      destruct (Rle_dec (slo S) 1) as [L|L]; [destruct (Rle_dec 1 (shi S)) as [U|U]|].
      * left. fold r in B3. rewrite B3. split; assumption.
      * right. split; [intros [_ X]; contradiction | exact B3].
      * right. split; [intros [X _]; contradiction | exact B3].
  - destruct (positive_final S cs P q A b WF HS) as (Pd & Pe & Pc).
    split; [intros j Hj; apply (Pd j Hj) | split; [intros i Hi; apply (Pe i Hi) | exact Pc]].
Qed.

Lemma swapped_c_three_valued (S : @settings R) (P : cscR) q (A : cscR) b :
  WFdata P q A b -> 0 < eq_max S -> eq_max S < eq_min S ->
  forall k, let c := lc (ruiz OpsR S k (s0 P q A b)) in
    c = eq_min S \/ c = eq_max S \/ c = 1.
Proof.
  intros WF HM Hsw. assert (HS : SettingsPos S) by (split; lra).
  induction k as [|k IH]; [right; right; reflexivity|]. cbv zeta in *.
  rewrite ruiz_last.
  set (sk := ruiz OpsR S k (s0 P q A b)) in *.
  destruct (ruiz_ind S (nc A) (nr A) (Pos (nc A) (nr A))
              (fun s HD HP => proj1 (pos_step S (nc A) (nr A) s HS HD HP)) k
              (s0 P q A b) (dims_s0 P q A b WF) (pos_s0 P q A b)) as [HD HP].
  fold sk in HD, HP. destruct HP as (_ & _ & Pc).
  destruct (step_facts S (nc A) (nr A) sk HD) as (ct & _ & _ & _ & _ & _ & _ & _ & Ec & Hct & _).
  rewrite Ec. destruct Hct as [Hc1 | [x Hcx]].
  - rewrite Hc1, Rmult_1_r. exact IH.
  - rewrite Hcx. destruct (clip_swapped x (eq_min S / lc sk) (eq_max S / lc sk)) as [E|E].
    + unfold Rdiv. apply Rmult_lt_compat_r; [apply Rinv_0_lt_compat; exact Pc | exact Hsw].
    + left. rewrite E. field. lra.
    + right. left. rewrite E. field. lra.
Qed.

Lemma equil_swapped_two_valued_ok : stmt_equil_swapped_two_valued.
Proof.
  intros S cs P q A b HM Hsw Hen Hit WF r.
  assert (HS : SettingsPos S) by (split; lra).
  set (n := nc A). set (m := nr A).
  destruct (setup_enabled S cs P q A b WF Hen) as (_ & _ & E3 & E4 & _).
  fold r in E3, E4. rewrite E3, E4. unfold nthR. split.
  - unfold sN. destruct (eq_max_iter S) as [|k]; [lia|]. rewrite ruiz_last.
    set (sk := ruiz OpsR S k (s0 P q A b)).
    destruct (ruiz_ind S n m (Pos n m) (fun s HD HP => proj1 (pos_step S n m s HS HD HP)) k
                (s0 P q A b) (dims_s0 P q A b WF) (pos_s0 P q A b)) as [HD HP].
    fold sk in HD, HP. destruct HP as (Pd & _ & _).
    pose proof (dwv_length S n m sk HD) as Ldw.
    destruct (step_facts S n m sk HD) as (ct & _ & _ & _ & _ & _ & Ed & _).
    pose proof HD as HD0. destruct HD as (_ & _ & _ & _ & _ & _ & _ & _ & Hd & _).
    intros j Hj. rewrite Ed, nth_hadamard by lia. rewrite (nth_dwv S n m sk j HD0 Hj).
    pose proof (Pd j Hj) as Hp. unfold increment. cbn [div OpsR].
    set (x := rsqrt OpsR (zero_to_one OpsR (nth j (fst (kkt_col_norms OpsR (lP sk) (lA sk))) 0))).
    destruct (clip_swapped x (eq_min S / nth j (ld sk) 0) (eq_max S / nth j (ld sk) 0)) as [E|E].
    + unfold Rdiv. apply Rmult_lt_compat_r; [apply Rinv_0_lt_compat; exact Hp | exact Hsw].
    + left. rewrite E. field. lra.
    + right. rewrite E. field. lra.
  - apply (swapped_c_three_valued S P q A b WF HM Hsw (eq_max_iter S)).
Qed.

Lemma mean_all_one sl : sl <> [] -> (forall x, In x sl -> x = 1) -> mean OpsR sl = 1.
Proof.
  intros Hne H. destruct (mean_bounds 1 1 sl Hne) as [A B]; [|lra].
  intros v Hv. rewrite (H v Hv). lra.
Qed.

Lemma max_iter_zero_identity_ok : stmt_max_iter_zero_identity.
Proof.
  intros S cs P q A b Hit WF r.
  destruct (eq_enable S) eqn:Hen.
  - destruct (setup_enabled S cs P q A b WF Hen) as (E1 & E2 & E3 & E4 & _ & _ & _ & _ & _ & _ & Ne & Nb & NA).
    fold r in E1, E2, E3, E4, Ne, Nb, NA.
    assert (EsN : sN S P q A b = s0 P q A b) by (unfold sN; rewrite Hit; reflexivity).
    rewrite EsN in *. unfold s0 in E1, E2, E3, E4. cbn [lP lq ld lc] in E1, E2, E3, E4.
    assert (Dl : forall i, (i < nr A)%nat -> nth i (delta S cs P q A b) 0 = 1).
    { intros i Hi. unfold delta. rewrite EsN. unfold s0. cbn [le].
      destruct (rectify_weak cs (ones OpsR (nr A)) i) as [H1|[sl [Hne [Hin Hv]]]].
      - rewrite ones_length. exact Hi.
      - exact H1.
      - rewrite Hv, nth_ones by exact Hi. rewrite mean_all_one; [field | exact Hne |].
        intros x Hx. specialize (Hin x Hx). unfold ones in Hin. apply repeat_spec in Hin. exact Hin. }
    repeat split; try assumption.
    + unfold nthR. rewrite Ne by assumption. unfold s0. cbn [le]. rewrite nth_ones, Dl by assumption. ring.
    + unfold nthR. rewrite Nb by assumption. unfold s0. cbn [lb]. rewrite Dl by assumption. ring.
    + intros i j Hi. rewrite NA by assumption. unfold s0. cbn [lA]. rewrite Dl by assumption. ring.
  - unfold r. rewrite (setup_disabled S cs P q A b Hen). cbn [pP pq pA pb peq ed ee ec].
    unfold nthR. repeat split; try reflexivity. apply nth_ones. assumption.
Qed.

Lemma unit_bounds_identity_ok : stmt_unit_bounds_identity.
Proof.
  intros S cs P q A b Hmin Hmax WF r.
  assert (HS : SettingsOk S) by (unfold SettingsOk; rewrite Hmin, Hmax; lra).
  assert (H1 : OneInRange S) by (unfold OneInRange; rewrite Hmin, Hmax; lra).
  destruct (equil_bounds_ok S cs P q A b HS H1 WF) as (Bd & Be & Bc). fold r in Bd, Be, Bc.
  rewrite Hmin, Hmax in Bd, Be, Bc. unfold within in Bd, Be, Bc.
  assert (Ed : forall j, (j < nc A)%nat -> nthR (ed (peq r)) j = 1) by (intros j Hj; destruct (Bd j Hj); lra).
  assert (Ee : forall i, (i < nr A)%nat -> nthR (ee (peq r)) i = 1) by (intros i Hi; destruct (Be i Hi); lra).
  assert (Ec : ec (peq r) = 1) by lra.
  destruct (equil_exact_ok S cs P q A b WF) as (_ & _ & _ & _ & _ & _ & _ & _ & XP & XA & Xq & Xb & _).
  fold r in XP, XA, Xq, Xb.
  split; [exact Ed | split; [exact Ee | split; [exact Ec|]]].
  split; [|split; [|split]].
  - intros i j Hi Hj. rewrite XP, Ec, !Ed by assumption. ring.
  - intros i j Hi Hj. rewrite XA, Ee, Ed by assumption. ring.
  - intros j Hj. rewrite Xq, Ec, Ed by assumption. ring.
  - intros i Hi. rewrite Xb, Ee by assumption. ring.
Qed.
