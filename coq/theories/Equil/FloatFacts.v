(** C10 at binary64: the model of Equil/Model.v evaluated at [OpsF] (Coq's primitive floats =
    IEEE binary64, the arithmetic the Rust code runs; the correspondence run demands BITWISE
    equality of this evaluation with the implementation on every generated problem).

    The theorems of Equil/Spec.v are about the reals.  Three of their conclusions do not survive
    rounding literally; this file says exactly which, by witnesses evaluated with [vm_compute]
    (statements [stmt_f9_*]; Props/C10.v names them [C10_F9_*_refuted]) and locates the
    operation that rounds:

    1. bounds, clip-then-multiply:  [cum * clip(x, min/cum, max/cum)] is computed as
       fl(cum * fl(max/cum)) when the clip engages at the upper end, and that product can be
       one ulp above [max] when [cum] is a generic number (it is exact when cum = 1 -- the
       first pass -- or when cum is a power of two).
    2. bounds, rectification:  the rows of a cone that were all clipped to [min] are replaced by
       e_i * ((1/e_i) * mean e); the mean of six copies of 0.1 is fl(fl(sum)/6) = pred(0.1).
    3. uniformity: e_i * fl(fl(1/e_i) * mu) equals mu when e_i is 1 (or any power of two: both
       products are exact) but not in general: with e = [0.1; 1; 1] the first row is one ulp
       above the other two.  If the Ruiz scalings of a block are already
       bit-identical the rectified block is bit-constant ([rect_block_const], any [Ops]).

    Also: what the model does for the out-of-the-ordinary settings (max_iter = 0,
    min = max = 1, min > max, huge bounds), at binary64. *)
From Coq Require Import List Arith ZArith NArith Bool Floats.
Import ListNotations.
Require Import Clarabel.Base.Ops Clarabel.Csc.Model Clarabel.Equil.Model.

Definition f01 : float := 0xccccccccccccdp-55.   (* the binary64 nearest to 0.1 *)
Definition fbits (x y : float) : bool :=
  match PrimFloat.compare x y with FEq => true | _ => false end.
Definition fl_lt (x y : float) : bool := PrimFloat.ltb x y.
Fixpoint list_beq_f (a b : list float) : bool :=
  match a, b with
  | [], [] => true
  | x :: a', y :: b' => fbits x y && list_beq_f a' b'
  | _, _ => false
  end.
Fixpoint list_beq {X} (f : X -> X -> bool) (a b : list X) : bool :=
  match a, b with
  | [], [] => true
  | x :: a', y :: b' => f x y && list_beq f a' b'
  | _, _ => false
  end.
Definition csc_beq (a b : @csc float) : bool :=
  Nat.eqb (nr a) (nr b) && Nat.eqb (nc a) (nc b) &&
  list_beq (list_beq (fun x y : nat * float => Nat.eqb (fst x) (fst y) && fbits (snd x) (snd y))) (cols a) (cols b).

Definition Sf (iters : nat) (lo hi : float) : @settings float := mkSettings true iters lo hi.
Definition P1 : @csc float := mkCsc 1 1 [[]].
(** one column, [m] rows, the listed (row, value) entries *)
Definition Acol (m : nat) (es : list (nat * float)) : @csc float := mkCsc m 1 [es].
Definition efin (S : @settings float) cs (P : @csc float) q (A : @csc float) b : list float :=
  ee (peq (setup OpsF S cs P q A b)).

(** ** the rectified block, as a function of the block of Ruiz scalings *)
Section Block.
Context {T : Type} (O : Ops T).
Definition rect_block (k : ckind) (e : list T) : list T :=
  hadamard O e (fst (rectify_cone O k e)).

Lemma map2_repeat (f : T -> T -> T) a b n :
  map2 f (repeat a n) (repeat b n) = repeat (f a b) n.
Proof. unfold map2. induction n as [|n IH]; cbn [repeat combine map fst snd]; [reflexivity|]. f_equal. exact IH. Qed.
Lemma map_repeat' (f : T -> T) a n : map f (repeat a n) = repeat (f a) n.
Proof. induction n as [|n IH]; cbn [repeat map]; [reflexivity|]. f_equal. exact IH. Qed.

(** a block whose Ruiz scalings are all the same value stays constant, in any arithmetic *)
Lemma rect_block_const (k : ckind) (x : T) (n : nat) :
  exists v, rect_block k (repeat x n) = repeat v n.
Proof.
  unfold rect_block, rectify_cone, hadamard. destruct (scalar_kind k); cbn [fst].
  - unfold ones. rewrite repeat_length, map2_repeat. eexists; reflexivity.
  - rewrite map_repeat', map2_repeat. eexists; reflexivity.
Qed.
End Block.

(** ** 1. clip-then-multiply can end one ulp above max *)
Definition w1P : @csc float :=
  mkCsc 2 2 [[(0, 0x177b4e8da50eabp-45%float)]; [(1, 0x1925e45a24e951p-52%float)]].
Definition w1A : @csc float := mkCsc 1 2 [[(0, 0x121e84c66f273fp-65%float)]; []].
Definition w1q : list float := [0%float; 0%float].
Definition w1b : list float := [0x5cb0f64c201p-42%float].
Definition w1cs : list cone := [(KNonneg, 1)].
(** the row scaling after one pass (a generic number, about 85.05) and after two *)
Definition w1_e1 : float :=
  nth 0 (le (ruiz OpsF (Sf 2 f01 100) 1 (mkL w1P w1q w1A w1b (ones OpsF 2) (ones OpsF 1) 1%float))) 0%float.
Definition w1_e2 : float := nth 0 (efin (Sf 2 f01 100) w1cs w1P w1q w1A w1b) 0%float.

Definition stmt_f9_clip_multiply : Prop :=
  (* the model's final e_0 exceeds max = 100 ... *)
  fl_lt 100 w1_e2 = true /\
  (* ... it is the product of the previous cumulative value with the clipped increment
     fl(max / cum), nothing else *)
  fbits w1_e2 (PrimFloat.mul w1_e1 (PrimFloat.div 100 w1_e1)) = true /\
  (* ... and it is exactly one ulp above max *)
  fbits w1_e2 (PrimFloat.next_up 100) = true /\
  (* with cum = 1 (first pass) or a power of two the product is exact *)
  fbits (PrimFloat.mul 1 (PrimFloat.div 100 1)) 100 = true /\
  fbits (PrimFloat.mul 64 (PrimFloat.div 100 64)) 100 = true.
Lemma f9_clip_multiply_ok : stmt_f9_clip_multiply.
Proof. unfold stmt_f9_clip_multiply. repeat split; vm_compute; reflexivity. Qed.

(** ** 2. the mean of rows all clipped to min falls one ulp below min *)
Definition big : float := 0x1p+20.
Definition w2A : @csc float := Acol 6 [(0, big); (1, big); (2, big); (3, big); (4, big); (5, big)].
Definition w2e : list float := efin (Sf 1 f01 100) [(KSoc, 6)] P1 [0%float] w2A (repeat 0%float 6).

Definition stmt_f9_rectified_mean : Prop :=
  (* all six rows end strictly below min = 0.1, at its predecessor *)
  forallb (fun x => fl_lt x f01 && fbits x (PrimFloat.next_down f01)) w2e = true /\
  length w2e = 6 /\
  (* before rectification every row is exactly min (clipped at the first pass, cum = 1) *)
  forallb (fun x => fbits x f01)
          (le (ruiz OpsF (Sf 1 f01 100) 1 (mkL P1 [0%float] w2A (repeat 0%float 6) (ones OpsF 1) (ones OpsF 6) 1%float))) = true /\
  (* the operation that rounds: the mean.  fl-sum of six 0.1 is the binary64 0.6, and 0.6/6
     rounds to pred(0.1); the reciprocal and the two products are then exact enough to keep it *)
  fbits (vsum OpsF (repeat f01 6)) 0x13333333333333p-53 = true /\
  fbits (mean OpsF (repeat f01 6)) (PrimFloat.next_down f01) = true /\
  (* for three rows the mean rounds the other way (no violation) *)
  fl_lt f01 (mean OpsF (repeat f01 3)) = true.
Lemma f9_rectified_mean_ok : stmt_f9_rectified_mean.
Proof. unfold stmt_f9_rectified_mean. repeat split; vm_compute; reflexivity. Qed.

(** ** 3. e is not bit-constant over a rectified block *)
Definition w3A : @csc float := Acol 3 [(0, big)].
Definition w3e : list float := efin (Sf 1 f01 100) [(KSoc, 3)] P1 [0%float] w3A (repeat 0%float 3).
Definition w3mu : float := mean OpsF [f01; 1%float; 1%float].

Definition stmt_f9_not_bit_constant : Prop :=
  (* the Ruiz scalings of the block are [0.1; 1; 1] (row 0 clipped, rows 1, 2 all-zero) *)
  list_beq_f (le (ruiz OpsF (Sf 1 f01 100) 1 (mkL P1 [0%float] w3A (repeat 0%float 3) (ones OpsF 1) (ones OpsF 3) 1%float)))
             [f01; 1%float; 1%float] = true /\
  (* final e = the rectified block *)
  list_beq_f w3e (rect_block OpsF KSoc [f01; 1%float; 1%float]) = true /\
  (* rows with e_i = 1 reproduce the mean exactly, the row with e_i = 0.1 does not: it is one ulp
     above; the difference is made by fl(fl(1/0.1) * mu) and the final product *)
  fbits (nth 1 w3e 0%float) w3mu = true /\ fbits (nth 2 w3e 0%float) w3mu = true /\
  fbits (nth 0 w3e 0%float) (PrimFloat.next_up w3mu) = true /\
  fbits (nth 0 w3e 0%float) (PrimFloat.mul f01 (PrimFloat.mul (PrimFloat.div 1 f01) w3mu)) = true /\
  (* power-of-two scalings are harmless: [0.25; 1; 4] gives a bit-constant block *)
  (let r := rect_block OpsF KSoc [0x1p-2%float; 1%float; 0x1p+2%float] in
   fbits (nth 0 r 0%float) (nth 1 r 0%float) && fbits (nth 1 r 0%float) (nth 2 r 0%float)) = true.
Lemma f9_not_bit_constant_ok : stmt_f9_not_bit_constant.
Proof. unfold stmt_f9_not_bit_constant. repeat split; vm_compute; reflexivity. Qed.

(** ** what the out-of-the-ordinary settings do, at binary64 (instance w1: 2 variables, 1 row,
    badly scaled; instance w3 has a second-order cone, so the rectification pass runs) *)
Definition run1 (S : @settings float) := setup OpsF S w1cs w1P w1q w1A w1b.
Definition run3 (S : @settings float) := setup OpsF S [(KSoc, 3)] P1 [0%float] w3A (repeat 0%float 3).
Definition all1 (l : list float) : bool := forallb (fun x => fbits x 1%float) l.
Definition untouched1 (r : @pdata float) : bool :=
  csc_beq (pP r) w1P && csc_beq (pA r) w1A && list_beq_f (pq r) w1q && list_beq_f (pb r) w1b
  && all1 (ed (peq r)) && all1 (edinv (peq r)) && all1 (ee (peq r)) && all1 (eeinv (peq r))
  && fbits (ec (peq r)) 1%float.
Definition untouched3 (r : @pdata float) : bool :=
  csc_beq (pP r) P1 && csc_beq (pA r) w3A
  && all1 (ed (peq r)) && all1 (edinv (peq r)) && all1 (ee (peq r)) && all1 (eeinv (peq r))
  && fbits (ec (peq r)) 1%float.
Definition in2 (a b x : float) : bool := fbits x a || fbits x b.

Definition stmt_f_settings : Prop :=
  (* equilibrate_max_iter = 0: bitwise identity, also through the rectification pass (the
     multiplier (1/1)*mean(1,..,1) is exactly 1 and A, b, e are multiplied by it) *)
  untouched1 (run1 (Sf 0 f01 100)) = true /\ untouched3 (run3 (Sf 0 f01 100)) = true /\
  (* min = max = 1: every pass clips every increment to 1/cum = 1: bitwise identity *)
  untouched1 (run1 (Sf 10 1 1)) = true /\ untouched3 (run3 (Sf 50 1 1)) = true /\
  (* min > max: the clip (x < lo ? lo : x > hi ? hi : x) with lo > hi returns lo or hi, never x:
     after one pass every d and every scalar-cone e is min or max exactly (cum = 1) *)
  forallb (in2 10 f01) (ed (peq (run1 (Sf 1 10 f01)))) = true /\
  forallb (in2 10 f01) (ee (peq (run1 (Sf 1 10 f01)))) = true /\
  (* huge bounds in the usual order never engage: same result as with [1e-8, 1e8] here *)
  list_beq_f (ed (peq (run1 (Sf 10 0x1p-996 0x1p+996)))) (ed (peq (run1 (Sf 10 0x1p-26 0x1p+26)))) = true /\
  (* huge bounds swapped (min = 2^996 > max = 2^-996): d in {min,max}, and P̂ = d_i*P*d_j
     overflows: the internal data are not finite *)
  forallb (in2 0x1p+996 0x1p-996) (ed (peq (run1 (Sf 1 0x1p+996 0x1p-996)))) = true /\
  existsb (fun c => existsb (fun en : nat * float => PrimFloat.is_infinity (snd en)) c)
          (cols (pP (run1 (Sf 1 0x1p+996 0x1p-996)))) = true.
Lemma f_settings_ok : stmt_f_settings.
Proof. unfold stmt_f_settings. repeat split; vm_compute; reflexivity. Qed.
