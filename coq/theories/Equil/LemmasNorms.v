(** C10 proofs, part 2: lengths of the norm vectors, norms of all-zero rows/columns, and
    preservation of stored zeros by the scaling operations. *)
From Coq Require Import List Arith ZArith Reals Bool Lia Lra.
Import ListNotations.
Require Import Clarabel.Base.Ops Clarabel.Csc.Model Clarabel.Csc.Spec.
Require Import Clarabel.Csc.LemmasAlgBase Clarabel.Csc.LemmasAlg.
Require Import Clarabel.Equil.Model Clarabel.Equil.Spec Clarabel.Equil.LemmasBase.
Local Open Scope R_scope.

Lemma fold_left_inv {A B} (Inv : A -> Prop) (f : A -> B -> A) l a0 :
  (forall a x, In x l -> Inv a -> Inv (f a x)) -> Inv a0 -> Inv (fold_left f l a0).
Proof.
  revert a0. induction l as [|x l IH]; intros a0 H H0; cbn [fold_left]; [exact H0|].
  apply IH.
  - intros a y Hy. apply H. right; exact Hy.
  - apply H; [left; reflexivity | exact H0].
Qed.

Lemma set_nth_overflow {X} (l : list X) k x : (length l <= k)%nat -> set_nth l k x = l.
Proof.
  revert k. induction l as [|a l IH]; intros k H; destruct k as [|k]; cbn [set_nth]; auto.
  - cbn [length] in H. lia.
  - f_equal. apply IH. cbn [length] in H. lia.
Qed.

Lemma in_indexed_eq {X} (l : list X) (d : X) j c :
  In (j, c) (indexed l) -> (j < length l)%nat /\ c = nth j l d.
Proof.
  intros H. rewrite (indexed_eq l d) in H. apply in_map_iff in H.
  destruct H as [k [Hk Hin]]. inversion Hk; subst. apply in_seq in Hin. split; [lia|reflexivity].
Qed.

Definition updmax (s : list R) (k : nat) (v : R) : list R :=
  upd OpsR s k (fun t => maxabs OpsR t v).

Lemma updmax_length s k v : length (updmax s k v) = length s.
Proof. unfold updmax, upd. apply set_nth_length. Qed.

Lemma updmax_keep_zero s k v j :
  nth j s 0 = 0 -> (k = j -> v = 0) -> nth j (updmax s k v) 0 = 0.
Proof.
  intros Hs Hv. unfold updmax, upd. cbn [zero OpsR].
  destruct (Nat.lt_ge_cases k (length s)) as [Hk|Hk].
  - rewrite nth_set_nth by exact Hk. destruct (Nat.eqb_spec j k) as [E|E]; [|exact Hs].
    subst k. rewrite Hs, (Hv eq_refl). apply maxabs_zero.
  - rewrite set_nth_overflow by exact Hk. exact Hs.
Qed.

(** ** col_norms_sym *)
Lemma col_norms_sym_length (P : cscR) : length (col_norms_sym OpsR P) = nc P.
Proof.
  unfold col_norms_sym.
  apply (fold_left_inv (fun s : list R => length s = nc P)).
  - intros s jc _ Hs.
    apply (fold_left_inv (fun s : list R => length s = nc P)); [|exact Hs].
    intros s' e _ Hs'. change (length (updmax (updmax s' (fst jc) (snd e)) (fst e) (snd e)) = nc P).
    rewrite !updmax_length. exact Hs'.
  - apply repeat_length.
Qed.

Lemma col_norms_sym_zero (P : cscR) j :
  col_zero P j -> row_zero P j -> nth j (col_norms_sym OpsR P) 0 = 0.
Proof.
  intros Hc Hr. unfold col_norms_sym.
  apply (fold_left_inv (fun s : list R => nth j s 0 = 0)).
  - intros s jc Hjc Hs. destruct jc as [jj c]. cbn [fst snd].
    apply (in_indexed_eq (cols P) []) in Hjc. destruct Hjc as [Hjj Hceq].
    apply (fold_left_inv (fun s : list R => nth j s 0 = 0)); [|exact Hs].
    intros s' e He Hs'. change (nth j (updmax (updmax s' jj (snd e)) (fst e) (snd e)) 0 = 0).
    apply updmax_keep_zero.
    + apply updmax_keep_zero; [exact Hs'|]. intros ->. apply Hc. rewrite <- Hceq. exact He.
    + intros Hfe. apply (Hr c e); [|exact He|exact Hfe].
      rewrite Hceq. apply nth_In. exact Hjj.
  - cbn [zero OpsR]. apply nth_repeat.
Qed.

(** ** row_norms *)
Lemma row_norms_length (A : cscR) : length (row_norms OpsR A) = nr A.
Proof.
  unfold row_norms.
  apply (fold_left_inv (fun s : list R => length s = nr A)).
  - intros s e _ Hs. change (length (updmax s (fst e) (snd e)) = nr A).
    rewrite updmax_length. exact Hs.
  - apply repeat_length.
Qed.

Lemma row_norms_zero (A : cscR) i : row_zero A i -> nth i (row_norms OpsR A) 0 = 0.
Proof.
  intros Hr. unfold row_norms.
  apply (fold_left_inv (fun s : list R => nth i s 0 = 0)).
  - intros s e He Hs. change (nth i (updmax s (fst e) (snd e)) 0 = 0).
    apply updmax_keep_zero; [exact Hs|]. intros Hfe.
    apply in_concat in He. destruct He as [c [Hc Hec]]. apply (Hr c e Hc Hec Hfe).
  - cbn [zero OpsR]. apply nth_repeat.
Qed.

(** ** col_norms_no_reset, col_norms *)
Lemma col_norms_no_reset_length (A : cscR) init :
  length (col_norms_no_reset OpsR A init) = Nat.min (length (cols A)) (length init).
Proof. unfold col_norms_no_reset. rewrite map_length, combine_length. reflexivity. Qed.

Lemma col_norms_no_reset_nth (A : cscR) init j :
  (j < length (cols A))%nat -> (j < length init)%nat ->
  nth j (col_norms_no_reset OpsR A init) 0 =
  fold_left (maxabs OpsR) (map snd (nth j (cols A) [])) (nth j init 0).
Proof.
  unfold col_norms_no_reset. generalize (cols A) as cs. intros cs. revert init j.
  induction cs as [|c cs IH]; intros init j Hc Hi; cbn [length] in Hc; [lia|].
  destruct init as [|v init]; cbn [length] in Hi; [lia|].
  destruct j as [|j]; cbn [combine map nth fst snd]; [reflexivity|].
  apply IH; lia.
Qed.

Lemma col_norms_no_reset_zero (A : cscR) init j :
  (j < length (cols A))%nat -> (j < length init)%nat ->
  nth j init 0 = 0 -> col_zero A j ->
  nth j (col_norms_no_reset OpsR A init) 0 = 0.
Proof.
  intros Hc Hi H0 Hz. rewrite col_norms_no_reset_nth by assumption. rewrite H0.
  apply fold_maxabs_zero. intros v Hv. apply in_map_iff in Hv.
  destruct Hv as [en [<- Hen]]. apply Hz. exact Hen.
Qed.

Lemma col_norms_length (A : cscR) : length (col_norms OpsR A) = length (cols A).
Proof. unfold col_norms. apply map_length. Qed.

(** ** the scaling operations keep dimensions and stored zeros *)
Lemma map_vals_dims (f : nat -> nat -> R -> R) (A : cscR) :
  nr (map_vals f A) = nr A /\ nc (map_vals f A) = nc A /\
  length (cols (map_vals f A)) = length (cols A).
Proof.
  unfold map_vals. cbn [nr nc cols]. rewrite map_length, indexed_length. auto.
Qed.
Lemma map_vals_welldim (f : nat -> nat -> R -> R) (A : cscR) :
  WellDim A -> WellDim (map_vals f A).
Proof.
  unfold WellDim. intros H. destruct (map_vals_dims f A) as [_ [H2 H3]]. rewrite H3, H2. exact H.
Qed.

Lemma nth_cols_map_vals (f : nat -> nat -> R -> R) (A : cscR) j :
  nth j (cols (map_vals f A)) [] =
  map (fun e => (fst e, f (fst e) j (snd e))) (nth j (cols A) []).
Proof.
  unfold map_vals. cbn [cols].
  destruct (Nat.lt_ge_cases j (length (cols A))) as [Hj|Hj].
  - rewrite (nth_map_indexed _ (cols A) j []) by exact Hj. reflexivity.
  - rewrite nth_map_indexed_over by exact Hj. rewrite (nth_overflow (cols A)) by exact Hj.
    reflexivity.
Qed.

Lemma col_zero_map_vals (f : nat -> nat -> R -> R) (A : cscR) j :
  (forall r c, f r c 0 = 0) -> col_zero A j -> col_zero (map_vals f A) j.
Proof.
  intros Hf Hz en Hen. rewrite nth_cols_map_vals in Hen. apply in_map_iff in Hen.
  destruct Hen as [e0 [<- He0]]. cbn [snd]. rewrite (Hz e0 He0). apply Hf.
Qed.

Lemma row_zero_map_vals (f : nat -> nat -> R -> R) (A : cscR) i :
  (forall r c, f r c 0 = 0) -> row_zero A i -> row_zero (map_vals f A) i.
Proof.
  intros Hf Hz c en Hc Hen Hi.
  unfold map_vals in Hc. cbn [cols] in Hc. apply in_map_iff in Hc.
  destruct Hc as [[jj c0] [<- Hjc]]. cbn [fst snd] in Hen.
  apply in_map_iff in Hen. destruct Hen as [e0 [<- He0]]. cbn [fst snd] in Hi |- *.
  apply in_indexed in Hjc. destruct Hjc as [_ Hc0].
  rewrite (Hz c0 e0 Hc0 He0 Hi). apply Hf.
Qed.
